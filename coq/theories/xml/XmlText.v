(* The TEXT between the writer model (XmlDump.v, [dump_events]) and the reader model (XmlParse.v,
   [parse_events]): what the xml-rs 0.8.29 [EventWriter] prints for an event list ([render_xml]) and what
   the xml-rs [EventReader] + the filter_map of [parse_from_bytes] deliver for such a text ([lex_xml]).
   Executable definitions only (extracted and run against the real library); the theorems are in
   XmlTextProofs.v.

   WRITER (src/xml_db/dump/mod.rs: EmitterConfig::new().perform_indent(false); xml-rs writer/emitter.rs,
   writer/config.rs, escape.rs).  Defaults in force: write_document_declaration, perform_escaping,
   normalize_empty_elements, pad_self_closing, keep_element_names_stack, no indentation.
   - before the first StartElement/Characters the emitter prints  <?xml version="1.0" encoding="UTF-8"?>
     (emit_start_document with Version10 and "UTF-8"; no line break since perform_indent is false);
   - start_element prints  <name k="v" ...  WITHOUT the closing '>' and sets just_wrote_start_element;
     the next event decides: end_element prints " />" (pad_self_closing), anything else first prints ">"
     (fix_non_empty_element) - in particular characters("") turns <a /> into <a></a>;
   - characters(t) prints Escaped<PcDataEscapes>(t):   < &lt;   > &gt;   & &amp;
   - attribute values print Escaped<AttributeEscapes>(v):  < &lt;  > &gt;  DQUOTE &quot;  QUOTE &apos;  & &amp;
     LF &#xA;  CR &#xD;
   - end_element() (no name given by the crate) prints </name> with the name on the emitter's stack.
   [render_go] is this state machine with the flag just_wrote_start_element.  ILL-NESTED INPUT: the
   model prints the name carried by the [EEnd] event; the emitter would print the name of the innermost
   open element and FAIL (LastElementNameNotAvailable) when none is open; [EErr] prints nothing.  On
   well-nested lists (the only ones [dump_events] produces, and the only ones the theorem is about) the
   two agree.  Names are printed as given (no ':' handling: Name::from(&str) splits a prefix off at ':',
   the domain of the theorem excludes ':').

   READER (src/xml_db/parse/mod.rs: EventReader::new(xml), default ParserConfig2; xml-rs reader/lexer.rs,
   reader/parser.rs, reader/parser/*.rs).  [lex_xml] is a byte-at-a-time automaton that follows the
   PullParser on the fragment [render_xml] produces and answers [EErr] (after the events delivered so
   far, like the crate's Err event) on everything it does not handle.  See the notes at [lstep]. *)
From KP Require Import Bytes XmlTypes.
Local Open Scope N_scope.

(* ------------------------------------------------------------------------------------------ *)
(* Writer *)

(* <?xml version="1.0" encoding="UTF-8"?> *)
Definition xml_decl : bytes :=
  [60;63;120;109;108;32;118;101;114;115;105;111;110;61;34;49;46;48;34;32;
   101;110;99;111;100;105;110;103;61;34;85;84;70;45;56;34;63;62].

Definition e_lt : bytes := [38;108;116;59].              (* &lt; *)
Definition e_gt : bytes := [38;103;116;59].              (* &gt; *)
Definition e_amp : bytes := [38;97;109;112;59].          (* &amp; *)
Definition e_quot : bytes := [38;113;117;111;116;59].    (* &quot; *)
Definition e_apos : bytes := [38;97;112;111;115;59].     (* &apos; *)
Definition e_lf : bytes := [38;35;120;65;59].            (* &#xA; *)
Definition e_cr : bytes := [38;35;120;68;59].            (* &#xD; *)

(* escape.rs, PcDataEscapes *)
Definition esc_pcdata_byte (c : N) : bytes :=
  if N.eqb c 60 then e_lt else if N.eqb c 62 then e_gt else if N.eqb c 38 then e_amp else [c].
(* escape.rs, AttributeEscapes *)
Definition esc_attr_byte (c : N) : bytes :=
  if N.eqb c 60 then e_lt else if N.eqb c 62 then e_gt else if N.eqb c 34 then e_quot
  else if N.eqb c 39 then e_apos else if N.eqb c 38 then e_amp
  else if N.eqb c 10 then e_lf else if N.eqb c 13 then e_cr else [c].

Fixpoint escape_pcdata (t : bytes) : bytes :=
  match t with [] => [] | c :: r => esc_pcdata_byte c ++ escape_pcdata r end.
Fixpoint escape_attr (t : bytes) : bytes :=
  match t with [] => [] | c :: r => esc_attr_byte c ++ escape_attr r end.

(*  k="v"  with the leading blank (emit_attributes) *)
Definition render_attr (kv : bytes * bytes) : bytes :=
  32 :: fst kv ++ 61 :: 34 :: escape_attr (snd kv) ++ [34].
Fixpoint render_attrs (a : list (bytes * bytes)) : bytes :=
  match a with [] => [] | kv :: r => render_attr kv ++ render_attrs r end.

(* [open] = just_wrote_start_element *)
Fixpoint render_go (open : bool) (evs : list ev) : bytes :=
  match evs with
  | [] => []
  | EStart n a :: r => (if open then [62] else []) ++ 60 :: n ++ render_attrs a ++ render_go true r
  | EEnd n :: r => (if open then [32;47;62] else 60 :: 47 :: n ++ [62]) ++ render_go false r
  | EChars t :: r => (if open then [62] else []) ++ escape_pcdata t ++ render_go false r
  | EErr :: r => render_go open r
  end.

(* nothing at all is printed when no event is written *)
Definition render_xml (evs : list ev) : bytes :=
  match evs with [] => [] | _ => xml_decl ++ render_go false evs end.

(* ------------------------------------------------------------------------------------------ *)
(* Reader *)

(* common.rs is_xml10_char on single bytes: TAB LF CR and everything from 0x20 (bytes >= 0x80 are pieces of
   multi-byte characters and are passed through; U+FFFE/U+FFFF are looked for separately). *)
Definition xml_char (c : N) : bool := N.eqb c 9 || N.eqb c 10 || N.eqb c 13 || N.leb 32 c.

Definition is_alpha (c : N) : bool := (N.leb 65 c && N.leb c 90) || (N.leb 97 c && N.leb c 122).
Definition is_digit (c : N) : bool := N.leb 48 c && N.leb c 57.
(* the ASCII part of is_name_start_char / is_name_char WITHOUT ':' (a ':' makes a prefixed name, which
   the reader resolves against namespace declarations and the crate cuts down to the local name) *)
Definition is_name_start (c : N) : bool := is_alpha c || N.eqb c 95.
Definition is_name_char (c : N) : bool :=
  is_name_start c || is_digit c || N.eqb c 45 || N.eqb c 46.

Definition s_xmlns : bytes := [120;109;108;110;115].

(* RedefinedAttribute: a name already present in the tag; [acc] is the reversed list read so far *)
Definition attr_fresh (k : bytes) (acc : list (bytes * bytes)) : bool :=
  negb (existsb (fun kv => bytes_eqb k (fst kv)) acc).

(* U+FFFE = EF BF BE and U+FFFF = EF BF BF are not XML characters: [c] is about to be pushed on the
   reversed buffer [buf] *)
Definition nonchar_end (c : N) (buf : bytes) : bool :=
  (N.eqb c 190 || N.eqb c 191) &&
  match buf with b :: a :: _ => N.eqb b 191 && N.eqb a 239 | _ => false end.

(* references: inside_reference.rs.  lt gt amp apos quot, &#DDD; and &#xHHH; for XML 1.0 characters. *)
Definition hex_val (c : N) : option N :=
  if is_digit c then Some (c - 48)
  else if N.leb 65 c && N.leb c 70 then Some (c - 55)
  else if N.leb 97 c && N.leb c 102 then Some (c - 87)
  else None.
Definition dec_val (c : N) : option N := if is_digit c then Some (c - 48) else None.
Fixpoint digits_val (base : N) (dv : N -> option N) (acc : N) (l : bytes) : option N :=
  match l with
  | [] => Some acc
  | c :: r => match dv c with Some d => digits_val base dv (acc * base + d) r | None => None end
  end.
Definition number_val (base : N) (dv : N -> option N) (l : bytes) : option N :=
  match l with [] => None | _ => digits_val base dv 0 l end.
Definition xml10_scalar (n : N) : bool :=
  N.eqb n 9 || N.eqb n 10 || N.eqb n 13 || (N.leb 32 n && N.leb n 55295)
  || (N.leb 57344 n && N.leb n 65533) || (N.leb 65536 n && N.leb n 1114111).
Definition utf8_encode (n : N) : bytes :=
  if N.ltb n 128 then [n]
  else if N.ltb n 2048 then [192 + n / 64; 128 + n mod 64]
  else if N.ltb n 65536 then [224 + n / 4096; 128 + (n / 64) mod 64; 128 + n mod 64]
  else [240 + n / 262144; 128 + (n / 4096) mod 64; 128 + (n / 64) mod 64; 128 + n mod 64].
Definition decode_ref (name : bytes) : option bytes :=
  if bytes_eqb name [108;116] then Some [60]
  else if bytes_eqb name [103;116] then Some [62]
  else if bytes_eqb name [97;109;112] then Some [38]
  else if bytes_eqb name [97;112;111;115] then Some [39]
  else if bytes_eqb name [113;117;111;116] then Some [34]
  else match name with
       | 35 :: r =>
         match (match r with
                | 120 :: h => number_val 16 hex_val h
                | _ => number_val 10 dec_val r
                end) with
         | Some n => if xml10_scalar n then Some (utf8_encode n) else None
         | None => None
         end
       | _ => None
       end.
Definition is_ref_char (c : N) : bool := is_alpha c || is_digit c || N.eqb c 35.

(* Parser state.  Accumulators marked (rev) hold the bytes read so far in reverse order. *)
Inductive lmode :=
| LText (buf : bytes)                                          (* OutsideTag; text so far (rev) *)
| LTextRef (buf : bytes) (r : bytes)                           (* '&' seen in text; reference name (rev) *)
| LLt                                                          (* '<' seen *)
| LOpenName (n : bytes)                                        (* '<' + name so far (rev, non-empty) *)
| LInTag (n : bytes) (acc : list (bytes * bytes))              (* blank seen inside the tag *)
| LAttrName (n : bytes) (acc : list (bytes * bytes)) (k : bytes)        (* attribute name so far (rev) *)
| LAttrEq (n : bytes) (acc : list (bytes * bytes)) (k : bytes)          (* name= seen, the double quote expected *)
| LAttrVal (n : bytes) (acc : list (bytes * bytes)) (k v : bytes)       (* inside the quotes, value (rev) *)
| LAttrRef (n : bytes) (acc : list (bytes * bytes)) (k v r : bytes)     (* '&' seen inside the quotes *)
| LAfterVal (n : bytes) (acc : list (bytes * bytes))           (* closing double quote seen *)
| LSlash (n : bytes) (acc : list (bytes * bytes))              (* '/' seen inside the tag, '>' expected *)
| LCloseName (n : bytes)                                       (* '</' + name so far (rev) *)
| LFail.

Record lstate := mkL {
  l_out : list ev;          (* events delivered so far (rev) *)
  l_stack : list bytes;     (* open elements, innermost first (PullParser.est) *)
  l_mode : lmode }.

(* the buffered text at a markup token: nothing for an empty buffer, a Whitespace event (dropped by the
   crate) when every character is ' ' TAB LF CR, else one Characters event (coalesce_characters) *)
Definition flush (buf : bytes) (out : list ev) : list ev :=
  let t := rev buf in if ws_only t then out else EChars t :: out.

Definition start_el (n : bytes) (acc : list (bytes * bytes)) (out : list ev) (stack : list bytes) : lstate :=
  mkL (EStart n (rev acc) :: out) (n :: stack) (LText []).
Definition empty_el (n : bytes) (acc : list (bytes * bytes)) (out : list ev) (stack : list bytes) : lstate :=
  mkL (EEnd n :: EStart n (rev acc) :: out) stack (LText []).

(* One input byte.  Deviations from the EventReader, all OUTSIDE the fragment [render_xml] produces, all
   towards [EErr]: no comments, CDATA, processing instructions, DOCTYPE; no single-quoted attribute
   values; no blanks around '=' or before '>' in an end tag; no ':' and no non-ASCII characters in names;
   an attribute called xmlns (a namespace declaration for the reader, not an attribute) is refused.
   One deviation towards acceptance: a raw "]]>" in text is passed through (the reader refuses it). *)
Definition lstep (st : lstate) (c : N) : lstate :=
  let out := l_out st in
  let stack := l_stack st in
  let fail := mkL out stack LFail in
  match l_mode st with
  | LText buf =>
    match stack with
    | [] =>   (* depth 0: blanks are skipped (ignore_root_level_whitespace), text is an error *)
      if N.eqb c 60 then mkL (flush buf out) stack LLt
      else if is_ws c then st else fail
    | _ :: _ =>
      if N.eqb c 60 then mkL (flush buf out) stack LLt
      else if N.eqb c 38 then mkL out stack (LTextRef buf [])
      else if xml_char c && negb (nonchar_end c buf) then mkL out stack (LText (c :: buf))
      else fail
    end
  | LTextRef buf r =>
    if N.eqb c 59 then
      match decode_ref (rev r) with
      | Some d => mkL out stack (LText (rev d ++ buf))
      | None => fail
      end
    else if is_ref_char c then mkL out stack (LTextRef buf (c :: r))
    else fail
  | LLt =>
    if N.eqb c 47 then match stack with [] => fail | _ :: _ => mkL out stack (LCloseName []) end
    else if is_name_start c then mkL out stack (LOpenName [c])
    else fail
  | LOpenName n =>
    if is_name_char c then mkL out stack (LOpenName (c :: n))
    else if is_ws c then mkL out stack (LInTag (rev n) [])
    else if N.eqb c 62 then start_el (rev n) [] out stack
    else if N.eqb c 47 then mkL out stack (LSlash (rev n) [])
    else fail
  | LInTag n acc =>
    if is_ws c then st
    else if N.eqb c 62 then start_el n acc out stack
    else if N.eqb c 47 then mkL out stack (LSlash n acc)
    else if is_name_start c then mkL out stack (LAttrName n acc [c])
    else fail
  | LAttrName n acc k =>
    if is_name_char c then mkL out stack (LAttrName n acc (c :: k))
    else if N.eqb c 61 then
      let k' := rev k in
      if negb (bytes_eqb k' s_xmlns) && attr_fresh k' acc then mkL out stack (LAttrEq n acc k') else fail
    else fail
  | LAttrEq n acc k =>
    if N.eqb c 34 then mkL out stack (LAttrVal n acc k []) else fail
  | LAttrVal n acc k v =>
    if N.eqb c 34 then mkL out stack (LAfterVal n ((k, rev v) :: acc))
    else if N.eqb c 38 then mkL out stack (LAttrRef n acc k v [])
    else if N.eqb c 60 then fail
    else if xml_char c && negb (nonchar_end c v) then mkL out stack (LAttrVal n acc k (c :: v))
    else fail
  | LAttrRef n acc k v r =>
    if N.eqb c 59 then
      match decode_ref (rev r) with
      | Some d => mkL out stack (LAttrVal n acc k (rev d ++ v))
      | None => fail
      end
    else if is_ref_char c then mkL out stack (LAttrRef n acc k v (c :: r))
    else fail
  | LAfterVal n acc =>
    if is_ws c then mkL out stack (LInTag n acc)
    else if N.eqb c 62 then start_el n acc out stack
    else if N.eqb c 47 then mkL out stack (LSlash n acc)
    else fail
  | LSlash n acc =>
    if N.eqb c 62 then empty_el n acc out stack else fail
  | LCloseName n =>
    if (match n with [] => is_name_start c | _ :: _ => is_name_char c end) then mkL out stack (LCloseName (c :: n))
    else if N.eqb c 62 then
      match stack with
      | top :: rest =>
        if bytes_eqb top (rev n) then mkL (EEnd top :: out) rest (LText []) else fail
      | [] => fail
      end
    else fail
  | LFail => st
  end.

Fixpoint lrun (s : bytes) (st : lstate) : lstate :=
  match s with [] => st | c :: r => lrun r (lstep st c) end.

(* handle_eof: fine at depth 0, outside of markup, with at least one element seen (several top-level
   elements are accepted: ParserConfig2::default() has allow_multiple_root_elements = true); otherwise the
   events so far followed by the error *)
Definition lfinish (st : lstate) : list ev :=
  match l_mode st, l_stack st, l_out st with
  | LText _, [], _ :: _ => rev (l_out st)
  | _, _, _ => rev (l_out st) ++ [EErr]
  end.

Fixpoint strip_prefix (p s : bytes) : option bytes :=
  match p with
  | [] => Some s
  | a :: p' => match s with
               | b :: s' => if N.eqb a b then strip_prefix p' s' else None
               | [] => None
               end
  end.

Definition linit : lstate := mkL [] [] (LText []).

(* The declaration is accepted exactly as the writer prints it, or absent. *)
Definition lex_xml (s : bytes) : list ev :=
  let body := match strip_prefix xml_decl s with Some r => r | None => s end in
  lfinish (lrun body linit).

From Coq Require Import Lia ZifyN ZifyBool.
From KP Require Import Bytes Outcome LE Scalars.
Local Open Scope N_scope.
Ltac Zify.zify_post_hook ::= Z.div_mod_to_equations.

(* every hex digit is read back *)
Lemma hex_val_digit v : v < 16 -> hex_val (hex_digit v) = Some v.
Proof.
  intro H. assert (Hc : forallb (fun v => match hex_val (hex_digit v) with Some w => N.eqb w v | None => false end)
                                [0;1;2;3;4;5;6;7;8;9;10;11;12;13;14;15] = true) by (vm_compute; reflexivity).
  rewrite forallb_forall in Hc.
  assert (Hin : In v [0;1;2;3;4;5;6;7;8;9;10;11;12;13;14;15]).
  { assert (v = 0 \/ v = 1 \/ v = 2 \/ v = 3 \/ v = 4 \/ v = 5 \/ v = 6 \/ v = 7 \/ v = 8 \/ v = 9 \/ v = 10
            \/ v = 11 \/ v = 12 \/ v = 13 \/ v = 14 \/ v = 15) as Hv by lia.
    cbn [In]. intuition. }
  specialize (Hc v Hin). destruct (hex_val (hex_digit v)) as [w|]; [|discriminate].
  apply N.eqb_eq in Hc. congruence.
Qed.

Lemma hex_digit_not_hash v : v < 16 -> hex_digit v <> 35.
Proof. intro H. unfold hex_digit. destruct (N.ltb_spec v 10); lia. Qed.
Lemma hex_digit_not_plus v : v < 16 -> hex_digit v <> 43.
Proof. intro H. unfold hex_digit. destruct (N.ltb_spec v 10); lia. Qed.

Lemma trim_hashes_cons c l : trim_hashes (c :: l) = if N.eqb c 35 then trim_hashes l else c :: l.
Proof.
  destruct c as [|p]; [reflexivity|].
  do 7 (try (destruct p as [p|p|]; try reflexivity)).
Qed.

Lemma strip_plus_cons c (l : bytes) :
  match c :: l with 43 :: r0 => r0 | _ => c :: l end = if N.eqb c 43 then l else c :: l.
Proof.
  destruct c as [|p]; [reflexivity|].
  do 7 (try (destruct p as [p|p|]; try reflexivity)).
Qed.

(* Colour round trip for all 2^24 colours (a three-byte argument, not a sweep) *)
Theorem color_roundtrip r g b :
  r < 256 -> g < 256 -> b < 256 -> parse_color (fmt_color r g b) = Some (r, g, b).
Proof.
  intros Hr Hg Hb. unfold fmt_color, hex2. cbn [app].
  assert (D : forall x, x < 256 -> x / 16 < 16 /\ x mod 16 < 16) by (intros x Hx; lia).
  destruct (D r Hr) as [R1 R2]. destruct (D g Hg) as [G1 G2]. destruct (D b Hb) as [B1 B2].
  unfold parse_color. cbn [length Nat.eqb negb].
  rewrite (trim_hashes_cons 35), N.eqb_refl.
  rewrite trim_hashes_cons.
  destruct (N.eqb_spec (hex_digit (r / 16)) 35) as [E|_]; [exfalso; exact (hex_digit_not_hash _ R1 E)|].
  unfold parse_hex_u64. rewrite strip_plus_cons.
  destruct (N.eqb_spec (hex_digit (r / 16)) 43) as [E|_]; [exfalso; exact (hex_digit_not_plus _ R1 E)|].
  cbn [parse_hex_digits].
  rewrite !hex_val_digit by assumption.
  set (v := ((((((0 * 16 + r / 16) * 16 + r mod 16) * 16 + g / 16) * 16 + g mod 16) * 16 + b / 16) * 16 + b mod 16)).
  assert (Hv : v = r * 65536 + g * 256 + b) by (subst v; lia).
  assert (Hlt : v < 2 ^ 64).
  { rewrite Hv. change (2 ^ 64) with 18446744073709551616. lia. }
  destruct (N.ltb_spec v (2 ^ 64)) as [_|L]; [|lia].
  rewrite Hv. repeat f_equal; lia.
Qed.

(* the unrepaired formatter is not inverted by the parser: the failing input of F1 *)
Lemma color_old_refuted : exists r g b, r < 256 /\ g < 256 /\ b < 256 /\ parse_color (fmt_color_old r g b) <> Some (r, g, b).
Proof. exists 1, 2, 3. repeat split; try lia. vm_compute. discriminate. Qed.

(* Positions in written documents: for EVERY content and EVERY entry or group of its tree (at any depth),
   the context of that node in the dumped document - so the variation theorems apply to all of them, not
   only to worked examples. *)
From Coq Require Import Lia.
From KP Require Import Bytes Outcome LE Utf8 Base64 Scalars XmlTypes XmlDump XmlParse XmlSpec XmlCodecProofs
  XmlStream XmlRoundTrip XmlSurfaceCore XmlSurfaceVar XmlSurfaceUnknown XmlSurfaceDump.

Lemma ctx_comp s s' p q :
  ctx s s' p q -> forall s'' p' q', ctx s' s'' p' q' -> ctx s s'' (p ++ p') (q' ++ q).
Proof.
  induction 1 as [s | k s' a p q _ IH | k s' B1 B2 p q H1 H2 _ IH | k s' B1 B2 p q H1 H2 _ IH | k k' s' p q Hc _ IH];
    intros s'' p' q' C.
  - cbn [app]. rewrite app_nil_r. exact C.
  - cbn [app]. rewrite app_assoc. apply ctx_elem. apply IH. exact C.
  - rewrite <- app_assoc, (app_assoc q' q B2). apply ctx_body; [exact H1|exact H2|]. apply IH. exact C.
  - rewrite <- app_assoc, (app_assoc q' q B2). apply ctx_child; [exact H1|exact H2|]. apply IH. exact C.
  - eapply ctx_sub; [exact Hc|]. apply IH. exact C.
Qed.

Lemma devs_dmap_app {A} (f : A -> dumper) l1 l2 ks :
  devs (dmap f (l1 ++ l2)) ks = devs (dmap f l1) ks ++ devs (dmap f l2) (dks (dmap f l1) ks).
Proof.
  revert ks. induction l1 as [|x r IH]; intro ks; [reflexivity|].
  cbn [app]. rewrite !devs_dmap_cons, dks_dmap_cons, IH, app_assoc. reflexivity.
Qed.

Lemma dks_dmap_app {A} (f : A -> dumper) l1 l2 ks :
  dks (dmap f (l1 ++ l2)) ks = dks (dmap f l2) (dks (dmap f l1) ks).
Proof.
  revert ks. induction l1 as [|x r IH]; intro ks; [reflexivity|].
  cbn [app]. rewrite !dks_dmap_cons, IH. reflexivity.
Qed.

Lemma sd_nodes l : sd K_group (dmap dump_node l).
Proof.
  apply sd_map. intros [e|g].
  - apply (sd_sub K_group K_entry); [reflexivity|apply ed_entry].
  - apply (sd_sub K_group K_group); [reflexivity|apply ed_group].
Qed.

(* a child node of a group *)
Lemma dump_group_child_ctx uuid name notes icon cicon l1 c l2 tms cd exp das ea es ltve ks :
  exists p q ks',
    devs (dump_group (mkGroup uuid name notes icon cicon (l1 ++ c :: l2) tms cd exp das ea es ltve)) ks
    = p ++ devs (dump_node c) ks' ++ q
    /\ ctx (SElem K_group) (SChild K_group) p q.
Proof.
  cbn [dump_group].
  change (dmap (fun c0 => match c0 with inl e => dump_entry e | inr g' => dump_group g' end) (l1 ++ c :: l2))
    with (dmap dump_node (l1 ++ c :: l2)).
  set (fr := group_front uuid name notes icon cicon tms cd exp das ea es ltve).
  set (B1 := devs fr ks ++ devs (dmap dump_node l1) (dks fr ks)).
  set (ks' := dks (dmap dump_node l1) (dks fr ks)).
  set (B2 := devs (dmap dump_node l2) (dks (dump_node c) ks')).
  exists (EStart (tag K_group) [] :: (B1 ++ [])), (([] ++ B2) ++ [EEnd (tag K_group)]), ks'. split.
  - rewrite devs_wrap. cbn [tag app]. f_equal. rewrite app_nil_r. subst B1 B2 ks' fr. unfold group_front.
    rewrite !devs_dseq, !dks_dseq, !devs_dpure, !dks_dpure, devs_dmap_app, devs_dmap_cons. rewrite <- !app_assoc. reflexivity.
  - apply ctx_elem. apply ctx_child; [| |apply ctx_hole].
    + subst B1. apply sb_app; [apply sd_group_front|apply sd_nodes].
    + subst B2. apply sd_nodes.
Qed.

(* the nodes of a group tree, at any depth *)
Inductive node_at : group -> entry + group -> Prop :=
| na_here g c : In c (g_children g) -> node_at g c
| na_deep g g' c : In (inr g') (g_children g) -> node_at g' c -> node_at g c.

Lemma node_ctx g c :
  node_at g c -> forall ks, exists p q ks',
    devs (dump_group g) ks = p ++ devs (dump_node c) ks' ++ q /\ ctx (SElem K_group) (SChild K_group) p q.
Proof.
  induction 1 as [g c Hin | g g' c Hin _ IH]; intro ks.
  - destruct g as [uuid name notes icon cicon children tms cd exp das ea es ltve]. cbn [g_children] in Hin.
    destruct (in_split _ _ Hin) as [l1 [l2 ->]]. apply dump_group_child_ctx.
  - destruct g as [uuid name notes icon cicon children tms cd exp das ea es ltve]. cbn [g_children] in Hin.
    destruct (in_split _ _ Hin) as [l1 [l2 ->]].
    destruct (dump_group_child_ctx uuid name notes icon cicon l1 (inr g') l2 tms cd exp das ea es ltve ks) as [p1 [q1 [ks1 [E1 C1]]]].
    destruct (IH ks1) as [p2 [q2 [ks2 [E2 C2]]]]. cbn [dump_node] in E1.
    exists (p1 ++ p2), (q2 ++ q1), ks2. split.
    + rewrite E1, E2. rewrite <- !app_assoc. reflexivity.
    + apply (ctx_comp _ _ _ _ C1). apply (ctx_sub K_group K_group); [reflexivity|exact C2].
Qed.

Section gz.
  Variable gzip : bytes -> bytes.

  (* the root group inside the document *)
  Lemma dump_root_group_ctx c ks :
    exists p q ks',
      dump_events gzip c ks = p ++ devs (dump_group (c_root c)) ks' ++ q /\ ctx (SElem K_file) (SChild K_root) p q.
  Proof.
    unfold dump_events. change (fst (dump_content gzip c ks)) with (devs (dump_content gzip c) ks). unfold dump_content.
    set (M := devs (dump_meta gzip (c_meta c)) ks). set (ks' := dks (dump_meta gzip (c_meta c)) ks).
    set (D := dump_deleted (c_deleted c)).
    exists (EStart (tag K_file) [] :: (M ++ (EStart (tag K_root) [] :: ([] ++ [])))),
           (((([] ++ D) ++ [EEnd (tag K_root)]) ++ []) ++ [EEnd (tag K_file)]), ks'. split.
    - rewrite devs_wrap, devs_dseq, devs_wrap, devs_dseq, devs_dpure. cbn [tag app]. subst M ks' D.
      rewrite <- !app_assoc. cbn [app]. rewrite <- !app_assoc. reflexivity.
    - apply ctx_elem. apply ctx_child; [|apply sb_nil|].
      + subst M. apply (sb_sub K_file K_meta); [reflexivity|apply ed_meta].
      + apply (ctx_sub K_file K_root); [reflexivity|]. apply ctx_elem. apply ctx_child; [apply sb_nil| |apply ctx_hole].
        subst D. apply (sb_sub K_root K_deleted); [reflexivity|apply se_deleted].
  Qed.

  (* every node of the tree, inside the document *)
  Theorem dumped_node_ctx c ks x :
    node_at (c_root c) x ->
    exists p q ks',
      dump_events gzip c ks = p ++ devs (dump_node x) ks' ++ q /\ ctx (SElem K_file) (SChild K_group) p q.
  Proof.
    intro Hn. destruct (dump_root_group_ctx c ks) as [p0 [q0 [ks0 [E0 C0]]]].
    destruct (node_ctx _ _ Hn ks0) as [p1 [q1 [ks1 [E1 C1]]]].
    exists (p0 ++ p1), (q1 ++ q0), ks1. split.
    - rewrite E0, E1. rewrite <- !app_assoc. reflexivity.
    - apply (ctx_comp _ _ _ _ C0). apply (ctx_sub K_root K_group); [reflexivity|exact C1].
  Qed.

  (* every entry of the tree: the position between <Tags> and the rest of its children *)
  Theorem dumped_entry_ctx c ks e :
    node_at (c_root c) (inl e) ->
    exists p q ks',
      dump_events gzip c ks
      = (p ++ EStart s_Entry [] :: entry_front (e_uuid e) (e_tags e))
        ++ (devs (entry_back (e_fields e) (e_autotype e) (e_times e) (e_custom_data e) (e_icon_id e) (e_custom_icon e)
                             (e_fg e) (e_bg e) (e_override_url e) (e_quality_check e) (e_history e)) ks'
              ++ EEnd s_Entry :: q)
      /\ ctx (SElem K_file) (SBody K_entry) (p ++ EStart s_Entry [] :: entry_front (e_uuid e) (e_tags e))
             (devs (entry_back (e_fields e) (e_autotype e) (e_times e) (e_custom_data e) (e_icon_id e) (e_custom_icon e)
                               (e_fg e) (e_bg e) (e_override_url e) (e_quality_check e) (e_history e)) ks'
                ++ EEnd s_Entry :: q).
  Proof.
    intro Hn. destruct (dumped_node_ctx c ks (inl e) Hn) as [p [q [ks' [E C]]]]. cbn [dump_node] in E.
    destruct e as [uuid fields aty tags tms cd icon cicon fg bg url qc hist].
    cbn [e_uuid e_tags e_fields e_autotype e_times e_custom_data e_icon_id e_custom_icon e_fg e_bg e_override_url
         e_quality_check e_history].
    set (back := devs (entry_back fields aty tms cd icon cicon fg bg url qc hist) ks').
    exists p, q, ks'. split.
    - rewrite E, dump_entry_split, devs_wrap, devs_dseq, devs_dpure, dks_dpure. fold back.
      rewrite <- !app_assoc. cbn [app]. rewrite <- !app_assoc. reflexivity.
    - assert (Ep : p ++ EStart s_Entry [] :: entry_front uuid tags
                   = p ++ (EStart (tag K_entry) [] :: (entry_front uuid tags ++ []))) by (rewrite app_nil_r; reflexivity).
      assert (Eq : back ++ EEnd s_Entry :: q = ((([] ++ back) ++ [EEnd (tag K_entry)]) ++ q))
        by (cbn [app tag]; rewrite <- app_assoc; reflexivity).
      change (ctx (SElem K_file) (SBody K_entry) (p ++ EStart s_Entry [] :: entry_front uuid tags) (back ++ EEnd s_Entry :: q)).
      rewrite Ep, Eq.
      apply (ctx_comp _ _ _ _ C). apply (ctx_sub K_group K_entry); [reflexivity|]. apply ctx_elem.
      apply ctx_body; [apply sb_entry_front|apply sd_entry_back|apply ctx_hole].
  Qed.
End gz.

(* ------------------------------------------------------------------------------------------ *)
(* inside an entry: every <String> value and every time stamp *)
Definition entry_rest (aty : option autotype) (tms : times) (cd : custom_data)
           (icon : option N) (cicon : option bytes) (fg bg : option color) (url : option bytes) (qc : option bool)
           (hist : option (list entry)) : dumper :=
  dseq (dump_custom_data cd)
  (dseq (dpure (match aty with Some a => dump_autotype a | None => [] end
                ++ dump_times tms ++ entry_tail icon cicon fg bg url qc))
        (match hist with
         | Some h => wrap s_History (dmap dump_entry h)
         | None => dpure []
         end)).
Lemma sd_entry_rest aty tms cd icon cicon fg bg url qc hist : sd K_entry (entry_rest aty tms cd icon cicon fg bg url qc hist).
Proof.
  intro ks. pose proof (sd_entry_back [] aty tms cd icon cicon fg bg url qc hist ks) as H.
  unfold entry_back in H. rewrite devs_dseq in H. exact H.
Qed.
Lemma sd_fields l : sd K_entry (dmap dump_field l).
Proof. apply sd_map. intro kv. apply (sd_sub K_entry K_string); [reflexivity|apply ed_field]. Qed.

Lemma dump_value_shape v ks :
  exists a o, devs (dump_value v) ks = shape s_Value a o
              /\ match v with VProtected _ => a = [(s_Protected, s_True)] | _ => a = [] end.
Proof.
  destruct v as [t|p|b]; unfold devs; cbn [dump_value dpure fst].
  - exists [], (if ws_only t then None else Some t). split; [apply simple_shape|reflexivity].
  - exists [(s_Protected, s_True)], (if ws_only (b64_encode (xor_ks p ks)) then None else Some (b64_encode (xor_ks p ks))).
    split; [|reflexivity]. unfold emit_chars. destruct (ws_only _); reflexivity.
  - exists [], (if ws_only b then None else Some b). split; [apply simple_shape|reflexivity].
Qed.

Lemma devs_dump_field key v ks :
  devs (dump_field (key, v)) ks = EStart s_String [] :: (simple s_Key key ++ devs (dump_value v) ks) ++ [EEnd s_String].
Proof. unfold dump_field. cbn [fst snd]. rewrite devs_wrap, devs_dseq, devs_dpure, dks_dpure. reflexivity. Qed.

Section gz2.
  Variable gzip : bytes -> bytes.

  (* the <Value> of any <String> of any entry *)
  Theorem dumped_string_value_ctx c ks uuid l1 key v l2 aty tags tms cd icon cicon fg bg url qc hist :
    node_at (c_root c) (inl (mkEntry uuid (l1 ++ (key, v) :: l2) aty tags tms cd icon cicon fg bg url qc hist)) ->
    exists p q ks1,
      dump_events gzip c ks = p ++ devs (dump_value v) ks1 ++ q /\ ctx (SElem K_file) (SChild K_string) p q.
  Proof.
    intro Hn. destruct (dumped_node_ctx gzip c ks _ Hn) as [p [q [ks' [E C]]]]. cbn [dump_node] in E.
    rewrite dump_entry_split in E.
    set (F1 := devs (dmap dump_field l1) ks').
    set (k1 := dks (dmap dump_field l1) ks').
    set (k2 := dks (dump_field (key, v)) k1).
    set (F2 := devs (dmap dump_field l2) k2).
    set (k3 := dks (dmap dump_field l2) k2).
    set (R := devs (entry_rest aty tms cd icon cicon fg bg url qc hist) k3).
    exists (p ++ (EStart (tag K_entry) [] :: ((entry_front uuid tags ++ F1) ++
                   (EStart (tag K_string) [] :: (simple s_Key key ++ []))))),
           ((((([] ++ []) ++ [EEnd (tag K_string)]) ++ (F2 ++ R)) ++ [EEnd (tag K_entry)]) ++ q), k1. split.
    - rewrite E. rewrite devs_wrap, devs_dseq, devs_dpure, dks_dpure. unfold entry_back. fold (entry_rest aty tms cd icon cicon fg bg url qc hist).
      rewrite devs_dseq, devs_dmap_app, dks_dmap_app, devs_dmap_cons, dks_dmap_cons.
      rewrite devs_dump_field.
      subst F1 k1 k2 F2 k3 R. cbn [tag]. rewrite ?app_nil_r.
      repeat progress (rewrite <- ?app_assoc; cbn [app]). reflexivity.
    - apply (ctx_comp _ _ _ _ C). apply (ctx_sub K_group K_entry); [reflexivity|]. apply ctx_elem.
      apply ctx_child.
      + subst F1. apply sb_app; [apply sb_entry_front|apply sd_fields].
      + subst F2 R. apply sb_app; [apply sd_fields|apply sd_entry_rest].
      + apply (ctx_sub K_entry K_string); [reflexivity|]. apply ctx_elem.
        apply ctx_child; [apply sb_simple_leaf; reflexivity|apply sb_nil|apply ctx_hole].
  Qed.
End gz2.

Lemma sb_time_entry kv : structured K_times (dump_time_entry kv).
Proof.
  destruct kv as [n v]. unfold dump_time_entry. cbn [fst snd].
  destruct (bytes_eqb n s_Expires) eqn:E1.
  { apply sb_simple_leaf. cbn [cls]. unfold cls_times. rewrite E1. reflexivity. }
  destruct (bytes_eqb n s_UsageCount) eqn:E2.
  { apply sb_simple_leaf. cbn [cls]. unfold cls_times. rewrite E1, E2. reflexivity. }
  apply sb_simple_time. cbn [cls]. unfold cls_times. rewrite E1, E2. reflexivity.
Qed.
Lemma sd_hist (hist : option (list entry)) :
  sd K_entry (match hist with Some h => wrap s_History (dmap dump_entry h) | None => dpure [] end).
Proof.
  destruct hist as [h|]; [|apply sd_pure, sb_nil].
  apply (sd_sub K_entry K_history); [reflexivity|]. apply (ed_wrap K_history). apply sd_map. intro e.
  apply (sd_sub K_history K_entry); [reflexivity|apply ed_entry].
Qed.

Section gz3.
  Variable gzip : bytes -> bytes.

  (* every time stamp of the <Times> of any entry *)
  Theorem dumped_entry_time_ctx c ks uuid fields aty tags exp usage t1 key t t2 cd icon cicon fg bg url qc hist :
    node_at (c_root c)
            (inl (mkEntry uuid fields aty tags (mkTimes exp usage (t1 ++ (key, t) :: t2)) cd icon cicon fg bg url qc hist)) ->
    exists p q,
      dump_events gzip c ks = p ++ simple key (fmt_time t) ++ q /\ ctx (SElem K_file) (SChild K_times) p q.
  Proof.
    intro Hn. destruct (dumped_node_ctx gzip c ks _ Hn) as [p [q [ks' [E C]]]]. cbn [dump_node] in E.
    rewrite dump_entry_split in E.
    set (Ff := devs (dmap dump_field fields) ks').
    set (k1 := dks (dmap dump_field fields) ks').
    set (Cd := devs (dump_custom_data cd) k1).
    set (k2 := dks (dump_custom_data cd) k1).
    set (A := match aty with Some a => dump_autotype a | None => [] end).
    set (T := entry_tail icon cicon fg bg url qc).
    set (Hd := match hist with Some h => wrap s_History (dmap dump_entry h) | None => dpure [] end).
    set (T1 := concat (map dump_time_entry t1)).
    set (T2 := concat (map dump_time_entry t2)).
    set (EU := simple s_Expires (fmt_bool exp) ++ simple s_UsageCount (fmt_N usage)).
    exists (p ++ (EStart (tag K_entry) [] :: ((((entry_front uuid tags ++ Ff) ++ Cd) ++ A) ++
                   (EStart (tag K_times) [] :: (T1 ++ []))))),
           ((((([] ++ (T2 ++ EU)) ++ [EEnd (tag K_times)]) ++ (T ++ devs Hd k2)) ++ [EEnd (tag K_entry)]) ++ q). split.
    - rewrite E. rewrite devs_wrap, devs_dseq, devs_dpure, dks_dpure. unfold entry_back.
      rewrite !devs_dseq, ?dks_dseq, devs_dpure, dks_dpure. unfold dump_times. cbn [t_times t_expires t_usage].
      rewrite map_app, concat_app. cbn [map concat]. unfold dump_time_entry at 2. cbn [fst snd].
      subst Ff k1 Cd k2 A T Hd T1 T2 EU. cbn [tag]. rewrite ?app_nil_r.
      repeat progress (rewrite <- ?app_assoc; cbn [app]). reflexivity.
    - apply (ctx_comp _ _ _ _ C). apply (ctx_sub K_group K_entry); [reflexivity|]. apply ctx_elem.
      apply ctx_child.
      + apply sb_app; [apply sb_app; [apply sb_app; [apply sb_entry_front|apply sd_fields]|]|].
        * subst Cd. apply (sd_sub K_entry K_cdata); [reflexivity|apply ed_custom_data].
        * subst A. destruct aty as [a|]; [|apply sb_nil]. apply (sb_sub K_entry K_autotype); [reflexivity|apply se_autotype].
      + apply sb_app; [apply sb_entry_tail|apply sd_hist].
      + apply (ctx_sub K_entry K_times); [reflexivity|]. apply ctx_elem. apply ctx_child; [| |apply ctx_hole].
        * subst T1. apply sb_concat. apply sb_time_entry.
        * subst T2 EU. apply sb_app; [apply sb_concat; apply sb_time_entry|].
          apply sb_app; apply sb_simple_leaf; reflexivity.
  Qed.
End gz3.

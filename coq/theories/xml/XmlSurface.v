(* C01, XML surface forms: the reader returns the same content (and leaves the inner key stream at the same
   place) for every lay-out of the document that differs from what the writer produces by
     (1) unknown elements between the children of the containers that skip them,
     (3) the ISO-8601 spelling of time stamps instead of base64,
     (4) the case of the values of the attributes Protected / Compressed
   (and, XmlSurfaceOrder.v, (2) the order of children).  White space, comments and the two spellings of an
   empty element do not reach the event level (XmlTypes.v, XmlDump.v).

   Positions are given by one-hole contexts [ctx s s' p q]: the document is p ++ x ++ q, the hole x is of
   sort s' (the children of a container, or one child), every sibling on the path from the root to the hole
   is structured.  [surface_variant] is the transitive closure of the single variations ([sv_var] with
   [dump_structured] gives reflexivity on every dumped document); [surface_variant_roundtrip] is the combined statement (5). *)
From Coq Require Import Lia.
From KP Require Import Bytes Outcome LE Utf8 Base64 Scalars XmlTypes XmlDump XmlParse XmlSpec XmlCodecProofs
  XmlStream XmlRoundTrip XmlSurfaceIso XmlSurfaceCore XmlSurfaceAttr XmlSurfaceVar XmlSurfaceUnknown XmlSurfaceDump
  XmlSurfaceDumpCtx XmlSurfaceExamples XmlSurfaceOrder XmlSurfaceOrderExamples.
Local Open Scope outcome_scope.

(* ------------------------------------------------------------------------------------------ *)
(* the variations, one at a time, at any position of the document *)
Inductive surface_variant : list ev -> list ev -> Prop :=
| sv_trans d1 d2 d3 : surface_variant d1 d2 -> surface_variant d2 d3 -> surface_variant d1 d3
(* (1) an unknown element between two children of a [k] container *)
| sv_unknown k p q sub :
    ctx (SElem K_file) (SBody k) p q -> unknown k sub -> surface_variant (p ++ q) (p ++ sub ++ q)
(* (3) another spelling of a time stamp (and any attributes on its element) *)
| sv_time k n a a' t t' p q :
    ctx (SElem K_file) (SChild k) p q -> cls k n = CTime -> parse_time t = parse_time t' ->
    surface_variant (p ++ shape n a (Some t) ++ q) (p ++ shape n a' (Some t') ++ q)
(* (4) other attributes on <Value>, the same Protected flag *)
| sv_value_attrs k n a a' o p q :
    ctx (SElem K_file) (SChild k) p q -> cls k n = CValue ->
    attr_bool s_Protected a = attr_bool s_Protected a' ->
    surface_variant (p ++ shape n a o ++ q) (p ++ shape n a' o ++ q)
(* (4) other attributes on Meta's <Binary>, the same ID, Compressed and Protected *)
| sv_binary_attrs k n a a' o p q :
    ctx (SElem K_file) (SChild k) p q -> cls k n = CMetaBin -> same_bin_attrs a a' ->
    surface_variant (p ++ shape n a o ++ q) (p ++ shape n a' o ++ q)
(* attributes on a SimpleTag element are not looked at *)
| sv_leaf_attrs k n a a' o p q :
    ctx (SElem K_file) (SChild k) p q -> cls k n = CLeaf ->
    surface_variant (p ++ shape n a o ++ q) (p ++ shape n a' o ++ q)
(* any number of the above at once *)
| sv_var d d' : var (SElem K_file) d d' -> surface_variant d d'.

(* the spellings the task names *)
Lemma sv_time_iso k n a t p q :
  ctx (SElem K_file) (SChild k) p q -> cls k n = CTime -> (iso_min <= t <= iso_max)%Z ->
  surface_variant (p ++ shape n a (Some (fmt_time t)) ++ q) (p ++ shape n a (Some (iso_of_time t)) ++ q).
Proof. intros C Hc Ht. apply (sv_time k n a a _ _ p q C Hc). symmetry. apply parse_time_iso_b64. exact Ht. Qed.
Lemma sv_protected_case k n a f o p q :
  ctx (SElem K_file) (SChild k) p q -> cls k n = CValue -> case_only f ->
  surface_variant (p ++ shape n a o ++ q) (p ++ shape n (recase s_Protected f a) o ++ q).
Proof. intros C Hc Hf. apply (sv_value_attrs k n a _ o p q C Hc). apply value_attrs_recase. exact Hf. Qed.
Lemma sv_binary_case k n a f g o p q :
  ctx (SElem K_file) (SChild k) p q -> cls k n = CMetaBin -> case_only f -> case_only g ->
  surface_variant (p ++ shape n a o ++ q) (p ++ shape n (recase s_Compressed f (recase s_Protected g a)) o ++ q).
Proof. intros C Hc Hf Hg. apply (sv_binary_attrs k n a _ o p q C Hc). apply binary_attrs_recase; assumption. Qed.

Lemma var_nil_unknown k sub : unknown k sub -> var (SBody k) [] sub.
Proof.
  intro Hu. pose proof (v_ins_r k sub [] [] Hu (v_nil k)) as V. rewrite app_nil_r in V. exact V.
Qed.

Section main.
  Variable gunzip : bytes -> option bytes.

  (* a variant is read like the original: value, rest, final stream or error, in front of any continuation *)
  Theorem surface_variant_keepass d d' :
    surface_variant d d' ->
    forall n n' X ks, length (d ++ X) <= S n -> length (d' ++ X) <= S n' ->
      p_keepass gunzip n (d ++ X) ks = p_keepass gunzip n' (d' ++ X) ks.
  Proof.
    induction 1 as [d1 d2 d3 _ IH1 _ IH2 | k p q sub C Hu | k n a a' t t' p q C Hc Ht | k n a a' o p q C Hc Ha
                    | k n a a' o p q C Hc Ha | k n a a' o p q C Hc | d d' V]; intros m m' X ks L L'.
    - rewrite (IH1 m (length (d2 ++ X)) X ks L ltac:(lia)). apply IH2; [lia|exact L'].
    - pose proof (ctx_var _ _ _ _ C [] sub (var_nil_unknown k sub Hu)) as V. cbn [app] in V.
      exact (var_keepass gunzip _ _ V m m' X ks L L').
    - assert (V : var (SChild k) (shape n a (Some t)) (shape n a' (Some t'))) by (apply v_time; [exact Hc|exact Ht]).
      exact (var_keepass gunzip _ _ (ctx_var _ _ _ _ C _ _ V) m m' X ks L L').
    - assert (V : var (SChild k) (shape n a o) (shape n a' o)) by (apply v_value; assumption).
      exact (var_keepass gunzip _ _ (ctx_var _ _ _ _ C _ _ V) m m' X ks L L').
    - assert (V : var (SChild k) (shape n a o) (shape n a' o)) by (apply v_mbin; assumption).
      exact (var_keepass gunzip _ _ (ctx_var _ _ _ _ C _ _ V) m m' X ks L L').
    - assert (V : var (SChild k) (shape n a o) (shape n a' o)) by (apply v_leaf; assumption).
      exact (var_keepass gunzip _ _ (ctx_var _ _ _ _ C _ _ V) m m' X ks L L').
    - exact (var_keepass gunzip d d' V m m' X ks L L').
  Qed.
End main.

(* ------------------------------------------------------------------------------------------ *)
(* (5) the combined statement *)
Section combined.
  Variable gzip : bytes -> bytes.
  Variable gunzip : bytes -> option bytes.

  Theorem surface_variant_parse d d' :
    surface_variant d d' -> forall ks, parse_events gunzip d ks = parse_events gunzip d' ks.
  Proof.
    intros V ks. unfold parse_events.
    pose proof (surface_variant_keepass gunzip d d' V (length d) (length d') [] ks) as H. rewrite !app_nil_r in H.
    rewrite H by lia. reflexivity.
  Qed.

  (* every surface variant of a written document reads back as the stored content, and the reader leaves
     the inner key stream exactly where the writer left it *)
  Theorem surface_variant_roundtrip c ks d' :
    wf_content gzip gunzip c = true -> bytes_ok ks = true ->
    surface_variant (dump_events gzip c ks) d' ->
    parse_events gunzip d' ks = Ok c
    /\ forall X, p_keepass gunzip (length (d' ++ X)) (d' ++ X) ks
                 = Ok (c, X, drop (total_length (protected_values_in_order c)) ks).
  Proof.
    intros Hwf Hks V. split.
    - rewrite <- (surface_variant_parse _ _ V ks). apply parse_dump_roundtrip; assumption.
    - intro X. rewrite <- (parse_dump_stream gzip gunzip c ks X Hwf Hks).
      symmetry. apply (surface_variant_keepass gunzip _ _ V); lia.
  Qed.

  (* the single variations of a written document, spelled out *)
  Corollary dumped_unknown_ignored c ks k p q sub :
    wf_content gzip gunzip c = true -> bytes_ok ks = true ->
    dump_events gzip c ks = p ++ q -> ctx (SElem K_file) (SBody k) p q -> unknown k sub ->
    parse_events gunzip (p ++ sub ++ q) ks = Ok c.
  Proof.
    intros Hwf Hks E C Hu. apply (surface_variant_roundtrip c ks _ Hwf Hks). rewrite E. apply (sv_unknown k); assumption.
  Qed.
  Corollary dumped_time_iso c ks k n a t p q :
    wf_content gzip gunzip c = true -> bytes_ok ks = true ->
    dump_events gzip c ks = p ++ shape n a (Some (fmt_time t)) ++ q ->
    ctx (SElem K_file) (SChild k) p q -> cls k n = CTime -> (iso_min <= t <= iso_max)%Z ->
    parse_events gunzip (p ++ shape n a (Some (iso_of_time t)) ++ q) ks = Ok c.
  Proof.
    intros Hwf Hks E C Hc Ht. apply (surface_variant_roundtrip c ks _ Hwf Hks). rewrite E. apply (sv_time_iso k); assumption.
  Qed.
  Corollary dumped_protected_case c ks k n a f o p q :
    wf_content gzip gunzip c = true -> bytes_ok ks = true ->
    dump_events gzip c ks = p ++ shape n a o ++ q ->
    ctx (SElem K_file) (SChild k) p q -> cls k n = CValue -> case_only f ->
    parse_events gunzip (p ++ shape n (recase s_Protected f a) o ++ q) ks = Ok c.
  Proof.
    intros Hwf Hks E C Hc Hf. apply (surface_variant_roundtrip c ks _ Hwf Hks). rewrite E.
    apply (sv_protected_case k); assumption.
  Qed.
  Corollary dumped_binary_case c ks k n a f g o p q :
    wf_content gzip gunzip c = true -> bytes_ok ks = true ->
    dump_events gzip c ks = p ++ shape n a o ++ q ->
    ctx (SElem K_file) (SChild k) p q -> cls k n = CMetaBin -> case_only f -> case_only g ->
    parse_events gunzip (p ++ shape n (recase s_Compressed f (recase s_Protected g a)) o ++ q) ks = Ok c.
  Proof.
    intros Hwf Hks E C Hc Hf Hg. apply (surface_variant_roundtrip c ks _ Hwf Hks). rewrite E.
    apply (sv_binary_case k); assumption.
  Qed.

  (* a position that exists in every written document: the first child of Meta *)
  Lemma dumped_meta_ctx c ks :
    exists B R, dump_events gzip c ks = [EStart s_KeePassFile []; EStart s_Meta []] ++ (B ++ [EEnd s_Meta]) ++ R ++ [EEnd s_KeePassFile]
                /\ ctx (SElem K_file) (SBody K_meta) [EStart s_KeePassFile []; EStart s_Meta []] ((B ++ [EEnd s_Meta]) ++ R ++ [EEnd s_KeePassFile]).
  Proof.
    unfold dump_events. change (fst (dump_content gzip c ks)) with (devs (dump_content gzip c) ks).
    unfold dump_content. change (wrap s_Root (dseq (dump_group (c_root c)) (dpure (dump_deleted (c_deleted c))))) with (dump_root c).
    rewrite devs_wrap, devs_dseq. unfold dump_meta at 1. rewrite devs_wrap.
    set (B := devs (dseq (dpure (meta_head gzip (c_meta c))) (dump_custom_data (m_custom_data (c_meta c)))) ks).
    set (R := devs (dump_root c) (dks (dump_meta gzip (c_meta c)) ks)).
    exists B, R. split.
    - cbn [app]. rewrite <- !app_assoc. reflexivity.
    - change [EStart s_KeePassFile []; EStart s_Meta []] with (EStart (tag K_file) [] :: ([] ++ (EStart (tag K_meta) [] :: ([] ++ [])))).
      replace ((B ++ [EEnd s_Meta]) ++ R ++ [EEnd s_KeePassFile])
        with (((([] ++ B) ++ [EEnd (tag K_meta)]) ++ R) ++ [EEnd (tag K_file)])
        by (cbn [app tag]; rewrite <- !app_assoc; reflexivity).
      apply ctx_elem. apply ctx_child; [apply sb_nil| |].
      + apply (sb_sub K_file K_root); [reflexivity|]. apply ed_root.
      + apply (ctx_sub K_file K_meta); [reflexivity|]. apply ctx_elem.
        apply ctx_body; [apply sb_nil| |apply ctx_hole].
        subst B. apply sd_seq; [apply sd_pure, sb_meta_head|].
        apply (sd_sub K_meta K_cdata); [reflexivity|apply ed_custom_data].
  Qed.
  Corollary dumped_meta_unknown c ks sub :
    wf_content gzip gunzip c = true -> bytes_ok ks = true -> unknown K_meta sub ->
    parse_events gunzip (insert_at 2 sub (dump_events gzip c ks)) ks = Ok c.
  Proof.
    intros Hwf Hks Hu. destruct (dumped_meta_ctx c ks) as [B [R [E C]]].
    unfold insert_at. rewrite E. cbn [firstn skipn app].
    apply (dumped_unknown_ignored c ks K_meta [EStart s_KeePassFile []; EStart s_Meta []] _ sub Hwf Hks E C Hu).
  Qed.

  (* ... and positions that exist for EVERY entry of EVERY written document, at any depth of the group tree *)
  Theorem dumped_any_entry_unknown c ks e sub :
    wf_content gzip gunzip c = true -> bytes_ok ks = true ->
    node_at (c_root c) (inl e) -> unknown K_entry sub ->
    exists p0 q,
      dump_events gzip c ks = (p0 ++ EStart s_Entry [] :: entry_front (e_uuid e) (e_tags e)) ++ q
      /\ parse_events gunzip ((p0 ++ EStart s_Entry [] :: entry_front (e_uuid e) (e_tags e)) ++ sub ++ q) ks = Ok c.
  Proof.
    intros Hwf Hks Hn Hu. destruct (dumped_entry_ctx gzip c ks e Hn) as [p [q [ks' [E C]]]].
    eexists p, _. split; [exact E|].
    exact (dumped_unknown_ignored c ks K_entry _ _ sub Hwf Hks E C Hu).
  Qed.

  Theorem dumped_any_entry_time_iso c ks uuid fields aty tags exp usage t1 key t t2 cd icon cicon fg bg url qc hist :
    wf_content gzip gunzip c = true -> bytes_ok ks = true ->
    node_at (c_root c)
            (inl (mkEntry uuid fields aty tags (mkTimes exp usage (t1 ++ (key, t) :: t2)) cd icon cicon fg bg url qc hist)) ->
    bytes_eqb key s_Expires = false -> bytes_eqb key s_UsageCount = false -> (iso_min <= t <= iso_max)%Z ->
    exists p q,
      dump_events gzip c ks = p ++ simple key (fmt_time t) ++ q
      /\ parse_events gunzip (p ++ simple key (iso_of_time t) ++ q) ks = Ok c.
  Proof.
    intros Hwf Hks Hn E1 E2 Ht.
    destruct (dumped_entry_time_ctx gzip c ks uuid fields aty tags exp usage t1 key t t2 cd icon cicon fg bg url qc hist Hn)
      as [p [q [E C]]].
    exists p, q. split; [exact E|].
    assert (Hc : cls K_times key = CTime) by (cbn [cls]; unfold cls_times; rewrite E1, E2; reflexivity).
    rewrite simple_shape, iso_of_time_not_ws. rewrite simple_shape, fmt_time_not_ws in E.
    exact (dumped_time_iso c ks K_times key [] t p q Hwf Hks E C Hc Ht).
  Qed.

  Theorem dumped_any_string_protected_case c ks uuid l1 key pv l2 aty tags tms cd icon cicon fg bg url qc hist f :
    wf_content gzip gunzip c = true -> bytes_ok ks = true ->
    node_at (c_root c) (inl (mkEntry uuid (l1 ++ (key, VProtected pv) :: l2) aty tags tms cd icon cicon fg bg url qc hist)) ->
    case_only f ->
    exists p q o,
      dump_events gzip c ks = p ++ shape s_Value [(s_Protected, s_True)] o ++ q
      /\ parse_events gunzip (p ++ shape s_Value [(s_Protected, f s_True)] o ++ q) ks = Ok c.
  Proof.
    intros Hwf Hks Hn Hf.
    destruct (dumped_string_value_ctx gzip c ks uuid l1 key (VProtected pv) l2 aty tags tms cd icon cicon fg bg url qc hist Hn)
      as [p [q [ks1 [E C]]]].
    destruct (dump_value_shape (VProtected pv) ks1) as [a [o [Es Ea]]]. subst a. rewrite Es in E.
    exists p, q, o. split; [exact E|].
    exact (dumped_protected_case c ks K_string s_Value [(s_Protected, s_True)] f o p q Hwf Hks E C eq_refl Hf).
  Qed.
End combined.

(* the worked position: between <Tags> and the first <String> of the entry of x_doc (event 39) *)
Definition x_fields : list (bytes * value) := [([84], VUnprotected [97]); ([80], VProtected [112;119])]%N.
Definition x_cd : custom_data := [([107]%N, mkCdItem (Some (VProtected [118]%N)) None)].
Definition x_meta_ev : list ev := devs (dump_meta x_gzip meta_default) x_ks.
Definition x_gfront : list ev := devs (group_front x_uuid [82]%N None None None x_times [] false None None None None) x_ks.
Definition x_efront : list ev := entry_front x_uuid [].
Definition x_eback : list ev := devs (entry_back x_fields None x_times x_cd None None None None None None None) x_ks.
Definition x_del : list ev := dump_deleted [mkDelObj x_uuid 1700000000%Z].

Example x_ctx_entry : ctx (SElem K_file) (SBody K_entry) (firstn 39 x_doc) (skipn 39 x_doc).
Proof.
  replace (firstn 39 x_doc)
    with (EStart (tag K_file) [] :: (x_meta_ev ++ (EStart (tag K_root) [] :: ([] ++ (EStart (tag K_group) [] ::
            (x_gfront ++ (EStart (tag K_entry) [] :: (x_efront ++ []))))))))
    by (vm_compute; reflexivity).
  replace (skipn 39 x_doc)
    with (((((((([] ++ x_eback) ++ [EEnd (tag K_entry)]) ++ []) ++ [EEnd (tag K_group)]) ++ x_del) ++ [EEnd (tag K_root)]) ++ [])
            ++ [EEnd (tag K_file)])
    by (vm_compute; reflexivity).
  apply ctx_elem. apply ctx_child; [|apply sb_nil|].
  { apply (sb_sub K_file K_meta); [reflexivity|apply ed_meta]. }
  apply (ctx_sub K_file K_root); [reflexivity|]. apply ctx_elem. apply ctx_child; [apply sb_nil| |].
  { apply (sb_sub K_root K_deleted); [reflexivity|apply se_deleted]. }
  apply (ctx_sub K_root K_group); [reflexivity|]. apply ctx_elem. apply ctx_child; [|apply sb_nil|].
  { apply sd_group_front. }
  apply (ctx_sub K_group K_entry); [reflexivity|]. apply ctx_elem.
  apply ctx_body; [apply sb_entry_front|apply sd_entry_back|apply ctx_hole].
Qed.

(* through the theorem: ANY unknown well-bracketed element there, whatever it contains, is ignored *)
Example x_unknown_in_entry sub :
  unknown K_entry sub -> parse_events x_gunzip (insert_at 39 sub x_doc) x_ks = Ok x_content.
Proof.
  intro Hu. unfold insert_at.
  apply (dumped_unknown_ignored x_gzip x_gunzip x_content x_ks K_entry (firstn 39 x_doc) (skipn 39 x_doc) sub
           x_wf eq_refl (eq_sym (firstn_skipn 39 x_doc)) x_ctx_entry Hu).
Qed.

(* ------------------------------------------------------------------------------------------ *)
(* (1)-(4) together: the surface variations and the admissible exchanges of adjacent children *)
Section layout.
  Variable gzip : bytes -> bytes.
  Variable gunzip : bytes -> option bytes.

  Inductive layout_variant : list ev -> list ev -> Prop :=
  | lv_surface d d' : surface_variant d d' -> layout_variant d d'
  | lv_swap k p q E1 E2 :
      ctx (SElem K_file) (SBody k) p q -> swappable gunzip k E1 E2 ->
      layout_variant (p ++ (E1 ++ E2) ++ q) (p ++ (E2 ++ E1) ++ q)
  | lv_trans d1 d2 d3 : layout_variant d1 d2 -> layout_variant d2 d3 -> layout_variant d1 d3.

  Theorem layout_variant_keepass d d' :
    layout_variant d d' ->
    forall n n' X ks, length (d ++ X) <= S n -> length (d' ++ X) <= S n' ->
      p_keepass gunzip n (d ++ X) ks = p_keepass gunzip n' (d' ++ X) ks.
  Proof.
    induction 1 as [d d' V | k p q E1 E2 C Hs | d1 d2 d3 _ IH1 _ IH2]; intros m m' X ks L L'.
    - exact (surface_variant_keepass gunzip d d' V m m' X ks L L').
    - exact (proj1 (document_swap gunzip k p q E1 E2 C Hs) m m' X ks L L').
    - rewrite (IH1 m (length (d2 ++ X)) X ks L ltac:(lia)). apply IH2; [lia|exact L'].
  Qed.

  Theorem layout_variant_roundtrip c ks d' :
    wf_content gzip gunzip c = true -> bytes_ok ks = true ->
    layout_variant (dump_events gzip c ks) d' ->
    parse_events gunzip d' ks = Ok c
    /\ forall X, p_keepass gunzip (length (d' ++ X)) (d' ++ X) ks
                 = Ok (c, X, drop (total_length (protected_values_in_order c)) ks).
  Proof.
    intros Hwf Hks V.
    assert (K : forall X, p_keepass gunzip (length (d' ++ X)) (d' ++ X) ks
                          = Ok (c, X, drop (total_length (protected_values_in_order c)) ks)).
    { intro X. rewrite <- (parse_dump_stream gzip gunzip c ks X Hwf Hks).
      symmetry. apply (layout_variant_keepass _ _ V); lia. }
    split; [|exact K]. unfold parse_events. pose proof (K []) as H. rewrite !app_nil_r in H. rewrite H. reflexivity.
  Qed.
End layout.

Print Assumptions var_sound.
Print Assumptions element_unknown_ignored.
Print Assumptions parse_iso_of_time.
Print Assumptions attr_bool_recase.
Print Assumptions dump_structured.
Print Assumptions surface_variant_keepass.
Print Assumptions surface_variant_roundtrip.
Print Assumptions swap_sound.
Print Assumptions document_swap.
Print Assumptions perm_sound.
Print Assumptions layout_variant_roundtrip.
Print Assumptions dumped_any_entry_unknown.
Print Assumptions dumped_any_entry_time_iso.
Print Assumptions dumped_any_string_protected_case.

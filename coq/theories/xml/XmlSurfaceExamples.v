(* Worked examples and counter-examples for the surface-form theorems, by computation on a small document:
   a root group with one entry (an unprotected and a protected string, a protected custom-data item) and
   one deleted object. *)
From KP Require Import Bytes Outcome LE Utf8 Base64 Scalars XmlTypes XmlDump XmlParse XmlSpec
  XmlSurfaceIso XmlSurfaceCore XmlSurfaceAttr XmlSurfaceVar XmlSurfaceUnknown XmlSurfaceDump.
Local Open Scope N_scope.

Definition x_uuid : bytes := [1;2;3;4;5;6;7;8;9;10;11;12;13;14;15;16].
Definition x_times : times := mkTimes false 0 [(s_CreationTime, 1700000000%Z)].
Definition x_entry : entry :=
  mkEntry x_uuid [([84], VUnprotected [97]); ([80], VProtected [112;119])] None [] x_times
    [([107], mkCdItem (Some (VProtected [118])) None)] None None None None None None None.
Definition x_group : group := mkGroup x_uuid [82] None None None [inl x_entry] x_times [] false None None None None.
Definition x_content : content := mkContent meta_default x_group [mkDelObj x_uuid 1700000000%Z].
Definition x_ks : bytes := [10;20;30;40;50;60].
Definition x_gzip (b : bytes) : bytes := b.
Definition x_gunzip (b : bytes) : option bytes := None.
Definition x_doc : list ev := dump_events x_gzip x_content x_ks.
Definition insert_at (i : nat) (sub d : list ev) : list ev := firstn i d ++ sub ++ skipn i d.

Example x_wf : wf_content x_gzip x_gunzip x_content = true. Proof. vm_compute. reflexivity. Qed.
Example x_parse : parse_events x_gunzip x_doc x_ks = Ok x_content. Proof. vm_compute. reflexivity. Qed.

(* an unknown element that contains a <Value Protected="True"> with text, a nested element and text *)
Definition x_sub : list ev :=
  [EStart s_Foo [(s_Protected, s_True)];
   EStart s_Value [(s_Protected, s_True)]; EChars [65;65;65;65]; EEnd s_Value;
   EStart s_Entry []; EChars [120]; EEnd s_Entry;
   EEnd s_Foo].
Lemma x_sub_wb : well_bracketed s_Foo x_sub.
Proof.
  exists [(s_Protected, s_True)],
         [EStart s_Value [(s_Protected, s_True)]; EChars [65;65;65;65]; EEnd s_Value; EStart s_Entry []; EChars [120]; EEnd s_Entry].
  split; [reflexivity|].
  apply (forest_elem s_Value _ [EChars [65;65;65;65]] [EStart s_Entry []; EChars [120]; EEnd s_Entry]).
  - repeat constructor.
  - apply (forest_elem s_Entry _ [EChars [120]] []); repeat constructor.
Qed.

(* positions (index of the first child) of the containers of x_doc:
   KeePassFile 1, Meta 2, Root 10, Group 11, Times 18, Entry 34 (39 = before the first String, 47 = between
   the two Strings), String 40, CustomData 56, Item 57, DeletedObjects 79, DeletedObject 80 *)

(* (1) ignored, and the protected value inside does not shift the key stream: the two protected values
   after the insertion point still decrypt, and the final stream is the same *)
Example unknown_in_entry :
  p_keepass x_gunzip 200 (insert_at 39 x_sub x_doc) x_ks = p_keepass x_gunzip 200 x_doc x_ks
  /\ parse_events x_gunzip (insert_at 39 x_sub x_doc) x_ks = Ok x_content.
Proof. vm_compute. split; reflexivity. Qed.
Example unknown_between_strings : parse_events x_gunzip (insert_at 47 x_sub x_doc) x_ks = Ok x_content.
Proof. vm_compute. reflexivity. Qed.
Example unknown_in_meta : parse_events x_gunzip (insert_at 2 x_sub x_doc) x_ks = Ok x_content.
Proof. vm_compute. reflexivity. Qed.
Example unknown_in_group : parse_events x_gunzip (insert_at 11 x_sub x_doc) x_ks = Ok x_content.
Proof. vm_compute. reflexivity. Qed.
Example unknown_in_string : parse_events x_gunzip (insert_at 40 x_sub x_doc) x_ks = Ok x_content.
Proof. vm_compute. reflexivity. Qed.

(* the parents that do NOT skip unknown children *)
Example unknown_in_keepassfile_refuted : parse_events x_gunzip (insert_at 1 x_sub x_doc) x_ks = Err XBadEvent.
Proof. vm_compute. reflexivity. Qed.
Example unknown_in_root_refuted : parse_events x_gunzip (insert_at 10 x_sub x_doc) x_ks = Err XBadEvent.
Proof. vm_compute. reflexivity. Qed.
Example unknown_in_custom_data_refuted : parse_events x_gunzip (insert_at 56 x_sub x_doc) x_ks = Err XBadEvent.
Proof. vm_compute. reflexivity. Qed.
Example unknown_in_item_refuted : parse_events x_gunzip (insert_at 57 x_sub x_doc) x_ks = Err XBadEvent.
Proof. vm_compute. reflexivity. Qed.
Example unknown_in_deleted_objects_refuted : parse_events x_gunzip (insert_at 79 x_sub x_doc) x_ks = Err XBadEvent.
Proof. vm_compute. reflexivity. Qed.
Example unknown_in_deleted_object_refuted : parse_events x_gunzip (insert_at 80 x_sub x_doc) x_ks = Err XBadEvent.
Proof. vm_compute. reflexivity. Qed.
(* Times: a child of any other name is a time stamp key: an element with children fails, one with a
   time-stamp text is stored under its name *)
Example unknown_in_times_refuted : parse_events x_gunzip (insert_at 18 x_sub x_doc) x_ks = Err XBadEvent.
Proof. vm_compute. reflexivity. Qed.
Example unknown_in_times_is_a_key :
  parse_events x_gunzip (insert_at 18 [EStart s_Foo []; EChars (fmt_time 0); EEnd s_Foo] x_doc) x_ks
  = Ok (set_c_root (set_g_times (mkTimes false 0 [(s_Foo, 0%Z); (s_CreationTime, 1700000000%Z)]) x_group) x_content).
Proof. vm_compute. reflexivity. Qed.

(* the hypotheses of (1) *)
(* [well_bracketed]: an unclosed unknown element swallows its following siblings *)
Example unbalanced_refuted :
  parse_events x_gunzip (insert_at 34 [EStart s_Foo []] x_doc) x_ks <> parse_events x_gunzip x_doc x_ks.
Proof. vm_compute. discriminate. Qed.
(* [structured]: the insertion point must be between two children, not inside a leaf *)
Example inside_leaf_refuted : parse_events x_gunzip (insert_at 35 x_sub x_doc) x_ks = Err XBadEvent.
Proof. vm_compute. reflexivity. Qed.
(* [cls k name = CIgnore]: an element with a known name is not ignored *)
Example known_name_refuted :
  parse_events x_gunzip (insert_at 39 [EStart s_Tags []; EChars [120]; EEnd s_Tags] x_doc) x_ks
  <> parse_events x_gunzip x_doc x_ks.
Proof. vm_compute. discriminate. Qed.
(* an error event inside the unknown element is an error *)
Example error_event_refuted :
  parse_events x_gunzip (insert_at 39 [EStart s_Foo []; EErr; EEnd s_Foo] x_doc) x_ks = Err XXml.
Proof. vm_compute. reflexivity. Qed.

(* the same through the theorem: the insertion is a [var] step of the dumped document *)
Example x_doc_structured : var (SElem K_file) x_doc x_doc.
Proof. apply dump_structured. Qed.

(* ------------------------------------------------------------------------------------------ *)
(* (3) ISO-8601 time stamps: the texts of the three time stamps of x_doc (events 19, 67: CreationTime of
   the group and of the entry, 84: DeletionTime) replaced by the ISO spelling, one, two or all *)
Definition replace_at (i : nat) (e : ev) (d : list ev) : list ev := firstn i d ++ e :: skipn (S i) d.
Definition x_iso : ev := EChars (iso_of_time 1700000000).
Example x_iso_text : x_iso = EChars [50;48;50;51;45;49;49;45;49;52;84;50;50;58;49;51;58;50;48;90].
Proof. vm_compute. reflexivity. Qed.
Example x_b64_text : nth 19 x_doc EErr = EChars (fmt_time 1700000000) /\ nth 67 x_doc EErr = EChars (fmt_time 1700000000)
                     /\ nth 84 x_doc EErr = EChars (fmt_time 1700000000).
Proof. vm_compute. repeat split. Qed.
Example iso_one : parse_events x_gunzip (replace_at 67 x_iso x_doc) x_ks = Ok x_content.
Proof. vm_compute. reflexivity. Qed.
Example iso_two : parse_events x_gunzip (replace_at 19 x_iso (replace_at 84 x_iso x_doc)) x_ks = Ok x_content.
Proof. vm_compute. reflexivity. Qed.
Example iso_all :
  parse_events x_gunzip (replace_at 19 x_iso (replace_at 67 x_iso (replace_at 84 x_iso x_doc))) x_ks = Ok x_content.
Proof. vm_compute. reflexivity. Qed.
(* a leap second :60 reads as :59 (chrono keeps it as a nanosecond part the model does not carry); a date
   that does not exist is not ISO and then not base64 either *)
Example iso_leap_second :
  parse_time [50;48;49;54;45;49;50;45;51;49;84;50;51;58;53;57;58;54;48;90] = Ok 1483228799%Z.
Proof. vm_compute. reflexivity. Qed.
Example iso_feb_30_refuted :
  parse_time [50;48;50;51;45;48;50;45;51;48;84;48;48;58;48;48;58;48;48;90] = Err XBase64.
Proof. vm_compute. reflexivity. Qed.

(* (4) the case of Protected="True": events 51 (the protected String value) and 60 (the protected
   custom-data value) respelled *)
Definition x_true_lc : bytes := [116;114;117;101].
Definition x_true_uc : bytes := [84;82;85;69].
Example x_prot_starts : nth 51 x_doc EErr = EStart s_Value [(s_Protected, s_True)]
                        /\ nth 60 x_doc EErr = EStart s_Value [(s_Protected, s_True)].
Proof. vm_compute. split; reflexivity. Qed.
Example protected_case :
  parse_events x_gunzip (replace_at 51 (EStart s_Value [(s_Protected, x_true_lc)])
                           (replace_at 60 (EStart s_Value [(s_Protected, x_true_uc)]) x_doc)) x_ks = Ok x_content.
Proof. vm_compute. reflexivity. Qed.
(* the flag itself must stay: without the attribute the value is read as plain text and the NEXT protected
   value is decrypted with the wrong slice of the stream *)
Example protected_dropped_refuted :
  parse_events x_gunzip (replace_at 51 (EStart s_Value []) x_doc) x_ks <> Ok x_content.
Proof. vm_compute. discriminate. Qed.
(* an attribute value that is not a spelling of true/false is an error *)
Example protected_yes_refuted :
  parse_events x_gunzip (replace_at 51 (EStart s_Value [(s_Protected, [121;101;115])]) x_doc) x_ks = Err XBoolFormat.
Proof. vm_compute. reflexivity. Qed.

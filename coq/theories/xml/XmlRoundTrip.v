(* Reading back what the writer wrote: for every content in [wf_content] and every key stream of bytes,
   parse_events (dump_events c ks) ks = Ok c.  Proved compositionally: for each element kind, the
   parser consumes exactly the dumped element in front of ANY continuation, returns the value, and
   leaves the stream where the dumper left it. *)
From Coq Require Import Lia.
From KP Require Import Bytes Outcome LE LEFacts Utf8 Base64 Base64Proofs Scalars XmlTypes XmlDump XmlParse XmlSpec
  XmlCodecProofs XmlStream.
Local Open Scope outcome_scope.

(* ------------------------------------------------------------------------------------------ *)
(* Runs: a piece of an element body that the loop consumes child by child *)
Section run.
  Context {St : Type}.
  Variable child : bytes -> handler St.
  Variable bound : nat.

  Inductive run : list ev -> St -> bytes -> St -> bytes -> Prop :=
  | run_nil acc ks : run [] acc ks acc ks
  | run_seg name attrs tl acc ks acc' ks' :
      (forall rest, length (EStart name attrs :: tl ++ rest) <= bound ->
                    child name acc (EStart name attrs :: tl ++ rest) ks = Ok (acc', rest, ks')) ->
      run (EStart name attrs :: tl) acc ks acc' ks'
  | run_app e1 e2 a k a1 k1 a2 k2 :
      run e1 a k a1 k1 -> run e2 a1 k1 a2 k2 -> run (e1 ++ e2) a k a2 k2.

  Lemma run_loop close body acc ks acc' ks' :
    run body acc ks acc' ks' ->
    forall n tail, length (body ++ tail) <= n -> length (body ++ tail) <= bound ->
      exists n', length tail <= n' /\
                 p_loop close child n acc (body ++ tail) ks = p_loop close child n' acc' tail ks'.
  Proof.
    induction 1 as [acc ks|name attrs tl acc ks acc' ks' H|e1 e2 a k a1 k1 a2 k2 _ IH1 _ IH2]; intros n tail Hn Hb.
    - exists n. split; [exact Hn|reflexivity].
    - destruct n as [|m]; [cbn in Hn; lia|]. exists m. split; [cbn [app length] in Hn; rewrite app_length in Hn; lia|].
      cbn [app p_loop]. rewrite (H tail Hb). reflexivity.
    - rewrite <- app_assoc in *. destruct (IH1 n (e2 ++ tail) Hn Hb) as [n1 [L1 E1]].
      rewrite app_length in Hb.
      destruct (IH2 n1 tail L1 ltac:(lia)) as [n2 [L2 E2]]. exists n2. split; [exact L2|]. rewrite E1. exact E2.
  Qed.

  Lemma run_element tag init body acc' ks ks' n rest :
    run body init ks acc' ks' ->
    length (body ++ EEnd tag :: rest) <= n -> length (body ++ EEnd tag :: rest) <= bound ->
    p_element tag init child n (EStart tag [] :: body ++ EEnd tag :: rest) ks = Ok (acc', rest, ks').
  Proof.
    intros R Hn Hb. unfold p_element. rewrite bytes_eqb_refl.
    destruct (run_loop tag body init ks acc' ks' R n (EEnd tag :: rest) Hn Hb) as [n' [_ E]]. rewrite E.
    destruct n'; cbn [p_loop]; rewrite bytes_eqb_refl; reflexivity.
  Qed.
End run.
Arguments run_nil {St child bound}.
Arguments run_seg {St child bound}.
Arguments run_app {St child bound}.

Lemma emit_chars_text t : ws_only t = false -> emit_chars t = [EChars t].
Proof. intro H. unfold emit_chars. rewrite H. reflexivity. Qed.
Lemma emit_chars_ws t : ws_only t = true -> emit_chars t = [].
Proof. intro H. unfold emit_chars. rewrite H. reflexivity. Qed.


Lemma devs_dmap_pure {A} (f : A -> list ev) l ks : devs (dmap (fun x => dpure (f x)) l) ks = concat (map f l).
Proof.
  induction l as [|x r IH]; [reflexivity|]. rewrite devs_dmap_cons, devs_dpure, dks_dpure, IH. reflexivity.
Qed.
Lemma dks_dmap_pure {A} (f : A -> list ev) l ks : dks (dmap (fun x => dpure (f x)) l) ks = ks.
Proof. induction l as [|x r IH]; [reflexivity|]. rewrite dks_dmap_cons, dks_dpure, IH. reflexivity. Qed.

(* association lists *)
Lemma assoc_insert_fresh {V} k (v : V) l : mem_bytes k (map fst l) = false -> assoc_insert k v l = l ++ [(k, v)].
Proof.
  induction l as [|[k' v'] r IH]; intro H; [reflexivity|].
  cbn [map fst mem_bytes] in H. apply orb_false_iff in H. destruct H as [H1 H2].
  cbn [assoc_insert app]. rewrite H1, (IH H2). reflexivity.
Qed.
Lemma mem_bytes_app k a b : mem_bytes k (a ++ b) = mem_bytes k a || mem_bytes k b.
Proof. induction a as [|x r IH]; [reflexivity|]. cbn [app mem_bytes]. rewrite IH, orb_assoc. reflexivity. Qed.
Lemma nodup_keys_fresh {V} (pre : list (bytes * V)) kv r :
  nodup_keys (map fst (pre ++ kv :: r)) = true -> mem_bytes (fst kv) (map fst pre) = false.
Proof.
  induction pre as [|[k' v'] p IH]; intro H; [reflexivity|].
  cbn [app map fst nodup_keys] in H. apply andb_true_iff in H. destruct H as [H1 H2]. apply negb_true_iff in H1.
  rewrite map_app, mem_bytes_app in H1. apply orb_false_iff in H1. destruct H1 as [_ H1].
  cbn [map mem_bytes] in H1. apply orb_false_iff in H1. destruct H1 as [H1 _].
  cbn [map fst mem_bytes]. rewrite bytes_eqb_sym, H1. cbn [orb]. apply IH. exact H2.
Qed.

Section steps.
  Context {St : Type}.
  Variable child : bytes -> handler St.
  Variable bound : nat.
  Notation run := (run child bound).

  (* <name>text</name> read by SimpleTag<T> *)
  Lemma run_simple {A} name (conv : bytes -> outcome xerr A) (set : A -> St -> St) t v acc ks :
    child name = h_simple (p_chars conv) set -> ws_only t = false -> conv t = Ok v ->
    run (simple name t) acc ks (set v acc) ks.
  Proof.
    intros Hc Hw Hv. unfold simple. rewrite (emit_chars_text t Hw). apply run_seg. intros rest _.
    rewrite Hc. unfold h_simple, p_simple, p_chars. cbn [app bind]. rewrite Hv. cbn [bind]. rewrite bytes_eqb_refl.
    reflexivity.
  Qed.
  (* <name>text</name> or <name/> read by SimpleTag<Option<T>> *)
  Lemma run_simple_some {A} name (conv : bytes -> outcome xerr A) (set : option A -> St -> St) t v acc ks :
    child name = h_simple (p_opt_chars conv) set -> ws_only t = false -> conv t = Ok v ->
    run (simple name t) acc ks (set (Some v) acc) ks.
  Proof.
    intros Hc Hw Hv. unfold simple. rewrite (emit_chars_text t Hw). apply run_seg. intros rest _.
    rewrite Hc. unfold h_simple, p_simple, p_opt_chars. cbn [app bind]. rewrite Hv. cbn [bind]. rewrite bytes_eqb_refl.
    reflexivity.
  Qed.
  Lemma run_simple_none {A} name (conv : bytes -> outcome xerr A) (set : option A -> St -> St) t acc ks :
    child name = h_simple (p_opt_chars conv) set -> ws_only t = true ->
    run (simple name t) acc ks (set None acc) ks.
  Proof.
    intros Hc Hw. unfold simple. rewrite (emit_chars_ws t Hw). apply run_seg. intros rest _.
    rewrite Hc. unfold h_simple, p_simple, p_opt_chars. cbn [app bind]. rewrite bytes_eqb_refl. reflexivity.
  Qed.
  (* an optional child: written only when Some *)
  Lemma run_opt {A} name (conv : bytes -> outcome xerr A) (set : option A -> St -> St) (fmt : A -> bytes) o acc ks :
    child name = h_simple (p_opt_chars conv) set ->
    (forall x, o = Some x -> ws_only (fmt x) = false /\ conv (fmt x) = Ok x) ->
    (o = None -> set None acc = acc) ->
    run (simple_opt name fmt o) acc ks (set o acc) ks.
  Proof.
    intros Hc Hs Hn. destruct o as [x|]; cbn [simple_opt].
    - destruct (Hs x eq_refl) as [Hw Hv]. eapply run_simple_some; eassumption.
    - rewrite (Hn eq_refl). apply run_nil.
  Qed.
  (* a child element read by a sub-parser *)
  Lemma run_sub {A} name attrs tl (p : list ev -> bytes -> pres A) (set : A -> St -> St) x acc ks ks' :
    child name = h_sub p set ->
    (forall rest, length (EStart name attrs :: tl ++ rest) <= bound ->
                  p (EStart name attrs :: tl ++ rest) ks = Ok (x, rest, ks')) ->
    run (EStart name attrs :: tl) acc ks (set x acc) ks'.
  Proof.
    intros Hc Hp. apply run_seg. intros rest Hl. rewrite Hc. unfold h_sub. rewrite (Hp rest Hl). reflexivity.
  Qed.

  (* repeated children appended to a list-valued field; [inv] is an invariant of the stream *)
  Lemma run_list {X} (get : St -> list X) (set : list X -> St -> St) (seg : X -> dumper) (ok : X -> Prop)
        (inv : bytes -> Prop) :
    (forall v a, get (set v a) = v) -> (forall v w a, set v (set w a) = set v a) -> (forall a, set (get a) a = a) ->
    (forall x ks, ok x -> inv ks -> inv (dks (seg x) ks)) ->
    (forall x acc ks, ok x -> inv ks -> run (devs (seg x) ks) acc ks (set (get acc ++ [x]) acc) (dks (seg x) ks)) ->
    forall l acc ks, Forall ok l -> inv ks ->
      run (devs (dmap seg l) ks) acc ks (set (get acc ++ l) acc) (dks (dmap seg l) ks).
  Proof.
    intros G1 G2 G3 Hinv Hstep l. induction l as [|x r IH]; intros acc ks Hok Hi.
    - rewrite app_nil_r, G3. apply run_nil.
    - inversion Hok as [|? ? Hx Hr]; subst. rewrite devs_dmap_cons, dks_dmap_cons.
      eapply run_app; [apply Hstep; assumption|].
      specialize (IH (set (get acc ++ [x]) acc) (dks (seg x) ks) Hr (Hinv x ks Hx Hi)).
      rewrite G1, G2, <- app_assoc in IH. exact IH.
  Qed.

  (* repeated children inserted into a map-valued field *)
  Lemma run_map {V} (get : St -> list (bytes * V)) (set : list (bytes * V) -> St -> St)
        (seg : bytes * V -> dumper) (ok : bytes * V -> Prop) (inv : bytes -> Prop) :
    (forall v a, get (set v a) = v) -> (forall v w a, set v (set w a) = set v a) -> (forall a, set (get a) a = a) ->
    (forall x ks, ok x -> inv ks -> inv (dks (seg x) ks)) ->
    (forall kv acc ks, ok kv -> inv ks ->
       run (devs (seg kv) ks) acc ks (set (assoc_insert (fst kv) (snd kv) (get acc)) acc) (dks (seg kv) ks)) ->
    forall l acc ks, Forall ok l -> inv ks -> nodup_keys (map fst (get acc ++ l)) = true ->
      run (devs (dmap seg l) ks) acc ks (set (get acc ++ l) acc) (dks (dmap seg l) ks).
  Proof.
    intros G1 G2 G3 Hinv Hstep l. induction l as [|[k v] r IH]; intros acc ks Hok Hi Hnd.
    - rewrite app_nil_r, G3. apply run_nil.
    - inversion Hok as [|? ? Hx Hr]; subst. rewrite devs_dmap_cons, dks_dmap_cons.
      eapply run_app; [apply Hstep; assumption|]. cbn [fst snd].
      rewrite (assoc_insert_fresh k v (get acc)) by (exact (nodup_keys_fresh (get acc) (k, v) r Hnd)).
      specialize (IH (set (get acc ++ [(k, v)]) acc) (dks (seg (k, v)) ks) Hr (Hinv (k, v) ks Hx Hi)).
      rewrite G1, G2, <- app_assoc in IH. apply IH. exact Hnd.
  Qed.

  Lemma run_list_pure {X} (get : St -> list X) (set : list X -> St -> St) (f : X -> list ev) (ok : X -> Prop) :
    (forall v a, get (set v a) = v) -> (forall v w a, set v (set w a) = set v a) -> (forall a, set (get a) a = a) ->
    (forall x acc ks, ok x -> run (f x) acc ks (set (get acc ++ [x]) acc) ks) ->
    forall l acc ks, Forall ok l -> run (concat (map f l)) acc ks (set (get acc ++ l) acc) ks.
  Proof.
    intros G1 G2 G3 Hstep l acc ks Hok.
    pose proof (run_list get set (fun x => dpure (f x)) ok (fun _ => True) G1 G2 G3 (fun _ _ _ _ => I)) as R.
    specialize (R (fun x acc0 ks0 Hx _ => Hstep x acc0 ks0 Hx) l acc ks Hok I).
    rewrite devs_dmap_pure, dks_dmap_pure in R. exact R.
  Qed.
  Lemma run_map_pure {V} (get : St -> list (bytes * V)) (set : list (bytes * V) -> St -> St)
        (f : bytes * V -> list ev) (ok : bytes * V -> Prop) :
    (forall v a, get (set v a) = v) -> (forall v w a, set v (set w a) = set v a) -> (forall a, set (get a) a = a) ->
    (forall kv acc ks, ok kv -> run (f kv) acc ks (set (assoc_insert (fst kv) (snd kv) (get acc)) acc) ks) ->
    forall l acc ks, Forall ok l -> nodup_keys (map fst (get acc ++ l)) = true ->
      run (concat (map f l)) acc ks (set (get acc ++ l) acc) ks.
  Proof.
    intros G1 G2 G3 Hstep l acc ks Hok Hnd.
    pose proof (run_map get set (fun x => dpure (f x)) ok (fun _ => True) G1 G2 G3 (fun _ _ _ _ => I)) as R.
    specialize (R (fun x acc0 ks0 Hx _ => Hstep x acc0 ks0 Hx) l acc ks Hok I Hnd).
    rewrite devs_dmap_pure, dks_dmap_pure in R. exact R.
  Qed.
End steps.

(* ------------------------------------------------------------------------------------------ *)
(* element shapes *)
Definition elem (tag : bytes) (body : list ev) : list ev := EStart tag [] :: body ++ [EEnd tag].

Lemma elem_rt {St} (child : bytes -> handler St) n tag init body acc' ks ks' rest :
  run child n body init ks acc' ks' ->
  length (elem tag body ++ rest) <= S n ->
  p_element tag init child n (elem tag body ++ rest) ks = Ok (acc', rest, ks').
Proof.
  intros R Hl. unfold elem in *. cbn [app] in *. rewrite <- app_assoc in *. cbn [app length] in *.
  apply (run_element child n tag init body acc' ks ks' n rest R); lia.
Qed.

Lemma devs_wrap_elem tag d ks : devs (wrap tag d) ks = elem tag (devs d ks).
Proof. apply devs_wrap. Qed.

Ltac split_and H :=
  repeat match type of H with
         | (_ && _)%bool = true => let H1 := fresh H in apply andb_true_iff in H; destruct H as [H H1]
         end.

(* setter laws *)
Lemma t_times_set v a : t_times (set_t_times v a) = v. Proof. destruct a; reflexivity. Qed.
Lemma set_t_times_set v w a : set_t_times v (set_t_times w a) = set_t_times v a. Proof. destruct a; reflexivity. Qed.
Lemma set_t_times_get a : set_t_times (t_times a) a = a. Proof. destruct a; reflexivity. Qed.

(* ------------------------------------------------------------------------------------------ *)
(* Times *)
Definition times_body (t : times) : list ev :=
  concat (map dump_time_entry (t_times t)) ++ simple s_Expires (fmt_bool (t_expires t))
  ++ simple s_UsageCount (fmt_N (t_usage t)).
Lemma dump_times_shape t : dump_times t = elem s_Times (times_body t).
Proof. unfold dump_times, elem, times_body. rewrite <- !app_assoc. reflexivity. Qed.

Lemma wf_usize_lt n : wf_usize n = true -> (n < 2 ^ 64)%N.
Proof. apply N.ltb_lt. Qed.

Lemma p_times_rt n t ks rest :
  wf_times t = true -> length (dump_times t ++ rest) <= S n ->
  p_times n (dump_times t ++ rest) ks = Ok (t, rest, ks).
Proof.
  intros Hwf Hl. rewrite dump_times_shape in *. unfold p_times.
  unfold wf_times in Hwf. split_and Hwf.
  eapply eq_trans; [apply elem_rt; [|exact Hl]|].
  unfold times_body.
  eapply run_app.
  { apply (run_map_pure times_child n t_times set_t_times dump_time_entry
                   (fun kv => wf_time (snd kv) = true /\ bytes_eqb (fst kv) s_Expires = false
                              /\ bytes_eqb (fst kv) s_UsageCount = false)
                   t_times_set set_t_times_set set_t_times_get).
    - intros [k v] acc ks0 [Hv [He Hu]]. cbn [fst snd] in *.
      unfold dump_time_entry, simple. cbn [fst snd]. rewrite (emit_chars_text _ (fmt_time_not_ws v)).
      apply run_seg. intros rest0 _. unfold times_child. rewrite He, Hu.
      unfold p_simple, p_chars. cbn [app bind]. rewrite (parse_time_fmt v Hv). cbn [bind fst snd].
      rewrite bytes_eqb_refl. reflexivity.
    - apply Forall_forall. intros kv Hin. rewrite forallb_forall in Hwf0. specialize (Hwf0 kv Hin).
      apply andb_true_iff in Hwf0. destruct Hwf0 as [Hwa Hwc]. apply andb_true_iff in Hwa. destruct Hwa as [Hwa Hwb].
      apply negb_true_iff in Hwb, Hwc. auto.
    - exact Hwf1. }
  eapply run_app.
  { eapply (run_simple times_child n s_Expires conv_bool set_t_expires); [reflexivity|apply fmt_bool_not_ws|].
    unfold conv_bool. rewrite parse_bool_fmt. reflexivity. }
  eapply (run_simple times_child n s_UsageCount conv_usize set_t_usage); [reflexivity|apply fmt_N_not_ws|].
  unfold conv_usize. rewrite (parse_usize_fmt _ (wf_usize_lt _ Hwf)). reflexivity.
  destruct t; reflexivity.
Qed.

(* ------------------------------------------------------------------------------------------ *)
(* Value *)
Lemma wf_field_value_wf v : wf_field_value v = true -> wf_value v = true.
Proof.
  destruct v as [t|p|b]; cbn [wf_field_value wf_value]; intro H; try discriminate.
  - unfold wf_text0. unfold wf_text in H. rewrite H. apply orb_true_r.
  - apply andb_true_iff in H. tauto.
Qed.

Lemma p_value_rt v ks rest :
  wf_value v = true -> bytes_ok ks = true ->
  p_value (devs (dump_value v) ks ++ rest) ks = Ok (v, rest, dks (dump_value v) ks).
Proof.
  intros Hwf Hks. destruct v as [t|p|b]; cbn [wf_value] in Hwf; [| |discriminate].
  - unfold devs, dks. cbn [dump_value dpure fst snd]. unfold simple, p_value.
    unfold wf_text0 in Hwf. destruct t as [|c r].
    + cbn. reflexivity.
    + cbn [is_nil orb] in Hwf. apply negb_true_iff in Hwf. rewrite (emit_chars_text _ Hwf).
      cbn [app]. rewrite bytes_eqb_refl. cbn [attr_bool attr_get bind p_opt_chars conv_string].
      rewrite bytes_eqb_refl. reflexivity.
  - unfold devs, dks. cbn [dump_value fst snd]. unfold p_value. cbn [app]. rewrite bytes_eqb_refl.
    change (attr_bool s_Protected [(s_Protected, s_True)]) with (@Ok xerr bool true). cbn [bind].
    pose proof (utf8_valid_bytes_ok p Hwf) as Hp.
    destruct p as [|c r].
    + cbn. reflexivity.
    + assert (Hx : ws_only (b64_encode (xor_ks (c :: r) ks)) = false).
      { apply b64_encode_not_ws; [apply xor_ks_ok; assumption|]. intro E. apply xor_ks_nil_iff in E. discriminate. }
      rewrite (emit_chars_text _ Hx). cbn [app p_opt_chars conv_string bind].
      rewrite b64_decode_encode by (apply xor_ks_ok; assumption). cbn [bind].
      rewrite bytes_eqb_refl, xor_ks_involutive, xor_ks_length, (utf8_lossy_valid _ Hwf). reflexivity.
Qed.

Lemma dks_value_ok v ks : bytes_ok ks = true -> bytes_ok (dks (dump_value v) ks) = true.
Proof. intro H. rewrite adv_value. apply bytes_ok_drop. exact H. Qed.

(* ------------------------------------------------------------------------------------------ *)
(* CustomData *)
Lemma wf_time_ok t : wf_time t = true -> ts_ok t = true. Proof. exact (fun H => H). Qed.

Section dsteps.
  Context {St : Type}.
  Variable child : bytes -> handler St.
  Variable bound : nat.
  Notation run := (run child bound).

  Lemma run_dseq a b acc ks acc1 acc2 :
    run (devs a ks) acc ks acc1 (dks a ks) ->
    run (devs b (dks a ks)) acc1 (dks a ks) acc2 (dks b (dks a ks)) ->
    run (devs (dseq a b) ks) acc ks acc2 (dks (dseq a b) ks).
  Proof. intros R1 R2. rewrite devs_dseq, dks_dseq. eapply run_app; eassumption. Qed.
  Lemma run_dpure e acc ks acc' :
    run e acc ks acc' ks -> run (devs (dpure e) ks) acc ks acc' (dks (dpure e) ks).
  Proof. rewrite devs_dpure, dks_dpure. exact (fun H => H). Qed.

  Lemma wrap_rt tag init d acc' ks rest :
    run (devs d ks) init ks acc' (dks d ks) ->
    length (devs (wrap tag d) ks ++ rest) <= S bound ->
    p_element tag init child bound (devs (wrap tag d) ks ++ rest) ks = Ok (acc', rest, dks (wrap tag d) ks).
  Proof. intros R Hl. rewrite devs_wrap_elem in *. rewrite dks_wrap. apply elem_rt; assumption. Qed.

  Lemma run_value (set : value -> St -> St) v acc ks :
    child s_Value = h_sub p_value set -> wf_value v = true -> bytes_ok ks = true ->
    run (devs (dump_value v) ks) acc ks (set v acc) (dks (dump_value v) ks).
  Proof.
    intros Hc Hwf Hks. pose proof (fun rest => p_value_rt v ks rest Hwf Hks) as P.
    destruct v as [t|p|b]; unfold devs in *; cbn [dump_value dpure fst simple] in *.
    - eapply run_sub; [exact Hc|]. intros rest _. exact (P rest).
    - eapply run_sub; [exact Hc|]. intros rest _. exact (P rest).
    - discriminate.
  Qed.
End dsteps.

Lemma p_cditem_rt n kv ks rest :
  wf_cditem kv = true -> bytes_ok ks = true ->
  length (devs (dump_cditem kv) ks ++ rest) <= S n ->
  p_cditem n (devs (dump_cditem kv) ks ++ rest) ks = Ok (kv, rest, dks (dump_cditem kv) ks).
Proof.
  intros Hwf Hks Hl. destruct kv as [k [val tm]]. unfold wf_cditem in Hwf. cbn [fst snd cd_value cd_time] in Hwf.
  split_and Hwf. unfold dump_cditem in *. cbn [fst snd cd_value cd_time] in *. unfold p_cditem.
  eapply eq_trans; [apply wrap_rt; [|exact Hl]|].
  - eapply run_dseq.
    { apply run_dpure.
      eapply (run_simple cditem_child n s_Key conv_string (fun v a => (v, snd a))); [reflexivity| |reflexivity].
      apply negb_true_iff. exact Hwf. }
    rewrite dks_dpure. eapply run_dseq.
    { instantiate (1 := (k, mkCdItem val None)). destruct val as [v|]; cbn [dopt wf_opt] in *.
      - apply (run_value cditem_child n (fun v a => (fst a, set_cd_value (Some v) (snd a))) v); [reflexivity|exact Hwf1|exact Hks].
      - apply run_dpure. apply run_nil. }
    apply run_dpure.
    apply (run_opt cditem_child n s_LastModificationTime parse_time (fun v a => (fst a, set_cd_time v (snd a))) fmt_time tm).
    + reflexivity.
    + intros x ->. cbn [wf_opt] in Hwf0. split; [apply fmt_time_not_ws|apply parse_time_fmt; exact Hwf0].
    + intros _. reflexivity.
  - reflexivity.
Qed.

Lemma adv_ok d n ks : advances d n -> bytes_ok ks = true -> bytes_ok (dks d ks) = true.
Proof. intros A H. rewrite A. apply bytes_ok_drop. exact H. Qed.

Lemma p_custom_data_rt n c ks rest :
  wf_custom_data c = true -> bytes_ok ks = true ->
  length (devs (dump_custom_data c) ks ++ rest) <= S n ->
  p_custom_data n (devs (dump_custom_data c) ks ++ rest) ks = Ok (c, rest, dks (dump_custom_data c) ks).
Proof.
  intros Hwf Hks Hl. unfold wf_custom_data in Hwf. split_and Hwf. unfold dump_custom_data in *. unfold p_custom_data.
  eapply eq_trans; [apply wrap_rt; [|exact Hl]|].
  - apply (run_map (custom_data_child n) n (fun a => a) (fun v _ => v) dump_cditem
                   (fun kv => wf_cditem kv = true) (fun k => bytes_ok k = true)); try reflexivity.
    + intros kv k0 _ Hk. eapply adv_ok; [apply adv_cditem|exact Hk].
    + intros kv acc k0 Hkv Hk.
      pose proof (fun rest0 Hl0 => p_cditem_rt n kv k0 rest0 Hkv Hk Hl0) as P.
      unfold dump_cditem in *. rewrite devs_wrap_elem in *. unfold elem in *.
      eapply (run_sub (custom_data_child n) n s_Item [] _ (p_cditem n)
                      (fun kv acc => assoc_insert (fst kv) (snd kv) acc)); [reflexivity|].
      intros rest0 Hl0. apply P. cbn [app length] in *. lia.
    + apply Forall_forall. intros kv Hin. rewrite forallb_forall in Hwf0. exact (Hwf0 kv Hin).
    + exact Hks.
    + exact Hwf.
  - reflexivity.
Qed.

(* generic steps for optional sub-elements and shared containers *)
Section osteps.
  Context {St : Type}.
  Variable child : bytes -> handler St.
  Variable bound : nat.
  Notation run := (run child bound).

  Lemma run_opt_sub {A} name (p : list ev -> bytes -> pres A) (set : option A -> St -> St) (dmp : A -> list ev)
        (o : option A) acc ks :
    child name = h_sub p (fun x a => set (Some x) a) ->
    (forall x, o = Some x ->
       exists attrs tl, dmp x = EStart name attrs :: tl /\
         forall rest, length (dmp x ++ rest) <= bound -> p (dmp x ++ rest) ks = Ok (x, rest, ks)) ->
    (o = None -> set None acc = acc) ->
    run (match o with Some x => dmp x | None => [] end) acc ks (set o acc) ks.
  Proof.
    intros Hc Hs Hn. destruct o as [x|].
    - destruct (Hs x eq_refl) as [attrs [tl [E P]]]. rewrite E in *.
      apply (run_sub child bound name attrs tl p (fun x a => set (Some x) a) x acc ks ks Hc). exact P.
    - rewrite (Hn eq_refl). apply run_nil.
  Qed.

  Lemma run_opt_dsub {A} name (p : list ev -> bytes -> pres A) (set : option A -> St -> St) (dmp : A -> dumper)
        (o : option A) acc ks :
    child name = h_sub p (fun x a => set (Some x) a) ->
    (forall x, o = Some x ->
       exists attrs tl, devs (dmp x) ks = EStart name attrs :: tl /\
         forall rest, length (devs (dmp x) ks ++ rest) <= bound ->
                      p (devs (dmp x) ks ++ rest) ks = Ok (x, rest, dks (dmp x) ks)) ->
    (o = None -> set None acc = acc) ->
    run (devs (match o with Some x => dmp x | None => dpure [] end) ks) acc ks (set o acc)
        (dks (match o with Some x => dmp x | None => dpure [] end) ks).
  Proof.
    intros Hc Hs Hn. destruct o as [x|].
    - destruct (Hs x eq_refl) as [attrs [tl [E P]]]. rewrite E in *.
      apply (run_sub child bound name attrs tl p (fun x a => set (Some x) a) x acc ks _ Hc). exact P.
    - rewrite (Hn eq_refl). apply run_nil.
  Qed.

  Lemma run_custom_data (set : custom_data -> St -> St) cd acc ks :
    child s_CustomData = h_sub (p_custom_data bound) set ->
    wf_custom_data cd = true -> bytes_ok ks = true ->
    run (devs (dump_custom_data cd) ks) acc ks (set cd acc) (dks (dump_custom_data cd) ks).
  Proof.
    intros Hc Hwf Hks. pose proof (fun rest Hl => p_custom_data_rt bound cd ks rest Hwf Hks Hl) as P.
    unfold dump_custom_data in *. rewrite devs_wrap_elem in *. unfold elem in *.
    eapply run_sub; [exact Hc|]. intros rest Hl. apply P. cbn [app length] in *. lia.
  Qed.

  Lemma run_times (set : times -> St -> St) t acc ks :
    child s_Times = h_sub (p_times bound) set -> wf_times t = true ->
    run (dump_times t) acc ks (set t acc) ks.
  Proof.
    intros Hc Hwf. pose proof (fun rest Hl => p_times_rt bound t ks rest Hwf Hl) as P.
    rewrite dump_times_shape in *. unfold elem in *.
    eapply run_sub; [exact Hc|]. intros rest Hl. apply P. cbn [app length] in *. lia.
  Qed.
End osteps.

(* ------------------------------------------------------------------------------------------ *)
(* AutoType *)
Lemma wf_text_nws t : wf_text t = true -> ws_only t = false.
Proof. apply negb_true_iff. Qed.

Lemma opt_text_ok (o : option bytes) : wf_opt wf_text o = true ->
  forall x, o = Some x -> ws_only (fmt_id x) = false /\ conv_string (fmt_id x) = Ok x.
Proof. intros H x ->. cbn [wf_opt] in H. split; [apply wf_text_nws; exact H|reflexivity]. Qed.

Lemma dump_assoc_shape a :
  dump_assoc a = elem s_Association (simple_opt s_Window fmt_id (as_window a) ++ simple_opt s_KeystrokeSequence fmt_id (as_seq a)).
Proof. unfold dump_assoc, elem. rewrite <- !app_assoc. reflexivity. Qed.

Lemma p_assoc_rt n a ks rest :
  wf_assoc a = true -> length (dump_assoc a ++ rest) <= S n ->
  p_assoc n (dump_assoc a ++ rest) ks = Ok (a, rest, ks).
Proof.
  intros Hwf Hl. rewrite dump_assoc_shape in *. unfold wf_assoc in Hwf. split_and Hwf. unfold p_assoc.
  eapply eq_trans; [apply elem_rt; [|exact Hl]|].
  - eapply run_app.
    + apply (run_opt assoc_child n s_Window conv_string set_as_window fmt_id (as_window a)); [reflexivity| |intros _; reflexivity].
      apply opt_text_ok. exact Hwf.
    + apply (run_opt assoc_child n s_KeystrokeSequence conv_string set_as_seq fmt_id (as_seq a)); [reflexivity| |].
      * apply opt_text_ok. exact Hwf0.
      * intros _. reflexivity.
  - destruct a; reflexivity.
Qed.

Lemma at_assocs_set v a : at_assocs (set_at_assocs v a) = v. Proof. destruct a; reflexivity. Qed.
Lemma set_at_assocs_set v w a : set_at_assocs v (set_at_assocs w a) = set_at_assocs v a. Proof. destruct a; reflexivity. Qed.
Lemma set_at_assocs_get a : set_at_assocs (at_assocs a) a = a. Proof. destruct a; reflexivity. Qed.

Lemma dump_autotype_shape a :
  dump_autotype a = elem s_AutoType (simple s_Enabled (fmt_bool (at_enabled a))
     ++ simple_opt s_DefaultSequence fmt_id (at_seq a) ++ concat (map dump_assoc (at_assocs a))).
Proof. unfold dump_autotype, elem. rewrite <- !app_assoc. reflexivity. Qed.

Lemma p_autotype_rt n a ks rest :
  wf_autotype a = true -> length (dump_autotype a ++ rest) <= S n ->
  p_autotype n (dump_autotype a ++ rest) ks = Ok (a, rest, ks).
Proof.
  intros Hwf Hl. rewrite dump_autotype_shape in *. unfold wf_autotype in Hwf. split_and Hwf. unfold p_autotype.
  eapply eq_trans; [apply elem_rt; [|exact Hl]|].
  - eapply run_app.
    { eapply (run_simple (autotype_child n) n s_Enabled conv_bool set_at_enabled); [reflexivity|apply fmt_bool_not_ws|].
      unfold conv_bool. rewrite parse_bool_fmt. reflexivity. }
    eapply run_app.
    { apply (run_opt (autotype_child n) n s_DefaultSequence conv_string set_at_seq fmt_id (at_seq a)); [reflexivity| |intros _; reflexivity].
      apply opt_text_ok. exact Hwf. }
    apply (run_list_pure (autotype_child n) n at_assocs set_at_assocs dump_assoc (fun x => wf_assoc x = true)
                         at_assocs_set set_at_assocs_set set_at_assocs_get).
    + intros x acc ks0 Hx. pose proof (fun rest0 Hl0 => p_assoc_rt n x ks0 rest0 Hx Hl0) as P.
      rewrite dump_assoc_shape in *. unfold elem in *.
      eapply (run_sub (autotype_child n) n s_Association [] _ (p_assoc n) (fun x a => set_at_assocs (at_assocs a ++ [x]) a));
        [reflexivity|].
      intros rest0 Hl0. apply P. cbn [app length] in *. lia.
    + apply Forall_forall. intros x Hin. rewrite forallb_forall in Hwf0. exact (Hwf0 x Hin).
  - destruct a; reflexivity.
Qed.

(* ------------------------------------------------------------------------------------------ *)
(* String fields *)
Lemma wf_field_value_nonempty v : wf_field_value v = true -> value_is_empty v = false.
Proof.
  destruct v as [t|p|b]; cbn [wf_field_value value_is_empty]; intro H; try discriminate.
  - destruct t; [discriminate|reflexivity].
  - apply andb_true_iff in H. destruct H as [H _]. apply negb_true_iff in H. exact H.
Qed.

Lemma p_string_field_rt n kv ks rest :
  wf_field kv = true -> bytes_ok ks = true ->
  length (devs (dump_field kv) ks ++ rest) <= S n ->
  p_string_field n (devs (dump_field kv) ks ++ rest) ks = Ok ((fst kv, Some (snd kv)), rest, dks (dump_field kv) ks).
Proof.
  intros Hwf Hks Hl. destruct kv as [k v]. unfold wf_field in Hwf. cbn [fst snd] in *. split_and Hwf.
  unfold dump_field in *. cbn [fst snd] in *. unfold p_string_field.
  eapply eq_trans; [apply wrap_rt; [|exact Hl]|].
  - eapply run_dseq.
    { apply run_dpure.
      eapply (run_simple string_field_child n s_Key conv_string (fun v a => (v, snd a))); [reflexivity| |reflexivity].
      apply wf_text_nws. exact Hwf. }
    rewrite dks_dpure.
    apply (run_value string_field_child n (fun v a => (fst a, if value_is_empty v then snd a else Some v)) v);
      [reflexivity|apply wf_field_value_wf; exact Hwf0|exact Hks].
  - cbn [fst snd]. rewrite (wf_field_value_nonempty v Hwf0). reflexivity.
Qed.

(* ------------------------------------------------------------------------------------------ *)
(* optional scalars *)
Lemma opt_usize_ok (o : option N) : wf_opt wf_usize o = true ->
  forall x, o = Some x -> ws_only (fmt_N x) = false /\ conv_usize (fmt_N x) = Ok x.
Proof.
  intros H x ->. cbn [wf_opt] in H. split; [apply fmt_N_not_ws|]. unfold conv_usize.
  rewrite (parse_usize_fmt _ (wf_usize_lt _ H)). reflexivity.
Qed.
Lemma opt_isize_ok (o : option Z) : wf_opt wf_isize o = true ->
  forall x, o = Some x -> ws_only (fmt_Z x) = false /\ conv_isize (fmt_Z x) = Ok x.
Proof.
  intros H x ->. cbn [wf_opt] in H. split; [apply fmt_Z_not_ws|]. unfold conv_isize, wf_isize in *.
  apply andb_true_iff in H. destruct H as [H1 H2]. apply Z.leb_le in H1. apply Z.ltb_lt in H2.
  rewrite parse_isize_fmt by lia. reflexivity.
Qed.
Lemma wf_uuid_parts u : wf_uuid u = true -> length u = 16 /\ bytes_ok u = true.
Proof. unfold wf_uuid. intro H. apply andb_true_iff in H. destruct H as [H1 H2]. apply Nat.eqb_eq in H1. tauto. Qed.
Lemma uuid_ok u : wf_uuid u = true -> ws_only (fmt_uuid u) = false /\ parse_uuid (fmt_uuid u) = Ok u.
Proof.
  intro H. destruct (wf_uuid_parts u H) as [L B]. split; [apply uuid_not_ws; assumption|apply parse_uuid_fmt; assumption].
Qed.
Lemma opt_uuid_ok (o : option bytes) : wf_opt wf_uuid o = true ->
  forall x, o = Some x -> ws_only (fmt_uuid x) = false /\ parse_uuid (fmt_uuid x) = Ok x.
Proof. intros H x ->. cbn [wf_opt] in H. apply uuid_ok. exact H. Qed.
Lemma opt_color_ok (o : option color) : wf_opt wf_color o = true ->
  forall x, o = Some x -> ws_only (fmt_color_c x) = false /\ parse_color_c (fmt_color_c x) = Ok x.
Proof.
  intros H x ->. cbn [wf_opt] in H. split; [apply fmt_color_not_ws|]. apply parse_color_fmt.
  destruct x as [[r g] b]. unfold wf_color in H. split_and H. apply N.ltb_lt in H, H0, H1. tauto.
Qed.
Lemma opt_bool_ok (o : option bool) :
  forall x, o = Some x -> ws_only (fmt_bool x) = false /\ conv_bool (fmt_bool x) = Ok x.
Proof. intros x _. split; [apply fmt_bool_not_ws|]. unfold conv_bool. rewrite parse_bool_fmt. reflexivity. Qed.
Lemma opt_time_ok (o : option Z) : wf_opt wf_time o = true ->
  forall x, o = Some x -> ws_only (fmt_time x) = false /\ parse_time (fmt_time x) = Ok x.
Proof. intros H x ->. cbn [wf_opt] in H. split; [apply fmt_time_not_ws|apply parse_time_fmt; exact H]. Qed.

(* ------------------------------------------------------------------------------------------ *)
(* Entry *)
Lemma e_fields_set v a : e_fields (set_e_fields v a) = v. Proof. destruct a; reflexivity. Qed.
Lemma set_e_fields_set v w a : set_e_fields v (set_e_fields w a) = set_e_fields v a. Proof. destruct a; reflexivity. Qed.
Lemma set_e_fields_get a : set_e_fields (e_fields a) a = a. Proof. destruct a; reflexivity. Qed.

Lemma wf_hist_forallb h :
  (fix all (l : list entry) : bool := match l with [] => true | x :: r => wf_entry x && all r end) h = forallb wf_entry h.
Proof. induction h as [|x r IH]; [reflexivity|]. cbn [forallb]. rewrite <- IH. reflexivity. Qed.

Lemma devs_entry_head e ks : exists tl, devs (dump_entry e) ks = EStart s_Entry [] :: tl.
Proof. destruct e. cbn [dump_entry]. rewrite devs_wrap. eexists. reflexivity. Qed.

Section entry_steps.
  Variable pe : list ev -> bytes -> pres entry.
  Variable n : nat.
  Notation run := (run (entry_child pe n) n).

  Lemma run_tags tags acc ks :
    wf_tags tags = true -> (tags = [] -> set_e_tags [] acc = acc) ->
    run (simple s_Tags (join_tags tags)) acc ks (set_e_tags tags acc) ks.
  Proof.
    intros Hwf Hn. destruct tags as [|t r].
    - rewrite (Hn eq_refl).
      apply (run_simple_none (entry_child pe n) n s_Tags conv_string
               (fun o a => match o with Some t => set_e_tags (split_tags t) a | None => a end) [] acc ks);
        reflexivity.
    - unfold wf_tags in Hwf. cbn [is_nil orb] in Hwf. apply andb_true_iff in Hwf. destruct Hwf as [H1 H2].
      apply negb_true_iff in H2.
      pose proof (run_simple_some (entry_child pe n) n s_Tags conv_string
               (fun o a => match o with Some t => set_e_tags (split_tags t) a | None => a end)
               (join_tags (t :: r)) (join_tags (t :: r)) acc ks eq_refl H2 eq_refl) as R.
      cbn beta iota in R. pose proof (split_join_tags (t :: r) ltac:(discriminate) H1) as E.
      rewrite E in R. exact R.
  Qed.
End entry_steps.

Lemma p_entry_rt : forall e, wf_entry e = true ->
  forall fuel ks rest, bytes_ok ks = true -> length (devs (dump_entry e) ks ++ rest) <= fuel ->
    p_entry fuel (devs (dump_entry e) ks ++ rest) ks = Ok (e, rest, dks (dump_entry e) ks).
Proof.
  induction e as [uuid fields aty tags tms cd icon cicon fg bg url qc hist IH] using entry_ind'.
  intros Hwf fuel ks rest Hks Hl.
  destruct fuel as [|f].
  { destruct (devs_entry_head (mkEntry uuid fields aty tags tms cd icon cicon fg bg url qc hist) ks) as [tl E].
    rewrite E in Hl. cbn in Hl. lia. }
  cbn [wf_entry] in Hwf. rewrite (match hist as h0 return (match h0 with Some h => _ h | None => true end = match h0 with Some h => forallb wf_entry h | None => true end) with Some h => wf_hist_forallb h | None => eq_refl end) in Hwf.
  split_and Hwf.
  cbn [p_entry]. cbn [dump_entry] in *.
  eapply eq_trans; [apply wrap_rt; [|exact Hl]|].
  - (* UUID, Tags *)
    eapply run_dseq.
    { apply run_dpure. eapply run_app.
      - destruct (uuid_ok uuid Hwf) as [W P].
        eapply (run_simple (entry_child (p_entry f) f) f s_UUID parse_uuid set_e_uuid); [reflexivity|exact W|exact P].
      - apply run_tags; [exact Hwf8|intros _; reflexivity]. }
    rewrite dks_dpure.
    (* String fields *)
    eapply run_dseq.
    { apply (run_map (entry_child (p_entry f) f) f e_fields set_e_fields dump_field (fun kv => wf_field kv = true)
                     (fun k => bytes_ok k = true) e_fields_set set_e_fields_set set_e_fields_get).
      - intros kv k0 _ Hk. eapply adv_ok; [apply adv_field|exact Hk].
      - intros kv acc k0 Hkv Hk.
        pose proof (fun rest0 Hl0 => p_string_field_rt f kv k0 rest0 Hkv Hk Hl0) as P.
        unfold dump_field in *. rewrite devs_wrap_elem in *. unfold elem in *.
        apply (run_sub (entry_child (p_entry f) f) f s_String [] _ (p_string_field f)
                       (fun kv a => match snd kv with
                                    | Some v => set_e_fields (assoc_insert (fst kv) v (e_fields a)) a
                                    | None => a
                                    end) (fst kv, Some (snd kv)) acc k0 _ eq_refl).
        intros rest0 Hl0. apply P. cbn [app length] in *. lia.
      - apply Forall_forall. intros kv Hin. rewrite forallb_forall in Hwf10. exact (Hwf10 kv Hin).
      - exact Hks.
      - exact Hwf11. }
    assert (Hk1 : bytes_ok (dks (dmap dump_field fields) ks) = true).
    { eapply adv_ok; [|exact Hks]. apply (adv_map dump_field (fun kv => pv_value (snd kv))).
      apply Forall_forall. intros kv _. apply adv_field. }
    (* CustomData *)
    eapply run_dseq.
    { apply (run_custom_data (entry_child (p_entry f) f) f set_e_custom_data); [reflexivity|exact Hwf6|exact Hk1]. }
    assert (Hk2 : bytes_ok (dks (dump_custom_data cd) (dks (dmap dump_field fields) ks)) = true).
    { eapply adv_ok; [apply adv_custom_data|exact Hk1]. }
    (* AutoType, Times, scalars *)
    eapply run_dseq.
    { apply run_dpure. eapply run_app.
      { apply (run_opt_sub (entry_child (p_entry f) f) f s_AutoType (p_autotype f) set_e_autotype dump_autotype aty);
          [reflexivity| |intros _; reflexivity].
        intros a ->. cbn [wf_opt] in Hwf9. do 2 eexists.
        split; [rewrite dump_autotype_shape; unfold elem; reflexivity|].
        intros rest0 Hl0. apply p_autotype_rt; [exact Hwf9|lia]. }
      eapply run_app.
      { apply (run_times (entry_child (p_entry f) f) f set_e_times); [reflexivity|exact Hwf7]. }
      unfold entry_tail.
      eapply run_app.
      { apply (run_opt (entry_child (p_entry f) f) f s_IconID conv_usize set_e_icon_id fmt_N icon);
          [reflexivity|apply opt_usize_ok; exact Hwf5|intros _; reflexivity]. }
      eapply run_app.
      { apply (run_opt (entry_child (p_entry f) f) f s_CustomIconUUID parse_uuid set_e_custom_icon fmt_uuid cicon);
          [reflexivity|apply opt_uuid_ok; exact Hwf4|intros _; reflexivity]. }
      eapply run_app.
      { apply (run_opt (entry_child (p_entry f) f) f s_ForegroundColor parse_color_c set_e_fg fmt_color_c fg);
          [reflexivity|apply opt_color_ok; exact Hwf3|intros _; reflexivity]. }
      eapply run_app.
      { apply (run_opt (entry_child (p_entry f) f) f s_BackgroundColor parse_color_c set_e_bg fmt_color_c bg);
          [reflexivity|apply opt_color_ok; exact Hwf2|intros _; reflexivity]. }
      eapply run_app.
      { apply (run_opt (entry_child (p_entry f) f) f s_OverrideURL conv_string set_e_override_url fmt_id url);
          [reflexivity|apply opt_text_ok; exact Hwf1|intros _; reflexivity]. }
      apply (run_opt (entry_child (p_entry f) f) f s_QualityCheck conv_bool set_e_quality_check fmt_bool qc);
        [reflexivity|apply opt_bool_ok|intros _; reflexivity]. }
    rewrite dks_dpure.
    (* History *)
    apply (run_opt_dsub (entry_child (p_entry f) f) f s_History
             (p_element s_History [] (history_child (p_entry f)) f) set_e_history
             (fun h => wrap s_History (dmap dump_entry h)) hist); [reflexivity| |intros _; reflexivity].
    intros h ->. cbn [hist_all] in IH. rewrite devs_wrap. do 2 eexists. split; [reflexivity|].
    intros rest0 Hl0. rewrite <- devs_wrap in *.
    eapply eq_trans; [apply wrap_rt; [|lia]|reflexivity].
    apply (run_list (history_child (p_entry f)) f (fun a => a) (fun v _ => v) dump_entry
                    (fun x => wf_entry x = true /\
                       (forall fuel ks rest, bytes_ok ks = true -> length (devs (dump_entry x) ks ++ rest) <= fuel ->
                          p_entry fuel (devs (dump_entry x) ks ++ rest) ks = Ok (x, rest, dks (dump_entry x) ks)))
                    (fun k => bytes_ok k = true)); try reflexivity.
    + intros x k0 _ Hk. eapply adv_ok; [apply adv_entry|exact Hk].
    + intros x acc k0 [Hx Px] Hk. destruct (devs_entry_head x k0) as [tl E].
      pose proof (fun rest1 Hl1 => Px f k0 rest1 Hk Hl1) as P. rewrite E in *.
      apply (run_sub (history_child (p_entry f)) f s_Entry [] tl (p_entry f) (fun e acc => acc ++ [e]) x acc k0 _ eq_refl).
      intros rest1 Hl1. apply P. exact Hl1.
    + apply Forall_forall. intros x Hin. rewrite Forall_forall in IH. rewrite forallb_forall in Hwf0. split.
      * exact (Hwf0 x Hin).
      * intros fuel0 ks0 rest1 Hk0 Hl1. apply (IH x Hin (Hwf0 x Hin)); assumption.
    + exact Hk2.
  - reflexivity.
Qed.

(* ------------------------------------------------------------------------------------------ *)
(* Group *)
Lemma g_children_set v a : g_children (set_g_children v a) = v. Proof. destruct a; reflexivity. Qed.
Lemma set_g_children_set v w a : set_g_children v (set_g_children w a) = set_g_children v a. Proof. destruct a; reflexivity. Qed.
Lemma set_g_children_get a : set_g_children (g_children a) a = a. Proof. destruct a; reflexivity. Qed.

Definition wf_node (c : entry + group) : bool := match c with inl e => wf_entry e | inr g => wf_group g end.
Lemma wf_children_forallb l :
  (fix all (l : list (entry + group)) : bool :=
     match l with [] => true | inl e :: r => wf_entry e && all r | inr g' :: r => wf_group g' && all r end) l
  = forallb wf_node l.
Proof. induction l as [|[e|g] r IH]; [reflexivity| |]; cbn [forallb wf_node]; rewrite <- IH; reflexivity. Qed.

Lemma devs_group_head g ks : exists tl, devs (dump_group g) ks = EStart s_Group [] :: tl.
Proof. destruct g. cbn [dump_group]. rewrite devs_wrap. eexists. reflexivity. Qed.

Lemma adv_node c : advances (dump_node c) (total_length (pv_node c)).
Proof. destruct c; [apply adv_entry|apply adv_group]. Qed.

Lemma run_name pg pe n name acc ks :
  wf_text0 name = true ->
  run (group_child pg pe n) n (simple s_Name name) acc ks (set_g_name name acc) ks.
Proof.
  intro Hwf. unfold wf_text0 in Hwf. destruct name as [|c r].
  - apply (run_simple_none (group_child pg pe n) n s_Name conv_string
             (fun o a => set_g_name (match o with Some t => t | None => [] end) a) [] acc ks); reflexivity.
  - cbn [is_nil orb] in Hwf. apply negb_true_iff in Hwf.
    apply (run_simple_some (group_child pg pe n) n s_Name conv_string
             (fun o a => set_g_name (match o with Some t => t | None => [] end) a) (c :: r) (c :: r) acc ks eq_refl Hwf eq_refl).
Qed.

Lemma p_group_rt : forall g, wf_group g = true ->
  forall fuel ks rest, bytes_ok ks = true -> length (devs (dump_group g) ks ++ rest) <= fuel ->
    p_group fuel (devs (dump_group g) ks ++ rest) ks = Ok (g, rest, dks (dump_group g) ks).
Proof.
  induction g as [uuid name notes icon cicon children tms cd exp das ea es ltve IH] using group_ind'.
  intros Hwf fuel ks rest Hks Hl.
  destruct fuel as [|f].
  { destruct (devs_group_head (mkGroup uuid name notes icon cicon children tms cd exp das ea es ltve) ks) as [tl E].
    rewrite E in Hl. cbn in Hl. lia. }
  cbn [wf_group] in Hwf. rewrite wf_children_forallb in Hwf. split_and Hwf.
  cbn [p_group]. cbn [dump_group] in *.
  change (dmap (fun c => match c with inl e => dump_entry e | inr g' => dump_group g' end) children)
    with (dmap dump_node children) in *.
  set (CH := group_child (p_group f) (p_entry f) f).
  eapply eq_trans; [apply wrap_rt; [|exact Hl]|].
  - eapply run_dseq.
    { apply run_dpure. unfold group_head. eapply run_app.
      { apply run_name. exact Hwf10. }
      eapply run_app.
      { destruct (uuid_ok uuid Hwf) as [W P].
        eapply (run_simple CH f s_UUID parse_uuid set_g_uuid); [reflexivity|exact W|exact P]. }
      eapply run_app.
      { apply (run_opt CH f s_Notes conv_string set_g_notes fmt_id notes);
          [reflexivity|apply opt_text_ok; exact Hwf9|intros _; reflexivity]. }
      eapply run_app.
      { apply (run_opt CH f s_IconID conv_usize set_g_icon_id fmt_N icon);
          [reflexivity|apply opt_usize_ok; exact Hwf8|intros _; reflexivity]. }
      eapply run_app.
      { apply (run_opt CH f s_CustomIconUUID parse_uuid set_g_custom_icon fmt_uuid cicon);
          [reflexivity|apply opt_uuid_ok; exact Hwf7|intros _; reflexivity]. }
      apply (run_times CH f set_g_times); [reflexivity|exact Hwf6]. }
    rewrite dks_dpure.
    eapply run_dseq.
    { apply (run_custom_data CH f set_g_custom_data); [reflexivity|exact Hwf5|exact Hks]. }
    assert (Hk1 : bytes_ok (dks (dump_custom_data cd) ks) = true).
    { eapply adv_ok; [apply adv_custom_data|exact Hks]. }
    eapply run_dseq.
    { apply run_dpure. unfold group_mid. eapply run_app.
      { eapply (run_simple CH f s_IsExpanded conv_bool set_g_is_expanded); [reflexivity|apply fmt_bool_not_ws|].
        unfold conv_bool. rewrite parse_bool_fmt. reflexivity. }
      eapply run_app.
      { apply (run_opt CH f s_DefaultAutoTypeSequence conv_string set_g_default_autotype_sequence fmt_id das);
          [reflexivity|apply opt_text_ok; exact Hwf4|intros _; reflexivity]. }
      eapply run_app.
      { apply (run_opt CH f s_EnableAutoType conv_string set_g_enable_autotype fmt_id ea);
          [reflexivity|apply opt_text_ok; exact Hwf3|intros _; reflexivity]. }
      eapply run_app.
      { apply (run_opt CH f s_EnableSearching conv_string set_g_enable_searching fmt_id es);
          [reflexivity|apply opt_text_ok; exact Hwf2|intros _; reflexivity]. }
      apply (run_opt CH f s_LastTopVisibleEntry parse_uuid set_g_last_top_visible_entry fmt_uuid ltve);
        [reflexivity|apply opt_uuid_ok; exact Hwf1|intros _; reflexivity]. }
    rewrite dks_dpure.
    apply (run_list CH f g_children set_g_children dump_node
                    (fun c => wf_node c = true /\
                       match c with
                       | inl _ => True
                       | inr x => forall fuel ks rest, bytes_ok ks = true -> length (devs (dump_group x) ks ++ rest) <= fuel ->
                            p_group fuel (devs (dump_group x) ks ++ rest) ks = Ok (x, rest, dks (dump_group x) ks)
                       end)
                    (fun k => bytes_ok k = true) g_children_set set_g_children_set set_g_children_get).
    + intros x k0 _ Hk. eapply adv_ok; [apply adv_node|exact Hk].
    + intros [e|x] acc k0 [Hx Px] Hk; cbn [dump_node wf_node] in *.
      * destruct (devs_entry_head e k0) as [tl E].
        pose proof (fun rest1 Hl1 => p_entry_rt e Hx f k0 rest1 Hk Hl1) as P. rewrite E in *.
        apply (run_sub CH f s_Entry [] tl (p_entry f) (fun e a => set_g_children (g_children a ++ [inl e]) a) e acc k0 _ eq_refl).
        exact P.
      * destruct (devs_group_head x k0) as [tl E].
        pose proof (fun rest1 Hl1 => Px f k0 rest1 Hk Hl1) as P. rewrite E in *.
        apply (run_sub CH f s_Group [] tl (p_group f) (fun g a => set_g_children (g_children a ++ [inr g]) a) x acc k0 _ eq_refl).
        exact P.
    + apply Forall_forall. intros c Hin. rewrite Forall_forall in IH. rewrite forallb_forall in Hwf0.
      pose proof (Hwf0 c Hin) as Hc. split; [exact Hc|]. destruct c as [e|x]; [exact I|].
      intros fuel0 ks0 rest1 Hk0 Hl1. apply (IH (inr x) Hin Hc); assumption.
    + exact Hk1.
  - reflexivity.
Qed.

(* ------------------------------------------------------------------------------------------ *)
(* Meta and its containers *)
Lemma bool_step {St} (child : bytes -> handler St) n name (set : bool -> St -> St) b acc ks :
  child name = h_simple (p_chars conv_bool) set ->
  run child n (simple name (fmt_bool b)) acc ks (set b acc) ks.
Proof.
  intro Hc. eapply (run_simple child n name conv_bool set); [exact Hc|apply fmt_bool_not_ws|].
  unfold conv_bool. rewrite parse_bool_fmt. reflexivity.
Qed.

Lemma dump_memprot_shape m :
  dump_memprot m = elem s_MemoryProtection
    (simple s_ProtectTitle (fmt_bool (mp_title m)) ++ simple s_ProtectUserName (fmt_bool (mp_username m))
     ++ simple s_ProtectPassword (fmt_bool (mp_password m)) ++ simple s_ProtectURL (fmt_bool (mp_url m))
     ++ simple s_ProtectNotes (fmt_bool (mp_notes m))).
Proof. unfold dump_memprot, elem. rewrite <- !app_assoc. reflexivity. Qed.

Lemma p_memprot_rt n m ks rest :
  length (dump_memprot m ++ rest) <= S n -> p_memprot n (dump_memprot m ++ rest) ks = Ok (m, rest, ks).
Proof.
  intro Hl. rewrite dump_memprot_shape in *. unfold p_memprot.
  eapply eq_trans; [apply elem_rt; [|exact Hl]|].
  - eapply run_app; [apply (bool_step memprot_child n s_ProtectTitle set_mp_title); reflexivity|].
    eapply run_app; [apply (bool_step memprot_child n s_ProtectUserName set_mp_username); reflexivity|].
    eapply run_app; [apply (bool_step memprot_child n s_ProtectPassword set_mp_password); reflexivity|].
    eapply run_app; [apply (bool_step memprot_child n s_ProtectURL set_mp_url); reflexivity|].
    apply (bool_step memprot_child n s_ProtectNotes set_mp_notes); reflexivity.
  - destruct m; reflexivity.
Qed.

Lemma dump_icon_shape i :
  dump_icon i = elem s_Icon (simple s_UUID (fmt_uuid (ic_uuid i)) ++ simple s_Data (b64_encode (ic_data i))).
Proof. unfold dump_icon, elem. rewrite <- !app_assoc. reflexivity. Qed.

Lemma p_icon_rt n i ks rest :
  wf_icon i = true -> length (dump_icon i ++ rest) <= S n -> p_icon n (dump_icon i ++ rest) ks = Ok (i, rest, ks).
Proof.
  intros Hwf Hl. rewrite dump_icon_shape in *. unfold wf_icon in Hwf. split_and Hwf. unfold p_icon.
  eapply eq_trans; [apply elem_rt; [|exact Hl]|].
  - eapply run_app.
    + destruct (uuid_ok _ Hwf) as [W P].
      eapply (run_simple icon_child n s_UUID parse_uuid set_ic_uuid); [reflexivity|exact W|exact P].
    + eapply (run_simple icon_child n s_Data conv_b64 set_ic_data); [reflexivity| |].
      * apply b64_encode_not_ws; [exact Hwf0|]. intro E. rewrite E in Hwf1. discriminate.
      * unfold conv_b64. rewrite b64_decode_encode by exact Hwf0. reflexivity.
  - destruct i; reflexivity.
Qed.

Lemma list_laws_get {X} (v : list X) (a : list X) : (fun a : list X => a) ((fun v _ => v) v a) = v. Proof. reflexivity. Qed.

Lemma p_icons_rt n l ks rest :
  forallb wf_icon l = true -> length (dump_icons l ++ rest) <= S n ->
  p_icons n (dump_icons l ++ rest) ks = Ok (l, rest, ks).
Proof.
  intros Hwf Hl. unfold dump_icons in *. change (EStart s_CustomIcons [] :: concat (map dump_icon l) ++ [EEnd s_CustomIcons])
    with (elem s_CustomIcons (concat (map dump_icon l))) in *. unfold p_icons.
  eapply eq_trans; [apply elem_rt; [|exact Hl]|].
  - apply (run_list_pure (icons_child n) n (fun a => a) (fun v _ => v) dump_icon (fun i => wf_icon i = true)); try reflexivity.
    + intros i acc k0 Hi. pose proof (fun rest0 Hl0 => p_icon_rt n i k0 rest0 Hi Hl0) as P.
      rewrite dump_icon_shape in *. unfold elem in *.
      apply (run_sub (icons_child n) n s_Icon [] _ (p_icon n) (fun i acc => acc ++ [i]) i acc k0 k0 eq_refl).
      intros rest0 Hl0. apply P. cbn [app length] in *. lia.
    + apply Forall_forall. intros i Hin. rewrite forallb_forall in Hwf. exact (Hwf i Hin).
  - reflexivity.
Qed.

Lemma dump_delobj_shape o :
  dump_delobj o = elem s_DeletedObject (simple s_UUID (fmt_uuid (do_uuid o)) ++ simple s_DeletionTime (fmt_time (do_time o))).
Proof. unfold dump_delobj, elem. rewrite <- !app_assoc. reflexivity. Qed.

Lemma p_delobj_rt n o ks rest :
  wf_delobj o = true -> length (dump_delobj o ++ rest) <= S n -> p_delobj n (dump_delobj o ++ rest) ks = Ok (o, rest, ks).
Proof.
  intros Hwf Hl. rewrite dump_delobj_shape in *. unfold wf_delobj in Hwf. split_and Hwf. unfold p_delobj.
  eapply eq_trans; [apply elem_rt; [|exact Hl]|].
  - eapply run_app.
    + destruct (uuid_ok _ Hwf) as [W P].
      eapply (run_simple delobj_child n s_UUID parse_uuid set_do_uuid); [reflexivity|exact W|exact P].
    + eapply (run_simple delobj_child n s_DeletionTime parse_time set_do_time); [reflexivity|apply fmt_time_not_ws|].
      apply parse_time_fmt. exact Hwf0.
  - destruct o; reflexivity.
Qed.

Lemma p_deleted_rt n l ks rest :
  forallb wf_delobj l = true -> length (dump_deleted l ++ rest) <= S n ->
  p_deleted n (dump_deleted l ++ rest) ks = Ok (l, rest, ks).
Proof.
  intros Hwf Hl. unfold dump_deleted in *.
  change (EStart s_DeletedObjects [] :: concat (map dump_delobj l) ++ [EEnd s_DeletedObjects])
    with (elem s_DeletedObjects (concat (map dump_delobj l))) in *. unfold p_deleted.
  eapply eq_trans; [apply elem_rt; [|exact Hl]|].
  - apply (run_list_pure (deleted_child n) n (fun a => a) (fun v _ => v) dump_delobj (fun o => wf_delobj o = true)); try reflexivity.
    + intros o acc k0 Ho. pose proof (fun rest0 Hl0 => p_delobj_rt n o k0 rest0 Ho Hl0) as P.
      rewrite dump_delobj_shape in *. unfold elem in *.
      apply (run_sub (deleted_child n) n s_DeletedObject [] _ (p_delobj n) (fun o acc => acc ++ [o]) o acc k0 k0 eq_refl).
      intros rest0 Hl0. apply P. cbn [app length] in *. lia.
    + apply Forall_forall. intros o Hin. rewrite forallb_forall in Hwf. exact (Hwf o Hin).
  - reflexivity.
Qed.

Section gz.
  Variable gzip : bytes -> bytes.
  Variable gunzip : bytes -> option bytes.

  Lemma option_bytes_eqb_eq (a b : option bytes) : option_eqb bytes_eqb a b = true -> a = b.
  Proof.
    destruct a as [x|], b as [y|]; cbn [option_eqb]; intro H; try discriminate; [|reflexivity].
    apply bytes_eqb_eq in H. subst. reflexivity.
  Qed.

  Lemma p_binary_rt b ks rest :
    wf_binary gzip gunzip b = true ->
    p_binary gunzip (dump_binary gzip b ++ rest) ks = Ok (b, rest, ks).
  Proof.
    intro Hwf. unfold wf_binary in Hwf. split_and Hwf. apply negb_true_iff in Hwf.
    assert (Hw : ws_only (b64_encode (binary_wire gzip b)) = false).
    { apply b64_encode_not_ws; [exact Hwf1|]. intro E. rewrite E in Hwf. discriminate. }
    unfold dump_binary. rewrite (emit_chars_text _ Hw). unfold p_binary. cbn [app]. rewrite bytes_eqb_refl.
    destruct b as [id comp content]. unfold binary_attrs, binary_wire in *. cbn [bin_id bin_compressed bin_content] in *.
    destruct comp.
    - apply option_bytes_eqb_eq in Hwf0.
      assert (A1 : attr_bool s_Compressed (match id with Some i => [(s_ID, i)] | None => [] end ++ [(s_Compressed, s_True)]) = Ok true)
        by (destruct id; reflexivity).
      assert (A2 : attr_bool s_Protected (match id with Some i => [(s_ID, i)] | None => [] end ++ [(s_Compressed, s_True)]) = Ok false)
        by (destruct id; reflexivity).
      assert (A3 : attr_get s_ID (match id with Some i => [(s_ID, i)] | None => [] end ++ [(s_Compressed, s_True)]) = id)
        by (destruct id; reflexivity).
      rewrite A1, A2, A3. cbn [bind p_chars conv_string]. rewrite b64_decode_encode by exact Hwf1.
      cbn [of_option bind fst snd]. rewrite Hwf0. reflexivity.
    - assert (A1 : attr_bool s_Compressed (match id with Some i => [(s_ID, i)] | None => [] end ++ []) = Ok false)
        by (destruct id; reflexivity).
      assert (A2 : attr_bool s_Protected (match id with Some i => [(s_ID, i)] | None => [] end ++ []) = Ok false)
        by (destruct id; reflexivity).
      assert (A3 : attr_get s_ID (match id with Some i => [(s_ID, i)] | None => [] end ++ []) = id)
        by (destruct id; reflexivity).
      rewrite A1, A2, A3. cbn [bind p_chars conv_string]. rewrite b64_decode_encode by exact Hwf1.
      reflexivity.
  Qed.

  Lemma p_binaries_rt n l ks rest :
    forallb (wf_binary gzip gunzip) l = true -> length (dump_binaries gzip l ++ rest) <= S n ->
    p_binaries gunzip n (dump_binaries gzip l ++ rest) ks = Ok (l, rest, ks).
  Proof.
    intros Hwf Hl. unfold dump_binaries in *.
    change (EStart s_Binaries [] :: concat (map (dump_binary gzip) l) ++ [EEnd s_Binaries])
      with (elem s_Binaries (concat (map (dump_binary gzip) l))) in *. unfold p_binaries.
    eapply eq_trans; [apply elem_rt; [|exact Hl]|].
    - apply (run_list_pure (binaries_child gunzip) n (fun a => a) (fun v _ => v) (dump_binary gzip)
                           (fun b => wf_binary gzip gunzip b = true)); try reflexivity.
      + intros b acc k0 Hb. pose proof (fun rest0 => p_binary_rt b k0 rest0 Hb) as P.
        unfold dump_binary in *.
        apply (run_sub (binaries_child gunzip) n s_Binary _ _ (p_binary gunzip) (fun b acc => acc ++ [b]) b acc k0 k0 eq_refl).
        intros rest0 _. apply P.
      + apply Forall_forall. intros b Hin. rewrite forallb_forall in Hwf. exact (Hwf b Hin).
    - reflexivity.
  Qed.

  Lemma p_meta_rt n m ks rest :
    wf_meta gzip gunzip m = true -> bytes_ok ks = true ->
    length (devs (dump_meta gzip m) ks ++ rest) <= S n ->
    p_meta gunzip n (devs (dump_meta gzip m) ks ++ rest) ks = Ok (m, rest, dks (dump_meta gzip m) ks).
  Proof.
    intros Hwf Hks Hl. unfold wf_meta in Hwf. split_and Hwf. unfold dump_meta in *. unfold p_meta.
    set (CH := meta_child gunzip n).
    eapply eq_trans; [apply wrap_rt; [|exact Hl]|].
    - eapply run_dseq.
      { apply run_dpure. unfold meta_head.
        eapply run_app.
        { apply (run_opt CH n s_Generator conv_string set_m_generator fmt_id (m_generator m));
            [reflexivity|apply opt_text_ok; exact Hwf|intros _; reflexivity]. }
        eapply run_app.
        { apply (run_opt CH n s_DatabaseName conv_string set_m_database_name fmt_id (m_database_name m));
            [reflexivity|apply opt_text_ok; exact Hwf22|intros _; reflexivity]. }
        eapply run_app.
        { apply (run_opt CH n s_DatabaseNameChanged parse_time set_m_database_name_changed fmt_time (m_database_name_changed m));
            [reflexivity|apply opt_time_ok; exact Hwf21|intros _; reflexivity]. }
        eapply run_app.
        { apply (run_opt CH n s_DatabaseDescription conv_string set_m_database_description fmt_id (m_database_description m));
            [reflexivity|apply opt_text_ok; exact Hwf20|intros _; reflexivity]. }
        eapply run_app.
        { apply (run_opt CH n s_DatabaseDescriptionChanged parse_time set_m_database_description_changed fmt_time
                         (m_database_description_changed m));
            [reflexivity|apply opt_time_ok; exact Hwf19|intros _; reflexivity]. }
        eapply run_app.
        { apply (run_opt CH n s_DefaultUserName conv_string set_m_default_username fmt_id (m_default_username m));
            [reflexivity|apply opt_text_ok; exact Hwf18|intros _; reflexivity]. }
        eapply run_app.
        { apply (run_opt CH n s_DefaultUserNameChanged parse_time set_m_default_username_changed fmt_time
                         (m_default_username_changed m));
            [reflexivity|apply opt_time_ok; exact Hwf17|intros _; reflexivity]. }
        eapply run_app.
        { apply (run_opt CH n s_MaintenanceHistoryDays conv_usize set_m_maintenance_history_days fmt_N
                         (m_maintenance_history_days m));
            [reflexivity|apply opt_usize_ok; exact Hwf16|intros _; reflexivity]. }
        eapply run_app.
        { apply (run_opt CH n s_Color parse_color_c set_m_color fmt_color_c (m_color m));
            [reflexivity|apply opt_color_ok; exact Hwf15|intros _; reflexivity]. }
        eapply run_app.
        { apply (run_opt CH n s_MasterKeyChanged parse_time set_m_master_key_changed fmt_time (m_master_key_changed m));
            [reflexivity|apply opt_time_ok; exact Hwf14|intros _; reflexivity]. }
        eapply run_app.
        { apply (run_opt CH n s_MasterKeyChangeRec conv_isize set_m_master_key_change_rec fmt_Z (m_master_key_change_rec m));
            [reflexivity|apply opt_isize_ok; exact Hwf13|intros _; reflexivity]. }
        eapply run_app.
        { apply (run_opt CH n s_MasterKeyChangeForce conv_isize set_m_master_key_change_force fmt_Z (m_master_key_change_force m));
            [reflexivity|apply opt_isize_ok; exact Hwf12|intros _; reflexivity]. }
        eapply run_app.
        { apply (run_opt_sub CH n s_MemoryProtection (p_memprot n) set_m_memory_protection dump_memprot (m_memory_protection m));
            [reflexivity| |intros _; reflexivity].
          intros p _. do 2 eexists. split; [rewrite dump_memprot_shape; unfold elem; reflexivity|].
          intros rest0 Hl0. apply p_memprot_rt. lia. }
        eapply run_app.
        { pose proof (fun rest0 Hl0 => p_icons_rt n (m_custom_icons m) ks rest0 Hwf11 Hl0) as P. unfold dump_icons in *.
          apply (run_sub CH n s_CustomIcons [] _ (p_icons n) set_m_custom_icons (m_custom_icons m) _ ks ks eq_refl).
          intros rest0 Hl0. apply P. cbn [app length] in *. lia. }
        eapply run_app.
        { apply (run_opt CH n s_RecycleBinEnabled conv_bool set_m_recyclebin_enabled fmt_bool (m_recyclebin_enabled m));
            [reflexivity|apply opt_bool_ok|intros _; reflexivity]. }
        eapply run_app.
        { apply (run_opt CH n s_RecycleBinUUID parse_uuid set_m_recyclebin_uuid fmt_uuid (m_recyclebin_uuid m));
            [reflexivity|apply opt_uuid_ok; exact Hwf10|intros _; reflexivity]. }
        eapply run_app.
        { apply (run_opt CH n s_RecycleBinChanged parse_time set_m_recyclebin_changed fmt_time (m_recyclebin_changed m));
            [reflexivity|apply opt_time_ok; exact Hwf9|intros _; reflexivity]. }
        eapply run_app.
        { apply (run_opt CH n s_EntryTemplatesGroup parse_uuid set_m_entry_templates_group fmt_uuid (m_entry_templates_group m));
            [reflexivity|apply opt_uuid_ok; exact Hwf8|intros _; reflexivity]. }
        eapply run_app.
        { apply (run_opt CH n s_EntryTemplatesGroupChanged parse_time set_m_entry_templates_group_changed fmt_time
                         (m_entry_templates_group_changed m));
            [reflexivity|apply opt_time_ok; exact Hwf7|intros _; reflexivity]. }
        eapply run_app.
        { apply (run_opt CH n s_LastSelectedGroup parse_uuid set_m_last_selected_group fmt_uuid (m_last_selected_group m));
            [reflexivity|apply opt_uuid_ok; exact Hwf6|intros _; reflexivity]. }
        eapply run_app.
        { apply (run_opt CH n s_LastTopVisibleGroup parse_uuid set_m_last_top_visible_group fmt_uuid (m_last_top_visible_group m));
            [reflexivity|apply opt_uuid_ok; exact Hwf5|intros _; reflexivity]. }
        eapply run_app.
        { apply (run_opt CH n s_HistoryMaxItems conv_usize set_m_history_max_items fmt_N (m_history_max_items m));
            [reflexivity|apply opt_usize_ok; exact Hwf4|intros _; reflexivity]. }
        eapply run_app.
        { apply (run_opt CH n s_HistoryMaxSize conv_usize set_m_history_max_size fmt_N (m_history_max_size m));
            [reflexivity|apply opt_usize_ok; exact Hwf3|intros _; reflexivity]. }
        eapply run_app.
        { apply (run_opt CH n s_SettingsChanged parse_time set_m_settings_changed fmt_time (m_settings_changed m));
            [reflexivity|apply opt_time_ok; exact Hwf2|intros _; reflexivity]. }
        pose proof (fun rest0 Hl0 => p_binaries_rt n (m_binaries m) ks rest0 Hwf1 Hl0) as P. unfold dump_binaries in *.
        apply (run_sub CH n s_Binaries [] _ (p_binaries gunzip n) set_m_binaries (m_binaries m) _ ks ks eq_refl).
        intros rest0 Hl0. apply P. cbn [app length] in *. lia. }
      rewrite dks_dpure.
      apply (run_custom_data CH n set_m_custom_data); [reflexivity|exact Hwf0|exact Hks].
    - destruct m; reflexivity.
  Qed.
End gz.

(* ------------------------------------------------------------------------------------------ *)
(* Root, KeePassFile, and the theorem *)
Section main.
  Variable gzip : bytes -> bytes.
  Variable gunzip : bytes -> option bytes.

  Definition dump_root (c : content) : dumper :=
    wrap s_Root (dseq (dump_group (c_root c)) (dpure (dump_deleted (c_deleted c)))).

  Lemma p_root_rt n c ks rest :
    wf_group (c_root c) = true -> forallb wf_delobj (c_deleted c) = true -> bytes_ok ks = true ->
    length (devs (dump_root c) ks ++ rest) <= S n ->
    p_root n (devs (dump_root c) ks ++ rest) ks = Ok ((c_root c, c_deleted c), rest, dks (dump_root c) ks).
  Proof.
    intros Hg Hd Hks Hl. unfold dump_root in *. unfold p_root.
    eapply eq_trans; [apply wrap_rt; [|exact Hl]|].
    - eapply run_dseq.
      { destruct (devs_group_head (c_root c) ks) as [tl E].
        pose proof (fun rest1 Hl1 => p_group_rt (c_root c) Hg n ks rest1 Hks Hl1) as P. rewrite E in *.
        apply (run_sub (root_child n) n s_Group [] tl (p_group n) (fun g a => (g, snd a)) (c_root c) _ ks _ eq_refl).
        exact P. }
      apply run_dpure.
      pose proof (fun rest0 Hl0 => p_deleted_rt n (c_deleted c) (dks (dump_group (c_root c)) ks) rest0 Hd Hl0) as P.
      unfold dump_deleted in *.
      apply (run_sub (root_child n) n s_DeletedObjects [] _ (p_deleted n) (fun d a => (fst a, d)) (c_deleted c) _ _ _ eq_refl).
      intros rest0 Hl0. apply P. cbn [app length] in *. lia.
    - reflexivity.
  Qed.

  Lemma p_keepass_rt n c ks rest :
    wf_content gzip gunzip c = true -> bytes_ok ks = true ->
    length (devs (dump_content gzip c) ks ++ rest) <= S n ->
    p_keepass gunzip n (devs (dump_content gzip c) ks ++ rest) ks = Ok (c, rest, dks (dump_content gzip c) ks).
  Proof.
    intros Hwf Hks Hl. unfold wf_content in Hwf. split_and Hwf. unfold dump_content in *.
    change (wrap s_Root (dseq (dump_group (c_root c)) (dpure (dump_deleted (c_deleted c))))) with (dump_root c) in *.
    unfold p_keepass.
    eapply eq_trans; [apply wrap_rt; [|exact Hl]|].
    - eapply run_dseq.
      { pose proof (fun rest0 Hl0 => p_meta_rt gzip gunzip n (c_meta c) ks rest0 Hwf Hks Hl0) as P.
        unfold dump_meta in *. rewrite devs_wrap_elem in *. unfold elem in *.
        apply (run_sub (keepass_child gunzip n) n s_Meta [] _ (p_meta gunzip n) set_c_meta (c_meta c) _ ks _ eq_refl).
        intros rest0 Hl0. apply P. cbn [app length] in *. lia. }
      assert (Hk1 : bytes_ok (dks (dump_meta gzip (c_meta c)) ks) = true).
      { unfold dump_meta. rewrite dks_wrap, dks_dseq, dks_dpure. eapply adv_ok; [apply adv_custom_data|exact Hks]. }
      pose proof (fun rest0 Hl0 => p_root_rt n c (dks (dump_meta gzip (c_meta c)) ks) rest0 Hwf1 Hwf0 Hk1 Hl0) as P.
      unfold dump_root in *. rewrite devs_wrap_elem in *. unfold elem in *.
      apply (run_sub (keepass_child gunzip n) n s_Root [] _ (p_root n)
                     (fun r a => set_c_deleted (snd r) (set_c_root (fst r) a)) (c_root c, c_deleted c) _ _ _ eq_refl).
      intros rest0 Hl0. apply P. cbn [app length] in *. lia.
    - destruct c; reflexivity.
  Qed.

  (* THE ROUND TRIP: any tree depth, any number of entries / history items / fields.  No hypothesis on the
     length of the stream is needed: a stream that runs out is modelled as zeros in both directions. *)
  Theorem parse_dump_roundtrip :
    forall (c : content) (ks : bytes),
      wf_content gzip gunzip c = true -> bytes_ok ks = true ->
      parse_events gunzip (dump_events gzip c ks) ks = Ok c.
  Proof.
    intros c ks Hwf Hks. unfold parse_events, dump_events. change (fst (dump_content gzip c ks)) with (devs (dump_content gzip c) ks).
    pose proof (p_keepass_rt (length (devs (dump_content gzip c) ks)) c ks [] Hwf Hks) as P.
    rewrite app_nil_r in P. rewrite P; [reflexivity|lia].
  Qed.

  (* the reader leaves the stream exactly where the writer left it *)
  Theorem parse_dump_stream :
    forall (c : content) (ks : bytes) (rest : list ev),
      wf_content gzip gunzip c = true -> bytes_ok ks = true ->
      p_keepass gunzip (length (dump_events gzip c ks ++ rest)) (dump_events gzip c ks ++ rest) ks
      = Ok (c, rest, drop (total_length (protected_values_in_order c)) ks).
  Proof.
    intros c ks rest Hwf Hks. unfold dump_events. change (fst (dump_content gzip c ks)) with (devs (dump_content gzip c) ks).
    rewrite (p_keepass_rt _ c ks rest Hwf Hks) by lia.
    change (dks (dump_content gzip c) ks) with (dump_stream_after gzip c ks). rewrite dump_consumes. reflexivity.
  Qed.
End main.

Print Assumptions parse_dump_roundtrip.
Print Assumptions parse_dump_stream.

(* lex_xml (render_xml evs) = evs on the domain [wf_events]: what the xml-rs writer prints for a well-formed
   event list is read back by the xml-rs reader (both as modelled in XmlText.v) as the same event list. *)
From KP Require Import Bytes XmlTypes XmlText.
Local Open Scope N_scope.

(* ------------------------------------------------------------------------------------------ *)
(* The domain *)

(* U+FFFE (EF BF BE) or U+FFFF (EF BF BF) occurs: the reader refuses both (is_xml10_char) *)
Fixpoint has_nonchar (t : bytes) : bool :=
  match t with
  | [] => false
  | a :: r =>
    (N.eqb a 239 && match r with b :: c :: _ => N.eqb b 191 && (N.eqb c 190 || N.eqb c 191) | _ => false end)
    || has_nonchar r
  end.

(* limits of ParserConfig2::default(), on the safe side: max_name_length 2^18, max_attributes 2^16,
   max_attribute_length = max_data_length = 2^30 *)
Definition len_le {A} (l : list A) (n : N) : bool := N.leb (N.of_nat (length l)) n.

(* an ASCII name without ':' : a letter or '_' first, then letters, digits, '_', '-', '.' *)
Definition name_ok (n : bytes) : bool :=
  match n with [] => false | c :: r => is_name_start c && forallb is_name_char r end
  && len_le n 262144.

(* bytes the writer's escaping and the reader pass unchanged: TAB, LF, CR, everything from 0x20 (bytes
   from 0x80 are opaque pieces of UTF-8), except the two non-characters; at most 2^30 bytes *)
Definition chars_ok (t : bytes) : bool :=
  forallb xml_char t && negb (has_nonchar t) && len_le t 1073741824.

(* a Characters event: in addition not made of blanks only (so not empty either) *)
Definition text_ok (t : bytes) : bool := negb (ws_only t) && chars_ok t.

(* attributes ([acc] = those before, reversed): names distinct, none called xmlns, values [chars_ok]
   (possibly empty or blank) *)
Fixpoint attrs_ok (acc a : list (bytes * bytes)) : bool :=
  match a with
  | [] => true
  | kv :: r => name_ok (fst kv) && negb (bytes_eqb (fst kv) s_xmlns) && attr_fresh (fst kv) acc
               && chars_ok (snd kv) && attrs_ok (kv :: acc) r
  end.

(* [stack] = open elements, innermost first; [prev] = the previous event was a Characters event *)
Fixpoint wf_go (stack : list bytes) (prev : bool) (evs : list ev) : bool :=
  match evs with
  | [] => is_nil stack && negb prev
  | EStart n a :: r => name_ok n && attrs_ok [] a && len_le a 65536 && wf_go (n :: stack) false r
  | EEnd n :: r => match stack with
                   | top :: s' => bytes_eqb top n && wf_go s' false r
                   | [] => false
                   end
  | EChars t :: r => negb (is_nil stack) && negb prev && text_ok t && wf_go stack true r
  | EErr :: _ => false
  end.

(* non-empty, well nested (one or more top-level elements, text only inside elements, no two adjacent
   texts), no EErr, names / attributes / texts as above *)
Definition wf_events (evs : list ev) : bool := negb (is_nil evs) && wf_go [] false evs.

(* ------------------------------------------------------------------------------------------ *)
(* Basics *)

Lemma lrun_app a b st : lrun (a ++ b) st = lrun b (lrun a st).
Proof. revert st. induction a as [|c a IH]; intro st; [reflexivity|]. cbn [app lrun]. apply IH. Qed.

Lemma lrun_cons c r st : lrun (c :: r) st = lrun r (lstep st c).
Proof. reflexivity. Qed.

Lemma beqb_refl (a : bytes) : bytes_eqb a a = true.
Proof. induction a as [|x a IH]; [reflexivity|]. cbn [bytes_eqb]. rewrite N.eqb_refl, IH. reflexivity. Qed.

Lemma beqb_eq (a b : bytes) : bytes_eqb a b = true -> a = b.
Proof.
  revert b. induction a as [|x a IH]; intros [|y b] H; cbn [bytes_eqb] in H; try discriminate H; [reflexivity|].
  apply andb_true_iff in H. destruct H as [Hx Hr]. apply N.eqb_eq in Hx. rewrite Hx, (IH b Hr). reflexivity.
Qed.

Lemma name_start_char c : is_name_start c = true -> is_name_char c = true.
Proof. intro H. unfold is_name_char. rewrite H. reflexivity. Qed.

(* the special bytes are not name characters *)
Lemma name_char_not c : is_name_char c = true ->
  N.eqb c 62 = false /\ N.eqb c 47 = false /\ N.eqb c 61 = false /\ N.eqb c 32 = false /\ is_ws c = false.
Proof.
  unfold is_name_char, is_name_start, is_alpha, is_digit, is_ws. intro H.
  repeat match goal with
  | |- context [N.eqb c ?k] => destruct (N.eqb_spec c k)
  end; try subst c; try discriminate H; repeat split; reflexivity.
Qed.

(* ------------------------------------------------------------------------------------------ *)
(* Non-characters *)

Lemma has_nonchar_mid x c y :
  (N.eqb c 190 || N.eqb c 191) = true -> has_nonchar (x ++ 239 :: 191 :: c :: y) = true.
Proof.
  intro Hc. induction x as [|a x IH].
  - cbn [app has_nonchar]. rewrite Hc. reflexivity.
  - cbn [app has_nonchar]. rewrite IH. apply orb_true_r.
Qed.

Lemma nonchar_end_false c buf t :
  has_nonchar (rev buf ++ c :: t) = false -> nonchar_end c buf = false.
Proof.
  intro H. destruct (nonchar_end c buf) eqn:E; [|reflexivity]. exfalso.
  unfold nonchar_end in E. apply andb_true_iff in E. destruct E as [Hc Hb].
  destruct buf as [|b [|a buf']]; try discriminate Hb.
  apply andb_true_iff in Hb. destruct Hb as [Hb Ha]. apply N.eqb_eq in Hb, Ha. subst a b.
  cbn [rev] in H. rewrite <- !app_assoc in H. cbn [app] in H.
  rewrite (has_nonchar_mid _ _ _ Hc) in H. discriminate H.
Qed.

Lemma has_nonchar_snoc buf c t :
  has_nonchar (rev buf ++ c :: t) = false -> has_nonchar (rev (c :: buf) ++ t) = false.
Proof. intro H. cbn [rev]. rewrite <- app_assoc. exact H. Qed.

(* ------------------------------------------------------------------------------------------ *)
(* Character data *)

Section Text.
  Variables (out : list ev) (s0 : bytes) (s' : list bytes).
  Let st (buf : bytes) := mkL out (s0 :: s') (LText buf).

  Lemma run_e_lt buf : lrun e_lt (st buf) = st (60 :: buf).
  Proof. reflexivity. Qed.
  Lemma run_e_gt buf : lrun e_gt (st buf) = st (62 :: buf).
  Proof. reflexivity. Qed.
  Lemma run_e_amp buf : lrun e_amp (st buf) = st (38 :: buf).
  Proof. reflexivity. Qed.

  Lemma step_text_plain buf c :
    N.eqb c 60 = false -> N.eqb c 38 = false -> xml_char c = true -> nonchar_end c buf = false ->
    lstep (st buf) c = st (c :: buf).
  Proof.
    intros H60 H38 Hx Hn. unfold lstep, st. cbn [l_mode l_out l_stack]. rewrite H60, H38, Hx, Hn. reflexivity.
  Qed.

  Lemma run_text t : forall buf,
    forallb xml_char t = true -> has_nonchar (rev buf ++ t) = false ->
    lrun (escape_pcdata t) (st buf) = st (rev t ++ buf).
  Proof.
    induction t as [|c t IH]; intros buf Hx Hn; [reflexivity|].
    cbn [forallb] in Hx. apply andb_true_iff in Hx. destruct Hx as [Hc Hx].
    cbn [escape_pcdata rev]. rewrite lrun_app, <- app_assoc. cbn [app].
    pose proof (has_nonchar_snoc _ _ _ Hn) as Hn'.
    unfold esc_pcdata_byte.
    destruct (N.eqb_spec c 60) as [E60|N60]; [subst c; rewrite run_e_lt; apply IH; assumption|].
    destruct (N.eqb_spec c 62) as [E62|N62]; [subst c; rewrite run_e_gt; apply IH; assumption|].
    destruct (N.eqb_spec c 38) as [E38|N38]; [subst c; rewrite run_e_amp; apply IH; assumption|].
    cbn [lrun]. rewrite step_text_plain.
    - apply IH; assumption.
    - apply N.eqb_neq. assumption.
    - apply N.eqb_neq. assumption.
    - assumption.
    - apply (nonchar_end_false _ _ _ Hn).
  Qed.
End Text.

(* ------------------------------------------------------------------------------------------ *)
(* Attribute values *)

Section AttrVal.
  Variables (out : list ev) (stack : list bytes) (n : bytes) (acc : list (bytes * bytes)) (k : bytes).
  Let st (v : bytes) := mkL out stack (LAttrVal n acc k v).

  Lemma runa_lt v : lrun e_lt (st v) = st (60 :: v).
  Proof. reflexivity. Qed.
  Lemma runa_gt v : lrun e_gt (st v) = st (62 :: v).
  Proof. reflexivity. Qed.
  Lemma runa_amp v : lrun e_amp (st v) = st (38 :: v).
  Proof. reflexivity. Qed.
  Lemma runa_quot v : lrun e_quot (st v) = st (34 :: v).
  Proof. reflexivity. Qed.
  Lemma runa_apos v : lrun e_apos (st v) = st (39 :: v).
  Proof. reflexivity. Qed.
  Lemma runa_lf v : lrun e_lf (st v) = st (10 :: v).
  Proof. reflexivity. Qed.
  Lemma runa_cr v : lrun e_cr (st v) = st (13 :: v).
  Proof. reflexivity. Qed.

  Lemma step_val_plain v c :
    N.eqb c 34 = false -> N.eqb c 38 = false -> N.eqb c 60 = false -> xml_char c = true ->
    nonchar_end c v = false -> lstep (st v) c = st (c :: v).
  Proof.
    intros H34 H38 H60 Hx Hn. unfold lstep, st. cbn [l_mode l_out l_stack].
    rewrite H34, H38, H60, Hx, Hn. reflexivity.
  Qed.

  Lemma run_val t : forall v,
    forallb xml_char t = true -> has_nonchar (rev v ++ t) = false ->
    lrun (escape_attr t) (st v) = st (rev t ++ v).
  Proof.
    induction t as [|c t IH]; intros v Hx Hn; [reflexivity|].
    cbn [forallb] in Hx. apply andb_true_iff in Hx. destruct Hx as [Hc Hx].
    cbn [escape_attr rev]. rewrite lrun_app, <- app_assoc. cbn [app].
    pose proof (has_nonchar_snoc _ _ _ Hn) as Hn'.
    unfold esc_attr_byte.
    destruct (N.eqb_spec c 60) as [E60|N60]; [subst c; rewrite runa_lt; apply IH; assumption|].
    destruct (N.eqb_spec c 62) as [E62|N62]; [subst c; rewrite runa_gt; apply IH; assumption|].
    destruct (N.eqb_spec c 34) as [E34|N34]; [subst c; rewrite runa_quot; apply IH; assumption|].
    destruct (N.eqb_spec c 39) as [E39|N39]; [subst c; rewrite runa_apos; apply IH; assumption|].
    destruct (N.eqb_spec c 38) as [E38|N38]; [subst c; rewrite runa_amp; apply IH; assumption|].
    destruct (N.eqb_spec c 10) as [E10|N10]; [subst c; rewrite runa_lf; apply IH; assumption|].
    destruct (N.eqb_spec c 13) as [E13|N13]; [subst c; rewrite runa_cr; apply IH; assumption|].
    cbn [lrun]. rewrite step_val_plain.
    - apply IH; assumption.
    - apply N.eqb_neq. assumption.
    - apply N.eqb_neq. assumption.
    - apply N.eqb_neq. assumption.
    - assumption.
    - apply (nonchar_end_false _ _ _ Hn).
  Qed.
End AttrVal.

(* ------------------------------------------------------------------------------------------ *)
(* Names *)

Lemma run_open_name out stack n : forall acc,
  forallb is_name_char n = true ->
  lrun n (mkL out stack (LOpenName acc)) = mkL out stack (LOpenName (rev n ++ acc)).
Proof.
  induction n as [|c n IH]; intros acc H; [reflexivity|].
  cbn [forallb] in H. apply andb_true_iff in H. destruct H as [Hc H].
  cbn [lrun rev]. rewrite <- app_assoc. cbn [app].
  unfold lstep at 1. cbn [l_mode l_out l_stack]. rewrite Hc. apply IH. exact H.
Qed.

Lemma run_attr_name out stack e a k : forall acc,
  forallb is_name_char k = true ->
  lrun k (mkL out stack (LAttrName e a acc)) = mkL out stack (LAttrName e a (rev k ++ acc)).
Proof.
  induction k as [|c k IH]; intros acc H; [reflexivity|].
  cbn [forallb] in H. apply andb_true_iff in H. destruct H as [Hc H].
  cbn [lrun rev]. rewrite <- app_assoc. cbn [app].
  unfold lstep at 1. cbn [l_mode l_out l_stack]. rewrite Hc. apply IH. exact H.
Qed.

Lemma run_close_name out stack n : forall a acc,
  forallb is_name_char n = true ->
  lrun n (mkL out stack (LCloseName (a :: acc))) = mkL out stack (LCloseName (rev n ++ a :: acc)).
Proof.
  induction n as [|c n IH]; intros a acc H; [reflexivity|].
  cbn [forallb] in H. apply andb_true_iff in H. destruct H as [Hc H].
  cbn [lrun rev]. rewrite <- app_assoc. cbn [app].
  unfold lstep at 1. cbn [l_mode l_out l_stack]. rewrite Hc. apply IH. exact H.
Qed.

Lemma name_ok_inv n : name_ok n = true ->
  exists c r, n = c :: r /\ is_name_start c = true /\ forallb is_name_char r = true.
Proof.
  unfold name_ok. intro H. apply andb_true_iff in H. destruct H as [H _].
  destruct n as [|c r]; [discriminate H|]. apply andb_true_iff in H. destruct H as [Hc Hr].
  exists c, r. repeat split; assumption.
Qed.

(* ------------------------------------------------------------------------------------------ *)
(* Tags *)

(* the states after  <name  and after  <name k="v" ... k="v"  *)
Definition ready (m : lmode) (n : bytes) (a : list (bytes * bytes)) : Prop :=
  (m = LOpenName (rev n) /\ a = [] /\ name_ok n = true) \/ m = LAfterVal n (rev a).

Lemma ready_gt out stack m n a : ready m n a ->
  lstep (mkL out stack m) 62 = mkL (EStart n a :: out) (n :: stack) (LText []).
Proof.
  intros [[-> [-> _]]| ->]; unfold lstep, start_el; cbn [l_mode l_out l_stack];
    change (is_name_char 62) with false; change (is_ws 62) with false; change (N.eqb 62 62) with true;
    cbn match; rewrite rev_involutive; reflexivity.
Qed.

Lemma ready_empty out stack m n a : ready m n a ->
  lrun [32;47;62] (mkL out stack m) = mkL (EEnd n :: EStart n a :: out) stack (LText []).
Proof.
  intros [[-> [-> _]]| ->]; cbn [lrun]; unfold lstep, empty_el; cbn [l_mode l_out l_stack];
    change (is_name_char 32) with false; change (is_ws 32) with true; change (is_ws 47) with false;
    change (N.eqb 47 62) with false; change (N.eqb 47 47) with true; change (N.eqb 62 62) with true;
    cbn match; cbn [l_mode l_out l_stack]; cbn match; rewrite ?rev_involutive; reflexivity.
Qed.

Lemma ready_blank out stack m n a : ready m n a ->
  lstep (mkL out stack m) 32 = mkL out stack (LInTag n (rev a)).
Proof.
  intros [[-> [-> _]]| ->]; unfold lstep; cbn [l_mode l_out l_stack];
    change (is_name_char 32) with false; change (is_ws 32) with true; cbn match;
    rewrite ?rev_involutive; reflexivity.
Qed.

Lemma step_intag_start out stack n acc c : is_name_start c = true ->
  lstep (mkL out stack (LInTag n acc)) c = mkL out stack (LAttrName n acc [c]).
Proof.
  intro Hc. destruct (name_char_not c (name_start_char c Hc)) as [G62 [G47 [_ [_ Gws]]]].
  unfold lstep. cbn [l_mode l_out l_stack]. rewrite Gws, G62, G47, Hc. reflexivity.
Qed.

Lemma step_attrname_eq out stack n acc k :
  lstep (mkL out stack (LAttrName n acc k)) 61 =
  if negb (bytes_eqb (rev k) s_xmlns) && attr_fresh (rev k) acc
  then mkL out stack (LAttrEq n acc (rev k)) else mkL out stack LFail.
Proof. reflexivity. Qed.

Lemma step_attreq_quote out stack n acc k :
  lstep (mkL out stack (LAttrEq n acc k)) 34 = mkL out stack (LAttrVal n acc k []).
Proof. reflexivity. Qed.

Lemma step_val_quote out stack n acc k v :
  lstep (mkL out stack (LAttrVal n acc k v)) 34 = mkL out stack (LAfterVal n ((k, rev v) :: acc)).
Proof. reflexivity. Qed.

Lemma run_attr out stack m n a kv : ready m n a ->
  name_ok (fst kv) = true -> bytes_eqb (fst kv) s_xmlns = false -> attr_fresh (fst kv) (rev a) = true ->
  chars_ok (snd kv) = true ->
  lrun (render_attr kv) (mkL out stack m) = mkL out stack (LAfterVal n (rev (a ++ [kv]))).
Proof.
  intros Hr Hk Hx Hf Hv. destruct kv as [k v]. cbn [fst snd] in *.
  unfold render_attr. cbn [fst snd lrun]. rewrite (ready_blank _ _ _ _ _ Hr).
  destruct (name_ok_inv _ Hk) as [c [r [E [Hc Hrr]]]].
  rewrite lrun_app. rewrite E at 1. cbn [lrun]. rewrite (step_intag_start _ _ _ _ _ Hc).
  rewrite (run_attr_name _ _ _ _ _ _ Hrr). change (rev r ++ [c]) with (rev (c :: r)). rewrite <- E.
  cbn [lrun]. rewrite step_attrname_eq, rev_involutive, Hx, Hf. cbn [negb andb].
  rewrite step_attreq_quote.
  unfold chars_ok in Hv. apply andb_true_iff in Hv. destruct Hv as [Hv _].
  apply andb_true_iff in Hv. destruct Hv as [Hv1 Hv2]. apply negb_true_iff in Hv2.
  rewrite lrun_app, run_val by assumption.
  cbn [lrun]. rewrite step_val_quote.
  rewrite app_nil_r, rev_involutive, rev_app_distr. reflexivity.
Qed.

Lemma run_attrs out stack n : forall a2 a1 m, ready m n a1 -> attrs_ok (rev a1) a2 = true ->
  exists m', lrun (render_attrs a2) (mkL out stack m) = mkL out stack m' /\ ready m' n (a1 ++ a2).
Proof.
  induction a2 as [|kv a2 IH]; intros a1 m Hr Ha.
  - exists m. rewrite app_nil_r. split; [reflexivity|exact Hr].
  - cbn [attrs_ok] in Ha. apply andb_true_iff in Ha. destruct Ha as [Ha Hrest].
    apply andb_true_iff in Ha. destruct Ha as [Ha Hv]. apply andb_true_iff in Ha. destruct Ha as [Ha Hf].
    apply andb_true_iff in Ha. destruct Ha as [Hk Hx]. apply negb_true_iff in Hx.
    cbn [render_attrs]. rewrite lrun_app, (run_attr _ _ _ _ _ _ Hr Hk Hx Hf Hv).
    destruct (IH (a1 ++ [kv]) (LAfterVal n (rev (a1 ++ [kv])))) as [m' [Hrun Hready]].
    + right. reflexivity.
    + rewrite rev_app_distr. exact Hrest.
    + exists m'. rewrite <- app_assoc in Hready. split; assumption.
Qed.

Lemma run_open_tag out stack buf n a : name_ok n = true -> attrs_ok [] a = true ->
  exists m, lrun (60 :: n ++ render_attrs a) (mkL out stack (LText buf)) = mkL (flush buf out) stack m
            /\ ready m n a.
Proof.
  intros Hn Ha. destruct (name_ok_inv _ Hn) as [c [r [E [Hc Hr]]]].
  assert (H1 : lrun (60 :: n) (mkL out stack (LText buf)) = mkL (flush buf out) stack (LOpenName (rev n))).
  { subst n. cbn [lrun].
    assert (H0 : lstep (mkL out stack (LText buf)) 60 = mkL (flush buf out) stack LLt)
      by (destruct stack; reflexivity).
    rewrite H0. unfold lstep at 1. cbn [l_mode l_out l_stack]. change (N.eqb c 47) with (N.eqb c 47).
    destruct (name_char_not c (name_start_char c Hc)) as [_ [G47 _]]. rewrite G47, Hc.
    rewrite (run_open_name _ _ _ _ Hr). reflexivity. }
  change (60 :: n ++ render_attrs a) with ((60 :: n) ++ render_attrs a). rewrite lrun_app, H1.
  apply (run_attrs _ _ n a [] (LOpenName (rev n))); [|exact Ha].
  left. repeat split. exact Hn.
Qed.

Lemma step_close_first out stack c : is_name_start c = true ->
  lstep (mkL out stack (LCloseName [])) c = mkL out stack (LCloseName [c]).
Proof. intro Hc. unfold lstep. cbn [l_mode l_out l_stack]. rewrite Hc. reflexivity. Qed.

Lemma step_close_gt out top rest nm :
  lstep (mkL out (top :: rest) (LCloseName nm)) 62 =
  if bytes_eqb top (rev nm) then mkL (EEnd top :: out) rest (LText []) else mkL out (top :: rest) LFail.
Proof. destruct nm; reflexivity. Qed.

Lemma run_close_tag out s' buf n : name_ok n = true ->
  lrun (60 :: 47 :: n ++ [62]) (mkL out (n :: s') (LText buf)) = mkL (EEnd n :: flush buf out) s' (LText []).
Proof.
  intro Hn. destruct (name_ok_inv _ Hn) as [c [r [E [Hc Hr]]]].
  cbn [lrun]. change (lstep (mkL out (n :: s') (LText buf)) 60) with (mkL (flush buf out) (n :: s') LLt).
  change (lstep (mkL (flush buf out) (n :: s') LLt) 47) with (mkL (flush buf out) (n :: s') (LCloseName [])).
  rewrite lrun_app. rewrite E at 1. cbn [lrun]. rewrite (step_close_first _ _ _ Hc).
  rewrite (run_close_name _ _ _ _ _ Hr). change (rev r ++ [c]) with (rev (c :: r)). rewrite <- E.
  cbn [lrun]. rewrite step_close_gt, rev_involutive, beqb_refl. reflexivity.
Qed.

(* ------------------------------------------------------------------------------------------ *)
(* Event lists *)

Lemma flush_text t out : ws_only t = false -> flush (rev t) out = EChars t :: out.
Proof. intro H. unfold flush. rewrite rev_involutive, H. reflexivity. Qed.

Lemma text_ok_inv t : text_ok t = true ->
  ws_only t = false /\ forallb xml_char t = true /\ has_nonchar t = false.
Proof.
  unfold text_ok, chars_ok. intro H. apply andb_true_iff in H. destruct H as [Hw H].
  apply andb_true_iff in H. destruct H as [H _]. apply andb_true_iff in H. destruct H as [Hx Hn].
  apply negb_true_iff in Hw, Hn. repeat split; assumption.
Qed.

Lemma flush_nil out : flush [] out = out.
Proof. reflexivity. Qed.

Definition names_ok (stack : list bytes) : bool := forallb name_ok stack.

Lemma lex_go evs :
  (forall stack out buf prev, names_ok stack = true -> wf_go stack prev evs = true ->
     (prev = false -> buf = []) ->
     lrun (render_go false evs) (mkL out stack (LText buf)) = mkL (rev evs ++ flush buf out) [] (LText []))
  /\
  (forall stack out m n a, ready m n a -> name_ok n = true -> names_ok stack = true ->
     wf_go (n :: stack) false evs = true ->
     lrun (render_go true evs) (mkL out stack m) = mkL (rev evs ++ EStart n a :: out) [] (LText [])).
Proof.
  induction evs as [|e r [IHA IHB]].
  - split.
    + intros stack out buf prev _ Hwf Hbuf. cbn [wf_go] in Hwf. apply andb_true_iff in Hwf.
      destruct Hwf as [Hs Hp]. destruct stack; [|discriminate Hs]. apply negb_true_iff in Hp.
      rewrite (Hbuf Hp). reflexivity.
    + intros stack out m n a _ _ _ Hwf. discriminate Hwf.
  - split.
    + intros stack out buf prev Hst Hwf Hbuf. destruct e as [n a|n|t|].
      * cbn [wf_go] in Hwf. apply andb_true_iff in Hwf. destruct Hwf as [Hwf Hr].
        apply andb_true_iff in Hwf. destruct Hwf as [Hwf _]. apply andb_true_iff in Hwf. destruct Hwf as [Hn Ha].
        cbn [render_go app]. destruct (run_open_tag out stack buf n a Hn Ha) as [m [Hrun Hready]].
        change (60 :: n ++ render_attrs a ++ render_go true r) with (60 :: (n ++ render_attrs a ++ render_go true r)).
        rewrite app_assoc, app_comm_cons, lrun_app, Hrun, (IHB _ _ _ _ _ Hready Hn Hst Hr).
        cbn [rev]. rewrite <- app_assoc. reflexivity.
      * cbn [wf_go] in Hwf. destruct stack as [|top s']; [discriminate Hwf|].
        apply andb_true_iff in Hwf. destruct Hwf as [He Hr]. apply beqb_eq in He. subst top.
        unfold names_ok in Hst. cbn [forallb] in Hst. apply andb_true_iff in Hst. destruct Hst as [Hn Hst].
        cbn [render_go]. rewrite lrun_app, (run_close_tag _ _ _ _ Hn).
        rewrite (IHA s' _ [] false Hst Hr (fun _ => eq_refl)), flush_nil.
        cbn [rev]. rewrite <- app_assoc. reflexivity.
      * cbn [wf_go] in Hwf. apply andb_true_iff in Hwf. destruct Hwf as [Hwf Hr].
        apply andb_true_iff in Hwf. destruct Hwf as [Hwf Ht]. apply andb_true_iff in Hwf. destruct Hwf as [Hs Hp].
        apply negb_true_iff in Hp. rewrite (Hbuf Hp). destruct stack as [|s0 s']; [discriminate Hs|].
        destruct (text_ok_inv _ Ht) as [Hw [Hx Hnc]].
        cbn [render_go app]. rewrite lrun_app, (run_text out s0 s' t [] Hx Hnc), app_nil_r.
        assert (Hd : true = false -> rev t = []) by (intro HH; discriminate HH).
        rewrite (IHA (s0 :: s') out (rev t) true Hst Hr Hd), (flush_text _ _ Hw), flush_nil.
        cbn [rev]. rewrite <- app_assoc. reflexivity.
      * discriminate Hwf.
    + intros stack out m n a Hready Hn Hst Hwf. destruct e as [n' a'|n'|t|].
      * cbn [wf_go] in Hwf. apply andb_true_iff in Hwf. destruct Hwf as [Hwf Hr].
        apply andb_true_iff in Hwf. destruct Hwf as [Hwf _]. apply andb_true_iff in Hwf. destruct Hwf as [Hn' Ha'].
        cbn [render_go app]. rewrite lrun_cons, (ready_gt _ _ _ _ _ Hready).
        destruct (run_open_tag (EStart n a :: out) (n :: stack) [] n' a' Hn' Ha') as [m' [Hrun Hready']].
        change (60 :: n' ++ render_attrs a' ++ render_go true r) with (60 :: (n' ++ render_attrs a' ++ render_go true r)).
        assert (Hst' : names_ok (n :: stack) = true)
          by (unfold names_ok in *; cbn [forallb]; rewrite Hn, Hst; reflexivity).
        rewrite app_assoc, app_comm_cons, lrun_app, Hrun, flush_nil, (IHB _ _ _ _ _ Hready' Hn' Hst' Hr).
        cbn [rev]. rewrite <- app_assoc. reflexivity.
      * cbn [wf_go] in Hwf. apply andb_true_iff in Hwf. destruct Hwf as [He Hr]. apply beqb_eq in He. subst n'.
        cbn [render_go]. rewrite lrun_app, (ready_empty _ _ _ _ _ Hready).
        rewrite (IHA stack _ [] false Hst Hr (fun _ => eq_refl)), flush_nil.
        cbn [rev]. rewrite <- app_assoc. reflexivity.
      * cbn [wf_go] in Hwf. apply andb_true_iff in Hwf. destruct Hwf as [Hwf Hr].
        apply andb_true_iff in Hwf. destruct Hwf as [_ Ht].
        destruct (text_ok_inv _ Ht) as [Hw [Hx Hnc]].
        cbn [render_go app]. rewrite lrun_cons, (ready_gt _ _ _ _ _ Hready).
        rewrite lrun_app, (run_text _ n stack t [] Hx Hnc), app_nil_r.
        assert (Hd : true = false -> rev t = []) by (intro HH; discriminate HH).
        assert (Hst' : names_ok (n :: stack) = true)
          by (unfold names_ok in *; cbn [forallb]; rewrite Hn, Hst; reflexivity).
        rewrite (IHA (n :: stack) _ (rev t) true Hst' Hr Hd), (flush_text _ _ Hw).
        cbn [rev]. rewrite <- app_assoc. reflexivity.
      * discriminate Hwf.
Qed.

Lemma strip_decl s : strip_prefix xml_decl (xml_decl ++ s) = Some s.
Proof. reflexivity. Qed.

Theorem lex_render : forall evs, wf_events evs = true -> lex_xml (render_xml evs) = evs.
Proof.
  intros evs H. unfold wf_events in H. apply andb_true_iff in H. destruct H as [Hne Hwf].
  destruct evs as [|e r]; [discriminate Hne|].
  unfold lex_xml, render_xml. rewrite strip_decl.
  destruct (lex_go (e :: r)) as [HA _]. unfold linit.
  rewrite (HA [] [] [] false eq_refl Hwf (fun _ => eq_refl)), flush_nil, app_nil_r.
  unfold lfinish. cbn [l_mode l_stack l_out].
  destruct (rev (e :: r)) as [|x l] eqn:E.
  - apply (f_equal (@length ev)) in E. rewrite rev_length in E. discriminate E.
  - rewrite <- E. apply rev_involutive.
Qed.

(* The escaping alone: the reader's buffer after the escaped text is the text (pushed on what was there). *)
Corollary unescape_escape_pcdata out s0 s' t :
  forallb xml_char t = true -> has_nonchar t = false ->
  lrun (escape_pcdata t) (mkL out (s0 :: s') (LText [])) = mkL out (s0 :: s') (LText (rev t)).
Proof. intros Hx Hn. rewrite (run_text out s0 s' t [] Hx Hn). rewrite app_nil_r. reflexivity. Qed.

Corollary unescape_escape_attr out stack n acc k t :
  forallb xml_char t = true -> has_nonchar t = false ->
  lrun (escape_attr t) (mkL out stack (LAttrVal n acc k [])) = mkL out stack (LAttrVal n acc k (rev t)).
Proof. intros Hx Hn. rewrite (run_val out stack n acc k t [] Hx Hn). rewrite app_nil_r. reflexivity. Qed.

(* ------------------------------------------------------------------------------------------ *)
(* Examples *)
From Coq Require Import Ascii String.

Module XmlTextExamples.
  Definition s2b (s : string) : bytes := map N_of_ascii (list_ascii_of_string s).
  Definition lf : string := String (ascii_of_N 10) EmptyString.
  Definition cr : string := String (ascii_of_N 13) EmptyString.
  Definition tab : string := String (ascii_of_N 9) EmptyString.

  (* nested elements, an attribute, an empty element, text with the five special characters *)
  Definition ex1 : list ev :=
    [EStart (s2b "KeePassFile") [];
       EStart (s2b "Meta") []; EEnd (s2b "Meta");
       EStart (s2b "Value") [(s2b "Protected", s2b "True")];
         EChars (s2b "a & b < c > d "" e ' f");
       EEnd (s2b "Value");
     EEnd (s2b "KeePassFile")].

  Example ex1_wf : wf_events ex1 = true.
  Proof. vm_compute. reflexivity. Qed.

  Example ex1_render : render_xml ex1 =
    s2b "<?xml version=""1.0"" encoding=""UTF-8""?><KeePassFile><Meta /><Value Protected=""True"">a &amp; b &lt; c &gt; d "" e ' f</Value></KeePassFile>".
  Proof. vm_compute. reflexivity. Qed.

  Example ex1_lex : lex_xml (render_xml ex1) = ex1.
  Proof. vm_compute. reflexivity. Qed.

  (* attribute values: all seven replacements of AttributeEscapes; TAB stays; text keeps LF, CR, TAB, quotes *)
  Definition ex2 : list ev :=
    [EStart (s2b "Binary") [(s2b "ID", s2b "0"); (s2b "Ref", s2b ("x<y>""'&" ++ lf ++ cr ++ tab ++ "z"))];
       EChars (s2b ("l1" ++ cr ++ lf ++ "l2" ++ tab ++ "]]"));
     EEnd (s2b "Binary")].

  Example ex2_wf : wf_events ex2 = true.
  Proof. vm_compute. reflexivity. Qed.

  Example ex2_render : render_xml ex2 =
    s2b ("<?xml version=""1.0"" encoding=""UTF-8""?><Binary ID=""0"" Ref=""x&lt;y&gt;&quot;&apos;&amp;&#xA;&#xD;"
         ++ tab ++ "z"">l1" ++ cr ++ lf ++ "l2" ++ tab ++ "]]</Binary>").
  Proof. vm_compute. reflexivity. Qed.

  Example ex2_lex : lex_xml (render_xml ex2) = ex2.
  Proof. vm_compute. reflexivity. Qed.

  (* why an empty or blank text is outside the domain: characters("") closes the start tag, the reader
     reports no Characters event *)
  Example empty_text_render :
    render_xml [EStart (s2b "a") []; EChars []; EEnd (s2b "a")] =
    s2b "<?xml version=""1.0"" encoding=""UTF-8""?><a></a>".
  Proof. vm_compute. reflexivity. Qed.
  Example empty_text_lex :
    lex_xml (render_xml [EStart (s2b "a") []; EChars []; EEnd (s2b "a")]) = [EStart (s2b "a") []; EEnd (s2b "a")].
  Proof. vm_compute. reflexivity. Qed.
  Example blank_text_lex :
    lex_xml (render_xml [EStart (s2b "a") []; EChars (s2b (" " ++ lf)); EEnd (s2b "a")])
    = [EStart (s2b "a") []; EEnd (s2b "a")].
  Proof. vm_compute. reflexivity. Qed.

  (* reader side, by hand: blanks between tags are dropped, pieces of text and references are one event,
     numeric references, blanks inside tags *)
  Example lex_hand :
    lex_xml (s2b ("<a>" ++ lf ++ "  <b  x=""1""  />" ++ lf ++ "<c >p&#65;&amp;&#x20AC;q</c></a>" ++ lf))
    = [EStart (s2b "a") []; EStart (s2b "b") [(s2b "x", s2b "1")]; EEnd (s2b "b");
       EStart (s2b "c") []; EChars (s2b "pA&" ++ [226; 130; 172] ++ s2b "q"); EEnd (s2b "c"); EEnd (s2b "a")].
  Proof. vm_compute. reflexivity. Qed.

  (* errors: the events so far, then EErr *)
  Example lex_mismatch : lex_xml (s2b "<a><b>t</a>") = [EStart (s2b "a") []; EStart (s2b "b") []; EChars (s2b "t"); EErr].
  Proof. vm_compute. reflexivity. Qed.
  Example lex_unclosed : lex_xml (s2b "<a>t") = [EStart (s2b "a") []; EErr].
  Proof. vm_compute. reflexivity. Qed.
  Example lex_top_text : lex_xml (s2b "<a />t") = [EStart (s2b "a") []; EEnd (s2b "a"); EErr].
  Proof. vm_compute. reflexivity. Qed.
  Example lex_no_root : lex_xml xml_decl = [EErr].
  Proof. vm_compute. reflexivity. Qed.
  Example lex_dup_attr : lex_xml (s2b "<a x=""1"" x=""2"" />") = [EErr].
  Proof. vm_compute. reflexivity. Qed.
  Example lex_control : lex_xml (s2b "<a>" ++ [1] ++ s2b "</a>") = [EStart (s2b "a") []; EErr].
  Proof. vm_compute. reflexivity. Qed.
  Example lex_unknown_entity : lex_xml (s2b "<a>&nbsp;</a>") = [EStart (s2b "a") []; EErr].
  Proof. vm_compute. reflexivity. Qed.
  Example lex_fffe : lex_xml (s2b "<a>" ++ [239; 191; 190] ++ s2b "</a>") = [EStart (s2b "a") []; EErr].
  Proof. vm_compute. reflexivity. Qed.
End XmlTextExamples.

Print Assumptions lex_render.

(* The domain on which writing and reading back is the identity ([wf_content], a boolean), and the
   protected values of a content in document order.  Every conjunct of [wf_content] marks a place where
   the real save -> open is NOT the identity (or fails); see the comments. *)
From KP Require Import Bytes Outcome LE Utf8 Base64 Scalars XmlTypes XmlDump.
Local Open Scope N_scope.

(* Some(text) survives only if the text is not blank: an element whose text is empty or white space
   yields no Characters event, and SimpleTag<Option<String>> then reads None *)
Definition wf_text (t : bytes) : bool := negb (ws_only t).
(* a String that may be empty but not blank-and-non-empty (Group.name, Unprotected custom-data values):
   "" is written as <X /> and read back as ""; "  " is read back as "" *)
Definition wf_text0 (t : bytes) : bool := is_nil t || negb (ws_only t).
Definition wf_opt {A} (f : A -> bool) (o : option A) : bool := match o with Some x => f x | None => true end.
(* Uuid: 16 bytes (base64 of anything else is rejected by Uuid::from_slice) *)
Definition wf_uuid (u : bytes) : bool := Nat.eqb (length u) 16 && bytes_ok u.
(* usize / isize: the Rust width *)
Definition wf_usize (n : N) : bool := N.ltb n (2 ^ 64).
Definition wf_isize (z : Z) : bool := (Z.leb (- 2 ^ 63) z && Z.ltb z (2 ^ 63))%Z.
(* NaiveDateTime: chrono's range (and whole seconds: the sub-second part is not written) *)
Definition wf_time (t : Z) : bool := ts_ok t.
Definition wf_color (c : color) : bool := let '(r, g, b) := c in N.ltb r 256 && N.ltb g 256 && N.ltb b 256.

Fixpoint mem_bytes (k : bytes) (l : list bytes) : bool :=
  match l with [] => false | x :: r => bytes_eqb x k || mem_bytes k r end.
(* HashMap keys are distinct (an association list is a map only then) *)
Fixpoint nodup_keys (l : list bytes) : bool :=
  match l with [] => true | k :: r => negb (mem_bytes k r) && nodup_keys r end.

(* A value inside CustomData.
   - Protected: the reader passes the decrypted bytes through String::from_utf8_lossy, so anything that
     is not UTF-8 comes back altered.
   - Bytes is never read back (it comes back as Unprotected, or the writer fails). *)
Definition wf_value (v : value) : bool :=
  match v with
  | VUnprotected t => wf_text0 t
  | VProtected p => utf8_valid p
  | VBytes _ => false
  end.
(* A value of Entry.fields: in addition not empty - the reader drops a <String> whose value is empty *)
Definition wf_field_value (v : value) : bool :=
  match v with
  | VUnprotected t => wf_text t
  | VProtected p => negb (is_nil p) && utf8_valid p
  | VBytes _ => false
  end.

(* Times: stamp names are element names; "Expires" / "UsageCount" would be read as those fields *)
Definition wf_times (t : times) : bool :=
  wf_usize (t_usage t) && nodup_keys (map fst (t_times t))
  && forallb (fun kv => wf_time (snd kv) && negb (bytes_eqb (fst kv) s_Expires)
                        && negb (bytes_eqb (fst kv) s_UsageCount)) (t_times t).

(* CustomData: a blank key makes the document unreadable (SimpleTag<String> demands text) *)
Definition wf_cditem (kv : bytes * cditem) : bool :=
  wf_text (fst kv) && wf_opt wf_value (cd_value (snd kv)) && wf_opt wf_time (cd_time (snd kv)).
Definition wf_custom_data (c : custom_data) : bool := nodup_keys (map fst c) && forallb wf_cditem c.

Definition wf_assoc (a : assoc) : bool := wf_opt wf_text (as_window a) && wf_opt wf_text (as_seq a).
Definition wf_autotype (a : autotype) : bool := wf_opt wf_text (at_seq a) && forallb wf_assoc (at_assocs a).

(* tags are joined with ';' and split at ';' and ','; an empty or blank joined text reads as no tags *)
Definition wf_tags (l : list bytes) : bool :=
  is_nil l || (forallb (fun t => negb (existsb is_sep t)) l && negb (ws_only (join_tags l))).

Definition wf_field (kv : bytes * value) : bool := wf_text (fst kv) && wf_field_value (snd kv).

Fixpoint wf_entry (e : entry) : bool :=
  match e with
  | mkEntry uuid fields aty tags tms cd icon cicon fg bg url qc hist =>
    wf_uuid uuid && nodup_keys (map fst fields) && forallb wf_field fields
    && wf_opt wf_autotype aty && wf_tags tags && wf_times tms && wf_custom_data cd
    && wf_opt wf_usize icon && wf_opt wf_uuid cicon && wf_opt wf_color fg && wf_opt wf_color bg
    && wf_opt wf_text url
    && match hist with
       | Some h => (fix all (l : list entry) : bool :=
                      match l with [] => true | x :: r => wf_entry x && all r end) h
       | None => true
       end
  end.

Fixpoint wf_group (g : group) : bool :=
  match g with
  | mkGroup uuid name notes icon cicon children tms cd exp das ea es ltve =>
    wf_uuid uuid && wf_text0 name && wf_opt wf_text notes && wf_opt wf_usize icon && wf_opt wf_uuid cicon
    && wf_times tms && wf_custom_data cd && wf_opt wf_text das && wf_opt wf_text ea && wf_opt wf_text es
    && wf_opt wf_uuid ltve
    && (fix all (l : list (entry + group)) : bool :=
          match l with
          | [] => true
          | inl e :: r => wf_entry e && all r
          | inr g' :: r => wf_group g' && all r
          end) children
  end.

(* Icon: empty data is written as <Data /> which the reader rejects (SimpleTag<String>) *)
Definition wf_icon (i : icon) : bool := wf_uuid (ic_uuid i) && negb (is_nil (ic_data i)) && bytes_ok (ic_data i).

Section gz.
  Variable gzip : bytes -> bytes.
  Variable gunzip : bytes -> option bytes.
  (* Binary: an empty uncompressed body is written as <Binary></Binary> which the reader rejects; for a
     compressed one the conditions are on GZip (true of any compressor: non-empty output that
     decompresses to the input) *)
  Definition wf_binary (b : binary) : bool :=
    let w := binary_wire gzip b in
    negb (is_nil w) && bytes_ok w
    && (if bin_compressed b then option_eqb bytes_eqb (gunzip w) (Some (bin_content b)) else true).

  Definition wf_meta (m : meta) : bool :=
    wf_opt wf_text (m_generator m) && wf_opt wf_text (m_database_name m)
    && wf_opt wf_time (m_database_name_changed m) && wf_opt wf_text (m_database_description m)
    && wf_opt wf_time (m_database_description_changed m) && wf_opt wf_text (m_default_username m)
    && wf_opt wf_time (m_default_username_changed m) && wf_opt wf_usize (m_maintenance_history_days m)
    && wf_opt wf_color (m_color m) && wf_opt wf_time (m_master_key_changed m)
    && wf_opt wf_isize (m_master_key_change_rec m) && wf_opt wf_isize (m_master_key_change_force m)
    && forallb wf_icon (m_custom_icons m)
    && wf_opt wf_uuid (m_recyclebin_uuid m) && wf_opt wf_time (m_recyclebin_changed m)
    && wf_opt wf_uuid (m_entry_templates_group m) && wf_opt wf_time (m_entry_templates_group_changed m)
    && wf_opt wf_uuid (m_last_selected_group m) && wf_opt wf_uuid (m_last_top_visible_group m)
    && wf_opt wf_usize (m_history_max_items m) && wf_opt wf_usize (m_history_max_size m)
    && wf_opt wf_time (m_settings_changed m)
    && forallb wf_binary (m_binaries m) && wf_custom_data (m_custom_data m).

  Definition wf_delobj (o : delobj) : bool := wf_uuid (do_uuid o) && wf_time (do_time o).

  Definition wf_content (c : content) : bool :=
    wf_meta (c_meta c) && wf_group (c_root c) && forallb wf_delobj (c_deleted c).
End gz.

(* ------------------------------------------------------------------------------------------ *)
(* The protected values in document order (the order in which both directions draw from the stream) *)
Definition pv_value (v : value) : list bytes := match v with VProtected p => [p] | _ => [] end.
Definition pv_cd (c : custom_data) : list bytes :=
  flat_map (fun kv => match cd_value (snd kv) with Some v => pv_value v | None => [] end) c.
Fixpoint pv_entry (e : entry) : list bytes :=
  match e with
  | mkEntry _ fields _ _ _ cd _ _ _ _ _ _ hist =>
    flat_map (fun kv => pv_value (snd kv)) fields ++ pv_cd cd
    ++ match hist with
       | Some h => (fix go (l : list entry) : list bytes :=
                      match l with [] => [] | x :: r => pv_entry x ++ go r end) h
       | None => []
       end
  end.
Fixpoint pv_group (g : group) : list bytes :=
  match g with
  | mkGroup _ _ _ _ _ children _ cd _ _ _ _ _ =>
    pv_cd cd
    ++ (fix go (l : list (entry + group)) : list bytes :=
          match l with
          | [] => []
          | inl e :: r => pv_entry e ++ go r
          | inr g' :: r => pv_group g' ++ go r
          end) children
  end.
Definition protected_values_in_order (c : content) : list bytes :=
  pv_cd (m_custom_data (c_meta c)) ++ pv_group (c_root c).
Definition total_length (l : list bytes) : nat := fold_right (fun p n => (length p + n)%nat) 0%nat l.

(* Scalar codecs of the XML layer.  Colour: src/db/mod.rs Color::to_string / impl FromStr for Color
   (after the repair: two lower-case hex digits per component). *)
From Coq Require Import Lia.
From KP Require Import Bytes Outcome LE.
Local Open Scope N_scope.

Definition hex_digit (v : N) : N := if N.ltb v 10 then 48 + v else 87 + v.     (* '0'..'9','a'..'f' *)
Definition hex2 (b : N) : bytes := [hex_digit (b / 16); hex_digit (b mod 16)].

(* Color::to_string *)
Definition fmt_color (r g b : N) : bytes := [35] ++ hex2 r ++ hex2 g ++ hex2 b.

(* char::to_digit(16) *)
Definition hex_val (c : N) : option N :=
  if N.leb 48 c && N.leb c 57 then Some (c - 48)
  else if N.leb 97 c && N.leb c 102 then Some (c - 87)
  else if N.leb 65 c && N.leb c 70 then Some (c - 55)
  else None.

Fixpoint parse_hex_digits (acc : N) (l : bytes) : option N :=
  match l with
  | [] => Some acc
  | c :: r => match hex_val c with Some v => parse_hex_digits (acc * 16 + v) r | None => None end
  end.

(* u64::from_str_radix(s, 16): optional '+', at least one digit, no overflow *)
Definition parse_hex_u64 (s : bytes) : option N :=
  let body := match s with 43 :: r => r | _ => s end in
  match body with
  | [] => None
  | _ => match parse_hex_digits 0 body with
         | Some v => if N.ltb v (2 ^ 64) then Some v else None
         | None => None
         end
  end.

Fixpoint trim_hashes (l : bytes) : bytes := match l with 35 :: r => trim_hashes r | _ => l end.

(* impl FromStr for Color *)
Definition parse_color (s : bytes) : option (N * N * N) :=
  match s with
  | 35 :: _ =>
    if negb (Nat.eqb (length s) 7) then None
    else match parse_hex_u64 (trim_hashes s) with
         | Some v => Some ((v / 65536) mod 256, (v / 256) mod 256, v mod 256)
         | None => None
         end
  | _ => None
  end.

(* the code before the repair: {:0x} prints the minimal number of digits *)
Definition hex_min (b : N) : bytes := if N.ltb b 16 then [hex_digit b] else hex2 b.
Definition fmt_color_old (r g b : N) : bytes := [35] ++ hex_min r ++ hex_min g ++ hex_min b.

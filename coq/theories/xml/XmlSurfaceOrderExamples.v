(* (2), worked: pure children, admissible exchanges, and why the provisos are there. *)
From Coq Require Import Lia.
From KP Require Import Bytes Outcome LE Utf8 Base64 Scalars XmlTypes XmlDump XmlParse XmlSpec XmlCodecProofs
  XmlStream XmlRoundTrip XmlSurfaceCore XmlSurfaceVar XmlSurfaceUnknown XmlSurfaceDump XmlSurfaceExamples XmlSurfaceOrder.
Local Open Scope N_scope.
Local Open Scope outcome_scope.

(* ------------------------------------------------------------------------------------------ *)
(* pure children *)
Section pure.
  Variable gunzip : bytes -> option bytes.
  Notation TKg := (TK gunzip).

  (* a scalar leaf whose text the converter accepts *)
  Lemma pure_simple_chars k n a t {A} (conv : bytes -> outcome xerr A) (set : A -> tb_St (TKg k) -> tb_St (TKg k)) v :
    (forall f, tb_child (TKg k) f n = h_simple (p_chars conv) set) -> conv t = Ok v ->
    pure_child gunzip k (shape1 n a t) (set v).
  Proof.
    intros Hh Hv. apply pure_child_intro. intros f acc ks X. rewrite Hh.
    change (shape1 n a t) with (shape n a (Some t)). change (EStart n a :: [EChars t; EEnd n]) with (shape n a (Some t)).
    rewrite simple_chars_den. cbn [kchars]. rewrite Hv. reflexivity.
  Qed.
  Lemma pure_simple_opt k n a t {A} (conv : bytes -> outcome xerr A) (set : option A -> tb_St (TKg k) -> tb_St (TKg k)) v :
    (forall f, tb_child (TKg k) f n = h_simple (p_opt_chars conv) set) -> conv t = Ok v ->
    pure_child gunzip k (shape1 n a t) (set (Some v)).
  Proof.
    intros Hh Hv. apply pure_child_intro. intros f acc ks X. rewrite Hh.
    change (EStart n a :: [EChars t; EEnd n]) with (shape n a (Some t)).
    rewrite simple_opt_den. cbn [kopt]. rewrite Hv. reflexivity.
  Qed.
  Lemma pure_simple_opt_none k n a {A} (conv : bytes -> outcome xerr A) (set : option A -> tb_St (TKg k) -> tb_St (TKg k)) :
    (forall f, tb_child (TKg k) f n = h_simple (p_opt_chars conv) set) ->
    pure_child gunzip k (shape0 n a) (set None).
  Proof.
    intros Hh. apply pure_child_intro. intros f acc ks X. rewrite Hh.
    change (EStart n a :: [EEnd n]) with (shape n a None).
    rewrite (simple_opt_den conv set n a None). reflexivity.
  Qed.
  (* an unknown element *)
  Lemma pure_unknown k n sub : cls k n = CIgnore -> well_bracketed n sub -> pure_child gunzip k sub (fun a => a).
  Proof.
    intros Hc Hw f. pose proof (cls_ok gunzip k n) as S. unfold cls_spec in S. rewrite Hc in S.
    exact (hden_ignore _ f n sub (S f) Hw).
  Qed.
  (* the <Times> and <AutoType> elements the writer produces *)
  Lemma pure_times_entry t : wf_times t = true -> pure_child gunzip K_entry (dump_times t) (set_e_times t).
  Proof.
    intros Hwf f. rewrite dump_times_shape. unfold elem. exists s_Times, [], (times_body t ++ [EEnd s_Times]).
    split; [reflexivity|]. intros acc ks X Hl.
    change (tb_child (TKg K_entry) f s_Times) with (@h_sub entry times (p_times f) set_e_times). unfold h_sub.
    pose proof (p_times_rt f t ks X Hwf) as P. rewrite dump_times_shape in P. unfold elem in P.
    rewrite P by (cbn [app length] in *; lia). reflexivity.
  Qed.
  Lemma pure_times_group t : wf_times t = true -> pure_child gunzip K_group (dump_times t) (set_g_times t).
  Proof.
    intros Hwf f. rewrite dump_times_shape. unfold elem. exists s_Times, [], (times_body t ++ [EEnd s_Times]).
    split; [reflexivity|]. intros acc ks X Hl.
    change (tb_child (TKg K_group) f s_Times) with (@h_sub group times (p_times f) set_g_times). unfold h_sub.
    pose proof (p_times_rt f t ks X Hwf) as P. rewrite dump_times_shape in P. unfold elem in P.
    rewrite P by (cbn [app length] in *; lia). reflexivity.
  Qed.
  Lemma pure_autotype_entry x :
    wf_autotype x = true -> pure_child gunzip K_entry (dump_autotype x) (fun a => set_e_autotype (Some x) a).
  Proof.
    intros Hwf f. rewrite dump_autotype_shape. unfold elem.
    eexists s_AutoType, [], _. split; [reflexivity|]. intros acc ks X Hl.
    change (tb_child (TKg K_entry) f s_AutoType) with (@h_sub entry autotype (p_autotype f) (fun x a => set_e_autotype (Some x) a)).
    unfold h_sub.
    pose proof (p_autotype_rt f x ks X Hwf) as P. rewrite dump_autotype_shape in P. unfold elem in P.
    rewrite P by (cbn [app length] in *; lia). reflexivity.
  Qed.
End pure.

(* ------------------------------------------------------------------------------------------ *)
(* on x_doc: the entry's children are UUID 34-36, Tags 37-38, String 39-46, String 47-54 (protected),
   CustomData 55-64 (a protected item), Times 65-75 *)
Definition swap_seg (i j k : nat) (d : list ev) : list ev :=
  firstn i d ++ firstn (k - j) (skipn j d) ++ firstn (j - i) (skipn i d) ++ skipn k d.

Example swap_uuid_tags : parse_events x_gunzip (swap_seg 34 37 39 x_doc) x_ks = Ok x_content.
Proof. vm_compute. reflexivity. Qed.
(* Times in front of CustomData: Times is pure, CustomData draws from the stream *)
Example swap_custom_data_times : parse_events x_gunzip (swap_seg 55 65 76 x_doc) x_ks = Ok x_content.
Proof. vm_compute. reflexivity. Qed.

(* the same through the theorem: the UUID leaf is pure, Tags is a structured child of another name *)
Example x_uuid_tags_swappable :
  swappable x_gunzip K_entry (shape1 s_UUID [] (fmt_uuid x_uuid)) (shape0 s_Tags []).
Proof.
  exists s_UUID, s_Tags, (set_e_uuid x_uuid). repeat split.
  - apply (pure_simple_chars x_gunzip K_entry s_UUID [] (fmt_uuid x_uuid) parse_uuid set_e_uuid x_uuid); [reflexivity|].
    vm_compute. reflexivity.
  - apply (v_leaf K_entry s_Tags [] [] None). reflexivity.
Qed.

(* two children that both draw from the stream may not be exchanged: each decrypts with the other's slice *)
Example protected_swap_refuted :
  parse_events x_gunzip (swap_seg 47 55 65 x_doc) x_ks <> parse_events x_gunzip x_doc x_ks.
Proof. vm_compute. discriminate. Qed.
(* two <String> children keep their document order in the result (the association list stands for the
   HashMap insertion order): exchanging them gives the same map in another order *)
Example string_swap_order :
  parse_events x_gunzip (swap_seg 39 47 55 x_doc) x_ks
  = Ok (set_c_root (set_g_children
          [inl (set_e_fields [([80], VProtected [112;119]); ([84], VUnprotected [97])] x_entry)] x_group) x_content).
Proof. vm_compute. reflexivity. Qed.

(* ------------------------------------------------------------------------------------------ *)
(* small hand-made elements *)
Definition lf (n t : bytes) : list ev := [EStart n []; EChars t; EEnd n].
Definition ent (body : list ev) : list ev := EStart s_Entry [] :: body ++ [EEnd s_Entry].
Definition run_entry (body : list ev) := p_entry 50 (ent body) [].

(* a single-valued child given twice: the LAST one wins *)
Example last_wins :
  run_entry (lf s_IconID [49] ++ lf s_IconID [50]) = Ok (set_e_icon_id (Some 2) entry_new, [], []).
Proof. vm_compute. reflexivity. Qed.
(* so two children of the SAME name may not be exchanged *)
Example same_name_refuted :
  run_entry (lf s_IconID [49] ++ lf s_IconID [50]) <> run_entry (lf s_IconID [50] ++ lf s_IconID [49]).
Proof. vm_compute. discriminate. Qed.
(* "pure": if both children fail, the error reported is that of the first one *)
Example both_fail_refuted :
  run_entry (lf s_IconID [120] ++ lf s_ForegroundColor [120]) = Err XIntFormat
  /\ run_entry (lf s_ForegroundColor [120] ++ lf s_IconID [120]) = Err XColor.
Proof. vm_compute. split; reflexivity. Qed.
(* if only the second fails, the order does not matter (the theorem covers it: E2 may fail) *)
Example one_fails :
  run_entry (lf s_IconID [49] ++ lf s_ForegroundColor [120]) = Err XColor
  /\ run_entry (lf s_ForegroundColor [120] ++ lf s_IconID [49]) = Err XColor.
Proof. vm_compute. split; reflexivity. Qed.

(* [conflict]: <Entry> and <Group> children of a Group share the list of nodes *)
Definition grp (body : list ev) : list ev := EStart s_Group [] :: body ++ [EEnd s_Group].
Example entry_group_swap_refuted :
  p_group 50 (grp (ent [] ++ grp [])) [] = Ok (set_g_children [inl entry_new; inr group_default] group_default, [], [])
  /\ p_group 50 (grp (grp [] ++ ent [])) [] = Ok (set_g_children [inr group_default; inl entry_new] group_default, [], []).
Proof. vm_compute. split; reflexivity. Qed.
(* [conflict]: two stamps inside <Times> share the association list: same map, another order *)
Definition s_A : bytes := [65].
Definition s_B : bytes := [66].
Example stamps_swap_order :
  p_times 50 (EStart s_Times [] :: lf s_A (fmt_time 1) ++ lf s_B (fmt_time 2) ++ [EEnd s_Times]) []
  = Ok (mkTimes false 0 [(s_A, 1%Z); (s_B, 2%Z)], [], [])
  /\ p_times 50 (EStart s_Times [] :: lf s_B (fmt_time 2) ++ lf s_A (fmt_time 1) ++ [EEnd s_Times]) []
  = Ok (mkTimes false 0 [(s_B, 2%Z); (s_A, 1%Z)], [], []).
Proof. vm_compute. split; reflexivity. Qed.
(* but a stamp and Expires / UsageCount commute *)
Example stamp_expires_swap :
  p_times 50 (EStart s_Times [] :: lf s_A (fmt_time 1) ++ lf s_Expires s_True ++ [EEnd s_Times]) []
  = p_times 50 (EStart s_Times [] :: lf s_Expires s_True ++ lf s_A (fmt_time 1) ++ [EEnd s_Times]) [].
Proof. vm_compute. reflexivity. Qed.

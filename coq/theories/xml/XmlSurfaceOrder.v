(* (2) The order of the children of an element.

   What the model does: the container loop applies the children's handlers from left to right to one
   accumulated struct and one key stream.  A single-valued child overwrites its field (the LAST occurrence
   wins); a repeated child (String, Entry, Group, Association, Item, Icon, Binary, DeletedObject, the
   stamps inside Times) is appended / inserted in document order; protected values draw from the stream in
   document order.

   Theorem [swap_sound] / [entry_swap_adjacent] / [document_swap]: two ADJACENT children E1 E2 with
   different names may be exchanged when E1 is "pure": its handler neither fails nor touches the stream,
   whatever the struct (e.g. a scalar leaf with a well-formed text, a <Times> or <AutoType> element that
   reads without error).  E2 is any structured child (it may fail, and it may draw from the stream).
   [perm_sound]: any sequence of such exchanges.  The provisos are needed: [..._refuted] in
   XmlSurfaceOrderExamples.v. *)
From Coq Require Import Lia.
From KP Require Import Bytes Outcome LE Utf8 Base64 Scalars XmlTypes XmlDump XmlParse XmlSpec XmlCodecProofs
  XmlSurfaceCore XmlSurfaceVar XmlSurfaceUnknown.
Local Open Scope outcome_scope.

(* ------------------------------------------------------------------------------------------ *)
(* handlers act on the accumulated struct by an update that does not depend on the struct, and whether
   they fail does not depend on it either *)
Definition not_ok {A} (r : pres A) : Prop := match r with Ok _ => False | _ => True end.
Definition hunif {St} (h : handler St) (P : (St -> St) -> Prop) : Prop :=
  forall evs ks,
    (exists u r k, P u /\ forall acc, h acc evs ks = Ok (u acc, r, k))
    \/ (exists x, not_ok x /\ forall acc, h acc evs ks = x).

Lemma hunif_simple {St A} (inner : list ev -> outcome xerr (A * list ev)) (set : A -> St -> St) :
  hunif (h_simple inner set) (fun u => exists v, u = set v).
Proof.
  intros evs ks. unfold h_simple. destruct (p_simple inner evs) as [[nv r]|e|s|]; cbn [bind].
  - left. exists (set (snd nv)), r, ks. split; [exists (snd nv); reflexivity|reflexivity].
  - right. exists (Err e). split; [exact I|reflexivity].
  - right. exists (Panic s). split; [exact I|reflexivity].
  - right. exists OutOfFuel. split; [exact I|reflexivity].
Qed.
Lemma hunif_sub {St A} (p : list ev -> bytes -> pres A) (set : A -> St -> St) :
  hunif (h_sub p set) (fun u => exists v, u = set v).
Proof.
  intros evs ks. unfold h_sub. destruct (p evs ks) as [[[v r] k]|e|s|]; cbn [bind fst snd].
  - left. exists (set v), r, k. split; [exists v; reflexivity|reflexivity].
  - right. exists (Err e). split; [exact I|reflexivity].
  - right. exists (Panic s). split; [exact I|reflexivity].
  - right. exists OutOfFuel. split; [exact I|reflexivity].
Qed.
Lemma hunif_ignore {St} : hunif (@h_ignore St) (fun u => u = (fun a => a)).
Proof.
  intros evs ks. unfold h_ignore. destruct (p_ignore evs) as [r|e|s|]; cbn [bind].
  - left. exists (fun a => a), r, ks. split; reflexivity.
  - right. exists (Err e). split; [exact I|reflexivity].
  - right. exists (Panic s). split; [exact I|reflexivity].
  - right. exists OutOfFuel. split; [exact I|reflexivity].
Qed.
Lemma hunif_ebin {St} : hunif (@h_ebin St) (fun u => u = (fun a => a)).
Proof.
  intros evs ks. unfold h_ebin. destruct (p_binary_field evs) as [r|e|s|]; cbn [bind].
  - left. exists (fun a => a), r, ks. split; reflexivity.
  - right. exists (Err e). split; [exact I|reflexivity].
  - right. exists (Panic s). split; [exact I|reflexivity].
  - right. exists OutOfFuel. split; [exact I|reflexivity].
Qed.
Lemma hunif_bad {St} : hunif (@h_bad St) (fun _ => False).
Proof. intros evs ks. right. exists (Err XBadEvent). split; [exact I|reflexivity]. Qed.

Definition indep {St} (P1 P2 : (St -> St) -> Prop) : Prop :=
  forall u1 u2, P1 u1 -> P2 u2 -> forall a, u1 (u2 a) = u2 (u1 a).

(* ------------------------------------------------------------------------------------------ *)
(* steps *)
Definition step_unif {St} (f : kstep St) (P : (St -> St) -> Prop) : Prop :=
  forall ks,
    (exists u k, P u /\ forall acc, f acc ks = Ok (u acc, k))
    \/ (exists y, match y with Ok _ => False | _ => True end /\ forall acc, f acc ks = y).

Lemma hden_step_unif {St} (child : bytes -> handler St) bound n a tl f P :
  hden child bound (EStart n a :: tl) f -> length (EStart n a :: tl) <= bound -> hunif (child n) P -> step_unif f P.
Proof.
  intros [n0 [a0 [tl0 [E Hf]]]] Hl Hu ks. inversion E; subst n0 a0 tl0. clear E.
  assert (Hf0 : forall acc, child n acc (EStart n a :: tl) ks = lift (f acc ks) []).
  { intro acc. pose proof (Hf acc ks []) as H. rewrite app_nil_r in H. apply H. exact Hl. }
  destruct (Hu (EStart n a :: tl) ks) as [[u [r [k [Pu Hh]]]]|[x [Hx Hh]]].
  - left. exists u, k. split; [exact Pu|]. intro acc. specialize (Hf0 acc). rewrite Hh in Hf0.
    destruct (f acc ks) as [[a' k']|e|s|]; cbn [lift] in Hf0; try discriminate. inversion Hf0; subst. reflexivity.
  - right.
    exists (match x with Ok _ => OutOfFuel | Err e => Err e | Panic s => Panic s | OutOfFuel => OutOfFuel end).
    split; [destruct x; exact I|]. intro acc. specialize (Hf0 acc). rewrite Hh in Hf0.
    destruct x as [v|e|s|]; [contradiction| | |]; destruct (f acc ks) as [[a' k']|e'|s'|]; cbn [lift] in Hf0;
      try discriminate; inversion Hf0; reflexivity.
Qed.

Lemma kcomp_swap {St} (s1 : St -> St) (f2 : kstep St) P2 :
  step_unif f2 P2 -> (forall u2, P2 u2 -> forall a, s1 (u2 a) = u2 (s1 a)) ->
  forall acc ks, kcomp (fun a k => Ok (s1 a, k)) f2 acc ks = kcomp f2 (fun a k => Ok (s1 a, k)) acc ks.
Proof.
  intros H2 Hi acc ks. unfold kcomp. destruct (H2 ks) as [[u2 [k [Pu Hf]]]|[y [Hy Hf]]].
  - rewrite !Hf. rewrite (Hi u2 Pu acc). reflexivity.
  - rewrite !Hf. destruct y; [contradiction|reflexivity|reflexivity|reflexivity].
Qed.

Section swap.
  Context {St : Type}.
  Variable child : bytes -> handler St.
  Variable bound : nat.
  Variable close : bytes.

  Lemma bden_swap E1 s1 E2 f2 B B' F :
    hden child bound E1 (fun a k => Ok (s1 a, k)) -> hden child bound E2 f2 ->
    (forall acc ks, kcomp (fun a k => Ok (s1 a, k)) f2 acc ks = kcomp f2 (fun a k => Ok (s1 a, k)) acc ks) ->
    bden child bound close B F -> bden child bound close B' F ->
    bden child bound close (E1 ++ E2 ++ B) (kcomp (fun a k => Ok (s1 a, k)) (kcomp f2 F))
    /\ bden child bound close (E2 ++ E1 ++ B') (kcomp (fun a k => Ok (s1 a, k)) (kcomp f2 F)).
  Proof.
    intros H1 H2 Hc HB HB'. split.
    - apply bden_cons; [exact H1|]. apply bden_cons; [exact H2|exact HB].
    - apply (bden_ext _ _ _ _ (kcomp f2 (kcomp (fun a k => Ok (s1 a, k)) F))).
      + intros a k. rewrite <- !kcomp_assoc. unfold kcomp at 1 3. rewrite <- (Hc a k). reflexivity.
      + apply bden_cons; [exact H2|]. apply bden_cons; [exact H1|exact HB'].
  Qed.

  (* the loop, directly *)
  Lemma p_loop_swap_adjacent E1 s1 E2 f2 B F :
    hden child bound E1 (fun a k => Ok (s1 a, k)) -> hden child bound E2 f2 ->
    (forall acc ks, kcomp (fun a k => Ok (s1 a, k)) f2 acc ks = kcomp f2 (fun a k => Ok (s1 a, k)) acc ks) ->
    bden child bound close B F ->
    forall acc ks n n' X,
      length ((E1 ++ E2 ++ B) ++ EEnd close :: X) <= n -> length ((E1 ++ E2 ++ B) ++ EEnd close :: X) <= bound ->
      length ((E2 ++ E1 ++ B) ++ EEnd close :: X) <= n' ->
      p_loop close child n acc ((E1 ++ E2 ++ B) ++ EEnd close :: X) ks
      = p_loop close child n' acc ((E2 ++ E1 ++ B) ++ EEnd close :: X) ks.
  Proof.
    intros H1 H2 Hc HB acc ks n n' X L Lb L'. destruct (bden_swap E1 s1 E2 f2 B B F H1 H2 Hc HB HB) as [S1 S2].
    rewrite (S1 acc ks n X L Lb). rewrite (S2 acc ks n' X L'); [reflexivity|].
    repeat rewrite app_length in Lb. repeat rewrite app_length. lia.
  Qed.
End swap.

(* ------------------------------------------------------------------------------------------ *)
(* the handlers of two children with different names update the struct independently - except for the
   children that share a list: Entry and Group inside a Group (one list of nodes), two stamps inside Times
   (one association list) *)
Definition is_stamp (n : bytes) : bool := negb (bytes_eqb n s_Expires) && negb (bytes_eqb n s_UsageCount).
Definition conflict (k : kind) (n1 n2 : bytes) : bool :=
  match k with
  | K_group => (bytes_eqb n1 s_Entry || bytes_eqb n1 s_Group) && (bytes_eqb n2 s_Entry || bytes_eqb n2 s_Group)
  | K_times => is_stamp n1 && is_stamp n2
  | _ => false
  end.

Lemma hunif_stamp :
  hunif (fun acc evs ks =>
           do (nv, r) <- p_simple (p_chars parse_time) evs;
           Ok (set_t_times (assoc_insert (fst nv) (snd nv) (t_times acc)) acc, r, ks))
        (fun u => exists k v, u = (fun a => set_t_times (assoc_insert k v (t_times a)) a)).
Proof.
  intros evs ks. destruct (p_simple (p_chars parse_time) evs) as [[nv r]|e|s|]; cbn [bind].
  - left. exists (fun a => set_t_times (assoc_insert (fst nv) (snd nv) (t_times a)) a), r, ks.
    split; [exists (fst nv), (snd nv); reflexivity|reflexivity].
  - right. exists (Err e). split; [exact I|reflexivity].
  - right. exists (Panic s). split; [exact I|reflexivity].
  - right. exists OutOfFuel. split; [exact I|reflexivity].
Qed.

Ltac same_name_contra :=
  match goal with
  | E1 : bytes_eqb ?a ?s = true, E2 : bytes_eqb ?b ?s = true, H : bytes_eqb ?a ?b = false |- _ =>
    apply bytes_eqb_eq in E1; apply bytes_eqb_eq in E2; rewrite E1, E2, bytes_eqb_refl in H; discriminate H
  end.
Ltac hunif_leaf :=
  first [ apply hunif_simple | apply hunif_sub | apply hunif_ignore | apply hunif_ebin | apply hunif_bad
        | apply hunif_stamp ].
Ltac indep_leaf :=
  let u1 := fresh "u1" in let u2 := fresh "u2" in let H1 := fresh "H1" in let H2 := fresh "H2" in
  let a := fresh "a" in
  intros u1 u2 H1 H2 a;
  repeat match goal with H : exists _, _ |- _ => destruct H end;
  try contradiction; subst;
  try reflexivity;
  destruct a;
  repeat match goal with x : cditem |- _ => destruct x end;
  repeat match goal with |- context [match ?o with Some _ => _ | None => _ end] => destruct o end;
  reflexivity.
Ltac conflict_contra :=
  match goal with
  | Hc : conflict _ _ _ = false |- _ =>
    cbn [conflict] in Hc; unfold is_stamp in Hc;
    repeat match goal with E : bytes_eqb _ _ = _ |- _ => rewrite E in Hc end;
    cbn [orb andb negb] in Hc; discriminate Hc
  end.
Ltac pair_leaf :=
  first [ same_name_contra
        | conflict_contra
        | eexists; eexists; split; [hunif_leaf | split; [hunif_leaf | indep_leaf]] ].
Ltac walk2 :=
  lazymatch goal with
  | |- context [if bytes_eqb ?n ?s then _ else _] =>
    let E := fresh "E" in destruct (bytes_eqb n s) eqn:E; cbv iota; walk2
  | _ => pair_leaf
  end.

Section indep.
  Variable gunzip : bytes -> option bytes.

  Definition pair_indep (k : kind) : Prop :=
    forall f n1 n2, bytes_eqb n1 n2 = false -> conflict k n1 n2 = false ->
      exists P1 P2, hunif (tb_child (TK gunzip k) f n1) P1 /\ hunif (tb_child (TK gunzip k) f n2) P2 /\ indep P1 P2.

  Lemma indep_entry : pair_indep K_entry.
  Proof. intros f n1 n2 Hne _. cbn [TK tb_child tb_St]. unfold entry_child. walk2. Qed.
  Lemma indep_group : pair_indep K_group.
  Proof. intros f n1 n2 Hne Hc. cbn [TK tb_child tb_St]. unfold group_child. walk2. Qed.
  Lemma indep_meta : pair_indep K_meta.
  Proof. intros f n1 n2 Hne _. cbn [TK tb_child tb_St]. unfold meta_child. walk2. Qed.
  Lemma indep_times : pair_indep K_times.
  Proof. intros f n1 n2 Hne Hc. cbn [TK tb_child tb_St]. unfold times_child. walk2. Qed.
  Lemma indep_others k : pair_indep k.
  Proof.
    destruct k; try apply indep_entry; try apply indep_group; try apply indep_meta; try apply indep_times;
      intros f n1 n2 Hne _; cbn [TK tb_child tb_St].
    - unfold keepass_child. walk2.
    - unfold root_child. walk2.
    - unfold history_child. walk2.
    - unfold string_field_child. walk2.
    - unfold autotype_child. walk2.
    - unfold assoc_child. walk2.
    - unfold custom_data_child. walk2.
    - unfold cditem_child. walk2.
    - unfold memprot_child. walk2.
    - unfold icons_child. walk2.
    - unfold icon_child. walk2.
    - unfold binaries_child. walk2.
    - unfold deleted_child. walk2.
    - unfold delobj_child. walk2.
  Qed.
End indep.

(* ------------------------------------------------------------------------------------------ *)
(* the theorems *)
Lemma lift_inj {A} (r r' : outcome xerr (A * bytes)) X : lift r X = lift r' X -> r = r'.
Proof.
  destruct r as [[v k]|e|s|], r' as [[v' k']|e'|s'|]; cbn [lift]; intro H; try discriminate; try reflexivity;
    inversion H; reflexivity.
Qed.

Definition head_name (E : list ev) : option bytes := match E with EStart n _ :: _ => Some n | _ => None end.

Section swapthm.
  Variable gunzip : bytes -> option bytes.
  Notation TKg := (TK gunzip).
  Notation PKg := (PK gunzip).
  Notation Sound := (Sound gunzip).

  (* E1, a child of a [k] element, always succeeds with the update s1 and leaves the stream alone *)
  Definition pure_child (k : kind) (E1 : list ev) (s1 : tb_St (TKg k) -> tb_St (TKg k)) : Prop :=
    forall f, hden (tb_child (TKg k) f) f E1 (fun a ks => Ok (s1 a, ks)).

  Definition swappable (k : kind) (E1 E2 : list ev) : Prop :=
    exists n1 n2 s1, head_name E1 = Some n1 /\ head_name E2 = Some n2
                     /\ bytes_eqb n1 n2 = false /\ conflict k n1 n2 = false
                     /\ pure_child k E1 s1 /\ var (SChild k) E2 E2.

  Lemma pure_child_intro k n a tl s1 :
    (forall f acc ks X, tb_child (TKg k) f n acc ((EStart n a :: tl) ++ X) ks = Ok (s1 acc, X, ks)) ->
    pure_child k (EStart n a :: tl) s1.
  Proof. intros H f. apply hden_intro. intros acc ks X. rewrite H. reflexivity. Qed.

  Lemma steps_commute k E1 E2 :
    swappable k E1 E2 ->
    exists s1 f2, (forall f, hden (tb_child (TKg k) f) f E1 (fun a ks => Ok (s1 a, ks)))
                  /\ (forall f, hden (tb_child (TKg k) f) f E2 f2)
                  /\ forall acc ks, kcomp (fun a k => Ok (s1 a, k)) f2 acc ks = kcomp f2 (fun a k => Ok (s1 a, k)) acc ks.
  Proof.
    intros [n1 [n2 [s1 [Hn1 [Hn2 [Hne [Hcf [Hp HV]]]]]]]].
    destruct (var_sound gunzip _ _ _ HV) as [f2 H2]. cbn [XmlSurfaceVar.Sound] in H2.
    exists s1, f2. split; [exact Hp|]. split; [intro f; apply (H2 f)|].
    destruct E1 as [|[m1 a1| | |] tl1]; cbn [head_name] in Hn1; try discriminate. inversion Hn1; subst m1.
    destruct E2 as [|[m2 a2| | |] tl2]; cbn [head_name] in Hn2; try discriminate. inversion Hn2; subst m2.
    set (f0 := length (EStart n1 a1 :: tl1) + length (EStart n2 a2 :: tl2)).
    destruct (indep_others gunzip k f0 n1 n2 Hne Hcf) as [P1 [P2 [U1 [U2 HI]]]].
    pose proof (hden_step_unif _ f0 n1 a1 tl1 _ P1 (Hp f0) ltac:(unfold f0; lia) U1) as S1.
    pose proof (hden_step_unif _ f0 n2 a2 tl2 _ P2 (proj1 (H2 f0)) ltac:(unfold f0; lia) U2) as S2.
    apply (kcomp_swap s1 f2 P2 S2). intros u2 Pu2 a.
    destruct (S1 []) as [[u1 [k1 [Pu1 Hu1]]]|[y [Hy Hu1]]].
    - assert (E : forall x, s1 x = u1 x) by (intro x; specialize (Hu1 x); inversion Hu1; reflexivity).
      rewrite !E. apply HI; assumption.
    - specialize (Hu1 a). subst y. contradiction.
  Qed.

  (* exchanging two adjacent children in front of any structured rest *)
  Theorem swap_sound k E1 E2 B B' :
    swappable k E1 E2 -> Sound (SBody k) B B' -> Sound (SBody k) (E1 ++ E2 ++ B) (E2 ++ E1 ++ B').
  Proof.
    intros Hs [F HF]. destruct (steps_commute k E1 E2 Hs) as [s1 [f2 [H1 [H2 Hc]]]].
    exists (kcomp (fun a k => Ok (s1 a, k)) (kcomp f2 F)). intro f. destruct (HF f) as [B1 B2].
    apply bden_swap; auto.
  Qed.

  Lemma Sound_sym s E E' : Sound s E E' -> Sound s E' E.
  Proof.
    destruct s as [k|k|k]; cbn [XmlSurfaceVar.Sound].
    - intros [a [a' [tl [tl' [H1 [H2 [g Hg]]]]]]]. exists a', a, tl', tl. split; [exact H2|]. split; [exact H1|].
      exists g. intro fuel. destruct (Hg fuel). split; assumption.
    - intros [F HF]. exists F. intro f. destruct (HF f). split; assumption.
    - intros [f0 H0]. exists f0. intro f. destruct (H0 f). split; assumption.
  Qed.
  Lemma Sound_body_trans k A B C : Sound (SBody k) A B -> Sound (SBody k) B C -> Sound (SBody k) A C.
  Proof.
    intros [F HF] [G HG]. exists F. intro f. destruct (HF f) as [A1 _]. destruct (HG f) as [_ C2]. split; [exact A1|].
    apply (bden_ext _ _ _ _ G); [|exact C2]. intros a0 k0.
    destruct (HF (S (length B))) as [_ X1]. destruct (HG (S (length B))) as [X2 _].
    assert (L : length (B ++ EEnd (tag k) :: []) <= S (length B)) by (rewrite app_length; cbn [length]; lia).
    pose proof (X1 a0 k0 (S (length B)) [] L L) as Y1. pose proof (X2 a0 k0 (S (length B)) [] L L) as Y2.
    rewrite Y1 in Y2. symmetry. exact (lift_inj _ _ [] Y2).
  Qed.

  (* in a context *)
  Definition PSound (k : kind) (x x' : list ev) : Prop :=
    forall B B', Sound (SBody k) B B' -> Sound (SBody k) (x ++ B) (x' ++ B').

  Lemma ctx_psound s s' p q :
    ctx s s' p q -> forall k x x', s' = SBody k -> PSound k x x' ->
    match s with
    | SBody k1 => PSound k1 (p ++ x ++ q) (p ++ x' ++ q)
    | _ => Sound s (p ++ x ++ q) (p ++ x' ++ q)
    end.
  Proof.
    induction 1 as [s | k1 s' a p q _ IH | k1 s' B1 B2 p q H1 H2 _ IH | k1 s' B1 B2 p q H1 H2 _ IH | k1 k' s' p q Hc _ IH];
      intros k x x' Heq HP.
    - subst s. cbn [app]. rewrite !app_nil_r. exact HP.
    - specialize (IH k x x' Heq HP). cbn [app].
      replace (p ++ x ++ q ++ [EEnd (tag k1)]) with ((p ++ x ++ q) ++ [EEnd (tag k1)]) by (rewrite <- !app_assoc; reflexivity).
      replace (p ++ x' ++ q ++ [EEnd (tag k1)]) with ((p ++ x' ++ q) ++ [EEnd (tag k1)]) by (rewrite <- !app_assoc; reflexivity).
      apply Sound_elem. pose proof (IH [] [] (Sound_nil gunzip k1)) as HS. rewrite !app_nil_r in HS. exact HS.
    - specialize (IH k x x' Heq HP). intros B B' HB.
      replace (((B1 ++ p) ++ x ++ q ++ B2) ++ B) with (B1 ++ (p ++ x ++ q) ++ (B2 ++ B)) by (rewrite <- !app_assoc; reflexivity).
      replace (((B1 ++ p) ++ x' ++ q ++ B2) ++ B') with (B1 ++ (p ++ x' ++ q) ++ (B2 ++ B')) by (rewrite <- !app_assoc; reflexivity).
      apply Sound_prefix; [exact H1|]. apply IH. apply Sound_prefix; [exact H2|exact HB].
    - specialize (IH k x x' Heq HP). intros B B' HB.
      replace (((B1 ++ p) ++ x ++ q ++ B2) ++ B) with (B1 ++ (p ++ x ++ q) ++ (B2 ++ B)) by (rewrite <- !app_assoc; reflexivity).
      replace (((B1 ++ p) ++ x' ++ q ++ B2) ++ B') with (B1 ++ (p ++ x' ++ q) ++ (B2 ++ B')) by (rewrite <- !app_assoc; reflexivity).
      apply Sound_prefix; [exact H1|]. apply Sound_child_cons; [exact IH|]. apply Sound_prefix; [exact H2|exact HB].
    - specialize (IH k x x' Heq HP). eapply Sound_sub; [exact Hc|exact IH].
  Qed.

  Lemma swap_psound k E1 E2 : swappable k E1 E2 -> PSound k (E1 ++ E2) (E2 ++ E1).
  Proof. intros Hs B B' HB. rewrite <- !app_assoc. apply swap_sound; assumption. Qed.

  (* the document level: two adjacent children of any container of the document *)
  Theorem document_swap k p q E1 E2 :
    ctx (SElem K_file) (SBody k) p q -> swappable k E1 E2 ->
    (forall n n' X ks, length ((p ++ (E1 ++ E2) ++ q) ++ X) <= S n -> length ((p ++ (E2 ++ E1) ++ q) ++ X) <= S n' ->
       p_keepass gunzip n ((p ++ (E1 ++ E2) ++ q) ++ X) ks = p_keepass gunzip n' ((p ++ (E2 ++ E1) ++ q) ++ X) ks)
    /\ forall ks, parse_events gunzip (p ++ (E1 ++ E2) ++ q) ks = parse_events gunzip (p ++ (E2 ++ E1) ++ q) ks.
  Proof.
    intros C Hs.
    pose proof (ctx_psound _ _ _ _ C k _ _ eq_refl (swap_psound k E1 E2 Hs)) as HS. cbn iota in HS.
    assert (K : forall n n' X ks, length ((p ++ (E1 ++ E2) ++ q) ++ X) <= S n -> length ((p ++ (E2 ++ E1) ++ q) ++ X) <= S n' ->
       p_keepass gunzip n ((p ++ (E1 ++ E2) ++ q) ++ X) ks = p_keepass gunzip n' ((p ++ (E2 ++ E1) ++ q) ++ X) ks).
    { intros n n' X ks L L'. exact (Sound_elem_same gunzip K_file _ _ HS (S n) (S n') X ks L L'). }
    split; [exact K|]. intro ks. unfold parse_events.
    pose proof (K (length (p ++ (E1 ++ E2) ++ q)) (length (p ++ (E2 ++ E1) ++ q)) [] ks) as H. rewrite !app_nil_r in H.
    rewrite H by lia. reflexivity.
  Qed.

  (* one element, any kind *)
  Theorem element_swap_adjacent k a B1 B2 E1 E2 :
    structured k B1 -> structured k B2 -> swappable k E1 E2 ->
    forall fuel fuel' X ks,
      length (el k a (B1 ++ E1 ++ E2 ++ B2) ++ X) <= fuel -> length (el k a (B1 ++ E2 ++ E1 ++ B2) ++ X) <= fuel' ->
      PKg k fuel (el k a (B1 ++ E1 ++ E2 ++ B2) ++ X) ks = PKg k fuel' (el k a (B1 ++ E2 ++ E1 ++ B2) ++ X) ks.
  Proof.
    intros H1 H2 Hs. apply Sound_elem_same. unfold el. apply Sound_elem.
    apply Sound_prefix; [exact H1|]. apply swap_sound; [exact Hs|]. apply (var_sound gunzip _ _ _ H2).
  Qed.
  Theorem entry_swap_adjacent a B1 B2 E1 E2 :
    structured K_entry B1 -> structured K_entry B2 -> swappable K_entry E1 E2 ->
    forall fuel fuel' X ks,
      length (el K_entry a (B1 ++ E1 ++ E2 ++ B2) ++ X) <= fuel -> length (el K_entry a (B1 ++ E2 ++ E1 ++ B2) ++ X) <= fuel' ->
      p_entry fuel (el K_entry a (B1 ++ E1 ++ E2 ++ B2) ++ X) ks = p_entry fuel' (el K_entry a (B1 ++ E2 ++ E1 ++ B2) ++ X) ks.
  Proof.
    intros H1 H2 Hs fuel fuel' X ks L L'. rewrite <- !PK_entry with (gunzip := gunzip).
    exact (element_swap_adjacent K_entry a B1 B2 E1 E2 H1 H2 Hs fuel fuel' X ks L L').
  Qed.
  Theorem group_swap_adjacent a B1 B2 E1 E2 :
    structured K_group B1 -> structured K_group B2 -> swappable K_group E1 E2 ->
    forall fuel fuel' X ks,
      length (el K_group a (B1 ++ E1 ++ E2 ++ B2) ++ X) <= fuel -> length (el K_group a (B1 ++ E2 ++ E1 ++ B2) ++ X) <= fuel' ->
      p_group fuel (el K_group a (B1 ++ E1 ++ E2 ++ B2) ++ X) ks = p_group fuel' (el K_group a (B1 ++ E2 ++ E1 ++ B2) ++ X) ks.
  Proof.
    intros H1 H2 Hs fuel fuel' X ks L L'. rewrite <- !PK_group with (gunzip := gunzip).
    exact (element_swap_adjacent K_group a B1 B2 E1 E2 H1 H2 Hs fuel fuel' X ks L L').
  Qed.
  Theorem meta_swap_adjacent a B1 B2 E1 E2 :
    structured K_meta B1 -> structured K_meta B2 -> swappable K_meta E1 E2 ->
    forall n n' X ks,
      length (el K_meta a (B1 ++ E1 ++ E2 ++ B2) ++ X) <= S n -> length (el K_meta a (B1 ++ E2 ++ E1 ++ B2) ++ X) <= S n' ->
      p_meta gunzip n (el K_meta a (B1 ++ E1 ++ E2 ++ B2) ++ X) ks = p_meta gunzip n' (el K_meta a (B1 ++ E2 ++ E1 ++ B2) ++ X) ks.
  Proof.
    intros H1 H2 Hs n n' X ks L L'.
    exact (element_swap_adjacent K_meta a B1 B2 E1 E2 H1 H2 Hs (S n) (S n') X ks L L').
  Qed.
  Theorem times_swap_adjacent a B1 B2 E1 E2 :
    structured K_times B1 -> structured K_times B2 -> swappable K_times E1 E2 ->
    forall n n' X ks,
      length (el K_times a (B1 ++ E1 ++ E2 ++ B2) ++ X) <= S n -> length (el K_times a (B1 ++ E2 ++ E1 ++ B2) ++ X) <= S n' ->
      p_times n (el K_times a (B1 ++ E1 ++ E2 ++ B2) ++ X) ks = p_times n' (el K_times a (B1 ++ E2 ++ E1 ++ B2) ++ X) ks.
  Proof.
    intros H1 H2 Hs n n' X ks L L'.
    exact (element_swap_adjacent K_times a B1 B2 E1 E2 H1 H2 Hs (S n) (S n') X ks L L').
  Qed.

  (* permutations generated by admissible adjacent exchanges *)
  Inductive perm_adj (k : kind) : list (list ev) -> list (list ev) -> Prop :=
  | pa_refl l : perm_adj k l l
  | pa_swap l1 E1 E2 l2 :
      swappable k E1 E2 \/ swappable k E2 E1 -> perm_adj k (l1 ++ E1 :: E2 :: l2) (l1 ++ E2 :: E1 :: l2)
  | pa_trans l1 l2 l3 : perm_adj k l1 l2 -> perm_adj k l2 l3 -> perm_adj k l1 l3.

  Definition children (k : kind) (cs : list (list ev)) : Prop := Forall (fun E => var (SChild k) E E) cs.
  Lemma children_structured k cs : children k cs -> structured k (concat cs).
  Proof.
    induction 1 as [|E r HE _ IH]; [apply v_nil|]. cbn [concat]. apply v_child; assumption.
  Qed.

  Theorem perm_sound k cs cs' :
    children k cs -> perm_adj k cs cs' -> children k cs' /\ Sound (SBody k) (concat cs) (concat cs').
  Proof.
    intros Hc Hp. revert Hc. induction Hp as [l | l1 E1 E2 l2 Hs | l1 l2 l3 _ IH1 _ IH2]; intro Hc.
    - split; [exact Hc|]. apply (var_sound gunzip). apply children_structured. exact Hc.
    - unfold children in *. apply Forall_app in Hc. destruct Hc as [C1 C2].
      inversion C2 as [|? ? HE1 C3]; subst. inversion C3 as [|? ? HE2 C4]; subst. split.
      + apply Forall_app. split; [exact C1|]. constructor; [exact HE2|]. constructor; [exact HE1|exact C4].
      + rewrite !concat_app. cbn [concat].
        apply Sound_prefix; [apply children_structured; exact C1|].
        pose proof (var_sound gunzip _ _ _ (children_structured k l2 C4)) as S2.
        destruct Hs as [Hs|Hs]; [apply swap_sound; assumption|]. apply Sound_sym. apply swap_sound; assumption.
    - destruct (IH1 Hc) as [C2 S12]. destruct (IH2 C2) as [C3 S23]. split; [exact C3|].
      eapply Sound_body_trans; eassumption.
  Qed.

  Corollary element_permute k a cs cs' :
    children k cs -> perm_adj k cs cs' ->
    forall fuel fuel' X ks,
      length (el k a (concat cs) ++ X) <= fuel -> length (el k a (concat cs') ++ X) <= fuel' ->
      PKg k fuel (el k a (concat cs) ++ X) ks = PKg k fuel' (el k a (concat cs') ++ X) ks.
  Proof.
    intros Hc Hp. apply Sound_elem_same. unfold el. apply Sound_elem. apply (perm_sound k cs cs' Hc Hp).
  Qed.
  Corollary entry_permute a cs cs' :
    children K_entry cs -> perm_adj K_entry cs cs' ->
    forall fuel fuel' X ks,
      length (el K_entry a (concat cs) ++ X) <= fuel -> length (el K_entry a (concat cs') ++ X) <= fuel' ->
      p_entry fuel (el K_entry a (concat cs) ++ X) ks = p_entry fuel' (el K_entry a (concat cs') ++ X) ks.
  Proof.
    intros Hc Hp fuel fuel' X ks L L'. rewrite <- !PK_entry with (gunzip := gunzip).
    exact (element_permute K_entry a cs cs' Hc Hp fuel fuel' X ks L L').
  Qed.
End swapthm.

Print Assumptions swap_sound.
Print Assumptions document_swap.
Print Assumptions perm_sound.

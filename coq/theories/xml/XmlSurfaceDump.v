(* Every document the writer model produces is structured: [var (SElem K_file) d d] for
   d = dump_events gzip c ks, any content c (well-formed or not), any stream.  So the variants of a dumped
   document are exactly what [var] generates from it. *)
From Coq Require Import Lia.
From KP Require Import Bytes Outcome LE Utf8 Base64 Scalars XmlTypes XmlDump XmlParse XmlSpec XmlCodecProofs
  XmlStream XmlRoundTrip XmlSurfaceCore XmlSurfaceVar XmlSurfaceUnknown.

Lemma sb_nil k : structured k [].
Proof. apply v_nil. Qed.
Lemma sb_app k A B : structured k A -> structured k B -> structured k (A ++ B).
Proof. apply var_body_app. Qed.
Lemma sb_child k E : var (SChild k) E E -> structured k E.
Proof. intro H. pose proof (v_child k E E [] [] H (v_nil k)) as V. rewrite app_nil_r in V. exact V. Qed.
Lemma sb_sub k k' E : cls k (tag k') = CSub k' -> var (SElem k') E E -> structured k E.
Proof. intros Hc HE. apply sb_child. eapply v_sub; eassumption. Qed.
Lemma se_elem k B : structured k B -> var (SElem k) (elem (tag k) B) (elem (tag k) B).
Proof. intro H. unfold elem. apply v_elem. exact H. Qed.
Lemma sb_concat k {A} (f : A -> list ev) l : (forall x, structured k (f x)) -> structured k (concat (map f l)).
Proof. intro H. induction l as [|x r IH]; [apply sb_nil|]. cbn [map concat]. apply sb_app; [apply H|exact IH]. Qed.

Lemma simple_shape n t : simple n t = shape n [] (if ws_only t then None else Some t).
Proof. unfold simple, emit_chars. destruct (ws_only t); reflexivity. Qed.
Lemma sb_simple_leaf k n t : cls k n = CLeaf -> structured k (simple n t).
Proof. intro Hc. rewrite simple_shape. apply sb_child. apply v_leaf. exact Hc. Qed.
Lemma sb_simple_time k n t : cls k n = CTime -> structured k (simple n t).
Proof. intro Hc. rewrite simple_shape. apply sb_child. apply v_time; [exact Hc|apply time_eq_refl]. Qed.
Lemma sb_simple_opt_leaf {A} k n (fmt : A -> bytes) o : cls k n = CLeaf -> structured k (simple_opt n fmt o).
Proof. intro Hc. destruct o; cbn [simple_opt]; [apply sb_simple_leaf; exact Hc|apply sb_nil]. Qed.
Lemma sb_simple_opt_time {A} k n (fmt : A -> bytes) o : cls k n = CTime -> structured k (simple_opt n fmt o).
Proof. intro Hc. destruct o; cbn [simple_opt]; [apply sb_simple_time; exact Hc|apply sb_nil]. Qed.

(* dumpers *)
Definition sd (k : kind) (d : dumper) : Prop := forall ks, structured k (devs d ks).
Definition ed (k : kind) (d : dumper) : Prop := forall ks, var (SElem k) (devs d ks) (devs d ks).
Lemma sd_pure k e : structured k e -> sd k (dpure e).
Proof. intros H ks. rewrite devs_dpure. exact H. Qed.
Lemma sd_seq k a b : sd k a -> sd k b -> sd k (dseq a b).
Proof. intros Ha Hb ks. rewrite devs_dseq. apply sb_app; [apply Ha|apply Hb]. Qed.
Lemma sd_map k {A} (f : A -> dumper) l : (forall x, sd k (f x)) -> sd k (dmap f l).
Proof.
  intro H. induction l as [|x r IH]; intro ks; [apply sb_nil|].
  rewrite devs_dmap_cons. apply sb_app; [apply H|apply IH].
Qed.
Lemma sd_sub k k' d : cls k (tag k') = CSub k' -> ed k' d -> sd k d.
Proof. intros Hc H ks. eapply sb_sub; [exact Hc|apply H]. Qed.
Lemma ed_wrap k d : sd k d -> ed k (wrap (tag k) d).
Proof. intros H ks. rewrite devs_wrap_elem. apply se_elem. apply H. Qed.
Lemma ed_pure k e : var (SElem k) e e -> ed k (dpure e).
Proof. intros H ks. rewrite devs_dpure. exact H. Qed.

(* Value *)
Lemma value_child k v ks :
  cls k s_Value = CValue -> var (SChild k) (devs (dump_value v) ks) (devs (dump_value v) ks).
Proof.
  intro Hc. destruct v as [t|p|b]; unfold devs; cbn [dump_value dpure fst].
  - rewrite simple_shape. apply v_value; [exact Hc|reflexivity].
  - assert (E : EStart s_Value [(s_Protected, s_True)] :: emit_chars (b64_encode (xor_ks p ks)) ++ [EEnd s_Value]
                = shape s_Value [(s_Protected, s_True)]
                        (if ws_only (b64_encode (xor_ks p ks)) then None else Some (b64_encode (xor_ks p ks)))).
    { unfold emit_chars. destruct (ws_only _); reflexivity. }
    rewrite E. apply v_value; [exact Hc|reflexivity].
  - rewrite simple_shape. apply v_value; [exact Hc|reflexivity].
Qed.
Lemma sd_value k v : cls k s_Value = CValue -> sd k (dump_value v).
Proof. intros Hc ks. apply sb_child. apply value_child. exact Hc. Qed.

(* Times *)
Lemma se_times t : var (SElem K_times) (dump_times t) (dump_times t).
Proof.
  rewrite dump_times_shape. apply (se_elem K_times). unfold times_body.
  apply sb_app; [|apply sb_app; apply sb_simple_leaf; reflexivity].
  apply sb_concat. intros [n v]. unfold dump_time_entry. cbn [fst snd].
  destruct (bytes_eqb n s_Expires) eqn:E1.
  { apply sb_simple_leaf. cbn [cls]. unfold cls_times. rewrite E1. reflexivity. }
  destruct (bytes_eqb n s_UsageCount) eqn:E2.
  { apply sb_simple_leaf. cbn [cls]. unfold cls_times. rewrite E1, E2. reflexivity. }
  apply sb_simple_time. cbn [cls]. unfold cls_times. rewrite E1, E2. reflexivity.
Qed.

(* CustomData *)
Lemma ed_cditem kv : ed K_item (dump_cditem kv).
Proof.
  unfold dump_cditem. apply (ed_wrap K_item).
  apply sd_seq; [apply sd_pure; apply sb_simple_leaf; reflexivity|].
  apply sd_seq.
  - destruct (cd_value (snd kv)) as [v|]; cbn [dopt]; [apply sd_value; reflexivity|apply sd_pure, sb_nil].
  - apply sd_pure. apply sb_simple_opt_time. reflexivity.
Qed.
Lemma ed_custom_data c : ed K_cdata (dump_custom_data c).
Proof.
  unfold dump_custom_data. apply (ed_wrap K_cdata). apply sd_map. intro kv.
  apply (sd_sub K_cdata K_item); [reflexivity|apply ed_cditem].
Qed.

(* AutoType *)
Lemma se_assoc a : var (SElem K_assoc) (dump_assoc a) (dump_assoc a).
Proof.
  rewrite dump_assoc_shape. apply (se_elem K_assoc). apply sb_app; apply sb_simple_opt_leaf; reflexivity.
Qed.
Lemma se_autotype a : var (SElem K_autotype) (dump_autotype a) (dump_autotype a).
Proof.
  rewrite dump_autotype_shape. apply (se_elem K_autotype).
  apply sb_app; [apply sb_simple_leaf; reflexivity|]. apply sb_app; [apply sb_simple_opt_leaf; reflexivity|].
  apply sb_concat. intro x. apply (sb_sub K_autotype K_assoc); [reflexivity|apply se_assoc].
Qed.

(* String *)
Lemma ed_field kv : ed K_string (dump_field kv).
Proof.
  unfold dump_field. apply (ed_wrap K_string).
  apply sd_seq; [apply sd_pure; apply sb_simple_leaf; reflexivity|apply sd_value; reflexivity].
Qed.

(* Entry *)
Lemma sb_entry_tail icon cicon fg bg url qc : structured K_entry (entry_tail icon cicon fg bg url qc).
Proof. unfold entry_tail. repeat apply sb_app; apply sb_simple_opt_leaf; reflexivity. Qed.

(* the children of an Entry element: UUID and Tags in front, the rest behind *)
Definition entry_front (uuid : bytes) (tags : list bytes) : list ev :=
  simple s_UUID (fmt_uuid uuid) ++ simple s_Tags (join_tags tags).
Definition entry_back (fields : list (bytes * value)) (aty : option autotype) (tms : times) (cd : custom_data)
           (icon : option N) (cicon : option bytes) (fg bg : option color) (url : option bytes) (qc : option bool)
           (hist : option (list entry)) : dumper :=
  dseq (dmap dump_field fields)
  (dseq (dump_custom_data cd)
  (dseq (dpure (match aty with Some a => dump_autotype a | None => [] end
                ++ dump_times tms ++ entry_tail icon cicon fg bg url qc))
        (match hist with
         | Some h => wrap s_History (dmap dump_entry h)
         | None => dpure []
         end))).
Lemma dump_entry_split uuid fields aty tags tms cd icon cicon fg bg url qc hist :
  dump_entry (mkEntry uuid fields aty tags tms cd icon cicon fg bg url qc hist)
  = wrap s_Entry (dseq (dpure (entry_front uuid tags)) (entry_back fields aty tms cd icon cicon fg bg url qc hist)).
Proof. reflexivity. Qed.

Lemma sb_entry_front uuid tags : structured K_entry (entry_front uuid tags).
Proof. unfold entry_front. apply sb_app; apply sb_simple_leaf; reflexivity. Qed.
Lemma sd_entry_back_gen fields aty tms cd icon cicon fg bg url qc hist :
  hist_all (fun e => ed K_entry (dump_entry e)) hist ->
  sd K_entry (entry_back fields aty tms cd icon cicon fg bg url qc hist).
Proof.
  intro IH. unfold entry_back.
  apply sd_seq. { apply sd_map. intro kv. apply (sd_sub K_entry K_string); [reflexivity|apply ed_field]. }
  apply sd_seq. { apply (sd_sub K_entry K_cdata); [reflexivity|apply ed_custom_data]. }
  apply sd_seq.
  { apply sd_pure. apply sb_app.
    - destruct aty as [a|]; [|apply sb_nil]. apply (sb_sub K_entry K_autotype); [reflexivity|apply se_autotype].
    - apply sb_app; [|apply sb_entry_tail]. apply (sb_sub K_entry K_times); [reflexivity|apply se_times]. }
  destruct hist as [h|]; [|apply sd_pure, sb_nil].
  apply (sd_sub K_entry K_history); [reflexivity|]. apply (ed_wrap K_history).
  cbn [hist_all] in IH. induction IH as [|x r Hx _ IHr]; intro ks; [apply sb_nil|].
  rewrite devs_dmap_cons. apply sb_app; [|apply IHr]. apply (sb_sub K_history K_entry); [reflexivity|apply Hx].
Qed.

Lemma ed_entry e : ed K_entry (dump_entry e).
Proof.
  induction e as [uuid fields aty tags tms cd icon cicon fg bg url qc hist IH] using entry_ind'.
  rewrite dump_entry_split. apply (ed_wrap K_entry).
  apply sd_seq; [apply sd_pure, sb_entry_front|apply sd_entry_back_gen; exact IH].
Qed.
Lemma sd_entry_back fields aty tms cd icon cicon fg bg url qc hist :
  sd K_entry (entry_back fields aty tms cd icon cicon fg bg url qc hist).
Proof.
  apply sd_entry_back_gen. destruct hist as [h|]; [|exact I]. cbn [hist_all].
  apply Forall_forall. intros e _. apply ed_entry.
Qed.

(* Group *)
Definition group_front (uuid name : bytes) (notes : option bytes) (icon : option N) (cicon : option bytes) (tms : times)
           (cd : custom_data) (exp : bool) (das ea es ltve : option bytes) : dumper :=
  dseq (dpure (group_head name uuid notes icon cicon tms))
  (dseq (dump_custom_data cd) (dpure (group_mid exp das ea es ltve))).
Lemma sb_group_head name uuid notes icon cicon tms : structured K_group (group_head name uuid notes icon cicon tms).
Proof.
  unfold group_head.
  apply sb_app; [apply sb_simple_leaf; reflexivity|]. apply sb_app; [apply sb_simple_leaf; reflexivity|].
  apply sb_app; [apply sb_simple_opt_leaf; reflexivity|]. apply sb_app; [apply sb_simple_opt_leaf; reflexivity|].
  apply sb_app; [apply sb_simple_opt_leaf; reflexivity|].
  apply (sb_sub K_group K_times); [reflexivity|apply se_times].
Qed.
Lemma sb_group_mid exp das ea es ltve : structured K_group (group_mid exp das ea es ltve).
Proof.
  unfold group_mid.
  apply sb_app; [apply sb_simple_leaf; reflexivity|]. repeat apply sb_app; apply sb_simple_opt_leaf; reflexivity.
Qed.
Lemma sd_group_front uuid name notes icon cicon tms cd exp das ea es ltve :
  sd K_group (group_front uuid name notes icon cicon tms cd exp das ea es ltve).
Proof.
  unfold group_front. apply sd_seq; [apply sd_pure, sb_group_head|].
  apply sd_seq; [apply (sd_sub K_group K_cdata); [reflexivity|apply ed_custom_data]|apply sd_pure, sb_group_mid].
Qed.

Lemma ed_group g : ed K_group (dump_group g).
Proof.
  induction g as [uuid name notes icon cicon children tms cd exp das ea es ltve IH] using group_ind'.
  cbn [dump_group]. apply (ed_wrap K_group).
  apply sd_seq; [apply sd_pure, sb_group_head|].
  apply sd_seq; [apply (sd_sub K_group K_cdata); [reflexivity|apply ed_custom_data]|].
  apply sd_seq; [apply sd_pure, sb_group_mid|].
  induction IH as [|c r Hc _ IHr]; intro ks; [apply sb_nil|].
  rewrite devs_dmap_cons. apply sb_app; [|apply IHr].
  destruct c as [e|g'].
  - apply (sb_sub K_group K_entry); [reflexivity|apply ed_entry].
  - apply (sb_sub K_group K_group); [reflexivity|apply Hc].
Qed.

(* Meta *)
Lemma se_memprot m : var (SElem K_memprot) (dump_memprot m) (dump_memprot m).
Proof. rewrite dump_memprot_shape. apply (se_elem K_memprot). repeat apply sb_app; apply sb_simple_leaf; reflexivity. Qed.
Lemma se_icon i : var (SElem K_icon) (dump_icon i) (dump_icon i).
Proof. rewrite dump_icon_shape. apply (se_elem K_icon). apply sb_app; apply sb_simple_leaf; reflexivity. Qed.
Lemma se_icons l : var (SElem K_icons) (dump_icons l) (dump_icons l).
Proof.
  unfold dump_icons. apply (se_elem K_icons). apply sb_concat. intro i.
  apply (sb_sub K_icons K_icon); [reflexivity|apply se_icon].
Qed.
Lemma se_delobj o : var (SElem K_delobj) (dump_delobj o) (dump_delobj o).
Proof.
  rewrite dump_delobj_shape. apply (se_elem K_delobj).
  apply sb_app; [apply sb_simple_leaf; reflexivity|apply sb_simple_time; reflexivity].
Qed.
Lemma se_deleted l : var (SElem K_deleted) (dump_deleted l) (dump_deleted l).
Proof.
  unfold dump_deleted. apply (se_elem K_deleted). apply sb_concat. intro o.
  apply (sb_sub K_deleted K_delobj); [reflexivity|apply se_delobj].
Qed.

Section gz.
  Variable gzip : bytes -> bytes.

  Lemma dump_binary_shape b :
    dump_binary gzip b = shape s_Binary (binary_attrs b)
      (if ws_only (b64_encode (binary_wire gzip b)) then None else Some (b64_encode (binary_wire gzip b))).
  Proof. unfold dump_binary, emit_chars. destruct (ws_only _); reflexivity. Qed.
  Lemma se_binaries l : var (SElem K_binaries) (dump_binaries gzip l) (dump_binaries gzip l).
  Proof.
    unfold dump_binaries. apply (se_elem K_binaries). apply sb_concat. intro b. rewrite dump_binary_shape.
    apply sb_child. apply v_mbin; [reflexivity|apply same_bin_attrs_refl].
  Qed.

  Lemma sb_meta_head m : structured K_meta (meta_head gzip m).
  Proof.
    unfold meta_head.
    repeat (apply sb_app;
            [first [ apply sb_simple_opt_leaf; reflexivity | apply sb_simple_opt_time; reflexivity
                   | destruct (m_memory_protection m); [apply (sb_sub K_meta K_memprot); [reflexivity|apply se_memprot]|apply sb_nil]
                   | apply (sb_sub K_meta K_icons); [reflexivity|apply se_icons] ]|]).
    apply (sb_sub K_meta K_binaries); [reflexivity|apply se_binaries].
  Qed.
  Lemma ed_meta m : ed K_meta (dump_meta gzip m).
  Proof.
    unfold dump_meta. apply (ed_wrap K_meta). apply sd_seq; [apply sd_pure, sb_meta_head|].
    apply (sd_sub K_meta K_cdata); [reflexivity|apply ed_custom_data].
  Qed.

  Lemma ed_root c : ed K_root (dump_root c).
  Proof.
    unfold dump_root. apply (ed_wrap K_root).
    apply sd_seq; [apply (sd_sub K_root K_group); [reflexivity|apply ed_group]|].
    apply sd_pure. apply (sb_sub K_root K_deleted); [reflexivity|apply se_deleted].
  Qed.
  Lemma ed_content c : ed K_file (dump_content gzip c).
  Proof.
    unfold dump_content. apply (ed_wrap K_file).
    apply sd_seq; [apply (sd_sub K_file K_meta); [reflexivity|apply ed_meta]|].
    apply (sd_sub K_file K_root); [reflexivity|]. apply (ed_root c).
  Qed.

  (* every dumped document is structured *)
  Theorem dump_structured c ks : var (SElem K_file) (dump_events gzip c ks) (dump_events gzip c ks).
  Proof. apply ed_content. Qed.
End gz.

(* Key-stream alignment of the writer: the protected values draw consecutive, disjoint slices of the
   inner stream in document order.  (The reader draws the same slices: every round-trip lemma of
   XmlRoundTrip.v states that a sub-parser leaves the stream where the corresponding dumper left it.) *)
From Coq Require Import Lia.
From KP Require Import Bytes Outcome LE LEFacts Utf8 Base64 Scalars XmlTypes XmlDump XmlSpec XmlCodecProofs.

(* ------------------------------------------------------------------------------------------ *)
(* dumper algebra *)
Definition devs (d : dumper) (ks : bytes) : list ev := fst (d ks).
Definition dks (d : dumper) (ks : bytes) : bytes := snd (d ks).

Lemma devs_dpure e ks : devs (dpure e) ks = e. Proof. reflexivity. Qed.
Lemma dks_dpure e ks : dks (dpure e) ks = ks. Proof. reflexivity. Qed.
Lemma devs_dseq a b ks : devs (dseq a b) ks = devs a ks ++ devs b (dks a ks).
Proof. unfold devs, dks, dseq. destruct (a ks) as [x k1]. cbn [fst snd]. destruct (b k1) as [y k2]. reflexivity. Qed.
Lemma dks_dseq a b ks : dks (dseq a b) ks = dks b (dks a ks).
Proof. unfold devs, dks, dseq. destruct (a ks) as [x k1]. cbn [fst snd]. destruct (b k1) as [y k2]. reflexivity. Qed.
Lemma devs_wrap n d ks : devs (wrap n d) ks = EStart n [] :: devs d ks ++ [EEnd n].
Proof. unfold wrap. rewrite !devs_dseq, !devs_dpure, !dks_dpure. reflexivity. Qed.
Lemma dks_wrap n d ks : dks (wrap n d) ks = dks d ks.
Proof. unfold wrap. rewrite !dks_dseq, !dks_dpure. reflexivity. Qed.
Lemma devs_dmap_cons {A} (f : A -> dumper) x r ks : devs (dmap f (x :: r)) ks = devs (f x) ks ++ devs (dmap f r) (dks (f x) ks).
Proof. cbn [dmap]. apply devs_dseq. Qed.
Lemma dks_dmap_cons {A} (f : A -> dumper) x r ks : dks (dmap f (x :: r)) ks = dks (dmap f r) (dks (f x) ks).
Proof. cbn [dmap]. apply dks_dseq. Qed.
Lemma devs_dopt_some {A} (f : A -> dumper) x ks : devs (dopt f (Some x)) ks = devs (f x) ks. Proof. reflexivity. Qed.

(* ------------------------------------------------------------------------------------------ *)
Lemma total_length_app a b : total_length (a ++ b) = total_length a + total_length b.
Proof. induction a as [|x r IH]; [reflexivity|]. unfold total_length in *. cbn [app fold_right]. rewrite IH. lia. Qed.
Lemma drop_0 (l : bytes) : drop 0 l = l. Proof. destruct l; reflexivity. Qed.

(* a dumper advances the stream by [n] *)
Definition advances (d : dumper) (n : nat) : Prop := forall ks, dks d ks = drop n ks.

Lemma adv_pure e : advances (dpure e) 0. Proof. intro ks. rewrite dks_dpure, drop_0. reflexivity. Qed.
Lemma adv_seq a b n m : advances a n -> advances b m -> advances (dseq a b) (n + m).
Proof. intros Ha Hb ks. rewrite dks_dseq, Ha, Hb, drop_drop. reflexivity. Qed.
Lemma adv_wrap name d n : advances d n -> advances (wrap name d) n.
Proof. intros H ks. rewrite dks_wrap. apply H. Qed.
Lemma adv_map {A} (f : A -> dumper) (pv : A -> list bytes) l :
  Forall (fun x => advances (f x) (total_length (pv x))) l -> advances (dmap f l) (total_length (flat_map pv l)).
Proof.
  induction 1 as [|x r Hx _ IH]; [apply adv_pure|].
  cbn [dmap flat_map]. rewrite total_length_app. apply adv_seq; assumption.
Qed.

Lemma adv_value v : advances (dump_value v) (total_length (pv_value v)).
Proof.
  destruct v as [t|p|b]; intro ks.
  - unfold dks, total_length. cbn [dump_value dpure snd pv_value fold_right]. symmetry. apply drop_0.
  - unfold dks, total_length. cbn [dump_value snd pv_value fold_right]. rewrite Nat.add_0_r. reflexivity.
  - unfold dks, total_length. cbn [dump_value dpure snd pv_value fold_right]. symmetry. apply drop_0.
Qed.

Lemma adv_cditem kv : advances (dump_cditem kv) (total_length (match cd_value (snd kv) with Some v => pv_value v | None => [] end)).
Proof.
  unfold dump_cditem. apply adv_wrap.
  replace (total_length _) with (0 + (total_length (match cd_value (snd kv) with Some v => pv_value v | None => [] end) + 0)) by lia.
  apply adv_seq; [apply adv_pure|]. apply adv_seq; [|apply adv_pure].
  destruct (cd_value (snd kv)) as [v|]; [apply adv_value|apply adv_pure].
Qed.
Lemma adv_custom_data c : advances (dump_custom_data c) (total_length (pv_cd c)).
Proof. unfold dump_custom_data, pv_cd. apply adv_wrap. apply adv_map. apply Forall_forall. intros kv _. apply adv_cditem. Qed.
Lemma adv_field kv : advances (dump_field kv) (total_length (pv_value (snd kv))).
Proof. unfold dump_field. apply adv_wrap. change (total_length _) with (0 + total_length (pv_value (snd kv))). apply adv_seq; [apply adv_pure|apply adv_value]. Qed.

(* ------------------------------------------------------------------------------------------ *)
(* induction principles for the nested types *)
Definition hist_all (P : entry -> Prop) (hist : option (list entry)) : Prop :=
  match hist with Some h => Forall P h | None => True end.
Section entry_ind.
  Variable P : entry -> Prop.
  Hypothesis H : forall uuid fields aty tags tms cd icon cicon fg bg url qc hist,
      hist_all P hist ->
      P (mkEntry uuid fields aty tags tms cd icon cicon fg bg url qc hist).
  Fixpoint entry_ind' (e : entry) : P e :=
    match e with
    | mkEntry uuid fields aty tags tms cd icon cicon fg bg url qc hist =>
      H uuid fields aty tags tms cd icon cicon fg bg url qc hist
        (match hist as h0 return hist_all P h0 with
         | Some h => (fix go (l : list entry) : Forall P l :=
                        match l with
                        | [] => Forall_nil P
                        | x :: r => Forall_cons x (entry_ind' x) (go r)
                        end) h
         | None => I
         end)
    end.
End entry_ind.

Section group_ind.
  Variable P : group -> Prop.
  Hypothesis H : forall uuid name notes icon cicon children tms cd exp das ea es ltve,
      Forall (fun c => match c with inl _ => True | inr g => P g end) children ->
      P (mkGroup uuid name notes icon cicon children tms cd exp das ea es ltve).
  Fixpoint group_ind' (g : group) : P g :=
    match g with
    | mkGroup uuid name notes icon cicon children tms cd exp das ea es ltve =>
      H uuid name notes icon cicon children tms cd exp das ea es ltve
        ((fix go (l : list (entry + group)) : Forall (fun c => match c with inl _ => True | inr g => P g end) l :=
            match l with
            | [] => Forall_nil _
            | inl e :: r => Forall_cons (inl e) I (go r)
            | inr g' :: r => Forall_cons (inr g') (group_ind' g') (go r)
            end) children)
    end.
End group_ind.

(* the local fixpoints of the definitions over entries / nodes, as list functions *)
Lemma pv_hist_flat h :
  (fix go (l : list entry) : list bytes := match l with [] => [] | x :: r => pv_entry x ++ go r end) h = flat_map pv_entry h.
Proof. induction h as [|x r IH]; [reflexivity|]. cbn [flat_map]. rewrite <- IH. reflexivity. Qed.
Definition pv_node (c : entry + group) : list bytes := match c with inl e => pv_entry e | inr g => pv_group g end.
Lemma pv_children_flat l :
  (fix go (l : list (entry + group)) : list bytes :=
     match l with [] => [] | inl e :: r => pv_entry e ++ go r | inr g' :: r => pv_group g' ++ go r end) l
  = flat_map pv_node l.
Proof. induction l as [|[e|g] r IH]; [reflexivity| |]; cbn [flat_map pv_node]; rewrite <- IH; reflexivity. Qed.

Lemma pv_entry_eq uuid fields aty tags tms cd icon cicon fg bg url qc hist :
  pv_entry (mkEntry uuid fields aty tags tms cd icon cicon fg bg url qc hist)
  = flat_map (fun kv => pv_value (snd kv)) fields ++ pv_cd cd
    ++ match hist with Some h => flat_map pv_entry h | None => [] end.
Proof. cbn [pv_entry]. destruct hist as [h|]; [rewrite pv_hist_flat|]; reflexivity. Qed.
Lemma pv_group_eq uuid name notes icon cicon children tms cd exp das ea es ltve :
  pv_group (mkGroup uuid name notes icon cicon children tms cd exp das ea es ltve)
  = pv_cd cd ++ flat_map pv_node children.
Proof. cbn [pv_group]. rewrite pv_children_flat. reflexivity. Qed.

Lemma adv_entry e : advances (dump_entry e) (total_length (pv_entry e)).
Proof.
  induction e as [uuid fields aty tags tms cd icon cicon fg bg url qc hist IH] using entry_ind'.
  rewrite pv_entry_eq, !total_length_app. cbn [dump_entry]. apply adv_wrap.
  replace (_ + _) with (0 + (total_length (flat_map (fun kv => pv_value (snd kv)) fields)
     + (total_length (pv_cd cd) + (0 + total_length (match hist with Some h => flat_map pv_entry h | None => [] end))))) by lia.
  apply adv_seq; [apply adv_pure|]. apply adv_seq.
  { apply adv_map. apply Forall_forall. intros kv _. apply adv_field. }
  apply adv_seq; [apply adv_custom_data|]. apply adv_seq; [apply adv_pure|].
  destruct hist as [h|]; [|apply adv_pure]. apply adv_wrap. apply adv_map. exact IH.
Qed.

Lemma adv_group g : advances (dump_group g) (total_length (pv_group g)).
Proof.
  induction g as [uuid name notes icon cicon children tms cd exp das ea es ltve IH] using group_ind'.
  rewrite pv_group_eq, !total_length_app. cbn [dump_group]. apply adv_wrap.
  replace (_ + _) with (0 + (total_length (pv_cd cd) + (0 + total_length (flat_map pv_node children)))) by lia.
  apply adv_seq; [apply adv_pure|]. apply adv_seq; [apply adv_custom_data|]. apply adv_seq; [apply adv_pure|].
  apply (adv_map _ pv_node). apply Forall_forall. intros c Hc. rewrite Forall_forall in IH. specialize (IH c Hc).
  destruct c as [e|g']; [apply adv_entry|exact IH].
Qed.

(* Alignment, writer side: the dump draws exactly the total length of the protected values ... *)
Theorem dump_consumes gzip c ks :
  dump_stream_after gzip c ks = drop (total_length (protected_values_in_order c)) ks.
Proof.
  unfold dump_stream_after, dump_content, protected_values_in_order. change (snd (?d ks)) with (dks d ks).
  rewrite total_length_app.
  assert (A : advances (wrap s_KeePassFile (dseq (dump_meta gzip (c_meta c))
              (wrap s_Root (dseq (dump_group (c_root c)) (dpure (dump_deleted (c_deleted c)))))))
              (total_length (pv_cd (m_custom_data (c_meta c))) + total_length (pv_group (c_root c)))).
  { apply adv_wrap. apply adv_seq.
    - unfold dump_meta. apply adv_wrap. change (total_length _) with (0 + total_length (pv_cd (m_custom_data (c_meta c)))).
      apply adv_seq; [apply adv_pure|apply adv_custom_data].
    - apply adv_wrap. replace (total_length _) with (total_length (pv_group (c_root c)) + 0) by lia.
      apply adv_seq; [apply adv_group|apply adv_pure]. }
  apply A.
Qed.

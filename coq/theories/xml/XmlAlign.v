(* Key-stream alignment, writer side, value by value: the texts of the protected <Value> elements of
   the dumped document, in document order, are the base64 of the protected values XORed with
   consecutive slices of the stream - value i uses the slice that starts at the sum of the lengths of
   the values before it. *)
From Coq Require Import Lia.
From KP Require Import Bytes Outcome LE LEFacts Utf8 Base64 Base64Proofs Scalars XmlTypes XmlDump XmlSpec
  XmlCodecProofs XmlStream XmlRoundTrip.

(* the texts of the elements <Value Protected="True">, in document order ([] for an empty element) *)
Definition is_prot_start (e : ev) : bool :=
  match e with
  | EStart n attrs =>
    bytes_eqb n s_Value && match attr_get s_Protected attrs with Some v => bytes_eqb v s_True | None => false end
  | _ => false
  end.
Fixpoint prot_texts (evs : list ev) : list bytes :=
  match evs with
  | [] => []
  | e :: r => if is_prot_start e
              then match r with EChars t :: _ => t | _ => [] end :: prot_texts r
              else prot_texts r
  end.

(* the cipher texts: value i is XORed with the stream from offset (sum of the lengths before it) *)
Fixpoint enc_stream (l : list bytes) (ks : bytes) : list bytes :=
  match l with
  | [] => []
  | p :: r => xor_ks p ks :: enc_stream r (drop (length p) ks)
  end.

Lemma enc_stream_app a b ks : enc_stream (a ++ b) ks = enc_stream a ks ++ enc_stream b (drop (total_length a) ks).
Proof.
  revert ks. induction a as [|p r IH]; intro ks.
  - cbn [app enc_stream total_length fold_right]. rewrite drop_0. reflexivity.
  - cbn [app enc_stream]. rewrite IH, drop_drop. reflexivity.
Qed.

(* slices: the i-th cipher text uses the stream from offset total_length (firstn i l) on, and only its
   first length p_i bytes (xor_ks reads no further), so the slices are disjoint and contiguous *)
Theorem enc_stream_nth l ks i p :
  nth_error l i = Some p ->
  nth_error (enc_stream l ks) i = Some (xor_ks p (drop (total_length (firstn i l)) ks)).
Proof.
  revert l ks. induction i as [|i IH]; intros [|q r] ks H; try discriminate.
  - cbn in H. inversion H; subst. cbn [enc_stream nth_error firstn total_length fold_right]. rewrite drop_0. reflexivity.
  - cbn [nth_error] in H. cbn [enc_stream nth_error firstn]. rewrite (IH r _ H).
    unfold total_length. cbn [fold_right]. rewrite drop_drop. reflexivity.
Qed.
Lemma xor_ks_prefix p ks : xor_ks p ks = xor_ks p (take (length p) ks).
Proof.
  revert ks. induction p as [|d r IH]; intro ks; [reflexivity|].
  destruct ks as [|k kr]; cbn [xor_ks length take]; [reflexivity|]. rewrite <- IH. reflexivity.
Qed.

(* events without protected values *)
Definition plain_ev (e : ev) : bool :=
  match e with EStart n attrs => is_nil attrs || negb (bytes_eqb n s_Value) | _ => true end.
Definition plain (evs : list ev) : bool := forallb plain_ev evs.

Lemma plain_not_prot e : plain_ev e = true -> is_prot_start e = false.
Proof.
  destruct e as [n attrs|n|t|]; try reflexivity. cbn [plain_ev is_prot_start]. intro H.
  apply orb_true_iff in H. destruct H as [H|H].
  - destruct attrs; [|discriminate]. cbn [attr_get]. apply andb_false_r.
  - apply negb_true_iff in H. rewrite H. reflexivity.
Qed.
Lemma prot_texts_plain a b : plain a = true -> prot_texts (a ++ b) = prot_texts b.
Proof.
  induction a as [|e r IH]; intro H; [reflexivity|].
  cbn [plain forallb] in H. apply andb_true_iff in H. destruct H as [He Hr].
  cbn [app prot_texts]. rewrite (plain_not_prot e He). apply IH. exact Hr.
Qed.
Lemma plain_app a b : plain (a ++ b) = plain a && plain b.
Proof. apply forallb_app. Qed.
Lemma plain_concat {A} (f : A -> list ev) l : (forall x, plain (f x) = true) -> plain (concat (map f l)) = true.
Proof. intro H. induction l as [|x r IH]; [reflexivity|]. cbn [map concat]. rewrite plain_app, H, IH. reflexivity. Qed.
Lemma plain_emit t : plain (emit_chars t) = true.
Proof. unfold emit_chars. destruct (ws_only t); reflexivity. Qed.
Lemma plain_simple n t : plain (simple n t) = true.
Proof.
  unfold simple, plain. cbn [forallb plain_ev is_nil orb andb]. rewrite forallb_app.
  change (forallb plain_ev (emit_chars t)) with (plain (emit_chars t)). rewrite plain_emit. reflexivity.
Qed.
Lemma plain_simple_opt {A} n (fmt : A -> bytes) o : plain (simple_opt n fmt o) = true.
Proof. destruct o; [apply plain_simple|reflexivity]. Qed.

Ltac plain_tac :=
  repeat first [ rewrite plain_app | rewrite plain_simple | rewrite plain_simple_opt | rewrite plain_emit ];
  try reflexivity.

Lemma plain_times t : plain (dump_times t) = true.
Proof.
  unfold dump_times. change (EStart s_Times [] :: ?x) with ([EStart s_Times []] ++ x). plain_tac.
  rewrite plain_concat; [reflexivity|]. intros [k v]. apply plain_simple.
Qed.
Lemma plain_assoc a : plain (dump_assoc a) = true.
Proof. unfold dump_assoc. change (EStart s_Association [] :: ?x) with ([EStart s_Association []] ++ x). plain_tac. Qed.
Lemma plain_autotype a : plain (dump_autotype a) = true.
Proof.
  unfold dump_autotype. change (EStart s_AutoType [] :: ?x) with ([EStart s_AutoType []] ++ x). plain_tac.
  rewrite plain_concat; [reflexivity|]. apply plain_assoc.
Qed.
Lemma plain_memprot m : plain (dump_memprot m) = true.
Proof. unfold dump_memprot. change (EStart s_MemoryProtection [] :: ?x) with ([EStart s_MemoryProtection []] ++ x). plain_tac. Qed.
Lemma plain_icons l : plain (dump_icons l) = true.
Proof.
  unfold dump_icons. change (EStart s_CustomIcons [] :: ?x) with ([EStart s_CustomIcons []] ++ x). plain_tac.
  rewrite plain_concat; [reflexivity|]. intro i. unfold dump_icon.
  change (EStart s_Icon [] :: ?x) with ([EStart s_Icon []] ++ x). plain_tac.
Qed.
Lemma plain_binaries gz l : plain (dump_binaries gz l) = true.
Proof.
  unfold dump_binaries. change (EStart s_Binaries [] :: ?x) with ([EStart s_Binaries []] ++ x). plain_tac.
  rewrite plain_concat; [reflexivity|]. intro b. unfold dump_binary.
  change (EStart s_Binary ?a :: ?x) with ([EStart s_Binary a] ++ x). plain_tac.
  cbn [plain forallb plain_ev]. change (bytes_eqb s_Binary s_Value) with false. rewrite orb_true_r. reflexivity.
Qed.
Lemma plain_deleted l : plain (dump_deleted l) = true.
Proof.
  unfold dump_deleted. change (EStart s_DeletedObjects [] :: ?x) with ([EStart s_DeletedObjects []] ++ x). plain_tac.
  rewrite plain_concat; [reflexivity|]. intro o. unfold dump_delobj.
  change (EStart s_DeletedObject [] :: ?x) with ([EStart s_DeletedObject []] ++ x). plain_tac.
Qed.
Lemma plain_opt {A} (f : A -> list ev) (o : option A) :
  (forall x, plain (f x) = true) -> plain (match o with Some x => f x | None => [] end) = true.
Proof. intro H. destruct o; [apply H|reflexivity]. Qed.

(* a dumper whose protected texts are the encryption of [l] *)
Definition ptexts (d : dumper) (l : list bytes) : Prop :=
  forall ks b, bytes_ok ks = true ->
    prot_texts (devs d ks ++ b) = map b64_encode (enc_stream l ks) ++ prot_texts b.

Lemma pt_pure e : plain e = true -> ptexts (dpure e) [].
Proof. intros H ks b _. rewrite devs_dpure. apply prot_texts_plain. exact H. Qed.
Lemma pt_seq a b l1 l2 :
  ptexts a l1 -> advances a (total_length l1) -> ptexts b l2 -> ptexts (dseq a b) (l1 ++ l2).
Proof.
  intros Pa Aa Pb ks t Hks. rewrite devs_dseq, <- app_assoc, (Pa ks _ Hks), Aa.
  rewrite (Pb _ t (bytes_ok_drop _ _ Hks)), enc_stream_app, map_app, <- app_assoc. reflexivity.
Qed.
Lemma pt_wrap name d l : ptexts d l -> ptexts (wrap name d) l.
Proof.
  intros P ks b Hks. rewrite devs_wrap. cbn [app prot_texts is_prot_start attr_get]. rewrite andb_false_r.
  rewrite <- app_assoc, (P ks _ Hks). reflexivity.
Qed.
Lemma pt_map {A} (f : A -> dumper) (pv : A -> list bytes) l :
  Forall (fun x => ptexts (f x) (pv x) /\ advances (f x) (total_length (pv x))) l ->
  ptexts (dmap f l) (flat_map pv l).
Proof.
  induction 1 as [|x r [Hx Ax] _ IH]; [apply pt_pure; reflexivity|].
  cbn [dmap flat_map]. apply pt_seq; assumption.
Qed.

Lemma pt_value v : wf_value v = true -> ptexts (dump_value v) (pv_value v).
Proof.
  intros Hwf ks b Hks. destruct v as [t|p|x]; cbn [wf_value] in Hwf; [| |discriminate].
  - unfold devs. cbn [dump_value dpure fst pv_value enc_stream map app]. apply prot_texts_plain. apply plain_simple.
  - unfold devs. cbn [dump_value fst pv_value enc_stream map app].
    cbn [prot_texts is_prot_start]. change (bytes_eqb s_Value s_Value && _) with true. cbv iota.
    pose proof (utf8_valid_bytes_ok p Hwf) as Hp.
    destruct p as [|c r].
    + cbn. reflexivity.
    + assert (Hx : ws_only (b64_encode (xor_ks (c :: r) ks)) = false).
      { apply b64_encode_not_ws; [apply xor_ks_ok; assumption|]. intro E. apply xor_ks_nil_iff in E. discriminate. }
      unfold emit_chars. rewrite Hx. cbn [app prot_texts is_prot_start]. reflexivity.
Qed.

Lemma pt_cditem kv : wf_cditem kv = true ->
  ptexts (dump_cditem kv) (match cd_value (snd kv) with Some v => pv_value v | None => [] end).
Proof.
  intro Hwf. unfold wf_cditem in Hwf. apply andb_true_iff in Hwf. destruct Hwf as [Hwf _].
  apply andb_true_iff in Hwf. destruct Hwf as [_ Hv].
  unfold dump_cditem. apply pt_wrap.
  change (match cd_value (snd kv) with Some v => pv_value v | None => [] end)
    with ([] ++ (match cd_value (snd kv) with Some v => pv_value v | None => [] end)).
  apply pt_seq; [apply pt_pure, plain_simple|apply adv_pure|].
  rewrite <- (app_nil_r (match cd_value (snd kv) with Some v => pv_value v | None => [] end)).
  apply pt_seq.
  - destruct (cd_value (snd kv)) as [v|]; [apply pt_value; exact Hv|apply pt_pure; reflexivity].
  - destruct (cd_value (snd kv)) as [v|]; [apply adv_value|apply adv_pure].
  - apply pt_pure. apply plain_simple_opt.
Qed.
Lemma pt_custom_data c : wf_custom_data c = true -> ptexts (dump_custom_data c) (pv_cd c).
Proof.
  intro Hwf. unfold wf_custom_data in Hwf. apply andb_true_iff in Hwf. destruct Hwf as [_ Hwf].
  unfold dump_custom_data, pv_cd. apply pt_wrap. apply pt_map. apply Forall_forall. intros kv Hin.
  rewrite forallb_forall in Hwf. split; [apply pt_cditem; exact (Hwf kv Hin)|apply adv_cditem].
Qed.
Lemma pt_field kv : wf_field kv = true -> ptexts (dump_field kv) (pv_value (snd kv)).
Proof.
  intro Hwf. unfold wf_field in Hwf. apply andb_true_iff in Hwf. destruct Hwf as [_ Hv].
  unfold dump_field. apply pt_wrap. change (pv_value (snd kv)) with ([] ++ pv_value (snd kv)).
  apply pt_seq; [apply pt_pure, plain_simple|apply adv_pure|]. apply pt_value. apply wf_field_value_wf.
  exact Hv.
Qed.

Lemma plain_entry_tail icon cicon fg bg url qc : plain (entry_tail icon cicon fg bg url qc) = true.
Proof. unfold entry_tail. plain_tac. Qed.

Lemma pt_entry : forall e, wf_entry e = true -> ptexts (dump_entry e) (pv_entry e).
Proof.
  induction e as [uuid fields aty tags tms cd icon cicon fg bg url qc hist IH] using entry_ind'.
  intro Hwf. cbn [wf_entry] in Hwf.
  rewrite (match hist as h0 return (match h0 with Some h => _ h | None => true end = match h0 with Some h => forallb wf_entry h | None => true end) with Some h => wf_hist_forallb h | None => eq_refl end) in Hwf.
  split_and Hwf.
  rewrite pv_entry_eq. cbn [dump_entry]. apply pt_wrap.
  change (flat_map (fun kv => pv_value (snd kv)) fields ++ pv_cd cd ++ match hist with Some h => flat_map pv_entry h | None => [] end)
    with ([] ++ flat_map (fun kv => pv_value (snd kv)) fields ++ pv_cd cd ++ [] ++ match hist with Some h => flat_map pv_entry h | None => [] end).
  apply pt_seq; [apply pt_pure; plain_tac|apply adv_pure|].
  apply pt_seq.
  { apply pt_map. apply Forall_forall. intros kv Hin. rewrite forallb_forall in Hwf10.
    split; [apply pt_field; exact (Hwf10 kv Hin)|apply adv_field]. }
  { apply (adv_map dump_field (fun kv => pv_value (snd kv))). apply Forall_forall. intros kv _. apply adv_field. }
  apply pt_seq; [apply pt_custom_data; exact Hwf6|apply adv_custom_data|].
  apply pt_seq.
  { apply pt_pure. plain_tac. rewrite (plain_opt dump_autotype aty plain_autotype), plain_times, plain_entry_tail. reflexivity. }
  { apply adv_pure. }
  destruct hist as [h|]; [|apply pt_pure; reflexivity].
  apply pt_wrap. apply pt_map. cbn [hist_all] in IH. apply Forall_forall. intros x Hin.
  rewrite Forall_forall in IH. rewrite forallb_forall in Hwf0.
  split; [apply (IH x Hin); exact (Hwf0 x Hin)|apply adv_entry].
Qed.

Lemma pt_group : forall g, wf_group g = true -> ptexts (dump_group g) (pv_group g).
Proof.
  induction g as [uuid name notes icon cicon children tms cd exp das ea es ltve IH] using group_ind'.
  intro Hwf. cbn [wf_group] in Hwf. rewrite wf_children_forallb in Hwf. split_and Hwf.
  rewrite pv_group_eq. cbn [dump_group]. apply pt_wrap.
  change (pv_cd cd ++ flat_map pv_node children) with ([] ++ pv_cd cd ++ [] ++ flat_map pv_node children).
  apply pt_seq; [apply pt_pure; unfold group_head; plain_tac; apply plain_times|apply adv_pure|].
  apply pt_seq; [apply pt_custom_data; exact Hwf5|apply adv_custom_data|].
  apply pt_seq; [apply pt_pure; unfold group_mid; plain_tac|apply adv_pure|].
  apply (pt_map _ pv_node). apply Forall_forall. intros c Hin. rewrite Forall_forall in IH. rewrite forallb_forall in Hwf0.
  pose proof (Hwf0 c Hin) as Hc. specialize (IH c Hin). destruct c as [e|x]; cbn [wf_node pv_node] in *.
  - split; [apply pt_entry; exact Hc|apply adv_entry].
  - split; [apply IH; exact Hc|apply adv_group].
Qed.

Lemma plain_meta_head gz m : plain (meta_head gz m) = true.
Proof.
  unfold meta_head. plain_tac.
  rewrite (plain_opt dump_memprot (m_memory_protection m) plain_memprot), plain_icons. plain_tac. apply plain_binaries.
Qed.

(* Alignment, writer side, value by value *)
Theorem dump_protected_texts gzip gunzip c ks :
  wf_content gzip gunzip c = true -> bytes_ok ks = true ->
  prot_texts (dump_events gzip c ks) = map b64_encode (enc_stream (protected_values_in_order c) ks).
Proof.
  intros Hwf Hks. unfold wf_content in Hwf. split_and Hwf. unfold wf_meta in Hwf. split_and Hwf.
  assert (P : ptexts (dump_content gzip c) (protected_values_in_order c)).
  { unfold dump_content, protected_values_in_order. apply pt_wrap. apply pt_seq.
    - unfold dump_meta. apply pt_wrap. change (pv_cd (m_custom_data (c_meta c))) with ([] ++ pv_cd (m_custom_data (c_meta c))).
      apply pt_seq; [apply pt_pure, plain_meta_head|apply adv_pure|apply pt_custom_data; assumption].
    - unfold dump_meta. apply adv_wrap. change (total_length _) with (0 + total_length (pv_cd (m_custom_data (c_meta c)))).
      apply adv_seq; [apply adv_pure|apply adv_custom_data].
    - apply pt_wrap. rewrite <- (app_nil_r (pv_group (c_root c))).
      apply pt_seq; [apply pt_group; assumption|apply adv_group|apply pt_pure, plain_deleted]. }
  unfold dump_events. change (fst (dump_content gzip c ks)) with (devs (dump_content gzip c) ks).
  rewrite <- (app_nil_r (devs (dump_content gzip c) ks)), (P ks [] Hks). cbn [prot_texts]. apply app_nil_r.
Qed.

Print Assumptions dump_protected_texts.
Print Assumptions enc_stream_nth.

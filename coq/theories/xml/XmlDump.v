(* The writer: src/xml_db/dump/{mod,entry,group,meta}.rs (impl DumpXml), as the sequence of events that
   parse_from_bytes delivers for the document the xml-rs writer produces from the calls.

   Writer-side details that are visible at this level:
   - SimpleTag writes <N>text</N>; for &str / &String with an empty text it writes no characters
     (normalize_empty_elements), and xml-rs writes an element without content as <N />.  On the reader
     side an element whose text is empty or consists of ' ' '\t' '\n' '\r' only yields NO Characters
     event (xml-rs reports Whitespace, which parse_from_bytes drops).  [emit_chars] is that rule; it
     is applied to every text the writer emits.
   - Protected values are written as <Value Protected="True">base64(plain XOR stream)</Value>, the
     stream being consumed in document order.
   - HashMap-typed fields (Entry.fields, CustomData.items, Times.times) are written in HashMap
     iteration order, which the code does not determine; here it is the order of the association list.
   - A Value::Bytes that is not UTF-8 makes the writer return an error ([dump_fails]); a UTF-8 one is
     written like an unprotected string.
   - GZip (BinaryAttachment.compressed) is a parameter. *)
From KP Require Import Bytes Outcome LE Utf8 Base64 Scalars XmlTypes.
Local Open Scope N_scope.

(* a piece of the document: consumes key stream, yields events and the rest of the stream *)
Definition dumper := bytes -> list ev * bytes.
Definition dpure (e : list ev) : dumper := fun ks => (e, ks).
Definition dseq (a b : dumper) : dumper :=
  fun ks => let (x, k1) := a ks in let (y, k2) := b k1 in (x ++ y, k2).
Section dmap.
  Context {A : Type} (f : A -> dumper).
  Fixpoint dmap (l : list A) : dumper :=
    match l with
    | [] => dpure []
    | x :: r => dseq (f x) (dmap r)
    end.
End dmap.
Definition dopt {A} (f : A -> dumper) (o : option A) : dumper :=
  match o with Some x => f x | None => dpure [] end.

Definition emit_chars (t : bytes) : list ev := if ws_only t then [] else [EChars t].
(* SimpleTag(name, text) *)
Definition simple (name text : bytes) : list ev := EStart name [] :: emit_chars text ++ [EEnd name].
Definition simple_opt {A} (name : bytes) (fmt : A -> bytes) (o : option A) : list ev :=
  match o with Some x => simple name (fmt x) | None => [] end.
Definition wrap (name : bytes) (d : dumper) : dumper :=
  dseq (dpure [EStart name []]) (dseq d (dpure [EEnd name])).

Definition fmt_uuid (u : bytes) : bytes := b64_encode u.
Definition fmt_id (t : bytes) : bytes := t.

(* impl DumpXml for Value *)
Definition dump_value (v : value) : dumper :=
  match v with
  | VUnprotected s => dpure (simple s_Value s)
  | VBytes b => dpure (simple s_Value b)
  | VProtected p =>
    fun ks => (EStart s_Value [(s_Protected, s_True)]
                 :: emit_chars (b64_encode (xor_ks p ks)) ++ [EEnd s_Value],
               drop (length p) ks)
  end.

(* impl DumpXml for Times *)
Definition dump_time_entry (kv : bytes * Z) : list ev := simple (fst kv) (fmt_time (snd kv)).
Definition dump_times (t : times) : list ev :=
  EStart s_Times [] :: concat (map dump_time_entry (t_times t))
    ++ simple s_Expires (fmt_bool (t_expires t))
    ++ simple s_UsageCount (fmt_N (t_usage t))
    ++ [EEnd s_Times].

(* impl DumpXml for CustomData / CustomDataItem *)
Definition dump_cditem (kv : bytes * cditem) : dumper :=
  wrap s_Item
    (dseq (dpure (simple s_Key (fst kv)))
          (dseq (dopt dump_value (cd_value (snd kv)))
                (dpure (simple_opt s_LastModificationTime fmt_time (cd_time (snd kv)))))).
Definition dump_custom_data (c : custom_data) : dumper := wrap s_CustomData (dmap dump_cditem c).

(* impl DumpXml for AutoType / AutoTypeAssociation *)
Definition dump_assoc (a : assoc) : list ev :=
  EStart s_Association [] :: simple_opt s_Window fmt_id (as_window a)
    ++ simple_opt s_KeystrokeSequence fmt_id (as_seq a) ++ [EEnd s_Association].
Definition dump_autotype (a : autotype) : list ev :=
  EStart s_AutoType [] :: simple s_Enabled (fmt_bool (at_enabled a))
    ++ simple_opt s_DefaultSequence fmt_id (at_seq a)
    ++ concat (map dump_assoc (at_assocs a)) ++ [EEnd s_AutoType].

Definition dump_field (kv : bytes * value) : dumper :=
  wrap s_String (dseq (dpure (simple s_Key (fst kv))) (dump_value (snd kv))).

(* the scalar children of an Entry after Times *)
Definition entry_tail (icon : option N) (cicon : option bytes) (fg bg : option color)
           (url : option bytes) (qc : option bool) : list ev :=
  simple_opt s_IconID fmt_N icon ++ simple_opt s_CustomIconUUID fmt_uuid cicon
  ++ simple_opt s_ForegroundColor fmt_color_c fg ++ simple_opt s_BackgroundColor fmt_color_c bg
  ++ simple_opt s_OverrideURL fmt_id url ++ simple_opt s_QualityCheck fmt_bool qc.

(* impl DumpXml for Entry / History *)
Fixpoint dump_entry (e : entry) : dumper :=
  match e with
  | mkEntry uuid fields aty tags tms cd icon cicon fg bg url qc hist =>
    wrap s_Entry
      (dseq (dpure (simple s_UUID (fmt_uuid uuid) ++ simple s_Tags (join_tags tags)))
      (dseq (dmap dump_field fields)
      (dseq (dump_custom_data cd)
      (dseq (dpure (match aty with Some a => dump_autotype a | None => [] end
                    ++ dump_times tms ++ entry_tail icon cicon fg bg url qc))
            (match hist with
             | Some h => wrap s_History (dmap dump_entry h)
             | None => dpure []
             end)))))
  end.

Definition group_head (name uuid : bytes) (notes : option bytes) (icon : option N) (cicon : option bytes)
           (tms : times) : list ev :=
  simple s_Name name ++ simple s_UUID (fmt_uuid uuid) ++ simple_opt s_Notes fmt_id notes
  ++ simple_opt s_IconID fmt_N icon ++ simple_opt s_CustomIconUUID fmt_uuid cicon ++ dump_times tms.
Definition group_mid (exp : bool) (das ea es ltve : option bytes) : list ev :=
  simple s_IsExpanded (fmt_bool exp) ++ simple_opt s_DefaultAutoTypeSequence fmt_id das
  ++ simple_opt s_EnableAutoType fmt_id ea ++ simple_opt s_EnableSearching fmt_id es
  ++ simple_opt s_LastTopVisibleEntry fmt_uuid ltve.

(* impl DumpXml for Group / Node *)
Fixpoint dump_group (g : group) : dumper :=
  match g with
  | mkGroup uuid name notes icon cicon children tms cd exp das ea es ltve =>
    wrap s_Group
      (dseq (dpure (group_head name uuid notes icon cicon tms))
      (dseq (dump_custom_data cd)
      (dseq (dpure (group_mid exp das ea es ltve))
            (dmap (fun c => match c with inl e => dump_entry e | inr g' => dump_group g' end) children))))
  end.
Definition dump_node (c : entry + group) : dumper :=
  match c with inl e => dump_entry e | inr g => dump_group g end.

(* impl DumpXml for MemoryProtection, CustomIcons / Icon, BinaryAttachments / BinaryAttachment *)
Definition dump_memprot (m : memprot) : list ev :=
  EStart s_MemoryProtection [] :: simple s_ProtectTitle (fmt_bool (mp_title m))
    ++ simple s_ProtectUserName (fmt_bool (mp_username m))
    ++ simple s_ProtectPassword (fmt_bool (mp_password m))
    ++ simple s_ProtectURL (fmt_bool (mp_url m))
    ++ simple s_ProtectNotes (fmt_bool (mp_notes m)) ++ [EEnd s_MemoryProtection].
Definition dump_icon (i : icon) : list ev :=
  EStart s_Icon [] :: simple s_UUID (fmt_uuid (ic_uuid i)) ++ simple s_Data (b64_encode (ic_data i))
    ++ [EEnd s_Icon].
Definition dump_icons (l : list icon) : list ev :=
  EStart s_CustomIcons [] :: concat (map dump_icon l) ++ [EEnd s_CustomIcons].

Section gzip.
  Variable gzip : bytes -> bytes.

  Definition binary_attrs (b : binary) : list (bytes * bytes) :=
    match bin_id b with Some i => [(s_ID, i)] | None => [] end
    ++ (if bin_compressed b then [(s_Compressed, s_True)] else []).
  Definition binary_wire (b : binary) : bytes :=
    if bin_compressed b then gzip (bin_content b) else bin_content b.
  Definition dump_binary (b : binary) : list ev :=
    EStart s_Binary (binary_attrs b) :: emit_chars (b64_encode (binary_wire b)) ++ [EEnd s_Binary].
  Definition dump_binaries (l : list binary) : list ev :=
    EStart s_Binaries [] :: concat (map dump_binary l) ++ [EEnd s_Binaries].

  (* the children of Meta before CustomData *)
  Definition meta_head (m : meta) : list ev :=
    simple_opt s_Generator fmt_id (m_generator m)
    ++ simple_opt s_DatabaseName fmt_id (m_database_name m)
    ++ simple_opt s_DatabaseNameChanged fmt_time (m_database_name_changed m)
    ++ simple_opt s_DatabaseDescription fmt_id (m_database_description m)
    ++ simple_opt s_DatabaseDescriptionChanged fmt_time (m_database_description_changed m)
    ++ simple_opt s_DefaultUserName fmt_id (m_default_username m)
    ++ simple_opt s_DefaultUserNameChanged fmt_time (m_default_username_changed m)
    ++ simple_opt s_MaintenanceHistoryDays fmt_N (m_maintenance_history_days m)
    ++ simple_opt s_Color fmt_color_c (m_color m)
    ++ simple_opt s_MasterKeyChanged fmt_time (m_master_key_changed m)
    ++ simple_opt s_MasterKeyChangeRec fmt_Z (m_master_key_change_rec m)
    ++ simple_opt s_MasterKeyChangeForce fmt_Z (m_master_key_change_force m)
    ++ match m_memory_protection m with Some p => dump_memprot p | None => [] end
    ++ dump_icons (m_custom_icons m)
    ++ simple_opt s_RecycleBinEnabled fmt_bool (m_recyclebin_enabled m)
    ++ simple_opt s_RecycleBinUUID fmt_uuid (m_recyclebin_uuid m)
    ++ simple_opt s_RecycleBinChanged fmt_time (m_recyclebin_changed m)
    ++ simple_opt s_EntryTemplatesGroup fmt_uuid (m_entry_templates_group m)
    ++ simple_opt s_EntryTemplatesGroupChanged fmt_time (m_entry_templates_group_changed m)
    ++ simple_opt s_LastSelectedGroup fmt_uuid (m_last_selected_group m)
    ++ simple_opt s_LastTopVisibleGroup fmt_uuid (m_last_top_visible_group m)
    ++ simple_opt s_HistoryMaxItems fmt_N (m_history_max_items m)
    ++ simple_opt s_HistoryMaxSize fmt_N (m_history_max_size m)
    ++ simple_opt s_SettingsChanged fmt_time (m_settings_changed m)
    ++ dump_binaries (m_binaries m).

  (* impl DumpXml for Meta *)
  Definition dump_meta (m : meta) : dumper :=
    wrap s_Meta (dseq (dpure (meta_head m)) (dump_custom_data (m_custom_data m))).

  (* impl DumpXml for DeletedObjects / DeletedObject *)
  Definition dump_delobj (o : delobj) : list ev :=
    EStart s_DeletedObject [] :: simple s_UUID (fmt_uuid (do_uuid o))
      ++ simple s_DeletionTime (fmt_time (do_time o)) ++ [EEnd s_DeletedObject].
  Definition dump_deleted (l : list delobj) : list ev :=
    EStart s_DeletedObjects [] :: concat (map dump_delobj l) ++ [EEnd s_DeletedObjects].

  (* impl DumpXml for Database *)
  Definition dump_content (c : content) : dumper :=
    wrap s_KeePassFile
      (dseq (dump_meta (c_meta c))
            (wrap s_Root (dseq (dump_group (c_root c)) (dpure (dump_deleted (c_deleted c)))))).

  Definition dump_events (c : content) (ks : bytes) : list ev := fst (dump_content c ks).
  Definition dump_stream_after (c : content) (ks : bytes) : bytes := snd (dump_content c ks).
End gzip.

(* ------------------------------------------------------------------------------------------ *)
(* The writer returns Err(Io(InvalidData)) instead of a document iff some Value::Bytes is not UTF-8 *)
Definition value_fails (v : value) : bool :=
  match v with VBytes b => negb (utf8_valid b) | _ => false end.
Definition cd_fails (c : custom_data) : bool :=
  existsb (fun kv => match cd_value (snd kv) with Some v => value_fails v | None => false end) c.
Fixpoint entry_fails (e : entry) : bool :=
  match e with
  | mkEntry _ fields _ _ _ cd _ _ _ _ _ _ hist =>
    existsb (fun kv => value_fails (snd kv)) fields || cd_fails cd
    || match hist with
       | Some h => (fix any (l : list entry) : bool :=
                      match l with [] => false | x :: r => entry_fails x || any r end) h
       | None => false
       end
  end.
Fixpoint group_fails (g : group) : bool :=
  match g with
  | mkGroup _ _ _ _ _ children _ cd _ _ _ _ _ =>
    cd_fails cd
    || (fix any (l : list (entry + group)) : bool :=
          match l with
          | [] => false
          | inl e :: r => entry_fails e || any r
          | inr g' :: r => group_fails g' || any r
          end) children
  end.
Definition dump_fails (c : content) : bool :=
  cd_fails (m_custom_data (c_meta c)) || group_fails (c_root c).

(* The reader: src/xml_db/parse/{mod,entry,group,meta}.rs (impl FromXml) over the filtered event stream
   (SimpleXmlEvent).  Each parser consumes a prefix of the events and of the inner key stream.

   Shape of the code being mirrored: every container parser is
       next() must be Start(TAG)                      else Eof / BadEvent
       while let Some(e) = peek():
           Start(name) => the child handler for name (which consumes the child)
           End(TAG)    => break
           _           => BadEvent
       next()  (the close tag)                        else Eof
   [p_loop] is the while loop plus the final next(), [p_element] the whole.  The loops and the two
   recursive parsers (Entry through History, Group through its children) run on fuel; with fuel at
   least the number of events none of them runs out (XmlTotal.v).

   Not modelled: Entry::new() draws a random UUID and reads the clock (placeholders, XmlTypes.v);
   GZip decompression is a parameter; the text of a BadEvent. *)
From KP Require Import Bytes Outcome LE Utf8 Base64 Scalars XmlTypes.
Local Open Scope N_scope.
Local Open Scope outcome_scope.

Definition pres (A : Type) : Type := outcome xerr (A * list ev * bytes).
(* a child handler: the accumulated struct, the events (the peeked Start not yet consumed), the stream *)
Definition handler (St : Type) : Type := St -> list ev -> bytes -> pres St.

(* ------------------------------------------------------------------------------------------ *)
(* FromXmlCharacters, Option<T>, SimpleTag<V> *)
Definition conv_string (t : bytes) : outcome xerr bytes := Ok t.
Definition conv_bool (t : bytes) : outcome xerr bool := of_option XBoolFormat (parse_bool t).
Definition conv_usize (t : bytes) : outcome xerr N := of_option XIntFormat (parse_usize t).
Definition conv_isize (t : bytes) : outcome xerr Z := of_option XIntFormat (parse_isize t).

(* impl<T: FromXmlCharacters> FromXml for T *)
Definition p_chars {A} (conv : bytes -> outcome xerr A) (evs : list ev) : outcome xerr (A * list ev) :=
  match evs with
  | [] => Err XEof
  | EChars t :: r => do v <- conv t; Ok (v, r)
  | _ => Err XBadEvent
  end.
(* impl<T: FromXmlCharacters> FromXml for Option<T> *)
Definition p_opt_chars {A} (conv : bytes -> outcome xerr A) (evs : list ev)
  : outcome xerr (option A * list ev) :=
  match evs with
  | [] => Err XEof
  | EChars t :: r => do v <- conv t; Ok (Some v, r)
  | _ => Ok (None, evs)
  end.
(* impl<V: FromXml> FromXml for SimpleTag<V>: (name, value) *)
Definition p_simple {A} (inner : list ev -> outcome xerr (A * list ev)) (evs : list ev)
  : outcome xerr (bytes * A * list ev) :=
  match evs with
  | [] => Err XEof
  | EStart name _ :: r =>
    do (v, r1) <- inner r;
    match r1 with
    | [] => Err XEof
    | EEnd n2 :: r2 => if bytes_eqb n2 name then Ok (name, v, r2) else Err XBadEvent
    | _ => Err XBadEvent
    end
  | _ => Err XBadEvent
  end.

(* a child that is a SimpleTag whose value is stored with [set] *)
Definition h_simple {St A} (inner : list ev -> outcome xerr (A * list ev)) (set : A -> St -> St) : handler St :=
  fun acc evs ks => do (nv, r) <- p_simple inner evs; Ok (set (snd nv) acc, r, ks).

(* IgnoreSubfield *)
Fixpoint skip_body (depth : nat) (evs : list ev) : outcome xerr (list ev) :=
  match evs with
  | [] => Ok []                       (* the iterator ended: the while-let loop just stops *)
  | EStart _ _ :: r => skip_body (S depth) r
  | EEnd _ :: r => match depth with O => Ok r | S d => skip_body d r end
  | EChars _ :: r => skip_body depth r
  | EErr :: _ => Err XXml
  end.
Definition p_ignore (evs : list ev) : outcome xerr (list ev) :=
  match evs with
  | [] => Err XEof
  | EStart _ _ :: r => skip_body 0 r
  | _ => Err XBadEvent
  end.
Definition h_ignore {St} : handler St := fun acc evs ks => do r <- p_ignore evs; Ok (acc, r, ks).
Definition h_bad {St} : handler St := fun _ _ _ => Err XBadEvent.

(* ------------------------------------------------------------------------------------------ *)
(* The container loop *)
Section loop.
  Context {St : Type}.
  Variable close : bytes.
  Variable child : bytes -> handler St.
  Fixpoint p_loop (n : nat) (acc : St) (evs : list ev) (ks : bytes) : pres St :=
    match evs with
    | [] => Err XEof
    | EStart name _ :: _ =>
      match n with
      | O => OutOfFuel
      | S m => do (ar, ks') <- child name acc evs ks; p_loop m (fst ar) (snd ar) ks'
      end
    | EEnd name :: rest => if bytes_eqb name close then Ok (acc, rest, ks) else Err XBadEvent
    | _ => Err XBadEvent
    end.
End loop.
Definition p_element {St} (tag : bytes) (init : St) (child : bytes -> handler St) (n : nat)
           (evs : list ev) (ks : bytes) : pres St :=
  match evs with
  | [] => Err XEof
  | EStart nm _ :: rest => if bytes_eqb nm tag then p_loop tag child n init rest ks else Err XBadEvent
  | _ => Err XBadEvent
  end.
(* a child that is a container stored with [set] *)
Definition h_sub {St A} (p : list ev -> bytes -> pres A) (set : A -> St -> St) : handler St :=
  fun acc evs ks => do (vr, ks') <- p evs ks; Ok (set (fst vr) acc, snd vr, ks').

(* attributes.get(name).map(|v| v.to_lowercase().parse::<bool>()).unwrap_or(Ok(false))? *)
Definition attr_bool (name : bytes) (attrs : list (bytes * bytes)) : outcome xerr bool :=
  match attr_get name attrs with
  | Some v => of_option XBoolFormat (parse_bool v)
  | None => Ok false
  end.

(* ------------------------------------------------------------------------------------------ *)
(* impl FromXml for Value *)
Definition value_is_empty (v : value) : bool :=
  match v with VUnprotected t => is_nil t | VProtected b => is_nil b | VBytes b => is_nil b end.

Definition p_value (evs : list ev) (ks : bytes) : pres value :=
  match evs with
  | [] => Err XEof
  | EStart tag attrs :: r =>
    if bytes_eqb tag s_Value then
      do protected <- attr_bool s_Protected attrs;
      do (c, r1) <- p_opt_chars conv_string r;
      let content := match c with Some t => t | None => [] end in
      do (v, ks1) <- (if protected : bool then
                        match b64_decode content with
                        | None => Err XBase64
                        | Some buf => Ok (VProtected (utf8_lossy (xor_ks buf ks)), drop (length buf) ks)
                        end
                      else Ok (VUnprotected content, ks));
      match r1 with
      | [] => Err XEof
      | EEnd t2 :: r2 => if bytes_eqb t2 s_Value then Ok (v, r2, ks1) else Err XBadEvent
      | _ => Err XBadEvent
      end
    else Err XBadEvent
  | _ => Err XBadEvent
  end.

(* ------------------------------------------------------------------------------------------ *)
(* impl FromXml for Times *)
Definition times_child (name : bytes) : handler times :=
  if bytes_eqb name s_Expires then h_simple (p_chars conv_bool) set_t_expires
  else if bytes_eqb name s_UsageCount then h_simple (p_chars conv_usize) set_t_usage
  else fun acc evs ks =>
         do (nv, r) <- p_simple (p_chars parse_time) evs;
         Ok (set_t_times (assoc_insert (fst nv) (snd nv) (t_times acc)) acc, r, ks).
Definition p_times (n : nat) : list ev -> bytes -> pres times := p_element s_Times times_default times_child n.

(* impl FromXml for CustomData / CustomDataItemDenormalized *)
Definition cditem_child (name : bytes) : handler (bytes * cditem) :=
  if bytes_eqb name s_Key then h_simple (p_chars conv_string) (fun v a => (v, snd a))
  else if bytes_eqb name s_Value then h_sub p_value (fun v a => (fst a, set_cd_value (Some v) (snd a)))
  else if bytes_eqb name s_LastModificationTime then
    h_simple (p_opt_chars parse_time) (fun v a => (fst a, set_cd_time v (snd a)))
  else h_bad.
Definition p_cditem (n : nat) : list ev -> bytes -> pres (bytes * cditem) :=
  p_element s_Item ([], cditem_default) cditem_child n.
Definition custom_data_child (n : nat) (name : bytes) : handler custom_data :=
  if bytes_eqb name s_Item then
    h_sub (p_cditem n) (fun kv acc => assoc_insert (fst kv) (snd kv) acc)
  else h_bad.
Definition p_custom_data (n : nat) : list ev -> bytes -> pres custom_data :=
  p_element s_CustomData [] (custom_data_child n) n.

(* impl FromXml for AutoType / AutoTypeAssociation *)
Definition assoc_child (name : bytes) : handler assoc :=
  if bytes_eqb name s_Window then h_simple (p_opt_chars conv_string) set_as_window
  else if bytes_eqb name s_KeystrokeSequence then h_simple (p_opt_chars conv_string) set_as_seq
  else h_ignore.
Definition p_assoc (n : nat) : list ev -> bytes -> pres assoc := p_element s_Association assoc_default assoc_child n.
Definition autotype_child (n : nat) (name : bytes) : handler autotype :=
  if bytes_eqb name s_Enabled then h_simple (p_chars conv_bool) set_at_enabled
  else if bytes_eqb name s_DefaultSequence then h_simple (p_opt_chars conv_string) set_at_seq
  else if bytes_eqb name s_DataTransferObfuscation then
    h_simple (p_opt_chars conv_usize) (fun _ a => a)
  else if bytes_eqb name s_Association then
    h_sub (p_assoc n) (fun x a => set_at_assocs (at_assocs a ++ [x]) a)
  else h_ignore.
Definition p_autotype (n : nat) : list ev -> bytes -> pres autotype :=
  p_element s_AutoType autotype_default (autotype_child n) n.

(* StringField: (key, value); an empty value is not stored *)
Definition string_field_child (name : bytes) : handler (bytes * option value) :=
  if bytes_eqb name s_Key then h_simple (p_chars conv_string) (fun v a => (v, snd a))
  else if bytes_eqb name s_Value then
    h_sub p_value (fun v a => (fst a, if value_is_empty v then snd a else Some v))
  else h_ignore.
Definition p_string_field (n : nat) : list ev -> bytes -> pres (bytes * option value) :=
  p_element s_String ([], None) string_field_child n.

(* BinaryField: <Binary><Key>k</Key><Value Ref="r"/></Binary>; the result is dropped *)
Definition p_binary_field (evs : list ev) : outcome xerr (list ev) :=
  match evs with
  | [] => Err XEof
  | EStart nm _ :: r =>
    if bytes_eqb nm s_Binary then
      do (_, r1) <- p_simple (p_chars conv_string) r;
      match r1 with
      | [] => Err XEof
      | EStart n2 attrs :: r2 =>
        if bytes_eqb n2 s_Value then
          match attr_get s_Ref attrs with
          | None => Err XBadEvent
          | Some _ =>
            match r2 with
            | [] => Err XEof
            | EEnd n3 :: r3 =>
              if bytes_eqb n3 s_Value then
                match r3 with [] => Err XEof | _ :: r4 => Ok r4 end
              else Err XBadEvent
            | _ => Err XBadEvent
            end
          end
        else Err XBadEvent
      | _ => Err XBadEvent
      end
    else Err XBadEvent
  | _ => Err XBadEvent
  end.

(* ------------------------------------------------------------------------------------------ *)
(* impl FromXml for Entry / History *)
Definition history_child (pe : list ev -> bytes -> pres entry) (name : bytes) : handler (list entry) :=
  if bytes_eqb name s_Entry then h_sub pe (fun e acc => acc ++ [e]) else h_ignore.

Definition entry_child (pe : list ev -> bytes -> pres entry) (n : nat) (name : bytes) : handler entry :=
  if bytes_eqb name s_UUID then h_simple (p_chars parse_uuid) set_e_uuid
  else if bytes_eqb name s_Tags then
    h_simple (p_opt_chars conv_string)
             (fun o a => match o with Some t => set_e_tags (split_tags t) a | None => a end)
  else if bytes_eqb name s_String then
    h_sub (p_string_field n)
          (fun kv a => match snd kv with
                       | Some v => set_e_fields (assoc_insert (fst kv) v (e_fields a)) a
                       | None => a
                       end)
  else if bytes_eqb name s_CustomData then h_sub (p_custom_data n) set_e_custom_data
  else if bytes_eqb name s_Binary then fun acc evs ks => do r <- p_binary_field evs; Ok (acc, r, ks)
  else if bytes_eqb name s_AutoType then h_sub (p_autotype n) (fun x a => set_e_autotype (Some x) a)
  else if bytes_eqb name s_Times then h_sub (p_times n) set_e_times
  else if bytes_eqb name s_IconID then h_simple (p_opt_chars conv_usize) set_e_icon_id
  else if bytes_eqb name s_CustomIconUUID then h_simple (p_opt_chars parse_uuid) set_e_custom_icon
  else if bytes_eqb name s_ForegroundColor then h_simple (p_opt_chars parse_color_c) set_e_fg
  else if bytes_eqb name s_BackgroundColor then h_simple (p_opt_chars parse_color_c) set_e_bg
  else if bytes_eqb name s_OverrideURL then h_simple (p_opt_chars conv_string) set_e_override_url
  else if bytes_eqb name s_QualityCheck then h_simple (p_opt_chars conv_bool) set_e_quality_check
  else if bytes_eqb name s_History then
    h_sub (p_element s_History [] (history_child pe) n) (fun h a => set_e_history (Some h) a)
  else h_ignore.

Fixpoint p_entry (fuel : nat) (evs : list ev) (ks : bytes) : pres entry :=
  match fuel with
  | O => OutOfFuel
  | S f => p_element s_Entry entry_new (entry_child (p_entry f) f) f evs ks
  end.

(* impl FromXml for Group *)
Definition group_child (pg : list ev -> bytes -> pres group) (pe : list ev -> bytes -> pres entry)
           (n : nat) (name : bytes) : handler group :=
  if bytes_eqb name s_UUID then h_simple (p_chars parse_uuid) set_g_uuid
  else if bytes_eqb name s_Name then
    h_simple (p_opt_chars conv_string) (fun o a => set_g_name (match o with Some t => t | None => [] end) a)
  else if bytes_eqb name s_Notes then h_simple (p_opt_chars conv_string) set_g_notes
  else if bytes_eqb name s_IconID then h_simple (p_opt_chars conv_usize) set_g_icon_id
  else if bytes_eqb name s_CustomIconUUID then h_simple (p_opt_chars parse_uuid) set_g_custom_icon
  else if bytes_eqb name s_Times then h_sub (p_times n) set_g_times
  else if bytes_eqb name s_IsExpanded then h_simple (p_chars conv_bool) set_g_is_expanded
  else if bytes_eqb name s_DefaultAutoTypeSequence then
    h_simple (p_opt_chars conv_string) set_g_default_autotype_sequence
  else if bytes_eqb name s_EnableAutoType then h_simple (p_opt_chars conv_string) set_g_enable_autotype
  else if bytes_eqb name s_EnableSearching then h_simple (p_opt_chars conv_string) set_g_enable_searching
  else if bytes_eqb name s_LastTopVisibleEntry then
    h_simple (p_opt_chars parse_uuid) set_g_last_top_visible_entry
  else if bytes_eqb name s_Entry then h_sub pe (fun e a => set_g_children (g_children a ++ [inl e]) a)
  else if bytes_eqb name s_Group then h_sub pg (fun g a => set_g_children (g_children a ++ [inr g]) a)
  else if bytes_eqb name s_CustomData then h_sub (p_custom_data n) set_g_custom_data
  else h_ignore.

Fixpoint p_group (fuel : nat) (evs : list ev) (ks : bytes) : pres group :=
  match fuel with
  | O => OutOfFuel
  | S f => p_element s_Group group_default (group_child (p_group f) (p_entry f) f) f evs ks
  end.

(* ------------------------------------------------------------------------------------------ *)
(* impl FromXml for MemoryProtection, CustomIcons / Icon, BinaryAttachments / BinaryAttachment, Meta *)
Definition memprot_child (name : bytes) : handler memprot :=
  if bytes_eqb name s_ProtectTitle then h_simple (p_chars conv_bool) set_mp_title
  else if bytes_eqb name s_ProtectUserName then h_simple (p_chars conv_bool) set_mp_username
  else if bytes_eqb name s_ProtectPassword then h_simple (p_chars conv_bool) set_mp_password
  else if bytes_eqb name s_ProtectURL then h_simple (p_chars conv_bool) set_mp_url
  else if bytes_eqb name s_ProtectNotes then h_simple (p_chars conv_bool) set_mp_notes
  else h_ignore.
Definition p_memprot (n : nat) : list ev -> bytes -> pres memprot :=
  p_element s_MemoryProtection memprot_default memprot_child n.

Definition conv_b64 (t : bytes) : outcome xerr bytes := of_option XBase64 (b64_decode t).
Definition icon_child (name : bytes) : handler icon :=
  if bytes_eqb name s_UUID then h_simple (p_chars parse_uuid) set_ic_uuid
  else if bytes_eqb name s_Data then h_simple (p_chars conv_b64) set_ic_data
  else h_ignore.
Definition p_icon (n : nat) : list ev -> bytes -> pres icon := p_element s_Icon icon_default icon_child n.
Definition icons_child (n : nat) (name : bytes) : handler (list icon) :=
  if bytes_eqb name s_Icon then h_sub (p_icon n) (fun i acc => acc ++ [i]) else h_ignore.
Definition p_icons (n : nat) : list ev -> bytes -> pres (list icon) :=
  p_element s_CustomIcons [] (icons_child n) n.

Section gunzip.
  Variable gunzip : bytes -> option bytes.

  Definition p_binary (evs : list ev) (ks : bytes) : pres binary :=
    match evs with
    | [] => Err XEof
    | EStart name attrs :: r =>
      if bytes_eqb name s_Binary then
        let ident := attr_get s_ID attrs in
        do compressed <- attr_bool s_Compressed attrs;
        do protected <- attr_bool s_Protected attrs;
        do (data, r1) <- p_chars conv_string r;
        do buf <- of_option XBase64 (b64_decode data);
        let bk := if protected : bool then (xor_ks buf ks, drop (length buf) ks) else (buf, ks) in
        do content <- (if compressed : bool then of_option XCompression (gunzip (fst bk)) else Ok (fst bk));
        match r1 with
        | [] => Err XEof
        | _ :: r2 => Ok (mkBinary ident compressed content, r2, snd bk)   (* the close tag is not looked at *)
        end
      else Err XBadEvent
    | _ => Err XBadEvent
    end.
  Definition binaries_child (name : bytes) : handler (list binary) :=
    if bytes_eqb name s_Binary then h_sub p_binary (fun b acc => acc ++ [b]) else h_ignore.
  Definition p_binaries (n : nat) : list ev -> bytes -> pres (list binary) :=
    p_element s_Binaries [] binaries_child n.

  Definition meta_child (n : nat) (name : bytes) : handler meta :=
    if bytes_eqb name s_Generator then h_simple (p_opt_chars conv_string) set_m_generator
    else if bytes_eqb name s_DatabaseName then h_simple (p_opt_chars conv_string) set_m_database_name
    else if bytes_eqb name s_DatabaseNameChanged then h_simple (p_opt_chars parse_time) set_m_database_name_changed
    else if bytes_eqb name s_DatabaseDescription then h_simple (p_opt_chars conv_string) set_m_database_description
    else if bytes_eqb name s_DatabaseDescriptionChanged then
      h_simple (p_opt_chars parse_time) set_m_database_description_changed
    else if bytes_eqb name s_DefaultUserName then h_simple (p_opt_chars conv_string) set_m_default_username
    else if bytes_eqb name s_DefaultUserNameChanged then
      h_simple (p_opt_chars parse_time) set_m_default_username_changed
    else if bytes_eqb name s_MaintenanceHistoryDays then
      h_simple (p_opt_chars conv_usize) set_m_maintenance_history_days
    else if bytes_eqb name s_Color then h_simple (p_opt_chars parse_color_c) set_m_color
    else if bytes_eqb name s_MasterKeyChanged then h_simple (p_opt_chars parse_time) set_m_master_key_changed
    else if bytes_eqb name s_MasterKeyChangeRec then h_simple (p_opt_chars conv_isize) set_m_master_key_change_rec
    else if bytes_eqb name s_MasterKeyChangeForce then
      h_simple (p_opt_chars conv_isize) set_m_master_key_change_force
    else if bytes_eqb name s_MemoryProtection then
      h_sub (p_memprot n) (fun x a => set_m_memory_protection (Some x) a)
    else if bytes_eqb name s_CustomIcons then h_sub (p_icons n) set_m_custom_icons
    else if bytes_eqb name s_RecycleBinEnabled then h_simple (p_opt_chars conv_bool) set_m_recyclebin_enabled
    else if bytes_eqb name s_RecycleBinUUID then h_simple (p_opt_chars parse_uuid) set_m_recyclebin_uuid
    else if bytes_eqb name s_RecycleBinChanged then h_simple (p_opt_chars parse_time) set_m_recyclebin_changed
    else if bytes_eqb name s_EntryTemplatesGroup then
      h_simple (p_opt_chars parse_uuid) set_m_entry_templates_group
    else if bytes_eqb name s_EntryTemplatesGroupChanged then
      h_simple (p_opt_chars parse_time) set_m_entry_templates_group_changed
    else if bytes_eqb name s_LastSelectedGroup then h_simple (p_opt_chars parse_uuid) set_m_last_selected_group
    else if bytes_eqb name s_LastTopVisibleGroup then
      h_simple (p_opt_chars parse_uuid) set_m_last_top_visible_group
    else if bytes_eqb name s_HistoryMaxItems then h_simple (p_opt_chars conv_usize) set_m_history_max_items
    else if bytes_eqb name s_HistoryMaxSize then h_simple (p_opt_chars conv_usize) set_m_history_max_size
    else if bytes_eqb name s_SettingsChanged then h_simple (p_opt_chars parse_time) set_m_settings_changed
    else if bytes_eqb name s_Binaries then h_sub (p_binaries n) set_m_binaries
    else if bytes_eqb name s_CustomData then h_sub (p_custom_data n) set_m_custom_data
    else h_ignore.
  Definition p_meta (n : nat) : list ev -> bytes -> pres meta := p_element s_Meta meta_default (meta_child n) n.

  (* impl FromXml for DeletedObjects / DeletedObject, Root, KeePassXml *)
  Definition delobj_child (name : bytes) : handler delobj :=
    if bytes_eqb name s_UUID then h_simple (p_chars parse_uuid) set_do_uuid
    else if bytes_eqb name s_DeletionTime then h_simple (p_chars parse_time) set_do_time
    else h_bad.
  Definition p_delobj (n : nat) : list ev -> bytes -> pres delobj :=
    p_element s_DeletedObject delobj_default delobj_child n.
  Definition deleted_child (n : nat) (name : bytes) : handler (list delobj) :=
    if bytes_eqb name s_DeletedObject then h_sub (p_delobj n) (fun o acc => acc ++ [o]) else h_bad.
  Definition p_deleted (n : nat) : list ev -> bytes -> pres (list delobj) :=
    p_element s_DeletedObjects [] (deleted_child n) n.

  Definition root_child (n : nat) (name : bytes) : handler (group * list delobj) :=
    if bytes_eqb name s_Group then h_sub (p_group n) (fun g a => (g, snd a))
    else if bytes_eqb name s_DeletedObjects then h_sub (p_deleted n) (fun d a => (fst a, d))
    else h_bad.
  Definition p_root (n : nat) : list ev -> bytes -> pres (group * list delobj) :=
    p_element s_Root (group_default, []) (root_child n) n.

  Definition keepass_child (n : nat) (name : bytes) : handler content :=
    if bytes_eqb name s_Meta then h_sub (p_meta n) set_c_meta
    else if bytes_eqb name s_Root then
      h_sub (p_root n) (fun r a => set_c_deleted (snd r) (set_c_root (fst r) a))
    else h_bad.
  Definition p_keepass (n : nat) : list ev -> bytes -> pres content :=
    p_element s_KeePassFile (mkContent meta_default group_default []) (keepass_child n) n.

  (* xml_db::parse::parse: events left after </KeePassFile> are not looked at *)
  Definition parse_events (evs : list ev) (ks : bytes) : outcome xerr content :=
    do (cr, _) <- p_keepass (length evs) evs ks; Ok (fst cr).
End gunzip.

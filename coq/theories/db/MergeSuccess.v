(* When does Database::merge return Ok?  (property C16: "returns without panicking and reports
   success")

   One walk over merge_group ([merge_group_post]) with an invariant on the destination tree gives

   (1) merge_never_panics: no Panic when every entry and history item carries a
       LastModificationTime, the destination's UUIDs are pairwise distinct and no UUID names an
       entry in one tree and a group in the other.
   (2) merge_errors_classified: under the same hypotheses an error is EGroupTime, EDupHistory or
       EFindGroup _ ; never EGeneric, EFindEntry _, EEntryTime.
       EFindGroup CAN occur on such inputs (example [cx_findgroup] below): a recursive call that
       went through a "stay" branch can relocate a group that lies on the caller's path.
       EEntryTime never occurs at all ([merge_never_entry_time], no hypothesis).
   (3) merge_succeeds: merge returns Ok when, in addition, histories have pairwise distinct
       stamps, groups present on both sides with equal LastModificationTime agree, and the source
       holds no group whose LocationChanged is later than the destination's (no group relocation
       is triggered; entries may move freely). *)
From Coq Require Import Permutation Sorted.
From KP Require Import Bytes Outcome Tree TreeFacts History Merge MergeProofs MergeLookup
     MergeTermination MergeUuids MergeSelf MergeUnique MergeLwwFrame MergePlaceRows.
Local Open Scope N_scope.

(* ---------- paths of groups ---------- *)

Lemma get_uuid_at_path_inv : forall p g i c,
  get_uuid p g = Some (NG i c) -> at_path p (children_of g) c.
Proof.
  induction p as [|h tail IH]; intros g i c H.
  - cbn [get_uuid] in H. injection H as ->. reflexivity.
  - destruct tail as [|k l].
    + cbn [get_uuid] in H. pose proof (find_some _ _ H) as [Hin Hu]. apply N.eqb_eq in Hu.
      cbn [at_path]. exists (NG i c). repeat split; auto.
    + rewrite get_uuid_cons2 in H. destruct (find _ (children_of g)) as [x|] eqn:Ex; [|discriminate].
      pose proof (find_some _ _ Ex) as [Hin Hu]. apply andb_true_iff in Hu as [Hg Hu].
      apply N.eqb_eq in Hu. cbn [at_path]. exists x. repeat split; auto. eapply IH. exact H.
Qed.

Definition vpath (path : list N) (root : node) : Prop :=
  exists pc, at_path path (children_of root) pc.

Definition amono (ch ch' : list node) : Prop :=
  forall p pc, at_path p ch pc -> exists pc', at_path p ch' pc'.

Definition sim (n n' : node) : Prop :=
  uuid_of n' = uuid_of n /\ is_group n' = is_group n /\ amono (children_of n) (children_of n').

Lemma amono_refl ch : amono ch ch.
Proof. intros p pc H. exists pc. exact H. Qed.

Lemma amono_trans a b c : amono a b -> amono b c -> amono a c.
Proof. intros H1 H2 p pc H. apply H1 in H as [pc' H]. apply H2 in H. exact H. Qed.

Lemma sim_refl n : sim n n.
Proof. repeat split. apply amono_refl. Qed.

Lemma sim_trans a b c : sim a b -> sim b c -> sim a c.
Proof.
  intros (U1 & G1 & M1) (U2 & G2 & M2). split; [congruence|]. split; [congruence|].
  eapply amono_trans; eassumption.
Qed.

Lemma amono_groups ch ch' :
  (forall y, In y ch -> is_group y = true -> In y ch') -> amono ch ch'.
Proof.
  intros H [|j p] pc Hp; cbn [at_path] in *.
  - exists ch'. reflexivity.
  - destruct Hp as (x & Hx & Gx & Hu & Hr). exists pc, x. auto.
Qed.

Lemma amono_replace a x x' b : sim x x' -> amono (a ++ x :: b) (a ++ x' :: b).
Proof.
  intros (Hu & Hg & Hm) [|j p] pc Hp; cbn [at_path] in *.
  - eexists. reflexivity.
  - destruct Hp as (y & Hy & Gy & Uy & Hr). apply in_app_or in Hy as [Hy|[<-|Hy]].
    + exists pc, y. repeat split; auto. apply in_or_app. left. exact Hy.
    + apply Hm in Hr as [pc' Hr]. exists pc', x'. repeat split; try congruence.
      apply in_or_app. right. left. reflexivity.
    + exists pc, y. repeat split; auto. apply in_or_app. right. right. exact Hy.
Qed.

Lemma vpath_sim path root root' : sim root root' -> vpath path root -> vpath path root'.
Proof. intros (_ & _ & Hm) [pc Hp]. apply Hm in Hp. exact Hp. Qed.

(* ---------- properties of single nodes, kept by every write ---------- *)

Lemma nodes_of_app a b : nodes_of (a ++ b) = nodes_of a ++ nodes_of b.
Proof. unfold nodes_of. apply flat_map_app. Qed.

Section Good.
Variables (Pe : entry -> Prop) (Pg : ginfo -> Prop).

Definition Pn (n : node) : Prop := match n with NE e => Pe e | NG i _ => Pg i end.
Definition goodc (l : list node) : Prop := Forall Pn (nodes_of l).
Definition gooda (n : node) : Prop := Pn n /\ goodc (children_of n).

Lemma goodc_app a b : goodc (a ++ b) <-> goodc a /\ goodc b.
Proof. unfold goodc. rewrite nodes_of_app. apply Forall_app. Qed.

Lemma goodc_cons x r : goodc (x :: r) <-> gooda x /\ goodc r.
Proof.
  unfold gooda, goodc. rewrite nodes_of_cons, all_nodes_children. split.
  - intro H. apply Forall_cons_iff in H as [H1 H2]. apply Forall_app in H2. tauto.
  - intros [[H1 H2] H3]. constructor; [exact H1|]. apply Forall_app. tauto.
Qed.

Lemma goodc_nil : goodc [].
Proof. constructor. Qed.

Lemma goodc_in l x : goodc l -> In x l -> gooda x.
Proof.
  induction l as [|y r IH]; intros H Hx; [destruct Hx|]. apply goodc_cons in H as [Hy Hr].
  destruct Hx as [<-|Hx]; auto.
Qed.

Lemma goodc_filter q l : goodc l -> goodc (filter q l).
Proof.
  induction l as [|y r IH]; intro H; [exact H|]. apply goodc_cons in H as [Hy Hr].
  cbn [filter]. destruct (q y); [apply goodc_cons; auto|auto].
Qed.

Lemma goodc_snoc l x : goodc l -> gooda x -> goodc (l ++ [x]).
Proof. intros Hl Hx. apply goodc_app. split; [exact Hl|]. apply goodc_cons. split; [exact Hx|apply goodc_nil]. Qed.

Lemma gooda_children i c c' : gooda (NG i c) -> goodc c' -> gooda (NG i c').
Proof. intros [H _] Hc. split; [exact H|exact Hc]. Qed.

(* the node designated by a path is replaced: what is kept *)
Lemma update_uuid_inv : forall path f n n',
  update_uuid path f n = Some n' ->
  exists g g', get_uuid path n = Some g /\ f g = Some g'
    /\ (gooda n -> gooda g /\ (gooda g' -> gooda n'))
    /\ (sim g g' -> sim n n').
Proof.
  induction path as [|h tail IH]; intros f n n' H.
  - cbn [update_uuid get_uuid] in *. exists n, n'. split; [reflexivity|]. split; [exact H|].
    split; [intro Hn; split; [exact Hn|intro Hn'; exact Hn']|intro Hs; exact Hs].
  - destruct n as [i ch|e]; [|discriminate]. cbn [update_uuid] in H. destruct tail as [|k l].
    + destruct (update_first _ f ch) as [ch'|] eqn:E; [|discriminate]. injection H as <-.
      apply update_first_spec in E as (a & x & b & x' & -> & Hf & Hx & ->).
      exists x, x'. cbn [get_uuid children_of]. split; [exact Hf|]. split; [exact Hx|]. split.
      * intros [Hi Hc]. cbn [children_of] in Hc. apply goodc_app in Hc as [Ha Hc].
        apply goodc_cons in Hc as [Hgx Hb]. split; [exact Hgx|]. intro Hx'.
        split; [exact Hi|]. cbn [children_of]. apply goodc_app. split; [exact Ha|].
        apply goodc_cons. auto.
      * intro Hs. split; [reflexivity|]. split; [reflexivity|]. cbn [children_of].
        apply amono_replace. exact Hs.
    + destruct (update_first _ _ ch) as [ch'|] eqn:E; [|discriminate]. injection H as <-.
      apply update_first_spec in E as (a & x & b & x' & -> & Hf & Hx & ->).
      apply IH in Hx as (g & g' & Hg & Hfg & Hgood & Hsim).
      exists g, g'. rewrite get_uuid_cons2. cbn [children_of]. rewrite Hf.
      split; [exact Hg|]. split; [exact Hfg|]. split.
      * intros [Hi Hc]. cbn [children_of] in Hc. apply goodc_app in Hc as [Ha Hc].
        apply goodc_cons in Hc as [Hgx Hb]. destruct (Hgood Hgx) as [Hgg Hn]. split; [exact Hgg|].
        intro Hg'. split; [exact Hi|]. cbn [children_of]. apply goodc_app. split; [exact Ha|].
        apply goodc_cons. auto.
      * intro Hs. split; [reflexivity|]. split; [reflexivity|]. cbn [children_of].
        apply amono_replace. apply Hsim. exact Hs.
Qed.

Lemma put_group_inv path root i0 c0 i c root' :
  find_group path root = Some (i0, c0) -> put_group path i c root = Some root' ->
  gi_uuid i = gi_uuid i0 ->
  (gooda root -> gooda (NG i0 c0) /\ (Pg i -> goodc c -> gooda root'))
  /\ (amono c0 c -> sim root root').
Proof.
  unfold find_group, put_group. intros Hf Hp Hu.
  apply update_uuid_inv in Hp as (g & g' & Hg & Hfg & Hgood & Hsim). rewrite Hg in Hf.
  destruct g as [gi gc|e]; [|discriminate]. injection Hf as -> ->. injection Hfg as <-.
  split.
  - intro Hr. destruct (Hgood Hr) as [H1 H2]. split; [exact H1|]. intros Hi Hc. apply H2.
    split; assumption.
  - intro Hm. apply Hsim. split; [exact Hu|]. split; [reflexivity|exact Hm].
Qed.

Lemma put_entry_inv path root e0 e root' :
  get_uuid path root = Some (NE e0) -> put_entry path e root = Some root' ->
  e_uuid e = e_uuid e0 ->
  (gooda root -> Pe e -> gooda root') /\ sim root root'.
Proof.
  unfold put_entry. intros Hf Hp Hu.
  apply update_uuid_inv in Hp as (g & g' & Hg & Hfg & Hgood & Hsim). rewrite Hg in Hf.
  injection Hf as ->. injection Hfg as <-. split.
  - intros Hr He. apply (proj2 (Hgood Hr)). split; [exact He|apply goodc_nil].
  - apply Hsim. split; [exact Hu|]. split; [reflexivity|apply amono_refl].
Qed.

(* ---------- the invariant of the destination tree ---------- *)

Definition Inv (root : node) : Prop :=
  is_group root = true /\ NoDup (all_uuids root) /\ gooda root.

Lemma Inv_unique root : Inv root -> uuids_unique (children_of root).
Proof. intros (_ & Nd & _). apply uuids_unique_uus. rewrite <- all_uuids_children. exact Nd. Qed.

Lemma Inv_uus root : Inv root -> NoDup (uus (children_of root)).
Proof. intros (_ & Nd & _). rewrite <- all_uuids_children. exact Nd. Qed.

Lemma vpath_find path root :
  Inv root -> vpath path root ->
  exists pi pc, find_group path root = Some (pi, pc) /\ at_path path (children_of root) pc.
Proof.
  intros Hi [pc Hp]. destruct (get_uuid_at_path path root pc (Inv_uus _ Hi) (proj1 Hi) Hp) as [pi E].
  exists pi, pc. unfold find_group. rewrite E. auto.
Qed.

Lemma find_vpath path root pi pc :
  find_group path root = Some (pi, pc) -> at_path path (children_of root) pc.
Proof.
  unfold find_group. destruct (get_uuid path root) as [[i c|e]|] eqn:E; try discriminate.
  intro H. injection H as -> ->. eapply get_uuid_at_path_inv. exact E.
Qed.

(* what find_node_location gives, with the goodness of the node found *)
Lemma lookup root u dloc :
  Inv root -> fnl_db u (children_of root) = Some dloc ->
  exists pi pc n, at_path dloc (children_of root) pc
    /\ find_group dloc root = Some (pi, pc)
    /\ In n pc /\ uuid_of n = u
    /\ find (fun c => N.eqb (uuid_of c) u) pc = Some n
    /\ get_uuid (dloc ++ [u]) root = Some n
    /\ gooda n /\ gooda (NG pi pc).
Proof.
  intros Hi Hf. destruct (fnl_db_lookup u root dloc (Inv_unique _ Hi) Hf)
    as (pi & pc & n & Hp & Hg & Hn & Hu & Hfi).
  exists pi, pc, n. repeat (split; [assumption|]).
  assert (Hgp : gooda (NG pi pc)).
  { destruct Hi as (_ & _ & Hr). destruct dloc as [|h t].
    - unfold find_group in Hg. cbn [get_uuid] in Hg. destruct root; [|discriminate].
      injection Hg as -> ->. exact Hr.
    - unfold find_group in Hg. destruct (get_uuid (h :: t) root) as [[gi gc|e]|] eqn:E; try discriminate.
      injection Hg as -> ->. apply get_uuid_nodes in E; [|discriminate].
      rewrite all_nodes_children in E. destruct Hr as [_ Hc].
      pose proof (proj1 (Forall_forall _ _) Hc _ E) as HP. split; [exact HP|].
      cbn [children_of]. unfold goodc in *. apply Forall_forall. intros m Hm.
      apply (proj1 (Forall_forall _ _) Hc). rewrite <- all_nodes_children.
      apply (all_nodes_trans root (NG pi pc)); [rewrite all_nodes_children; exact E|].
      rewrite all_nodes_children. exact Hm. }
  split.
  - subst u. apply (get_uuid_at dloc root pc n (Inv_uus _ Hi) Hp Hn).
  - split; [|exact Hgp]. destruct Hgp as [_ Hc]. exact (goodc_in _ _ Hc Hn).
Qed.

End Good.

Arguments goodc_in {Pe Pg} l x _ _.
Arguments goodc_snoc {Pe Pg} l x _ _.
Arguments goodc_filter {Pe Pg} q l _.
Arguments goodc_nil {Pe Pg}.

(* ---------- the merges of single objects: the only errors ---------- *)

Definition egood (e : entry) : Prop := t_lm (e_times e) <> None /\ all_lm (hist_list e).

Definition gcompat (now : Z) (i j : ginfo) : Prop :=
  fst (lm_or (gi_times i) now) = fst (lm_or (gi_times j) 0%Z) -> group_diverged i j = false.

Definition nomove (now : Z) (i j : ginfo) : Prop :=
  Z.ltb (fst (lc_or (gi_times i) now)) (fst (lc_or (gi_times j) 0%Z)) = false.

Lemma hist_self_cases : forall l acc, all_lm l ->
  (exists m, hist_self acc l = Ok m) \/ hist_self acc l = Err EDupHistory.
Proof.
  induction l as [|h r IH]; intros acc Al; cbn [hist_self]; [left; eexists; reflexivity|].
  apply Forall_cons_iff in Al as [Hh Al]. destruct (t_lm (e_times h)) as [t|]; [|contradiction].
  destruct (lookup_time t acc); [right; reflexivity|]. apply IH. exact Al.
Qed.

Lemma hist_other_ok : forall l acc lg, all_lm l -> exists r, hist_other acc lg l = Ok r.
Proof.
  induction l as [|h r IH]; intros acc lg Al; cbn [hist_other]; [eexists; reflexivity|].
  apply Forall_cons_iff in Al as [Hh Al]. destruct (t_lm (e_times h)) as [t|]; [|contradiction].
  destruct (lookup_time t acc); apply IH; exact Al.
Qed.

Lemma hmw_cases self other : all_lm self -> all_lm other ->
  (exists r, history_merge_with self other = Ok r)
  \/ (history_merge_with self other = Err EDupHistory /\ ~ NoDup (hist_keys self)).
Proof.
  intros A1 A2. destruct (history_merge_with self other) as [r|e|s|] eqn:E.
  - left. eexists. reflexivity.
  - right. assert (He : e = EDupHistory).
    { unfold history_merge_with in E. destruct (hist_self_cases self [] A1) as [[m Em]|Em]; rewrite Em in E; cbn [bind] in E.
      - destruct (hist_other_ok other m [] A2) as [[m2 lg] Eo]. rewrite Eo in E. discriminate.
      - congruence. }
    subst e. split; [reflexivity|]. intro Nd.
    destruct (history_merge_total self other A1 A2 Nd) as (h & lg & Eh). congruence.
  - exfalso. unfold history_merge_with in E.
    destruct (hist_self_cases self [] A1) as [[m Em]|Em]; rewrite Em in E; cbn [bind] in E; [|discriminate].
    destruct (hist_other_ok other m [] A2) as [[m2 lg] Eo]. rewrite Eo in E. discriminate.
  - exfalso. unfold history_merge_with in E.
    destruct (hist_self_cases self [] A1) as [[m Em]|Em]; rewrite Em in E; cbn [bind] in E; [|discriminate].
    destruct (hist_other_ok other m [] A2) as [[m2 lg] Eo]. rewrite Eo in E. discriminate.
Qed.

Lemma hist_list_cases e : (e_hist e = Some (hist_list e)) \/ (e_hist e = None /\ hist_list e = []).
Proof. unfold hist_list. destruct (e_hist e); auto. Qed.

Lemma merge_history_cases self other : egood self -> egood other ->
  (exists r, merge_history self other = Ok r)
  \/ (merge_history self other = Err EDupHistory /\ ~ NoDup (hist_keys (hist_list self))).
Proof.
  intros [_ A1] [L2 A2]. unfold merge_history.
  assert (A3 : all_lm (add_entry (hist_list other) other)).
  { unfold add_entry. constructor; [exact L2|exact A2]. }
  assert (H : forall w1 w2 w3 src', all_lm src' ->
     (exists r, (do (h, lg) <- history_merge_with (hist_list self) src';
                 Ok (e_set_hist self (Some h), w1 ++ w2 ++ w3 ++ lg))%outcome = Ok r)
     \/ ((do (h, lg) <- history_merge_with (hist_list self) src';
          Ok (e_set_hist self (Some h), w1 ++ w2 ++ w3 ++ lg))%outcome = Err EDupHistory
         /\ ~ NoDup (hist_keys (hist_list self)))).
  { intros w1 w2 w3 src' As. destruct (hmw_cases (hist_list self) src' A1 As) as [[[h lg] E]|[E Hn]]; rewrite E; cbn [bind].
    - left. eexists. reflexivity.
    - right. auto. }
  unfold hist_list in *.
  destruct (e_hist other) as [ho|]; destruct (e_hist self) as [hs|];
    destruct (has_uncommitted_changes other); apply H; assumption.
Qed.

Lemma entry_merge_cases now a b : egood a -> egood b -> entry_diverged a b = true ->
  (exists r, entry_merge now a b = Ok r)
  \/ (entry_merge now a b = Err EDupHistory
      /\ (~ NoDup (hist_keys (hist_list a)) \/ ~ NoDup (hist_keys (hist_list b)))).
Proof.
  intros Ga Gb Hd. unfold entry_merge.
  destruct (lm_or (e_times b) 0%Z) as [src_lm w1]. destruct (lm_or (e_times a) now) as [dst_lm w2].
  destruct (Z.eqb dst_lm src_lm).
  - rewrite Hd. cbn [negb]. left. eexists. reflexivity.
  - destruct (Z.gtb dst_lm src_lm).
    + destruct (merge_history_cases a b Ga Gb) as [[[m lg] E]|[E Hn]]; rewrite E; cbn [bind].
      * left. eexists. reflexivity.
      * right. auto.
    + destruct (merge_history_cases b a Gb Ga) as [[[m lg] E]|[E Hn]]; rewrite E; cbn [bind].
      * left. eexists. reflexivity.
      * right. auto.
Qed.

Lemma group_merge_cases now d s :
  (exists r, group_merge_with now d s = Ok r)
  \/ (group_merge_with now d s = Err EGroupTime /\ ~ gcompat now d s).
Proof.
  unfold group_merge_with, gcompat.
  destruct (lm_or (gi_times s) 0%Z) as [src_lm w1]. destruct (lm_or (gi_times d) now) as [dst_lm w2].
  cbn [fst]. destruct (Z.eqb_spec dst_lm src_lm) as [E|Ne].
  - destruct (group_diverged d s) eqn:Hd.
    + right. split; [reflexivity|]. intro H. specialize (H E). discriminate.
    + left. eexists. reflexivity.
  - destruct (Z.gtb dst_lm src_lm); left; eexists; reflexivity.
Qed.

(* ---------- the walk ---------- *)

Definition allowed (e : merr) : Prop :=
  e = EGroupTime \/ e = EDupHistory \/ exists p, e = EFindGroup p.

Section Walk.
Variables (now : Z) (deleted : list dobj).
Variables (Pe : entry -> Prop) (Pg Sg : ginfo -> Prop) (strong : Prop).
Hypothesis Sg_Pg : forall j, Sg j -> Pg j.
Hypothesis Pe_good : forall e, Pe e -> egood e.
Hypothesis kinds : forall e j, Pe e -> Pg j -> e_uuid e <> gi_uuid j.
Hypothesis Pe_lc : forall e t, Pe e -> Pe (e_set_times e (set_lc (e_times e) t)).
Hypothesis Pg_lc : ~ strong ->
  forall i t, Pg i -> Pg (mkGinfo (gi_uuid i) (gi_data i) (set_lc (gi_times i) t)).
Hypothesis Pe_merge : forall a b m lg,
  Pe a -> Pe b -> e_uuid a = e_uuid b -> entry_merge now a b = Ok (Some m, lg) -> Pe m.
Hypothesis Pg_merge : forall a b a' lg,
  Pg a -> Sg b -> gi_uuid a = gi_uuid b -> group_merge_with now a b = Ok (a', lg) -> Pg a'.
Hypothesis strong_g : strong -> forall i j,
  Pg i -> Sg j -> gi_uuid i = gi_uuid j -> gcompat now i j /\ nomove now i j.
Hypothesis strong_e : strong -> forall e, Pe e -> NoDup (hist_keys (hist_list e)).

Local Notation InvP := (Inv Pe Pg).
Local Notation goodaP := (gooda Pe Pg).
Local Notation goodcP := (goodc Pe Pg).

Definition post (root : node) (x : res (node * log)) : Prop :=
  match x with
  | Ok (root', _) => InvP root' /\ (strong -> sim root root')
  | Err e => ~ strong /\ allowed e
  | Panic _ => False
  | OutOfFuel => False
  end.

Definition pre (path : list N) (in_del : bool) (root : node) : Prop :=
  InvP root /\ (strong -> in_del = false -> vpath path root).

Lemma post_trans root r1 y : (strong -> sim root r1) -> post r1 y -> post root y.
Proof.
  intros Hs. destruct y as [[r2 l2]|e|s|]; cbn [post]; auto.
  intros [Hi H2]. split; [exact Hi|]. intro S. eapply sim_trans; [apply Hs; exact S|apply H2; exact S].
Qed.

Lemma post_bind root (x : res (node * log)) (k : node * log -> res (node * log)) :
  post root x ->
  (forall r1 l1, InvP r1 -> (strong -> sim root r1) -> post r1 (k (r1, l1))) ->
  post root (bind x k).
Proof.
  destruct x as [[r1 l1]|e|s|]; cbn [post bind]; auto.
  intros [Hi Hs] Hk. eapply post_trans; [exact Hs|]. apply Hk; assumption.
Qed.

Lemma post_ret root l : InvP root -> post root (Ok (root, l)).
Proof. intro Hi. split; [exact Hi|]. intros _. apply sim_refl. Qed.

Lemma post_log root x (g : log -> log) :
  post root x -> post root (do (r, l) <- x; Ok (r, g l))%outcome.
Proof. destruct x as [[r l]|e|s|]; cbn [post bind]; auto. Qed.

Lemma pre_sim path d root r1 : pre path d root -> InvP r1 -> (strong -> sim root r1) -> pre path d r1.
Proof.
  intros [_ Hv] Hi Hs. split; [exact Hi|]. intros S Hd. eapply vpath_sim; [apply Hs; exact S|auto].
Qed.

Lemma gooda_set_lc n t : (is_group n = true -> ~ strong) -> goodaP n -> goodaP (node_set_lc n t).
Proof.
  destruct n as [i c|e]; intros NS [H1 H2]; cbn [node_set_lc]; split; cbn [Pn children_of] in *; auto.
Qed.

Lemma perm_nodup (a b : list N) : Permutation a b -> NoDup b -> NoDup a.
Proof. intros P Nd. apply (Permutation_NoDup (Permutation_sym P) Nd). Qed.

Lemma put_group_nodup_same path root i0 c0 i c root' :
  find_group path root = Some (i0, c0) -> put_group path i c root = Some root' ->
  gi_uuid i = gi_uuid i0 -> Permutation (uus c) (uus c0) ->
  NoDup (all_uuids root) -> NoDup (all_uuids root').
Proof.
  intros E1 E2 Hu Hp Nd. destruct (put_group_perm _ _ _ _ _ _ _ E1 E2 Hu) as [_ H].
  specialize (H [] []). rewrite !app_nil_r in H. exact (perm_nodup _ _ (H Hp) Nd).
Qed.

Lemma put_entry_nodup path root e0 e root' :
  get_uuid path root = Some (NE e0) -> put_entry path e root = Some root' ->
  e_uuid e = e_uuid e0 -> NoDup (all_uuids root) -> NoDup (all_uuids root').
Proof.
  unfold put_entry. intros Hg Hp Hu Nd.
  apply update_uuid_perm in Hp as (g & g' & Hg' & Hfg & Himp). rewrite Hg in Hg'. injection Hg' as <-.
  injection Hfg as <-. destruct (Himp Hu) as [_ H]. specialize (H [] []). rewrite !app_nil_r in H.
  apply (perm_nodup _ _ (H (Permutation_refl _)) Nd).
Qed.

Lemma Inv_put_group path root i0 c0 i c root' :
  find_group path root = Some (i0, c0) -> put_group path i c root = Some root' ->
  gi_uuid i = gi_uuid i0 -> InvP root -> Pg i -> goodcP c -> NoDup (all_uuids root') -> InvP root'.
Proof.
  intros E1 E2 Hu (Hg & _ & Hr) Hi Hc Nd. split; [exact (proj1 (put_group_is_group _ _ _ _ _ E2))|].
  split; [exact Nd|]. destruct (put_group_inv Pe Pg _ _ _ _ _ _ _ E1 E2 Hu) as [H _].
  apply (proj2 (H Hr)); assumption.
Qed.

(* appending a new leaf to the group at a valid path *)
Lemma create_post path root pi pc x :
  InvP root -> find_group path root = Some (pi, pc) ->
  all_uuids x = [] -> children_of x = [] -> Pn Pe Pg x ->
  fnl_db (uuid_of x) (children_of root) = None ->
  exists root1, put_group path pi (pc ++ [x]) root = Some root1
    /\ InvP root1 /\ sim root root1 /\ (is_group x = true -> vpath (path ++ [uuid_of x]) root1).
Proof.
  intros Hi E1 Hx Hcx HP Hn. destruct (put_group_some path root pi pc pi (pc ++ [x]) E1) as [root1 E2].
  exists root1. split; [exact E2|].
  pose proof (put_group_new path root pi pc x root1 [Ev GroupCreated (uuid_of x)] E1 E2 Hx Hn eq_refl) as [_ Hs].
  destruct Hi as (Hg & Nd & Hr). destruct (Hs Nd) as [Nd1 _].
  destruct (put_group_inv Pe Pg _ _ _ _ _ _ _ E1 E2 eq_refl) as [H1 H2].
  destruct (H1 Hr) as [[Hpi Hpc] H1'].
  split.
  { split; [exact (proj1 (put_group_is_group _ _ _ _ _ E2))|]. split; [exact Nd1|].
    apply H1'; [exact Hpi|]. apply goodc_snoc; [exact Hpc|]. split; [exact HP|]. rewrite Hcx. apply goodc_nil. }
  split.
  { apply H2. apply amono_groups. intros y Hy _. apply in_or_app. left. exact Hy. }
  intro Gx. pose proof (put_group_get _ _ _ _ _ _ _ E1 E2 eq_refl) as Hget.
  apply get_uuid_at_path_inv in Hget. exists (children_of x).
  eapply at_path_snoc; [exact Hget| |exact Gx]. apply in_or_app. right. left. reflexivity.
Qed.

(* Database::relocate_node of the node that find_node_location has just found *)
Lemma relocate_post u dloc path ts root pi pc n :
  InvP root -> at_path dloc (children_of root) pc -> find_group dloc root = Some (pi, pc) ->
  In n pc -> uuid_of n = u -> find (fun c => N.eqb (uuid_of c) u) pc = Some n ->
  goodaP n -> goodaP (NG pi pc) -> (is_group n = true -> ~ strong) ->
  match relocate_node u dloc path ts root with
  | Ok r1 => InvP r1 /\ (is_group n = false -> sim root r1)
             /\ get_uuid (path ++ [u]) r1 = Some (node_set_lc n ts)
  | Err e => e = EFindGroup path /\ (is_group n = false -> ~ vpath path root)
  | _ => False
  end.
Proof.
  intros Hi Hp E1 Hn Hu Hfi Hgn Hgp HNS.
  destruct (relocate_node u dloc path ts root) as [r2|e|s|] eqn:ER.
  all: unfold relocate_node in ER; rewrite E1 in ER; cbn [of_option bind] in ER.
  all: destruct (remove_node_some u pc n Hfi) as [nd E2]; rewrite E2 in ER; cbn [of_option bind] in ER.
  all: destruct (put_group_some dloc root pi pc pi (filter (fun c => negb (N.eqb (uuid_of c) u)) pc) E1) as [root1 E3];
    rewrite E3 in ER; cbn [of_option bind] in ER.
  all: pose proof Hi as (Hg & Nd & Hr).
  all: destruct (put_group_removed _ _ _ _ _ _ _ _ E1 E2 E3) as [_ Hrem]; destruct (Hrem Nd) as [Hfl Hperm].
  all: assert (Hnd : nd = n) by
      (assert (Hin : In n [nd]) by (rewrite <- Hfl; apply filter_In; split; [exact Hn|apply N.eqb_eq; exact Hu]);
       destruct Hin as [Hin|[]]; exact Hin).
  all: subst nd.
  all: assert (Nd1 : NoDup (all_uuids root1)) by
      (apply (perm_nodup _ _ Hperm) in Nd; apply NoDup_app_iff in Nd; tauto).
  all: destruct (put_group_inv Pe Pg _ _ _ _ _ _ _ E1 E3 eq_refl) as [Hg1 Hs1].
  all: assert (Hi1 : InvP root1) by
      (split; [exact (proj1 (put_group_is_group _ _ _ _ _ E3))|]; split; [exact Nd1|];
       apply (proj2 (Hg1 Hr)); [exact (proj1 Hgp)|apply goodc_filter; exact (proj2 Hgp)]).
  all: assert (Hsim1 : is_group n = false -> sim root root1) by
      (intro Gn; apply Hs1; apply amono_groups; intros y Hy Gy; apply filter_In; split; [exact Hy|];
       destruct (N.eqb_spec (uuid_of y) u) as [Ey|Ney]; [|reflexivity]; exfalso;
       assert (Hin : In y [n]) by (rewrite <- Hfl; apply filter_In; split; [exact Hy|apply N.eqb_eq; exact Ey]);
       destruct Hin as [Hin|[]]; congruence).
  all: destruct (find_group path root1) as [[di dc]|] eqn:E4; cbn [of_option bind] in ER.
  all: try (destruct (put_group_some path root1 di dc di (dc ++ [node_set_lc n ts]) E4) as [root2 E5];
            rewrite E5 in ER; cbn [of_option] in ER).
  all: try discriminate.
  - (* success *)
    injection ER as <-.
    assert (ER : relocate_node u dloc path ts root = Ok root2).
    { unfold relocate_node. rewrite E1. cbn [of_option bind]. rewrite E2. cbn [of_option bind].
      rewrite E3. cbn [of_option bind]. rewrite E4. cbn [of_option bind]. rewrite E5. reflexivity. }
    apply relocate_node_perm in ER as [_ Hp2]. specialize (Hp2 Nd).
    assert (Nd2 : NoDup (all_uuids root2)) by exact (perm_nodup _ _ Hp2 Nd).
    destruct (put_group_inv Pe Pg _ _ _ _ _ _ _ E4 E5 eq_refl) as [Hg2 Hs2].
    destruct (Hg2 (proj2 (proj2 Hi1))) as [[Hdi Hdc] Hg2'].
    assert (Hi2 : InvP root2).
    { split; [exact (proj1 (put_group_is_group _ _ _ _ _ E5))|]. split; [exact Nd2|].
      apply Hg2'; [exact Hdi|]. apply goodc_snoc; [exact Hdc|]. apply gooda_set_lc; [exact HNS|exact Hgn]. }
    split; [exact Hi2|]. split.
    + intro Gn. eapply sim_trans; [exact (Hsim1 Gn)|]. apply Hs2. apply amono_groups.
      intros y Hy _. apply in_or_app. left. exact Hy.
    + pose proof (put_group_get _ _ _ _ _ _ _ E4 E5 eq_refl) as Hget.
      rewrite (get_uuid_snoc _ _ _ _ u Hget).
      assert (Hat : at_path path (children_of root2) (dc ++ [node_set_lc n ts]))
        by (eapply get_uuid_at_path_inv; exact Hget).
      assert (Ndc : NoDup (uus (dc ++ [node_set_lc n ts]))).
      { eapply at_path_unique; [exact Hat|]. rewrite <- all_uuids_children. exact Nd2. }
      rewrite <- Hu, <- (node_set_lc_uuid n ts). apply find_by_uuid; [exact Ndc|].
      apply in_or_app. right. left. reflexivity.
  - (* the target path is not there *)
    injection ER as <-. split; [reflexivity|]. intros Gn Hv.
    apply (vpath_sim _ _ _ (Hsim1 Gn)) in Hv.
    destruct (vpath_find Pe Pg path root1 Hi1 Hv) as (pi' & pc' & E & _). congruence.
Qed.

Lemma head_post si root : Sg si -> InvP root -> post root (merge_group_head now si root).
Proof.
  intros Hs Hi. pose proof Hi as (Hg & Nd & Hr).
  destruct root as [ri rc|e]; [|discriminate]. cbn [merge_group_head].
  destruct (N.eqb_spec (gi_uuid si) (gi_uuid ri)) as [E|Ne].
  - destruct Hr as [Hri Hrc]. cbn [Pn children_of] in Hri, Hrc.
    destruct (group_merge_cases now ri si) as [[[ri' lg] Eg]|[Eg Hc]]; rewrite Eg; cbn [bind post].
    + split.
      * split; [reflexivity|]. split; [exact Nd|]. split; [|exact Hrc]. cbn [Pn].
        eapply Pg_merge; [exact Hri|exact Hs|symmetry; exact E|exact Eg].
      * intros _. split; [|split; [reflexivity|apply amono_refl]]. cbn [uuid_of].
        eapply group_merge_with_keeps_uuid. exact Eg.
    + split; [|left; reflexivity]. intro S. apply Hc.
      exact (proj1 (strong_g S ri si Hri Hs (eq_sym E))).
  - unfold merge_group_head_below.
    destruct (fnl_db (gi_uuid si) (children_of (NG ri rc))) as [loc|] eqn:Ef; [|apply post_ret; exact Hi].
    destruct (lookup Pe Pg _ _ _ Hi Ef) as (pi & pc & n & Hp & Hfg & Hn & Hu & Hfi & Hget & Hgn & Hgp).
    destruct n as [di dc|e0].
    2:{ exfalso. destruct Hgn as [He0 _]. cbn [Pn uuid_of] in *. exact (kinds e0 si He0 (Sg_Pg _ Hs) Hu). }
    assert (E1 : find_group (loc ++ [gi_uuid si]) (NG ri rc) = Some (di, dc)).
    { unfold find_group. rewrite Hget. reflexivity. }
    rewrite E1. cbn [of_option bind]. destruct Hgn as [Hdi Hdc]. cbn [Pn children_of uuid_of] in Hdi, Hdc, Hu.
    destruct (group_merge_cases now di si) as [[[di' lg] Eg]|[Eg Hc]]; rewrite Eg; cbn [bind post].
    + pose proof (group_merge_with_keeps_uuid _ _ _ _ _ Eg) as Hu'.
      destruct (put_group_some _ _ _ _ di' dc E1) as [root1 E2]. rewrite E2. cbn [of_option bind post].
      split.
      * eapply Inv_put_group; [exact E1|exact E2|exact Hu'|exact Hi| |exact Hdc|].
        -- eapply Pg_merge; [exact Hdi|exact Hs|exact Hu|exact Eg].
        -- eapply put_group_nodup_same; [exact E1|exact E2|exact Hu'|apply Permutation_refl|exact Nd].
      * intros _. destruct (put_group_inv Pe Pg _ _ _ _ _ _ _ E1 E2 Hu') as [_ H]. apply H. apply amono_refl.
    + split; [|left; reflexivity]. intro S. apply Hc. exact (proj1 (strong_g S di si Hdi Hs Hu)).
Qed.

Lemma entry_step_post path in_del oe root :
  Pe oe -> pre path in_del root -> post root (merge_entry_step now deleted path in_del oe root).
Proof.
  intros Hoe [Hi Hv]. unfold merge_entry_step.
  destruct (fnl_db (e_uuid oe) (children_of root)) as [dloc|] eqn:Ef.
  - destruct (lookup Pe Pg _ _ _ Hi Ef) as (pi & pc & n & Hp & Hfg & Hn & Hu & Hfi & Hget & Hgn & Hgp).
    destruct n as [gi gc|existing].
    { exfalso. destruct Hgn as [Hgi _]. cbn [Pn uuid_of] in *. exact (kinds oe gi Hoe Hgi (eq_sym Hu)). }
    unfold find_entry at 1. rewrite Hget. cbn [unwrap bind].
    pose proof (proj1 Hgn) as Hex. cbn [Pn] in Hex. cbn [uuid_of] in Hu.
    match goal with |- post root (bind ?x ?k) => set (blk := x); set (kk := k) end.
    assert (Hblk : match blk with
                   | Ok (root1, existing1, loc1, lg1) =>
                     InvP root1 /\ (strong -> sim root root1) /\ Pe existing1
                     /\ e_uuid existing1 = e_uuid oe /\ get_uuid loc1 root1 = Some (NE existing1)
                   | Err e => ~ strong /\ allowed e
                   | _ => False
                   end).
    { assert (Hsame : InvP root /\ (strong -> sim root root) /\ Pe existing
                      /\ e_uuid existing = e_uuid oe
                      /\ get_uuid (dloc ++ [e_uuid oe]) root = Some (NE existing)).
      { repeat split; auto; try apply Hi. apply amono_refl. }
      subst blk. destruct (negb (optN_eqb (last_opt path) (last_opt dloc)) && negb in_del) eqn:Ec; [|exact Hsame].
      destruct (lc_or (e_times oe) 0%Z) as [src_lc w1]. destruct (lc_or (e_times existing) now) as [dst_lc w2].
      destruct (Z.gtb src_lc dst_lc); [|exact Hsame].
      pose proof (relocate_post (e_uuid oe) dloc path src_lc root pi pc (NE existing)
                    Hi Hp Hfg Hn Hu Hfi Hgn Hgp (fun F => False_ind _ (Bool.diff_false_true F))) as HR.
      destruct (relocate_node (e_uuid oe) dloc path src_lc root) as [r1|e|s|]; cbn [bind]; try contradiction.
      - destruct HR as (Hi1 & Hs1 & Hg1). split; [exact Hi1|]. split; [intros _; apply Hs1; reflexivity|].
        split; [apply Pe_lc; exact Hex|]. split; [exact Hu|exact Hg1].
      - destruct HR as [-> HR]. split.
        + intro S. apply HR; [reflexivity|]. apply Hv; [exact S|].
          apply andb_true_iff in Ec as [_ Ec]. destruct in_del; [discriminate|reflexivity].
        + right. right. eexists. reflexivity. }
    destruct blk as [[[[root1 existing1] loc1] lg1]|e|s|]; cbn [bind post]; try contradiction; [|exact Hblk].
    subst kk. cbv beta iota. destruct Hblk as (Hi1 & Hs1 & He1 & Hu1 & Hget1).
    destruct (entry_diverged existing1 oe) eqn:Ed; cbn [negb]; [|split; assumption].
    destruct (entry_merge_cases now existing1 oe (Pe_good _ He1) (Pe_good _ Hoe) Ed) as [[[m elog] Em]|[Em Hd]];
      rewrite Em; cbn [bind post].
    + destruct m as [m|]; [|split; assumption].
      destruct (entry_eqb existing1 m); [split; assumption|].
      assert (Hum : e_uuid m = e_uuid existing1).
      { destruct (entry_merge_uuid _ _ _ _ _ Em) as [E|E]; congruence. }
      destruct (update_uuid_some loc1 (fun n => match n with NE _ => Some (NE m) | NG _ _ => None end)
                  root1 (NE existing1) (NE m) Hget1 eq_refl) as [root2 Ep].
      fold (put_entry loc1 m root1) in Ep. rewrite Ep. cbn [of_option bind post].
      destruct (put_entry_inv Pe Pg _ _ _ _ _ Hget1 Ep Hum) as [Hg2 Hs2].
      destruct Hi1 as (G1 & Nd1 & Hr1). split.
      * split; [destruct Hs2 as (_ & G & _); congruence|]. split.
        -- eapply put_entry_nodup; [exact Hget1|exact Ep|exact Hum|exact Nd1].
        -- apply Hg2; [exact Hr1|]. eapply Pe_merge; [exact He1|exact Hoe|exact Hu1|exact Em].
      * intro S. eapply sim_trans; [exact (Hs1 S)|exact Hs2].
    + split; [|right; left; reflexivity]. intro S.
      destruct Hd as [Hd|Hd]; apply Hd; apply strong_e; assumption.
  - destruct (deleted_contains deleted (e_uuid oe)); [apply post_ret; exact Hi|].
    destruct in_del; [apply post_ret; exact Hi|].
    destruct (find_group path root) as [[pi pc]|] eqn:E1; cbn [of_option bind post].
    + destruct (create_post path root pi pc (NE oe) Hi E1 eq_refl eq_refl Hoe Ef) as (root1 & E2 & Hi1 & Hs1 & _).
      rewrite E2. cbn [of_option bind post]. split; [exact Hi1|intros _; exact Hs1].
    + split; [|right; right; eexists; reflexivity]. intro S.
      destruct (vpath_find Pe Pg path root Hi (Hv S eq_refl)) as (pi & pc & E & _). congruence.
Qed.

Lemma entries_post path in_del : forall l root,
  goodc Pe Sg l -> pre path in_del root -> post root (merge_entries now deleted path in_del l root).
Proof.
  induction l as [|x r IH]; intros root Hl Hpre; cbn [merge_entries].
  - apply post_ret. exact (proj1 Hpre).
  - apply goodc_cons in Hl as [Hx Hr]. destruct x as [j jc|oe]; [apply IH; assumption|].
    destruct Hx as [Hoe _]. cbn [Pn] in Hoe.
    apply post_bind; [apply entry_step_post; assumption|]. intros r1 l1 Hi1 Hs1. cbv beta iota.
    apply post_bind; [apply IH; [exact Hr|eapply pre_sim; eassumption]|].
    intros r2 l2 Hi2 Hs2. cbv beta iota. apply post_ret. exact Hi2.
Qed.

Lemma subgroup_step_post path in_del j rec root :
  Sg j -> pre path in_del root ->
  (forall p d rt, pre p d rt -> post rt (rec p d rt)) ->
  post root (merge_subgroup_step now deleted path in_del j rec root).
Proof.
  intros Hj [Hi Hv] Hrec. unfold merge_subgroup_step. cbv zeta.
  destruct (deleted_contains deleted (gi_uuid j) || in_del) eqn:Ec.
  { apply Hrec. split; [exact Hi|]. intros _ F. discriminate. }
  apply orb_false_iff in Ec as [_ ->].
  destruct (fnl_db (gi_uuid j) (children_of root)) as [dloc|] eqn:Ef.
  - destruct (lookup Pe Pg _ _ _ Hi Ef) as (pi & pc & n & Hp & Hfg & Hn & Hu & Hfi & Hget & Hgn & Hgp).
    destruct n as [ei ec|e0].
    2:{ exfalso. destruct Hgn as [He0 _]. cbn [Pn uuid_of] in *. exact (kinds e0 j He0 (Sg_Pg _ Hj) Hu). }
    cbn [uuid_of] in Hu.
    assert (Hvs : vpath (dloc ++ [gi_uuid j]) root).
    { exists ec. rewrite <- Hu. apply (at_path_snoc dloc _ pc (NG ei ec) Hp Hn eq_refl). }
    assert (Hstay : forall w,
              post root (do (root1, lg) <- rec (dloc ++ [gi_uuid j]) false root; Ok (root1, w ++ lg))%outcome).
    { intro w. apply (post_log root _ (fun l => w ++ l)). apply Hrec. split; [exact Hi|]. intros _ _. exact Hvs. }
    destruct (negb (path_eqb path dloc)); [|apply Hstay].
    assert (E1 : find_group (dloc ++ [gi_uuid j]) root = Some (ei, ec)).
    { unfold find_group. rewrite Hget. reflexivity. }
    rewrite E1. cbn [unwrap bind].
    destruct (lc_or (gi_times ei) now) as [e_lc w1] eqn:L1. destruct (lc_or (gi_times j) 0%Z) as [o_lc w2] eqn:L2.
    destruct (Z.ltb e_lc o_lc && negb (existsb (N.eqb (gi_uuid j)) path)) eqn:Em; [|apply Hstay].
    assert (NS : ~ strong).
    { intro S. destruct (strong_g S ei j (proj1 Hgn) Hj Hu) as [_ Hm]. unfold nomove in Hm.
      rewrite L1, L2 in Hm. cbn [fst] in Hm. rewrite Hm in Em. discriminate. }
    pose proof (relocate_post (gi_uuid j) dloc path o_lc root pi pc (NG ei ec)
                  Hi Hp Hfg Hn Hu Hfi Hgn Hgp (fun _ => NS)) as HR.
    destruct (relocate_node (gi_uuid j) dloc path o_lc root) as [r1|e|s|]; cbn [bind post]; try contradiction.
    + destruct HR as (Hi1 & _ & _).
      apply (post_trans root r1); [intro S; contradiction|].
      apply (post_log r1 _ (fun l => w1 ++ w2 ++ [Ev GroupLocationUpdated (gi_uuid j)] ++ l)).
      apply Hrec. split; [exact Hi1|]. intro S. contradiction.
    + destruct HR as [-> _]. split; [exact NS|]. right. right. eexists. reflexivity.
  - destruct (find_group path root) as [[pi pc]|] eqn:E1; cbn [of_option bind post].
    + destruct (create_post path root pi pc (NG j []) Hi E1 eq_refl eq_refl (Sg_Pg _ Hj) Ef)
        as (root1 & E2 & Hi1 & Hs1 & Hv1).
      rewrite E2. cbn [of_option bind]. apply (post_trans root root1); [intros _; exact Hs1|].
      apply (post_log root1 _ (fun l => [Ev GroupCreated (gi_uuid j)] ++ l)).
      apply Hrec. split; [exact Hi1|]. intros _ _. apply Hv1. reflexivity.
    + split; [|right; right; eexists; reflexivity]. intro S.
      destruct (vpath_find Pe Pg path root Hi (Hv S eq_refl)) as (pi & pc & E & _). congruence.
Qed.

Definition group_post_at (x : node) : Prop :=
  forall path in_del root,
    is_group x = true -> gooda Pe Sg x -> pre path in_del root ->
    post root (merge_group now deleted path x in_del root).

Lemma groups_loop_post path in_del : forall l,
  Forall group_post_at l -> forall root,
  goodc Pe Sg l -> pre path in_del root -> post root (groups_loop now deleted path in_del l root).
Proof.
  induction 1 as [|x r Hx _ IH]; intros root Hl Hpre.
  - rewrite groups_loop_nil. apply post_ret. exact (proj1 Hpre).
  - rewrite groups_loop_cons. apply goodc_cons in Hl as [Hgx Hr].
    destruct x as [j jc|e]; [|apply IH; assumption].
    apply post_bind.
    + apply subgroup_step_post; [exact (proj1 Hgx)|exact Hpre|].
      intros p d rt Hp. apply Hx; [reflexivity|exact Hgx|exact Hp].
    + intros r1 l1 Hi1 Hs1. cbv beta iota.
      apply post_bind; [apply IH; [exact Hr|eapply pre_sim; eassumption]|].
      intros r2 l2 Hi2 Hs2. cbv beta iota. apply post_ret. exact Hi2.
Qed.

Lemma merge_group_post_all : forall src, group_post_at src.
Proof.
  induction src as [e|si sch IH] using node_ind'; intros path in_del root Hgs Hsrc Hpre.
  - discriminate.
  - rewrite merge_group_unfold. destruct Hsrc as [Hsi Hsch]. cbn [Pn children_of] in Hsi, Hsch.
    apply post_bind; [apply head_post; [exact Hsi|exact (proj1 Hpre)]|].
    intros r0 l0 Hi0 Hs0. cbv beta iota.
    assert (Hpre0 : pre path in_del r0) by (eapply pre_sim; eassumption).
    apply post_bind; [apply entries_post; assumption|].
    intros r1 l1 Hi1 Hs1. cbv beta iota.
    assert (Hpre1 : pre path in_del r1) by (eapply pre_sim; eassumption).
    apply post_bind; [apply groups_loop_post; assumption|].
    intros r2 l2 Hi2 Hs2. cbv beta iota. apply post_ret. exact Hi2.
Qed.

End Walk.

(* ---------- the whole merge ---------- *)

Section Top.
Variables (now : Z).
Variables (Pe : entry -> Prop) (Pg Sg : ginfo -> Prop) (strong : Prop).
Hypothesis Sg_Pg : forall j, Sg j -> Pg j.
Hypothesis Pe_good : forall e, Pe e -> egood e.
Hypothesis kinds : forall e j, Pe e -> Pg j -> e_uuid e <> gi_uuid j.
Hypothesis Pe_lc : forall e t, Pe e -> Pe (e_set_times e (set_lc (e_times e) t)).
Hypothesis Pg_lc : ~ strong ->
  forall i t, Pg i -> Pg (mkGinfo (gi_uuid i) (gi_data i) (set_lc (gi_times i) t)).
Hypothesis Pe_merge : forall a b m lg,
  Pe a -> Pe b -> e_uuid a = e_uuid b -> entry_merge now a b = Ok (Some m, lg) -> Pe m.
Hypothesis Pg_merge : forall a b a' lg,
  Pg a -> Sg b -> gi_uuid a = gi_uuid b -> group_merge_with now a b = Ok (a', lg) -> Pg a'.
Hypothesis strong_g : strong -> forall i j,
  Pg i -> Sg j -> gi_uuid i = gi_uuid j -> gcompat now i j /\ nomove now i j.
Hypothesis strong_e : strong -> forall e, Pe e -> NoDup (hist_keys (hist_list e)).

Theorem merge_post d s :
  Inv Pe Pg (db_root d) -> gooda Pe Sg (db_root s) ->
  match merge now d s with
  | Ok _ => True
  | Err e => ~ strong /\ allowed e
  | _ => False
  end.
Proof.
  intros Hi Hs. unfold merge.
  pose proof (merge_group_post_all now (db_deleted d) Pe Pg Sg strong Sg_Pg Pe_good kinds Pe_lc Pg_lc
                Pe_merge Pg_merge strong_g strong_e (db_root s) [] false (db_root d) eq_refl Hs) as H.
  destruct (merge_group now (db_deleted d) [] (db_root s) false (db_root d)) as [[root1 lg1]|e|x|];
    cbn [bind post] in *.
  - assert (Hpre : pre Pe Pg strong [] false (db_root d)).
    { split; [exact Hi|]. intros _ _. exists (children_of (db_root d)). reflexivity. }
    destruct (H Hpre) as [Hi1 _].
    destruct (merge_deletions_ok now root1 (db_deleted d) (db_deleted s) (Inv_unique Pe Pg _ Hi1))
      as (r2 & del2 & lg2 & -> & _ & Hg).
    cbn [bind]. rewrite (proj1 Hi1) in Hg. destruct r2; [exact I|discriminate].
  - apply H. split; [exact Hi|]. intros _ _. exists (children_of (db_root d)). reflexivity.
  - apply H. split; [exact Hi|]. intros _ _. exists (children_of (db_root d)). reflexivity.
  - apply H. split; [exact Hi|]. intros _ _. exists (children_of (db_root d)). reflexivity.
Qed.
End Top.

(* ---------- what an entry merge produces ---------- *)

Lemma sorted_hist_nodup h :
  StronglySorted (fun a b => match t_lm (e_times a), t_lm (e_times b) with
                             | Some x, Some y => (x > y)%Z | _, _ => False end) h ->
  NoDup (hist_keys h).
Proof.
  induction 1 as [|a l Hl IH Ha]; cbn [hist_keys map]; constructor; [|exact IH].
  intro Hin. apply in_map_iff in Hin as (y & Ey & Hy).
  pose proof (proj1 (Forall_forall _ _) Ha y Hy) as Hgt. cbn beta in Hgt. rewrite Ey in Hgt.
  destruct (t_lm (e_times a)); [lia|exact Hgt].
Qed.

Lemma egood_set_lc e t : egood e -> egood (e_set_times e (set_lc (e_times e) t)).
Proof. destruct e as [u dd tt h]. unfold egood, hist_list. cbn. auto. Qed.

Lemma hist_set_lc e t : hist_list (e_set_times e (set_lc (e_times e) t)) = hist_list e.
Proof. destruct e as [u dd tt h]. reflexivity. Qed.

Lemma merge_history_good x y m lg :
  egood x -> egood y -> merge_history x y = Ok (m, lg) ->
  egood m /\ NoDup (hist_keys (hist_list m)).
Proof.
  intros [Lx Ax] [Ly Ay]. unfold merge_history.
  assert (A3 : all_lm (add_entry (hist_list y) y)).
  { unfold add_entry. constructor; [exact Ly|exact Ay]. }
  assert (H : forall w1 w2 w3 src', all_lm src' ->
     (do (h, lg0) <- history_merge_with (hist_list x) src';
      Ok (e_set_hist x (Some h), w1 ++ w2 ++ w3 ++ lg0))%outcome = Ok (m, lg) ->
     egood m /\ NoDup (hist_keys (hist_list m))).
  { intros w1 w2 w3 src' As E.
    destruct (history_merge_with (hist_list x) src') as [[h lg0]|e|s|] eqn:Eh; cbn [bind] in E; try discriminate.
    injection E as <- _. apply history_merge_union in Eh as (_ & _ & _ & Hs & _ & Hfrom & _ & _).
    assert (Hh : hist_list (e_set_hist x (Some h)) = h) by (destruct x; reflexivity).
    assert (Ht : e_times (e_set_hist x (Some h)) = e_times x) by (destruct x; reflexivity).
    unfold egood. rewrite Hh, Ht. split; [split; [exact Lx|]|apply sorted_hist_nodup; exact Hs].
    apply Forall_forall. intros z Hz. destruct (Hfrom z Hz) as [Hz'|Hz'].
    - exact (proj1 (Forall_forall _ _) Ax z Hz').
    - exact (proj1 (Forall_forall _ _) As z Hz'). }
  unfold hist_list in *.
  destruct (e_hist y) as [ho|]; destruct (e_hist x) as [hs|];
    destruct (has_uncommitted_changes y); apply H; assumption.
Qed.

Lemma entry_merge_good now a b m lg :
  egood a -> egood b -> entry_merge now a b = Ok (Some m, lg) ->
  egood m /\ NoDup (hist_keys (hist_list m)).
Proof.
  intros Ga Gb. unfold entry_merge.
  destruct (lm_or (e_times b) 0%Z) as [src_lm w1]. destruct (lm_or (e_times a) now) as [dst_lm w2].
  destruct (Z.eqb dst_lm src_lm); [destruct (negb (entry_diverged a b)); discriminate|].
  assert (H : forall m0, egood m0 /\ NoDup (hist_keys (hist_list m0)) ->
     egood (match t_lc (e_times a) with Some lc => e_set_times m0 (set_lc (e_times m0) lc) | None => m0 end)
     /\ NoDup (hist_keys (hist_list (match t_lc (e_times a) with
                                     | Some lc => e_set_times m0 (set_lc (e_times m0) lc) | None => m0 end)))).
  { intros m0 [G Nd]. destruct (t_lc (e_times a)); [|auto]. rewrite hist_set_lc. split; [apply egood_set_lc; exact G|exact Nd]. }
  destruct (Z.gtb dst_lm src_lm).
  - destruct (merge_history a b) as [[m0 l0]|e|s|] eqn:E; cbn [bind]; try discriminate.
    intro Hm. injection Hm as <- _. apply H. eapply merge_history_good; [exact Ga|exact Gb|exact E].
  - destruct (merge_history b a) as [[m0 l0]|e|s|] eqn:E; cbn [bind]; try discriminate.
    intro Hm. injection Hm as <- _. apply H. eapply merge_history_good; [exact Gb|exact Ga|exact E].
Qed.

(* ---------- the hypotheses on the two databases ---------- *)

Definition db_nodes (d : db) : list node := db_root d :: nodes_of (db_children d).

(* every entry and every history item carries a LastModificationTime *)
Definition wf_lm (d : db) : Prop := forall e, In (NE e) (db_nodes d) -> egood e.

(* the history items of an entry have pairwise distinct LastModificationTimes *)
Definition hist_distinct (d : db) : Prop :=
  forall e, In (NE e) (db_nodes d) -> NoDup (hist_keys (hist_list e)).

(* no UUID names an entry here and a group there (root groups included) *)
Definition kinds_agree (d s : db) : Prop :=
  forall e i c, In (NE e) (db_nodes d ++ db_nodes s) -> In (NG i c) (db_nodes d ++ db_nodes s) ->
                e_uuid e <> gi_uuid i.

(* a group on both sides (the roots included): equal LastModificationTime (absent = now in the
   destination, = epoch in the source, as the code reads them) means equal content, and the
   source's LocationChanged is not the later one *)
Definition groups_agree (now : Z) (d s : db) : Prop :=
  forall i c j c', In (NG i c) (db_nodes d) -> In (NG j c') (db_nodes s) -> gi_uuid i = gi_uuid j ->
                   gcompat now i j /\ nomove now i j.

Definition compatible (now : Z) (d s : db) : Prop :=
  forall i c j c', In (NG i c) (db_nodes d ++ db_nodes s) -> In (NG j c') (db_nodes s) ->
                   gi_uuid i = gi_uuid j -> gcompat now i j /\ nomove now i j.

Lemma db_nodes_uuids d : map uuid_of (db_nodes d) = gi_uuid (db_root_info d) :: uus (db_children d).
Proof. unfold db_nodes. cbn [map db_root uuid_of]. rewrite uus_nodes. reflexivity. Qed.

Lemma gcompat_refl now j : gcompat now j j.
Proof. intros _. unfold group_diverged. rewrite !N.eqb_refl. reflexivity. Qed.

Lemma nomove_refl now j : (0 <= now)%Z -> nomove now j j.
Proof.
  intro Hn. unfold nomove, lc_or. destruct (t_lc (gi_times j)); cbn [fst].
  - apply Z.ltb_irrefl.
  - apply Z.ltb_ge. exact Hn.
Qed.

(* with distinct UUIDs in the source, only the pairs destination/source have to be looked at *)
Lemma compatible_of_unique now d s :
  uuids_ok s -> (0 <= now)%Z -> groups_agree now d s -> compatible now d s.
Proof.
  intros Us Hn Hds i c j c' Hi Hj Hu. apply in_app_or in Hi as [Hi|Hi]; [eapply Hds; eassumption|].
  assert (E : NG i c = NG j c').
  { apply (NoDup_map_inj uuid_of (db_nodes s)); [rewrite db_nodes_uuids; exact Us|exact Hi|exact Hj|exact Hu]. }
  injection E as -> _. split; [apply gcompat_refl|apply nomove_refl; exact Hn].
Qed.

Lemma gooda_db (Pe : entry -> Prop) (Pg : ginfo -> Prop) dd :
  (forall e, In (NE e) (db_nodes dd) -> Pe e) -> (forall i c, In (NG i c) (db_nodes dd) -> Pg i) ->
  gooda Pe Pg (db_root dd).
Proof.
  intros He Hg. split.
  - cbn [db_root Pn]. apply (Hg _ (db_children dd)). left. reflexivity.
  - cbn [db_root children_of]. apply Forall_forall. intros n Hn.
    destruct n as [i c|e]; cbn [Pn]; [apply (Hg i c)|apply He]; right; exact Hn.
Qed.

Lemma inv_db (Pe : entry -> Prop) (Pg : ginfo -> Prop) dd :
  (forall e, In (NE e) (db_nodes dd) -> Pe e) -> (forall i c, In (NG i c) (db_nodes dd) -> Pg i) ->
  uuids_ok dd -> Inv Pe Pg (db_root dd).
Proof.
  intros He Hg Hu. split; [reflexivity|]. split; [|apply gooda_db; assumption].
  rewrite all_uuids_children. cbn [db_root children_of]. apply NoDup_cons_iff in Hu. tauto.
Qed.

(* ---------- (1), (2): no panic, and the errors that remain ---------- *)

Section Weak.
Variables (now : Z) (d s : db).

Definition isE (u : N) : Prop := exists e, In (NE e) (db_nodes d ++ db_nodes s) /\ e_uuid e = u.
Definition isG (u : N) : Prop := exists i c, In (NG i c) (db_nodes d ++ db_nodes s) /\ gi_uuid i = u.

Lemma merge_weak :
  wf_lm d -> wf_lm s -> uuids_ok d -> kinds_agree d s ->
  match merge now d s with
  | Ok _ => True
  | Err e => allowed e
  | _ => False
  end.
Proof.
  intros Wd Ws Ud K.
  pose proof (merge_post now (fun e => egood e /\ isE (e_uuid e)) (fun i => isG (gi_uuid i))
                (fun i => isG (gi_uuid i)) False) as H.
  assert (R : match merge now d s with Ok _ => True | Err e => ~ False /\ allowed e | _ => False end).
  { apply H; clear H.
    - auto.
    - intros e [G _]. exact G.
    - intros e j [_ (e' & He' & Eu)] (i & c & Hi & Eg) E. apply (K e' i c He' Hi). congruence.
    - intros e t [G (e' & He' & Eu)]. split; [apply egood_set_lc; exact G|].
      exists e'. split; [exact He'|]. destruct e; exact Eu.
    - intros _ i t Hi. exact Hi.
    - intros a b m lg [Ga Ea] [Gb Eb] Eab Em. split; [exact (proj1 (entry_merge_good _ _ _ _ _ Ga Gb Em))|].
      destruct (entry_merge_uuid _ _ _ _ _ Em) as [E|E]; rewrite E; assumption.
    - intros a b a' lg Ha _ _ Em. rewrite (group_merge_with_keeps_uuid _ _ _ _ _ Em). exact Ha.
    - intros [].
    - intros [].
    - apply inv_db; [| |exact Ud].
      + intros e He. split; [apply Wd; exact He|]. exists e. split; [apply in_or_app; left; exact He|reflexivity].
      + intros i c Hi. exists i, c. split; [apply in_or_app; left; exact Hi|reflexivity].
    - apply gooda_db.
      + intros e He. split; [apply Ws; exact He|]. exists e. split; [apply in_or_app; right; exact He|reflexivity].
      + intros i c Hi. exists i, c. split; [apply in_or_app; right; exact Hi|reflexivity]. }
  destruct (merge now d s); auto. exact (proj2 R).
Qed.

Theorem merge_never_panics :
  wf_lm d -> wf_lm s -> uuids_ok d -> kinds_agree d s -> forall site, merge now d s <> Panic site.
Proof. intros Wd Ws Ud K site E. pose proof (merge_weak Wd Ws Ud K) as H. rewrite E in H. exact H. Qed.

Theorem merge_errors_classified :
  wf_lm d -> wf_lm s -> uuids_ok d -> kinds_agree d s ->
  forall e, merge now d s = Err e ->
  e = EGroupTime \/ e = EDupHistory \/ exists p, e = EFindGroup p.
Proof. intros Wd Ws Ud K e E. pose proof (merge_weak Wd Ws Ud K) as H. rewrite E in H. exact H. Qed.

(* the same, said negatively: no internal lookup failure other than EFindGroup, no EEntryTime *)
Corollary merge_errors_not_internal :
  wf_lm d -> wf_lm s -> uuids_ok d -> kinds_agree d s ->
  forall e, merge now d s = Err e ->
  e <> EGeneric /\ (forall p, e <> EFindEntry p) /\ e <> EEntryTime.
Proof.
  intros Wd Ws Ud K e E. destruct (merge_errors_classified Wd Ws Ud K e E) as [->|[->|[p ->]]];
    repeat split; try discriminate; intros; discriminate.
Qed.

(* ---------- (3): success ---------- *)

Theorem merge_succeeds_gen :
  wf_lm d -> wf_lm s -> hist_distinct d -> hist_distinct s ->
  uuids_ok d -> kinds_agree d s -> compatible now d s ->
  exists d' lg, merge now d s = Ok (d', lg).
Proof.
  intros Wd Ws Hd Hs Ud K C.
  pose (Sg := fun j : ginfo => exists c, In (NG j c) (db_nodes s)).
  pose (Pg := fun i : ginfo => isG (gi_uuid i)
                 /\ forall j, Sg j -> gi_uuid i = gi_uuid j -> gcompat now i j /\ nomove now i j).
  pose (Pe := fun e : entry => egood e /\ isE (e_uuid e) /\ NoDup (hist_keys (hist_list e))).
  pose proof (merge_post now Pe Pg Sg True) as H.
  assert (SP : forall j, Sg j -> Pg j).
  { intros j [c Hj]. split.
    - exists j, c. split; [apply in_or_app; right; exact Hj|reflexivity].
    - intros j' [c' Hj'] Eu. apply (C j c j' c'); [apply in_or_app; right; exact Hj|exact Hj'|exact Eu]. }
  assert (R : match merge now d s with Ok _ => True | Err e => ~ True /\ allowed e | _ => False end).
  { apply H; clear H.
    - exact SP.
    - intros e [G _]. exact G.
    - intros e j (_ & (e' & He' & Eu) & _) [(i & c & Hi & Eg) _] E. apply (K e' i c He' Hi). congruence.
    - intros e t (G & (e' & He' & Eu) & Nd). split; [apply egood_set_lc; exact G|]. split.
      + exists e'. split; [exact He'|]. destruct e; exact Eu.
      + rewrite hist_set_lc. exact Nd.
    - intros F. exfalso. apply F. exact I.
    - intros a b m lg (Ga & Ea & _) (Gb & Eb & _) Eab Em.
      destruct (entry_merge_good _ _ _ _ _ Ga Gb Em) as [Gm Nm]. split; [exact Gm|]. split; [|exact Nm].
      destruct (entry_merge_uuid _ _ _ _ _ Em) as [E|E]; rewrite E; assumption.
    - intros a b a' lg [Ha Ca] Hb Eu Em. pose proof (SP b Hb) as [_ Cb].
      pose proof (group_merge_with_keeps_uuid _ _ _ _ _ Em) as Eu'. split; [rewrite Eu'; exact Ha|].
      intros j Hj Ej. rewrite Eu' in Ej. destruct (Ca j Hj Ej) as [Ca1 Ca2].
      assert (Ebj : gi_uuid b = gi_uuid j) by congruence. destruct (Cb j Hj Ebj) as [Cb1 Cb2].
      unfold group_merge_with in Em.
      destruct (lm_or (gi_times b) 0%Z) as [src_lm w1]. destruct (lm_or (gi_times a) now) as [dst_lm w2].
      destruct (Z.eqb dst_lm src_lm).
      { destruct (group_diverged a b); [discriminate|]. injection Em as <- _. auto. }
      destruct (Z.gtb dst_lm src_lm); [injection Em as <- _; auto|]. injection Em as <- _. split.
      + unfold gcompat in *. cbn [gi_times gi_uuid gi_data]. unfold group_diverged in *. cbn [gi_uuid gi_data].
        rewrite Eu. assert (El : forall t, t_lm t = t_lm (gi_times b) -> lm_or t now = lm_or (gi_times b) now)
          by (intros t Et; unfold lm_or; rewrite Et; reflexivity).
        rewrite El; [exact Cb1|]. destruct (t_lc (gi_times a)); reflexivity.
      + unfold nomove in *. cbn [gi_times]. destruct (t_lc (gi_times a)) as [t|] eqn:Ela.
        * unfold lc_or in Ca2 |- *. rewrite Ela in Ca2. cbn [set_lc t_lc]. exact Ca2.
        * exact Cb2.
    - intros _ i j [_ Ci] Hj Eu. apply Ci; assumption.
    - intros _ e (_ & _ & Nd). exact Nd.
    - apply inv_db; [| |exact Ud].
      + intros e He. split; [apply Wd; exact He|]. split; [|apply Hd; exact He].
        exists e. split; [apply in_or_app; left; exact He|reflexivity].
      + intros i c Hi. split; [exists i, c; split; [apply in_or_app; left; exact Hi|reflexivity]|].
        intros j [c' Hj] Eu. apply (C i c j c'); [apply in_or_app; left; exact Hi|exact Hj|exact Eu].
    - apply gooda_db.
      + intros e He. split; [apply Ws; exact He|]. split; [|apply Hs; exact He].
        exists e. split; [apply in_or_app; right; exact He|reflexivity].
      + intros i c Hi. exists c. exact Hi. }
  destruct (merge now d s) as [[d' lg]|e|x|]; try contradiction.
  - exists d', lg. reflexivity.
  - exfalso. apply (proj1 R). exact I.
Qed.

Theorem merge_succeeds :
  wf_lm d -> wf_lm s -> hist_distinct d -> hist_distinct s ->
  uuids_ok d -> uuids_ok s -> kinds_agree d s -> (0 <= now)%Z -> groups_agree now d s ->
  exists d' lg, merge now d s = Ok (d', lg).
Proof.
  intros Wd Ws Hd Hs Ud Us K Hn G. apply merge_succeeds_gen; try assumption.
  apply compatible_of_unique; assumption.
Qed.

End Weak.

(* ---------- the hypotheses are checkable ---------- *)

Definition has_lm (e : entry) : bool := match t_lm (e_times e) with Some _ => true | None => false end.
Definition egoodb (e : entry) : bool := has_lm e && forallb has_lm (hist_list e).

Fixpoint nodup_oz (l : list (option Z)) : bool :=
  match l with
  | [] => true
  | x :: r => negb (existsb (optz_eqb x) r) && nodup_oz r
  end.

Definition on_entries (f : entry -> bool) (l : list node) : bool :=
  forallb (fun n => match n with NE e => f e | NG _ _ => true end) l.

Definition wf_lmb (d : db) : bool := on_entries egoodb (db_nodes d).
Definition hist_distinctb (d : db) : bool :=
  on_entries (fun e => nodup_oz (hist_keys (hist_list e))) (db_nodes d).

Definition kinds_agreeb (d s : db) : bool :=
  forallb (fun n => forallb (fun m => match n, m with
                                      | NE e, NG i _ => negb (N.eqb (e_uuid e) (gi_uuid i))
                                      | _, _ => true
                                      end) (db_nodes d ++ db_nodes s)) (db_nodes d ++ db_nodes s).

Definition gcompatb (now : Z) (i j : ginfo) : bool :=
  if Z.eqb (fst (lm_or (gi_times i) now)) (fst (lm_or (gi_times j) 0%Z))
  then negb (group_diverged i j) else true.
Definition nomoveb (now : Z) (i j : ginfo) : bool :=
  negb (Z.ltb (fst (lc_or (gi_times i) now)) (fst (lc_or (gi_times j) 0%Z))).

Definition groups_agreeb (now : Z) (d s : db) : bool :=
  forallb (fun n => forallb (fun m => match n, m with
                                      | NG i _, NG j _ =>
                                        if N.eqb (gi_uuid i) (gi_uuid j)
                                        then gcompatb now i j && nomoveb now i j else true
                                      | _, _ => true
                                      end) (db_nodes s)) (db_nodes d).

Lemma on_entries_sound f l e : on_entries f l = true -> In (NE e) l -> f e = true.
Proof. intros H Hi. exact (proj1 (forallb_forall _ _) H (NE e) Hi). Qed.

Lemma egoodb_sound e : egoodb e = true -> egood e.
Proof.
  unfold egoodb, egood, has_lm. intro H. apply andb_true_iff in H as [H1 H2]. split.
  - destruct (t_lm (e_times e)); [discriminate|discriminate].
  - apply Forall_forall. intros h Hh. pose proof (proj1 (forallb_forall _ _) H2 h Hh) as Hl.
    cbn beta in Hl. destruct (t_lm (e_times h)); [discriminate|discriminate].
Qed.

Lemma nodup_oz_sound : forall l, nodup_oz l = true -> NoDup l.
Proof.
  induction l as [|x r IH]; intro H; [constructor|]. cbn [nodup_oz] in H.
  apply andb_true_iff in H as [H1 H2]. constructor; [|apply IH; exact H2].
  intro Hin. apply negb_true_iff in H1.
  assert (existsb (optz_eqb x) r = true); [|congruence].
  apply existsb_exists. exists x. split; [exact Hin|]. apply optz_eqb_eq. reflexivity.
Qed.

Lemma wf_lmb_sound d : wf_lmb d = true -> wf_lm d.
Proof. intros H e He. apply egoodb_sound. exact (on_entries_sound _ _ e H He). Qed.

Lemma hist_distinctb_sound d : hist_distinctb d = true -> hist_distinct d.
Proof. intros H e He. apply nodup_oz_sound. exact (on_entries_sound _ _ e H He). Qed.

Lemma kinds_agreeb_sound d s : kinds_agreeb d s = true -> kinds_agree d s.
Proof.
  intros H e i c He Hi E. pose proof (proj1 (forallb_forall _ _) H (NE e) He) as H1. cbn beta in H1.
  pose proof (proj1 (forallb_forall _ _) H1 (NG i c) Hi) as H2. cbn beta iota in H2.
  apply negb_true_iff in H2. apply N.eqb_neq in H2. contradiction.
Qed.

Lemma groups_agreeb_sound now d s : groups_agreeb now d s = true -> groups_agree now d s.
Proof.
  intros H i c j c' Hi Hj E. pose proof (proj1 (forallb_forall _ _) H (NG i c) Hi) as H1. cbn beta in H1.
  pose proof (proj1 (forallb_forall _ _) H1 (NG j c') Hj) as H2. cbn beta iota in H2.
  rewrite (proj2 (N.eqb_eq _ _) E) in H2. apply andb_true_iff in H2 as [H2 H3]. split.
  - unfold gcompat, gcompatb in *. intro El. rewrite (proj2 (Z.eqb_eq _ _) El) in H2.
    apply negb_true_iff in H2. exact H2.
  - unfold nomove, nomoveb in *. apply negb_true_iff in H3. exact H3.
Qed.

(* the three theorems from boolean checks *)
Theorem merge_never_panicsb now d s :
  wf_lmb d = true -> wf_lmb s = true -> uuids_okb d = true -> kinds_agreeb d s = true ->
  forall site, merge now d s <> Panic site.
Proof.
  intros Wd Ws Ud K. apply merge_never_panics;
    [apply wf_lmb_sound|apply wf_lmb_sound|apply uuids_okb_spec|apply kinds_agreeb_sound]; assumption.
Qed.

Theorem merge_succeedsb now d s :
  wf_lmb d = true -> wf_lmb s = true -> hist_distinctb d = true -> hist_distinctb s = true ->
  uuids_okb d = true -> uuids_okb s = true -> kinds_agreeb d s = true ->
  (0 <=? now)%Z = true -> groups_agreeb now d s = true ->
  exists d' lg, merge now d s = Ok (d', lg).
Proof.
  intros Wd Ws Hd Hs Ud Us K Hn G. apply merge_succeeds;
    [apply wf_lmb_sound|apply wf_lmb_sound|apply hist_distinctb_sound|apply hist_distinctb_sound
     |apply uuids_okb_spec|apply uuids_okb_spec|apply kinds_agreeb_sound|apply Z.leb_le
     |apply groups_agreeb_sound]; assumption.
Qed.

(* ---------- EntryModificationTimeNotUpdated is never reported (no hypothesis) ---------- *)
(* merge_group only calls Entry::merge on two versions that have diverged, and Entry::merge only
   raises this error on two versions that have not. *)

Local Notation net x := (x <> Err EEntryTime).

Lemma net_bind {A B} (x : res A) (f : A -> res B) : net x -> (forall a, net (f a)) -> net (bind x f).
Proof.
  destruct x as [a|e|s|]; cbn [bind]; intros H1 H2; try discriminate; [apply H2|].
  intro E. apply H1. injection E as ->. reflexivity.
Qed.

Lemma net_of_option {A} (e : merr) (o : option A) : e <> EEntryTime -> net (of_option e o).
Proof. destruct o; cbn [of_option]; [discriminate|congruence]. Qed.

Lemma net_unwrap {A} (site : N) (o : option A) : net (unwrap (E:=merr) site o).
Proof. destruct o; discriminate. Qed.

Lemma hist_self_net : forall l acc, net (hist_self acc l).
Proof.
  induction l as [|h r IH]; intro acc; cbn [hist_self]; [discriminate|].
  destruct (t_lm (e_times h)); [|discriminate]. destruct (lookup_time _ acc); [discriminate|apply IH].
Qed.

Lemma hist_other_net : forall l acc lg, net (hist_other acc lg l).
Proof.
  induction l as [|h r IH]; intros acc lg; cbn [hist_other]; [discriminate|].
  destruct (t_lm (e_times h)); [|discriminate]. destruct (lookup_time _ acc); apply IH.
Qed.

Lemma history_merge_with_net self other : net (history_merge_with self other).
Proof.
  unfold history_merge_with. apply net_bind; [apply hist_self_net|intro m1].
  apply net_bind; [apply hist_other_net|intros [m2 lg]; discriminate].
Qed.

Lemma merge_history_net self other : net (merge_history self other).
Proof.
  unfold merge_history.
  destruct (e_hist other), (e_hist self), (has_uncommitted_changes other); cbv beta iota;
    (apply net_bind; [apply history_merge_with_net|intros [h lg]; discriminate]).
Qed.

Lemma entry_merge_net now self other : entry_diverged self other = true -> net (entry_merge now self other).
Proof.
  intro Hd. unfold entry_merge.
  destruct (lm_or (e_times other) 0%Z) as [src_lm w1]. destruct (lm_or (e_times self) now) as [dst_lm w2].
  destruct (Z.eqb dst_lm src_lm).
  - rewrite Hd. discriminate.
  - apply net_bind; [destruct (Z.gtb dst_lm src_lm); apply merge_history_net|intros [m lg]; discriminate].
Qed.

Lemma group_merge_with_net now d s : net (group_merge_with now d s).
Proof.
  unfold group_merge_with.
  destruct (lm_or (gi_times s) 0%Z) as [src_lm w1]. destruct (lm_or (gi_times d) now) as [dst_lm w2].
  destruct (Z.eqb dst_lm src_lm).
  - destruct (group_diverged d s); discriminate.
  - destruct (Z.gtb dst_lm src_lm); discriminate.
Qed.

Lemma relocate_node_net u from to ts root : net (relocate_node u from to ts root).
Proof.
  unfold relocate_node.
  apply net_bind; [apply net_of_option; discriminate|intros [si sc]].
  apply net_bind; [apply net_of_option; discriminate|intros [nd kept]].
  apply net_bind; [apply net_of_option; discriminate|intros root1].
  apply net_bind; [apply net_of_option; discriminate|intros [di dc]]. apply net_of_option. discriminate.
Qed.

Lemma merge_group_head_below_net now si root : net (merge_group_head_below now si root).
Proof.
  unfold merge_group_head_below. destruct (fnl_db _ _) as [loc|]; [|discriminate].
  apply net_bind; [apply net_of_option; discriminate|intros [di dc]].
  apply net_bind; [apply group_merge_with_net|intros [di' lg]].
  apply net_bind; [apply net_of_option; discriminate|intros root1; discriminate].
Qed.

Lemma merge_group_head_net now si root : net (merge_group_head now si root).
Proof.
  unfold merge_group_head. destruct root as [ri rc|e]; [|apply merge_group_head_below_net].
  destruct (N.eqb (gi_uuid si) (gi_uuid ri)); [|apply merge_group_head_below_net].
  apply net_bind; [apply group_merge_with_net|intros [ri' lg]; discriminate].
Qed.

Lemma merge_entry_step_net now deleted path in_del oe root :
  net (merge_entry_step now deleted path in_del oe root).
Proof.
  unfold merge_entry_step. destruct (fnl_db _ _) as [dloc|].
  - apply net_bind; [apply net_unwrap|intro existing]. apply net_bind.
    + destruct (negb _ && negb in_del); [|discriminate].
      destruct (lc_or (e_times oe) 0%Z) as [src_lc w1].
      destruct (lc_or (e_times existing) now) as [dst_lc w2].
      destruct (Z.gtb src_lc dst_lc); [|discriminate].
      apply net_bind; [apply relocate_node_net|intro r1; discriminate].
    + intros [[[root1 existing1] loc1] lg1].
      destruct (entry_diverged existing1 oe) eqn:Ed; cbn [negb]; [|discriminate].
      apply net_bind; [apply entry_merge_net; exact Ed|intros [merged elog]].
      destruct merged as [m|]; [|discriminate]. destruct (entry_eqb existing1 m); [discriminate|].
      apply net_bind; [apply net_of_option; discriminate|intro root2; discriminate].
  - destruct (deleted_contains deleted (e_uuid oe)); [discriminate|]. destruct in_del; [discriminate|].
    apply net_bind; [apply net_of_option; discriminate|intros [pi pc]].
    apply net_bind; [apply net_of_option; discriminate|intro root1; discriminate].
Qed.

Lemma merge_entries_net now deleted path in_del : forall l root,
  net (merge_entries now deleted path in_del l root).
Proof.
  induction l as [|x r IH]; intro root; cbn [merge_entries]; [discriminate|].
  destruct x as [j jc|oe]; [apply IH|].
  apply net_bind; [apply merge_entry_step_net|intros [root1 lg1]].
  apply net_bind; [apply IH|intros [root2 lg2]; discriminate].
Qed.

Lemma merge_subgroup_step_net now deleted path in_del j rec root :
  (forall p d rt, net (rec p d rt)) -> net (merge_subgroup_step now deleted path in_del j rec root).
Proof.
  intro Hrec. unfold merge_subgroup_step. cbv zeta.
  destruct (deleted_contains deleted (gi_uuid j) || in_del); [apply Hrec|].
  destruct (fnl_db _ _) as [dloc|].
  - assert (Hstay : forall w,
              net (do (root1, lg) <- rec (dloc ++ [gi_uuid j]) in_del root; Ok (root1, w ++ lg))%outcome).
    { intro w. apply net_bind; [apply Hrec|intros [a b]; discriminate]. }
    destruct (negb (path_eqb path dloc)); [|apply Hstay].
    apply net_bind; [apply net_unwrap|intros [ei ec]].
    destruct (lc_or (gi_times ei) now) as [e_lc w1]. destruct (lc_or (gi_times j) 0%Z) as [o_lc w2].
    destruct (Z.ltb e_lc o_lc && _); [|apply Hstay].
    apply net_bind; [apply relocate_node_net|intro root1].
    apply net_bind; [apply Hrec|intros [root2 lg]; discriminate].
  - apply net_bind; [apply net_of_option; discriminate|intros [pi pc]].
    apply net_bind; [apply net_of_option; discriminate|intro root1].
    apply net_bind; [apply Hrec|intros [root2 lg]; discriminate].
Qed.

Lemma groups_loop_net now deleted path in_del : forall l,
  Forall (fun x => forall p d rt, net (merge_group now deleted p x d rt)) l ->
  forall root, net (groups_loop now deleted path in_del l root).
Proof.
  induction 1 as [|x r Hx _ IH]; intro root; [discriminate|].
  rewrite groups_loop_cons. destruct x as [j jc|e]; [|apply IH].
  apply net_bind; [apply merge_subgroup_step_net; exact Hx|intros [root1 lg1]].
  apply net_bind; [apply IH|intros [root2 lg2]; discriminate].
Qed.

Lemma merge_group_net now deleted : forall src path in_del root,
  net (merge_group now deleted path src in_del root).
Proof.
  induction src as [e|si sch IH] using node_ind'; intros path in_del root; [discriminate|].
  rewrite merge_group_unfold.
  apply net_bind; [apply merge_group_head_net|intros [root0 lg0]].
  apply net_bind; [apply merge_entries_net|intros [root1 lg1]].
  apply net_bind; [apply groups_loop_net; exact IH|intros [root2 lg2]; discriminate].
Qed.

Lemma del_entry_step_net now st o : net (del_entry_step now st o).
Proof.
  unfold del_entry_step. destruct (deleted_contains _ _); [discriminate|].
  destruct (fnl_db _ _) as [loc|]; [|discriminate].
  apply net_bind; [apply net_of_option; discriminate|intros [pi pc]].
  destruct (find _ pc) as [[gi gc|e]|]; try discriminate.
  destruct (lm_or (e_times e) now) as [lm w]. destruct (Z.ltb lm (d_time o)); [|discriminate].
  apply net_bind; [apply net_of_option; discriminate|intros [x kept]].
  apply net_bind; [apply net_of_option; discriminate|intro root1; discriminate].
Qed.

Lemma del_entries_net now : forall l st, net (del_entries now st l).
Proof.
  induction l as [|o r IH]; intro st; cbn [del_entries]; [discriminate|].
  apply net_bind; [apply del_entry_step_net|intro st1; apply IH].
Qed.

Lemma del_group_step_net now st o q : net (del_group_step now st o q).
Proof.
  unfold del_group_step. destruct (deleted_contains _ _); [discriminate|].
  destruct (fnl_db _ _) as [loc|]; [|discriminate].
  apply net_bind; [apply net_of_option; discriminate|intros [pi pc]].
  destruct (find _ pc) as [[gi gc|e]|]; try discriminate.
  destruct (existsb _ gc); [discriminate|]. destruct (existsb _ gc); [discriminate|].
  destruct (existsb _ gc); [discriminate|].
  destruct (lm_or (gi_times gi) now) as [lm w]. destruct (Z.ltb lm (d_time o)); [|discriminate].
  apply net_bind; [apply net_of_option; discriminate|intros [x kept]].
  apply net_bind; [apply net_of_option; discriminate|intro root1; discriminate].
Qed.

Lemma del_groups_net now : forall fuel st q, net (del_groups fuel now st q).
Proof.
  induction fuel as [|f IH]; intros st q; destruct q as [|o q']; cbn [del_groups]; try discriminate.
  apply net_bind; [apply del_group_step_net|intros [st1 q1]; apply IH].
Qed.

Theorem merge_never_entry_time now d s : merge now d s <> Err EEntryTime.
Proof.
  unfold merge. apply net_bind; [apply merge_group_net|intros [root1 lg1]].
  apply net_bind.
  - unfold merge_deletions. apply net_bind; [apply del_entries_net|intro st1].
    apply net_bind; [apply del_groups_net|intro st2; discriminate].
  - intros [[root2 del2] lg2]. destruct root2; discriminate.
Qed.

(* ---------- examples ---------- *)

Definition gx (u d : N) (lm lc : Z) (c : list node) : node := NG (mkGinfo u d (tm lm lc)) c.
Definition hx (u d : N) (lm lc : Z) : entry := mkEntry u d (tm lm lc) None.

(* Non-vacuity.  Ancestor: root/{G1/{e10}, e11}.  The destination edited e10 (time 5); the source
   renamed G1 (time 6), created e12 in G1 (time 7), edited e11 and moved it into G1 (time 8). *)
Definition ex_d : db := mkDb (mkGinfo 100 0 (tm 1 1))
  [gx 1 0 1 1 [NE (mkEntry 10 77 (tm 5 1) (Some [hx 10 77 5 1; hx 10 70 1 1]))];
   NE (mkEntry 11 80 (tm 1 1) (Some [hx 11 80 1 1]))] [].
Definition ex_s : db := mkDb (mkGinfo 100 0 (tm 1 1))
  [gx 1 9 6 1 [NE (mkEntry 10 70 (tm 1 1) (Some [hx 10 70 1 1]));
               NE (mkEntry 12 90 (tm 7 7) (Some [hx 12 90 7 7]));
               NE (mkEntry 11 88 (tm 8 8) (Some [hx 11 88 8 8; hx 11 80 1 1]))]] [].

Example ex_hypotheses :
  wf_lmb ex_d = true /\ wf_lmb ex_s = true /\ hist_distinctb ex_d = true /\ hist_distinctb ex_s = true
  /\ uuids_okb ex_d = true /\ uuids_okb ex_s = true /\ kinds_agreeb ex_d ex_s = true
  /\ (0 <=? 20)%Z = true /\ groups_agreeb 20 ex_d ex_s = true.
Proof. vm_compute. repeat split. Qed.

Example ex_succeeds : exists d' lg, merge 20 ex_d ex_s = Ok (d', lg).
Proof.
  destruct ex_hypotheses as (H1 & H2 & H3 & H4 & H5 & H6 & H7 & H8 & H9).
  apply merge_succeedsb; assumption.
Qed.

Example ex_result :
  merge 20 ex_d ex_s =
  Ok (mkDb (mkGinfo 100 0 (tm 1 1))
        [gx 1 9 6 1 [NE (mkEntry 10 77 (tm 5 1) (Some [hx 10 77 5 1; hx 10 70 1 1]));
                     NE (mkEntry 12 90 (tm 7 7) (Some [hx 12 90 7 7]));
                     NE (mkEntry 11 88 (tm 8 8) (Some [hx 11 88 8 8; hx 11 80 1 1]))]] [],
      [Ev GroupUpdated 1; Ev EntryCreated 12; Ev EntryLocationUpdated 11; Ev EntryUpdated 11]).
Proof. vm_compute. reflexivity. Qed.

(* EFindGroup on replicas of one database with distinct UUIDs and every stamp present: the
   classification (2) cannot be sharpened to "conflicts only", and [groups_agree] (its LocationChanged
   half) is needed in (3).  Ancestor root/{Y1/G2, J3}.  The source moved G2 to the root, J3 into G2,
   Y1 into J3 (LocationChanged 10) and created K4 in G2; the destination touched the location of
   G2 and J3 later (20).  G2 stays at [1;2], J3 stays at [3], Y1 is relocated from the root into
   [3] (the guard only looks at the callee's path [3]); creating K4 under [1;2] then fails. *)
Definition fg_d : db := mkDb (mkGinfo 100 0 (tm 1 1)) [gx 1 0 1 1 [gx 2 0 1 20 []]; gx 3 0 1 20 []] [].
Definition fg_s : db :=
  mkDb (mkGinfo 100 0 (tm 1 1)) [gx 2 0 1 10 [gx 3 0 1 10 [gx 1 0 1 10 []]; gx 4 0 5 5 []]] [].

Example cx_findgroup :
  wf_lmb fg_d = true /\ wf_lmb fg_s = true /\ hist_distinctb fg_d = true /\ hist_distinctb fg_s = true
  /\ uuids_okb fg_d = true /\ uuids_okb fg_s = true /\ kinds_agreeb fg_d fg_s = true
  /\ groups_agreeb 30 fg_d fg_s = false
  /\ merge 30 fg_d fg_s = Err (EFindGroup [1; 2]).
Proof. vm_compute. repeat split. Qed.

(* EGroupTime: one group, equal LastModificationTime, different content *)
Definition gt_d : db := mkDb (mkGinfo 100 0 (tm 1 1)) [gx 1 5 3 1 []] [].
Definition gt_s : db := mkDb (mkGinfo 100 0 (tm 1 1)) [gx 1 6 3 1 []] [].

Example cx_group_time :
  wf_lmb gt_d = true /\ wf_lmb gt_s = true /\ hist_distinctb gt_d = true /\ hist_distinctb gt_s = true
  /\ uuids_okb gt_d = true /\ uuids_okb gt_s = true /\ kinds_agreeb gt_d gt_s = true
  /\ groups_agreeb 20 gt_d gt_s = false
  /\ merge 20 gt_d gt_s = Err EGroupTime.
Proof. vm_compute. repeat split. Qed.

(* EDupHistory: the newer version's history holds two items with one stamp *)
Definition dh_d : db :=
  mkDb (mkGinfo 100 0 (tm 1 1)) [NE (mkEntry 10 77 (tm 5 1) (Some [hx 10 75 3 1; hx 10 70 3 1]))] [].
Definition dh_s : db :=
  mkDb (mkGinfo 100 0 (tm 1 1)) [NE (mkEntry 10 70 (tm 1 1) (Some [hx 10 70 1 1]))] [].

Example cx_dup_history :
  wf_lmb dh_d = true /\ wf_lmb dh_s = true /\ hist_distinctb dh_d = false /\ hist_distinctb dh_s = true
  /\ uuids_okb dh_d = true /\ uuids_okb dh_s = true /\ kinds_agreeb dh_d dh_s = true
  /\ groups_agreeb 20 dh_d dh_s = true
  /\ merge 20 dh_d dh_s = Err EDupHistory.
Proof. vm_compute. repeat split. Qed.

(* the two hypotheses of (1) are needed: a history item without a stamp, an entry whose UUID is a
   group's on the other side *)
Definition pn_d : db :=
  mkDb (mkGinfo 100 0 (tm 1 1)) [NE (mkEntry 10 77 (tm 5 1) (Some [mkEntry 10 70 times_default None]))] [].
Definition pk_d : db := mkDb (mkGinfo 100 0 (tm 1 1)) [gx 10 0 1 1 []] [].

Example cx_panic_stamp :
  wf_lmb pn_d = false /\ kinds_agreeb pn_d dh_s = true /\ uuids_okb pn_d = true
  /\ merge 20 pn_d dh_s = Panic site_hist_self_unwrap.
Proof. vm_compute. repeat split. Qed.

Example cx_panic_kind :
  wf_lmb pk_d = true /\ wf_lmb dh_s = true /\ kinds_agreeb pk_d dh_s = false /\ uuids_okb pk_d = true
  /\ merge 20 pk_d dh_s = Panic site_find_entry_unwrap.
Proof. vm_compute. repeat split. Qed.

Print Assumptions merge_never_panics.
Print Assumptions merge_errors_classified.
Print Assumptions merge_errors_not_internal.
Print Assumptions merge_never_entry_time.
Print Assumptions merge_succeeds_gen.
Print Assumptions merge_succeeds.
Print Assumptions merge_never_panicsb.
Print Assumptions merge_succeedsb.
Print Assumptions ex_succeeds.
Print Assumptions cx_findgroup.

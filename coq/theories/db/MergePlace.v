(* C14, tree level, remaining clauses: where nodes end up, which side's group fields win, where
   new nodes are created.

   Vocabulary (MergePlaceRows): [rows root] = for every node below the root, (UUID of the group
   that holds it, its own fields).  [parent_of], [group_of], [entry_at] look a UUID up.
   [srows deleted src] = the same for the source tree, each row with the flag
   is_in_deleted_group under which merge_group processes it: on for a sub-group whose UUID the
   destination has tombstoned and for everything below such a group ([srows_flag], [tombed]).
   LocationChanged is read as the code reads it: [lc_src] (missing = epoch) for the source,
   [lc_dst now] (missing = now) for the destination.

   For replicas with pairwise distinct UUIDs, any size and depth:
   (1) [merge_group_lww_tree], [merge_group_lww_digest]: group fields, last writer wins;
       [merge_dest_only_row]: rows whose UUID the source does not mention are untouched.
   (2) [merge_entry_place] / [entry_parent_cases], [merge_group_place] / [group_parent_cases]:
       the parent after the merge, the LocationChanged after a relocation, and the log event that
       tells a relocation; the relocation guard of groups: [merge_subgroup_step_spec]
       (MergePlaceWalk, the guard as the code has it), [group_moves_when_childless] (it cannot
       fire for a group without sub-groups in the destination).
   (3) [merge_creates], [created_parent_exists].
   (4) [root_group_merged], [root_group_lww]: since the repair F19 ("merge the root group's own
       fields") the root group's own fields are merged like any other group's, last writer wins;
       [root_group_untouched_when_uuids_differ].  (Before the repair this file proved the
       opposite, root_group_never_merged / root_group_lww_refuted: the root's fields were never
       merged, whichever side changed them last.)
   (1)-(3) are corollaries of [merge_spec].

   FALSE for the code as it is, with a computed witness:
   - [group_move_cycle_refuted] ("would-be cycle"): a group moved later by the source stays where it
     is when its new parent lies, in the destination, inside the group's own sub-tree.

   Hypotheses and why each is there (examples at the end of the file):
   - UUIDs below the destination root distinct        [cx_dest_unique_needed]
   - UUIDs of the source distinct, root included      [cx_source_unique_needed], [cx_source_ok_needed]
   - the destination root's UUID does not occur below the source root (new with the repair F19: a
     source group carrying it is merged into the destination's ROOT group, not into the
     destination group with that UUID); for replicas with the same root UUID this is part of
     "UUIDs of the source distinct, root included"    [cx_dest_root_below_source_needed]
   - same root UUID (placement and creation only)     [cx_same_root_needed]
   - "no source tombstone names the node" for the statements about the final tree; otherwise the
     alternative [removed_logged]                     [cx_tombstone_alternative_needed]
   - flag off (relocation, creation)                  [flag_blocks_move_and_creation]
   - "no sub-group in the destination" ([group_moves_when_childless])   [cycle_has_subgroup]
   Not needed: anything about time stamps of other nodes, histories, the destination's root UUID
   being absent below the root, where the nodes sit (any depth).  All statements are about
   successful merges (merge ... = Ok ...). *)
From Coq Require Import Permutation.
From KP Require Import Bytes Outcome Tree TreeFacts History Merge MergeProofs MergeLookup
     MergeTermination MergeUuids MergeSelf MergeUnique MergeLwwEntry MergeLwwFrame MergeLww
     MergeDelTree MergeDel MergePlaceRows MergePlaceWalk MergePlaceGuard.
Local Open Scope N_scope.

(* ---------- lookups ---------- *)

Definition parent_of (u : N) (root : node) : option N := option_map fst (row_of u root).
Definition group_of (u : N) (root : node) : option ginfo :=
  match row_of u root with Some (_, IG i) => Some i | _ => None end.
Definition entry_at (u : N) (root : node) : option entry :=
  match row_of u root with Some (_, IE e) => Some e | _ => None end.
(* all group infos below the root *)
Definition groups (root : node) : list ginfo :=
  flat_map (fun r => match snd r with IG i => [i] | IE _ => [] end) (rows root).

Lemma groups_in root i : In i (groups root) <-> exists p, In (p, IG i) (rows root).
Proof.
  unfold groups. rewrite in_flat_map. split.
  - intros ([p it] & Hr & Hi). cbn [snd] in Hi. destruct it as [j|e]; [|destruct Hi].
    destruct Hi as [<-|[]]. exists p. exact Hr.
  - intros (p & Hr). exists (p, IG i). split; [exact Hr|left; reflexivity].
Qed.

Lemma row_of_in root p it :
  NoDup (all_uuids root) -> In (p, it) (rows root) -> row_of (iu it) root = Some (p, it).
Proof. intros Nd H. apply row_of_eq; [exact Nd|]. split; [exact H|reflexivity]. Qed.

Lemma parent_of_in root p it :
  NoDup (all_uuids root) -> In (p, it) (rows root) -> parent_of (iu it) root = Some p.
Proof. intros Nd H. unfold parent_of. rewrite (row_of_in _ _ _ Nd H). reflexivity. Qed.

Lemma group_of_in root p i :
  NoDup (all_uuids root) -> In (p, IG i) (rows root) -> group_of (gi_uuid i) root = Some i.
Proof. intros Nd H. unfold group_of. pose proof (row_of_in _ _ (IG i) Nd H) as E. cbn [iu] in E. rewrite E. reflexivity. Qed.

Lemma entry_at_in root p e :
  NoDup (all_uuids root) -> In (p, IE e) (rows root) -> entry_at (e_uuid e) root = Some e.
Proof. intros Nd H. unfold entry_at. pose proof (row_of_in _ _ (IE e) Nd H) as E. cbn [iu] in E. rewrite E. reflexivity. Qed.

Lemma parent_of_none root u : ~ In u (all_uuids root) -> parent_of u root = None.
Proof.
  intro H. unfold parent_of. pose proof (row_of_ustate u root) as S.
  destruct (row_of u root) as [r|]; [|reflexivity]. destruct S as [Hr E]. exfalso. apply H.
  rewrite <- E. apply row_uuid_in. exact Hr.
Qed.

(* the entries of MergeLwwFrame are the entry rows *)
Lemma fents_rows : forall n e, In e (fents n) <-> n = NE e \/ exists p, In (p, IE e) (rows n).
Proof.
  induction n as [e0|i ch IH] using node_ind'; intro e.
  - cbn [fents rows In]. split.
    + intros [->|[]]. left. reflexivity.
    + intros [H|(p & [])]. injection H as ->. left. reflexivity.
  - rewrite fents_NG. unfold entsl. rewrite in_flat_map. split.
    + intros (c & Hc & He). right. apply (proj1 (Forall_forall _ _) IH c Hc) in He as [->|(p & Hp)].
      * exists (gi_uuid i). rewrite rows_NG. apply in_crows. exists (NE e). split; [exact Hc|left; reflexivity].
      * exists p. rewrite rows_NG. apply in_crows. exists c. split; [exact Hc|right; exact Hp].
    + intros [H|(p & Hp)]; [discriminate|]. rewrite rows_NG in Hp. apply in_crows in Hp as (c & Hc & [Hp|Hp]).
      * injection Hp as _ Hit. destruct c as [ci cc|ce]; [discriminate|]. injection Hit as ->.
        exists (NE e). split; [exact Hc|left; reflexivity].
      * exists c. split; [exact Hc|]. apply (proj1 (Forall_forall _ _) IH c Hc). right. exists p. exact Hp.
Qed.

Lemma ents_rows root e : In e (ents root) <-> exists p, In (p, IE e) (rows root).
Proof.
  destruct root as [i ch|e0].
  - change (ents (NG i ch)) with (fents (NG i ch)). rewrite fents_rows. split; [intros [H|H]; [discriminate|exact H]|auto].
  - cbn. split; [intros []|intros (p & [])].
Qed.

(* the source's rows with their flags; the children of the root carry the root's UUID *)
Definition srows (deleted : list dobj) (n : node) : list (bool * row) :=
  srows_l deleted false (uuid_of n) n.

Lemma srows_l_items deleted : forall n f lbl,
  map (fun x => snd (snd x)) (srows_l deleted f lbl n) = map snd (rows n).
Proof.
  induction n as [e|i ch IH] using node_ind'; intros f lbl; [reflexivity|].
  cbn [srows_l rows]. induction IH as [|x r Hx _ IHr]; [reflexivity|].
  cbn [flat_map map app]. rewrite !map_app. f_equal. f_equal; [apply Hx|exact IHr].
Qed.

Lemma rows_in_srows_l deleted n f lbl p it :
  In (p, it) (rows n) -> exists f' p', In (f', (p', it)) (srows_l deleted f lbl n).
Proof.
  intro H. assert (Hi : In it (map snd (rows n))) by (apply (in_map snd) in H; exact H).
  rewrite <- (srows_l_items deleted n f lbl) in Hi. apply in_map_iff in Hi as ([f' [p' it']] & E & Hin).
  cbn [snd] in E. subst it'. exists f', p'. exact Hin.
Qed.

Lemma srows_l_snd deleted : forall n f, map snd (srows_l deleted f (uuid_of n) n) = rows n.
Proof.
  induction n as [e|i ch IH] using node_ind'; intros f; [reflexivity|].
  cbn [srows_l rows uuid_of]. induction IH as [|x r Hx _ IHr]; [reflexivity|].
  cbn [flat_map map app]. rewrite map_app. f_equal. f_equal; [apply Hx|exact IHr].
Qed.

Lemma srows_rows deleted n f p it : In (f, (p, it)) (srows deleted n) -> In (p, it) (rows n).
Proof.
  intro H. unfold srows in H. rewrite <- (srows_l_snd deleted n false).
  apply (in_map snd) in H. exact H.
Qed.

(* ---------- the deletion phase keeps rows ---------- *)

Lemma item_of_prune now deleted src n : item_of (prune now deleted src n) = item_of n.
Proof. destruct n; [rewrite prune_NG|]; reflexivity. Qed.

Lemma rows_prune_incl now deleted src : forall x, incl (rows (prune now deleted src x)) (rows x).
Proof.
  induction x as [e|i ch IH] using node_ind'; [intros r []|].
  rewrite prune_NG, !rows_NG. intros r Hr. apply in_crows in Hr as (c' & Hc' & Hr).
  rewrite prunes_filter_map in Hc'. apply in_map_iff in Hc' as (c & <- & Hc).
  apply filter_In in Hc as [Hc _]. apply in_crows. exists c. split; [exact Hc|].
  destruct Hr as [<-|Hr]; [left; rewrite item_of_prune; reflexivity|right].
  exact (proj1 (Forall_forall _ _) IH c Hc r Hr).
Qed.

Definition removed_logged (lg : log) (u : N) : Prop :=
  In (Ev EntryDeleted u) lg \/ In (Ev GroupDeleted u) lg.

(* Database::merge = merge_group, then a phase that only removes rows: a row of the tree after
   merge_group is still there unless a deletion event names its UUID, which takes a tombstone of
   the source *)
Theorem merge_phases now d s d' lg :
  uuids_unique (db_children d) -> merge now d s = Ok (d', lg) ->
  exists root1 lg1 lg2,
    merge_group now (db_deleted d) [] (db_root s) false (db_root d) = Ok (root1, lg1)
    /\ lg = lg1 ++ lg2
    /\ NoDup (all_uuids root1) /\ NoDup (all_uuids (db_root d'))
    /\ incl (rows (db_root d')) (rows root1)
    /\ (forall u, In u (all_uuids root1) -> In u (all_uuids (db_root d')) \/ removed_logged lg2 u)
    /\ (forall u, In u (all_uuids root1) -> deleted_contains (db_deleted s) u = false ->
                  In u (all_uuids (db_root d')))
    /\ (forall ev, In ev lg2 ->
          ev = Warn \/ exists u, ev = Ev EntryDeleted u \/ ev = Ev GroupDeleted u).
Proof.
  unfold merge. intros Nd H.
  destruct (merge_group _ _ _ _ _ _) as [[root1 lg1]| | |] eqn:E1; cbn [bind] in H; try discriminate.
  destruct (merge_deletions _ _ _ _) as [[[root2 del2] lg2]| | |] eqn:E2; cbn [bind] in H; try discriminate.
  destruct root2 as [i c|e]; [|discriminate]. injection H as <- <-.
  change (db_root (mkDb i c del2)) with (NG i c).
  change (NoDup (all_uuids (db_root d))) in Nd.
  destruct (merge_group_step _ _ _ _ _ _ _ _ E1) as [_ H1]. destruct (H1 Nd) as [Nd1 _].
  assert (U1 : uuids_unique (children_of root1)).
  { change (NoDup (uus (children_of root1))). rewrite <- all_uuids_children. exact Nd1. }
  pose proof (merge_deletions_prune _ _ _ _ _ _ _ U1 E2) as Ep.
  destruct (merge_deletions_step _ _ _ _ _ _ _ E2) as [_ H2]. destruct (H2 Nd1) as (Nd2 & gone & Pg & Gl).
  exists root1, lg1, lg2. split; [reflexivity|]. split; [reflexivity|]. split; [exact Nd1|]. split; [exact Nd2|].
  split; [rewrite Ep; apply rows_prune_incl|]. split; [|split].
  - intros u Hu. apply (Permutation_in _ (Permutation_sym Pg)) in Hu.
    apply in_app_or in Hu as [Hu|Hu]; [left; exact Hu|right; exact (Gl u Hu)].
  - intros u Hu Hs. apply (deletions_rule _ _ _ _ _ _ _ U1 E2 u). split; [exact Hu|].
    destruct (doomed_uuid now (db_deleted d) (db_deleted s) root1 u) eqn:D; [exfalso|reflexivity].
    unfold doomed_uuid in D. destruct (lookup u root1) as [n|] eqn:L; [|discriminate].
    apply lookup_some in L as [_ Eu]. apply doomed_tomb in D. unfold tomb in D.
    apply andb_true_iff in D as [_ D]. unfold tomb_in in D. apply existsb_exists in D as (o & Ho & Ef).
    unfold eff in Ef. apply andb_true_iff in Ef as [Ef _].
    assert (C : deleted_contains (db_deleted s) u = true).
    { apply existsb_exists. exists o. split; [exact Ho|]. rewrite <- Eu. exact Ef. }
    congruence.
  - destruct (merge_deletions_recorded _ _ _ _ _ _ _ U1 E2) as (added & _ & _ & _ & _ & Hlog).
    intros ev Hev. destruct (Hlog ev Hev) as [->|(o & n & _ & _ & _ & ->)]; [left; reflexivity|right].
    exists (d_uuid o). unfold kind_ev. destruct (is_group n); auto.
Qed.

Lemma phase_ustate root1 root2 u o :
  NoDup (all_uuids root1) -> incl (rows root2) (rows root1) ->
  ustate u root1 o -> In u (all_uuids root2) \/ o = None -> ustate u root2 o.
Proof.
  intros Nd Hi Ho Hc. destruct o as [r|]; cbn [ustate] in *.
  - destruct Ho as [Hr E]. split; [|exact E]. destruct Hc as [Hu|Hn]; [|discriminate].
    apply uuid_row_in in Hu as (r' & Hr' & E').
    rewrite (row_unique root1 r r' Nd Hr (Hi r' Hr')); [exact Hr'|congruence].
  - intro Hu. apply Ho. apply uuid_row_in in Hu as (r' & Hr' & <-). apply row_uuid_in. apply Hi. exact Hr'.
Qed.

(* ---------- the statement behind everything: the walk's relation, at the level of merge ---------- *)

Definition in_or_removed (root' : node) (lg : log) (u : N) (post : option row) : Prop :=
  ustate u root' post
  \/ (post <> None /\ ~ In u (all_uuids root') /\ removed_logged lg u).

(* the destination root's UUID does not occur below the source root; with the same root UUID on
   both sides this is part of [uuids_ok s] *)
Lemma same_root_not_below d s :
  uuids_ok s -> gi_uuid (db_root_info d) = gi_uuid (db_root_info s) ->
  ~ In (gi_uuid (db_root_info d)) (uus (db_children s)).
Proof. unfold uuids_ok. intros Ns Hr. rewrite Hr. apply NoDup_cons_iff in Ns as [Hn _]. exact Hn. Qed.

Theorem merge_spec now d s d' lg :
  uuids_unique (db_children d) -> uuids_ok s ->
  ~ In (gi_uuid (db_root_info d)) (uus (db_children s)) ->     (* F19 *)
  merge now d s = Ok (d', lg) ->
  forall f ps it,
    In (f, (ps, it)) (srows_l (db_deleted d) false (gi_uuid (db_root_info d)) (db_root s)) ->
  forall pre, ustate (iu it) (db_root d) pre ->
  exists post, nrel now (db_deleted d) f ps it pre post lg
    /\ in_or_removed (db_root d') lg (iu it) post
    /\ (deleted_contains (db_deleted s) (iu it) = false -> ustate (iu it) (db_root d') post).
Proof.
  intros Nd Ns Hnb H f ps it Hin pre Hpre.
  destruct (merge_phases _ _ _ _ _ Nd H) as (root1 & lg1 & lg2 & E1 & -> & Nd1 & Nd2 & Hi & Hgone & Hkeep & Hlog).
  change (NoDup (all_uuids (db_root d))) in Nd.
  destruct (spec_all now (db_deleted d) (db_root s) [] false (db_root d) root1 lg1
              (gi_uuid (db_root_info d)) E1 Nd Ns eq_refl Hnb f ps it Hin pre Hpre) as (post & Hpost & Hrel).
  exists post. split; [|split].
  - apply (nrel_log _ _ _ _ _ _ _ lg1); [|exact Hrel]. apply in_app_iff_l. intro Hm.
    destruct (Hlog _ Hm) as [E|(u & [E|E])]; destruct it; discriminate.
  - destruct post as [r|]; [|left; apply (phase_ustate root1); auto].
    destruct Hpost as [Hr Er].
    destruct (in_dec N.eq_dec (iu it) (all_uuids (db_root d'))) as [Hu|Hu].
    + left. apply (phase_ustate root1); [exact Nd1|exact Hi|split; assumption|left; exact Hu].
    + right. split; [discriminate|]. split; [exact Hu|].
      assert (H1 : In (iu it) (all_uuids root1)) by (rewrite <- Er; apply row_uuid_in; exact Hr).
      destruct (Hgone _ H1) as [X|[X|X]]; [contradiction|left|right]; apply in_or_app; right; exact X.
  - intro Hs. apply (phase_ustate root1); [exact Nd1|exact Hi|exact Hpost|].
    destruct post as [r|]; [left|right; reflexivity]. destruct Hpost as [Hr Er].
    apply Hkeep; [|exact Hs]. rewrite <- Er. apply row_uuid_in. exact Hr.
Qed.

(* ---------- LocationChanged through the component merges ---------- *)

Lemma group_merge_with_keeps_lc now g s g' lg c :
  group_merge_with now g s = Ok (g', lg) -> t_lc (gi_times g) = Some c -> t_lc (gi_times g') = Some c.
Proof.
  unfold group_merge_with. intros H Hc.
  destruct (lm_or (gi_times s) 0%Z) as [src_lm w1]. destruct (lm_or (gi_times g) now) as [dst_lm w2].
  destruct (Z.eqb dst_lm src_lm).
  - destruct (group_diverged g s); [discriminate|]. injection H as <- _. exact Hc.
  - destruct (Z.gtb dst_lm src_lm); injection H as <- _; [exact Hc|]. cbn [gi_times]. rewrite Hc. reflexivity.
Qed.

Lemma entry_merge_keeps_lc now a b m lg c :
  entry_merge now a b = Ok (Some m, lg) -> t_lc (e_times a) = Some c -> t_lc (e_times m) = Some c.
Proof.
  unfold entry_merge. intros H Hc.
  destruct (lm_or (e_times b) 0%Z) as [src_lm w1]. destruct (lm_or (e_times a) now) as [dst_lm w2].
  destruct (Z.eqb dst_lm src_lm).
  - destruct (negb (entry_diverged a b)); discriminate.
  - destruct (Z.gtb dst_lm src_lm).
    + destruct (merge_history a b) as [[m0 l0]| | |]; cbn [bind] in H; try discriminate.
      injection H as <- _. rewrite Hc. destruct m0; reflexivity.
    + destruct (merge_history b a) as [[m0 l0]| | |]; cbn [bind] in H; try discriminate.
      injection H as <- _. rewrite Hc. destruct m0; reflexivity.
Qed.

Lemma lww_out_keeps_lc now e1 oe e' c :
  lww_out now e1 oe e' -> t_lc (e_times e1) = Some c -> t_lc (e_times e') = Some c.
Proof.
  intros [[_ ->]|[_ [[_ ->]|[elog H]]]] Hc; [exact Hc|exact Hc|].
  exact (entry_merge_keeps_lc _ _ _ _ _ _ H Hc).
Qed.

Lemma entry_set_lc_lc e c : t_lc (e_times (entry_set_lc e c)) = Some c.
Proof. destruct e; reflexivity. Qed.

(* ====================================================================================== *)
(* (1) GROUPS: last writer wins on the group's own fields                                  *)
(* ====================================================================================== *)

(* A group that both trees hold (below their roots), at any depth, moved or not, below a
   tombstoned group or not: the destination's info becomes Group::merge_with of (the destination's
   info - with the source's LocationChanged if the group was relocated) and the source's info.
   The group is still in the tree unless the deletion phase removed it (logged; it takes a source
   tombstone). *)
Theorem merge_group_lww_tree now d s d' lg pd gd ps gs :
  uuids_unique (db_children d) -> uuids_ok s ->
  ~ In (gi_uuid (db_root_info d)) (uus (db_children s)) ->     (* F19 *)
  In (pd, IG gd) (rows (db_root d)) -> In (ps, IG gs) (rows (db_root s)) -> gi_uuid gd = gi_uuid gs ->
  merge now d s = Ok (d', lg) ->
  exists g1 g' lg' p',
    (g1 = gd \/ g1 = ginfo_set_lc gd (lc_src (gi_times gs)))
    /\ group_merge_with now g1 gs = Ok (g', lg')
    /\ (In (p', IG g') (rows (db_root d')) \/ removed_logged lg (gi_uuid gs))
    /\ (deleted_contains (db_deleted s) (gi_uuid gs) = false ->
        In (p', IG g') (rows (db_root d')) /\ group_of (gi_uuid gs) (db_root d') = Some g').
Proof.
  intros Nd Ns Hnb Hd Hs Hu H.
  destruct (rows_in_srows_l (db_deleted d) _ false (gi_uuid (db_root_info d)) _ _ Hs) as (f & ps' & Hin).
  assert (Hpre : ustate (iu (IG gs)) (db_root d) (Some (pd, IG gd))) by (split; [exact Hd|exact Hu]).
  destruct (merge_spec _ _ _ _ _ Nd Ns Hnb H f ps' (IG gs) Hin _ Hpre) as (post & Hrel & Hio & Hk).
  cbn [nrel grel] in Hrel. destruct Hrel as (p' & g1 & g' & lg' & -> & Hm & Hc).
  exists g1, g', lg', p'. split; [destruct Hc as [(_ & -> & _)|(_ & -> & _)]; auto|]. split; [exact Hm|].
  cbn [iu] in *. split.
  - destruct Hio as [[Hr _]|(_ & _ & Hl)]; [left; exact Hr|right; exact Hl].
  - intro Hns. destruct (Hk Hns) as [Hr Er]. split; [exact Hr|].
    unfold ru in Er. cbn [snd iu] in Er. rewrite <- Er. apply (group_of_in _ p'); [|exact Hr].
    exact (merge_children_unique now d s d' lg Nd H).
Qed.

(* digest: both stamped, different times *)
Corollary merge_group_lww_digest now d s d' lg pd gd ps gs ld ls :
  uuids_unique (db_children d) -> uuids_ok s ->
  ~ In (gi_uuid (db_root_info d)) (uus (db_children s)) ->     (* F19 *)
  In (pd, IG gd) (rows (db_root d)) -> In (ps, IG gs) (rows (db_root s)) -> gi_uuid gd = gi_uuid gs ->
  t_lm (gi_times gd) = Some ld -> t_lm (gi_times gs) = Some ls -> ld <> ls ->
  merge now d s = Ok (d', lg) ->
  exists g' p',
    (In (p', IG g') (rows (db_root d')) \/ removed_logged lg (gi_uuid gs))
    /\ (deleted_contains (db_deleted s) (gi_uuid gs) = false ->
        group_of (gi_uuid gs) (db_root d') = Some g')
    /\ gi_uuid g' = gi_uuid gs
    /\ gi_data g' = (if (ld <? ls)%Z then gi_data gs else gi_data gd)
    /\ t_lm (gi_times g') = Some (Z.max ld ls)
    /\ t_rest (gi_times g') = (if (ld <? ls)%Z then t_rest (gi_times gs) else t_rest (gi_times gd)).
Proof.
  intros Nd Ns Hnb Hd Hs Hu Ld Ls Ne H.
  destruct (merge_group_lww_tree _ _ _ _ _ _ _ _ _ Nd Ns Hnb Hd Hs Hu H) as (g1 & g' & lg' & p' & Hg1 & Hm & Hin & Hk).
  assert (F : t_lm (gi_times g1) = Some ld /\ gi_data g1 = gi_data gd /\ gi_uuid g1 = gi_uuid gd
              /\ t_rest (gi_times g1) = t_rest (gi_times gd)).
  { destruct Hg1 as [->| ->]; cbn; auto. }
  destruct F as (F1 & F2 & F3 & F4).
  destruct (group_merge_lww now g1 gs ld ls F1 Ls Ne) as (g2 & lg2 & Hm2 & P1 & P2 & P3 & _ & P5 & _).
  rewrite Hm in Hm2. injection Hm2 as <- _.
  exists g', p'. split; [exact Hin|]. split; [intro Hns; exact (proj2 (Hk Hns))|].
  split; [congruence|]. split; [rewrite P2, F2; reflexivity|]. split; [exact P3|].
  rewrite P5, F4. reflexivity.
Qed.

(* a row of the destination whose UUID the source tree does not mention (root included) is
   unchanged: same parent, same fields *)
Theorem merge_dest_only_row now d s d' lg p it :
  uuids_unique (db_children d) -> In (p, it) (rows (db_root d)) -> ~ In (iu it) (uu (db_root s)) ->
  merge now d s = Ok (d', lg) ->
  In (p, it) (rows (db_root d')) \/ removed_logged lg (iu it).
Proof.
  intros Nd Hd Hn H.
  destruct (merge_phases _ _ _ _ _ Nd H) as (root1 & lg1 & lg2 & E1 & -> & Nd1 & Nd2 & Hi & Hgone & _).
  change (NoDup (all_uuids (db_root d))) in Nd.
  destruct (rframe_all now (db_deleted d) (db_root s) _ _ _ _ _ E1 Nd) as (O & _).
  assert (H1 : ustate (iu it) root1 (Some (p, it))).
  { apply (ustate_only _ _ _ _ _ O Hn). split; [exact Hd|reflexivity]. }
  destruct (Hgone (iu it)) as [Hu|[Hl|Hl]].
  - destruct H1 as [Hr _]. apply (row_uuid_in root1 (p, it)). exact Hr.
  - left. exact (proj1 (phase_ustate _ _ _ _ Nd1 Hi H1 (or_introl Hu))).
  - right. left. apply in_or_app. right. exact Hl.
  - right. right. apply in_or_app. right. exact Hl.
Qed.

(* ====================================================================================== *)
(* (2) PLACEMENT                                                                           *)
(* ====================================================================================== *)

Lemma srows_root_label deleted d s :
  gi_uuid (db_root_info d) = gi_uuid (db_root_info s) ->
  srows deleted (db_root s) = srows_l deleted false (gi_uuid (db_root_info d)) (db_root s).
Proof. intro Hr. unfold srows. rewrite Hr. reflexivity. Qed.

(* An entry that both trees hold.  [ps]/[pd]: the UUIDs of its parent groups in the source / the
   destination; [f]: the flag is_in_deleted_group of the source entry.  The entry ends up under
   [p'] as [e'] = what Entry::merge makes of [e1] and the source's version, where either
     - it was relocated: [p' = ps], LocationChanged := the source's, logged; this happens only when
       the flag is off and the source's LocationChanged is strictly newer; or
     - it stayed: [p' = pd], untouched before the content merge, nothing logged; this happens only
       when the flag is on, or the parents are the same group, or the source is not newer. *)
Theorem merge_entry_place now d s d' lg f pd ed ps es :
  uuids_unique (db_children d) -> uuids_ok s ->
  gi_uuid (db_root_info d) = gi_uuid (db_root_info s) ->
  In (pd, IE ed) (rows (db_root d)) -> In (f, (ps, IE es)) (srows (db_deleted d) (db_root s)) ->
  e_uuid ed = e_uuid es -> merge now d s = Ok (d', lg) ->
  exists p' e1 e',
    lww_out now e1 es e'
    /\ (In (p', IE e') (rows (db_root d')) \/ removed_logged lg (e_uuid es))
    /\ (deleted_contains (db_deleted s) (e_uuid es) = false ->
        In (p', IE e') (rows (db_root d')) /\ parent_of (e_uuid es) (db_root d') = Some p'
        /\ entry_at (e_uuid es) (db_root d') = Some e')
    /\ ((p' = ps /\ e1 = entry_set_lc ed (lc_src (e_times es)) /\ f = false
         /\ (lc_src (e_times es) > lc_dst now (e_times ed))%Z
         /\ In (Ev EntryLocationUpdated (e_uuid es)) lg)
        \/ (p' = pd /\ e1 = ed
            /\ (f = true \/ ps = pd \/ (lc_src (e_times es) <= lc_dst now (e_times ed))%Z)
            /\ ~ In (Ev EntryLocationUpdated (e_uuid es)) lg)).
Proof.
  intros Nd Ns Hr Hd Hs Hu H. rewrite (srows_root_label _ d s Hr) in Hs.
  assert (Hpre : ustate (iu (IE es)) (db_root d) (Some (pd, IE ed))) by (split; [exact Hd|exact Hu]).
  destruct (merge_spec _ _ _ _ _ Nd Ns (same_root_not_below d s Ns Hr) H f ps (IE es) Hs _ Hpre)
    as (post & Hrel & Hio & Hk).
  cbn [nrel erel] in Hrel. destruct Hrel as (p' & e1 & e' & -> & Hout & Hc).
  exists p', e1, e'. split; [exact Hout|]. cbn [iu] in *. split; [|split; [|exact Hc]].
  - destruct Hio as [[Hrow _]|(_ & _ & Hl)]; [left; exact Hrow|right; exact Hl].
  - intro Hns. destruct (Hk Hns) as [Hrow Er]. split; [exact Hrow|].
    unfold ru in Er. cbn [snd iu] in Er. rewrite <- Er.
    assert (Nd' : NoDup (all_uuids (db_root d'))) by exact (merge_children_unique now d s d' lg Nd H).
    split; [exact (parent_of_in _ _ (IE e') Nd' Hrow)|exact (entry_at_in _ _ _ Nd' Hrow)].
Qed.

(* the three cases, for an entry that no source tombstone names *)
Corollary entry_parent_cases now d s d' lg f pd ed ps es :
  uuids_unique (db_children d) -> uuids_ok s ->
  gi_uuid (db_root_info d) = gi_uuid (db_root_info s) ->
  In (pd, IE ed) (rows (db_root d)) -> In (f, (ps, IE es)) (srows (db_deleted d) (db_root s)) ->
  e_uuid ed = e_uuid es -> deleted_contains (db_deleted s) (e_uuid es) = false ->
  merge now d s = Ok (d', lg) ->
  (* same parent group on both sides: it stays there *)
  (ps = pd -> parent_of (e_uuid es) (db_root d') = Some pd)
  (* different parents, flag off, the source moved it strictly later: the source's parent, and
     LocationChanged is the source's *)
  /\ (ps <> pd -> f = false -> (lc_src (e_times es) > lc_dst now (e_times ed))%Z ->
      parent_of (e_uuid es) (db_root d') = Some ps
      /\ exists e', entry_at (e_uuid es) (db_root d') = Some e'
                    /\ t_lc (e_times e') = Some (lc_src (e_times es)))
  (* the source did not move it later, or it lies under a group the destination deleted: the
     destination's parent *)
  /\ (f = true \/ (lc_src (e_times es) <= lc_dst now (e_times ed))%Z ->
      parent_of (e_uuid es) (db_root d') = Some pd)
  (* the log tells which *)
  /\ (In (Ev EntryLocationUpdated (e_uuid es)) lg -> parent_of (e_uuid es) (db_root d') = Some ps)
  /\ (~ In (Ev EntryLocationUpdated (e_uuid es)) lg -> parent_of (e_uuid es) (db_root d') = Some pd).
Proof.
  intros Nd Ns Hr Hd Hs Hu Hns H.
  destruct (merge_entry_place _ _ _ _ _ _ _ _ _ _ Nd Ns Hr Hd Hs Hu H) as (p' & e1 & e' & Hout & _ & Hk & Hc).
  destruct (Hk Hns) as (_ & Hp & He). rewrite Hp.
  split; [|split; [|split; [|split]]].
  - intros E. destruct Hc as [(-> & _)|(-> & _)]; congruence.
  - intros Ne Hf Hlc. destruct Hc as [(-> & -> & _)|(_ & _ & [Hx|[Hx|Hx]] & _)];
      [|congruence|contradiction|lia].
    split; [reflexivity|]. exists e'. split; [exact He|].
    apply (lww_out_keeps_lc _ _ _ _ _ Hout). apply entry_set_lc_lc.
  - intros Hx. destruct Hc as [(_ & _ & Hf & Hlc & _)|(-> & _)]; [|reflexivity].
    destruct Hx as [Hx|Hx]; [congruence|lia].
  - intros Hev. destruct Hc as [(-> & _)|(_ & _ & _ & Hno)]; [reflexivity|contradiction].
  - intros Hno. destruct Hc as [(_ & _ & _ & _ & Hev)|(-> & _)]; [contradiction|reflexivity].
Qed.

(* A group that both trees hold.  [f] is the flag of the source group: on when the destination
   has tombstoned the group itself or a source group above it.  Either
     - it was relocated: [p' = ps], LocationChanged := the source's, GroupLocationUpdated logged;
       only when the flag is off and the source's LocationChanged is strictly newer; or
     - it stayed under [pd], and no GroupLocationUpdated for it is in the log.
   Then its own fields are merged (as in (1)).  Whether a group with different parents, flag off
   and a strictly newer source LocationChanged is relocated is decided by the guard "never into
   its own sub-tree": see [merge_subgroup_step_spec] for the guard as the code has it,
   [group_moves_when_childless] for a condition on the two databases under which it cannot
   fire, and [group_move_cycle_refuted] for a merge where it does. *)
Theorem merge_group_place now d s d' lg f pd gd ps gs :
  uuids_unique (db_children d) -> uuids_ok s ->
  gi_uuid (db_root_info d) = gi_uuid (db_root_info s) ->
  In (pd, IG gd) (rows (db_root d)) -> In (f, (ps, IG gs)) (srows (db_deleted d) (db_root s)) ->
  gi_uuid gd = gi_uuid gs -> merge now d s = Ok (d', lg) ->
  exists p' g1 g' lg',
    group_merge_with now g1 gs = Ok (g', lg')
    /\ (In (p', IG g') (rows (db_root d')) \/ removed_logged lg (gi_uuid gs))
    /\ (deleted_contains (db_deleted s) (gi_uuid gs) = false ->
        In (p', IG g') (rows (db_root d')) /\ parent_of (gi_uuid gs) (db_root d') = Some p'
        /\ group_of (gi_uuid gs) (db_root d') = Some g')
    /\ ((p' = ps /\ g1 = ginfo_set_lc gd (lc_src (gi_times gs)) /\ f = false
         /\ (lc_dst now (gi_times gd) < lc_src (gi_times gs))%Z
         /\ In (Ev GroupLocationUpdated (gi_uuid gs)) lg)
        \/ (p' = pd /\ g1 = gd /\ ~ In (Ev GroupLocationUpdated (gi_uuid gs)) lg)).
Proof.
  intros Nd Ns Hr Hd Hs Hu H. rewrite (srows_root_label _ d s Hr) in Hs.
  assert (Hpre : ustate (iu (IG gs)) (db_root d) (Some (pd, IG gd))) by (split; [exact Hd|exact Hu]).
  destruct (merge_spec _ _ _ _ _ Nd Ns (same_root_not_below d s Ns Hr) H f ps (IG gs) Hs _ Hpre)
    as (post & Hrel & Hio & Hk).
  cbn [nrel grel] in Hrel. destruct Hrel as (p' & g1 & g' & lg' & -> & Hm & Hc).
  exists p', g1, g', lg'. split; [exact Hm|]. cbn [iu] in *. split; [|split; [|exact Hc]].
  - destruct Hio as [[Hrow _]|(_ & _ & Hl)]; [left; exact Hrow|right; exact Hl].
  - intro Hns. destruct (Hk Hns) as [Hrow Er]. split; [exact Hrow|].
    unfold ru in Er. cbn [snd iu] in Er. rewrite <- Er.
    assert (Nd' : NoDup (all_uuids (db_root d'))) by exact (merge_children_unique now d s d' lg Nd H).
    split; [exact (parent_of_in _ _ (IG g') Nd' Hrow)|exact (group_of_in _ _ _ Nd' Hrow)].
Qed.

Corollary group_parent_cases now d s d' lg f pd gd ps gs :
  uuids_unique (db_children d) -> uuids_ok s ->
  gi_uuid (db_root_info d) = gi_uuid (db_root_info s) ->
  In (pd, IG gd) (rows (db_root d)) -> In (f, (ps, IG gs)) (srows (db_deleted d) (db_root s)) ->
  gi_uuid gd = gi_uuid gs -> deleted_contains (db_deleted s) (gi_uuid gs) = false ->
  merge now d s = Ok (d', lg) ->
  (* same parent group on both sides: it stays there *)
  (ps = pd -> parent_of (gi_uuid gs) (db_root d') = Some pd)
  (* the source did not move it later, or the destination deleted it or a group above it *)
  /\ (f = true \/ (lc_src (gi_times gs) <= lc_dst now (gi_times gd))%Z ->
      parent_of (gi_uuid gs) (db_root d') = Some pd)
  (* relocated (the log says so): the source's parent, the source's LocationChanged *)
  /\ (In (Ev GroupLocationUpdated (gi_uuid gs)) lg ->
      parent_of (gi_uuid gs) (db_root d') = Some ps /\ f = false
      /\ (lc_dst now (gi_times gd) < lc_src (gi_times gs))%Z
      /\ exists g', group_of (gi_uuid gs) (db_root d') = Some g'
                    /\ t_lc (gi_times g') = Some (lc_src (gi_times gs)))
  (* not relocated *)
  /\ (~ In (Ev GroupLocationUpdated (gi_uuid gs)) lg -> parent_of (gi_uuid gs) (db_root d') = Some pd).
Proof.
  intros Nd Ns Hr Hd Hs Hu Hns H.
  destruct (merge_group_place _ _ _ _ _ _ _ _ _ _ Nd Ns Hr Hd Hs Hu H) as (p' & g1 & g' & lg' & Hm & _ & Hk & Hc).
  destruct (Hk Hns) as (_ & Hp & Hg). rewrite Hp.
  split; [|split; [|split]].
  - intros E. destruct Hc as [(-> & _)|(-> & _)]; congruence.
  - intros Hx. destruct Hc as [(_ & _ & Hf & Hlc & _)|(-> & _)]; [|reflexivity].
    destruct Hx as [Hx|Hx]; [congruence|lia].
  - intros Hev. destruct Hc as [(-> & -> & Hf & Hlc & _)|(_ & _ & Hno)]; [|contradiction].
    split; [reflexivity|]. split; [exact Hf|]. split; [exact Hlc|]. exists g'. split; [exact Hg|].
    apply (group_merge_with_keeps_lc _ _ _ _ _ _ Hm). reflexivity.
  - intros Hno. destruct Hc as [(_ & _ & _ & _ & Hev)|(-> & _)]; [contradiction|reflexivity].
Qed.

(* ====================================================================================== *)
(* (3) CREATION                                                                            *)
(* ====================================================================================== *)

(* is a node that the destination does not hold created?  an entry: unless the destination has
   its tombstone or the flag is on; a group: unless the flag is on (the flag of a group includes
   its own tombstone) *)
Definition created_ok (deleted : list dobj) (f : bool) (it : item) : bool :=
  match it with
  | IE e => negb (deleted_contains deleted (e_uuid e) || f)
  | IG _ => negb f
  end.

(* A node of the source that the destination does not hold is created - with the source's own
   fields, under the group that has the UUID of its source parent - or not at all. *)
Theorem merge_creates now d s d' lg f ps it :
  uuids_unique (db_children d) -> uuids_ok s ->
  gi_uuid (db_root_info d) = gi_uuid (db_root_info s) ->
  In (f, (ps, it)) (srows (db_deleted d) (db_root s)) -> ~ In (iu it) (all_uuids (db_root d)) ->
  merge now d s = Ok (d', lg) ->
  if created_ok (db_deleted d) f it
  then (In (ps, it) (rows (db_root d')) \/ removed_logged lg (iu it))
       /\ (deleted_contains (db_deleted s) (iu it) = false ->
           In (ps, it) (rows (db_root d')) /\ parent_of (iu it) (db_root d') = Some ps)
  else ~ In (iu it) (all_uuids (db_root d')).
Proof.
  intros Nd Ns Hr Hs Hn H. rewrite (srows_root_label _ d s Hr) in Hs.
  destruct (merge_spec _ _ _ _ _ Nd Ns (same_root_not_below d s Ns Hr) H f ps it Hs None Hn)
    as (post & Hrel & Hio & Hk).
  assert (Nd' : NoDup (all_uuids (db_root d'))) by exact (merge_children_unique now d s d' lg Nd H).
  assert (Hyes : post = Some (ps, it) ->
            (In (ps, it) (rows (db_root d')) \/ removed_logged lg (iu it))
            /\ (deleted_contains (db_deleted s) (iu it) = false ->
                In (ps, it) (rows (db_root d')) /\ parent_of (iu it) (db_root d') = Some ps)).
  { intros ->. split.
    - destruct Hio as [[Hrow _]|(_ & _ & Hl)]; [left; exact Hrow|right; exact Hl].
    - intro Hns. destruct (Hk Hns) as [Hrow _]. split; [exact Hrow|exact (parent_of_in _ _ _ Nd' Hrow)]. }
  assert (Hno : post = None -> ~ In (iu it) (all_uuids (db_root d'))).
  { intros ->. destruct Hio as [Hx|(Hx & _)]; [exact Hx|contradiction]. }
  destruct it as [j|oe]; cbn [nrel grel erel created_ok] in *.
  - destruct f; cbn [negb]; auto.
  - destruct (deleted_contains (db_deleted d) (e_uuid oe) || f); cbn [negb]; auto.
Qed.

(* the parent named by a row exists: it is the root or a group with a row of its own *)
Theorem created_parent_exists root p it :
  In (p, it) (rows root) -> p = uuid_of root \/ exists q i, In (q, IG i) (rows root) /\ gi_uuid i = p.
Proof. apply rows_parent_group. Qed.

(* The guard cannot fire for a group that has no sub-group in the destination: such a group IS
   relocated whenever the parents differ, no flag is on and the source moved it strictly later.
   ([cycle_has_subgroup]: in the would-be-cycle example the group does have a sub-group.) *)
Theorem group_moves_when_childless now d s d' lg pd gd ps gs :
  uuids_unique (db_children d) -> uuids_ok s ->
  gi_uuid (db_root_info d) = gi_uuid (db_root_info s) ->
  In (pd, IG gd) (rows (db_root d)) -> In (false, (ps, IG gs)) (srows (db_deleted d) (db_root s)) ->
  gi_uuid gd = gi_uuid gs -> ps <> pd ->
  (lc_dst now (gi_times gd) < lc_src (gi_times gs))%Z ->
  (forall i, ~ In (gi_uuid gs, IG i) (rows (db_root d))) ->
  merge now d s = Ok (d', lg) ->
  In (Ev GroupLocationUpdated (gi_uuid gs)) lg.
Proof.
  intros Nd Ns Hr Hd Hs Hu Hne Hlc Hq H. rewrite (srows_root_label _ d s Hr) in Hs.
  destruct (merge_phases _ _ _ _ _ Nd H) as (root1 & lg1 & lg2 & E1 & -> & _).
  change (NoDup (all_uuids (db_root d))) in Nd.
  apply in_or_app. left.
  assert (Hw : @nil N <> [] -> gi_uuid (db_root_info d) = uuid_of (db_root s)).
  { intro X. contradiction X. reflexivity. }
  assert (Hnl : ~ In (gi_uuid (db_root_info d)) (all_uuids (db_root s))).
  { rewrite Hr. pose proof Ns as Ns'. unfold uuids_ok in Ns'. apply NoDup_cons_iff in Ns' as [Hn _]. exact Hn. }
  assert (Hv : false = false -> get_uuid [] (db_root d) <> None) by (intros _; discriminate).
  assert (Hrs : @nil N <> [] -> uuid_of (db_root s) <> uuid_of (db_root d)).
  { intro X. contradiction X. reflexivity. }
  exact (noguard_all now (db_deleted d) (db_root s) [] false (db_root d) root1 lg1
           (gi_uuid (db_root_info d)) E1 Nd Ns eq_refl Hw Hnl Hv Hrs Hnl ps gs Hs pd gd Hd Hu Hne Hlc Hq).
Qed.

Corollary childless_group_placed now d s d' lg pd gd ps gs :
  uuids_unique (db_children d) -> uuids_ok s ->
  gi_uuid (db_root_info d) = gi_uuid (db_root_info s) ->
  In (pd, IG gd) (rows (db_root d)) -> In (false, (ps, IG gs)) (srows (db_deleted d) (db_root s)) ->
  gi_uuid gd = gi_uuid gs -> ps <> pd ->
  (lc_dst now (gi_times gd) < lc_src (gi_times gs))%Z ->
  (forall i, ~ In (gi_uuid gs, IG i) (rows (db_root d))) ->
  deleted_contains (db_deleted s) (gi_uuid gs) = false ->
  merge now d s = Ok (d', lg) ->
  parent_of (gi_uuid gs) (db_root d') = Some ps
  /\ exists g', group_of (gi_uuid gs) (db_root d') = Some g'
                /\ t_lc (gi_times g') = Some (lc_src (gi_times gs)).
Proof.
  intros Nd Ns Hr Hd Hs Hu Hne Hlc Hq Hns H.
  pose proof (group_moves_when_childless _ _ _ _ _ _ _ _ _ Nd Ns Hr Hd Hs Hu Hne Hlc Hq H) as Hev.
  destruct (group_parent_cases _ _ _ _ _ _ _ _ _ _ Nd Ns Hr Hd Hs Hu Hns H) as (_ & _ & Hm & _).
  destruct (Hm Hev) as (Hp & _ & _ & Hg). split; assumption.
Qed.

(* ====================================================================================== *)
(* (4) THE ROOT GROUP's own fields: last writer wins (since the repair F19)                *)
(* ====================================================================================== *)
(* find_node_location searches below the root only; since the repair F19 merge_group's first
   statement recognises the destination's root group by its UUID and merges its own fields with
   Group::merge_with directly.  No other write changes the root's own fields, and no other source
   group is taken for the root when the root's UUID does not occur below the source root.
   (Before the repair: the first statement did nothing for the root group and this section proved
   root_group_never_merged, [db_root_info d' = db_root_info d] for every successful merge.) *)

Lemma put_group_same_item path root pi pc c root' :
  find_group path root = Some (pi, pc) -> put_group path pi c root = Some root' ->
  item_of root' = item_of root.
Proof.
  unfold find_group, put_group. intros Hf Hp. destruct path as [|h t].
  - cbn [get_uuid update_uuid] in *. destruct root as [ri rc|e]; [|discriminate].
    injection Hf as -> _. injection Hp as <-. reflexivity.
  - eapply update_uuid_item; [|exact Hp]. discriminate.
Qed.

Lemma relocate_node_item u from to ts root root' :
  relocate_node u from to ts root = Ok root' -> item_of root' = item_of root.
Proof.
  unfold relocate_node. intro H.
  destruct (find_group from root) as [[si sc]|] eqn:E1; cbn [of_option bind] in H; [|discriminate].
  destruct (remove_node u sc) as [[nd kept]|] eqn:E2; cbn [of_option bind] in H; [|discriminate].
  destruct (put_group from si kept root) as [root1|] eqn:E3; cbn [of_option bind] in H; [|discriminate].
  destruct (find_group to root1) as [[di dc]|] eqn:E4; cbn [of_option bind] in H; [|discriminate].
  destruct (put_group to di _ root1) as [root2|] eqn:E5; cbn [of_option] in H; [|discriminate].
  injection H as <-. rewrite (put_group_same_item _ _ _ _ _ _ E4 E5). exact (put_group_same_item _ _ _ _ _ _ E1 E3).
Qed.

Lemma merge_group_head_below_item now si root root' lg :
  merge_group_head_below now si root = Ok (root', lg) -> item_of root' = item_of root.
Proof.
  unfold merge_group_head_below. intro H. destruct (fnl_db _ _) as [loc|]; [|injection H as <- _; reflexivity].
  destruct (find_group _ root) as [[di dc]|] eqn:E1; cbn [of_option bind] in H; [|discriminate].
  destruct (group_merge_with now di si) as [[di' lg1]| | |] eqn:E2; cbn [bind] in H; try discriminate.
  destruct (put_group _ di' dc root) as [root1|] eqn:E3; cbn [of_option bind] in H; [|discriminate].
  injection H as <- _. unfold put_group in E3. eapply update_uuid_item; [|exact E3]. apply snoc_not_nil.
Qed.

(* the first statement, for a source group that is NOT the destination's root *)
Lemma merge_group_head_item now si root root' lg :
  (is_group root = true -> gi_uuid si <> uuid_of root) ->
  merge_group_head now si root = Ok (root', lg) -> item_of root' = item_of root.
Proof.
  intros Hn H. rewrite (merge_group_head_not_root _ _ _ Hn) in H.
  exact (merge_group_head_below_item _ _ _ _ _ H).
Qed.

Lemma merge_entry_step_item now deleted path in_del oe root root' lg :
  merge_entry_step now deleted path in_del oe root = Ok (root', lg) -> item_of root' = item_of root.
Proof.
  intro H. destruct (fnl_db (e_uuid oe) (children_of root)) as [dloc|] eqn:Ef.
  - destruct (merge_entry_step_found2 _ _ _ _ _ _ _ _ _ Ef H)
      as (existing & root1 & existing1 & p & m & _ & Hr1 & _ & _ & Hr2).
    assert (H1 : item_of root1 = item_of root).
    { destruct Hr1 as [(-> & _)|(_ & _ & Er & _)]; [reflexivity|exact (relocate_node_item _ _ _ _ _ _ Er)]. }
    destruct Hr2 as [[-> _]|Ep]; [exact H1|]. rewrite <- H1. unfold put_entry in Ep.
    eapply update_uuid_item; [|exact Ep]. apply snoc_not_nil.
  - unfold merge_entry_step in H. rewrite Ef in H.
    destruct (deleted_contains deleted (e_uuid oe)); [injection H as <- _; reflexivity|].
    destruct in_del; [injection H as <- _; reflexivity|].
    destruct (find_group path root) as [[pi pc]|] eqn:E1; cbn [of_option bind] in H; [|discriminate].
    destruct (put_group path pi _ root) as [root1|] eqn:E2; cbn [of_option bind] in H; [|discriminate].
    injection H as <- _. exact (put_group_same_item _ _ _ _ _ _ E1 E2).
Qed.

Lemma merge_entries_item now deleted path in_del : forall l root root' lg,
  merge_entries now deleted path in_del l root = Ok (root', lg) -> item_of root' = item_of root.
Proof.
  induction l as [|x r IH]; intros root root' lg H; cbn [merge_entries] in H.
  - injection H as <- _. reflexivity.
  - destruct x as [j jc|oe]; [exact (IH _ _ _ H)|].
    destruct (merge_entry_step now deleted path in_del oe root) as [[root1 lg1]| | |] eqn:E1;
      cbn [bind] in H; try discriminate.
    destruct (merge_entries now deleted path in_del r root1) as [[root2 lg2]| | |] eqn:E2;
      cbn [bind] in H; try discriminate.
    injection H as <- _. rewrite (IH _ _ _ E2). exact (merge_entry_step_item _ _ _ _ _ _ _ _ E1).
Qed.

Lemma merge_subgroup_step_item now deleted path in_del j rec root root' lg :
  (forall p d rt rt' l, item_of rt = item_of root -> rec p d rt = Ok (rt', l) -> item_of rt' = item_of rt) ->
  merge_subgroup_step now deleted path in_del j rec root = Ok (root', lg) -> item_of root' = item_of root.
Proof.
  intros Hrec H. unfold merge_subgroup_step in H. cbv zeta in H.
  destruct (deleted_contains deleted (gi_uuid j) || in_del); [eapply Hrec; [reflexivity|exact H]|].
  destruct (fnl_db _ _) as [dloc|] eqn:Ef.
  - assert (Hstay : forall w,
              (do (root1, lg) <- rec (dloc ++ [gi_uuid j]) in_del root; Ok (root1, w ++ lg))%outcome
              = Ok (root', lg) -> item_of root' = item_of root).
    { intros w Hs.
      destruct (rec (dloc ++ [gi_uuid j]) in_del root) as [[r1 l1]| | |] eqn:Er; cbn [bind] in Hs;
        try discriminate.
      injection Hs as <- _. eapply Hrec; [reflexivity|exact Er]. }
    destruct (negb (path_eqb path dloc)); [|exact (Hstay [] H)].
    destruct (find_group _ root) as [[ei ec]|]; cbn [unwrap bind] in H; [|discriminate].
    destruct (lc_or (gi_times ei) now) as [e_lc w1]. destruct (lc_or (gi_times j) 0%Z) as [o_lc w2].
    destruct (Z.ltb e_lc o_lc && _); [|exact (Hstay _ H)].
    destruct (relocate_node _ _ _ _ root) as [root1| | |] eqn:E1; cbn [bind] in H; try discriminate.
    destruct (rec _ in_del root1) as [[root2 l2]| | |] eqn:E2; cbn [bind] in H; try discriminate.
    injection H as <- _. pose proof (relocate_node_item _ _ _ _ _ _ E1) as I1.
    rewrite (Hrec _ _ _ _ _ I1 E2). exact I1.
  - destruct (find_group path root) as [[pi pc]|] eqn:E1; cbn [of_option bind] in H; [|discriminate].
    destruct (put_group path pi _ root) as [root1|] eqn:E2; cbn [of_option bind] in H; [|discriminate].
    destruct (rec _ in_del root1) as [[root2 l2]| | |] eqn:E3; cbn [bind] in H; try discriminate.
    injection H as <- _. pose proof (put_group_same_item _ _ _ _ _ _ E1 E2) as I1.
    rewrite (Hrec _ _ _ _ _ I1 E3). exact I1.
Qed.

(* merge_group on a source (sub-)tree none of whose groups carries the destination root's UUID
   leaves the root's own fields alone *)
Definition item_kept_at (now : Z) (deleted : list dobj) (x : node) : Prop :=
  forall path in_del root root' lg,
    ~ In (uuid_of root) (uu x) ->
    merge_group now deleted path x in_del root = Ok (root', lg) -> item_of root' = item_of root.

Lemma groups_loop_item now deleted path in_del : forall l,
  Forall (item_kept_at now deleted) l ->
  forall root root' lg, ~ In (uuid_of root) (uus l) ->
  groups_loop now deleted path in_del l root = Ok (root', lg) -> item_of root' = item_of root.
Proof.
  induction 1 as [|x r Hx _ IH]; intros root root' lg Hn H.
  - rewrite groups_loop_nil in H. injection H as <- _. reflexivity.
  - rewrite groups_loop_cons in H.
    assert (Hnr : ~ In (uuid_of root) (uus r)).
    { intro Hi. apply Hn. change (uus (x :: r)) with (uu x ++ uus r). apply in_or_app. right. exact Hi. }
    destruct x as [j jc|e]; [|eapply IH; [exact Hnr|exact H]].
    destruct (merge_subgroup_step _ _ _ _ _ _ root) as [[root1 lg1]| | |] eqn:E1; cbn [bind] in H;
      try discriminate.
    destruct (groups_loop now deleted path in_del r root1) as [[root2 lg2]| | |] eqn:E2;
      cbn [bind] in H; try discriminate.
    injection H as <- _.
    assert (I1 : item_of root1 = item_of root).
    { eapply merge_subgroup_step_item; [|exact E1]. intros p d rt rt' l Hi Hl. eapply Hx; [|exact Hl].
      rewrite (proj1 (item_of_same _ _ Hi)). intro Hu. apply Hn.
      change (uus (NG j jc :: r)) with (uu (NG j jc) ++ uus r). apply in_or_app. left. exact Hu. }
    rewrite <- I1. apply (IH _ _ lg2); [rewrite (proj1 (item_of_same _ _ I1)); exact Hnr|exact E2].
Qed.

Lemma merge_group_item now deleted : forall src, item_kept_at now deleted src.
Proof.
  induction src as [e|si sch IH] using node_ind'; intros path in_del root root' lg Hn H; [discriminate|].
  rewrite merge_group_unfold in H.
  destruct (merge_group_head now si root) as [[root0 lg0]| | |] eqn:E0; cbn [bind] in H; try discriminate.
  destruct (merge_entries now deleted path in_del sch root0) as [[root1 lg1]| | |] eqn:E1;
    cbn [bind] in H; try discriminate.
  destruct (groups_loop now deleted path in_del sch root1) as [[root2 lg2]| | |] eqn:E2;
    cbn [bind] in H; try discriminate.
  injection H as <- _. unfold uu in Hn. cbn [uuid_of] in Hn. change (all_uuids (NG si sch)) with (uus sch) in Hn.
  assert (I0 : item_of root0 = item_of root).
  { eapply merge_group_head_item; [|exact E0]. intros _ E. apply Hn. left. exact E. }
  pose proof (merge_entries_item _ _ _ _ _ _ _ _ E1) as I1.
  rewrite <- I0, <- I1. eapply groups_loop_item; [exact IH| |exact E2].
  rewrite (proj1 (item_of_same _ _ I1)), (proj1 (item_of_same _ _ I0)). intro Hi. apply Hn. right. exact Hi.
Qed.

(* The root group's own fields after a merge of two replicas (same root UUID) are what
   Group::merge_with makes of the two root groups; its log is the beginning of the merge's log and
   nothing after it speaks of an update of the root group. *)
Theorem root_group_merged now d s d' lg :
  uuids_unique (db_children d) -> uuids_ok s ->
  gi_uuid (db_root_info d) = gi_uuid (db_root_info s) ->
  merge now d s = Ok (d', lg) ->
  exists lg0 lgr,
    group_merge_with now (db_root_info d) (db_root_info s) = Ok (db_root_info d', lg0)
    /\ lg = lg0 ++ lgr
    /\ ~ In (Ev GroupUpdated (gi_uuid (db_root_info d))) lgr.
Proof.
  unfold merge. intros Nd Ns Hr H.
  destruct (merge_group _ _ _ _ _ _) as [[root1 lg1]| | |] eqn:E1; cbn [bind] in H; try discriminate.
  destruct (merge_deletions _ _ _ _) as [[[root2 del2] lg2]| | |] eqn:E2; cbn [bind] in H; try discriminate.
  destruct root2 as [i c|e]; [|discriminate]. injection H as <- <-. cbn [db_root_info].
  change (NoDup (all_uuids (db_root d))) in Nd.
  destruct (merge_group_step _ _ _ _ _ _ _ _ E1) as [_ H1]. destruct (H1 Nd) as [Nd1 _].
  assert (U1 : uuids_unique (children_of root1)).
  { change (NoDup (uus (children_of root1))). rewrite <- all_uuids_children. exact Nd1. }
  pose proof (merge_deletions_prune _ _ _ _ _ _ _ U1 E2) as Ep.
  assert (Hi2 : item_of (NG i c) = item_of root1) by (rewrite Ep; apply item_of_prune).
  pose proof (same_root_not_below d s Ns Hr) as Hnb.
  change (db_root s) with (NG (db_root_info s) (db_children s)) in E1.
  destruct (merge_group_parts now (db_deleted d) _ _ _ _ _ _ _
              (rframe_forall now (db_deleted d) (db_children s)) E1 Nd)
    as (root0 & lg0 & rootm & lga & lgb & E0 & Ee & Eg & -> & Nd0 & Ndm & U0 & Um & _ & _ & _ & La & _ & Lb).
  (* the first statement merges the two root groups *)
  destruct (merge_group_head_spec now _ _ _ _ E0 Nd) as (_ & _ & _ & R).
  destruct (R (db_root_info d) eq_refl (eq_sym Hr)) as (_ & ri' & Em & I0).
  (* nothing else touches the root's own fields *)
  pose proof (merge_entries_item _ _ _ _ _ _ _ _ Ee) as Ia.
  assert (Ib : item_of root1 = item_of rootm).
  { eapply groups_loop_item; [|rewrite Um; exact Hnb|exact Eg].
    apply Forall_forall. intros x _. apply merge_group_item. }
  rewrite Ib, Ia, I0 in Hi2. cbn [item_of] in Hi2. injection Hi2 as ->.
  exists lg0, ((lga ++ lgb) ++ lg2). split; [exact Em|]. split; [rewrite <- !app_assoc; reflexivity|].
  intro Hin. apply in_app_or in Hin as [Hin|Hin]; [apply in_app_or in Hin as [Hin|Hin]|].
  - apply Hnb. apply euus_incl_uus. exact (La _ _ Hin).
  - apply Hnb. apply guus_incl. exact (Lb _ _ Hin).
  - destruct (merge_deletions_recorded _ _ _ _ _ _ _ U1 E2) as (added & _ & _ & _ & _ & Hlog).
    destruct (Hlog _ Hin) as [X|(o & n & _ & _ & _ & X)]; [discriminate X|].
    unfold kind_ev in X. destruct (is_group n); discriminate X.
Qed.

(* Last writer wins on the root group's own fields: both stamped, different times.  The data block
   (name, notes, icon, ...) and the other time stamps are those of the side that modified the root
   group last, the modification time is the later one, the destination's UUID and LocationChanged
   are kept, and the log tells an update of the root group exactly when the source is newer. *)
Theorem root_group_lww now d s d' lg ld ls :
  uuids_unique (db_children d) -> uuids_ok s ->
  gi_uuid (db_root_info d) = gi_uuid (db_root_info s) ->
  t_lm (gi_times (db_root_info d)) = Some ld -> t_lm (gi_times (db_root_info s)) = Some ls -> ld <> ls ->
  merge now d s = Ok (d', lg) ->
  gi_uuid (db_root_info d') = gi_uuid (db_root_info d)
  /\ gi_data (db_root_info d') = (if (ld <? ls)%Z then gi_data (db_root_info s) else gi_data (db_root_info d))
  /\ t_lm (gi_times (db_root_info d')) = Some (Z.max ld ls)
  /\ (t_lc (gi_times (db_root_info d)) <> None ->
      t_lc (gi_times (db_root_info d')) = t_lc (gi_times (db_root_info d)))
  /\ t_rest (gi_times (db_root_info d')) =
     (if (ld <? ls)%Z then t_rest (gi_times (db_root_info s)) else t_rest (gi_times (db_root_info d)))
  /\ (In (Ev GroupUpdated (gi_uuid (db_root_info d))) lg <-> (ld < ls)%Z).
Proof.
  intros Nd Ns Hr Ld Ls Ne H.
  destruct (root_group_merged _ _ _ _ _ Nd Ns Hr H) as (lg0 & lgr & Em & -> & Hno).
  destruct (group_merge_lww now _ _ ld ls Ld Ls Ne) as (g' & lg' & Em' & P1 & P2 & P3 & P4 & P5 & P6).
  rewrite Em in Em'. injection Em' as <- <-.
  split; [exact P1|]. split; [exact P2|]. split; [exact P3|]. split; [exact P4|]. split; [exact P5|].
  rewrite P6. destruct (Z.ltb_spec ld ls) as [L|L]; split.
  - intros _. exact L.
  - intros _. left. reflexivity.
  - intro Hin. cbn [app] in Hin. contradiction.
  - intro X. lia.
Qed.

(* Different root UUIDs (not replicas of one database), and no source group carries the
   destination root's UUID: the root group's own fields are untouched *)
Theorem root_group_untouched_when_uuids_differ now d s d' lg :
  uuids_unique (db_children d) ->
  gi_uuid (db_root_info d) <> gi_uuid (db_root_info s) ->
  ~ In (gi_uuid (db_root_info d)) (uus (db_children s)) ->
  merge now d s = Ok (d', lg) -> db_root_info d' = db_root_info d.
Proof.
  unfold merge. intros Nd Hr Hnb H.
  destruct (merge_group _ _ _ _ _ _) as [[root1 lg1]| | |] eqn:E1; cbn [bind] in H; try discriminate.
  destruct (merge_deletions _ _ _ _) as [[[root2 del2] lg2]| | |] eqn:E2; cbn [bind] in H; try discriminate.
  destruct root2 as [i c|e]; [|discriminate]. injection H as <- _. cbn [db_root_info].
  change (NoDup (all_uuids (db_root d))) in Nd.
  destruct (merge_group_step _ _ _ _ _ _ _ _ E1) as [_ H1]. destruct (H1 Nd) as [Nd1 _].
  assert (U1 : uuids_unique (children_of root1)).
  { change (NoDup (uus (children_of root1))). rewrite <- all_uuids_children. exact Nd1. }
  pose proof (merge_deletions_prune _ _ _ _ _ _ _ U1 E2) as Ep.
  assert (Hn : ~ In (uuid_of (db_root d)) (uu (db_root s))).
  { intros [E|Hi]; [apply Hr; symmetry; exact E|exact (Hnb Hi)]. }
  pose proof (merge_group_item _ _ _ _ _ _ _ _ Hn E1) as Hi.
  assert (Hi2 : item_of (NG i c) = item_of root1) by (rewrite Ep; apply item_of_prune).
  rewrite Hi in Hi2. cbn [item_of db_root] in Hi2. injection Hi2 as ->. reflexivity.
Qed.

(* ====================================================================================== *)
(* The flag is_in_deleted_group, by position in the source tree                            *)
(* ====================================================================================== *)

(* the UUIDs of the groups below the root whose UUID the destination has tombstoned, and of
   everything below such a group *)
Fixpoint tombed (deleted : list dobj) (n : node) : list N :=
  match n with
  | NE _ => []
  | NG i ch =>
    flat_map (fun c => if is_group c && deleted_contains deleted (uuid_of c) then uu c
                       else tombed deleted c) ch
  end.

Lemma tombed_incl deleted : forall n, incl (tombed deleted n) (all_uuids n).
Proof.
  induction n as [e|i ch IH] using node_ind'; [intros u []|]. intros u Hu.
  cbn [tombed] in Hu. apply in_flat_map in Hu as (c & Hc & Hu).
  change (all_uuids (NG i ch)) with (uus ch). apply (uu_incl_uus c ch Hc).
  destruct (is_group c && _); [exact Hu|]. apply uu_below.
  exact (proj1 (Forall_forall _ _) IH c Hc u Hu).
Qed.

Lemma flag_of_false deleted c :
  flag_of deleted false c = is_group c && deleted_contains deleted (uuid_of c).
Proof. destruct c; cbn [flag_of is_group uuid_of andb]; [apply orb_false_r|reflexivity]. Qed.

(* the flag of a source row is on exactly for the nodes listed by [tombed] *)
Theorem srows_flag_iff deleted : forall n lbl f' p it,
  NoDup (all_uuids n) -> In (f', (p, it)) (srows_l deleted false lbl n) ->
  (f' = true <-> In (iu it) (tombed deleted n)).
Proof.
  induction n as [e|i ch IH] using node_ind'; intros lbl f' p it Nd H; [destruct H|].
  change (all_uuids (NG i ch)) with (uus ch) in Nd.
  cbn [srows_l] in H. apply in_flat_map in H as (c & Hc & H). rewrite flag_of_false in H.
  assert (Hu : In (iu it) (uu c)).
  { destruct H as [H|H]; [injection H as _ _ <-; rewrite iu_item_of; apply uu_self|].
    apply uu_below. exact (srows_l_uuid _ _ _ _ _ _ _ H). }
  assert (Hiff : In (iu it) (tombed deleted (NG i ch))
                 <-> In (iu it) (if is_group c && deleted_contains deleted (uuid_of c) then uu c
                                 else tombed deleted c)).
  { cbn [tombed]. rewrite in_flat_map. split.
    - intros (c' & Hc' & Hu').
      assert (Hu2 : In (iu it) (uu c')).
      { destruct (is_group c' && _); [exact Hu'|apply uu_below; exact (tombed_incl deleted c' _ Hu')]. }
      rewrite (uus_owner ch c c' (iu it) Nd Hc Hc' Hu Hu2). exact Hu'.
    - intro Hx. exists c. auto. }
  rewrite Hiff. pose proof (uu_nodup c ch Nd Hc) as Ndc.
  destruct (is_group c && deleted_contains deleted (uuid_of c)) eqn:B.
  - split; [intros _; exact Hu|intros _].
    destruct H as [H|H]; [injection H as <- _; reflexivity|exact (srows_l_true _ _ _ _ _ H)].
  - unfold uu in Ndc. apply NoDup_cons_iff in Ndc as [Hself Ndc].
    destruct H as [H|H].
    + injection H as <- _ <-. rewrite iu_item_of. split; [discriminate|].
      intro Hx. exfalso. apply Hself. exact (tombed_incl deleted _ _ Hx).
    + exact (proj1 (Forall_forall _ _) IH c Hc _ _ _ _ Ndc H).
Qed.

Corollary srows_flag deleted root f p it :
  NoDup (all_uuids root) -> In (f, (p, it)) (srows deleted root) ->
  (f = true <-> In (iu it) (tombed deleted root)).
Proof. apply srows_flag_iff. Qed.

(* ====================================================================================== *)
(* Examples                                                                                *)
(* ====================================================================================== *)

Definition pe (u d : N) (lm lc : Z) : entry := mkEntry u d (tm lm lc) (Some [hitem u d lm]).
Definition pg (u d : N) (lm lc : Z) : ginfo := mkGinfo u d (tm lm lc).
Definition prt : ginfo := mkGinfo 100 0 (tm 1 1).

Ltac notin_compute :=
  vm_compute; let H := fresh "H" in intro H; repeat (destruct H as [H|H]; [discriminate H|]); exact H.

Lemma ok_by_compute d : uuids_okb d = true -> uuids_ok d.
Proof. apply uuids_okb_spec. Qed.

(* ---------- (4) non-vacuity ---------- *)
(* Common ancestor: G10 -> [E1; E2; G30], G20 -> [].
   The destination moved E1 into G20 at time 50.
   The source moved E2 into G20 at 40, moved the group G30 into G20 at 45 (and edited it at 9),
   and created the group G40 in G20 with the new entry E3 inside. *)
Definition nv_d : db := mkDb prt
  [NG (pg 10 0 1 1) [NE (pe 2 21 10 1); NG (pg 30 5 3 1) []];
   NG (pg 20 0 1 1) [NE (pe 1 11 10 50)]] [].
Definition nv_s : db := mkDb prt
  [NG (pg 10 0 1 1) [NE (pe 1 11 10 1)];
   NG (pg 20 0 1 1) [NE (pe 2 21 10 40); NG (pg 30 6 9 45) []; NG (pg 40 7 2 2) [NE (pe 3 31 10 2)]]] [].
Definition nv_r : db := mkDb prt
  [NG (pg 10 0 1 1) [];
   NG (pg 20 0 1 1) [NE (pe 1 11 10 50); NE (pe 2 21 10 40); NG (pg 30 6 9 45) [];
                     NG (pg 40 7 2 2) [NE (pe 3 31 10 2)]]] [].
Definition nv_log : log :=
  [Ev EntryLocationUpdated 2; Ev GroupLocationUpdated 30; Ev GroupUpdated 30; Ev GroupCreated 40;
   Ev EntryCreated 3].

Example nv_merge : merge 60 nv_d nv_s = Ok (nv_r, nv_log).
Proof. vm_compute. reflexivity. Qed.

Example nv_hyps :
  uuids_unique (db_children nv_d) /\ uuids_ok nv_s
  /\ gi_uuid (db_root_info nv_d) = gi_uuid (db_root_info nv_s).
Proof.
  split; [apply unique_by_compute; vm_compute; reflexivity|].
  split; [apply ok_by_compute; vm_compute; reflexivity|reflexivity].
Qed.

(* E1: the destination moved it later (50 > 1): it stays in G20 *)
Example nv_entry_kept : parent_of 1 (db_root nv_r) = Some 20.
Proof.
  destruct nv_hyps as (Hd & Hs & Hr).
  assert (H1 : In (20, IE (pe 1 11 10 50)) (rows (db_root nv_d))) by (vm_compute; tauto).
  assert (H2 : In (false, (10, IE (pe 1 11 10 1))) (srows (db_deleted nv_d) (db_root nv_s))) by (vm_compute; tauto).
  destruct (entry_parent_cases 60 nv_d nv_s nv_r nv_log _ _ _ _ _ Hd Hs Hr H1 H2 eq_refl eq_refl nv_merge)
    as (_ & _ & H & _).
  apply H. right. cbn. lia.
Qed.

(* E2: the source moved it later (40 > 1): it goes to G20, LocationChanged 40 *)
Example nv_entry_moved :
  parent_of 2 (db_root nv_r) = Some 20
  /\ exists e', entry_at 2 (db_root nv_r) = Some e' /\ t_lc (e_times e') = Some 40%Z.
Proof.
  destruct nv_hyps as (Hd & Hs & Hr).
  assert (H1 : In (10, IE (pe 2 21 10 1)) (rows (db_root nv_d))) by (vm_compute; tauto).
  assert (H2 : In (false, (20, IE (pe 2 21 10 40))) (srows (db_deleted nv_d) (db_root nv_s))) by (vm_compute; tauto).
  destruct (entry_parent_cases 60 nv_d nv_s nv_r nv_log _ _ _ _ _ Hd Hs Hr H1 H2 eq_refl eq_refl nv_merge)
    as (_ & H & _).
  apply H; [discriminate|reflexivity|cbn; lia].
Qed.

(* G30: moved by the source (the log says so) and updated (the source edited it last) *)
Example nv_group_moved :
  parent_of 30 (db_root nv_r) = Some 20
  /\ exists g', group_of 30 (db_root nv_r) = Some g' /\ t_lc (gi_times g') = Some 45%Z.
Proof.
  destruct nv_hyps as (Hd & Hs & Hr).
  assert (H1 : In (10, IG (pg 30 5 3 1)) (rows (db_root nv_d))) by (vm_compute; tauto).
  assert (H2 : In (false, (20, IG (pg 30 6 9 45))) (srows (db_deleted nv_d) (db_root nv_s))) by (vm_compute; tauto).
  destruct (group_parent_cases 60 nv_d nv_s nv_r nv_log _ _ _ _ _ Hd Hs Hr H1 H2 eq_refl eq_refl nv_merge)
    as (_ & _ & H & _).
  destruct H as (Hp & _ & _ & Hg); [vm_compute; tauto|]. split; [exact Hp|exact Hg].
Qed.

Example nv_group_updated :
  exists g', group_of 30 (db_root nv_r) = Some g' /\ gi_data g' = 6 /\ t_lm (gi_times g') = Some 9%Z.
Proof.
  destruct nv_hyps as (Hd & Hs & Hr).
  assert (H1 : In (10, IG (pg 30 5 3 1)) (rows (db_root nv_d))) by (vm_compute; tauto).
  assert (H2 : In (20, IG (pg 30 6 9 45)) (rows (db_root nv_s))) by (vm_compute; tauto).
  destruct (merge_group_lww_digest 60 nv_d nv_s nv_r nv_log _ _ _ _ 3%Z 9%Z Hd Hs (same_root_not_below _ _ Hs Hr)
              H1 H2 eq_refl eq_refl eq_refl
              ltac:(discriminate) nv_merge) as (g' & p' & _ & Hg & _ & Hdata & Hlm & _).
  exists g'. split; [apply Hg; reflexivity|]. split; [exact Hdata|exact Hlm].
Qed.

(* G40 and E3 exist only in the source: created, E3 inside the new G40, G40 in G20 *)
Example nv_created :
  In (20, IG (pg 40 7 2 2)) (rows (db_root nv_r)) /\ In (40, IE (pe 3 31 10 2)) (rows (db_root nv_r)).
Proof.
  destruct nv_hyps as (Hd & Hs & Hr). split.
  - assert (H2 : In (false, (20, IG (pg 40 7 2 2))) (srows (db_deleted nv_d) (db_root nv_s))) by (vm_compute; tauto).
    assert (Hn : ~ In (iu (IG (pg 40 7 2 2))) (all_uuids (db_root nv_d))) by notin_compute.
    pose proof (merge_creates 60 nv_d nv_s nv_r nv_log _ _ _ Hd Hs Hr H2 Hn nv_merge) as H.
    cbn [created_ok negb] in H. apply H. reflexivity.
  - assert (H2 : In (false, (40, IE (pe 3 31 10 2))) (srows (db_deleted nv_d) (db_root nv_s))) by (vm_compute; tauto).
    assert (Hn : ~ In (iu (IE (pe 3 31 10 2))) (all_uuids (db_root nv_d))) by notin_compute.
    pose proof (merge_creates 60 nv_d nv_s nv_r nv_log _ _ _ Hd Hs Hr H2 Hn nv_merge) as H.
    change (created_ok (db_deleted nv_d) false (IE (pe 3 31 10 2))) with true in H. apply H. reflexivity.
Qed.

(* ---------- the root group (4) ---------- *)

(* Source and destination share the root group; the source renamed it later (50 > 5): the
   destination takes the source's fields and reports the update.  The other way round nothing
   happens.  (Before the repair F19 the first merge was [Ok (rt_d, [])], the witness of
   root_group_lww_refuted: find_node_location does not search the root itself.) *)
Definition rt_d : db := mkDb (mkGinfo 100 1 (tm 5 1)) [] [].
Definition rt_s : db := mkDb (mkGinfo 100 2 (tm 50 1)) [] [].

Example root_group_witness : merge 60 rt_d rt_s = Ok (rt_s, [Ev GroupUpdated 100]).
Proof. vm_compute. reflexivity. Qed.

Example root_group_witness_older_source : merge 60 rt_s rt_d = Ok (rt_s, []).
Proof. vm_compute. reflexivity. Qed.

Example root_group_lww_ex :
  gi_data (db_root_info rt_s) = 2 /\ In (Ev GroupUpdated 100) [Ev GroupUpdated 100].
Proof.
  destruct (root_group_lww 60 rt_d rt_s rt_s [Ev GroupUpdated 100] 5%Z 50%Z
              (unique_by_compute (db_children rt_d) eq_refl) (ok_by_compute rt_s eq_refl)
              eq_refl eq_refl eq_refl ltac:(discriminate) root_group_witness) as (_ & Hd & _ & _ & _ & Hl).
  split; [exact Hd|]. apply Hl. reflexivity.
Qed.

(* different root UUIDs, but a source group carries the destination root's UUID: that group is
   created below the root AND merged into the root's own fields - the third hypothesis of
   [root_group_untouched_when_uuids_differ] is needed *)
Definition rtx_d : db := mkDb prt [] [].
Definition rtx_s : db := mkDb (mkGinfo 200 0 (tm 1 1)) [NG (pg 100 3 10 1) []] [].

Example cx_root_untouched_needs_not_below :
  uuids_unique (db_children rtx_d) /\ gi_uuid (db_root_info rtx_d) <> gi_uuid (db_root_info rtx_s)
  /\ In (gi_uuid (db_root_info rtx_d)) (uus (db_children rtx_s))
  /\ merge 60 rtx_d rtx_s =
     Ok (mkDb (mkGinfo 100 3 (tm 10 1)) [NG (pg 100 3 10 1) []] [], [Ev GroupCreated 100; Ev GroupUpdated 100]).
Proof.
  split; [apply unique_by_compute; vm_compute; reflexivity|]. split; [discriminate|].
  split; [vm_compute; tauto|vm_compute; reflexivity].
Qed.

(* ---------- what is FALSE for the code as it is ---------- *)

(* (F-b) The would-be cycle.  Common ancestor: root -> [A; B].  The destination moved B into A
   (at 10); the source moved A into B (at 50).  When A is processed, the destination path of its
   new parent B is [A; B]: it contains A, the guard fires, A stays at the root - although the
   source moved it strictly later, no flag is set and the parents differ.  Nothing is logged. *)
Definition cy_d : db := mkDb prt [NG (pg 1 0 1 1) [NG (pg 2 0 1 10) []]] [].
Definition cy_s : db := mkDb prt [NG (pg 2 0 1 1) [NG (pg 1 0 1 50) []]] [].

Example cycle_witness : merge 60 cy_d cy_s = Ok (cy_d, []).
Proof. vm_compute. reflexivity. Qed.

Theorem group_move_cycle_refuted :
  ~ (forall now d s d' lg f pd gd ps gs,
       uuids_unique (db_children d) -> uuids_ok s ->
       gi_uuid (db_root_info d) = gi_uuid (db_root_info s) ->
       In (pd, IG gd) (rows (db_root d)) -> In (f, (ps, IG gs)) (srows (db_deleted d) (db_root s)) ->
       gi_uuid gd = gi_uuid gs -> deleted_contains (db_deleted s) (gi_uuid gs) = false ->
       merge now d s = Ok (d', lg) ->
       ps <> pd -> f = false -> (lc_dst now (gi_times gd) < lc_src (gi_times gs))%Z ->
       parent_of (gi_uuid gs) (db_root d') = Some ps).
Proof.
  intro H.
  assert (H1 : In (100, IG (pg 1 0 1 1)) (rows (db_root cy_d))) by (vm_compute; tauto).
  assert (H2 : In (false, (2, IG (pg 1 0 1 50))) (srows (db_deleted cy_d) (db_root cy_s))) by (vm_compute; tauto).
  specialize (H 60%Z cy_d cy_s cy_d [] false 100 _ 2 _ (unique_by_compute (db_children cy_d) eq_refl) (ok_by_compute cy_s eq_refl)
                eq_refl H1 H2 eq_refl eq_refl cycle_witness ltac:(discriminate) eq_refl ltac:(cbn; lia)).
  vm_compute in H. discriminate H.
Qed.

(* there the moved group A has the sub-group B in the destination: [group_moves_when_childless]
   does not apply *)
Example cycle_has_subgroup : In (1, IG (pg 2 0 1 10)) (rows (db_root cy_d)).
Proof. vm_compute. tauto. Qed.

(* the same merge seen through [group_parent_cases]: no GroupLocationUpdated, parent unchanged *)
Example cycle_group_stays : parent_of 1 (db_root cy_d) = Some 100.
Proof. vm_compute. reflexivity. Qed.

(* ---------- each hypothesis is needed ---------- *)

(* destination UUIDs not distinct: two entries with UUID 1; find_node_location finds the one at
   the root, which is where the source has it; the one in G10 is never looked at - for it the
   "moved" clause of [entry_parent_cases] fails (LocationChanged stays 1) *)
Definition cxd_d : db := mkDb prt [NE (pe 1 12 10 1); NG (pg 10 0 1 1) [NE (pe 1 11 10 1)]] [].
Definition cxd_s : db := mkDb prt [NE (pe 1 12 10 50)] [].

Example cx_dest_unique_needed :
  nodupb (uus (db_children cxd_d)) = false /\ uuids_ok cxd_s
  /\ In (10, IE (pe 1 11 10 1)) (rows (db_root cxd_d))
  /\ In (false, (100, IE (pe 1 12 10 50))) (srows (db_deleted cxd_d) (db_root cxd_s))
  /\ merge 60 cxd_d cxd_s = Ok (cxd_d, [])
  /\ ~ (exists e', entry_at 1 (db_root cxd_d) = Some e' /\ t_lc (e_times e') = Some 50%Z).
Proof.
  split; [vm_compute; reflexivity|]. split; [apply ok_by_compute; vm_compute; reflexivity|].
  split; [vm_compute; tauto|]. split; [vm_compute; tauto|]. split; [vm_compute; reflexivity|].
  intros (e' & He & Hl). vm_compute in He. injection He as <-. discriminate Hl.
Qed.

(* the source's root UUID (= the destination's) occurs below the source root: merge_group's first
   statement, run for the source group 100 below the root, takes it for the destination's ROOT
   group (F19) and never looks at the destination group 100, which keeps data 1, time 5;
   (1) would promise data 3, time 10.  (Before the repair it was the source ROOT's fields, data 7,
   time 50, that ended up in the destination group 100.) *)
Definition cxs_d : db := mkDb prt [NG (pg 100 1 5 1) []] [].
Definition cxs_s : db := mkDb (mkGinfo 100 7 (tm 50 1)) [NG (pg 100 3 10 1) []] [].

Example cx_source_ok_needed :
  uuids_unique (db_children cxs_d) /\ uuids_unique (db_children cxs_s) /\ uuids_okb cxs_s = false
  /\ In (100, IG (pg 100 1 5 1)) (rows (db_root cxs_d)) /\ In (100, IG (pg 100 3 10 1)) (rows (db_root cxs_s))
  /\ exists d', merge 60 cxs_d cxs_s = Ok (d', [Ev GroupUpdated 100])
       /\ group_of 100 (db_root d') = Some (pg 100 1 5 1).
Proof.
  split; [apply unique_by_compute; vm_compute; reflexivity|].
  split; [apply unique_by_compute; vm_compute; reflexivity|]. split; [vm_compute; reflexivity|].
  split; [vm_compute; tauto|]. split; [vm_compute; tauto|].
  eexists. split; [vm_compute; reflexivity|vm_compute; reflexivity].
Qed.

(* different root UUIDs (so [uuids_ok s] says nothing about the destination root's UUID), and a
   source group carries the destination root's UUID 100: it is merged into the destination's ROOT
   group; the destination group 100 keeps data 1, time 5 where (1) would promise data 3, time 10 *)
Definition cxb_s : db := mkDb (mkGinfo 200 7 (tm 50 1)) [NG (pg 100 3 10 1) []] [].

Example cx_dest_root_below_source_needed :
  uuids_unique (db_children cxs_d) /\ uuids_ok cxb_s
  /\ In (gi_uuid (db_root_info cxs_d)) (uus (db_children cxb_s))
  /\ In (100, IG (pg 100 1 5 1)) (rows (db_root cxs_d)) /\ In (200, IG (pg 100 3 10 1)) (rows (db_root cxb_s))
  /\ exists d', merge 60 cxs_d cxb_s = Ok (d', [Ev GroupUpdated 100])
       /\ group_of 100 (db_root d') = Some (pg 100 1 5 1)
       /\ db_root_info d' = mkGinfo 100 3 (tm 10 1).
Proof.
  split; [apply unique_by_compute; vm_compute; reflexivity|].
  split; [apply ok_by_compute; vm_compute; reflexivity|]. split; [vm_compute; tauto|].
  split; [vm_compute; tauto|]. split; [vm_compute; tauto|].
  eexists. split; [vm_compute; reflexivity|]. split; vm_compute; reflexivity.
Qed.

(* source UUIDs not distinct below the root: the entry is listed twice, in two groups; it is
   processed twice and ends up where the second occurrence says *)
Definition cxu_d : db := mkDb prt [NG (pg 10 0 1 1) [NE (pe 1 12 10 1)]; NG (pg 20 0 1 1) []] [].
Definition cxu_s : db := mkDb prt [NG (pg 10 0 1 1) [NE (pe 1 12 10 1)]; NG (pg 20 0 1 1) [NE (pe 1 12 10 50)]] [].

Example cx_source_unique_needed :
  uuids_unique (db_children cxu_d) /\ nodupb (uus (db_children cxu_s)) = false
  /\ In (10, IE (pe 1 12 10 1)) (rows (db_root cxu_d))
  /\ In (false, (10, IE (pe 1 12 10 1))) (srows (db_deleted cxu_d) (db_root cxu_s))
  /\ exists d', merge 60 cxu_d cxu_s = Ok (d', [Ev EntryLocationUpdated 1])
       /\ parent_of 1 (db_root d') = Some 20.      (* same parent on both sides, yet moved *)
Proof.
  split; [apply unique_by_compute; vm_compute; reflexivity|]. split; [vm_compute; reflexivity|].
  split; [vm_compute; tauto|]. split; [vm_compute; tauto|].
  eexists. split; [vm_compute; reflexivity|vm_compute; reflexivity].
Qed.

(* different root UUIDs: the source has E1 directly below its root 200, the destination in G10;
   it is moved (50 > 1) below the destination's root, whose UUID is 100, not 200 *)
Definition cxr_d : db := mkDb prt [NG (pg 10 0 1 1) [NE (pe 1 12 10 1)]] [].
Definition cxr_s : db := mkDb (mkGinfo 200 0 (tm 1 1)) [NE (pe 1 12 10 50); NG (pg 10 0 1 1) []] [].

Example cx_same_root_needed :
  uuids_unique (db_children cxr_d) /\ uuids_ok cxr_s
  /\ In (10, IE (pe 1 12 10 1)) (rows (db_root cxr_d))
  /\ In (false, (200, IE (pe 1 12 10 50))) (srows (db_deleted cxr_d) (db_root cxr_s))
  /\ exists d', merge 60 cxr_d cxr_s = Ok (d', [Ev EntryLocationUpdated 1])
       /\ parent_of 1 (db_root d') = Some 100.
Proof.
  split; [apply unique_by_compute; vm_compute; reflexivity|].
  split; [apply ok_by_compute; vm_compute; reflexivity|].
  split; [vm_compute; tauto|]. split; [vm_compute; tauto|].
  eexists. split; [vm_compute; reflexivity|vm_compute; reflexivity].
Qed.

(* "unless a source tombstone names it": the entry is moved by merge_group, then deleted by the
   second phase (the source lists the entry and a newer tombstone for it) *)
Definition cxt_s : db := mkDb prt [NG (pg 10 0 1 1) []; NE (pe 1 12 10 50)] [mkDobj 1 100].

Example cx_tombstone_alternative_needed :
  uuids_unique (db_children cxr_d) /\ uuids_ok cxt_s
  /\ exists d', merge 60 cxr_d cxt_s = Ok (d', [Ev EntryLocationUpdated 1; Ev EntryDeleted 1])
       /\ parent_of 1 (db_root d') = None.
Proof.
  split; [apply unique_by_compute; vm_compute; reflexivity|].
  split; [apply ok_by_compute; vm_compute; reflexivity|].
  eexists. split; [vm_compute; reflexivity|vm_compute; reflexivity].
Qed.

(* the flag: G10 is tombstoned by the destination (which still holds it); the source moved E1
   into G10 later and created E2 there, but below a flagged group nothing is moved and nothing is
   created *)
Definition fl_d : db := mkDb prt [NG (pg 10 0 1 1) []; NE (pe 1 12 10 1)] [mkDobj 10 5].
Definition fl_s : db := mkDb prt [NG (pg 10 0 1 1) [NE (pe 1 12 10 50); NE (pe 2 22 10 1)]] [].

Example flag_blocks_move_and_creation :
  In (true, (10, IE (pe 1 12 10 50))) (srows (db_deleted fl_d) (db_root fl_s))
  /\ In (true, (10, IE (pe 2 22 10 1))) (srows (db_deleted fl_d) (db_root fl_s))
  /\ merge 60 fl_d fl_s = Ok (fl_d, []).
Proof. split; [vm_compute; tauto|]. split; [vm_compute; tauto|vm_compute; reflexivity]. Qed.

Print Assumptions merge_spec.
Print Assumptions merge_group_lww_tree.
Print Assumptions merge_group_lww_digest.
Print Assumptions merge_dest_only_row.
Print Assumptions merge_entry_place.
Print Assumptions entry_parent_cases.
Print Assumptions merge_group_place.
Print Assumptions group_parent_cases.
Print Assumptions merge_creates.
Print Assumptions created_parent_exists.
Print Assumptions root_group_merged.
Print Assumptions root_group_lww.
Print Assumptions root_group_untouched_when_uuids_differ.
Print Assumptions group_move_cycle_refuted.
Print Assumptions merge_subgroup_step_spec.
Print Assumptions group_moves_when_childless.
Print Assumptions childless_group_placed.
Print Assumptions srows_flag.

(* One-time passwords (C19).  Mirrors src/db/otp.rs (impl FromStr for TOTP on the components the
   `url` crate returns, TOTP::value_at, TOTP::get_secret) and totp-lite's totp_custom.
   The keyed hash is a Section variable: [mac alg key msg] is HMAC with the selected hash. *)
From KP Require Import Bytes Outcome LE.
Local Open Scope N_scope.

Inductive otp_alg := ASha1 | ASha256 | ASha512.

Inductive otp_err :=
| EUrlFormat | EIntFormat | EMissingSecret | EBase32 | EBadScheme | EBadAlgorithm.

Record totp := mkTotp {
  o_label : bytes; o_issuer : option bytes; o_period : N; o_digits : N;
  o_alg : otp_alg; o_secret : bytes }.

(* ---------- numbers: <u64 as FromStr> / <u32 as FromStr> / NonZeroU64 ---------- *)

Definition is_digit (c : N) : bool := N.leb 48 c && N.leb c 57.

Fixpoint parse_digits (acc : N) (l : bytes) : option N :=
  match l with
  | [] => Some acc
  | c :: r => if is_digit c then parse_digits (acc * 10 + (c - 48)) r else None
  end.

(* optional '+', at least one digit, digits only, value below the bound *)
Definition parse_uint (bound : N) (s : bytes) : option N :=
  let body := match s with 43 :: r => r | _ => s end in
  match body with
  | [] => None
  | _ => match parse_digits 0 body with
         | Some v => if N.ltb v bound then Some v else None
         | None => None
         end
  end.

Definition parse_u64 := parse_uint (2 ^ 64).
Definition parse_u32 := parse_uint (2 ^ 32).
Definition parse_nonzero_u64 (s : bytes) : option N :=
  match parse_u64 s with Some 0 => None | o => o end.

Definition str (s : list N) : bytes := s.
Definition s_otpauth : bytes := [111;116;112;97;117;116;104].
Definition s_secret : bytes := [115;101;99;114;101;116].
Definition s_issuer : bytes := [105;115;115;117;101;114].
Definition s_period : bytes := [112;101;114;105;111;100].
Definition s_digits : bytes := [100;105;103;105;116;115].
Definition s_algorithm : bytes := [97;108;103;111;114;105;116;104;109].
Definition s_SHA1 : bytes := [83;72;65;49].
Definition s_SHA256 : bytes := [83;72;65;50;53;54].
Definition s_SHA512 : bytes := [83;72;65;53;49;50].

Definition parse_alg (v : bytes) : option otp_alg :=
  if bytes_eqb v s_SHA1 then Some ASha1
  else if bytes_eqb v s_SHA256 then Some ASha256
  else if bytes_eqb v s_SHA512 then Some ASha512
  else None.

(* trim_start_matches("/") *)
Fixpoint trim_slashes (l : bytes) : bytes :=
  match l with
  | 47 :: r => trim_slashes r
  | _ => l
  end.

Record otp_acc := mkAcc {
  a_secret : option bytes; a_issuer : option bytes; a_period : N; a_digits : N; a_alg : otp_alg }.

(* the `for pair in query_pairs` loop; the first bad value aborts *)
Fixpoint otp_pairs (a : otp_acc) (pairs : list (bytes * bytes)) : outcome otp_err otp_acc :=
  match pairs with
  | [] => Ok a
  | (k, v) :: r =>
    if bytes_eqb k s_secret then otp_pairs (mkAcc (Some v) (a_issuer a) (a_period a) (a_digits a) (a_alg a)) r
    else if bytes_eqb k s_issuer then otp_pairs (mkAcc (a_secret a) (Some v) (a_period a) (a_digits a) (a_alg a)) r
    else if bytes_eqb k s_period then
      match parse_nonzero_u64 v with
      | Some p => otp_pairs (mkAcc (a_secret a) (a_issuer a) p (a_digits a) (a_alg a)) r
      | None => Err EIntFormat
      end
    else if bytes_eqb k s_digits then
      match parse_u32 v with
      | Some d => otp_pairs (mkAcc (a_secret a) (a_issuer a) (a_period a) d (a_alg a)) r
      | None => Err EIntFormat
      end
    else if bytes_eqb k s_algorithm then
      match parse_alg v with
      | Some g => otp_pairs (mkAcc (a_secret a) (a_issuer a) (a_period a) (a_digits a) g) r
      | None => Err EBadAlgorithm
      end
    else otp_pairs a r
  end.

Section otp.
  Variable b32_decode : bytes -> option bytes.
  Variable mac : otp_alg -> bytes -> bytes -> bytes.

  (* impl FromStr for TOTP, after Url::parse: scheme, path, decoded query pairs *)
  Definition otp_parse (scheme path : bytes) (pairs : list (bytes * bytes)) : outcome otp_err totp :=
    if negb (bytes_eqb scheme s_otpauth) then Err EBadScheme
    else
      match otp_pairs (mkAcc None None 30 8 ASha1) pairs with
      | Ok a =>
        match a_secret a with
        | None => Err EMissingSecret
        | Some s =>
          match b32_decode s with
          | None => Err EBase32
          | Some sec => Ok (mkTotp (trim_slashes path) (a_issuer a) (a_period a) (a_digits a) (a_alg a) sec)
          end
        end
      | Err e => Err e
      | Panic n => Panic n
      | OutOfFuel => OutOfFuel
      end.

  (* totp-lite: dynamic truncation on the HMAC output *)
  Definition dyn_trunc (h : bytes) : option N :=
    match rev h with
    | [] => None                                  (* hash.last().unwrap() *)
    | l :: _ =>
      let off := N.to_nat (l mod 16) in
      match nth_error h off, nth_error h (off + 1), nth_error h (off + 2), nth_error h (off + 3) with
      | Some a, Some b, Some c, Some d => Some ((a mod 128) * 2 ^ 24 + b * 2 ^ 16 + c * 2 ^ 8 + d)
      | _, _, _, _ => None                        (* index out of bounds *)
      end
    end.

  (* `digits` decimal digits of v, most significant first *)
  Fixpoint render_fixed (digits : nat) (v : N) : bytes :=
    match digits with
    | O => []
    | S k => render_fixed k (v / 10) ++ [48 + v mod 10]
    end.

  (* format!("{:01$}", v, digits) for v < 10^digits *)
  Definition render_code (digits : N) (v : N) : bytes :=
    if N.eqb digits 0 then [48] else render_fixed (N.to_nat digits) v.

  Definition site_div_zero : N := 1.
  Definition site_trunc : N := 2.
  Definition site_pow_overflow : N := 3.

  (* totp_custom(step, digits, secret, time); u64 arithmetic written out *)
  Definition totp_custom (alg : otp_alg) (step digits : N) (secret : bytes) (time : N) : outcome unit bytes :=
    if N.eqb step 0 then Panic site_div_zero
    else
      match dyn_trunc (mac alg secret (be_enc 8 ((time / step) mod 2 ^ 64))) with
      | None => Panic site_trunc
      | Some bin =>
        if N.leb (2 ^ 64) (10 ^ digits) then Panic site_pow_overflow   (* 10_u64.pow(digits) overflows *)
        else Ok (render_code digits (bin mod 10 ^ digits))
      end.

  (* TOTP::value_at: (code, valid_for, period) *)
  Definition value_at (t : totp) (time : N) : outcome unit (bytes * N * N) :=
    match totp_custom (o_alg t) (o_period t) (o_digits t) (o_secret t) time with
    | Ok code => Ok (code, o_period t - time mod o_period t, o_period t)
    | Err e => Err e
    | Panic n => Panic n
    | OutOfFuel => OutOfFuel
    end.
End otp.

(* ---------- RFC 4226 / RFC 6238, written independently ---------- *)
Section rfc.
  Variable mac : otp_alg -> bytes -> bytes -> bytes.

  (* RFC 4226 5.3: DT(String): OffsetBits = low-order 4 bits of String[last]; P = String[Offset..Offset+3];
     return the last 31 bits of P *)
  Definition rfc_dt (hs : bytes) : N :=
    let offset := N.to_nat (last hs 0 mod 16) in
    be_dec (take 4 (drop offset hs)) mod 2 ^ 31.

  (* HOTP(K, C) = DT(HMAC(K, C)) mod 10^Digit, C an 8-byte big-endian counter *)
  Definition rfc_hotp (alg : otp_alg) (key : bytes) (counter digits : N) : N :=
    rfc_dt (mac alg key (be_enc 8 counter)) mod 10 ^ digits.

  (* RFC 6238 4.2: T = floor((Current Unix time - T0) / X), T0 = 0 *)
  Definition rfc_totp (alg : otp_alg) (key : bytes) (time step digits : N) : N :=
    rfc_hotp alg key (time / step) digits.
End rfc.

(* What each step of merge_group does to the rows of the destination, and the walk over the
   source tree.

   Step lemmas ([merge_group_head_spec], [merge_entry_step_spec], [merge_subgroup_step_spec]):
   a step touches only the row whose UUID is the UUID of the source node being processed, logs
   only events about that UUID, and transforms that row as the relations [hrel], [erel], [prel]
   say.  [merge_subgroup_step_spec] states the relocation guard exactly as the code has it
   ([existsb (N.eqb (gi_uuid j)) path]).
   Since the repair F19 merge_group's first statement has a second case: a source group that
   carries the UUID of the destination's ROOT is merged into the root group's own fields (which
   have no row) and no row changes ([merge_group_head_spec], last clause).  The walk lemmas
   therefore ask that the destination root's UUID does not occur below the source (sub-)tree being
   walked (hypotheses [~ In (uuid_of root) ...]); for the source root itself nothing is asked.

   Walk ([frame_all], [spec_all]): for a source (sub-)tree with pairwise distinct UUIDs, every
   source node is processed once; its row in the destination is the one of the original
   destination until then and is not touched afterwards.  [srows_l] lists the source's rows with
   the flag is_in_deleted_group under which each is processed. *)
From Coq Require Import Permutation.
From KP Require Import Bytes Outcome Tree TreeFacts History Merge MergeProofs MergeLookup
     MergeTermination MergeUuids MergeSelf MergeUnique MergeLwwEntry MergeLwwFrame MergeLww
     MergePlaceRows.
Local Open Scope N_scope.

(* ---------- logs ---------- *)

Definition is_warns (w : log) : Prop := forall ev, In ev w -> ev = Warn.

(* every event of the log is about a UUID of U *)
Definition log_in (U : list N) (lg : log) : Prop := forall t u, In (Ev t u) lg -> In u U.

Lemma is_warns_nil : is_warns [].
Proof. intros ev []. Qed.

Lemma is_warns_app a b : is_warns a -> is_warns b -> is_warns (a ++ b).
Proof. intros Ha Hb ev H. apply in_app_or in H as [H|H]; auto. Qed.

Lemma is_warns_one : is_warns [Warn].
Proof. intros ev [<-|[]]. reflexivity. Qed.

Lemma is_warns_forall w : Forall (fun x => x = Warn) w -> is_warns w.
Proof. intros F ev H. exact (proj1 (Forall_forall _ _) F ev H). Qed.

Lemma warns_log_in U w : is_warns w -> log_in U w.
Proof. intros Hw t u H. apply Hw in H. discriminate. Qed.

Lemma warns_no_event w t u : is_warns w -> ~ In (Ev t u) w.
Proof. intros Hw H. apply Hw in H. discriminate. Qed.

Lemma log_in_nil U : log_in U [].
Proof. intros t u []. Qed.

Lemma log_in_app U a b : log_in U a -> log_in U b -> log_in U (a ++ b).
Proof. intros Ha Hb t u H. apply in_app_or in H as [H|H]; eauto. Qed.

Lemma log_in_mono U U' lg : incl U U' -> log_in U lg -> log_in U' lg.
Proof. intros Hi H t u Hin. apply Hi. eapply H. exact Hin. Qed.

Lemma log_in_one U t u : In u U -> log_in U [Ev t u].
Proof. intros Hu t' u' [E|[]]. injection E as _ <-. exact Hu. Qed.

Lemma log_in_not U lg t u : log_in U lg -> ~ In u U -> ~ In (Ev t u) lg.
Proof. intros H Hu Hin. apply Hu. eapply H. exact Hin. Qed.

Lemma lm_or_warns t d : is_warns (snd (lm_or t d)).
Proof. unfold lm_or. destruct (t_lm t); [apply is_warns_nil|apply is_warns_one]. Qed.

Lemma lc_or_warns t d : is_warns (snd (lc_or t d)).
Proof. unfold lc_or. destruct (t_lc t); [apply is_warns_nil|apply is_warns_one]. Qed.

Lemma merge_history_warns self other m lg : merge_history self other = Ok (m, lg) -> is_warns lg.
Proof.
  unfold merge_history. intro H.
  destruct (e_hist other), (e_hist self), (has_uncommitted_changes other); cbv beta match in H;
    (destruct (history_merge_with _ _) as [[h l2]| | |] eqn:E; cbn [bind] in H; try discriminate;
     apply history_merge_union in E;
     assert (Hl2 : is_warns l2) by (apply is_warns_forall; tauto);
     injection H as _ <-; intros ev Hin; cbn [app In] in Hin;
     repeat (destruct Hin as [<-|Hin]; [reflexivity|]); exact (Hl2 ev Hin)).
Qed.

Lemma entry_merge_warns now self other m lg : entry_merge now self other = Ok (m, lg) -> is_warns lg.
Proof.
  unfold entry_merge. intro H.
  pose proof (lm_or_warns (e_times other) 0%Z) as W1. pose proof (lm_or_warns (e_times self) now) as W2.
  destruct (lm_or (e_times other) 0%Z) as [src_lm w1]. destruct (lm_or (e_times self) now) as [dst_lm w2].
  cbn [snd] in W1, W2. destruct (Z.eqb dst_lm src_lm).
  - destruct (negb (entry_diverged self other)); [discriminate|]. injection H as _ <-.
    apply is_warns_app; assumption.
  - destruct (Z.gtb dst_lm src_lm).
    + destruct (merge_history self other) as [[m0 l0]| | |] eqn:E; cbn [bind] in H; try discriminate.
      injection H as _ <-. eapply merge_history_warns. exact E.
    + destruct (merge_history other self) as [[m0 l0]| | |] eqn:E; cbn [bind] in H; try discriminate.
      injection H as _ <-. eapply merge_history_warns. exact E.
Qed.

Lemma group_merge_with_log now d s d' lg :
  group_merge_with now d s = Ok (d', lg) -> log_in [gi_uuid d] lg.
Proof.
  unfold group_merge_with.
  pose proof (lm_or_warns (gi_times s) 0%Z) as W1. pose proof (lm_or_warns (gi_times d) now) as W2.
  destruct (lm_or (gi_times s) 0%Z) as [src_lm w1]. destruct (lm_or (gi_times d) now) as [dst_lm w2].
  cbn [snd] in W1, W2.
  assert (W : log_in [gi_uuid d] (w1 ++ w2)) by (apply warns_log_in, is_warns_app; assumption).
  destruct (Z.eqb dst_lm src_lm).
  - destruct (group_diverged d s); [discriminate|]. intro H. injection H as _ <-. exact W.
  - destruct (Z.gtb dst_lm src_lm); intro H; injection H as _ <-; [exact W|].
    apply log_in_app; [exact W|]. apply log_in_one. left. reflexivity.
Qed.

Lemma group_merge_with_same now j g' lg : group_merge_with now j j = Ok (g', lg) -> g' = j.
Proof.
  unfold group_merge_with.
  destruct (lm_or (gi_times j) 0%Z) as [src_lm w1]. destruct (lm_or (gi_times j) now) as [dst_lm w2].
  destruct (Z.eqb dst_lm src_lm).
  - destruct (group_diverged j j); [discriminate|]. intro H. injection H as <- _. reflexivity.
  - destruct (Z.gtb dst_lm src_lm); intro H; injection H as <- _; [reflexivity|].
    destruct j as [u dt [lm lc rs]]. cbn. destruct lc; reflexivity.
Qed.

(* ---------- the relations between the row before and after a step ---------- *)

Section Rel.
  Variable now : Z.
  Variable deleted : list dobj.

  (* LocationChanged as the code reads it: epoch for the source, now for the destination *)
  Definition lc_src (t : times) : Z := fst (lc_or t 0%Z).
  Definition lc_dst (t : times) : Z := fst (lc_or t now).

  (* merge_group's first statement, for the group [si] *)
  Definition hrel (si : ginfo) (pre post : option row) : Prop :=
    match pre with
    | None => post = None
    | Some (p, IG g) => exists g' lg', group_merge_with now g si = Ok (g', lg') /\ post = Some (p, IG g')
    | Some (_, IE _) => False
    end.

  (* one source entry [oe], processed under flag [f] in the source group with UUID [ps] *)
  Definition erel (f : bool) (ps : N) (oe : entry) (pre post : option row) (lg : log) : Prop :=
    match pre with
    | None => post = if deleted_contains deleted (e_uuid oe) || f then None else Some (ps, IE oe)
    | Some (pd, IE ed) =>
      exists p' e1 e', post = Some (p', IE e') /\ lww_out now e1 oe e'
        /\ ((p' = ps /\ e1 = entry_set_lc ed (lc_src (e_times oe)) /\ f = false
             /\ (lc_src (e_times oe) > lc_dst (e_times ed))%Z
             /\ In (Ev EntryLocationUpdated (e_uuid oe)) lg)
            \/ (p' = pd /\ e1 = ed
                /\ (f = true \/ ps = pd \/ (lc_src (e_times oe) <= lc_dst (e_times ed))%Z)
                /\ ~ In (Ev EntryLocationUpdated (e_uuid oe)) lg))
    | Some (_, IG _) => False
    end.

  (* the part of one iteration of the groups loop that precedes the recursive call *)
  Definition prel (f : bool) (path : list N) (ps : N) (j : ginfo) (pre mid : option row) (w : log) : Prop :=
    match pre with
    | None => mid = if f then None else Some (ps, IG j)
    | Some (pd, it) =>
      (exists gd, it = IG gd /\ mid = Some (ps, IG (ginfo_set_lc gd (lc_src (gi_times j)))) /\ f = false
         /\ (lc_dst (gi_times gd) < lc_src (gi_times j))%Z
         /\ existsb (N.eqb (gi_uuid j)) path = false
         /\ In (Ev GroupLocationUpdated (gi_uuid j)) w)
      \/ (mid = pre
          /\ (f = true \/ ps = pd
              \/ (exists gd, it = IG gd /\ (lc_src (gi_times j) <= lc_dst (gi_times gd))%Z)
              \/ existsb (N.eqb (gi_uuid j)) path = true)
          /\ ~ In (Ev GroupLocationUpdated (gi_uuid j)) w)
    end.

  (* one source group [j]: that part, then the first statement of the recursive call *)
  Definition grel (f : bool) (ps : N) (j : ginfo) (pre post : option row) (lg : log) : Prop :=
    match pre with
    | None => post = if f then None else Some (ps, IG j)
    | Some (pd, IG gd) =>
      exists p' g1 g' lg', post = Some (p', IG g') /\ group_merge_with now g1 j = Ok (g', lg')
        /\ ((p' = ps /\ g1 = ginfo_set_lc gd (lc_src (gi_times j)) /\ f = false
             /\ (lc_dst (gi_times gd) < lc_src (gi_times j))%Z
             /\ In (Ev GroupLocationUpdated (gi_uuid j)) lg)
            \/ (p' = pd /\ g1 = gd /\ ~ In (Ev GroupLocationUpdated (gi_uuid j)) lg))
    | Some (_, IE _) => False
    end.

  Definition nrel (f : bool) (ps : N) (it : item) (pre post : option row) (lg : log) : Prop :=
    match it with
    | IE oe => erel f ps oe pre post lg
    | IG j => grel f ps j pre post lg
    end.

  (* the event that tells a relocation of that node *)
  Definition move_ev (it : item) : levent :=
    match it with
    | IE oe => Ev EntryLocationUpdated (e_uuid oe)
    | IG j => Ev GroupLocationUpdated (gi_uuid j)
    end.

  (* a longer log with the same answer about the node's relocation event *)
  Lemma nrel_log f ps it pre post lg lg' :
    (In (move_ev it) lg <-> In (move_ev it) lg') ->
    nrel f ps it pre post lg -> nrel f ps it pre post lg'.
  Proof.
    intro Hl. destruct it as [j|oe]; cbn [nrel move_ev] in *.
    - unfold grel. destruct pre as [[pd [gd|ed]]|]; auto.
      intros (p' & g1 & g' & lg0 & Hp & Hm & [(A & B & C & D & E)|(A & B & C)]);
        exists p', g1, g', lg0; (split; [exact Hp|]); (split; [exact Hm|]); [left|right]; tauto.
    - unfold erel. destruct pre as [[pd [gd|ed]]|]; auto.
      intros (p' & e1 & e' & Hp & Hm & [(A & B & C & D & E)|(A & B & C & D)]);
        exists p', e1, e'; (split; [exact Hp|]); (split; [exact Hm|]); [left|right]; tauto.
  Qed.

  (* ---------- merge_group's first statement ---------- *)

  (* Two cases since the repair F19.  [si] is not the destination's root group: the row with its
     UUID, if any, is merged ([hrel]).  [si] carries the UUID of the root group [ri]: the root's own
     fields are merged, Group::merge_with ri si, and no row changes. *)
  Lemma merge_group_head_spec si root root' lg :
    merge_group_head now si root = Ok (root', lg) -> NoDup (all_uuids root) ->
    only [gi_uuid si] root root' /\ log_in [gi_uuid si] lg
    /\ ((is_group root = true -> gi_uuid si <> uuid_of root) ->
        forall pre, ustate (gi_uuid si) root pre ->
         exists post, ustate (gi_uuid si) root' post /\ hrel si pre post)
    /\ (forall ri, item_of root = IG ri -> gi_uuid si = gi_uuid ri ->
          rows root' = rows root
          /\ exists ri', group_merge_with now ri si = Ok (ri', lg) /\ item_of root' = IG ri').
  Proof.
    intros H Nd.
    apply merge_group_head_cases in H as [(ri & rc & ri' & -> & Eu & Em & -> & Eu')|[Hnr H]].
    { (* the root group itself *)
      assert (Er : rows (NG ri' rc) = rows (NG ri rc)) by (rewrite !rows_NG, Eu'; reflexivity).
      split; [apply only_perm; rewrite Er; apply Permutation_refl|].
      split; [rewrite Eu; eapply group_merge_with_log; exact Em|].
      split; [intro Hne; exfalso; exact (Hne eq_refl Eu)|].
      intros ri0 Hi _. cbn [item_of] in Hi. injection Hi as <-. split; [exact Er|].
      exists ri'. split; [exact Em|reflexivity]. }
    assert (Hroot : forall ri, item_of root = IG ri -> gi_uuid si = gi_uuid ri ->
              rows root' = rows root
              /\ exists ri', group_merge_with now ri si = Ok (ri', lg) /\ item_of root' = IG ri').
    { intros ri Hi E. exfalso. destruct root as [ri0 rc|e]; [|discriminate Hi].
      cbn [item_of] in Hi. injection Hi as ->. exact (Hnr eq_refl E). }
    unfold merge_group_head_below in H. destruct (fnl_db _ _) as [loc|] eqn:Ef.
    - destruct (find_group _ root) as [[di dc]|] eqn:E1; cbn [of_option bind] in H; [|discriminate].
      destruct (group_merge_with now di si) as [[di' lg1]| | |] eqn:E2; cbn [bind] in H; try discriminate.
      destruct (put_group _ di' dc root) as [root1|] eqn:E3; cbn [of_option bind] in H; [|discriminate].
      injection H as <- <-.
      pose proof (group_merge_with_uuid _ _ _ _ _ E2) as Hu'.
      pose proof (find_group_label _ _ _ _ E1) as Hu. rewrite last_snoc in Hu.
      destruct (put_group_info_rows _ _ _ _ _ _ (@snoc_not_nil _ _ _) E1 E3 Hu') as (rest & P1 & P2).
      set (lbl := last (removelast (loc ++ [gi_uuid si])) (uuid_of root)) in *.
      split; [|split; [|split; [|exact Hroot]]].
      + rewrite <- Hu. apply (only_replace _ _ (lbl, IG di) (lbl, IG di') rest P1 P2). exact Hu'.
      + rewrite <- Hu. eapply group_merge_with_log. exact E2.
      + intros _ pre Hpre.
        assert (Epre : pre = Some (lbl, IG di)) by (apply (ustate_some_first root _ rest (gi_uuid si)); auto).
        subst pre. exists (Some (lbl, IG di')). split.
        * split; [|unfold ru; cbn [snd iu]; congruence].
          apply (Permutation_in _ (Permutation_sym P2)). left. reflexivity.
        * cbn [hrel]. exists di', lg1. auto.
    - injection H as <- <-. split; [apply only_refl|]. split; [apply log_in_nil|]. split; [|exact Hroot].
      intros _ pre Hpre. assert (Hn : ustate (gi_uuid si) root None).
      { cbn [ustate]. rewrite all_uuids_children. apply fnl_db_none_notin. exact Ef. }
      rewrite (ustate_fun _ _ _ _ Nd Hpre Hn). exists None. split; [exact Hn|reflexivity].
  Qed.

  (* ---------- one iteration of the entries loop ---------- *)

  Lemma entry_set_lc_uuid e t : e_uuid (entry_set_lc e t) = e_uuid e.
  Proof. destruct e; reflexivity. Qed.

  Lemma merge_entry_step_found2 path in_del oe root dloc root' lg :
    fnl_db (e_uuid oe) (children_of root) = Some dloc ->
    merge_entry_step now deleted path in_del oe root = Ok (root', lg) ->
    exists existing root1 existing1 p m,
      find_entry (dloc ++ [e_uuid oe]) root = Some existing
      /\ ((root1 = root /\ existing1 = existing /\ p = dloc
           /\ (in_del = true \/ optN_eqb (last_opt path) (last_opt dloc) = true
               \/ (lc_src (e_times oe) <= lc_dst (e_times existing))%Z)
           /\ ~ In (Ev EntryLocationUpdated (e_uuid oe)) lg)
          \/ (in_del = false
              /\ (lc_src (e_times oe) > lc_dst (e_times existing))%Z
              /\ relocate_node (e_uuid oe) dloc path (lc_src (e_times oe)) root = Ok root1
              /\ existing1 = entry_set_lc existing (lc_src (e_times oe))
              /\ p = path /\ In (Ev EntryLocationUpdated (e_uuid oe)) lg))
      /\ lww_out now existing1 oe m
      /\ log_in [e_uuid oe] lg
      /\ ((root' = root1 /\ m = existing1) \/ put_entry (p ++ [e_uuid oe]) m root1 = Some root').
  Proof.
    intros Ef H. unfold merge_entry_step in H. rewrite Ef in H.
    destruct (find_entry _ root) as [existing|] eqn:Ee; cbn [unwrap bind] in H; [|discriminate].
    match type of H with bind ?x _ = _ =>
      destruct x as [[[[root1 existing1] loc1] lg1]| | |] eqn:Einner end; cbn [bind] in H; try discriminate.
    set (ev := Ev EntryLocationUpdated (e_uuid oe)).
    assert (Hr1 : exists p, loc1 = p ++ [e_uuid oe] /\ log_in [e_uuid oe] lg1
              /\ ((root1 = root /\ existing1 = existing /\ p = dloc
                   /\ (in_del = true \/ optN_eqb (last_opt path) (last_opt dloc) = true
                       \/ (lc_src (e_times oe) <= lc_dst (e_times existing))%Z)
                   /\ is_warns lg1)
                  \/ (in_del = false
                      /\ (lc_src (e_times oe) > lc_dst (e_times existing))%Z
                      /\ relocate_node (e_uuid oe) dloc path (lc_src (e_times oe)) root = Ok root1
                      /\ existing1 = entry_set_lc existing (lc_src (e_times oe))
                      /\ p = path /\ In ev lg1))).
    { pose proof (lc_or_warns (e_times oe) 0%Z) as W1. pose proof (lc_or_warns (e_times existing) now) as W2.
      unfold lc_src, lc_dst.
      destruct (negb _ && negb in_del) eqn:Ec.
      - apply andb_true_iff in Ec as [_ Ec]. apply negb_true_iff in Ec.
        destruct (lc_or (e_times oe) 0%Z) as [src_lc w1]. destruct (lc_or (e_times existing) now) as [dst_lc w2].
        cbn [fst snd] in *. destruct (Z.gtb_spec src_lc dst_lc) as [G|G].
        + destruct (relocate_node _ _ _ _ _) as [r1| | |] eqn:Er; cbn [bind] in Einner; try discriminate.
          injection Einner as <- <- <- <-. exists path. split; [reflexivity|]. split.
          { apply log_in_app; [apply warns_log_in; exact W1|].
            apply log_in_app; [apply warns_log_in; exact W2|]. apply log_in_one. left. reflexivity. }
          right. split; [exact Ec|]. split; [lia|]. split; [reflexivity|]. split; [reflexivity|].
          split; [reflexivity|]. apply in_or_app. right. apply in_or_app. right. left. reflexivity.
        + injection Einner as <- <- <- <-. exists dloc. split; [reflexivity|].
          assert (W : is_warns (w1 ++ w2)) by (apply is_warns_app; assumption).
          split; [apply warns_log_in; exact W|]. left. split; [reflexivity|]. split; [reflexivity|].
          split; [reflexivity|]. split; [right; right; lia|exact W].
      - injection Einner as <- <- <- <-. exists dloc. split; [reflexivity|]. split; [apply log_in_nil|].
        left. split; [reflexivity|]. split; [reflexivity|]. split; [reflexivity|]. split; [|apply is_warns_nil].
        apply andb_false_iff in Ec as [Ec|Ec]; apply negb_false_iff in Ec; auto. }
    destruct Hr1 as (p & -> & Hl1 & Hr1). exists existing, root1, existing1, p.
    assert (Hu1 : e_uuid existing1 = e_uuid oe).
    { pose proof (find_entry_last _ _ _ _ Ee) as Hu.
      destruct Hr1 as [(_ & -> & _)|(_ & _ & _ & -> & _)]; [exact Hu|rewrite entry_set_lc_uuid; exact Hu]. }
    assert (Hfin : forall lgx,
              (lgx = lg1 \/ exists m0 elog, is_warns elog /\ e_uuid m0 = e_uuid oe
                                         /\ lgx = lg1 ++ [Ev EntryUpdated (e_uuid m0)] ++ elog) ->
              ((root1 = root /\ existing1 = existing /\ p = dloc
                /\ (in_del = true \/ optN_eqb (last_opt path) (last_opt dloc) = true
                    \/ (lc_src (e_times oe) <= lc_dst (e_times existing))%Z)
                /\ ~ In ev lgx)
               \/ (in_del = false
                   /\ (lc_src (e_times oe) > lc_dst (e_times existing))%Z
                   /\ relocate_node (e_uuid oe) dloc path (lc_src (e_times oe)) root = Ok root1
                   /\ existing1 = entry_set_lc existing (lc_src (e_times oe))
                   /\ p = path /\ In ev lgx))
              /\ log_in [e_uuid oe] lgx).
    { intros lgx Hx. split.
      - destruct Hr1 as [(A & B & C & D & W)|(A & B & C & D & E & F)]; [left|right].
        + repeat (split; [assumption|]).
          destruct Hx as [->|(m0 & elog & We & _ & ->)]; [apply warns_no_event; exact W|].
          intro Hin. apply in_app_or in Hin as [Hin|Hin]; [exact (warns_no_event _ _ _ W Hin)|].
          destruct Hin as [Hin|Hin]; [discriminate|]. exact (warns_no_event _ _ _ We Hin).
        + repeat (split; [assumption|]).
          destruct Hx as [->|(m0 & elog & _ & _ & ->)]; [exact F|apply in_or_app; left; exact F].
      - destruct Hx as [->|(m0 & elog & We & Um & ->)]; [exact Hl1|].
        apply log_in_app; [exact Hl1|]. apply log_in_app; [|apply warns_log_in; exact We].
        apply log_in_one. left. symmetry. exact Um. }
    destruct (entry_diverged existing1 oe) eqn:Dv; cbn [negb] in H.
    - destruct (entry_merge now existing1 oe) as [[merged elog]| | |] eqn:Em; cbn [bind] in H; try discriminate.
      destruct merged as [m|].
      + exists m. split; [reflexivity|].
        assert (Hout : lww_out now existing1 oe m).
        { right. split; [exact Dv|]. right. exists elog. exact Em. }
        destruct (entry_eqb existing1 m) eqn:Eq.
        * injection H as <- <-. destruct (Hfin lg1 (or_introl eq_refl)) as [Hc Hl].
          split; [exact Hc|]. split; [exact Hout|]. split; [exact Hl|].
          left. split; [reflexivity|]. symmetry. apply entry_eqb_eq. exact Eq.
        * destruct (put_entry _ m root1) as [root2|] eqn:Ep; cbn [of_option bind] in H; [|discriminate].
          injection H as <- <-.
          assert (Hm : e_uuid m = e_uuid oe).
          { destruct (entry_merge_uuid _ _ _ _ _ Em) as [E|E]; congruence. }
          destruct (Hfin _ (or_intror (ex_intro _ m (ex_intro _ elog
                      (conj (entry_merge_warns _ _ _ _ _ Em) (conj Hm eq_refl)))))) as [Hc Hl].
          split; [exact Hc|]. split; [exact Hout|]. split; [exact Hl|]. right. reflexivity.
      + injection H as <- <-. exists existing1. split; [reflexivity|].
        destruct (Hfin lg1 (or_introl eq_refl)) as [Hc Hl].
        split; [exact Hc|]. split; [|split; [exact Hl|left; auto]].
        right. split; [exact Dv|]. left. split; [exists elog; exact Em|reflexivity].
    - injection H as <- <-. exists existing1. split; [reflexivity|].
      destruct (Hfin lg1 (or_introl eq_refl)) as [Hc Hl].
      split; [exact Hc|]. split; [left; auto|]. split; [exact Hl|left; auto].
  Qed.

  (* where find_node_location finds a node: its row *)
  Lemma fnl_db_row u root dloc :
    NoDup (all_uuids root) -> fnl_db u (children_of root) = Some dloc ->
    exists n, uuid_of n = u /\ get_uuid (dloc ++ [u]) root = Some n
      /\ In (last dloc (uuid_of root), item_of n) (rows root).
  Proof.
    intros Nd Ef. rewrite all_uuids_children in Nd.
    destruct (fnl_db_lookup u root dloc Nd Ef) as (pi & pc & n & Hp & Hf & Hn & Hu & _).
    exists n. split; [exact Hu|]. split.
    - rewrite <- Hu. apply (get_uuid_at dloc root pc n Nd Hp Hn).
    - rewrite <- (find_group_label _ _ _ _ Hf). apply (find_group_rows _ _ _ _ _ Hf Hn).
  Qed.

  Lemma fnl_db_none_ustate u root : fnl_db u (children_of root) = None -> ustate u root None.
  Proof. intro Ef. cbn [ustate]. rewrite all_uuids_children. apply fnl_db_none_notin. exact Ef. Qed.

  Theorem merge_entry_step_spec path in_del oe root root' lg :
    merge_entry_step now deleted path in_del oe root = Ok (root', lg) -> NoDup (all_uuids root) ->
    only [e_uuid oe] root root' /\ log_in [e_uuid oe] lg
    /\ forall pre, ustate (e_uuid oe) root pre ->
         exists post, ustate (e_uuid oe) root' post
                      /\ erel in_del (last path (uuid_of root)) oe pre post lg.
  Proof.
    intros H Nd. destruct (fnl_db (e_uuid oe) (children_of root)) as [dloc|] eqn:Ef.
    - destruct (merge_entry_step_found2 _ _ _ _ _ _ _ Ef H)
        as (existing & root1 & existing1 & p & m & Ee & Hr1 & Hout & Hl & Hr2).
      destruct (fnl_db_row _ root dloc Nd Ef) as (n & Hnu & Hg & Hrow).
      assert (Hn : n = NE existing).
      { unfold find_entry in Ee. rewrite Hg in Ee. destruct n; [discriminate|]. injection Ee as ->. reflexivity. }
      subst n. cbn [item_of uuid_of] in Hrow, Hnu.
      assert (Hu1 : e_uuid existing1 = e_uuid oe).
      { destruct Hr1 as [(_ & -> & _)|(_ & _ & _ & -> & _)]; [exact Hnu|rewrite entry_set_lc_uuid; exact Hnu]. }
      assert (S1 : NoDup (all_uuids root1) /\ uuid_of root1 = uuid_of root /\ only [e_uuid oe] root root1
                   /\ In (last p (uuid_of root), IE existing1) (rows root1)).
      { destruct Hr1 as [(-> & -> & -> & _)|(_ & _ & Er & -> & -> & _)].
        - split; [exact Nd|]. split; [reflexivity|]. split; [apply only_refl|exact Hrow].
        - destruct (relocate_node_rows _ _ _ _ _ _ Er Nd) as (it & rest & Hiu & P1 & P2).
          assert (Hit : (last dloc (uuid_of root), it) = (last dloc (uuid_of root), IE existing)).
          { apply (row_unique root); [exact Nd| |exact Hrow|unfold ru; cbn [snd iu]; congruence].
            apply (Permutation_in _ (Permutation_sym P1)). left. reflexivity. }
          injection Hit as ->. cbn [item_set_lc] in P2.
          split; [exact (relocate_node_nodup _ _ _ _ _ _ Er Nd)|].
          split; [exact (proj1 (relocate_node_perm _ _ _ _ _ _ Er))|]. split.
          + pose proof (only_replace _ _ _ _ rest P1 P2) as Ho. unfold ru in Ho. cbn [snd iu] in Ho.
            rewrite Hnu in Ho. apply Ho. exact Hu1.
          + apply (Permutation_in _ (Permutation_sym P2)). left. reflexivity. }
      destruct S1 as (Nd1 & Ur1 & Ho1 & Hrow1).
      assert (Hmu : e_uuid m = e_uuid oe).
      { destruct (lww_out_uuid _ _ _ _ Hout) as [E|E]; congruence. }
      assert (S2 : only [e_uuid oe] root1 root' /\ In (last p (uuid_of root), IE m) (rows root')).
      { destruct Hr2 as [[-> ->]|Ep]; [split; [apply only_refl|exact Hrow1]|].
        apply put_entry_rows in Ep as (old & rest & _ & Hou & P1 & P2). rewrite Ur1 in P1, P2.
        split.
        - pose proof (only_replace _ _ _ _ rest P1 P2) as Ho. unfold ru in Ho. cbn [snd iu] in Ho.
          rewrite Hou in Ho. apply Ho. congruence.
        - apply (Permutation_in _ (Permutation_sym P2)). left. reflexivity. }
      destruct S2 as (Ho2 & Hrow2).
      split; [exact (only_trans _ _ _ _ Ho1 Ho2)|]. split; [exact Hl|].
      intros pre Hpre.
      assert (Epre : pre = Some (last dloc (uuid_of root), IE existing)).
      { apply (ustate_fun _ _ _ _ Nd Hpre). split; [exact Hrow|exact Hnu]. }
      subst pre. exists (Some (last p (uuid_of root), IE m)). split; [split; [exact Hrow2|exact Hmu]|].
      cbn [erel]. exists (last p (uuid_of root)), existing1, m. split; [reflexivity|]. split; [exact Hout|].
      destruct Hr1 as [(_ & E1 & -> & Hc & Hno)|(Hf & Hlc & _ & E1 & -> & Hev)]; [right|left].
      + split; [reflexivity|]. split; [exact E1|]. split; [|exact Hno].
        destruct Hc as [Hc|[Hc|Hc]]; [left; exact Hc| |right; right; exact Hc].
        right. left. apply last_opt_eq_last. exact Hc.
      + auto.
    - pose proof (fnl_db_none_ustate _ _ Ef) as Hn.
      unfold merge_entry_step in H. rewrite Ef in H.
      assert (Hsame : deleted_contains deleted (e_uuid oe) || in_del = true -> root' = root -> lg = [] ->
                only [e_uuid oe] root root' /\ log_in [e_uuid oe] lg
                /\ forall pre, ustate (e_uuid oe) root pre ->
                     exists post, ustate (e_uuid oe) root' post
                                  /\ erel in_del (last path (uuid_of root)) oe pre post lg).
      { intros Hc -> ->. split; [apply only_refl|]. split; [apply log_in_nil|].
        intros pre Hpre. rewrite (ustate_fun _ _ _ _ Nd Hpre Hn). exists None. split; [exact Hn|].
        cbn [erel]. rewrite Hc. reflexivity. }
      destruct (deleted_contains deleted (e_uuid oe)) eqn:Ed;
        [injection H as <- <-; apply Hsame; reflexivity|].
      destruct in_del; [injection H as <- <-; apply Hsame; reflexivity|].
      destruct (find_group path root) as [[pi pc]|] eqn:E1; cbn [of_option bind] in H; [|discriminate].
      destruct (put_group path pi _ root) as [root1|] eqn:E2; cbn [of_option bind] in H; [|discriminate].
      injection H as <- <-.
      destruct (put_group_children_rows _ _ _ _ _ _ E1 E2) as (rest & P1 & P2).
      assert (P : Permutation (rows root1) ((last path (uuid_of root), IE oe) :: rows root)).
      { rewrite P2, P1, crows_app, crows_single, <- (find_group_label _ _ _ _ E1). unfold nrow.
        cbn [item_of rows]. rewrite <- app_assoc. cbn [app]. symmetry. apply Permutation_middle. }
      split; [exact (only_add _ _ _ P)|]. split; [apply log_in_one; left; reflexivity|].
      intros pre Hpre. rewrite (ustate_fun _ _ _ _ Nd Hpre Hn).
      exists (Some (last path (uuid_of root), IE oe)). split.
      + split; [|reflexivity]. apply (Permutation_in _ (Permutation_sym P)). left. reflexivity.
      + cbn [erel]. rewrite Ed. reflexivity.
  Qed.

  (* ---------- the entries loop ---------- *)

  Definition euus (l : list node) : list N :=
    flat_map (fun c => match c with NE e => [e_uuid e] | NG _ _ => [] end) l.

  Lemma euus_incl l : incl (euus l) (map uuid_of l).
  Proof.
    induction l as [|x r IH]; [intros u []|]. destruct x as [j jc|e]; cbn [euus flat_map map app].
    - apply incl_tl. exact IH.
    - intros u [<-|Hu]; [left; reflexivity|right; apply IH; exact Hu].
  Qed.

  Lemma merge_entries_frame2 path in_del : forall l root root' lg,
    merge_entries now deleted path in_del l root = Ok (root', lg) -> NoDup (all_uuids root) ->
    only (euus l) root root' /\ log_in (euus l) lg.
  Proof.
    induction l as [|x r IH]; intros root root' lg H Nd; cbn [merge_entries] in H.
    - injection H as <- <-. split; [apply only_refl|apply log_in_nil].
    - destruct x as [j jc|oe]; [exact (IH _ _ _ H Nd)|].
      destruct (merge_entry_step now deleted path in_del oe root) as [[root1 lg1]| | |] eqn:E1;
        cbn [bind] in H; try discriminate.
      destruct (merge_entries now deleted path in_del r root1) as [[root2 lg2]| | |] eqn:E2;
        cbn [bind] in H; try discriminate.
      injection H as <- <-.
      pose proof (step_ok_nodup _ _ _ (merge_entry_step_ok _ _ _ _ _ _ _ _ E1) Nd) as Nd1.
      destruct (merge_entry_step_spec _ _ _ _ _ _ E1 Nd) as (O1 & L1 & _).
      destruct (IH _ _ _ E2 Nd1) as (O2 & L2). change (euus (NE oe :: r)) with ([e_uuid oe] ++ euus r).
      split; [exact (only_app _ _ _ _ _ O1 O2)|].
      apply log_in_app; [eapply log_in_mono; [|exact L1]; apply incl_appl, incl_refl
                        |eapply log_in_mono; [|exact L2]; apply incl_appr, incl_refl].
  Qed.

  Lemma in_app_iff_l {A} (x : A) a b : ~ In x b -> (In x a <-> In x (a ++ b)).
  Proof. intro Hb. rewrite in_app_iff. tauto. Qed.

  Lemma in_app_iff_r {A} (x : A) a b : ~ In x a -> (In x b <-> In x (a ++ b)).
  Proof. intro Ha. rewrite in_app_iff. tauto. Qed.

  Lemma merge_entries_spec path in_del : forall l root root' lg oe,
    merge_entries now deleted path in_del l root = Ok (root', lg) -> NoDup (all_uuids root) ->
    NoDup (map uuid_of l) -> In (NE oe) l ->
    forall pre, ustate (e_uuid oe) root pre ->
      exists post, ustate (e_uuid oe) root' post
                   /\ erel in_del (last path (uuid_of root)) oe pre post lg.
  Proof.
    induction l as [|x r IH]; intros root root' lg oe H Nd Ndl Hs pre Hpre; [destruct Hs|].
    cbn [merge_entries] in H. cbn [map] in Ndl. apply NoDup_cons_iff in Ndl as [Hx Ndr].
    destruct x as [j jc|oe0].
    - destruct Hs as [Hs|Hs]; [discriminate|]. exact (IH _ _ _ _ H Nd Ndr Hs pre Hpre).
    - destruct (merge_entry_step now deleted path in_del oe0 root) as [[root1 lg1]| | |] eqn:E1;
        cbn [bind] in H; try discriminate.
      destruct (merge_entries now deleted path in_del r root1) as [[root2 lg2]| | |] eqn:E2;
        cbn [bind] in H; try discriminate.
      injection H as <- <-.
      pose proof (merge_entry_step_ok _ _ _ _ _ _ _ _ E1) as Ok1.
      pose proof (step_ok_nodup _ _ _ Ok1 Nd) as Nd1.
      destruct (merge_entry_step_spec _ _ _ _ _ _ E1 Nd) as (O1 & L1 & S1).
      destruct (merge_entries_frame2 _ _ _ _ _ _ E2 Nd1) as (O2 & L2).
      cbn [uuid_of] in Hx. destruct Hs as [Hs|Hs].
      + injection Hs as ->.
        assert (Hnr : ~ In (e_uuid oe) (euus r)) by (intro Hi; apply Hx; apply euus_incl; exact Hi).
        destruct (S1 pre Hpre) as (post & Hpost & Hrel). exists post.
        split; [exact (ustate_only _ _ _ _ _ O2 Hnr Hpost)|].
        apply (nrel_log in_del _ (IE oe) pre post lg1); [|exact Hrel].
        apply in_app_iff_l. cbn [move_ev]. exact (log_in_not _ _ _ _ L2 Hnr).
      + assert (Hne : ~ In (e_uuid oe) [e_uuid oe0]).
        { intros [E|[]]. apply Hx. rewrite E. change (e_uuid oe) with (uuid_of (NE oe)). apply in_map. exact Hs. }
        destruct (IH _ _ _ oe E2 Nd1 Ndr Hs pre (ustate_only _ _ _ _ _ O1 Hne Hpre)) as (post & Hpost & Hrel).
        exists post. split; [exact Hpost|]. rewrite (proj1 Ok1) in Hrel.
        apply (nrel_log in_del _ (IE oe) pre post lg2); [|exact Hrel].
        apply in_app_iff_r. cbn [move_ev]. exact (log_in_not _ _ _ _ L1 Hne).
  Qed.

  (* ---------- one iteration of the groups loop, up to the recursive call ---------- *)

  (* [path] is the destination path of the source group being walked; the sub-group [j] is looked
     up; the recursive call continues at [q ++ [j]] on the tree [root1].  The relocation guard is
     [existsb (N.eqb (gi_uuid j)) path], literally. *)
  Theorem merge_subgroup_step_spec path in_del j rec root root' lg :
    merge_subgroup_step now deleted path in_del j rec root = Ok (root', lg) -> NoDup (all_uuids root) ->
    exists q root1 lg1 w,
      rec (q ++ [gi_uuid j]) (deleted_contains deleted (gi_uuid j) || in_del) root1 = Ok (root', lg1)
      /\ lg = w ++ lg1 /\ NoDup (all_uuids root1) /\ uuid_of root1 = uuid_of root
      /\ only [gi_uuid j] root root1 /\ log_in [gi_uuid j] w
      /\ (forall pre, ustate (gi_uuid j) root pre ->
           exists mid, ustate (gi_uuid j) root1 mid
             /\ prel (deleted_contains deleted (gi_uuid j) || in_del) path
                     (last path (uuid_of root)) j pre mid w)
      (* unless the flag is on, the recursive call's path leads to a node *)
      /\ (deleted_contains deleted (gi_uuid j) || in_del = false ->
          get_uuid (q ++ [gi_uuid j]) root1 <> None).
  Proof.
    intros H Nd. unfold merge_subgroup_step in H. cbv zeta in H.
    destruct (deleted_contains deleted (gi_uuid j) || in_del) eqn:Ec.
    - exists path, root, lg, []. split; [exact H|]. split; [reflexivity|]. split; [exact Nd|].
      split; [reflexivity|]. split; [apply only_refl|]. split; [apply log_in_nil|].
      split; [|discriminate].
      intros pre Hpre. exists pre. split; [exact Hpre|]. destruct pre as [[pd it]|]; cbn [prel]; [|reflexivity].
      right. split; [reflexivity|]. split; [left; reflexivity|intros []].
    - apply orb_false_iff in Ec as [Ed Ei]. subst in_del.
      destruct (fnl_db _ _) as [dloc|] eqn:Ef.
      + destruct (fnl_db_row _ root dloc Nd Ef) as (n & Hnu & Hg & Hrow).
        match goal with |- ?G =>
          assert (Hstay : forall w, is_warns w ->
            (last path (uuid_of root) = last dloc (uuid_of root)
             \/ (exists gd, item_of n = IG gd /\ (lc_src (gi_times j) <= lc_dst (gi_times gd))%Z)
             \/ existsb (N.eqb (gi_uuid j)) path = true) ->
            (do (root1, lg) <- rec (dloc ++ [gi_uuid j]) false root; Ok (root1, w ++ lg))%outcome
            = Ok (root', lg) -> G) end.
        { intros w Hw Hreason Hs.
          destruct (rec (dloc ++ [gi_uuid j]) false root) as [[r1 l1]| | |] eqn:Er; cbn [bind] in Hs;
            try discriminate.
          injection Hs as <- <-. exists dloc, root, l1, w. split; [exact Er|]. split; [reflexivity|].
          split; [exact Nd|]. split; [reflexivity|]. split; [apply only_refl|].
          split; [apply warns_log_in; exact Hw|].
          split; [|intros _; rewrite Hg; discriminate].
          intros pre Hpre. exists pre. split; [exact Hpre|].
          assert (Epre : pre = Some (last dloc (uuid_of root), item_of n)).
          { apply (ustate_fun _ _ _ _ Nd Hpre). split; [exact Hrow|].
            unfold ru. cbn [snd]. rewrite iu_item_of. exact Hnu. }
          subst pre. cbn [prel]. right. split; [reflexivity|]. split; [|apply warns_no_event; exact Hw].
          destruct Hreason as [Hr|[Hr|Hr]]; [right; left; exact Hr|right; right; left; exact Hr|].
          right. right. right. exact Hr. }
        destruct (negb (path_eqb path dloc)) eqn:Epe.
        * destruct (find_group _ root) as [[ei ec]|] eqn:Eg; cbn [unwrap bind] in H; [|discriminate].
          assert (Hn : n = NG ei ec).
          { unfold find_group in Eg. rewrite Hg in Eg. destruct n; [|discriminate]. injection Eg as -> ->. reflexivity. }
          subst n. cbn [item_of uuid_of] in *.
          pose proof (lc_or_warns (gi_times ei) now) as W1. pose proof (lc_or_warns (gi_times j) 0%Z) as W2.
          assert (L1 : fst (lc_or (gi_times ei) now) = lc_dst (gi_times ei)) by reflexivity.
          assert (L2 : fst (lc_or (gi_times j) 0%Z) = lc_src (gi_times j)) by reflexivity.
          destruct (lc_or (gi_times ei) now) as [e_lc w1]. destruct (lc_or (gi_times j) 0%Z) as [o_lc w2].
          cbn [fst snd] in *. subst e_lc o_lc.
          assert (W : is_warns (w1 ++ w2)) by (apply is_warns_app; assumption).
          destruct (Z.ltb (lc_dst (gi_times ei)) (lc_src (gi_times j))) eqn:Elt; cbn [andb] in H.
          -- apply Z.ltb_lt in Elt.
             destruct (existsb (N.eqb (gi_uuid j)) path) eqn:Eg2; cbn [negb] in H.
             ++ apply (Hstay _ W); [right; right; reflexivity|exact H].
             ++ destruct (relocate_node _ _ _ _ root) as [root1| | |] eqn:E1; cbn [bind] in H; try discriminate.
                destruct (rec _ false root1) as [[root2 l2]| | |] eqn:E2; cbn [bind] in H; try discriminate.
                injection H as <- <-.
                exists path, root1, l2, (w1 ++ w2 ++ [Ev GroupLocationUpdated (gi_uuid j)]).
                split; [exact E2|]. split; [rewrite <- !app_assoc; reflexivity|].
                destruct (relocate_node_rows _ _ _ _ _ _ E1 Nd) as (it & rest & Hiu & P1 & P2).
                assert (Hit : (last dloc (uuid_of root), it) = (last dloc (uuid_of root), IG ei)).
                { apply (row_unique root); [exact Nd| |exact Hrow|unfold ru; cbn [snd iu]; congruence].
                  apply (Permutation_in _ (Permutation_sym P1)). left. reflexivity. }
                injection Hit as ->. cbn [item_set_lc] in P2.
                split; [exact (relocate_node_nodup _ _ _ _ _ _ E1 Nd)|].
                split; [exact (proj1 (relocate_node_perm _ _ _ _ _ _ E1))|]. split.
                { pose proof (only_replace _ _ _ _ rest P1 P2 eq_refl) as Ho. unfold ru in Ho.
                  cbn [snd iu] in Ho. rewrite Hnu in Ho. exact Ho. }
                split.
                { apply log_in_app; [apply warns_log_in; exact W1|].
                  apply log_in_app; [apply warns_log_in; exact W2|]. apply log_in_one. left. reflexivity. }
                split; [|intros _; exact (relocate_valid _ _ _ _ _ _ E1)].
                intros pre Hpre.
                assert (Epre : pre = Some (last dloc (uuid_of root), IG ei)).
                { apply (ustate_fun _ _ _ _ Nd Hpre). split; [exact Hrow|exact Hnu]. }
                subst pre.
                exists (Some (last path (uuid_of root), IG (ginfo_set_lc ei (lc_src (gi_times j))))). split.
                { split; [|exact Hnu]. apply (Permutation_in _ (Permutation_sym P2)). left. reflexivity. }
                cbn [prel]. left. exists ei. split; [reflexivity|]. split; [reflexivity|]. split; [reflexivity|].
                split; [exact Elt|]. split; [exact Eg2|].
                apply in_or_app. right. apply in_or_app. right. left. reflexivity.
          -- apply Z.ltb_ge in Elt. apply (Hstay _ W); [|exact H].
             right. left. exists ei. split; [reflexivity|exact Elt].
        * apply negb_false_iff in Epe. apply list_eqb_N_eq in Epe. subst dloc.
          apply (Hstay [] is_warns_nil); [left; reflexivity|exact H].
      + pose proof (fnl_db_none_ustate _ _ Ef) as Hn.
        destruct (find_group path root) as [[pi pc]|] eqn:E1; cbn [of_option bind] in H; [|discriminate].
        destruct (put_group path pi _ root) as [root1|] eqn:E2; cbn [of_option bind] in H; [|discriminate].
        destruct (rec _ false root1) as [[root2 l2]| | |] eqn:E3; cbn [bind] in H; try discriminate.
        injection H as <- <-. exists path, root1, l2, [Ev GroupCreated (gi_uuid j)].
        split; [exact E3|]. split; [reflexivity|].
        pose proof (put_group_new _ _ _ _ (NG j []) _ [Ev GroupCreated (gi_uuid j)] E1 E2 eq_refl Ef eq_refl) as Sok.
        split; [exact (step_ok_nodup _ _ _ Sok Nd)|]. split; [exact (proj1 Sok)|].
        destruct (put_group_children_rows _ _ _ _ _ _ E1 E2) as (rest & P1 & P2).
        assert (P : Permutation (rows root1) ((last path (uuid_of root), IG j) :: rows root)).
        { rewrite P2, P1, crows_app, crows_single, <- (find_group_label _ _ _ _ E1). unfold nrow.
          cbn [item_of rows flat_map]. rewrite <- app_assoc. cbn [app]. symmetry. apply Permutation_middle. }
        split; [exact (only_add _ _ _ P)|]. split; [apply log_in_one; left; reflexivity|].
        split; [|intros _; exact (create_valid _ _ _ _ (NG j []) _ E1 E2)].
        intros pre Hpre. rewrite (ustate_fun _ _ _ _ Nd Hpre Hn).
        exists (Some (last path (uuid_of root), IG j)). split; [|reflexivity].
        split; [|reflexivity]. apply (Permutation_in _ (Permutation_sym P)). left. reflexivity.
  Qed.

  (* ---------- frames: merge_group on a source (sub-)tree touches only rows with its UUIDs ---------- *)

  Definition guus (l : list node) : list N :=
    flat_map (fun c => match c with NG _ _ => uu c | NE _ => [] end) l.

  Lemma guus_incl l : incl (guus l) (uus l).
  Proof.
    induction l as [|x r IH]; [intros u []|]. change (uus (x :: r)) with (uu x ++ uus r).
    destruct x as [j jc|e]; cbn [guus flat_map].
    - apply incl_app; [apply incl_appl, incl_refl|apply incl_appr; exact IH].
    - cbn [app]. apply incl_appr. exact IH.
  Qed.

  Lemma euus_incl_uus l : incl (euus l) (uus l).
  Proof. intros u Hu. apply map_uuid_incl_uus. apply euus_incl. exact Hu. Qed.

  Lemma euus_in l u : In u (euus l) -> exists e, In (NE e) l /\ e_uuid e = u.
  Proof.
    intro H. apply in_flat_map in H as (c & Hc & Hu). destruct c as [j jc|e]; [destruct Hu|].
    destruct Hu as [<-|[]]. exists e. auto.
  Qed.

  Lemma guus_in l u : In u (guus l) -> exists c, In c l /\ is_group c = true /\ In u (uu c).
  Proof.
    intro H. apply in_flat_map in H as (c & Hc & Hu). destruct c as [j jc|e]; [|destruct Hu].
    exists (NG j jc). auto.
  Qed.

  Lemma not_in_guus_entry l e : NoDup (uus l) -> In (NE e) l -> ~ In (e_uuid e) (guus l).
  Proof.
    intros Nd He Hi. apply guus_in in Hi as (c & Hc & Gc & Hu).
    assert (E : NE e = c) by (apply (uus_owner l _ _ (e_uuid e) Nd He Hc); [apply (uu_self (NE e))|exact Hu]).
    subst c. discriminate.
  Qed.

  Lemma not_in_euus_group l c u :
    NoDup (uus l) -> In c l -> is_group c = true -> In u (uu c) -> ~ In u (euus l).
  Proof.
    intros Nd Hc Gc Hu Hi. apply euus_in in Hi as (e & He & <-).
    assert (E : c = NE e) by (apply (uus_owner l _ _ (e_uuid e) Nd Hc He); [exact Hu|apply (uu_self (NE e))]).
    subst c. discriminate.
  Qed.

  Lemma move_ev_uuid it : exists t, move_ev it = Ev t (iu it).
  Proof. destruct it; eexists; reflexivity. Qed.

  Lemma log_in_not_move U lg it : log_in U lg -> ~ In (iu it) U -> ~ In (move_ev it) lg.
  Proof. intros Hl Hu. destruct (move_ev_uuid it) as [t ->]. exact (log_in_not _ _ _ _ Hl Hu). Qed.

  Definition rframe_at (x : node) : Prop :=
    forall path in_del root root' lg,
      merge_group now deleted path x in_del root = Ok (root', lg) -> NoDup (all_uuids root) ->
      only (uu x) root root' /\ log_in (uu x) lg.

  Lemma groups_loop_rframe path in_del : forall l,
    Forall rframe_at l ->
    forall root root' lg,
    groups_loop now deleted path in_del l root = Ok (root', lg) -> NoDup (all_uuids root) ->
    only (guus l) root root' /\ log_in (guus l) lg.
  Proof.
    induction 1 as [|x r Hx Hall IH]; intros root root' lg H Nd.
    - rewrite groups_loop_nil in H. injection H as <- <-. split; [apply only_refl|apply log_in_nil].
    - rewrite groups_loop_cons in H. destruct x as [j jc|e0]; [|exact (IH _ _ _ H Nd)].
      destruct (merge_subgroup_step _ _ _ _ _ _ root) as [[root1 lg1]| | |] eqn:E1; cbn [bind] in H;
        try discriminate.
      destruct (groups_loop now deleted path in_del r root1) as [[root2 lg2]| | |] eqn:E2;
        cbn [bind] in H; try discriminate.
      injection H as <- <-.
      pose proof (subgroup_step_nodup _ _ _ _ _ _ _ _ _ E1 Nd) as Nd1.
      destruct (merge_subgroup_step_spec _ _ _ _ _ _ _ E1 Nd)
        as (q & rootm & lgm & w & Hrec & -> & Ndm & _ & Om & Lw & _).
      cbv beta in Hrec. destruct (Hx _ _ _ _ _ Hrec Ndm) as (Or & Lr).
      destruct (IH _ _ _ E2 Nd1) as (O2 & L2).
      assert (Hj : incl [gi_uuid j] (uu (NG j jc))) by (intros u [<-|[]]; left; reflexivity).
      change (guus (NG j jc :: r)) with (uu (NG j jc) ++ guus r). split.
      + apply (only_app _ _ _ root1 _); [|exact O2].
        apply (only_trans _ _ rootm _); [exact (only_mono _ _ _ _ Hj Om)|exact Or].
      + apply log_in_app; [eapply log_in_mono; [apply incl_appl, incl_refl|]
                          |eapply log_in_mono; [apply incl_appr, incl_refl|exact L2]].
        apply log_in_app; [exact (log_in_mono _ _ _ Hj Lw)|exact Lr].
  Qed.

  (* merge_group taken apart *)
  Lemma merge_group_parts si sch path in_del root root' lg :
    Forall rframe_at sch ->
    merge_group now deleted path (NG si sch) in_del root = Ok (root', lg) -> NoDup (all_uuids root) ->
    exists root0 lg0 root1 lg1 lg2,
      merge_group_head now si root = Ok (root0, lg0)
      /\ merge_entries now deleted path in_del sch root0 = Ok (root1, lg1)
      /\ groups_loop now deleted path in_del sch root1 = Ok (root', lg2)
      /\ lg = lg0 ++ lg1 ++ lg2
      /\ NoDup (all_uuids root0) /\ NoDup (all_uuids root1)
      /\ uuid_of root0 = uuid_of root /\ uuid_of root1 = uuid_of root
      /\ only [gi_uuid si] root root0 /\ log_in [gi_uuid si] lg0
      /\ only (euus sch) root0 root1 /\ log_in (euus sch) lg1
      /\ only (guus sch) root1 root' /\ log_in (guus sch) lg2.
  Proof.
    intros F H Nd. rewrite merge_group_unfold in H.
    destruct (merge_group_head now si root) as [[root0 lg0]| | |] eqn:E0; cbn [bind] in H; try discriminate.
    destruct (merge_entries now deleted path in_del sch root0) as [[root1 lg1]| | |] eqn:E1;
      cbn [bind] in H; try discriminate.
    destruct (groups_loop now deleted path in_del sch root1) as [[root2 lg2]| | |] eqn:E2;
      cbn [bind] in H; try discriminate.
    injection H as <- <-.
    pose proof (merge_group_head_ok _ _ _ _ _ E0) as Ok0.
    pose proof (merge_entries_ok _ _ _ _ _ _ _ _ E1) as Ok1.
    pose proof (step_ok_nodup _ _ _ Ok0 Nd) as Nd0. pose proof (step_ok_nodup _ _ _ Ok1 Nd0) as Nd1.
    destruct (merge_group_head_spec _ _ _ _ E0 Nd) as (O0 & L0 & _ & _).
    destruct (merge_entries_frame2 _ _ _ _ _ _ E1 Nd0) as (O1 & L1).
    destruct (groups_loop_rframe _ _ _ F _ _ _ E2 Nd1) as (O2 & L2).
    exists root0, lg0, root1, lg1, lg2. repeat (split; [first [reflexivity|assumption]|]).
    split; [exact (proj1 Ok0)|]. split; [rewrite (proj1 Ok1); exact (proj1 Ok0)|]. auto 10.
  Qed.

  Lemma rframe_all : forall src, rframe_at src.
  Proof.
    induction src as [e0|si sch IH] using node_ind'; intros path in_del root root' lg H Nd; [discriminate|].
    destruct (merge_group_parts _ _ _ _ _ _ _ IH H Nd)
      as (root0 & lg0 & root1 & lg1 & lg2 & _ & _ & _ & -> & _ & _ & _ & _ & O0 & L0 & O1 & L1 & O2 & L2).
    assert (I0 : incl [gi_uuid si] (uu (NG si sch))) by (intros u [<-|[]]; left; reflexivity).
    assert (I1 : incl (euus sch) (uu (NG si sch))) by (intros u Hu; right; apply euus_incl_uus; exact Hu).
    assert (I2 : incl (guus sch) (uu (NG si sch))) by (intros u Hu; right; apply guus_incl; exact Hu).
    split.
    - apply (only_trans _ _ root0 _); [exact (only_mono _ _ _ _ I0 O0)|].
      apply (only_trans _ _ root1 _); [exact (only_mono _ _ _ _ I1 O1)|exact (only_mono _ _ _ _ I2 O2)].
    - apply log_in_app; [exact (log_in_mono _ _ _ I0 L0)|].
      apply log_in_app; [exact (log_in_mono _ _ _ I1 L1)|exact (log_in_mono _ _ _ I2 L2)].
  Qed.

  Lemma rframe_forall l : Forall rframe_at l.
  Proof. apply Forall_forall. intros y _. apply rframe_all. Qed.

  (* a group update never logs a relocation *)
  Lemma group_merge_with_no_move d s d' lg u :
    group_merge_with now d s = Ok (d', lg) -> ~ In (Ev GroupLocationUpdated u) lg.
  Proof.
    unfold group_merge_with.
    pose proof (lm_or_warns (gi_times s) 0%Z) as W1. pose proof (lm_or_warns (gi_times d) now) as W2.
    destruct (lm_or (gi_times s) 0%Z) as [src_lm w1]. destruct (lm_or (gi_times d) now) as [dst_lm w2].
    cbn [snd] in W1, W2.
    assert (W : is_warns (w1 ++ w2)) by (apply is_warns_app; assumption).
    destruct (Z.eqb dst_lm src_lm).
    - destruct (group_diverged d s); [discriminate|]. intro H. injection H as _ <-. apply warns_no_event. exact W.
    - destruct (Z.gtb dst_lm src_lm); intro H; injection H as _ <-; [apply warns_no_event; exact W|].
      intro Hi. apply in_app_or in Hi as [Hi|[Hi|[]]]; [exact (warns_no_event _ _ _ W Hi)|discriminate].
  Qed.

  Lemma merge_group_head_no_move si root root' lg u :
    merge_group_head now si root = Ok (root', lg) -> ~ In (Ev GroupLocationUpdated u) lg.
  Proof.
    intro H. apply merge_group_head_cases in H as [(ri & rc & ri' & -> & _ & Em & -> & _)|[_ H]].
    { (* the root group itself *) eapply group_merge_with_no_move. exact Em. }
    unfold merge_group_head_below in H. destruct (fnl_db _ _) as [loc|]; [|injection H as _ <-; intros []].
    destruct (find_group _ root) as [[di dc]|] eqn:E1; cbn [of_option bind] in H; [|discriminate].
    destruct (group_merge_with now di si) as [[di' lg1]| | |] eqn:E2; cbn [bind] in H; try discriminate.
    destruct (put_group _ di' dc root) as [root1|] eqn:E3; cbn [of_option bind] in H; [|discriminate].
    injection H as _ <-. eapply group_merge_with_no_move. exact E2.
  Qed.

  (* the row of the source group itself: only the first statement touches it
     ([gi_uuid si <> uuid_of root]: the group is not taken for the destination's root, F19) *)
  Lemma merge_group_self si sch path in_del root root' lg :
    merge_group now deleted path (NG si sch) in_del root = Ok (root', lg) -> NoDup (all_uuids root) ->
    NoDup (uu (NG si sch)) -> gi_uuid si <> uuid_of root ->
    ~ In (Ev GroupLocationUpdated (gi_uuid si)) lg
    /\ forall pre, ustate (gi_uuid si) root pre ->
         exists post, ustate (gi_uuid si) root' post /\ hrel si pre post.
  Proof.
    intros H Nd Nds Hnr.
    destruct (merge_group_parts _ _ _ _ _ _ _ (rframe_forall sch) H Nd)
      as (root0 & lg0 & root1 & lg1 & lg2 & E0 & _ & _ & -> & _ & _ & _ & _ & _ & _ & O1 & L1 & O2 & L2).
    unfold uu in Nds. cbn [uuid_of] in Nds. apply NoDup_cons_iff in Nds as [Hsi _].
    change (all_uuids (NG si sch)) with (uus sch) in Hsi.
    assert (H1 : ~ In (gi_uuid si) (euus sch)) by (intro Hi; apply Hsi; apply euus_incl_uus; exact Hi).
    assert (H2 : ~ In (gi_uuid si) (guus sch)) by (intro Hi; apply Hsi; apply guus_incl; exact Hi).
    split.
    - intro Hi. apply in_app_or in Hi as [Hi|Hi]; [exact (merge_group_head_no_move _ _ _ _ _ E0 Hi)|].
      apply in_app_or in Hi as [Hi|Hi]; [exact (log_in_not _ _ _ _ L1 H1 Hi)|exact (log_in_not _ _ _ _ L2 H2 Hi)].
    - destruct (merge_group_head_spec _ _ _ _ E0 Nd) as (_ & _ & S0 & _).
      intros pre Hpre. destruct (S0 (fun _ => Hnr) pre Hpre) as (post & Hpost & Hrel). exists post. split; [|exact Hrel].
      exact (ustate_only _ _ _ _ _ O2 H2 (ustate_only _ _ _ _ _ O1 H1 Hpost)).
  Qed.

  (* ---------- the source's rows, with the flag is_in_deleted_group of the walk ---------- *)

  (* the flag under which the node [c], child of a group walked under flag [f], is processed:
     a sub-group that the destination has tombstoned is walked (and its whole sub-tree) with the
     flag set *)
  Definition flag_of (f : bool) (c : node) : bool :=
    match c with NG j _ => deleted_contains deleted (gi_uuid j) || f | NE _ => f end.

  (* [lbl] is the label given to the children of the top group (the UUID of the group the
     destination path leads to); below, labels are the source groups' own UUIDs *)
  Fixpoint srows_l (f : bool) (lbl : N) (n : node) : list (bool * row) :=
    match n with
    | NE _ => []
    | NG i ch =>
      flat_map (fun c => (flag_of f c, (lbl, item_of c)) :: srows_l (flag_of f c) (uuid_of c) c) ch
    end.

  Lemma srows_l_uuid : forall n f lbl f' ps it,
    In (f', (ps, it)) (srows_l f lbl n) -> In (iu it) (all_uuids n).
  Proof.
    induction n as [e|i ch IH] using node_ind'; intros f lbl f' ps it H; [destruct H|].
    cbn [srows_l] in H. apply in_flat_map in H as (c & Hc & H).
    change (all_uuids (NG i ch)) with (uus ch). destruct H as [H|H].
    - injection H as _ _ <-. rewrite iu_item_of. apply in_uus_self. exact Hc.
    - apply (uu_incl_uus c ch Hc). apply uu_below.
      exact (proj1 (Forall_forall _ _) IH c Hc _ _ _ _ _ H).
  Qed.

  Definition spec_at (x : node) : Prop :=
    forall path in_del root root' lg lbl,
      merge_group now deleted path x in_del root = Ok (root', lg) -> NoDup (all_uuids root) ->
      NoDup (uu x) -> last path (uuid_of root) = lbl ->
      ~ In (uuid_of root) (all_uuids x) ->       (* no group below [x] is taken for the root (F19) *)
      forall f ps it, In (f, (ps, it)) (srows_l in_del lbl x) ->
      forall pre, ustate (iu it) root pre ->
        exists post, ustate (iu it) root' post /\ nrel f ps it pre post lg.

  Lemma uus_cons_parts x r :
    NoDup (uus (x :: r)) ->
    NoDup (uu x) /\ NoDup (uus r) /\ (forall u, In u (uu x) -> ~ In u (uus r)).
  Proof. change (uus (x :: r)) with (uu x ++ uus r). intro H. apply NoDup_app_iff in H. exact H. Qed.

  (* a sub-group that is a direct child of the group being walked *)
  Lemma groups_loop_direct path in_del : forall l root root' lg j jc,
    groups_loop now deleted path in_del l root = Ok (root', lg) -> NoDup (all_uuids root) ->
    NoDup (uus l) -> In (NG j jc) l -> ~ In (uuid_of root) (uus l) ->
    forall pre, ustate (gi_uuid j) root pre ->
      exists post, ustate (gi_uuid j) root' post
        /\ grel (deleted_contains deleted (gi_uuid j) || in_del) (last path (uuid_of root)) j pre post lg.
  Proof.
    induction l as [|x r IH]; intros root root' lg j jc H Nd Ndl Hin Hrt pre Hpre; [destruct Hin|].
    rewrite groups_loop_cons in H. destruct (uus_cons_parts _ _ Ndl) as (Ndx & Ndr & Hdis).
    assert (Hrtr : ~ In (uuid_of root) (uus r)).
    { intro Hi. apply Hrt. change (uus (x :: r)) with (uu x ++ uus r). apply in_or_app. right. exact Hi. }
    destruct x as [j0 jc0|e0].
    2:{ destruct Hin as [Hin|Hin]; [discriminate|]. exact (IH _ _ _ _ _ H Nd Ndr Hin Hrtr pre Hpre). }
    destruct (merge_subgroup_step _ _ _ _ _ _ root) as [[root1 lg1]| | |] eqn:E1; cbn [bind] in H;
      try discriminate.
    destruct (groups_loop now deleted path in_del r root1) as [[root2 lg2]| | |] eqn:E2;
      cbn [bind] in H; try discriminate.
    injection H as <- <-.
    pose proof (subgroup_step_nodup _ _ _ _ _ _ _ _ _ E1 Nd) as Nd1.
    destruct (merge_subgroup_step_spec _ _ _ _ _ _ _ E1 Nd)
      as (q & rootm & lgm & w & Hrec & -> & Ndm & Um & Om & Lw & Spre & _).
    cbv beta in Hrec. destruct (rframe_all _ _ _ _ _ _ Hrec Ndm) as (Or & Lr).
    destruct (groups_loop_rframe _ _ _ (rframe_forall r) _ _ _ E2 Nd1) as (O2 & L2).
    assert (Hj0 : incl [gi_uuid j0] (uu (NG j0 jc0))) by (intros u [<-|[]]; left; reflexivity).
    destruct Hin as [Hin|Hin].
    - injection Hin as -> ->.
      assert (Hnr : ~ In (gi_uuid j) (guus r)).
      { intro Hi. apply (Hdis (gi_uuid j)); [left; reflexivity|apply guus_incl; exact Hi]. }
      destruct (Spre pre Hpre) as (mid & Hmid & Hprel).
      assert (Hjm : gi_uuid j <> uuid_of rootm).
      { rewrite Um. intro E. apply Hrt. rewrite <- E. apply (in_uus_self (NG j jc)). left. reflexivity. }
      destruct (merge_group_self _ _ _ _ _ _ _ Hrec Ndm Ndx Hjm) as (Hnomove & Sself).
      destruct (Sself mid Hmid) as (post & Hpost & Hhrel).
      exists post. split; [exact (ustate_only _ _ _ _ _ O2 Hnr Hpost)|].
      set (ev := Ev GroupLocationUpdated (gi_uuid j)) in *.
      assert (Hno2 : ~ In ev lg2) by exact (log_in_not _ _ _ _ L2 Hnr).
      destruct pre as [[pd it]|]; cbn [prel] in Hprel; cbn [grel].
      + destruct Hprel as [(gd & -> & -> & Hf & Hlt & _ & Hev)|(-> & _ & Hnev)].
        * cbn [hrel] in Hhrel. destruct Hhrel as (g' & lg' & Hm & ->).
          exists (last path (uuid_of root)), (ginfo_set_lc gd (lc_src (gi_times j))), g', lg'.
          split; [reflexivity|]. split; [exact Hm|]. left. repeat (split; [first [reflexivity|assumption]|]).
          apply in_or_app. left. apply in_or_app. left. exact Hev.
        * destruct it as [gd|ed]; cbn [hrel] in Hhrel; [|contradiction].
          destruct Hhrel as (g' & lg' & Hm & ->). exists pd, gd, g', lg'.
          split; [reflexivity|]. split; [exact Hm|]. right. split; [reflexivity|]. split; [reflexivity|].
          intro Hi. apply in_app_or in Hi as [Hi|Hi]; [|exact (Hno2 Hi)].
          apply in_app_or in Hi as [Hi|Hi]; [exact (Hnev Hi)|exact (Hnomove Hi)].
      + destruct (deleted_contains deleted (gi_uuid j) || in_del); subst mid; cbn [hrel] in Hhrel.
        * exact Hhrel.
        * destruct Hhrel as (g' & lg' & Hm & ->). rewrite (group_merge_with_same _ _ _ _ Hm). reflexivity.
    - assert (Hjr : In (gi_uuid j) (uus r)) by (apply (in_uus_self (NG j jc)); exact Hin).
      assert (Hnx : ~ In (gi_uuid j) (uu (NG j0 jc0))) by (intro Hi; exact (Hdis _ Hi Hjr)).
      assert (O1 : only (uu (NG j0 jc0)) root root1).
      { apply (only_trans _ _ rootm _); [exact (only_mono _ _ _ _ Hj0 Om)|exact Or]. }
      assert (L1 : log_in (uu (NG j0 jc0)) (w ++ lgm)).
      { apply log_in_app; [exact (log_in_mono _ _ _ Hj0 Lw)|exact Lr]. }
      assert (Ur : uuid_of root1 = uuid_of root).
      { rewrite <- Um. exact (proj1 (merge_group_step _ _ _ _ _ _ _ _ Hrec)). }
      rewrite <- Ur in Hrtr.
      destruct (IH _ _ _ _ _ E2 Nd1 Ndr Hin Hrtr pre (ustate_only _ _ _ _ _ O1 Hnx Hpre)) as (post & Hpost & Hrel).
      exists post. split; [exact Hpost|].
      rewrite Ur in Hrel.
      apply (nrel_log _ _ (IG j) pre post lg2); [|exact Hrel].
      apply in_app_iff_r. cbn [move_ev]. exact (log_in_not _ _ _ _ L1 Hnx).
  Qed.

  (* a node strictly below a sub-group of the group being walked *)
  Lemma groups_loop_deep path in_del : forall l,
    Forall spec_at l ->
    forall root root' lg c f ps it,
    groups_loop now deleted path in_del l root = Ok (root', lg) -> NoDup (all_uuids root) ->
    NoDup (uus l) -> In c l -> ~ In (uuid_of root) (uus l) ->
    In (f, (ps, it)) (srows_l (flag_of in_del c) (uuid_of c) c) ->
    forall pre, ustate (iu it) root pre ->
      exists post, ustate (iu it) root' post /\ nrel f ps it pre post lg.
  Proof.
    induction 1 as [|x r Hx Hall IH]; intros root root' lg c f ps it H Nd Ndl Hc Hrt Hin pre Hpre; [destruct Hc|].
    rewrite groups_loop_cons in H. destruct (uus_cons_parts _ _ Ndl) as (Ndx & Ndr & Hdis).
    assert (Hrtr : ~ In (uuid_of root) (uus r)).
    { intro Hi. apply Hrt. change (uus (x :: r)) with (uu x ++ uus r). apply in_or_app. right. exact Hi. }
    destruct x as [j0 jc0|e0].
    2:{ destruct Hc as [<-|Hc]; [destruct Hin|]. exact (IH _ _ _ _ _ _ _ H Nd Ndr Hc Hrtr Hin pre Hpre). }
    destruct (merge_subgroup_step _ _ _ _ _ _ root) as [[root1 lg1]| | |] eqn:E1; cbn [bind] in H;
      try discriminate.
    destruct (groups_loop now deleted path in_del r root1) as [[root2 lg2]| | |] eqn:E2;
      cbn [bind] in H; try discriminate.
    injection H as <- <-.
    pose proof (subgroup_step_nodup _ _ _ _ _ _ _ _ _ E1 Nd) as Nd1.
    destruct (merge_subgroup_step_spec _ _ _ _ _ _ _ E1 Nd)
      as (q & rootm & lgm & w & Hrec & -> & Ndm & Um & Om & Lw & _).
    cbv beta in Hrec. destruct (rframe_all _ _ _ _ _ _ Hrec Ndm) as (Or & Lr).
    destruct (groups_loop_rframe _ _ _ (rframe_forall r) _ _ _ E2 Nd1) as (O2 & L2).
    assert (Hj0 : incl [gi_uuid j0] (uu (NG j0 jc0))) by (intros u [<-|[]]; left; reflexivity).
    pose proof (srows_l_uuid _ _ _ _ _ _ Hin) as Hu.
    destruct Hc as [<-|Hc].
    - assert (Hne : ~ In (iu it) [gi_uuid j0]).
      { intros [E|[]]. unfold uu in Ndx. apply NoDup_cons_iff in Ndx as [Hn _]. apply Hn.
        cbn [uuid_of]. rewrite E. exact Hu. }
      assert (Hnr : ~ In (iu it) (guus r)).
      { intro Hi. apply (Hdis (iu it)); [right; exact Hu|apply guus_incl; exact Hi]. }
      assert (Hnm : ~ In (uuid_of rootm) (all_uuids (NG j0 jc0))).
      { rewrite Um. intro Hi. apply Hrt. change (uus (NG j0 jc0 :: r)) with (uu (NG j0 jc0) ++ uus r).
        apply in_or_app. left. right. exact Hi. }
      destruct (Hx _ _ _ _ _ (gi_uuid j0) Hrec Ndm Ndx (last_snoc _ _ _) Hnm f ps it Hin pre
                  (ustate_only _ _ _ _ _ Om Hne Hpre)) as (post & Hpost & Hrel).
      exists post. split; [exact (ustate_only _ _ _ _ _ O2 Hnr Hpost)|].
      apply (nrel_log _ _ it pre post lgm); [|exact Hrel].
      rewrite <- app_assoc. etransitivity; [apply in_app_iff_l; exact (log_in_not_move _ _ _ L2 Hnr)|].
      apply in_app_iff_r. exact (log_in_not_move _ _ _ Lw Hne).
    - assert (Hur : In (iu it) (uus r)) by exact (uu_incl_uus c r Hc _ (uu_below c _ Hu)).
      assert (Hnx : ~ In (iu it) (uu (NG j0 jc0))) by (intro Hi; exact (Hdis _ Hi Hur)).
      assert (O1 : only (uu (NG j0 jc0)) root root1).
      { apply (only_trans _ _ rootm _); [exact (only_mono _ _ _ _ Hj0 Om)|exact Or]. }
      assert (L1 : log_in (uu (NG j0 jc0)) (w ++ lgm)).
      { apply log_in_app; [exact (log_in_mono _ _ _ Hj0 Lw)|exact Lr]. }
      assert (Ur : uuid_of root1 = uuid_of root).
      { rewrite <- Um. exact (proj1 (merge_group_step _ _ _ _ _ _ _ _ Hrec)). }
      rewrite <- Ur in Hrtr.
      destruct (IH _ _ _ _ _ _ _ E2 Nd1 Ndr Hc Hrtr Hin pre (ustate_only _ _ _ _ _ O1 Hnx Hpre))
        as (post & Hpost & Hrel).
      exists post. split; [exact Hpost|].
      apply (nrel_log _ _ it pre post lg2); [|exact Hrel].
      apply in_app_iff_r. exact (log_in_not_move _ _ _ L1 Hnx).
  Qed.

  Theorem spec_all : forall src, spec_at src.
  Proof.
    induction src as [e0|si sch IH] using node_ind';
      intros path in_del root root' lg lbl H Nd Nds Hl Hnr f ps it Hin pre Hpre; [discriminate|].
    destruct (merge_group_parts _ _ _ _ _ _ _ (rframe_forall sch) H Nd)
      as (root0 & lg0 & root1 & lg1 & lg2 & E0 & E1 & E2 & -> & Nd0 & Nd1 & U0 & U1
          & O0 & L0 & O1 & L1 & O2 & L2).
    change (all_uuids (NG si sch)) with (uus sch) in Hnr.
    assert (Hnr1 : ~ In (uuid_of root1) (uus sch)) by (rewrite U1; exact Hnr).
    pose proof Nds as Nds'. unfold uu in Nds'. cbn [uuid_of] in Nds'.
    apply NoDup_cons_iff in Nds' as [Hsi Ndc]. change (all_uuids (NG si sch)) with (uus sch) in Hsi, Ndc.
    cbn [srows_l] in Hin. apply in_flat_map in Hin as (c & Hc & Hin).
    assert (Hcu : In (uuid_of c) (uus sch)) by (apply in_uus_self; exact Hc).
    destruct Hin as [Hin|Hin].
    - injection Hin as <- <- <-. rewrite iu_item_of in *.
      assert (Hn0 : ~ In (uuid_of c) [gi_uuid si]) by (intros [E|[]]; apply Hsi; rewrite E; exact Hcu).
      pose proof (ustate_only _ _ _ _ _ O0 Hn0 Hpre) as Hpre0.
      destruct c as [j jc|oe]; cbn [uuid_of item_of nrel flag_of] in *.
      + assert (Hn1 : ~ In (gi_uuid j) (euus sch)).
        { apply (not_in_euus_group sch (NG j jc)); [exact Ndc|exact Hc|reflexivity|left; reflexivity]. }
        destruct (groups_loop_direct _ _ _ _ _ _ _ _ E2 Nd1 Ndc Hc Hnr1 pre (ustate_only _ _ _ _ _ O1 Hn1 Hpre0))
          as (post & Hpost & Hrel).
        exists post. split; [exact Hpost|]. rewrite U1, Hl in Hrel.
        apply (nrel_log _ _ (IG j) pre post lg2); [|exact Hrel].
        etransitivity; [apply in_app_iff_r; exact (log_in_not _ _ _ _ L1 Hn1)|].
        apply in_app_iff_r. exact (log_in_not _ _ _ _ L0 Hn0).
      + assert (Hn2 : ~ In (e_uuid oe) (guus sch)) by exact (not_in_guus_entry sch oe Ndc Hc).
        destruct (merge_entries_spec _ _ _ _ _ _ oe E1 Nd0 (NoDup_map_uuid _ Ndc) Hc pre Hpre0)
          as (post & Hpost & Hrel).
        exists post. split; [exact (ustate_only _ _ _ _ _ O2 Hn2 Hpost)|]. rewrite U0, Hl in Hrel.
        apply (nrel_log _ _ (IE oe) pre post lg1); [|exact Hrel].
        etransitivity; [apply in_app_iff_l; exact (log_in_not _ _ _ _ L2 Hn2)|].
        apply in_app_iff_r. exact (log_in_not _ _ _ _ L0 Hn0).
    - pose proof (srows_l_uuid _ _ _ _ _ _ Hin) as Hu.
      assert (Gc : is_group c = true) by (destruct c; [reflexivity|destruct Hin]).
      assert (Hus : In (iu it) (uus sch)) by exact (uu_incl_uus c sch Hc _ (uu_below c _ Hu)).
      assert (Hn0 : ~ In (iu it) [gi_uuid si]) by (intros [E|[]]; apply Hsi; rewrite E; exact Hus).
      assert (Hn1 : ~ In (iu it) (euus sch)).
      { apply (not_in_euus_group sch c); [exact Ndc|exact Hc|exact Gc|apply uu_below; exact Hu]. }
      destruct (groups_loop_deep _ _ _ IH _ _ _ c f ps it E2 Nd1 Ndc Hc Hnr1 Hin pre
                  (ustate_only _ _ _ _ _ O1 Hn1 (ustate_only _ _ _ _ _ O0 Hn0 Hpre)))
        as (post & Hpost & Hrel).
      exists post. split; [exact Hpost|].
      apply (nrel_log _ _ it pre post lg2); [|exact Hrel].
      etransitivity; [apply in_app_iff_r; exact (log_in_not_move _ _ _ L1 Hn1)|].
      apply in_app_iff_r. exact (log_in_not_move _ _ _ L0 Hn0).
  Qed.
End Rel.

(* Tree level: merge keeps the newest version of every entry and every historical version.

   For two databases whose UUIDs are pairwise distinct (each on its own), and an entry present in
   both (same UUID) - at any depth, moved or not, below a tombstoned group or not:

   [merge_lww]            the destination's entry ends up as Entry::merge of (the destination's
                          entry, with the source's LocationChanged if it was moved) and the source's
                          entry says - or is left alone when the two do not differ outside Times;
                          it is still in the tree unless a source tombstone deleted it;
   [merge_lww_cases]      the same with Entry::merge spelled out (MergeLwwEntry);
   [merge_keeps_newest]   digest: THE entry with that UUID in the result has the newer side's
                          fields, all history items of the newer side, all modification times of
                          the older side's history;
   [merge_dest_only]      an entry whose UUID the source tree does not mention is unchanged
                          (unless a source tombstone deletes it).

   Hypotheses and why each is there (examples at the end):
   - UUIDs below the destination root distinct      [cxd_dest_unique_needed]
   - UUIDs below the source root distinct           [cxs_source_unique_needed]
   - "or a source tombstone deleted it"             [cxt_tombstone_alternative_needed]
   - both entries stamped (digest only)             [unstamped_source_loses], [unstamped_dest_wins],
                                                    [unstamped_source_panics]
   - the two stamps differ (digest only)            [same_time_source_lost_refuted]
   Not needed: equal root UUIDs, anything about groups' stamps, where the entry sits in either
   tree (moved entries included), the destination's tombstones, the flag is_in_deleted_group.
   The theorems are about successful merges (merge ... = Ok ...).

   What is false for the code as it is, with witnesses: [same_time_source_lost_refuted],
   [newer_times_not_taken_refuted], [history_item_lost_refuted], [uncommitted_head_lost_refuted]. *)
From Coq Require Import Sorted Permutation.
From KP Require Import Bytes Outcome Tree TreeFacts History Merge MergeProofs MergeLookup
     MergeTermination MergeUuids MergeSelf MergeUnique MergeLwwEntry MergeLwwFrame.
Local Open Scope N_scope.

(* ---------- the relation between the three entries ---------- *)

(* [e'] is what merging the source's [e_s] into the destination's [e_d] leaves in the tree *)
Definition lww_step (now : Z) (e_d e_s e' : entry) : Prop :=
  exists e1, lc_variant e_s e_d e1 /\ lww_out now e1 e_s e'.

Lemma lc_variant_fields oe e_d e1 :
  lc_variant oe e_d e1 ->
  e_uuid e1 = e_uuid e_d /\ e_data e1 = e_data e_d /\ e_hist e1 = e_hist e_d
  /\ t_lm (e_times e1) = t_lm (e_times e_d) /\ t_rest (e_times e1) = t_rest (e_times e_d).
Proof. intros [->| ->]; destruct e_d; cbn; auto. Qed.

Lemma lww_step_uuid now e_d e_s e' :
  lww_step now e_d e_s e' -> e_uuid e_d = e_uuid e_s -> e_uuid e' = e_uuid e_s.
Proof.
  intros (e1 & Hv & Ho) Hu. apply lc_variant_fields in Hv as (Hu1 & _).
  destruct (lww_out_uuid _ _ _ _ Ho); congruence.
Qed.

(* ---------- distinct UUIDs: who owns a UUID ---------- *)

Lemma uus_owner : forall l a b u,
  NoDup (uus l) -> In a l -> In b l -> In u (uu a) -> In u (uu b) -> a = b.
Proof.
  induction l as [|x r IH]; intros a b u Nd Ha Hb Hua Hub; [destruct Ha|].
  change (NoDup (uu x ++ uus r)) in Nd. apply NoDup_app_iff in Nd as (_ & Ndr & Hd).
  destruct Ha as [->|Ha], Hb as [->|Hb].
  - reflexivity.
  - exfalso. exact (Hd u Hua (uu_incl_uus b r Hb u Hub)).
  - exfalso. exact (Hd u Hub (uu_incl_uus a r Ha u Hua)).
  - exact (IH a b u Ndr Ha Hb Hua Hub).
Qed.

Lemma NoDup_map_uuid : forall l, NoDup (uus l) -> NoDup (map uuid_of l).
Proof.
  induction l as [|x r IH]; intro Nd; [constructor|]. cbn [map]. rewrite uus_cons in Nd.
  apply NoDup_cons_iff in Nd as [Hn Nd]. apply NoDup_app_iff in Nd as (_ & Ndr & _). constructor.
  - intro Hi. apply Hn. apply in_or_app. right. apply map_uuid_incl_uus. exact Hi.
  - exact (IH Ndr).
Qed.

Lemma uu_self c : In (uuid_of c) (uu c).
Proof. left. reflexivity. Qed.

Lemma uu_below c u : In u (all_uuids c) -> In u (uu c).
Proof. intro H. right. exact H. Qed.

Lemma uu_nodup c l : NoDup (uus l) -> In c l -> NoDup (uu c).
Proof.
  induction l as [|x r IH]; intros Nd Hc; [destruct Hc|].
  change (NoDup (uu x ++ uus r)) in Nd. apply NoDup_app_iff in Nd as (Nx & Ndr & _).
  destruct Hc as [->|Hc]; [exact Nx|exact (IH Ndr Hc)].
Qed.

(* ---------- the loop over the entries of one source group ---------- *)

Lemma merge_entries_lww now deleted path in_del : forall l root root' lg e_d e_s,
  merge_entries now deleted path in_del l root = Ok (root', lg) -> NoDup (all_uuids root) ->
  NoDup (map uuid_of l) -> In (NE e_s) l -> In e_d (ents root) -> e_uuid e_d = e_uuid e_s ->
  exists e', lww_step now e_d e_s e' /\ In e' (ents root').
Proof.
  induction l as [|x r IH]; intros root root' lg e_d e_s H Nd Ndl Hs Hd Hu; [destruct Hs|].
  cbn [merge_entries] in H. cbn [map] in Ndl. apply NoDup_cons_iff in Ndl as [Hx Ndr].
  destruct x as [j jc|oe].
  - destruct Hs as [Hs|Hs]; [discriminate|]. exact (IH _ _ _ _ _ H Nd Ndr Hs Hd Hu).
  - destruct (merge_entry_step now deleted path in_del oe root) as [[root1 lg1]| | |] eqn:E1;
      cbn [bind] in H; try discriminate.
    destruct (merge_entries now deleted path in_del r root1) as [[root2 lg2]| | |] eqn:E2;
      cbn [bind] in H; try discriminate.
    injection H as <- _.
    pose proof (step_ok_nodup _ _ _ (merge_entry_step_ok _ _ _ _ _ _ _ _ E1) Nd) as Nd1.
    cbn [uuid_of] in Hx. destruct Hs as [Hs|Hs].
    + injection Hs as ->.
      destruct (merge_entry_step_active _ _ _ _ _ _ _ _ e_d E1 Nd Hd Hu) as (e1 & e' & Hv & Ho & He').
      assert (Hst : lww_step now e_d e_s e') by (exists e1; auto).
      exists e'. split; [exact Hst|].
      apply (merge_entries_frame _ _ _ _ _ _ _ _ E2 Nd1 e' He').
      rewrite (lww_step_uuid _ _ _ _ Hst Hu). exact Hx.
    + apply (IH _ _ _ _ _ E2 Nd1 Ndr Hs); [|exact Hu].
      apply (merge_entry_step_frame _ _ _ _ _ _ _ _ E1 Nd e_d Hd).
      intro E. apply Hx. rewrite <- E, Hu. change (e_uuid e_s) with (uuid_of (NE e_s)).
      apply in_map. exact Hs.
Qed.

(* ---------- the recursion over the source tree ---------- *)

Definition lww_at (now : Z) (deleted : list dobj) (x : node) : Prop :=
  forall path in_del root root' lg e_d e_s,
    merge_group now deleted path x in_del root = Ok (root', lg) -> NoDup (all_uuids root) ->
    NoDup (all_uuids x) -> In e_s (ents x) -> In e_d (ents root) -> e_uuid e_d = e_uuid e_s ->
    exists e', lww_step now e_d e_s e' /\ In e' (ents root').

Lemma subgroup_step_nodup now deleted path in_del j jc root root1 lg1 :
  merge_subgroup_step now deleted path in_del j
    (fun p d rt => merge_group now deleted p (NG j jc) d rt) root = Ok (root1, lg1) ->
  NoDup (all_uuids root) -> NoDup (all_uuids root1).
Proof.
  intros E1 Nd. eapply step_ok_nodup; [|exact Nd]. eapply merge_subgroup_step_ok; [|exact E1].
  intros p d rt rt' l Hl. exact (merge_group_ok_all now deleted _ _ _ _ _ _ Hl).
Qed.

Lemma frame_forall now deleted l : Forall (frame_at now deleted) l.
Proof. apply Forall_forall. intros y _. apply frame_all. Qed.

Lemma groups_loop_lww now deleted path in_del : forall l,
  Forall (lww_at now deleted) l ->
  forall root root' lg e_d e_s,
  groups_loop now deleted path in_del l root = Ok (root', lg) -> NoDup (all_uuids root) ->
  NoDup (uus l) -> (exists c, In c l /\ is_group c = true /\ In e_s (ents c)) ->
  In e_d (ents root) -> e_uuid e_d = e_uuid e_s ->
  exists e', lww_step now e_d e_s e' /\ In e' (ents root').
Proof.
  induction 1 as [|x r Hx Hall IH]; intros root root' lg e_d e_s H Nd Ndl (c & Hc & Gc & Hs) Hd Hu;
    [destruct Hc|].
  rewrite groups_loop_cons in H.
  pose proof Ndl as Ndl'. rewrite uus_cons in Ndl'. apply NoDup_cons_iff in Ndl' as [Hnx Ndxr].
  apply NoDup_app_iff in Ndxr as (Ndx & Ndr & Hdis).
  assert (Huc : In (e_uuid e_s) (all_uuids c)) by (apply ents_uuid_in; exact Hs).
  destruct x as [j jc|e0].
  - destruct (merge_subgroup_step _ _ _ _ _ _ root) as [[root1 lg1]| | |] eqn:E1; cbn [bind] in H;
      try discriminate.
    destruct (groups_loop now deleted path in_del r root1) as [[root2 lg2]| | |] eqn:E2;
      cbn [bind] in H; try discriminate.
    injection H as <- _.
    pose proof (subgroup_step_nodup _ _ _ _ _ _ _ _ _ E1 Nd) as Nd1.
    destruct (merge_subgroup_step_pre _ _ _ _ _ _ _ _ _ E1 Nd) as (p & d & rt & l1 & Hrec & Ndrt & Hfr).
    destruct Hc as [<-|Hc].
    + (* the entry is below this sub-group *)
      assert (Hj : e_uuid e_d <> gi_uuid j).
      { rewrite Hu. intro E. apply Hnx. apply in_or_app. left. cbn [uuid_of]. rewrite <- E. exact Huc. }
      destruct (Hx _ _ _ _ _ e_d e_s Hrec Ndrt Ndx Hs (Hfr e_d Hd Hj) Hu) as (e' & Hst & He').
      exists e'. split; [exact Hst|].
      apply (groups_loop_frame _ _ _ _ _ (frame_forall now deleted _)
               _ _ _ E2 Nd1 e' He').
      intros c' Hc' _ Hi. rewrite (lww_step_uuid _ _ _ _ Hst Hu) in Hi.
      exact (Hdis _ Huc (uu_incl_uus c' r Hc' _ Hi)).
    + (* it is below a later sub-group *)
      assert (Hur : In (e_uuid e_s) (uus r)) by exact (uu_incl_uus c r Hc _ (uu_below c _ Huc)).
      assert (Hj : e_uuid e_d <> gi_uuid j).
      { rewrite Hu. intro E. apply Hnx. apply in_or_app. right. cbn [uuid_of]. rewrite <- E. exact Hur. }
      assert (Hnj : ~ In (e_uuid e_d) (all_uuids (NG j jc))).
      { rewrite Hu. intro Hi. exact (Hdis _ Hi Hur). }
      pose proof (frame_all now deleted (NG j jc) _ _ _ _ _ Hrec Ndrt e_d (Hfr e_d Hd Hj) Hnj) as Hd1.
      apply (IH _ _ _ e_d e_s E2 Nd1 Ndr); [exists c; auto|exact Hd1|exact Hu].
  - destruct Hc as [<-|Hc]; [discriminate|].
    apply (IH _ _ _ e_d e_s H Nd Ndr); [exists c; auto|exact Hd|exact Hu].
Qed.

Lemma lww_all now deleted : forall src, lww_at now deleted src.
Proof.
  induction src as [e0|si sch IH] using node_ind'; intros path in_del root root' lg e_d e_s H Nd Nds Hs Hd Hu.
  - discriminate.
  - rewrite merge_group_unfold in H.
    destruct (merge_group_head now si root) as [[root0 lg0]| | |] eqn:E0; cbn [bind] in H; try discriminate.
    destruct (merge_entries now deleted path in_del sch root0) as [[root1 lg1]| | |] eqn:E1;
      cbn [bind] in H; try discriminate.
    destruct (groups_loop now deleted path in_del sch root1) as [[root2 lg2]| | |] eqn:E2;
      cbn [bind] in H; try discriminate.
    injection H as <- _. change (all_uuids (NG si sch)) with (uus sch) in Nds.
    pose proof (step_ok_nodup _ _ _ (merge_group_head_ok _ _ _ _ _ E0) Nd) as Nd0.
    pose proof (step_ok_nodup _ _ _ (merge_entries_ok _ _ _ _ _ _ _ _ E1) Nd0) as Nd1.
    assert (Hd0 : In e_d (ents root0)).
    { apply (Permutation_in _ (Permutation_sym (merge_group_head_ents _ _ _ _ _ E0))). exact Hd. }
    rewrite ents_NG in Hs. apply in_flat_map in Hs as (c & Hc & Hs).
    destruct c as [j jc|e].
    + (* below a sub-group *)
      change (In e_s (ents (NG j jc))) in Hs.
      assert (Huc : In (e_uuid e_s) (all_uuids (NG j jc))) by (apply ents_uuid_in; exact Hs).
      apply (groups_loop_lww _ _ _ _ _ IH _ _ _ e_d e_s E2 Nd1 Nds);
        [exists (NG j jc); auto| |exact Hu].
      apply (merge_entries_frame _ _ _ _ _ _ _ _ E1 Nd0 e_d Hd0).
      rewrite Hu. intro Hi. apply in_map_iff in Hi as (c' & Ec' & Hc').
      assert (E : NG j jc = c').
      { apply (uus_owner sch _ _ (e_uuid e_s) Nds Hc Hc'); [apply uu_below; exact Huc|].
        rewrite <- Ec'. apply uu_self. }
      subst c'. pose proof (uu_nodup _ _ Nds Hc) as Nj. unfold uu in Nj.
      apply NoDup_cons_iff in Nj as [Nj _]. apply Nj. rewrite Ec'. exact Huc.
    + (* a direct child of this group *)
      cbn [fents In] in Hs. destruct Hs as [->|[]].
      destruct (merge_entries_lww _ _ _ _ _ _ _ _ e_d e_s E1 Nd0 (NoDup_map_uuid _ Nds) Hc Hd0 Hu)
        as (e' & Hst & He').
      exists e'. split; [exact Hst|].
      apply (groups_loop_frame _ _ _ _ _ (frame_forall now deleted _)
               _ _ _ E2 Nd1 e' He').
      intros c' Hc' Gc' Hi. rewrite (lww_step_uuid _ _ _ _ Hst Hu) in Hi.
      assert (E : NE e_s = c') by (apply (uus_owner sch _ _ (e_uuid e_s) Nds Hc Hc'); [apply (uu_self (NE e_s))|exact Hi]).
      subst c'. discriminate.
Qed.

(* merge_group on a source (sub-)tree [src] with distinct UUIDs, any destination with distinct
   UUIDs, any path and flag: an entry of [src] that the destination also has is merged into it *)
Theorem merge_group_lww src now deleted path in_del root root' lg e_d e_s :
  merge_group now deleted path src in_del root = Ok (root', lg) -> NoDup (all_uuids root) ->
  NoDup (all_uuids src) -> In e_s (ents src) -> In e_d (ents root) -> e_uuid e_d = e_uuid e_s ->
  exists e', lww_step now e_d e_s e' /\ In e' (ents root').
Proof. exact (lww_all now deleted src path in_del root root' lg e_d e_s). Qed.

(* ---------- Database::merge ---------- *)

Definition tombstoned_and_logged (s : db) (lg : log) (u : N) : Prop :=
  (exists o, In o (db_deleted s) /\ d_uuid o = u) /\ In (Ev EntryDeleted u) lg.

(* THE MAIN THEOREM.  An entry that both databases have is, after the merge, what Entry::merge makes
   of the two versions (after the move, if the source moved it later); it is in the result unless
   one of the source's tombstones deleted it, and then the log says so. *)
Theorem merge_lww now d s d' lg e_d e_s :
  uuids_unique (db_children d) -> uuids_unique (db_children s) ->
  In e_d (ents (db_root d)) -> In e_s (ents (db_root s)) -> e_uuid e_d = e_uuid e_s ->
  merge now d s = Ok (d', lg) ->
  exists e', lww_step now e_d e_s e'
    /\ (In e' (ents (db_root d')) \/ tombstoned_and_logged s lg (e_uuid e_s)).
Proof.
  unfold merge. intros Nd Ns Hd Hs Hu H.
  destruct (merge_group _ _ _ _ _ _) as [[root1 lg1]| | |] eqn:E1; cbn [bind] in H; try discriminate.
  destruct (merge_deletions _ _ _ _) as [[[root2 del2] lg2]| | |] eqn:E2; cbn [bind] in H; try discriminate.
  destruct root2 as [i c|e]; [|discriminate]. injection H as <- <-.
  change (NoDup (all_uuids (db_root d))) in Nd. change (NoDup (all_uuids (db_root s))) in Ns.
  destruct (merge_group_lww _ _ _ _ _ _ _ _ e_d e_s E1 Nd Ns Hs Hd Hu) as (e' & Hst & He').
  exists e'. split; [exact Hst|].
  destruct (merge_group_step _ _ _ _ _ _ _ _ E1) as [_ H1]. destruct (H1 Nd) as [Nd1 _].
  destruct (merge_deletions_frame _ _ _ _ _ _ _ E2 Nd1 e' He') as [Hk|[Ho Hl]]; [left; exact Hk|right].
  rewrite (lww_step_uuid _ _ _ _ Hst Hu) in Ho, Hl. split; [exact Ho|].
  apply in_or_app. right. exact Hl.
Qed.

(* not tombstoned by the source: it is there *)
Corollary merge_lww_present now d s d' lg e_d e_s :
  uuids_unique (db_children d) -> uuids_unique (db_children s) ->
  In e_d (ents (db_root d)) -> In e_s (ents (db_root s)) -> e_uuid e_d = e_uuid e_s ->
  deleted_contains (db_deleted s) (e_uuid e_s) = false ->
  merge now d s = Ok (d', lg) ->
  exists e', lww_step now e_d e_s e' /\ In e' (ents (db_root d')).
Proof.
  intros Nd Ns Hd Hs Hu Hdel H.
  destruct (merge_lww _ _ _ _ _ _ _ Nd Ns Hd Hs Hu H) as (e' & Hst & [Hin|[(o & Ho & Eo) _]]);
    [exists e'; auto|].
  exfalso. rewrite <- Eo, (deleted_contains_in _ o Ho) in Hdel. discriminate.
Qed.

(* an entry whose UUID the source tree does not mention is unchanged *)
Theorem merge_dest_only now d s d' lg e :
  uuids_unique (db_children d) -> In e (ents (db_root d)) ->
  ~ In (e_uuid e) (all_uuids (db_root s)) ->
  merge now d s = Ok (d', lg) ->
  In e (ents (db_root d')) \/ tombstoned_and_logged s lg (e_uuid e).
Proof.
  unfold merge. intros Nd Hd Hn H.
  destruct (merge_group _ _ _ _ _ _) as [[root1 lg1]| | |] eqn:E1; cbn [bind] in H; try discriminate.
  destruct (merge_deletions _ _ _ _) as [[[root2 del2] lg2]| | |] eqn:E2; cbn [bind] in H; try discriminate.
  destruct root2 as [i c|e0]; [|discriminate]. injection H as <- <-.
  change (NoDup (all_uuids (db_root d))) in Nd.
  pose proof (merge_group_frame _ _ _ _ _ _ _ _ E1 Nd e Hd Hn) as He.
  destruct (merge_group_step _ _ _ _ _ _ _ _ E1) as [_ H1]. destruct (H1 Nd) as [Nd1 _].
  destruct (merge_deletions_frame _ _ _ _ _ _ _ E2 Nd1 e He) as [Hk|[Ho Hl]]; [left; exact Hk|right].
  split; [exact Ho|]. apply in_or_app. right. exact Hl.
Qed.

(* "the" entry with a UUID in the result: there is at most one *)
Theorem merge_result_entry_unique now d s d' lg a b :
  uuids_unique (db_children d) -> merge now d s = Ok (d', lg) ->
  In a (ents (db_root d')) -> In b (ents (db_root d')) -> e_uuid a = e_uuid b -> a = b.
Proof.
  intros Nd H Ha Hb E. apply (ents_unique (db_root d')); try assumption.
  exact (merge_children_unique now d s d' lg Nd H).
Qed.

(* lookup by UUID *)
Definition entry_of (u : N) (root : node) : option entry :=
  find (fun e => N.eqb (e_uuid e) u) (ents root).

Lemma entry_of_in root e : NoDup (all_uuids root) -> In e (ents root) -> entry_of (e_uuid e) root = Some e.
Proof.
  intros Nd He. unfold entry_of. destruct (find _ (ents root)) as [x|] eqn:E.
  - apply find_some in E as [Hx Ex]. apply N.eqb_eq in Ex. f_equal.
    apply (ents_unique root); assumption.
  - exfalso. pose proof (find_none _ _ E e He) as Hn. cbn beta in Hn. rewrite N.eqb_refl in Hn. discriminate.
Qed.

Lemma entry_of_some u root e : entry_of u root = Some e -> In e (ents root) /\ e_uuid e = u.
Proof. unfold entry_of. intro H. apply find_some in H as [Hi E]. apply N.eqb_eq in E. auto. Qed.

Corollary merge_lww_lookup now d s d' lg u e_d e_s :
  uuids_unique (db_children d) -> uuids_unique (db_children s) ->
  entry_of u (db_root d) = Some e_d -> entry_of u (db_root s) = Some e_s ->
  deleted_contains (db_deleted s) u = false ->
  merge now d s = Ok (d', lg) ->
  exists e', entry_of u (db_root d') = Some e' /\ lww_step now e_d e_s e'.
Proof.
  intros Nd Ns Hd Hs Hdel H. apply entry_of_some in Hd as [Hd Ud]. apply entry_of_some in Hs as [Hs Us].
  assert (Hu : e_uuid e_d = e_uuid e_s) by congruence. rewrite <- Us in Hdel.
  destruct (merge_lww_present _ _ _ _ _ _ _ Nd Ns Hd Hs Hu Hdel H) as (e' & Hst & He').
  exists e'. split; [|exact Hst]. rewrite <- Us, <- (lww_step_uuid _ _ _ _ Hst Hu).
  apply entry_of_in; [|exact He']. exact (merge_children_unique now d s d' lg Nd H).
Qed.

(* ---------- the relation spelled out for stamped entries ---------- *)

Lemma lc_variant_diverged oe e_d e1 x : lc_variant oe e_d e1 -> entry_diverged e1 x = entry_diverged e_d x.
Proof. intros [->| ->]; [reflexivity|]. unfold entry_diverged. destruct e_d; reflexivity. Qed.

Lemma lc_variant_hist oe e_d e1 :
  lc_variant oe e_d e1 ->
  hist_list e1 = hist_list e_d /\ has_uncommitted_changes e1 = has_uncommitted_changes e_d.
Proof. intros [->| ->]; [auto|]. destruct e_d as [u dt t [[|x r]|]]; cbn; auto. Qed.

Lemma not_diverged_eq a b :
  entry_diverged a b = false -> e_uuid a = e_uuid b /\ e_data a = e_data b /\ e_hist a = e_hist b.
Proof.
  unfold entry_diverged. intro H. apply negb_false_iff in H. apply entry_eqb_eq in H.
  destruct a, b. cbn in *. injection H. auto.
Qed.

Definition newest_first (h : list entry) : Prop :=
  StronglySorted (fun a b => match t_lm (e_times a), t_lm (e_times b) with
                             | Some x, Some y => (x > y)%Z | _, _ => False end) h.

(* [e'] is the newer entry [w] carrying the destination's LocationChanged and the merged history *)
Definition merged_as (dst w l e' : entry) : Prop :=
  exists h, e' = merged_entry dst w h
    /\ all_lm (hist_list w) /\ all_lm (loser_items l)
    /\ newest_first h
    /\ (forall x, In x h <-> In x (hist_list w) \/ kept_from (hist_list w) (loser_items l) x)
    /\ (forall t, In (Some t) (hist_keys h) <->
                  In (Some t) (hist_keys (hist_list w)) \/ In (Some t) (hist_keys (loser_items l))).

Theorem lww_step_cases now e_d e_s e' ld ls :
  t_lm (e_times e_d) = Some ld -> t_lm (e_times e_s) = Some ls ->
  lww_step now e_d e_s e' ->
  exists e1, lc_variant e_s e_d e1 /\
    ((entry_diverged e_d e_s = false /\ e' = e1)
     \/ (entry_diverged e_d e_s = true /\ ld = ls /\ e' = e1)
     \/ (entry_diverged e_d e_s = true /\ ld <> ls
         /\ merged_as e1 (if (ld <? ls)%Z then e_s else e1) (if (ld <? ls)%Z then e1 else e_s) e')).
Proof.
  intros Hd Hs (e1 & Hv & Ho). exists e1. split; [exact Hv|].
  pose proof (lc_variant_fields _ _ _ Hv) as (_ & _ & _ & Hlm & _). rewrite Hd in Hlm.
  unfold lww_out in Ho. rewrite (lc_variant_diverged _ _ _ e_s Hv) in Ho.
  destruct Ho as [[Dv ->]|[Dv Ho]]; [left; auto|right].
  destruct (Z.eq_dec ld ls) as [E|Ne].
  - left. subst ls. split; [exact Dv|]. split; [reflexivity|].
    destruct Ho as [[_ ->]|[elog Em]]; [reflexivity|].
    rewrite (entry_merge_same_time now e1 e_s ld Hlm Hs), (lc_variant_diverged _ _ _ e_s Hv), Dv in Em.
    discriminate.
  - right. split; [exact Dv|]. split; [exact Ne|].
    destruct Ho as [[[elog Em] _]|[elog Em]].
    + exfalso. destruct (entry_merge_lww now e1 e_s ld ls _ _ Hlm Hs Ne Em) as (m & h & Er & _). discriminate.
    + destruct (entry_merge_lww now e1 e_s ld ls _ _ Hlm Hs Ne Em)
        as (m & h & Er & Em' & _ & _ & _ & _ & _ & _ & Al1 & Al2 & Hsort & Hin & Hk & _).
      injection Er as <-. exists h. auto 10.
Qed.

(* ---------- digest: what is kept ---------- *)

Lemma strip_fields l :
  e_uuid (strip l) = e_uuid l /\ e_data (strip l) = e_data l /\ e_times (strip l) = e_times l
  /\ e_hist (strip l) = None.
Proof. destruct l; cbn; auto. Qed.

Lemma all_lm_some l x : all_lm l -> In x l -> exists t, t_lm (e_times x) = Some t.
Proof.
  intros Al Hx. pose proof (proj1 (Forall_forall _ _) Al x Hx) as H. cbn beta in H.
  destruct (t_lm (e_times x)) as [t|]; [exists t; reflexivity|contradiction].
Qed.

Lemma merged_as_props dst w l e' :
  merged_as dst w l e' ->
  e_uuid e' = e_uuid w /\ e_data e' = e_data w
  /\ t_lm (e_times e') = t_lm (e_times w) /\ t_rest (e_times e') = t_rest (e_times w)
  /\ newest_first (hist_list e')
  /\ (forall x, In x (hist_list w) -> In x (hist_list e'))
  /\ (forall x, In x (hist_list l) ->
        exists y, In y (hist_list e') /\ t_lm (e_times y) = t_lm (e_times x))
  /\ (forall l1 x l2, hist_list l = l1 ++ x :: l2 ->
        ~ In (t_lm (e_times x)) (hist_keys l1) -> ~ In (t_lm (e_times x)) (hist_keys (hist_list w)) ->
        (has_uncommitted_changes l = true -> t_lm (e_times x) <> t_lm (e_times l)) ->
        In x (hist_list e'))
  /\ (has_uncommitted_changes l = true -> ~ In (t_lm (e_times l)) (hist_keys (hist_list w)) ->
      In (strip l) (hist_list e')).
Proof.
  intros (h & -> & Al1 & Al2 & Hsort & Hin & Hk).
  pose proof (merged_entry_fields dst w h) as (F1 & F2 & F3 & F4 & F5 & _).
  assert (Hh : hist_list (merged_entry dst w h) = h) by (unfold hist_list; rewrite F3; reflexivity).
  rewrite Hh. split; [exact F1|]. split; [exact F2|]. split; [exact F4|]. split; [exact F5|].
  split; [exact Hsort|]. split; [intros x Hx; apply Hin; left; exact Hx|]. split; [|split].
  - intros x Hx. apply incl_hist_loser in Hx. destruct (all_lm_some _ _ Al2 Hx) as [t Et].
    assert (Hi : In (Some t) (hist_keys h)).
    { apply Hk. right. unfold hist_keys. apply in_map_iff. exists x. auto. }
    unfold hist_keys in Hi. apply in_map_iff in Hi as (y & Ey & Hy). exists y. split; [exact Hy|congruence].
  - intros l1 x l2 El Hn1 Hnw Hc. apply Hin. right.
    assert (Hx : In x (loser_items l)).
    { apply incl_hist_loser. rewrite El. apply in_or_app. right. left. reflexivity. }
    destruct (all_lm_some _ _ Al2 Hx) as [t Et]. rewrite Et in Hn1, Hnw, Hc.
    unfold kept_from, loser_items. destruct (has_uncommitted_changes l).
    + exists (strip l :: l1), l2, t. rewrite El. split; [reflexivity|]. split; [exact Et|]. split; [exact Hnw|].
      cbn [hist_keys map]. intros [E|Hi]; [|exact (Hn1 Hi)].
      destruct (strip_fields l) as (_ & _ & Ht & _). rewrite Ht in E. symmetry in E. exact (Hc eq_refl E).
    + exists l1, l2, t. auto.
  - intros Huc Hnw. apply Hin. right. unfold kept_from. rewrite (loser_items_current l Huc).
    assert (Hx : In (strip l) (loser_items l)) by (rewrite (loser_items_current l Huc); left; reflexivity).
    destruct (all_lm_some _ _ Al2 Hx) as [t Et].
    exists [], (hist_list l), t. split; [reflexivity|]. split; [exact Et|].
    destruct (strip_fields l) as (_ & _ & Ht & _). rewrite Ht in Et. rewrite Et in Hnw.
    split; [exact Hnw|intros []].
Qed.

(* [w] is the side with the later LastModificationTime, [l] the other one *)
Definition newest_kept (e_d e_s e' : entry) (ld ls : Z) : Prop :=
  let w := if (ld <? ls)%Z then e_s else e_d in
  let l := if (ld <? ls)%Z then e_d else e_s in
  e_uuid e' = e_uuid e_s
  (* the fields of the newer side *)
  /\ e_data e' = e_data w
  (* every history item of the newer side *)
  /\ (forall x, In x (hist_list w) -> In x (hist_list e'))
  (* every modification time of the older side's history *)
  /\ (forall x, In x (hist_list l) ->
        exists y, In y (hist_list e') /\ t_lm (e_times y) = t_lm (e_times x))
  (* and the item itself when it is the first with its time and nothing else claims that time *)
  /\ (forall l1 x l2, hist_list l = l1 ++ x :: l2 ->
        ~ In (t_lm (e_times x)) (hist_keys l1) -> ~ In (t_lm (e_times x)) (hist_keys (hist_list w)) ->
        (has_uncommitted_changes l = true -> t_lm (e_times x) <> t_lm (e_times l)) ->
        In x (hist_list e'))
  (* if the two differ outside Times: *)
  /\ (entry_diverged e_d e_s = true ->
        t_lm (e_times e') = Some (Z.max ld ls) /\ t_rest (e_times e') = t_rest (e_times w)
        /\ newest_first (hist_list e')
        (* the older side's current version, when it is not yet in its history *)
        /\ (has_uncommitted_changes l = true -> ~ In (t_lm (e_times l)) (hist_keys (hist_list w)) ->
            exists y, In y (hist_list e') /\ e_uuid y = e_uuid l /\ e_data y = e_data l
                      /\ t_lm (e_times y) = t_lm (e_times l) /\ t_rest (e_times y) = t_rest (e_times l)
                      /\ e_hist y = None)).

Theorem lww_step_newest_kept now e_d e_s e' ld ls :
  t_lm (e_times e_d) = Some ld -> t_lm (e_times e_s) = Some ls -> ld <> ls ->
  e_uuid e_d = e_uuid e_s -> lww_step now e_d e_s e' -> newest_kept e_d e_s e' ld ls.
Proof.
  intros Hd Hs Ne Hu Hst. unfold newest_kept. cbv zeta.
  split; [exact (lww_step_uuid _ _ _ _ Hst Hu)|].
  destruct (lww_step_cases _ _ _ _ _ _ Hd Hs Hst) as (e1 & Hv & [[Dv ->]|[(_ & E & _)|(Dv & _ & Hm)]]);
    [| contradiction |].
  - (* not diverged: the destination's entry stays (possibly moved) *)
    pose proof (lc_variant_fields _ _ _ Hv) as (_ & F2 & _).
    pose proof (lc_variant_hist _ _ _ Hv) as (Hh & _).
    pose proof (not_diverged_eq _ _ Dv) as (_ & Ed & Eh).
    assert (Hhs : hist_list e_s = hist_list e_d) by (unfold hist_list; rewrite Eh; reflexivity).
    rewrite Hh. split; [destruct (ld <? ls)%Z; congruence|].
    split; [intros x Hx; destruct (ld <? ls)%Z; [rewrite <- Hhs|]; exact Hx|].
    split; [intros x Hx; exists x; split; [destruct (ld <? ls)%Z; [|rewrite <- Hhs]; exact Hx|reflexivity]|].
    split; [|intro Dv'; rewrite Dv in Dv'; discriminate].
    intros l1 x l2 El _ _ _.
    assert (Hx : In x (l1 ++ x :: l2)) by (apply in_or_app; right; left; reflexivity).
    rewrite <- El in Hx. destruct (ld <? ls)%Z; [|rewrite <- Hhs]; exact Hx.
  - (* diverged *)
    pose proof (lc_variant_fields _ _ _ Hv) as (F1 & F2 & _ & F4 & F5).
    pose proof (lc_variant_hist _ _ _ Hv) as (Hh & Huc).
    apply merged_as_props in Hm as (M1 & M2 & M3 & M4 & M5 & M6 & M7 & M8 & M9).
    destruct (Z.ltb_spec ld ls) as [L|L].
    + (* the source is newer; the (possibly moved) destination entry is the older side *)
      rewrite Hh, Huc, F4 in *. split; [exact M2|]. split; [exact M6|]. split; [exact M7|]. split; [exact M8|].
      intros _. split; [rewrite M3, Hs; f_equal; lia|]. split; [exact M4|]. split; [exact M5|].
      intros U Hn. exists (strip e1). split; [exact (M9 U Hn)|].
      destruct (strip_fields e1) as (S1 & S2 & S3 & S4). rewrite S1, S2, S3. auto 10.
    + (* the destination is newer *)
      rewrite Hh in *. split; [congruence|]. split; [exact M6|]. split; [exact M7|]. split; [exact M8|].
      intros _. split; [rewrite M3, F4, Hd; f_equal; lia|]. split; [congruence|]. split; [exact M5|].
      intros U Hn. exists (strip e_s). split; [exact (M9 U Hn)|].
      destruct (strip_fields e_s) as (S1 & S2 & S3 & S4). rewrite S1, S2, S3. auto 10.
Qed.

(* DIGEST.  Both sides stamped with different times: the entry of the result has the newer side's
   fields, every history item of the newer side and every modification time of the older side's
   history (the items themselves unless two items claim one time). *)
Theorem merge_keeps_newest now d s d' lg e_d e_s ld ls :
  uuids_unique (db_children d) -> uuids_unique (db_children s) ->
  In e_d (ents (db_root d)) -> In e_s (ents (db_root s)) -> e_uuid e_d = e_uuid e_s ->
  t_lm (e_times e_d) = Some ld -> t_lm (e_times e_s) = Some ls -> ld <> ls ->
  merge now d s = Ok (d', lg) ->
  exists e', newest_kept e_d e_s e' ld ls
    /\ (In e' (ents (db_root d')) \/ tombstoned_and_logged s lg (e_uuid e_s)).
Proof.
  intros Nd Ns Hd Hs Hu Ld Ls Ne H.
  destruct (merge_lww _ _ _ _ _ _ _ Nd Ns Hd Hs Hu H) as (e' & Hst & Hin).
  exists e'. split; [|exact Hin]. exact (lww_step_newest_kept _ _ _ _ _ _ Ld Ls Ne Hu Hst).
Qed.

(* the same, for whatever entry the result holds under that UUID *)
Corollary merge_keeps_newest_any now d s d' lg e_d e_s ld ls :
  uuids_unique (db_children d) -> uuids_unique (db_children s) ->
  In e_d (ents (db_root d)) -> In e_s (ents (db_root s)) -> e_uuid e_d = e_uuid e_s ->
  t_lm (e_times e_d) = Some ld -> t_lm (e_times e_s) = Some ls -> ld <> ls ->
  deleted_contains (db_deleted s) (e_uuid e_s) = false ->
  merge now d s = Ok (d', lg) ->
  (exists e', In e' (ents (db_root d')) /\ e_uuid e' = e_uuid e_s)
  /\ forall e', In e' (ents (db_root d')) -> e_uuid e' = e_uuid e_s -> newest_kept e_d e_s e' ld ls.
Proof.
  intros Nd Ns Hd Hs Hu Ld Ls Ne Hdel H.
  destruct (merge_lww_present _ _ _ _ _ _ _ Nd Ns Hd Hs Hu Hdel H) as (e' & Hst & Hin).
  pose proof (lww_step_newest_kept _ _ _ _ _ _ Ld Ls Ne Hu Hst) as Hk.
  split; [exists e'; split; [exact Hin|exact (lww_step_uuid _ _ _ _ Hst Hu)]|].
  intros e2 H2 U2.
  assert (E : e2 = e').
  { apply (merge_result_entry_unique now d s d' lg); try assumption.
    rewrite U2. symmetry. exact (lww_step_uuid _ _ _ _ Hst Hu). }
  subst e2. exact Hk.
Qed.

(* ====================================================================================== *)
(* ---------- examples ---------- *)

Definition hitem (u d : N) (lm : Z) : entry := mkEntry u d (tm lm 0) None.   (* a history item *)
Definition lww_rt : ginfo := mkGinfo 100 0 (tm 1 1).
Definition lww_db (ch : list node) (t : list dobj) : db := mkDb lww_rt ch t.

Lemma unique_by_compute l : nodupb (uus l) = true -> uuids_unique l.
Proof. intro H. apply nodupb_spec. exact H. Qed.

(* ---------- non-vacuity ---------- *)
(* Two replicas.  Entry 1 (depth 1) was edited on both sides, last in the destination; entry 2
   (depth 2) on both sides, last - twice - in the source; entry 3 was moved by the source from
   the root into group 10 and not edited. *)
Definition nv_d1 : entry := mkEntry 1 13 (tm 30 1) (Some [hitem 1 13 30; hitem 1 11 10]).
Definition nv_s1 : entry := mkEntry 1 12 (tm 20 1) (Some [hitem 1 12 20; hitem 1 11 10]).
Definition nv_d2 : entry := mkEntry 2 21 (tm 10 1) (Some [hitem 2 21 10; hitem 2 20 5]).
Definition nv_s2 : entry := mkEntry 2 23 (tm 40 1) (Some [hitem 2 23 40; hitem 2 22 25; hitem 2 21 10; hitem 2 20 5]).
Definition nv_d3 : entry := mkEntry 3 31 (tm 10 1) (Some [hitem 3 31 10]).
Definition nv_s3 : entry := mkEntry 3 31 (tm 10 40) (Some [hitem 3 31 10]).

Definition nv_d : db :=
  lww_db [NG (mkGinfo 10 0 (tm 1 1)) [NE nv_d1; NG (mkGinfo 11 0 (tm 1 1)) [NE nv_d2]]; NE nv_d3] [].
Definition nv_s : db :=
  lww_db [NG (mkGinfo 10 0 (tm 1 1)) [NE nv_s1; NE nv_s3; NG (mkGinfo 11 0 (tm 1 1)) [NE nv_s2]]] [].

Definition nv_r1 : entry := mkEntry 1 13 (tm 30 1) (Some [hitem 1 13 30; hitem 1 12 20; hitem 1 11 10]).
Definition nv_r2 : entry := mkEntry 2 23 (tm 40 1) (Some [hitem 2 23 40; hitem 2 22 25; hitem 2 21 10; hitem 2 20 5]).
Definition nv_r3 : entry := mkEntry 3 31 (tm 10 40) (Some [hitem 3 31 10]).
Definition nv_r : db :=
  lww_db [NG (mkGinfo 10 0 (tm 1 1)) [NE nv_r1; NG (mkGinfo 11 0 (tm 1 1)) [NE nv_r2]; NE nv_r3]] [].

Example nv_merge :
  merge 50 nv_d nv_s = Ok (nv_r, [Ev EntryUpdated 1; Ev EntryLocationUpdated 3; Ev EntryUpdated 2]).
Proof. vm_compute. reflexivity. Qed.

Example nv_hyps :
  uuids_unique (db_children nv_d) /\ uuids_unique (db_children nv_s)
  /\ In nv_d1 (ents (db_root nv_d)) /\ In nv_s1 (ents (db_root nv_s))
  /\ In nv_d2 (ents (db_root nv_d)) /\ In nv_s2 (ents (db_root nv_s))
  /\ In nv_d3 (ents (db_root nv_d)) /\ In nv_s3 (ents (db_root nv_s)).
Proof.
  split; [apply unique_by_compute; vm_compute; reflexivity|].
  split; [apply unique_by_compute; vm_compute; reflexivity|].
  vm_compute. tauto.
Qed.

(* the theorem, instantiated: entry 1, the destination is newer *)
Example nv_entry1 :
  exists e', In e' (ents (db_root nv_r)) /\ newest_kept nv_d1 nv_s1 e' 30 20.
Proof.
  destruct nv_hyps as (Hd & Hs & H1d & H1s & _).
  destruct (merge_keeps_newest 50 nv_d nv_s nv_r _ nv_d1 nv_s1 30 20 Hd Hs H1d H1s eq_refl eq_refl eq_refl
              ltac:(discriminate) nv_merge) as (e' & Hk & [Hin|[(o & [] & _) _]]).
  exists e'. auto.
Qed.

(* entry 2, the source is newer *)
Example nv_entry2 :
  exists e', In e' (ents (db_root nv_r)) /\ newest_kept nv_d2 nv_s2 e' 10 40.
Proof.
  destruct nv_hyps as (Hd & Hs & _ & _ & H2d & H2s & _).
  destruct (merge_keeps_newest 50 nv_d nv_s nv_r _ nv_d2 nv_s2 10 40 Hd Hs H2d H2s eq_refl eq_refl eq_refl
              ltac:(discriminate) nv_merge) as (e' & Hk & [Hin|[(o & [] & _) _]]).
  exists e'. auto.
Qed.

(* and what those entries are *)
Example nv_lookup :
  entry_of 1 (db_root nv_r) = Some nv_r1 /\ entry_of 2 (db_root nv_r) = Some nv_r2
  /\ entry_of 3 (db_root nv_r) = Some nv_r3.
Proof. vm_compute. auto. Qed.

(* entry 3: moved, not edited - the general theorem with the move *)
Example nv_entry3 : exists e', In e' (ents (db_root nv_r)) /\ lww_step 50 nv_d3 nv_s3 e'.
Proof.
  destruct nv_hyps as (Hd & Hs & _ & _ & _ & _ & H3d & H3s).
  destruct (merge_lww_present 50 nv_d nv_s nv_r _ nv_d3 nv_s3 Hd Hs H3d H3s eq_refl eq_refl nv_merge)
    as (e' & Hst & Hin).
  exists e'. auto.
Qed.

(* ---------- each hypothesis of merge_keeps_newest is needed ---------- *)

(* destination UUIDs not distinct: find_node_location finds the first of two entries with UUID 1;
   the second keeps its old fields and its history never meets the source's *)
Definition cxd_e1 : entry := mkEntry 1 10 (tm 1 1) (Some [hitem 1 10 1]).
Definition cxd_e2 : entry := mkEntry 1 11 (tm 2 1) (Some [hitem 1 11 2]).
Definition cxd_es : entry := mkEntry 1 20 (tm 5 1) (Some [hitem 1 20 5]).
Definition cxd_d : db := lww_db [NE cxd_e1; NE cxd_e2] [].
Definition cxd_s : db := lww_db [NE cxd_es] [].
Definition cxd_r : db := lww_db [NE (mkEntry 1 20 (tm 5 1) (Some [hitem 1 20 5; hitem 1 10 1])); NE cxd_e2] [].

Example cxd_dest_unique_needed :
  nodupb (uus (db_children cxd_d)) = false /\ uuids_unique (db_children cxd_s)
  /\ In cxd_e2 (ents (db_root cxd_d)) /\ In cxd_es (ents (db_root cxd_s))
  /\ merge 50 cxd_d cxd_s = Ok (cxd_r, [Ev EntryUpdated 1])
  /\ ~ exists e', newest_kept cxd_e2 cxd_es e' 2 5 /\ In e' (ents (db_root cxd_r)).
Proof.
  split; [vm_compute; reflexivity|]. split; [apply unique_by_compute; vm_compute; reflexivity|].
  split; [vm_compute; tauto|]. split; [vm_compute; tauto|]. split; [vm_compute; reflexivity|].
  intros (e' & Hk & Hin). vm_compute in Hin. destruct Hin as [<-|[<-|[]]].
  - destruct Hk as (_ & _ & _ & Ht & _). cbn in Ht. destruct (Ht (hitem 1 11 2) (or_introl eq_refl)) as (y & Hy & Ey).
    destruct Hy as [<-|[<-|[]]]; cbn in Ey; discriminate.
  - destruct Hk as (_ & Hdata & _). cbn in Hdata. discriminate.
Qed.

(* source UUIDs not distinct: both source entries with UUID 1 are merged in turn, the later wins *)
Definition cxs_ed : entry := mkEntry 1 10 (tm 1 1) (Some [hitem 1 10 1]).
Definition cxs_e1 : entry := mkEntry 1 20 (tm 5 1) (Some [hitem 1 20 5]).
Definition cxs_e2 : entry := mkEntry 1 30 (tm 9 1) (Some [hitem 1 30 9]).
Definition cxs_d : db := lww_db [NE cxs_ed] [].
Definition cxs_s : db := lww_db [NE cxs_e1; NE cxs_e2] [].
Definition cxs_r : db := lww_db [NE (mkEntry 1 30 (tm 9 1) (Some [hitem 1 30 9; hitem 1 20 5; hitem 1 10 1]))] [].

Example cxs_source_unique_needed :
  uuids_unique (db_children cxs_d) /\ nodupb (uus (db_children cxs_s)) = false
  /\ In cxs_ed (ents (db_root cxs_d)) /\ In cxs_e1 (ents (db_root cxs_s))
  /\ merge 50 cxs_d cxs_s = Ok (cxs_r, [Ev EntryUpdated 1; Ev EntryUpdated 1])
  /\ ~ exists e', newest_kept cxs_ed cxs_e1 e' 1 5 /\ In e' (ents (db_root cxs_r)).
Proof.
  split; [apply unique_by_compute; vm_compute; reflexivity|]. split; [vm_compute; reflexivity|].
  split; [vm_compute; tauto|]. split; [vm_compute; tauto|]. split; [vm_compute; reflexivity|].
  intros (e' & Hk & Hin). vm_compute in Hin. destruct Hin as [<-|[]].
  destruct Hk as (_ & Hdata & _). cbn in Hdata. discriminate.
Qed.

(* a source tombstone later than the merged entry's time: merged first, then deleted - the second
   alternative of the conclusion is needed *)
Definition cxt_s : db := lww_db [NE cxs_e1] [mkDobj 1 100].
Definition cxt_r : db := lww_db [] [mkDobj 1 100].

Example cxt_tombstone_alternative_needed :
  uuids_unique (db_children cxs_d) /\ uuids_unique (db_children cxt_s)
  /\ merge 50 cxs_d cxt_s = Ok (cxt_r, [Ev EntryUpdated 1; Ev EntryDeleted 1])
  /\ ents (db_root cxt_r) = [] /\ tombstoned_and_logged cxt_s [Ev EntryUpdated 1; Ev EntryDeleted 1] 1.
Proof.
  split; [apply unique_by_compute; vm_compute; reflexivity|].
  split; [apply unique_by_compute; vm_compute; reflexivity|].
  split; [vm_compute; reflexivity|]. split; [reflexivity|].
  split; [exists (mkDobj 1 100); split; [left; reflexivity|reflexivity]|right; left; reflexivity].
Qed.

(* stamps.  The source's entry has no LastModificationTime (its history says 50): it is read as
   the epoch, loses against 5, and the result's history is newer than its current version.  The
   two "no time stamp" warnings of Entry::merge are dropped on this path: nothing is reported. *)
Definition us_ed : entry := mkEntry 1 10 (tm 5 1) (Some [hitem 1 10 5]).
Definition us_es : entry := mkEntry 1 20 (mkTimes None (Some 1%Z) 0) (Some [hitem 1 20 50]).

Example unstamped_source_loses :
  merge 50 (lww_db [NE us_ed] []) (lww_db [NE us_es] []) =
  Ok (lww_db [NE (mkEntry 1 10 (tm 5 1) (Some [hitem 1 20 50; hitem 1 10 5]))] [], [Ev EntryUpdated 1]).
Proof. vm_compute. reflexivity. Qed.

(* the same source entry with uncommitted changes: the unstamped copy goes into the history merge
   and History::merge_with unwraps its missing time stamp *)
Example unstamped_source_panics :
  merge 50 (lww_db [NE us_ed] []) (lww_db [NE (mkEntry 1 20 (mkTimes None (Some 1%Z) 0) (Some []))] []) =
  Panic site_hist_other_unwrap.
Proof. vm_compute. reflexivity. Qed.

(* the destination's entry has no LastModificationTime: it is read as "now" and beats a source
   entry stamped later than everything the destination has *)
Definition ud_ed : entry := mkEntry 1 10 (mkTimes None (Some 1%Z) 0) (Some [hitem 1 10 5]).
Definition ud_es : entry := mkEntry 1 20 (tm 40 1) (Some [hitem 1 20 40]).

Example unstamped_dest_wins :
  merge 50 (lww_db [NE ud_ed] []) (lww_db [NE ud_es] []) =
  Ok (lww_db [NE (mkEntry 1 10 (mkTimes None (Some 1%Z) 0) (Some [hitem 1 20 40; hitem 1 10 5]))] [],
      [Ev EntryUpdated 1]).
Proof. vm_compute. reflexivity. Qed.

(* ---------- what is FALSE for the code as it is ---------- *)

(* (F-a) Same LastModificationTime on both sides, different fields (two replicas edited within the
   same second; KDBX times have no sub-second part).  Entry::merge returns "nothing to do": the
   destination keeps its version, the source's version is neither current nor in the history,
   and the log is empty.  (The test in Entry::merge is inverted: the error
   EntryModificationTimeNotUpdated is returned when the two entries do NOT differ - which
   merge_group never asks - and differing entries are passed over in silence.) *)
Definition st_ed : entry := mkEntry 1 10 (tm 5 1) (Some [hitem 1 10 5]).
Definition st_es : entry := mkEntry 1 20 (tm 5 1) (Some [hitem 1 20 5]).
Definition st_d : db := lww_db [NE st_ed] [].
Definition st_s : db := lww_db [NE st_es] [].

Example same_time_witness : merge 50 st_d st_s = Ok (st_d, []).
Proof. vm_compute. reflexivity. Qed.

Theorem same_time_source_lost_refuted :
  ~ (forall now d s d' lg e_d e_s,
       uuids_unique (db_children d) -> uuids_unique (db_children s) ->
       In e_d (ents (db_root d)) -> In e_s (ents (db_root s)) -> e_uuid e_d = e_uuid e_s ->
       t_lm (e_times e_d) <> None -> t_lm (e_times e_s) <> None ->
       merge now d s = Ok (d', lg) ->
       (* the source's fields are the current ones or are in the history, or something is logged *)
       (exists e', In e' (ents (db_root d')) /\ e_uuid e' = e_uuid e_s
                   /\ (e_data e' = e_data e_s \/ exists y, In y (hist_list e') /\ e_data y = e_data e_s))
       \/ lg <> []).
Proof.
  intro H.
  destruct (H 50%Z st_d st_s st_d [] st_ed st_es) as [(e' & Hin & _ & Hd)|Hl].
  - apply unique_by_compute. vm_compute. reflexivity.
  - apply unique_by_compute. vm_compute. reflexivity.
  - vm_compute. tauto.
  - vm_compute. tauto.
  - reflexivity.
  - discriminate.
  - discriminate.
  - exact same_time_witness.
  - vm_compute in Hin. destruct Hin as [<-|[]]. destruct Hd as [Hd|(y & Hy & Hd)].
    + cbn in Hd. discriminate.
    + destruct Hy as [<-|[]]. cbn in Hd. discriminate.
  - apply Hl. reflexivity.
Qed.

(* the general statement behind the witness *)
Theorem same_time_keeps_destination now d s d' lg e_d e_s t :
  uuids_unique (db_children d) -> uuids_unique (db_children s) ->
  In e_d (ents (db_root d)) -> In e_s (ents (db_root s)) -> e_uuid e_d = e_uuid e_s ->
  t_lm (e_times e_d) = Some t -> t_lm (e_times e_s) = Some t ->
  merge now d s = Ok (d', lg) ->
  exists e1, lc_variant e_s e_d e1 /\ (In e1 (ents (db_root d')) \/ tombstoned_and_logged s lg (e_uuid e_s)).
Proof.
  intros Nd Ns Hd Hs Hu Ld Ls H.
  destruct (merge_lww _ _ _ _ _ _ _ Nd Ns Hd Hs Hu H) as (e' & Hst & Hin).
  destruct (lww_step_cases _ _ _ _ _ _ Ld Ls Hst) as (e1 & Hv & [[_ ->]|[(_ & _ & ->)|(_ & Ne & _)]]);
    [exists e1; auto|exists e1; auto|contradiction Ne; reflexivity].
Qed.

(* (F-b) The source's entry is stamped later but differs only inside Times (here: the rest of
   Times, e.g. the expiry time): merge_group skips it (`has_diverged_from` ignores Times), so the
   newer Times are not taken. *)
Definition nt_ed : entry := mkEntry 1 10 (mkTimes (Some 5%Z) (Some 1%Z) 0) (Some [hitem 1 10 5]).
Definition nt_es : entry := mkEntry 1 10 (mkTimes (Some 9%Z) (Some 1%Z) 7) (Some [hitem 1 10 5]).
Definition nt_d : db := lww_db [NE nt_ed] [].
Definition nt_s : db := lww_db [NE nt_es] [].

Example newer_times_witness : merge 50 nt_d nt_s = Ok (nt_d, []).
Proof. vm_compute. reflexivity. Qed.

Theorem newer_times_not_taken_refuted :
  ~ (forall now d s d' lg e_d e_s ld ls,
       uuids_unique (db_children d) -> uuids_unique (db_children s) ->
       In e_d (ents (db_root d)) -> In e_s (ents (db_root s)) -> e_uuid e_d = e_uuid e_s ->
       t_lm (e_times e_d) = Some ld -> t_lm (e_times e_s) = Some ls -> (ld < ls)%Z ->
       merge now d s = Ok (d', lg) ->
       exists e', In e' (ents (db_root d')) /\ e_uuid e' = e_uuid e_s
                  /\ t_lm (e_times e') = Some ls /\ t_rest (e_times e') = t_rest (e_times e_s)).
Proof.
  intro H.
  destruct (H 50%Z nt_d nt_s nt_d [] nt_ed nt_es 5%Z 9%Z) as (e' & Hin & _ & Hlm & _).
  - apply unique_by_compute. vm_compute. reflexivity.
  - apply unique_by_compute. vm_compute. reflexivity.
  - vm_compute. tauto.
  - vm_compute. tauto.
  - reflexivity.
  - reflexivity.
  - reflexivity.
  - reflexivity.
  - exact newer_times_witness.
  - vm_compute in Hin. destruct Hin as [<-|[]]. cbn in Hlm. discriminate.
Qed.

(* (F-c) Two history items, one on each side, with the same modification time and different
   content: the newer side's item is kept, the other is dropped (one warning). *)
Definition hc_ed : entry := mkEntry 1 12 (tm 30 1) (Some [hitem 1 12 30; hitem 1 11 10]).
Definition hc_es : entry := mkEntry 1 13 (tm 40 1) (Some [hitem 1 13 40; hitem 1 99 10]).
Definition hc_d : db := lww_db [NE hc_ed] [].
Definition hc_s : db := lww_db [NE hc_es] [].
Definition hc_r : db := lww_db [NE (mkEntry 1 13 (tm 40 1) (Some [hitem 1 13 40; hitem 1 12 30; hitem 1 99 10]))] [].

Example history_collision_witness : merge 50 hc_d hc_s = Ok (hc_r, [Ev EntryUpdated 1; Warn]).
Proof. vm_compute. reflexivity. Qed.

Theorem history_item_lost_refuted :
  ~ (forall now d s d' lg e_d e_s ld ls,
       uuids_unique (db_children d) -> uuids_unique (db_children s) ->
       In e_d (ents (db_root d)) -> In e_s (ents (db_root s)) -> e_uuid e_d = e_uuid e_s ->
       t_lm (e_times e_d) = Some ld -> t_lm (e_times e_s) = Some ls -> ld <> ls ->
       merge now d s = Ok (d', lg) ->
       exists e', In e' (ents (db_root d')) /\ e_uuid e' = e_uuid e_s
                  /\ forall x, In x (hist_list e_d) \/ In x (hist_list e_s) -> In x (hist_list e')).
Proof.
  intro H.
  destruct (H 50%Z hc_d hc_s hc_r [Ev EntryUpdated 1; Warn] hc_ed hc_es 30%Z 40%Z) as (e' & Hin & _ & Hh).
  - apply unique_by_compute. vm_compute. reflexivity.
  - apply unique_by_compute. vm_compute. reflexivity.
  - vm_compute. tauto.
  - vm_compute. tauto.
  - reflexivity.
  - reflexivity.
  - reflexivity.
  - discriminate.
  - exact history_collision_witness.
  - vm_compute in Hin. destruct Hin as [<-|[]].
    assert (Hx : In (hitem 1 11 10) (hist_list hc_ed) \/ In (hitem 1 11 10) (hist_list hc_es))
      by (left; right; left; reflexivity).
    apply Hh in Hx. cbn in Hx. destruct Hx as [Hx|[Hx|[Hx|[]]]]; discriminate.
Qed.

(* (F-d) The older side has uncommitted changes (fields edited, history and time stamp not
   updated): its current version is filed under its unchanged time stamp and takes the place of
   its own last committed version, which is lost - even though no time of one history occurs in
   the other.  Two warnings. *)
Definition uh_ed : entry := mkEntry 1 15 (tm 10 1) (Some [hitem 1 11 10]).
Definition uh_es : entry := mkEntry 1 20 (tm 40 1) (Some [hitem 1 20 40]).
Definition uh_d : db := lww_db [NE uh_ed] [].
Definition uh_s : db := lww_db [NE uh_es] [].
Definition uh_r : db :=
  lww_db [NE (mkEntry 1 20 (tm 40 1) (Some [hitem 1 20 40; mkEntry 1 15 (tm 10 1) None]))] [].

Example uncommitted_head_witness : merge 50 uh_d uh_s = Ok (uh_r, [Ev EntryUpdated 1; Warn; Warn]).
Proof. vm_compute. reflexivity. Qed.

Theorem uncommitted_head_lost_refuted :
  ~ (forall now d s d' lg e_d e_s ld ls,
       uuids_unique (db_children d) -> uuids_unique (db_children s) ->
       In e_d (ents (db_root d)) -> In e_s (ents (db_root s)) -> e_uuid e_d = e_uuid e_s ->
       t_lm (e_times e_d) = Some ld -> t_lm (e_times e_s) = Some ls -> ld <> ls ->
       (* no modification time is shared by the two histories, none is repeated *)
       (forall t, In t (hist_keys (hist_list e_d)) -> ~ In t (hist_keys (hist_list e_s))) ->
       NoDup (hist_keys (hist_list e_d)) -> NoDup (hist_keys (hist_list e_s)) ->
       merge now d s = Ok (d', lg) ->
       exists e', In e' (ents (db_root d')) /\ e_uuid e' = e_uuid e_s
                  /\ forall x, In x (hist_list e_d) -> In x (hist_list e')).
Proof.
  intro H.
  destruct (H 50%Z uh_d uh_s uh_r [Ev EntryUpdated 1; Warn; Warn] uh_ed uh_es 10%Z 40%Z) as (e' & Hin & _ & Hh).
  - apply unique_by_compute. vm_compute. reflexivity.
  - apply unique_by_compute. vm_compute. reflexivity.
  - vm_compute. tauto.
  - vm_compute. tauto.
  - reflexivity.
  - reflexivity.
  - reflexivity.
  - discriminate.
  - cbn. intros t [<-|[]] [E|[]]. discriminate.
  - cbn. repeat constructor. intros [].
  - cbn. repeat constructor. intros [].
  - exact uncommitted_head_witness.
  - vm_compute in Hin. destruct Hin as [<-|[]].
    specialize (Hh (hitem 1 11 10) (or_introl eq_refl)). cbn in Hh. destruct Hh as [Hx|[Hx|[]]]; discriminate.
Qed.

(* ---------- component level: the paths of Entry::merge ---------- *)

Example entry_merge_source_newer :
  entry_merge 50 nv_d2 nv_s2 = Ok (Some nv_r2, []).
Proof. vm_compute. reflexivity. Qed.

Example entry_merge_dest_newer :
  entry_merge 50 nv_d1 nv_s1 = Ok (Some nv_r1, []).
Proof. vm_compute. reflexivity. Qed.

Example entry_merge_same_time_differ : entry_merge 50 st_ed st_es = Ok (None, []).
Proof. vm_compute. reflexivity. Qed.

Example entry_merge_same_time_equal : entry_merge 50 st_ed st_ed = Err EEntryTime.
Proof. vm_compute. reflexivity. Qed.

Print Assumptions merge_lww.
Print Assumptions merge_lww_present.
Print Assumptions merge_lww_lookup.
Print Assumptions merge_dest_only.
Print Assumptions merge_group_lww.
Print Assumptions merge_group_frame.
Print Assumptions merge_deletions_frame.
Print Assumptions lww_step_cases.
Print Assumptions merge_keeps_newest.
Print Assumptions merge_keeps_newest_any.
Print Assumptions same_time_keeps_destination.
Print Assumptions same_time_source_lost_refuted.
Print Assumptions newer_times_not_taken_refuted.
Print Assumptions history_item_lost_refuted.
Print Assumptions uncommitted_head_lost_refuted.
Print Assumptions entry_merge_eq.
Print Assumptions entry_merge_lww.
Print Assumptions history_merge_in.

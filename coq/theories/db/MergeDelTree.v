(* Tree-level vocabulary for the deletion phase of Database::merge (property "deletions").

   [tfilter k n]    : the tree n without the nodes (below its root) whose UUID fails k, with
                      everything below them.
   [doomed n]       : the expected verdict, by recursion over the TREE only: an entry is doomed
                      iff the source lists a tombstone for it that the destination does not have
                      and that is strictly newer than its last modification; a group is doomed
                      iff the same holds for the group itself AND all its children are doomed.
   [prune n]        : n without its doomed nodes.

   The one lemma about paths ([put_group_tfilter]): on a tree with pairwise distinct UUIDs,
   what the code does to remove the node with UUID u (find_node_location, find_group,
   remove_node, write back) is [tfilter (kf u)]. *)
From Coq Require Import Permutation.
From KP Require Import Bytes Outcome Tree TreeFacts History Merge MergeLookup.
Local Open Scope N_scope.

(* ---------- filtering a tree by UUID ---------- *)

Fixpoint tfilter (k : N -> bool) (n : node) : node :=
  match n with
  | NE e => NE e
  | NG i ch =>
    NG i ((fix go (l : list node) : list node :=
             match l with
             | [] => []
             | x :: r => if k (uuid_of x) then tfilter k x :: go r else go r
             end) ch)
  end.

Fixpoint tfilters (k : N -> bool) (l : list node) : list node :=
  match l with
  | [] => []
  | x :: r => if k (uuid_of x) then tfilter k x :: tfilters k r else tfilters k r
  end.

Lemma tfilter_NG k i ch : tfilter k (NG i ch) = NG i (tfilters k ch).
Proof.
  cbn [tfilter]. f_equal. induction ch as [|x r IH]; [reflexivity|].
  cbn [tfilters]. rewrite <- IH. reflexivity.
Qed.

Lemma tfilter_NE k e : tfilter k (NE e) = NE e.
Proof. reflexivity. Qed.

Lemma tfilters_cons k x r :
  tfilters k (x :: r) = if k (uuid_of x) then tfilter k x :: tfilters k r else tfilters k r.
Proof. reflexivity. Qed.

Lemma tfilters_app k a b : tfilters k (a ++ b) = tfilters k a ++ tfilters k b.
Proof.
  induction a as [|x r IH]; [reflexivity|]. cbn [app]. rewrite !tfilters_cons, IH.
  destruct (k (uuid_of x)); reflexivity.
Qed.

Lemma tfilters_filter_map k l :
  tfilters k l = map (tfilter k) (filter (fun c => k (uuid_of c)) l).
Proof.
  induction l as [|x r IH]; [reflexivity|]. rewrite tfilters_cons. cbn [filter].
  destruct (k (uuid_of x)); cbn [map]; rewrite IH; reflexivity.
Qed.

(* the predicate "is not u" *)
Definition kf (u : N) : N -> bool := fun v => negb (N.eqb v u).

Lemma kf_true u v : kf u v = true <-> v <> u.
Proof. unfold kf. rewrite negb_true_iff. apply N.eqb_neq. Qed.

Lemma kf_false u v : kf u v = false <-> v = u.
Proof. unfold kf. rewrite negb_false_iff. apply N.eqb_eq. Qed.

Definition node_times (n : node) : times :=
  match n with NG i _ => gi_times i | NE e => e_times e end.

Lemma tfilter_uuid k n : uuid_of (tfilter k n) = uuid_of n.
Proof. destruct n; [rewrite tfilter_NG|]; reflexivity. Qed.

Lemma tfilter_is_group k n : is_group (tfilter k n) = is_group n.
Proof. destruct n; [rewrite tfilter_NG|]; reflexivity. Qed.

Lemma tfilter_times k n : node_times (tfilter k n) = node_times n.
Proof. destruct n; [rewrite tfilter_NG|]; reflexivity. Qed.

Lemma tfilter_children k n : children_of (tfilter k n) = tfilters k (children_of n).
Proof. destruct n; [rewrite tfilter_NG|]; reflexivity. Qed.

(* filtering only drops UUIDs *)
Lemma tfilter_sub k : forall x, sub (all_uuids (tfilter k x)) (all_uuids x).
Proof.
  induction x as [e|i ch IH] using node_ind'; [apply sub_refl|].
  rewrite tfilter_NG. cbn [all_uuids]. change (sub (uus (tfilters k ch)) (uus ch)).
  induction IH as [|x r Hx _ IHr]; [apply sub_refl|].
  rewrite tfilters_cons. destruct (k (uuid_of x)).
  - rewrite !uus_cons, tfilter_uuid. apply sub_cons. apply sub_app; assumption.
  - eapply sub_trans; [exact IHr|]. change (uus (x :: r)) with (uu x ++ uus r). apply sub_drop.
Qed.

Lemma tfilter_unique k root :
  uuids_unique (children_of root) -> uuids_unique (children_of (tfilter k root)).
Proof.
  intro Nd. change (NoDup (uus (children_of (tfilter k root)))).
  change (NoDup (uus (children_of root))) in Nd.
  rewrite <- all_uuids_children in *. apply (tfilter_sub k root). exact Nd.
Qed.

Lemma tfilter_uuids_incl k root : incl (all_uuids (tfilter k root)) (all_uuids root).
Proof. apply (tfilter_sub k root). Qed.

(* nothing to filter: same tree *)
Lemma tfilter_id k : forall x, (forall v, In v (all_uuids x) -> k v = true) -> tfilter k x = x.
Proof.
  induction x as [e|i ch IH] using node_ind'; intro H; [reflexivity|].
  rewrite tfilter_NG. f_equal. cbn [all_uuids] in H. change (forall v, In v (uus ch) -> k v = true) in H.
  induction IH as [|x r Hx _ IHr]; [reflexivity|].
  rewrite tfilters_cons. rewrite uus_cons in H.
  rewrite (H (uuid_of x) (or_introl eq_refl)). f_equal.
  - apply Hx. intros v Hv. apply H. right. apply in_or_app. left. exact Hv.
  - apply IHr. intros v Hv. apply H. right. apply in_or_app. right. exact Hv.
Qed.

Lemma tfilters_id k l : (forall v, In v (uus l) -> k v = true) -> tfilters k l = l.
Proof.
  intro H. pose proof (tfilter_id k (NG (mkGinfo 0 0 times_default) l) H) as E.
  rewrite tfilter_NG in E. injection E as E. exact E.
Qed.

(* the nodes of the filtered tree are filtered nodes of the tree *)
Lemma all_nodes_tfilter k : forall x m,
  In m (all_nodes (tfilter k x)) ->
  exists n, In n (all_nodes x) /\ m = tfilter k n /\ k (uuid_of n) = true.
Proof.
  induction x as [e|i ch IH] using node_ind'; intros m H; [destruct H|].
  rewrite tfilter_NG in H. cbn [all_nodes] in H |- *.
  change (In m (nodes_of (tfilters k ch))) in H.
  change (exists n, In n (nodes_of ch) /\ m = tfilter k n /\ k (uuid_of n) = true).
  induction IH as [|x r Hx _ IHr]; [destruct H|].
  rewrite tfilters_cons in H. rewrite nodes_of_cons.
  assert (Tail : In m (nodes_of (tfilters k r)) ->
                 exists n, In n (x :: all_nodes x ++ nodes_of r) /\ m = tfilter k n /\ k (uuid_of n) = true).
  { intro Hm. destruct (IHr Hm) as (n & Hn & E & K). exists n. split; [|auto].
    right. apply in_or_app. right. exact Hn. }
  destruct (k (uuid_of x)) eqn:Kx; [|exact (Tail H)].
  rewrite nodes_of_cons in H. destruct H as [<-|H].
  - exists x. split; [left; reflexivity|auto].
  - apply in_app_or in H as [H|H]; [|exact (Tail H)].
    destruct (Hx m H) as (n & Hn & E & K). exists n. split; [|auto].
    right. apply in_or_app. left. exact Hn.
Qed.

Lemma tfilter_kept_uuids k x v : In v (all_uuids (tfilter k x)) -> k v = true.
Proof.
  rewrite all_uuids_nodes. intro H. apply in_map_iff in H as (m & <- & Hm).
  apply all_nodes_tfilter in Hm as (n & _ & -> & K). rewrite tfilter_uuid. exact K.
Qed.

(* removing leaves: every other node is still there *)
Lemma all_nodes_tfilter_leaf u : forall x,
  (forall m, In m (all_nodes x) -> uuid_of m = u -> children_of m = []) ->
  forall n, In n (all_nodes x) -> uuid_of n <> u ->
  In (tfilter (kf u) n) (all_nodes (tfilter (kf u) x)).
Proof.
  induction x as [e|i ch IH] using node_ind'; intros L n Hn Ne; [destruct Hn|].
  rewrite tfilter_NG. cbn [all_nodes] in *.
  change (In n (nodes_of ch)) in Hn.
  change (forall m, In m (nodes_of ch) -> uuid_of m = u -> children_of m = []) in L.
  change (In (tfilter (kf u) n) (nodes_of (tfilters (kf u) ch))).
  induction IH as [|x r Hx _ IHr]; [destruct Hn|].
  rewrite nodes_of_cons in Hn, L. rewrite tfilters_cons.
  assert (Lr : forall m, In m (nodes_of r) -> uuid_of m = u -> children_of m = []).
  { intros m Hm. apply L. right. apply in_or_app. right. exact Hm. }
  assert (Lx : forall m, In m (all_nodes x) -> uuid_of m = u -> children_of m = []).
  { intros m Hm. apply L. right. apply in_or_app. left. exact Hm. }
  destruct (kf u (uuid_of x)) eqn:Kx.
  - rewrite nodes_of_cons. destruct Hn as [->|Hn]; [left; reflexivity|]. right.
    apply in_or_app. apply in_app_or in Hn as [Hn|Hn]; [left; apply Hx; assumption|right; apply IHr; assumption].
  - apply kf_false in Kx. destruct Hn as [->|Hn]; [contradiction|].
    apply in_app_or in Hn as [Hn|Hn]; [|apply IHr; assumption].
    exfalso. rewrite all_nodes_children, (L x (or_introl eq_refl) Kx) in Hn. destruct Hn.
Qed.

(* ---------- nodes below nodes; a UUID designates one node ---------- *)

Lemma all_nodes_trans : forall x n, In n (all_nodes x) -> incl (all_nodes n) (all_nodes x).
Proof.
  induction x as [e|i ch IH] using node_ind'; intros n Hn; [destruct Hn|].
  cbn [all_nodes] in *. induction IH as [|x r Hx _ IHr]; [destruct Hn|].
  cbn [flat_map] in *. destruct Hn as [->|Hn].
  - intros m Hm. right. apply in_or_app. left. exact Hm.
  - apply in_app_or in Hn as [Hn|Hn]; intros m Hm; right; apply in_or_app.
    + left. exact (Hx n Hn m Hm).
    + right. exact (IHr Hn m Hm).
Qed.

Lemma child_in_all_nodes i ch c : In c ch -> In c (all_nodes (NG i ch)).
Proof. intro H. cbn [all_nodes]. apply (in_nodes_of_self c ch H). Qed.

Lemma unique_node root a b :
  uuids_unique (children_of root) -> In a (all_nodes root) -> In b (all_nodes root) ->
  uuid_of a = uuid_of b -> a = b.
Proof.
  intros Nd Ha Hb E. change (NoDup (uus (children_of root))) in Nd.
  rewrite <- all_uuids_children, all_uuids_nodes in Nd.
  pose proof (find_by_key uuid_of _ a Nd Ha) as Fa.
  pose proof (find_by_key uuid_of _ b Nd Hb) as Fb.
  rewrite E in Fa. rewrite Fa in Fb. injection Fb as ->. reflexivity.
Qed.

Lemma height_desc : forall x n, In n (all_nodes x) -> (height n < height x)%nat.
Proof.
  induction x as [e|i ch IH] using node_ind'; intros n Hn; [destruct Hn|].
  cbn [all_nodes] in Hn. apply in_flat_map in Hn as (c & Hc & Hn).
  pose proof (height_child c i ch Hc) as Lt. destruct Hn as [->|Hn]; [exact Lt|].
  pose proof (proj1 (Forall_forall _ _) IH c Hc n Hn). lia.
Qed.

(* the node carrying a UUID *)
Definition lookup (u : N) (root : node) : option node :=
  find (fun n => N.eqb (uuid_of n) u) (all_nodes root).

Lemma lookup_in root n :
  uuids_unique (children_of root) -> In n (all_nodes root) -> lookup (uuid_of n) root = Some n.
Proof.
  intros Nd Hn. change (NoDup (uus (children_of root))) in Nd.
  rewrite <- all_uuids_children, all_uuids_nodes in Nd.
  exact (find_by_key uuid_of _ n Nd Hn).
Qed.

Lemma lookup_some u root n : lookup u root = Some n -> In n (all_nodes root) /\ uuid_of n = u.
Proof. intro H. apply find_some in H as [Hn E]. split; [exact Hn|apply N.eqb_eq; exact E]. Qed.

Lemma lookup_none u root : lookup u root = None -> ~ In u (all_uuids root).
Proof.
  intros H Hu. rewrite all_uuids_nodes in Hu. apply in_map_iff in Hu as (n & E & Hn).
  pose proof (find_none _ _ H n Hn) as F. cbv beta in F. rewrite E, N.eqb_refl in F. discriminate.
Qed.

(* ---------- removal through a path is tfilter ---------- *)

Lemma NoDup_uus_split a x b u :
  NoDup (uus (a ++ x :: b)) -> In u (all_uuids x) ->
  ~ In u (uus a) /\ u <> uuid_of x /\ ~ In u (uus b).
Proof.
  rewrite uus_app, uus_cons. intros Nd Hu. apply NoDup_app_iff in Nd as (_ & Nx & D).
  apply NoDup_cons_iff in Nx as [Nh Nx]. apply NoDup_app_iff in Nx as (_ & _ & D2).
  split; [|split].
  - intro Ha. apply (D u Ha). right. apply in_or_app. left. exact Hu.
  - intros ->. apply Nh. apply in_or_app. left. exact Hu.
  - intro Hb. exact (D2 u Hu Hb).
Qed.

Lemma update_first_at p f : forall l x,
  find p l = Some x ->
  exists a b, l = a ++ x :: b /\ update_first p f l = option_map (fun x' => a ++ x' :: b) (f x).
Proof.
  induction l as [|y r IH]; intros x H; cbn [find update_first] in *; [discriminate|].
  destruct (p y).
  - injection H as ->. exists [], r. split; [reflexivity|]. destruct (f x); reflexivity.
  - destruct (IH x H) as (a & b & -> & E). exists (y :: a), b. split; [reflexivity|].
    rewrite E. destruct (f x); reflexivity.
Qed.

(* a node of the list with UUID u: u is not below any node of the list *)
Lemma NoDup_uus_not_below ch n x :
  NoDup (uus ch) -> In n ch -> In x ch -> ~ In (uuid_of n) (all_uuids x).
Proof.
  intros Nd Hn Hx Hu. apply in_split in Hx as (a & b & ->).
  destruct (NoDup_uus_split a x b (uuid_of n) Nd Hu) as (Na & Nx & Nb).
  apply in_app_or in Hn as [Hn|[Hn|Hn]].
  - apply Na. apply in_uus_self. exact Hn.
  - subst n. apply Nx. reflexivity.
  - apply Nb. apply in_uus_self. exact Hn.
Qed.

Lemma update_uuid_tfilter u : forall loc i ch pc,
  NoDup (uus ch) -> at_path loc ch pc -> (exists n, In n pc /\ uuid_of n = u) ->
  exists pi, get_uuid loc (NG i ch) = Some (NG pi pc)
    /\ update_uuid loc (fun n => match n with
                                 | NG _ _ => Some (NG pi (filter (fun c => negb (N.eqb (uuid_of c) u)) pc))
                                 | NE _ => None
                                 end) (NG i ch)
       = Some (tfilter (kf u) (NG i ch)).
Proof.
  induction loc as [|j loc' IH]; intros i ch pc Nd Hp (n & Hn & Hu); cbn [at_path] in Hp.
  - subst pc. exists i. split; [reflexivity|]. cbn [update_uuid]. rewrite tfilter_NG. do 2 f_equal.
    rewrite tfilters_filter_map. change (fun c => kf u (uuid_of c)) with (fun c => negb (N.eqb (uuid_of c) u)).
    symmetry. rewrite <- (map_id (filter _ ch)) at 2. apply map_ext_in. intros x Hx.
    apply filter_In in Hx as [Hx _]. apply tfilter_id. intros v Hv. apply kf_true. intros ->.
    subst u. exact (NoDup_uus_not_below ch n x Nd Hn Hx Hv).
  - destruct Hp as (x & Hx & Gx & Hj & Hp). subst j.
    destruct x as [xi xch|xe]; [|discriminate]. cbn [children_of] in Hp.
    assert (Ndx : NoDup (uus xch)) by (apply (uus_unique_child (NG xi xch) ch Nd Hx)).
    destruct (IH xi xch pc Ndx Hp (ex_intro _ n (conj Hn Hu))) as (pi & Hg & Hup).
    exists pi.
    assert (Hbelow : In u (all_uuids (NG xi xch))).
    { cbn [all_uuids]. change (In u (uus xch)). apply (at_path_uus loc' xch pc Hp).
      rewrite <- Hu. apply in_uus_self. exact Hn. }
    assert (Hres : forall a b, ch = a ++ NG xi xch :: b ->
              a ++ tfilter (kf u) (NG xi xch) :: b = tfilters (kf u) ch).
    { intros a b ->. destruct (NoDup_uus_split a _ b u Nd Hbelow) as (Na & Nx & Nb).
      rewrite tfilters_app, tfilters_cons.
      rewrite (proj2 (kf_true u (uuid_of (NG xi xch)))) by (intro E; apply Nx; symmetry; exact E).
      rewrite (tfilters_id (kf u) a), (tfilters_id (kf u) b); [reflexivity| |];
        intros v Hv; apply kf_true; intros ->; contradiction. }
    destruct loc' as [|k l].
    + pose proof (find_by_uuid ch (NG xi xch) Nd Hx) as Hf.
      split.
      * cbn [get_uuid children_of]. rewrite Hf. exact Hg.
      * cbn [update_uuid]. destruct (update_first_at _
            (fun n0 => match n0 with
                       | NG _ _ => Some (NG pi (filter (fun c => negb (N.eqb (uuid_of c) u)) pc))
                       | NE _ => None end) ch _ Hf) as (a & b & Ech & ->).
        cbn [update_uuid] in Hup. rewrite Hup. cbn [option_map]. rewrite (tfilter_NG (kf u) i ch). do 2 f_equal.
        apply Hres. exact Ech.
    + pose proof (find_group_by_uuid ch (NG xi xch) Nd Hx eq_refl) as Hf.
      split.
      * change (get_uuid (uuid_of (NG xi xch) :: k :: l) (NG i ch))
          with (match find (fun c => is_group c && N.eqb (uuid_of c) (uuid_of (NG xi xch))) ch with
                | Some g0 => get_uuid (k :: l) g0 | None => None end).
        rewrite Hf. exact Hg.
      * match goal with |- update_uuid _ ?f _ = _ =>
          change (option_map (NG i)
                    (update_first (fun c => is_group c && N.eqb (uuid_of c) (uuid_of (NG xi xch)))
                                  (update_uuid (k :: l) f) ch)
                  = Some (tfilter (kf u) (NG i ch)));
          destruct (update_first_at _ (update_uuid (k :: l) f) ch _ Hf) as (a & b & Ech & ->)
        end.
        rewrite Hup. cbn [option_map]. rewrite (tfilter_NG (kf u) i ch). do 2 f_equal.
        apply Hres. exact Ech.
Qed.

(* what the code does to take the node with UUID u out of the tree *)
Lemma locate_remove u root :
  uuids_unique (children_of root) ->
  match fnl_db u (children_of root) with
  | None => lookup u root = None
  | Some loc =>
    exists pi pc n nd,
      find_group loc root = Some (pi, pc)
      /\ find (fun c => N.eqb (uuid_of c) u) pc = Some n
      /\ lookup u root = Some n
      /\ remove_node u pc = Some (nd, filter (fun c => negb (N.eqb (uuid_of c) u)) pc)
      /\ put_group loc pi (filter (fun c => negb (N.eqb (uuid_of c) u)) pc) root
         = Some (tfilter (kf u) root)
  end.
Proof.
  intro Nd. destruct (fnl_db u (children_of root)) as [loc|] eqn:El.
  - destruct (fnl_db_lookup u root loc Nd El) as (pi & pc & n & Hp & Hf & Hn & Hu & Hfi).
    destruct (remove_node_some _ _ _ Hfi) as [nd Hr].
    exists pi, pc, n, nd. split; [exact Hf|]. split; [exact Hfi|]. split; [|split; [exact Hr|]].
    + rewrite <- Hu. apply lookup_in; [exact Nd|]. rewrite all_nodes_children.
      apply (at_path_nodes loc _ pc Hp). apply in_nodes_of_self. exact Hn.
    + destruct root as [i ch|e]; [|discriminate]. cbn [children_of] in *.
      destruct (update_uuid_tfilter u loc i ch pc Nd Hp (ex_intro _ n (conj Hn Hu))) as (pi' & Hg & Hup).
      unfold find_group in Hf. rewrite Hg in Hf. injection Hf as <-.
      unfold put_group. exact Hup.
  - destruct (lookup u root) as [n|] eqn:L; [|reflexivity]. exfalso.
    apply lookup_some in L as [Hn Hu]. apply (fnl_db_none_node root u El).
    rewrite all_uuids_nodes, <- Hu. apply in_map. exact Hn.
Qed.

(* ---------- the expected verdict ---------- *)

Section Verdict.
  Variable now : Z.
  Variable deleted : list dobj.     (* the destination's tombstones *)
  Variable src : list dobj.         (* the source's tombstones *)

  (* tombstone o is for UUID u and strictly newer than the time stamp t ([None] counts as now) *)
  Definition eff (u : N) (t : times) (o : dobj) : bool :=
    N.eqb (d_uuid o) u && Z.ltb (fst (lm_or t now)) (d_time o).

  Definition tomb_in (l : list dobj) (u : N) (t : times) : bool := existsb (eff u t) l.

  Definition tomb (u : N) (t : times) : bool :=
    negb (deleted_contains deleted u) && tomb_in src u t.

  Fixpoint doomed (n : node) : bool :=
    match n with
    | NE e => tomb (e_uuid e) (e_times e)
    | NG i ch =>
      tomb (gi_uuid i) (gi_times i)
      && (fix all (l : list node) : bool :=
            match l with [] => true | x :: r => doomed x && all r end) ch
    end.

  Lemma doomed_NG i ch : doomed (NG i ch) = tomb (gi_uuid i) (gi_times i) && forallb doomed ch.
  Proof.
    reflexivity.
  Qed.

  Lemma doomed_tomb n : doomed n = true -> tomb (uuid_of n) (node_times n) = true.
  Proof.
    destruct n as [i ch|e]; [rewrite doomed_NG|]; cbn [uuid_of node_times doomed]; [|auto].
    intro H. apply andb_true_iff in H. tauto.
  Qed.

  Fixpoint prune (n : node) : node :=
    match n with
    | NE e => NE e
    | NG i ch =>
      NG i ((fix go (l : list node) : list node :=
               match l with
               | [] => []
               | x :: r => if doomed x then go r else prune x :: go r
               end) ch)
    end.

  Fixpoint prunes (l : list node) : list node :=
    match l with
    | [] => []
    | x :: r => if doomed x then prunes r else prune x :: prunes r
    end.

  Lemma prune_NG i ch : prune (NG i ch) = NG i (prunes ch).
  Proof.
    reflexivity.
  Qed.

  Lemma prunes_cons x r : prunes (x :: r) = if doomed x then prunes r else prune x :: prunes r.
  Proof. reflexivity. Qed.

  Lemma prunes_filter_map l : prunes l = map prune (filter (fun c => negb (doomed c)) l).
  Proof.
    induction l as [|x r IH]; [reflexivity|]. rewrite prunes_cons. cbn [filter].
    destruct (doomed x); cbn [negb map]; rewrite IH; reflexivity.
  Qed.

  Lemma prune_uuid n : uuid_of (prune n) = uuid_of n.
  Proof. destruct n; [rewrite prune_NG|]; reflexivity. Qed.

  Lemma prune_is_group n : is_group (prune n) = is_group n.
  Proof. destruct n; [rewrite prune_NG|]; reflexivity. Qed.

  Lemma prune_times n : node_times (prune n) = node_times n.
  Proof. destruct n; [rewrite prune_NG|]; reflexivity. Qed.

  (* everything below a doomed node is doomed *)
  Lemma doomed_desc : forall x, doomed x = true -> forall n, In n (all_nodes x) -> doomed n = true.
  Proof.
    induction x as [e|i ch IH] using node_ind'; intros D n Hn; [destruct Hn|].
    rewrite doomed_NG in D. apply andb_true_iff in D as [_ D].
    cbn [all_nodes] in Hn. apply in_flat_map in Hn as (c & Hc & Hn).
    pose proof (proj1 (forallb_forall _ _) D c Hc) as Dc.
    destruct Hn as [->|Hn]; [exact Dc|].
    exact (proj1 (Forall_forall _ _) IH c Hc Dc n Hn).
  Qed.

  (* the nodes of the pruned tree: the nodes that are not doomed, pruned, in the same order *)
  Lemma all_nodes_prune : forall x,
    all_nodes (prune x) = map prune (filter (fun n => negb (doomed n)) (all_nodes x)).
  Proof.
    induction x as [e|i ch IH] using node_ind'; [reflexivity|].
    rewrite prune_NG. cbn [all_nodes].
    change (nodes_of (prunes ch) = map prune (filter (fun n => negb (doomed n)) (nodes_of ch))).
    induction IH as [|x r Hx _ IHr]; [reflexivity|].
    rewrite prunes_cons, nodes_of_cons. cbn [filter]. destruct (doomed x) eqn:Dx; cbn [negb].
    - rewrite filter_app.
      assert (E : filter (fun n => negb (doomed n)) (all_nodes x) = []).
      { pose proof (doomed_desc x Dx) as F. revert F. generalize (all_nodes x).
        induction l as [|n l IHl]; intro F; [reflexivity|].
        cbn [filter]. rewrite (F n (or_introl eq_refl)). cbn [negb]. apply IHl.
        intros m Hm. apply F. right. exact Hm. }
      rewrite E. exact IHr.
    - rewrite nodes_of_cons, filter_app. cbn [map]. rewrite map_app, Hx, IHr. reflexivity.
  Qed.

  Lemma all_uuids_prune x :
    all_uuids (prune x) = map uuid_of (filter (fun n => negb (doomed n)) (all_nodes x)).
  Proof.
    rewrite all_uuids_nodes, all_nodes_prune, map_map. apply map_ext. intro n. apply prune_uuid.
  Qed.

  (* no doomed node: nothing to prune *)
  Lemma prune_id : forall x, (forall n, In n (all_nodes x) -> doomed n = false) -> prune x = x.
  Proof.
    induction x as [e|i ch IH] using node_ind'; intro H; [reflexivity|].
    rewrite prune_NG. f_equal. cbn [all_nodes] in H.
    change (forall n, In n (nodes_of ch) -> doomed n = false) in H.
    induction IH as [|x r Hx _ IHr]; [reflexivity|].
    rewrite prunes_cons. rewrite nodes_of_cons in H. rewrite (H x (or_introl eq_refl)). f_equal.
    - apply Hx. intros n Hn. apply H. right. apply in_or_app. left. exact Hn.
    - apply IHr. intros n Hn. apply H. right. apply in_or_app. right. exact Hn.
  Qed.

  (* taking doomed nodes out changes neither the verdicts nor the pruned tree *)
  Lemma tfilter_doomed_prune u : forall x,
    (forall m, In m (all_nodes x) -> uuid_of m = u -> doomed m = true) ->
    doomed (tfilter (kf u) x) = doomed x /\ prune (tfilter (kf u) x) = prune x.
  Proof.
    induction x as [e|i ch IH] using node_ind'; intro H; [split; reflexivity|].
    rewrite tfilter_NG, !doomed_NG, !prune_NG. cbn [all_nodes] in H.
    change (forall m, In m (nodes_of ch) -> uuid_of m = u -> doomed m = true) in H.
    assert (G : forallb doomed (tfilters (kf u) ch) = forallb doomed ch
                /\ prunes (tfilters (kf u) ch) = prunes ch).
    { induction IH as [|x r Hx _ IHr]; [split; reflexivity|].
      rewrite nodes_of_cons in H.
      assert (Hr : forall m, In m (nodes_of r) -> uuid_of m = u -> doomed m = true).
      { intros m Hm. apply H. right. apply in_or_app. right. exact Hm. }
      assert (Hxx : forall m, In m (all_nodes x) -> uuid_of m = u -> doomed m = true).
      { intros m Hm. apply H. right. apply in_or_app. left. exact Hm. }
      destruct (IHr Hr) as [F P]. destruct (Hx Hxx) as [Dx Px].
      rewrite tfilters_cons. destruct (kf u (uuid_of x)) eqn:Kx.
      - cbn [forallb]. rewrite !prunes_cons, Dx, Px, F, P. split; reflexivity.
      - apply kf_false in Kx. pose proof (H x (or_introl eq_refl) Kx) as D.
        cbn [forallb]. rewrite prunes_cons, D, F, P. split; reflexivity. }
    destruct G as [F P]. rewrite F, P. split; reflexivity.
  Qed.
End Verdict.

(* ---------- the verdict does not depend on the order (nor on the multiplicity) of the source's
   tombstones ---------- *)

Definition same_set {A} (l l' : list A) : Prop := forall x, In x l <-> In x l'.

Lemma existsb_same_set {A} (p : A -> bool) l l' : same_set l l' -> existsb p l = existsb p l'.
Proof.
  intro S. destruct (existsb p l) eqn:E; symmetry.
  - apply existsb_exists in E as (x & Hx & Px). apply existsb_exists. exists x. split; [apply S; exact Hx|exact Px].
  - destruct (existsb p l') eqn:E'; [|reflexivity].
    apply existsb_exists in E' as (x & Hx & Px).
    assert (X : existsb p l = true) by (apply existsb_exists; exists x; split; [apply S; exact Hx|exact Px]).
    congruence.
Qed.

Lemma perm_same_set {A} (l l' : list A) : Permutation l l' -> same_set l l'.
Proof. intros P x. split; intro H; [exact (Permutation_in x P H)|exact (Permutation_in x (Permutation_sym P) H)]. Qed.

Lemma tomb_same_set now deleted s1 s2 u t : same_set s1 s2 -> tomb now deleted s1 u t = tomb now deleted s2 u t.
Proof. intro P. unfold tomb, tomb_in. rewrite (existsb_same_set _ _ _ P). reflexivity. Qed.

Lemma doomed_same_set now deleted s1 s2 : same_set s1 s2 ->
  forall n, doomed now deleted s1 n = doomed now deleted s2 n.
Proof.
  intro P. induction n as [e|i ch IH] using node_ind'.
  - cbn [doomed]. apply tomb_same_set. exact P.
  - rewrite !doomed_NG, (tomb_same_set now deleted s1 s2 _ _ P). f_equal.
    induction IH as [|x r Hx _ IHr]; [reflexivity|]. cbn [forallb]. rewrite Hx, IHr. reflexivity.
Qed.

Lemma prune_same_set now deleted s1 s2 : same_set s1 s2 ->
  forall n, prune now deleted s1 n = prune now deleted s2 n.
Proof.
  intro P. induction n as [e|i ch IH] using node_ind'; [reflexivity|].
  rewrite !prune_NG. f_equal. induction IH as [|x r Hx _ IHr]; [reflexivity|].
  rewrite !prunes_cons, (doomed_same_set now deleted s1 s2 P x), Hx, IHr. reflexivity.
Qed.

Lemma prune_perm now deleted s1 s2 : Permutation s1 s2 ->
  forall n, prune now deleted s1 n = prune now deleted s2 n.
Proof. intro P. apply prune_same_set. apply perm_same_set. exact P. Qed.

(* Idempotence of Database::merge (property C13): merging the same source a second time.

   Part 1, single objects:
     [history_merge_twice]  History::merge_with applied to its own result and the same other
                            history returns that result again (warnings may repeat);
     [entry_merge_twice]    after Entry::merge produced a merged entry, the second merge_group
                            iteration for the same source entry writes nothing ([settled]);
     [group_merge_twice]    Group::merge_with applied to its own result: same group, warnings only.
   Part 2, the tree: [merge_twice_no_moves].
   WARNINGS ARE NOT IDEMPOTENT (an uncommitted source entry, two history items with one stamp and
   different content, a missing time stamp are warned about on every merge), so the statement is:
   the second merge returns the same database and its log holds no event. *)
From Coq Require Import Permutation Sorted.
From KP Require Import Bytes Outcome Tree TreeFacts History Merge MergeProofs MergeLookup
     MergeTermination MergeUuids MergeSelf MergeUnique MergeLwwEntry MergeLwwFrame MergeLww
     MergeDelTree MergeDel MergePlaceRows MergePlaceWalk MergePlaceGuard MergePlace MergeSuccess.
Local Open Scope N_scope.

(* ====================================================================================== *)
(* Part 1: single objects                                                                  *)
(* ====================================================================================== *)

(* ---------- History::merge_with ---------- *)

Lemma sorted_opt_lm_key h :
  all_lm h ->
  StronglySorted (fun a b => match t_lm (e_times a), t_lm (e_times b) with
                             | Some x, Some y => (x > y)%Z | _, _ => False end) h ->
  StronglySorted (fun a b => (lm_key a > lm_key b)%Z) h.
Proof.
  intros Al Hs. induction Hs as [|a l Hl IH Ha]; [constructor|].
  apply Forall_cons_iff in Al as [_ Al]. constructor; [apply IH; exact Al|].
  eapply Forall_impl; [|exact Ha]. intros b Hb. cbn beta in Hb. unfold lm_key.
  destruct (t_lm (e_times a)); [|contradiction]. destruct (t_lm (e_times b)); [exact Hb|contradiction].
Qed.

Lemma keys_table_of h : keys (table_of h) = map lm_key h.
Proof. unfold keys, table_of. rewrite map_map. reflexivity. Qed.

(* every item of [l] is filed already: the table is unchanged, only warnings are logged *)
Lemma hist_other_found m : forall l lg,
  all_lm l -> (forall x, In x l -> In (lm_key x) (keys m)) ->
  exists w, hist_other m lg l = Ok (m, lg ++ w) /\ is_warns w.
Proof.
  induction l as [|a r IH]; intros lg Al H; cbn [hist_other].
  - exists []. rewrite app_nil_r. split; [reflexivity|apply is_warns_nil].
  - apply Forall_cons_iff in Al as [Ha Al].
    pose proof (H a (or_introl eq_refl)) as Hk. unfold lm_key in Hk.
    destruct (t_lm (e_times a)) as [t|]; [|contradiction].
    destruct (lookup_time t m) as [ex|] eqn:Lk.
    + destruct (IH (lg ++ (if entry_diverged ex a then [Warn] else [])) Al
                  (fun x Hx => H x (or_intror Hx))) as (w & Ew & Hw).
      exists ((if entry_diverged ex a then [Warn] else []) ++ w). rewrite app_assoc. split; [exact Ew|].
      apply is_warns_app; [|exact Hw]. destruct (entry_diverged ex a); [apply is_warns_one|apply is_warns_nil].
    + exfalso. apply lookup_time_none in Lk. contradiction.
Qed.

Theorem history_merge_twice a b h lg :
  history_merge_with a b = Ok (h, lg) ->
  exists lg', history_merge_with h b = Ok (h, lg') /\ is_warns lg'.
Proof.
  intro H. apply history_merge_union in H as (Aa & Ab & _ & Hs & Hk & Hfrom & _ & _).
  assert (Ah : all_lm h).
  { apply Forall_forall. intros x Hx. destruct (Hfrom x Hx) as [Hi|Hi].
    - exact (proj1 (Forall_forall _ _) Aa x Hi).
    - exact (proj1 (Forall_forall _ _) Ab x Hi). }
  pose proof (sorted_opt_lm_key h Ah Hs) as Hs'.
  pose proof (sorted_keys_nodup h Hs') as Nd.
  unfold history_merge_with.
  rewrite (hist_self_table h [] Ah) by (cbn [keys map app]; exact Nd). cbn [bind app].
  destruct (hist_other_found (table_of h) b [] Ab) as (w & Ew & Hw).
  { intros x Hx. rewrite keys_table_of.
    pose proof (proj1 (Forall_forall _ _) Ab x Hx) as Hl. cbn beta in Hl.
    destruct (t_lm (e_times x)) as [t|] eqn:Et; [|contradiction].
    assert (Hin : In (Some t) (hist_keys h)).
    { apply Hk. right. unfold hist_keys. apply in_map_iff. exists x. auto. }
    unfold hist_keys in Hin. apply in_map_iff in Hin as (y & Ey & Hy).
    apply in_map_iff. exists y. split; [|exact Hy]. unfold lm_key. rewrite Ey, Et. reflexivity. }
  rewrite Ew. cbn [bind app]. rewrite (sort_desc_id _ (sorted_table_desc h Hs')).
  unfold table_of. rewrite map_map. cbn [snd]. rewrite map_id.
  exists w. split; [reflexivity|exact Hw].
Qed.

(* ---------- Entry::merge ---------- *)

(* what the loop body of merge_group needs in order to write nothing for the source entry [oe]
   when the destination holds [e']: not diverged, or Entry::merge answers "nothing to do", or it
   answers [e'] itself *)
Definition settled (now : Z) (e' oe : entry) : Prop :=
  entry_diverged e' oe = false
  \/ (exists elog, entry_merge now e' oe = Ok (None, elog))
  \/ (exists elog, entry_merge now e' oe = Ok (Some e', elog)).

Lemma set_lc_same t lc : t_lc t = Some lc -> set_lc t lc = t.
Proof. destruct t as [lm c r]. cbn. intros ->. reflexivity. Qed.

Lemma e_set_times_same e : e_set_times e (e_times e) = e.
Proof. destruct e; reflexivity. Qed.

Lemma keep_lc_same d m : e_times m = e_times d -> keep_lc d m = m.
Proof.
  intro E. unfold keep_lc. destruct (t_lc (e_times d)) as [lc|] eqn:El; [|reflexivity].
  rewrite set_lc_same by (rewrite E; exact El). apply e_set_times_same.
Qed.

Lemma entry_merge_keep_lc now self other :
  entry_merge now self other =
  (let '(src_lm, w1) := lm_or (e_times other) 0%Z in
   let '(dst_lm, w2) := lm_or (e_times self) now in
   if Z.eqb dst_lm src_lm then
     (if negb (entry_diverged self other) then Err EEntryTime else Ok (None, w1 ++ w2))
   else
     do (m, lg) <- (if Z.gtb dst_lm src_lm then merge_history self other else merge_history other self);
     Ok (Some (keep_lc self m), lg))%outcome.
Proof. reflexivity. Qed.

Lemma e_set_hist_times e h : e_times (e_set_hist e h) = e_times e.
Proof. destruct e; reflexivity. Qed.

Lemma e_set_hist_twice e h : e_set_hist (e_set_hist e (Some h)) (Some h) = e_set_hist e (Some h).
Proof. destruct e; reflexivity. Qed.

Lemma hist_list_set_hist e h : hist_list (e_set_hist e (Some h)) = h.
Proof. destruct e; reflexivity. Qed.

Lemma hist_warn_set_hist e h : hist_warn (e_set_hist e (Some h)) = [].
Proof. destruct e; reflexivity. Qed.

Lemma keep_lc_times_lm d m : t_lm (e_times (keep_lc d m)) = t_lm (e_times m).
Proof. unfold keep_lc. destruct (t_lc (e_times d)); [destruct m; reflexivity|reflexivity]. Qed.

Theorem entry_merge_twice now e1 oe e' elog :
  t_lm (e_times oe) <> None ->
  entry_merge now e1 oe = Ok (Some e', elog) -> settled now e' oe.
Proof.
  intros Hoe H. rewrite entry_merge_keep_lc in H.
  destruct (t_lm (e_times oe)) as [v|] eqn:Ev; [|contradiction].
  assert (Lo : lm_or (e_times oe) 0%Z = (v, [])) by (unfold lm_or; rewrite Ev; reflexivity).
  rewrite Lo in H. destruct (lm_or (e_times e1) now) as [dst w2] eqn:L1.
  destruct (Z.eqb dst v) eqn:Eq; [destruct (negb (entry_diverged e1 oe)); discriminate|].
  destruct (Z.gtb dst v) eqn:Gt.
  - (* the destination is the newer one: its history absorbs the source's *)
    rewrite merge_history_eq in H.
    destruct (history_merge_with (hist_list e1) (loser_items oe)) as [[h lg]| | |] eqn:Eh;
      cbn [bind] in H; try discriminate.
    injection H as <- _.
    rewrite keep_lc_same by apply e_set_hist_times.
    right. right. destruct (history_merge_twice _ _ _ _ Eh) as (lg' & Eh' & _).
    rewrite entry_merge_keep_lc, Lo, e_set_hist_times, L1, Eq, Gt, merge_history_eq, hist_list_set_hist, Eh'.
    cbn [bind]. rewrite e_set_hist_twice. rewrite keep_lc_same by reflexivity.
    eexists. reflexivity.
  - (* the source is the newer one: the result carries the source's stamp *)
    destruct (merge_history oe e1) as [[m lg]| | |] eqn:Em; cbn [bind] in H; try discriminate.
    injection H as <- _.
    assert (Hlm : t_lm (e_times (keep_lc e1 m)) = Some v).
    { rewrite keep_lc_times_lm. rewrite merge_history_eq in Em.
      destruct (history_merge_with _ _) as [[h lg0]| | |]; cbn [bind] in Em; try discriminate.
      injection Em as <- _. rewrite e_set_hist_times. exact Ev. }
    destruct (entry_diverged (keep_lc e1 m) oe) eqn:Dv; [|left; exact Dv].
    right. left. rewrite entry_merge_keep_lc, Lo. unfold lm_or at 1. rewrite Hlm, Z.eqb_refl, Dv.
    cbn [negb]. eexists. reflexivity.
Qed.

(* the three outcomes of one loop iteration ([lww_out], MergeLwwFrame) all leave a settled entry *)
Theorem lww_out_settled now e1 oe e' :
  t_lm (e_times oe) <> None -> lww_out now e1 oe e' -> settled now e' oe.
Proof.
  intros Hoe [[Hd ->]|[Hd [[[elog He] ->]|[elog He]]]].
  - left. exact Hd.
  - right. left. exists elog. exact He.
  - eapply entry_merge_twice; eassumption.
Qed.

Lemma settled_refl now e : settled now e e.
Proof. left. apply entry_diverged_refl. Qed.

(* ---------- Group::merge_with ---------- *)

Definition gsettled (now : Z) (g' j : ginfo) : Prop :=
  exists lg, group_merge_with now g' j = Ok (g', lg) /\ is_warns lg.

Theorem group_merge_twice now d s d' lg :
  gi_uuid d = gi_uuid s -> (t_lm (gi_times s) <> None \/ (0 <= now)%Z) ->
  group_merge_with now d s = Ok (d', lg) -> gsettled now d' s.
Proof.
  intros Hu Hn H. unfold gsettled. unfold group_merge_with in H |- *.
  pose proof (lm_or_warns (gi_times s) 0%Z) as W1.
  destruct (lm_or (gi_times s) 0%Z) as [src w1] eqn:Ls. cbn [snd] in W1.
  pose proof (lm_or_warns (gi_times d) now) as W2.
  destruct (lm_or (gi_times d) now) as [dst w2] eqn:Ld. cbn [snd] in W2.
  destruct (Z.eqb dst src) eqn:Eq.
  - destruct (group_diverged d s) eqn:Dv; [discriminate|]. injection H as <- _.
    rewrite Ld, Eq, Dv. eexists. split; [reflexivity|apply is_warns_app; assumption].
  - destruct (Z.gtb dst src) eqn:Gt.
    + injection H as <- _. rewrite Ld, Eq, Gt. eexists. split; [reflexivity|apply is_warns_app; assumption].
    + injection H as <- _. cbn [gi_times gi_uuid gi_data].
      set (t' := match t_lc (gi_times d) with Some t => set_lc (gi_times s) t | None => gi_times s end).
      assert (Hlm : t_lm t' = t_lm (gi_times s)) by (subst t'; destruct (t_lc (gi_times d)); reflexivity).
      pose proof (lm_or_warns t' now) as W3.
      destruct (lm_or t' now) as [dst' w3] eqn:Ld'. cbn [snd] in W3.
      assert (Dv : group_diverged (mkGinfo (gi_uuid d) (gi_data s) t') s = false).
      { unfold group_diverged. cbn [gi_uuid gi_data]. rewrite Hu, !N.eqb_refl. reflexivity. }
      assert (Hge : (dst' >= src)%Z).
      { unfold lm_or in Ld', Ls. rewrite Hlm in Ld'. destruct (t_lm (gi_times s)) as [v|].
        - injection Ld' as <- _. injection Ls as <- _. lia.
        - injection Ld' as <- _. injection Ls as <- _. destruct Hn as [Hn|Hn]; [contradiction|lia]. }
      destruct (Z.eqb dst' src) eqn:Eq'.
      * rewrite Dv. eexists. split; [reflexivity|apply is_warns_app; assumption].
      * assert (Gt' : Z.gtb dst' src = true).
        { apply Z.eqb_neq in Eq'. apply Z.gtb_lt. lia. }
        rewrite Gt'. eexists. split; [reflexivity|apply is_warns_app; assumption].
Qed.

Lemma gsettled_refl now j : (t_lm (gi_times j) <> None \/ (0 <= now)%Z) -> gsettled now j j.
Proof.
  intro Hn. unfold gsettled, group_merge_with.
  pose proof (lm_or_warns (gi_times j) 0%Z) as W1.
  destruct (lm_or (gi_times j) 0%Z) as [src w1] eqn:Ls. cbn [snd] in W1.
  pose proof (lm_or_warns (gi_times j) now) as W2.
  destruct (lm_or (gi_times j) now) as [dst w2] eqn:Ld. cbn [snd] in W2.
  assert (Dv : group_diverged j j = false) by (unfold group_diverged; rewrite !N.eqb_refl; reflexivity).
  assert (Hge : (dst >= src)%Z).
  { unfold lm_or in Ld, Ls. destruct (t_lm (gi_times j)) as [v|].
    - injection Ld as <- _. injection Ls as <- _. lia.
    - injection Ld as <- _. injection Ls as <- _. destruct Hn as [Hn|Hn]; [contradiction|lia]. }
  destruct (Z.eqb dst src) eqn:Eq.
  - rewrite Dv. eexists. split; [reflexivity|apply is_warns_app; assumption].
  - assert (Gt : Z.gtb dst src = true) by (apply Z.eqb_neq in Eq; apply Z.gtb_lt; lia).
    rewrite Gt. eexists. split; [reflexivity|apply is_warns_app; assumption].
Qed.

(* ====================================================================================== *)
(* Part 2: the second walk                                                                 *)
(* ====================================================================================== *)

(* a row comes from a child of the root or of a group below the root *)
Lemma rows_inv : forall root p it,
  In (p, it) (rows root) ->
  exists i c n, (root = NG i c \/ In (NG i c) (all_nodes root))
                /\ gi_uuid i = p /\ In n c /\ item_of n = it.
Proof.
  induction root as [e|i ch IH] using node_ind'; intros p it H; [destruct H|].
  rewrite rows_NG in H. apply in_crows in H as (c & Hc & [H|H]).
  - injection H as <- <-. exists i, ch, c. split; [left; reflexivity|]. auto.
  - destruct (proj1 (Forall_forall _ _) IH c Hc p it H) as (i' & c' & n & Hw & Hu & Hn & Hit).
    exists i', c', n. split; [right|auto].
    cbn [all_nodes]. apply in_flat_map. exists c. split; [exact Hc|].
    destruct Hw as [->|Hw]; [left; reflexivity|right; exact Hw].
Qed.

Section Twice.
  Variable now : Z.
  Variable del : list dobj.
  Variable ri : ginfo.
  Variable rch : list node.
  Hypothesis Nd : NoDup (uus rch).
  Hypothesis Hroot : ~ In (gi_uuid ri) (uus rch).

  Local Notation R := (NG ri rch).

  Lemma in_all_nodes_uus n : In n (all_nodes R) -> In (uuid_of n) (uus rch).
  Proof. intro H. rewrite uus_nodes. apply in_map. exact H. Qed.

  (* the children of the group at a path are exactly the nodes whose row carries its label *)
  Lemma child_at p pc it :
    at_path p rch pc -> In (last p (gi_uuid ri), it) (rows R) -> exists n, In n pc /\ item_of n = it.
  Proof.
    intros Hp Hr.
    destruct (get_uuid_at_path p R pc Nd eq_refl Hp) as [pi Eg].
    assert (Ef : find_group p R = Some (pi, pc)) by (unfold find_group; rewrite Eg; reflexivity).
    pose proof (find_group_label _ _ _ _ Ef) as Hl. cbn [uuid_of] in Hl.
    apply rows_inv in Hr as (i & c & n & Hw & Hu & Hn & Hit).
    exists n. split; [|exact Hit].
    destruct p as [|h t].
    - cbn [get_uuid] in Eg. injection Eg as <- <-. cbn [last] in Hu.
      destruct Hw as [Hw|Hw]; [injection Hw as _ <-; exact Hn|].
      exfalso. apply Hroot. rewrite <- Hu. exact (in_all_nodes_uus _ Hw).
    - assert (Hin : In (NG pi pc) (all_nodes R)) by (eapply get_uuid_nodes; [exact Eg|discriminate]).
      destruct Hw as [Hw|Hw].
      + exfalso. injection Hw as <- _. apply Hroot. rewrite Hu, <- Hl. exact (in_all_nodes_uus _ Hin).
      + assert (E : NG i c = NG pi pc).
        { apply (node_unique R); [exact Nd|exact Hw|exact Hin|cbn [uuid_of]; congruence]. }
        injection E as _ <-. exact Hn.
  Qed.

  Definition isettled (it' it : item) : Prop :=
    match it', it with
    | IE e', IE oe => settled now e' oe
    | IG g', IG j => gsettled now g' j
    | _, _ => False
    end.

  (* every listed source row has a settled counterpart in the destination, under the same label *)
  Definition covered (l : list row) : Prop :=
    forall ps it, In (ps, it) l ->
      exists it', In (ps, it') (rows R) /\ iu it' = iu it /\ isettled it' it.

  Lemma covered_incl l l' : incl l l' -> covered l' -> covered l.
  Proof. intros Hi H ps it Hin. apply H. apply Hi. exact Hin. Qed.

  Lemma crows_head p x r : In (p, item_of x) (crows p (x :: r)).
  Proof. rewrite crows_cons. apply in_or_app. left. left. reflexivity. Qed.

  Lemma crows_tail p x r : incl (crows p r) (crows p (x :: r)).
  Proof. intros y Hy. rewrite crows_cons. apply in_or_app. right. exact Hy. Qed.

  Lemma crows_sub p x r : incl (rows x) (crows p (x :: r)).
  Proof. intros y Hy. rewrite crows_cons. apply in_or_app. left. right. exact Hy. Qed.

  Lemma merge_entry_step_twice path pc in_del oe :
    at_path path rch pc -> covered [(last path (gi_uuid ri), IE oe)] ->
    merge_entry_step now del path in_del oe R = Ok (R, []).
  Proof.
    intros Hp Hc. destruct (Hc _ _ (or_introl eq_refl)) as (it' & Hr & Hu & Hs).
    destruct it' as [g'|e']; [destruct Hs|]. cbn [iu isettled] in Hu, Hs.
    destruct (child_at path pc (IE e') Hp Hr) as (n & Hn & Hit).
    destruct n as [ni nc|ne]; [discriminate|]. injection Hit as ->.
    unfold merge_entry_step. cbn [children_of].
    pose proof (fnl_db_at path rch pc (NE e') Nd Hp Hn) as Hf. cbn [uuid_of] in Hf. rewrite Hu in Hf. rewrite Hf.
    pose proof (find_entry_at ri rch Nd path pc e' Hp Hn) as He. rewrite Hu in He. rewrite He.
    cbn [unwrap bind]. rewrite optN_eqb_refl. cbn [negb andb bind].
    destruct Hs as [Hd|[[elog Hm]|[elog Hm]]].
    - rewrite Hd. reflexivity.
    - destruct (entry_diverged e' oe); [|reflexivity]. cbn [negb]. rewrite Hm. reflexivity.
    - destruct (entry_diverged e' oe); [|reflexivity]. cbn [negb]. rewrite Hm. cbn [bind].
      rewrite entry_eqb_refl. reflexivity.
  Qed.

  Lemma merge_entries_twice path pc in_del : forall l,
    at_path path rch pc -> covered (crows (last path (gi_uuid ri)) l) ->
    merge_entries now del path in_del l R = Ok (R, []).
  Proof.
    induction l as [|x r IH]; intros Hp Hc; [reflexivity|]. cbn [merge_entries].
    assert (Hr : covered (crows (last path (gi_uuid ri)) r)) by (eapply covered_incl; [apply crows_tail|exact Hc]).
    destruct x as [j c|oe]; [exact (IH Hp Hr)|].
    rewrite (merge_entry_step_twice path pc in_del oe Hp).
    - cbn [bind]. rewrite (IH Hp Hr). reflexivity.
    - intros ps it [E|[]]. apply Hc. rewrite <- E. apply (crows_head _ (NE oe)).
  Qed.

  Lemma merge_subgroup_step_twice path pc in_del j i c rec :
    at_path path rch pc -> In (NG i c) pc -> gi_uuid i = gi_uuid j ->
    (forall d, exists lg, rec (path ++ [gi_uuid j]) d R = Ok (R, lg) /\ is_warns lg) ->
    exists lg, merge_subgroup_step now del path in_del j rec R = Ok (R, lg) /\ is_warns lg.
  Proof.
    intros Hp Hi Hu Hrec. unfold merge_subgroup_step.
    destruct (deleted_contains del (gi_uuid j) || in_del); [apply Hrec|]. cbn [children_of].
    pose proof (fnl_db_at path rch pc (NG i c) Nd Hp Hi) as Hf. cbn [uuid_of] in Hf. rewrite Hu in Hf. rewrite Hf.
    rewrite path_eqb_refl. cbn [negb]. destruct (Hrec in_del) as (lg & E & W). rewrite E. cbn [bind app].
    exists lg. auto.
  Qed.

  (* a source sub-tree whose top group has its counterpart [NG i c] in the group at [loc] *)
  Definition twice_at (x : node) : Prop :=
    match x with
    | NE _ => True
    | NG j jc =>
      forall loc pc in_del i c,
        at_path loc rch pc -> In (NG i c) pc -> gi_uuid i = gi_uuid j -> gsettled now i j ->
        covered (rows x) ->
        exists lg, merge_group now del (loc ++ [gi_uuid j]) x in_del R = Ok (R, lg) /\ is_warns lg
    end.

  Lemma groups_loop_twice path pc in_del : forall l,
    at_path path rch pc -> Forall twice_at l -> covered (crows (last path (gi_uuid ri)) l) ->
    exists lg, groups_loop now del path in_del l R = Ok (R, lg) /\ is_warns lg.
  Proof.
    induction l as [|x r IH]; intros Hp Hall Hc.
    - rewrite groups_loop_nil. exists []. split; [reflexivity|apply is_warns_nil].
    - rewrite groups_loop_cons.
      assert (Hr : covered (crows (last path (gi_uuid ri)) r)) by (eapply covered_incl; [apply crows_tail|exact Hc]).
      apply Forall_cons_iff in Hall as [Hx Hall].
      destruct x as [j jc|e]; [|exact (IH Hp Hall Hr)].
      destruct (Hc _ _ (crows_head _ (NG j jc) r)) as (it' & Hrow & Hu & Hs).
      destruct it' as [g'|e']; [|destruct Hs]. cbn [iu isettled item_of] in Hu, Hs.
      destruct (child_at path pc (IG g') Hp Hrow) as (n & Hn & Hit).
      destruct n as [ni nc|ne]; [|discriminate]. injection Hit as ->.
      destruct (merge_subgroup_step_twice path pc in_del j g' nc
                  (fun p d rt => merge_group now del p (NG j jc) d rt) Hp Hn Hu) as (lg1 & E1 & W1).
      { intro d. apply (Hx path pc d g' nc Hp Hn Hu Hs). eapply covered_incl; [apply crows_sub|exact Hc]. }
      rewrite E1. cbn [bind]. destruct (IH Hp Hall Hr) as (lg2 & E2 & W2). rewrite E2. cbn [bind].
      exists (lg1 ++ lg2). split; [reflexivity|apply is_warns_app; assumption].
  Qed.

  Theorem twice_all : forall x, twice_at x.
  Proof.
    induction x as [e|j jc IH] using node_ind'; [exact I|].
    intros loc pc in_del i c Hp Hi Hu Hg Hc. rewrite merge_group_unfold.
    assert (Hin : In (gi_uuid i) (uus rch)).
    { apply (at_path_uus loc rch pc Hp). apply (in_uus_self (NG i c)). exact Hi. }
    (* the first statement *)
    rewrite merge_group_head_not_root
      by (intros _ E; cbn [uuid_of] in E; apply Hroot; rewrite <- E, <- Hu; exact Hin).
    unfold merge_group_head_below. cbn [children_of].
    pose proof (fnl_db_at loc rch pc (NG i c) Nd Hp Hi) as Hf. cbn [uuid_of] in Hf. rewrite Hu in Hf. rewrite Hf.
    pose proof (find_group_at ri rch Nd loc pc i c Hp Hi) as Efg. rewrite Hu in Efg. rewrite Efg.
    cbn [of_option bind]. destruct Hg as (lg0 & E0 & W0). rewrite E0. cbn [bind].
    rewrite (put_group_id _ R i c Efg). cbn [of_option bind].
    (* the two loops *)
    assert (Hpc : at_path (loc ++ [gi_uuid j]) rch c).
    { rewrite <- Hu. exact (at_path_snoc loc rch pc (NG i c) Hp Hi eq_refl). }
    assert (Hc' : covered (crows (last (loc ++ [gi_uuid j]) (gi_uuid ri)) jc)).
    { rewrite last_snoc, <- rows_NG. exact Hc. }
    rewrite (merge_entries_twice _ c in_del jc Hpc Hc'). cbn [bind].
    destruct (groups_loop_twice _ c in_del jc Hpc IH Hc') as (lg2 & E2 & W2). rewrite E2. cbn [bind].
    exists (lg0 ++ [] ++ lg2). split; [reflexivity|].
    apply is_warns_app; [exact W0|]. apply is_warns_app; [apply is_warns_nil|exact W2].
  Qed.

  (* the source root against the destination root *)
  Theorem merge_group_root_twice si sch :
    gi_uuid si = gi_uuid ri -> gsettled now ri si -> covered (rows (NG si sch)) ->
    exists lg, merge_group now del [] (NG si sch) false R = Ok (R, lg) /\ is_warns lg.
  Proof.
    intros Hu (lg0 & E0 & W0) Hc. rewrite merge_group_unfold.
    rewrite merge_group_head_root by exact Hu. rewrite E0. cbn [bind].
    assert (Hp : at_path [] rch rch) by reflexivity.
    assert (Hc' : covered (crows (last [] (gi_uuid ri)) sch)).
    { cbn [last]. rewrite <- Hu, <- rows_NG. exact Hc. }
    rewrite (merge_entries_twice [] rch false sch Hp Hc'). cbn [bind].
    destruct (groups_loop_twice [] rch false sch Hp) as (lg2 & E2 & W2); [|exact Hc'|].
    { apply Forall_forall. intros x _. apply twice_all. }
    rewrite E2. cbn [bind]. exists (lg0 ++ [] ++ lg2). split; [reflexivity|].
    apply is_warns_app; [exact W0|]. apply is_warns_app; [apply is_warns_nil|exact W2].
  Qed.
End Twice.

(* ====================================================================================== *)
(* Part 3: what the first merge leaves behind, and the theorem                             *)
(* ====================================================================================== *)

(* without tombstones in the destination the flag is_in_deleted_group is never switched on *)
Lemma srows_l_nil_flag : forall n f lbl f' r,
  f = false -> In (f', r) (srows_l [] f lbl n) -> f' = false.
Proof.
  induction n as [e|i ch IH] using node_ind'; intros f lbl f' r -> H; [destruct H|].
  cbn [srows_l] in H. apply in_flat_map in H as (c & Hc & H).
  assert (Ff : flag_of [] false c = false) by (destruct c; reflexivity).
  rewrite Ff in H. destruct H as [H|H]; [injection H as <- _; reflexivity|].
  exact (proj1 (Forall_forall _ _) IH c Hc false _ _ _ eq_refl H).
Qed.

(* every node present on both sides sits under the same parent on both sides
   ([parent_of], MergePlace: the UUID of the group that holds the node; children of the root carry
   the root's UUID) *)
Definition same_parents (d s : db) : Prop :=
  forall u p q, parent_of u (db_root d) = Some p -> parent_of u (db_root s) = Some q -> p = q.

(* the current version of every source entry carries a LastModificationTime *)
Definition entries_lm (s : db) : Prop :=
  forall e, In e (ents (db_root s)) -> t_lm (e_times e) <> None.

Lemma wf_lm_entries_lm s : wf_lm s -> entries_lm s.
Proof.
  intros W e He. apply ents_nodes in He. apply (W e). right.
  change (nodes_of (db_children s)) with (all_nodes (db_root s)). exact He.
Qed.

Lemma uuids_ok_children d : uuids_ok d -> NoDup (all_uuids (db_root d)).
Proof. unfold uuids_ok. intro H. apply NoDup_cons_iff in H as [_ H]. exact H. Qed.

Lemma uuids_ok_root d : uuids_ok d -> ~ In (gi_uuid (db_root_info d)) (uus (db_children d)).
Proof. unfold uuids_ok. intro H. apply NoDup_cons_iff in H as [H _]. exact H. Qed.

Theorem first_merge_covers now d s d' lg :
  uuids_ok d -> uuids_ok s -> gi_uuid (db_root_info d) = gi_uuid (db_root_info s) ->
  db_deleted d = [] -> db_deleted s = [] -> (0 <= now)%Z ->
  entries_lm s -> same_parents d s ->
  merge now d s = Ok (d', lg) ->
  covered now (db_root_info d') (db_children d') (rows (db_root s)).
Proof.
  intros Ud Us Hr Dd Ds Hn Hlm Hsp H ps it Hin.
  pose proof (uuids_ok_children d Ud) as Nd. pose proof (uuids_ok_children s Us) as Ns.
  pose proof (same_root_not_below d s Us Hr) as Hnb.
  assert (Hsrc : exists f, In (f, (ps, it)) (srows_l (db_deleted d) false (gi_uuid (db_root_info d)) (db_root s))).
  { rewrite Hr. change (gi_uuid (db_root_info s)) with (uuid_of (db_root s)).
    rewrite <- (srows_l_snd (db_deleted d) (db_root s) false) in Hin.
    apply in_map_iff in Hin as ([f r] & E & Hin). cbn [snd] in E. subst r. exists f. exact Hin. }
  destruct Hsrc as [f Hsrc].
  assert (Ff : f = false) by (rewrite Dd in Hsrc; eapply srows_l_nil_flag; [reflexivity|exact Hsrc]).
  subst f.
  pose proof (row_of_ustate (iu it) (db_root d)) as Hpre.
  destruct (merge_spec now d s d' lg Nd Us Hnb H false ps it Hsrc _ Hpre) as (post & Hrel & _ & Hust).
  assert (Hpost : ustate (iu it) (db_root d') post) by (apply Hust; rewrite Ds; reflexivity).
  clear Hust. change (NG (db_root_info d') (db_children d')) with (db_root d').
  (* the parents agree *)
  assert (Hpar : forall pd it0, row_of (iu it) (db_root d) = Some (pd, it0) -> ps = pd).
  { intros pd it0 E. rewrite E in Hpre. destruct Hpre as [Hrow Hru]. unfold ru in Hru. cbn [snd] in Hru.
    symmetry. apply (Hsp (iu it)).
    - rewrite <- Hru. apply (parent_of_in _ _ _ Nd Hrow).
    - apply (parent_of_in _ _ _ Ns Hin). }
  destruct it as [j|oe]; cbn [nrel] in Hrel.
  - (* a group *)
    unfold grel in Hrel. destruct (row_of (iu (IG j)) (db_root d)) as [[pd [gd|ed]]|] eqn:Epre.
    + destruct Hrel as (p' & g1 & g' & lg' & -> & Hm & Hcase).
      pose proof (Hpar pd _ eq_refl) as <-.
      destruct Hpre as [_ Hru]. unfold ru in Hru. cbn [snd iu] in Hru.
      destruct Hpost as [Hrow Hru']. unfold ru in Hru'. cbn [snd iu] in Hru'.
      exists (IG g'). split; [|split; [exact Hru'|]].
      * destruct Hcase as [(-> & _)|(-> & _)]; exact Hrow.
      * cbn [isettled]. apply (group_merge_twice now g1 j g' lg'); [|right; exact Hn|exact Hm].
        destruct Hcase as [(_ & -> & _)|(_ & -> & _)]; exact Hru.
    + destruct Hrel.
    + cbn [andb orb] in Hrel. subst post. destruct Hpost as [Hrow _].
      exists (IG j). split; [exact Hrow|]. split; [reflexivity|].
      cbn [isettled]. apply gsettled_refl. right. exact Hn.
  - (* an entry *)
    assert (Hoe : t_lm (e_times oe) <> None).
    { apply Hlm. apply ents_rows. exists ps. exact Hin. }
    unfold erel in Hrel. destruct (row_of (iu (IE oe)) (db_root d)) as [[pd [gd|ed]]|] eqn:Epre.
    + destruct Hrel.
    + destruct Hrel as (p' & e1 & e' & -> & Hout & Hcase).
      pose proof (Hpar pd _ eq_refl) as <-.
      destruct Hpost as [Hrow Hru']. unfold ru in Hru'. cbn [snd iu] in Hru'.
      exists (IE e'). split; [|split; [exact Hru'|]].
      * destruct Hcase as [(-> & _)|(-> & _)]; exact Hrow.
      * cbn [isettled]. eapply lww_out_settled; eassumption.
    + rewrite Dd in Hrel. cbn [deleted_contains existsb orb] in Hrel. subst post. destruct Hpost as [Hrow _].
      exists (IE oe). split; [exact Hrow|]. split; [reflexivity|].
      cbn [isettled]. apply settled_refl.
Qed.

Lemma merge_deletions_none now root del : merge_deletions now root del [] = Ok (root, del, []).
Proof. reflexivity. Qed.

(* C13 on the no-move, no-tombstone domain: the second merge of the same source returns the same
   database and reports no event *)
Theorem merge_twice_no_moves now d s d1 lg1 :
  uuids_ok d -> uuids_ok s -> gi_uuid (db_root_info d) = gi_uuid (db_root_info s) ->
  db_deleted d = [] -> db_deleted s = [] -> (0 <= now)%Z ->
  entries_lm s -> same_parents d s ->
  merge now d s = Ok (d1, lg1) ->
  exists lg2, merge now d1 s = Ok (d1, lg2) /\ is_warns lg2 /\ (forall t u, ~ In (Ev t u) lg2).
Proof.
  intros Ud Us Hr Dd Ds Hn Hlm Hsp H.
  pose proof (merge_keeps_unique now d s d1 lg1 Ud Us Hr H) as Ud1.
  pose proof (merge_keeps_root now d s d1 lg1 H) as Hr1.
  assert (Hg : gsettled now (db_root_info d1) (db_root_info s)).
  { destruct (root_group_merged now d s d1 lg1 (uuids_ok_children d Ud) Us Hr H) as (lg0 & lgr & Em & _).
    apply (group_merge_twice now (db_root_info d) (db_root_info s) _ lg0 Hr); [right; exact Hn|exact Em]. }
  pose proof (first_merge_covers now d s d1 lg1 Ud Us Hr Dd Ds Hn Hlm Hsp H) as Hc.
  destruct (merge_group_root_twice now (db_deleted d1) (db_root_info d1) (db_children d1)
              (uuids_ok_children d1 Ud1) (uuids_ok_root d1 Ud1) (db_root_info s) (db_children s))
    as (lg & E & W); [congruence|exact Hg|exact Hc|].
  assert (Hw : is_warns (lg ++ [])) by (rewrite app_nil_r; exact W).
  exists (lg ++ []). split; [|split; [exact Hw|intros t u; apply warns_no_event; exact Hw]].
  unfold merge. change (db_root s) with (NG (db_root_info s) (db_children s)).
  change (db_root d1) with (NG (db_root_info d1) (db_children d1)). rewrite E. cbn [bind].
  rewrite Ds, merge_deletions_none. cbn [bind]. destruct d1; reflexivity.
Qed.

(* ---------- the hypotheses are checkable ---------- *)

Definition same_parentsb (d s : db) : bool :=
  forallb (fun rd => forallb (fun rs => if N.eqb (ru rd) (ru rs) then N.eqb (fst rd) (fst rs) else true)
                             (rows (db_root s))) (rows (db_root d)).

Lemma parent_of_row u root p : parent_of u root = Some p -> exists it, In (p, it) (rows root) /\ iu it = u.
Proof.
  unfold parent_of, row_of. destruct (find _ (rows root)) as [[p' it]|] eqn:E; [|discriminate].
  cbn [option_map fst]. intro H. injection H as <-. apply find_some in E as [Hin Hu].
  apply N.eqb_eq in Hu. exists it. split; [exact Hin|exact Hu].
Qed.

Lemma same_parentsb_sound d s : same_parentsb d s = true -> same_parents d s.
Proof.
  intros H u p q Hp Hq. apply parent_of_row in Hp as (it1 & H1 & E1). apply parent_of_row in Hq as (it2 & H2 & E2).
  pose proof (proj1 (forallb_forall _ _) H _ H1) as F1. cbn beta in F1.
  pose proof (proj1 (forallb_forall _ _) F1 _ H2) as F2. cbn beta in F2. unfold ru in F2. cbn [fst snd] in F2.
  rewrite E1, E2, N.eqb_refl in F2. apply N.eqb_eq. exact F2.
Qed.

Definition entries_lmb (s : db) : bool := forallb has_lm (ents (db_root s)).

Lemma entries_lmb_sound s : entries_lmb s = true -> entries_lm s.
Proof.
  intros H e He. pose proof (proj1 (forallb_forall _ _) H e He) as F. unfold has_lm in F.
  destruct (t_lm (e_times e)); [discriminate|discriminate].
Qed.

Theorem merge_twice_no_movesb now d s d1 lg1 :
  uuids_okb d = true -> uuids_okb s = true ->
  N.eqb (gi_uuid (db_root_info d)) (gi_uuid (db_root_info s)) = true ->
  db_deleted d = [] -> db_deleted s = [] -> (0 <=? now)%Z = true ->
  entries_lmb s = true -> same_parentsb d s = true ->
  merge now d s = Ok (d1, lg1) ->
  exists lg2, merge now d1 s = Ok (d1, lg2) /\ is_warns lg2 /\ (forall t u, ~ In (Ev t u) lg2).
Proof.
  intros Ud Us Hr Dd Ds Hn Hlm Hsp. apply merge_twice_no_moves;
    [apply uuids_okb_spec|apply uuids_okb_spec|apply N.eqb_eq| | |apply Z.leb_le
     |apply entries_lmb_sound|apply same_parentsb_sound]; assumption.
Qed.

(* ---------- non-vacuity ---------- *)
(* Common ancestor: root/{G1/{e10}, e11}.  The destination edited e10 (time 5) and created e13
   (time 4); the source edited e10 too (time 3, not committed to its history), renamed G1 (time 6),
   created e12 in G1 (time 7), edited e11 (time 8), and created the group G2 with e14 (time 9).  Nothing was moved. *)
Definition tw_d : db := mkDb (mkGinfo 100 0 (tm 1 1))
  [gx 1 0 1 1 [NE (mkEntry 10 77 (tm 5 1) (Some [hx 10 77 5 1; hx 10 70 1 1]))];
   NE (mkEntry 11 80 (tm 1 1) (Some [hx 11 80 1 1]));
   NE (mkEntry 13 60 (tm 4 4) (Some [hx 13 60 4 4]))] [].
Definition tw_s : db := mkDb (mkGinfo 100 0 (tm 1 1))
  [gx 1 9 6 1 [NE (mkEntry 10 71 (tm 3 1) (Some [hx 10 70 1 1]));
               NE (mkEntry 12 90 (tm 7 7) (Some [hx 12 90 7 7]))];
   NE (mkEntry 11 88 (tm 8 1) (Some [hx 11 85 6 1; hx 11 80 1 1]));
   gx 2 5 9 9 [NE (mkEntry 14 50 (tm 9 9) (Some [hx 14 50 9 9]))]] [].

Definition tw_d1 : db := mkDb (mkGinfo 100 0 (tm 1 1))
  [gx 1 9 6 1 [NE (mkEntry 10 77 (tm 5 1) (Some [hx 10 77 5 1; hx 10 71 3 1; hx 10 70 1 1]));
               NE (mkEntry 12 90 (tm 7 7) (Some [hx 12 90 7 7]))];
   NE (mkEntry 11 88 (tm 8 1) (Some [hx 11 85 6 1; hx 11 80 1 1]));
   NE (mkEntry 13 60 (tm 4 4) (Some [hx 13 60 4 4]));
   gx 2 5 9 9 [NE (mkEntry 14 50 (tm 9 9) (Some [hx 14 50 9 9]))]] [].

Example tw_hypotheses :
  uuids_okb tw_d = true /\ uuids_okb tw_s = true
  /\ N.eqb (gi_uuid (db_root_info tw_d)) (gi_uuid (db_root_info tw_s)) = true
  /\ db_deleted tw_d = [] /\ db_deleted tw_s = [] /\ (0 <=? 20)%Z = true
  /\ entries_lmb tw_s = true /\ same_parentsb tw_d tw_s = true.
Proof. vm_compute. repeat split. Qed.

Example tw_first :
  merge 20 tw_d tw_s =
  Ok (tw_d1, [Ev EntryUpdated 11; Ev GroupUpdated 1; Ev EntryUpdated 10; Warn; Ev EntryCreated 12;
              Ev GroupCreated 2; Ev EntryCreated 14]).
Proof. vm_compute. reflexivity. Qed.

(* the second merge, by the theorem ... *)
Example tw_second_by_theorem :
  exists lg2, merge 20 tw_d1 tw_s = Ok (tw_d1, lg2) /\ is_warns lg2 /\ (forall t u, ~ In (Ev t u) lg2).
Proof.
  destruct tw_hypotheses as (H1 & H2 & H3 & H4 & H5 & H6 & H7 & H8).
  exact (merge_twice_no_movesb 20 tw_d tw_s tw_d1 _ H1 H2 H3 H4 H5 H6 H7 H8 tw_first).
Qed.

(* ... and computed: the same database, no event.  (The uncommitted change of e10 is looked at
   again by Entry::merge, whose warning is dropped because nothing is written.) *)
Example tw_second : merge 20 tw_d1 tw_s = Ok (tw_d1, []).
Proof. vm_compute. reflexivity. Qed.

(* ====================================================================================== *)
(* Part 4: the deletion phase a second time                                                *)
(* ====================================================================================== *)

Lemma tomb_mono now del del2 src u t :
  (forall v, deleted_contains del v = true -> deleted_contains del2 v = true) ->
  tomb now del2 src u t = true -> tomb now del src u t = true.
Proof.
  unfold tomb. intros Hm H. apply andb_true_iff in H as [H1 H2]. apply andb_true_iff. split; [|exact H2].
  apply negb_true_iff in H1. apply negb_true_iff.
  destruct (deleted_contains del u) eqn:E; [|reflexivity]. rewrite (Hm u E) in H1. discriminate.
Qed.

(* with more destination tombstones, what is left after pruning holds no doomed node *)
Lemma doomed_prune_mono now del del2 src :
  (forall v, deleted_contains del v = true -> deleted_contains del2 v = true) ->
  forall n, doomed now del2 src (prune now del src n) = true -> doomed now del src n = true.
Proof.
  intros Hm. induction n as [e|i ch IH] using node_ind'; intro H.
  - cbn [prune doomed] in *. eapply tomb_mono; eassumption.
  - rewrite prune_NG, doomed_NG in H. rewrite doomed_NG. apply andb_true_iff in H as [H1 H2].
    apply andb_true_iff. split; [eapply tomb_mono; eassumption|].
    apply forallb_forall. intros x Hx. destruct (doomed now del src x) eqn:Dx; [reflexivity|].
    exfalso. rewrite prunes_filter_map in H2.
    assert (Hin : In (prune now del src x)
                     (map (prune now del src) (filter (fun c => negb (doomed now del src c)) ch))).
    { apply in_map. apply filter_In. split; [exact Hx|rewrite Dx; reflexivity]. }
    pose proof (proj1 (forallb_forall _ _) H2 _ Hin) as D2.
    pose proof (proj1 (Forall_forall _ _) IH x Hx D2) as D1. congruence.
Qed.

(* merge_deletions applied to its own result, with the same source tombstones: nothing is
   removed, no tombstone is added, no event is logged *)
Theorem merge_deletions_twice now root del src root' del' lg :
  uuids_unique (children_of root) ->
  merge_deletions now root del src = Ok (root', del', lg) ->
  exists lg', merge_deletions now root' del' src = Ok (root', del', lg') /\ is_warns lg'.
Proof.
  intros U H.
  pose proof (merge_deletions_prune _ _ _ _ _ _ _ U H) as Ep.
  destruct (merge_deletions_recorded _ _ _ _ _ _ _ U H) as (added & Ea & _).
  assert (U' : uuids_unique (children_of root')).
  { destruct (merge_deletions_ok now root del src U) as (r & d0 & l0 & E & Ur & _).
    rewrite H in E. injection E as <- _ _. exact Ur. }
  destruct (merge_deletions_ok now root' del' src U') as (r2 & d2 & l2 & E2 & _ & _).
  pose proof (merge_deletions_prune _ _ _ _ _ _ _ U' E2) as Ep2.
  assert (Hm : forall v, deleted_contains del v = true -> deleted_contains del' v = true).
  { intros v Hv. rewrite Ea. unfold deleted_contains in *. rewrite existsb_app, Hv. reflexivity. }
  assert (Er : r2 = root').
  { rewrite Ep2. apply prune_id. intros n Hn. destruct (doomed now del' src n) eqn:D; [|reflexivity].
    exfalso. rewrite Ep, all_nodes_prune in Hn. apply in_map_iff in Hn as (n0 & <- & Hn0).
    apply filter_In in Hn0 as [_ Hnd].
    pose proof (doomed_prune_mono now del del' src Hm n0 D) as X. rewrite X in Hnd. discriminate. }
  clear Ep2. subst r2.
  destruct (merge_deletions_recorded _ _ _ _ _ _ _ U' E2) as (added2 & Ea2 & _ & Hadd & _ & Hlog).
  assert (En : added2 = []).
  { destruct added2 as [|o r]; [reflexivity|]. exfalso.
    assert (C : deleted_contains (o :: r) (d_uuid o) = true)
      by (cbn [deleted_contains existsb]; rewrite N.eqb_refl; reflexivity).
    apply Hadd in C as [C1 C2]. exact (C2 C1). }
  subst added2. rewrite app_nil_r in Ea2. subst d2. exists l2. split; [exact E2|].
  intros ev Hev. destruct (Hlog ev Hev) as [->|(o & n & [] & _)]. reflexivity.
Qed.

(* ====================================================================================== *)
(* Part 5: the second walk when entries may have been relocated                            *)
(* ====================================================================================== *)

Section Twice2.
  Variable now : Z.
  Variable del : list dobj.
  Variable ri : ginfo.
  Variable rch : list node.
  Hypothesis Nd : NoDup (uus rch).
  Hypothesis Hroot : ~ In (gi_uuid ri) (uus rch).

  Local Notation R := (NG ri rch).

  (* a row of the destination is found by find_node_location *)
  Lemma present_lookup p' it' :
    In (p', it') (rows R) ->
    exists dloc n, fnl_db (iu it') rch = Some dloc /\ get_uuid (dloc ++ [iu it']) R = Some n
                   /\ item_of n = it'.
  Proof.
    intro Hr. destruct (fnl_db (iu it') rch) as [dloc|] eqn:Ef.
    - destruct (fnl_db_row (iu it') R dloc Nd Ef) as (n & Hu & Hg & Hrow).
      exists dloc, n. split; [reflexivity|]. split; [exact Hg|].
      assert (E : (last dloc (uuid_of R), item_of n) = (p', it')).
      { apply (row_unique R); [exact Nd|exact Hrow|exact Hr|]. unfold ru. cbn [snd]. rewrite iu_item_of. exact Hu. }
      injection E as _ E. exact E.
    - exfalso. apply (fnl_db_none_notin _ _ Ef). apply (row_uuid_in R _ Hr).
  Qed.

  (* the source entry [oe], processed in the source group whose counterpart has the label [lbl]:
     the destination holds a settled version, in that group or in another one that it was moved
     to not earlier than the source moved it *)
  Definition ecovered (lbl : N) (oe : entry) : Prop :=
    exists p' e', In (p', IE e') (rows R) /\ e_uuid e' = e_uuid oe /\ settled now e' oe
                  /\ (p' = lbl \/ (lc_src (e_times oe) <= lc_dst now (e_times e'))%Z).

  Definition gcovered (lbl : N) (j : ginfo) : Prop :=
    exists g', In (lbl, IG g') (rows R) /\ gi_uuid g' = gi_uuid j /\ gsettled now g' j.

  Definition covered2 (l : list row) : Prop :=
    forall ps it, In (ps, it) l -> match it with IE oe => ecovered ps oe | IG j => gcovered ps j end.

  Lemma covered2_incl l l' : incl l l' -> covered2 l' -> covered2 l.
  Proof. intros Hi H ps it Hin. apply H. apply Hi. exact Hin. Qed.

  Lemma merge_entry_step_twice2 path pc in_del oe :
    at_path path rch pc -> ecovered (last path (gi_uuid ri)) oe ->
    exists lg, merge_entry_step now del path in_del oe R = Ok (R, lg) /\ is_warns lg.
  Proof.
    intros Hp (p' & e' & Hr & Hu & Hs & [->|Hlc]).
    - exists []. split; [|apply is_warns_nil].
      apply (merge_entry_step_twice now del ri rch Nd Hroot path pc in_del oe Hp).
      intros ps it [E|[]]. injection E as <- <-. exists (IE e'). auto.
    - destruct (present_lookup p' (IE e') Hr) as (dloc & n & Ef & Eg & Hit).
      destruct n as [ni nc|ne]; [discriminate|]. injection Hit as ->. cbn [iu] in Ef, Eg.
      rewrite Hu in Ef, Eg.
      unfold merge_entry_step. cbn [children_of]. rewrite Ef. unfold find_entry. rewrite Eg.
      cbn [unwrap bind].
      pose proof (lc_or_warns (e_times oe) 0%Z) as W1. pose proof (lc_or_warns (e_times e') now) as W2.
      unfold lc_src, lc_dst in Hlc.
      destruct (lc_or (e_times oe) 0%Z) as [src_lc w1]. destruct (lc_or (e_times e') now) as [dst_lc w2].
      cbn [fst snd] in Hlc, W1, W2.
      assert (Gt : Z.gtb src_lc dst_lc = false) by (rewrite Z.gtb_ltb; apply Z.ltb_ge; exact Hlc).
      rewrite Gt.
      assert (Hfin : forall lg1, is_warns lg1 ->
                exists lg,
                  (if negb (entry_diverged e' oe) then Ok (R, lg1)
                   else
                     do (merged, elog) <- entry_merge now e' oe;
                     match merged with
                     | None => Ok (R, lg1)
                     | Some m =>
                       if entry_eqb e' m then Ok (R, lg1)
                       else
                         do root2 <- of_option (EFindEntry (dloc ++ [e_uuid oe]))
                                               (put_entry (dloc ++ [e_uuid oe]) m R);
                         Ok (root2, lg1 ++ [Ev EntryUpdated (e_uuid m)] ++ elog)
                     end)%outcome = Ok (R, lg) /\ is_warns lg).
      { intros lg1 Hw. exists lg1. split; [|exact Hw].
        destruct Hs as [Hd|[[elog Hm]|[elog Hm]]].
        - rewrite Hd. reflexivity.
        - destruct (entry_diverged e' oe); [|reflexivity]. cbn [negb]. rewrite Hm. reflexivity.
        - destruct (entry_diverged e' oe); [|reflexivity]. cbn [negb]. rewrite Hm. cbn [bind].
          rewrite entry_eqb_refl. reflexivity. }
      destruct (negb (optN_eqb (last_opt path) (last_opt dloc)) && negb in_del); cbn [bind].
      + apply Hfin. apply is_warns_app; assumption.
      + apply Hfin. apply is_warns_nil.
  Qed.

  Lemma merge_entries_twice2 path pc in_del : forall l,
    at_path path rch pc -> covered2 (crows (last path (gi_uuid ri)) l) ->
    exists lg, merge_entries now del path in_del l R = Ok (R, lg) /\ is_warns lg.
  Proof.
    induction l as [|x r IH]; intros Hp Hc.
    - exists []. split; [reflexivity|apply is_warns_nil].
    - cbn [merge_entries].
      assert (Hr : covered2 (crows (last path (gi_uuid ri)) r))
        by (eapply covered2_incl; [apply crows_tail|exact Hc]).
      destruct x as [j c|oe]; [exact (IH Hp Hr)|].
      destruct (merge_entry_step_twice2 path pc in_del oe Hp) as (lg1 & E1 & W1).
      { exact (Hc _ _ (crows_head _ (NE oe) r)). }
      rewrite E1. cbn [bind]. destruct (IH Hp Hr) as (lg2 & E2 & W2). rewrite E2. cbn [bind].
      exists (lg1 ++ lg2). split; [reflexivity|apply is_warns_app; assumption].
  Qed.

  Definition twice_at2 (x : node) : Prop :=
    match x with
    | NE _ => True
    | NG j jc =>
      forall loc pc in_del i c,
        at_path loc rch pc -> In (NG i c) pc -> gi_uuid i = gi_uuid j -> gsettled now i j ->
        covered2 (rows x) ->
        exists lg, merge_group now del (loc ++ [gi_uuid j]) x in_del R = Ok (R, lg) /\ is_warns lg
    end.

  Lemma groups_loop_twice2 path pc in_del : forall l,
    at_path path rch pc -> Forall twice_at2 l -> covered2 (crows (last path (gi_uuid ri)) l) ->
    exists lg, groups_loop now del path in_del l R = Ok (R, lg) /\ is_warns lg.
  Proof.
    induction l as [|x r IH]; intros Hp Hall Hc.
    - rewrite groups_loop_nil. exists []. split; [reflexivity|apply is_warns_nil].
    - rewrite groups_loop_cons.
      assert (Hr : covered2 (crows (last path (gi_uuid ri)) r))
        by (eapply covered2_incl; [apply crows_tail|exact Hc]).
      apply Forall_cons_iff in Hall as [Hx Hall].
      destruct x as [j jc|e]; [|exact (IH Hp Hall Hr)].
      destruct (Hc _ _ (crows_head _ (NG j jc) r)) as (g' & Hrow & Hu & Hs).
      destruct (child_at ri rch Nd Hroot path pc (IG g') Hp Hrow) as (n & Hn & Hit).
      destruct n as [ni nc|ne]; [|discriminate]. injection Hit as ->.
      destruct (merge_subgroup_step_twice now del ri rch Nd path pc in_del j g' nc
                  (fun p d rt => merge_group now del p (NG j jc) d rt) Hp Hn Hu) as (lg1 & E1 & W1).
      { intro d. apply (Hx path pc d g' nc Hp Hn Hu Hs). eapply covered2_incl; [apply crows_sub|exact Hc]. }
      rewrite E1. cbn [bind]. destruct (IH Hp Hall Hr) as (lg2 & E2 & W2). rewrite E2. cbn [bind].
      exists (lg1 ++ lg2). split; [reflexivity|apply is_warns_app; assumption].
  Qed.

  Theorem twice_all2 : forall x, twice_at2 x.
  Proof.
    induction x as [e|j jc IH] using node_ind'; [exact I|].
    intros loc pc in_del i c Hp Hi Hu Hg Hc. rewrite merge_group_unfold.
    assert (Hin : In (gi_uuid i) (uus rch)).
    { apply (at_path_uus loc rch pc Hp). apply (in_uus_self (NG i c)). exact Hi. }
    rewrite merge_group_head_not_root
      by (intros _ E; cbn [uuid_of] in E; apply Hroot; rewrite <- E, <- Hu; exact Hin).
    unfold merge_group_head_below. cbn [children_of].
    pose proof (fnl_db_at loc rch pc (NG i c) Nd Hp Hi) as Hf. cbn [uuid_of] in Hf. rewrite Hu in Hf. rewrite Hf.
    pose proof (find_group_at ri rch Nd loc pc i c Hp Hi) as Efg. rewrite Hu in Efg. rewrite Efg.
    cbn [of_option bind]. destruct Hg as (lg0 & E0 & W0). rewrite E0. cbn [bind].
    rewrite (put_group_id _ R i c Efg). cbn [of_option bind].
    assert (Hpc : at_path (loc ++ [gi_uuid j]) rch c).
    { rewrite <- Hu. exact (at_path_snoc loc rch pc (NG i c) Hp Hi eq_refl). }
    assert (Hc' : covered2 (crows (last (loc ++ [gi_uuid j]) (gi_uuid ri)) jc)).
    { rewrite last_snoc, <- rows_NG. exact Hc. }
    destruct (merge_entries_twice2 _ c in_del jc Hpc Hc') as (lg1 & E1 & W1). rewrite E1. cbn [bind].
    destruct (groups_loop_twice2 _ c in_del jc Hpc IH Hc') as (lg2 & E2 & W2). rewrite E2. cbn [bind].
    exists (lg0 ++ lg1 ++ lg2). split; [reflexivity|].
    apply is_warns_app; [exact W0|]. apply is_warns_app; assumption.
  Qed.

  Theorem merge_group_root_twice2 si sch :
    gi_uuid si = gi_uuid ri -> gsettled now ri si -> covered2 (rows (NG si sch)) ->
    exists lg, merge_group now del [] (NG si sch) false R = Ok (R, lg) /\ is_warns lg.
  Proof.
    intros Hu (lg0 & E0 & W0) Hc. rewrite merge_group_unfold.
    rewrite merge_group_head_root by exact Hu. rewrite E0. cbn [bind].
    assert (Hp : at_path [] rch rch) by reflexivity.
    assert (Hc' : covered2 (crows (last [] (gi_uuid ri)) sch)).
    { cbn [last]. rewrite <- Hu, <- rows_NG. exact Hc. }
    destruct (merge_entries_twice2 [] rch false sch Hp Hc') as (lg1 & E1 & W1). rewrite E1. cbn [bind].
    destruct (groups_loop_twice2 [] rch false sch Hp) as (lg2 & E2 & W2); [|exact Hc'|].
    { apply Forall_forall. intros x _. apply twice_all2. }
    rewrite E2. cbn [bind]. exists (lg0 ++ lg1 ++ lg2). split; [reflexivity|].
    apply is_warns_app; [exact W0|]. apply is_warns_app; assumption.
  Qed.
End Twice2.

(* ====================================================================================== *)
(* Part 6: source tombstones and relocated entries allowed                                 *)
(* ====================================================================================== *)

(* after one loop iteration the destination's LocationChanged is still not older than the source's *)
Lemma lww_out_lc now ed oe e' :
  lww_out now ed oe e' -> (lc_src (e_times oe) <= lc_dst now (e_times ed))%Z ->
  (lc_src (e_times oe) <= lc_dst now (e_times e'))%Z.
Proof.
  intros [[_ ->]|[_ [[_ ->]|[elog He]]]] H; auto.
  assert (Hm : forall w h, w = ed \/ w = oe ->
            (lc_src (e_times oe) <= lc_dst now (e_times (merged_entry ed w h)))%Z).
  { intros w h Hw. destruct (merged_entry_fields ed w h) as (_ & _ & _ & _ & _ & Elc).
    unfold lc_src, lc_dst, lc_or in *. rewrite Elc.
    destruct (t_lc (e_times ed)) as [c|] eqn:Ec; [exact H|].
    destruct Hw as [-> | ->].
    - rewrite Ec. exact H.
    - destruct (t_lc (e_times oe)); cbn [fst] in *; [lia|exact H]. }
  rewrite entry_merge_keep_lc in He.
  destruct (lm_or (e_times oe) 0%Z) as [src w1]. destruct (lm_or (e_times ed) now) as [dst w2].
  destruct (Z.eqb dst src); [destruct (negb (entry_diverged ed oe)); discriminate|].
  destruct (Z.gtb dst src); rewrite merge_history_eq in He;
    (destruct (history_merge_with _ _) as [[h lg]| | |]; cbn [bind] in He; try discriminate;
     injection He as <- _; apply Hm; auto).
Qed.

(* every GROUP present on both sides sits under the same parent on both sides *)
Definition same_group_parents (d s : db) : Prop :=
  forall p q gi gj, In (p, IG gi) (rows (db_root d)) -> In (q, IG gj) (rows (db_root s)) ->
                    gi_uuid gi = gi_uuid gj -> p = q.

(* no tombstone of the source names a node of the source's own tree *)
Definition tombs_outside (s : db) : Prop :=
  forall u, In u (all_uuids (db_root s)) -> deleted_contains (db_deleted s) u = false.

Theorem first_merge_covers2 now d s d' lg :
  uuids_ok d -> uuids_ok s -> gi_uuid (db_root_info d) = gi_uuid (db_root_info s) ->
  db_deleted d = [] -> tombs_outside s -> (0 <= now)%Z ->
  entries_lm s -> same_group_parents d s ->
  merge now d s = Ok (d', lg) ->
  covered2 now (db_root_info d') (db_children d') (rows (db_root s)).
Proof.
  intros Ud Us Hr Dd Ds Hn Hlm Hsp H ps it Hin.
  pose proof (uuids_ok_children d Ud) as Nd. pose proof (uuids_ok_children s Us) as Ns.
  pose proof (same_root_not_below d s Us Hr) as Hnb.
  assert (Hsrc : exists f, In (f, (ps, it)) (srows_l (db_deleted d) false (gi_uuid (db_root_info d)) (db_root s))).
  { rewrite Hr. change (gi_uuid (db_root_info s)) with (uuid_of (db_root s)).
    pose proof Hin as Hin'. rewrite <- (srows_l_snd (db_deleted d) (db_root s) false) in Hin'.
    apply in_map_iff in Hin' as ([f r] & E & Hin'). cbn [snd] in E. subst r. exists f. exact Hin'. }
  destruct Hsrc as [f Hsrc].
  assert (Ff : f = false) by (rewrite Dd in Hsrc; eapply srows_l_nil_flag; [reflexivity|exact Hsrc]).
  subst f.
  pose proof (row_of_ustate (iu it) (db_root d)) as Hpre.
  destruct (merge_spec now d s d' lg Nd Us Hnb H false ps it Hsrc _ Hpre) as (post & Hrel & _ & Hust).
  assert (Hpost : ustate (iu it) (db_root d') post).
  { apply Hust. apply Ds. apply (row_uuid_in (db_root s) _ Hin). }
  clear Hust. change (NG (db_root_info d') (db_children d')) with (db_root d').
  destruct it as [j|oe]; cbn [nrel] in Hrel.
  - (* a group *)
    unfold grel in Hrel. destruct (row_of (iu (IG j)) (db_root d)) as [[pd [gd|ed]]|] eqn:Epre.
    + destruct Hrel as (p' & g1 & g' & lg' & -> & Hm & Hcase).
      destruct Hpre as [Hrowd Hru]. unfold ru in Hru. cbn [snd iu] in Hru.
      assert (Epar : pd = ps) by (apply (Hsp pd ps gd j Hrowd Hin Hru)). subst pd.
      destruct Hpost as [Hrow Hru']. unfold ru in Hru'. cbn [snd iu] in Hru'.
      exists g'. split; [|split; [exact Hru'|]].
      * destruct Hcase as [(-> & _)|(-> & _)]; exact Hrow.
      * apply (group_merge_twice now g1 j g' lg'); [|right; exact Hn|exact Hm].
        destruct Hcase as [(_ & -> & _)|(_ & -> & _)]; exact Hru.
    + destruct Hrel.
    + cbn [andb orb] in Hrel. subst post. destruct Hpost as [Hrow _].
      exists j. split; [exact Hrow|]. split; [reflexivity|]. apply gsettled_refl. right. exact Hn.
  - (* an entry *)
    assert (Hoe : t_lm (e_times oe) <> None).
    { apply Hlm. apply ents_rows. exists ps. exact Hin. }
    unfold erel in Hrel. destruct (row_of (iu (IE oe)) (db_root d)) as [[pd [gd|ed]]|] eqn:Epre.
    + destruct Hrel.
    + destruct Hrel as (p' & e1 & e' & -> & Hout & Hcase).
      destruct Hpost as [Hrow Hru']. unfold ru in Hru'. cbn [snd iu] in Hru'.
      exists p', e'. split; [exact Hrow|]. split; [exact Hru'|].
      split; [eapply lww_out_settled; eassumption|].
      destruct Hcase as [(-> & _)|(-> & -> & [F|[-> |Hlc]] & _)].
      * left. reflexivity.
      * discriminate F.
      * left. reflexivity.
      * right. eapply lww_out_lc; eassumption.
    + rewrite Dd in Hrel. cbn [deleted_contains existsb orb] in Hrel. subst post. destruct Hpost as [Hrow _].
      exists ps, oe. split; [exact Hrow|]. split; [reflexivity|]. split; [apply settled_refl|left; reflexivity].
Qed.

(* C13 with source tombstones and with entries moved on either side; groups are where they were
   on both sides, the destination has no tombstones *)
Theorem merge_twice now d s d1 lg1 :
  uuids_ok d -> uuids_ok s -> gi_uuid (db_root_info d) = gi_uuid (db_root_info s) ->
  db_deleted d = [] -> tombs_outside s -> (0 <= now)%Z ->
  entries_lm s -> same_group_parents d s ->
  merge now d s = Ok (d1, lg1) ->
  exists lg2, merge now d1 s = Ok (d1, lg2) /\ is_warns lg2 /\ (forall t u, ~ In (Ev t u) lg2).
Proof.
  intros Ud Us Hr Dd Ds Hn Hlm Hsp H.
  pose proof (merge_keeps_unique now d s d1 lg1 Ud Us Hr H) as Ud1.
  pose proof (merge_keeps_root now d s d1 lg1 H) as Hr1.
  assert (Hg : gsettled now (db_root_info d1) (db_root_info s)).
  { destruct (root_group_merged now d s d1 lg1 (uuids_ok_children d Ud) Us Hr H) as (lg0 & lgr & Em & _).
    apply (group_merge_twice now (db_root_info d) (db_root_info s) _ lg0 Hr); [right; exact Hn|exact Em]. }
  pose proof (first_merge_covers2 now d s d1 lg1 Ud Us Hr Dd Ds Hn Hlm Hsp H) as Hc.
  destruct (merge_group_root_twice2 now (db_deleted d1) (db_root_info d1) (db_children d1)
              (uuids_ok_children d1 Ud1) (uuids_ok_root d1 Ud1) (db_root_info s) (db_children s))
    as (lg & E & W); [congruence|exact Hg|exact Hc|].
  (* the deletion phase of the first merge, and again *)
  assert (Hdel : exists lgd, merge_deletions now (db_root d1) (db_deleted d1) (db_deleted s)
                             = Ok (db_root d1, db_deleted d1, lgd) /\ is_warns lgd).
  { pose proof (uuids_ok_children d Ud) as Nd. unfold merge in H.
    destruct (merge_group _ _ _ _ _ _) as [[root1 lga]| | |] eqn:E1; cbn [bind] in H; try discriminate.
    destruct (merge_deletions _ _ _ _) as [[[root2 del2] lgb]| | |] eqn:E2; cbn [bind] in H; try discriminate.
    destruct root2 as [i c|e]; [|discriminate]. injection H as <- _.
    destruct (merge_group_step _ _ _ _ _ _ _ _ E1) as [_ H1]. destruct (H1 Nd) as [Nd1 _].
    assert (U1 : uuids_unique (children_of root1)).
    { change (NoDup (uus (children_of root1))). rewrite <- all_uuids_children. exact Nd1. }
    exact (merge_deletions_twice _ _ _ _ _ _ _ U1 E2). }
  destruct Hdel as (lgd & Ed & Wd).
  assert (Hw : is_warns (lg ++ lgd)) by (apply is_warns_app; assumption).
  exists (lg ++ lgd). split; [|split; [exact Hw|intros t u; apply warns_no_event; exact Hw]].
  unfold merge. change (db_root s) with (NG (db_root_info s) (db_children s)).
  change (db_root d1) with (NG (db_root_info d1) (db_children d1)) in *. rewrite E. cbn [bind].
  rewrite Ed. cbn [bind]. destruct d1; reflexivity.
Qed.

(* ---------- checkable hypotheses, non-vacuity ---------- *)

Definition same_group_parentsb (d s : db) : bool :=
  forallb (fun rd => forallb (fun rs => match snd rd, snd rs with
                                        | IG gi, IG gj =>
                                          if N.eqb (gi_uuid gi) (gi_uuid gj) then N.eqb (fst rd) (fst rs) else true
                                        | _, _ => true
                                        end) (rows (db_root s))) (rows (db_root d)).

Lemma same_group_parentsb_sound d s : same_group_parentsb d s = true -> same_group_parents d s.
Proof.
  intros H p q gi gj H1 H2 E.
  pose proof (proj1 (forallb_forall _ _) H _ H1) as F1. cbn beta in F1.
  pose proof (proj1 (forallb_forall _ _) F1 _ H2) as F2. cbn beta iota in F2. cbn [fst snd] in F2.
  rewrite E, N.eqb_refl in F2. apply N.eqb_eq. exact F2.
Qed.

Definition tombs_outsideb (s : db) : bool :=
  forallb (fun u => negb (deleted_contains (db_deleted s) u)) (all_uuids (db_root s)).

Lemma tombs_outsideb_sound s : tombs_outsideb s = true -> tombs_outside s.
Proof.
  intros H u Hu. pose proof (proj1 (forallb_forall _ _) H u Hu) as F. cbn beta in F.
  apply negb_true_iff in F. exact F.
Qed.

Theorem merge_twiceb now d s d1 lg1 :
  uuids_okb d = true -> uuids_okb s = true ->
  N.eqb (gi_uuid (db_root_info d)) (gi_uuid (db_root_info s)) = true ->
  db_deleted d = [] -> tombs_outsideb s = true -> (0 <=? now)%Z = true ->
  entries_lmb s = true -> same_group_parentsb d s = true ->
  merge now d s = Ok (d1, lg1) ->
  exists lg2, merge now d1 s = Ok (d1, lg2) /\ is_warns lg2 /\ (forall t u, ~ In (Ev t u) lg2).
Proof.
  intros Ud Us Hr Dd Ds Hn Hlm Hsp. apply merge_twice;
    [apply uuids_okb_spec|apply uuids_okb_spec|apply N.eqb_eq| |apply tombs_outsideb_sound|apply Z.leb_le
     |apply entries_lmb_sound|apply same_group_parentsb_sound]; assumption.
Qed.

(* Common ancestor: root/{G1/{e10}, G3/{}, e11, e15, e16}.
   Destination: edited e10 (time 5), created e13, moved e16 into G3 (LocationChanged 12).
   Source: edited e10 (time 3, uncommitted), renamed G1 (time 6), created e12 in G1, edited e11 and
   moved it into G1 (time 8), deleted e15 (tombstone time 9), created G2 with e14; it also carries a
   tombstone for a node the destination never had. *)
Definition tx_d : db := mkDb (mkGinfo 100 0 (tm 1 1))
  [gx 1 0 1 1 [NE (mkEntry 10 77 (tm 5 1) (Some [hx 10 77 5 1; hx 10 70 1 1]))];
   gx 3 0 1 1 [NE (mkEntry 16 40 (tm 1 12) (Some [hx 16 40 1 1]))];
   NE (mkEntry 11 80 (tm 1 1) (Some [hx 11 80 1 1]));
   NE (mkEntry 13 60 (tm 4 4) (Some [hx 13 60 4 4]));
   NE (mkEntry 15 30 (tm 2 1) (Some [hx 15 30 2 1]))] [].
Definition tx_s : db := mkDb (mkGinfo 100 0 (tm 1 1))
  [gx 1 9 6 1 [NE (mkEntry 10 71 (tm 3 1) (Some [hx 10 70 1 1]));
               NE (mkEntry 12 90 (tm 7 7) (Some [hx 12 90 7 7]));
               NE (mkEntry 11 88 (tm 8 8) (Some [hx 11 88 8 8; hx 11 80 1 1]))];
   gx 3 0 1 1 [];
   NE (mkEntry 16 40 (tm 1 1) (Some [hx 16 40 1 1]));
   gx 2 5 9 9 [NE (mkEntry 14 50 (tm 9 9) (Some [hx 14 50 9 9]))]]
  [mkDobj 15 9; mkDobj 99 3].

Example tx_hypotheses :
  uuids_okb tx_d = true /\ uuids_okb tx_s = true
  /\ N.eqb (gi_uuid (db_root_info tx_d)) (gi_uuid (db_root_info tx_s)) = true
  /\ db_deleted tx_d = [] /\ tombs_outsideb tx_s = true /\ (0 <=? 20)%Z = true
  /\ entries_lmb tx_s = true /\ same_group_parentsb tx_d tx_s = true.
Proof. vm_compute. repeat split. Qed.

Definition tx_d1 : db := mkDb (mkGinfo 100 0 (tm 1 1))
  [gx 1 9 6 1 [NE (mkEntry 10 77 (tm 5 1) (Some [hx 10 77 5 1; hx 10 71 3 1; hx 10 70 1 1]));
               NE (mkEntry 12 90 (tm 7 7) (Some [hx 12 90 7 7]));
               NE (mkEntry 11 88 (tm 8 8) (Some [hx 11 88 8 8; hx 11 80 1 1]))];
   gx 3 0 1 1 [NE (mkEntry 16 40 (tm 1 12) (Some [hx 16 40 1 1]))];
   NE (mkEntry 13 60 (tm 4 4) (Some [hx 13 60 4 4]));
   gx 2 5 9 9 [NE (mkEntry 14 50 (tm 9 9) (Some [hx 14 50 9 9]))]]
  [mkDobj 15 9].

Example tx_first :
  merge 20 tx_d tx_s =
  Ok (tx_d1, [Ev GroupUpdated 1; Ev EntryUpdated 10; Warn; Ev EntryCreated 12;
              Ev EntryLocationUpdated 11; Ev EntryUpdated 11; Ev GroupCreated 2; Ev EntryCreated 14;
              Ev EntryDeleted 15]).
Proof. vm_compute. reflexivity. Qed.

Example tx_second_by_theorem :
  exists lg2, merge 20 tx_d1 tx_s = Ok (tx_d1, lg2) /\ is_warns lg2 /\ (forall t u, ~ In (Ev t u) lg2).
Proof.
  destruct tx_hypotheses as (H1 & H2 & H3 & H4 & H5 & H6 & H7 & H8).
  exact (merge_twiceb 20 tx_d tx_s tx_d1 _ H1 H2 H3 H4 H5 H6 H7 H8 tx_first).
Qed.

Example tx_second : merge 20 tx_d1 tx_s = Ok (tx_d1, []).
Proof. vm_compute. reflexivity. Qed.

Print Assumptions history_merge_twice.
Print Assumptions entry_merge_twice.
Print Assumptions lww_out_settled.
Print Assumptions group_merge_twice.
Print Assumptions merge_deletions_twice.
Print Assumptions merge_twice_no_moves.
Print Assumptions merge_twice_no_movesb.
Print Assumptions merge_twice.
Print Assumptions merge_twiceb.
Print Assumptions tw_second_by_theorem.
Print Assumptions tx_second_by_theorem.

(* the example, packaged for props/C13.v *)
Lemma tx_example :
  (uuids_okb tx_d = true /\ uuids_okb tx_s = true /\
   N.eqb (gi_uuid (db_root_info tx_d)) (gi_uuid (db_root_info tx_s)) = true /\
   db_deleted tx_d = [] /\ tombs_outsideb tx_s = true /\ Z.leb 0 20 = true /\
   entries_lmb tx_s = true /\ same_group_parentsb tx_d tx_s = true)
  /\ merge 20 tx_d1 tx_s = Ok (tx_d1, []).
Proof. exact (conj tx_hypotheses tx_second). Qed.

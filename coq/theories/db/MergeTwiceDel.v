(* Idempotence of Database::merge (property C13) when the DESTINATION holds tombstones already.

   MergeTwice.merge_twice asks [db_deleted d = []].  With destination tombstones the walk of
   merge_group may run with the flag is_in_deleted_group on: a source sub-group whose UUID the
   destination has tombstoned is walked, with everything below it, under the flag; under the flag
   nothing is created and nothing is relocated (nodes that the destination holds are still merged
   in place); and a source entry whose UUID the destination has tombstoned is not created even
   without the flag.  So source nodes may be absent from the result of the first merge, and the
   second walk needs, next to "present and settled", the alternative "absent, and tombstoned in the
   destination or below a source group that is".

   [merge_twice_any_tombs]  the theorem for an ARBITRARY destination tombstone list (a destination
                            tombstone may even name a node that the destination still holds);
   [merge_twice_tombs]      the same under the well-formedness [tombs_outside d] (corollary; the
                            hypothesis is not used);
   [merge_twice_tombsb]     with checkable hypotheses;
   [td_*]                   non-vacuity: a destination tombstone makes the first merge skip a source
                            group with its entries and one more source entry; the second merge is
                            computed to be a no-op. *)
From Coq Require Import Permutation Sorted.
From KP Require Import Bytes Outcome Tree TreeFacts History Merge MergeProofs MergeLookup
     MergeTermination MergeUuids MergeSelf MergeUnique MergeLwwEntry MergeLwwFrame MergeLww
     MergeDelTree MergeDel MergePlaceRows MergePlaceWalk MergePlaceGuard MergePlace MergeSuccess
     MergeTwice.
Local Open Scope N_scope.

(* ====================================================================================== *)
(* Part 1: the second walk, with the flag                                                  *)
(* ====================================================================================== *)

Section Twice3.
  Variable now : Z.
  Variable del : list dobj.
  Variable ri : ginfo.
  Variable rch : list node.
  Hypothesis Nd : NoDup (uus rch).
  Hypothesis Hroot : ~ In (gi_uuid ri) (uus rch).

  Local Notation R := (NG ri rch).

  Lemma fnl_absent u : ~ In u (uus rch) -> fnl_db u rch = None.
  Proof.
    intro Hn. destruct (fnl_db u rch) as [loc|] eqn:E; [|reflexivity].
    exfalso. apply Hn. exact (fnl_db_some_in u rch loc E).
  Qed.

  (* the destination holds a settled version of the source item, somewhere *)
  Definition present_settled (it : item) : Prop :=
    exists p' it', In (p', it') (rows R) /\ iu it' = iu it /\ isettled now it' it.

  (* what a source item walked under the flag needs: absent, or present and settled *)
  Definition dcov (it : item) : Prop := ~ In (iu it) (uus rch) \/ present_settled it.

  (* what a source row needs, by the flag under which it is walked *)
  Definition fcov (fr : bool * row) : Prop :=
    match fr with
    | (f, (ps, it)) =>
      if f then dcov it
      else match it with
           | IE oe => ecovered now ri rch ps oe
                      \/ (~ In (e_uuid oe) (uus rch) /\ deleted_contains del (e_uuid oe) = true)
           | IG j => gcovered now ri rch ps j
           end
    end.

  (* ---------- under the flag ---------- *)

  Lemma entry_step_absent path in_del oe :
    ~ In (e_uuid oe) (uus rch) -> deleted_contains del (e_uuid oe) || in_del = true ->
    merge_entry_step now del path in_del oe R = Ok (R, []).
  Proof.
    intros Hn Hf. unfold merge_entry_step. cbn [children_of]. rewrite (fnl_absent _ Hn).
    destruct (deleted_contains del (e_uuid oe)); [reflexivity|]. cbn [orb] in Hf. rewrite Hf. reflexivity.
  Qed.

  Lemma entry_step_del path oe :
    dcov (IE oe) -> merge_entry_step now del path true oe R = Ok (R, []).
  Proof.
    intros [Hn|(p' & it' & Hr & Hu & Hs)].
    - apply entry_step_absent; [exact Hn|apply orb_true_r].
    - destruct it' as [g'|e']; [destruct Hs|]. cbn [iu isettled] in Hu, Hs.
      destruct (present_lookup ri rch Nd p' (IE e') Hr) as (dloc & n & Ef & Eg & Hit).
      destruct n as [ni nc|ne]; [discriminate|]. injection Hit as ->. cbn [iu] in Ef, Eg.
      rewrite Hu in Ef, Eg.
      unfold merge_entry_step. cbn [children_of]. rewrite Ef. unfold find_entry. rewrite Eg.
      cbn [unwrap bind]. cbn [negb]. rewrite andb_false_r. cbn [bind].
      destruct Hs as [Hd|[[elog Hm]|[elog Hm]]].
      + rewrite Hd. reflexivity.
      + destruct (entry_diverged e' oe); [|reflexivity]. cbn [negb]. rewrite Hm. reflexivity.
      + destruct (entry_diverged e' oe); [|reflexivity]. cbn [negb]. rewrite Hm. cbn [bind].
        rewrite entry_eqb_refl. reflexivity.
  Qed.

  Lemma merge_entries_del path : forall l,
    (forall oe, In (NE oe) l -> dcov (IE oe)) ->
    merge_entries now del path true l R = Ok (R, []).
  Proof.
    induction l as [|x r IH]; intro H; [reflexivity|]. cbn [merge_entries].
    assert (Hr : forall oe, In (NE oe) r -> dcov (IE oe)) by (intros oe Hi; apply H; right; exact Hi).
    destruct x as [j c|oe]; [exact (IH Hr)|].
    rewrite (entry_step_del path oe (H oe (or_introl eq_refl))). cbn [bind].
    rewrite (IH Hr). reflexivity.
  Qed.

  (* merge_group's first statement for a source group that is absent, or present and settled *)
  Lemma head_dcov j :
    gi_uuid j <> gi_uuid ri -> dcov (IG j) ->
    exists lg, merge_group_head now j R = Ok (R, lg) /\ is_warns lg.
  Proof.
    intros Hne Hd.
    rewrite merge_group_head_not_root by (intros _ E; cbn [uuid_of] in E; exact (Hne E)).
    unfold merge_group_head_below. cbn [children_of].
    destruct Hd as [Hn|(p' & it' & Hr & Hu & Hs)].
    - cbn [iu] in Hn. rewrite (fnl_absent _ Hn). exists []. split; [reflexivity|apply is_warns_nil].
    - destruct it' as [g'|e']; [|destruct Hs]. cbn [iu isettled] in Hu, Hs.
      destruct (present_lookup ri rch Nd p' (IG g') Hr) as (dloc & n & Ef & Eg & Hit).
      destruct n as [ni nc|ne]; [|discriminate]. injection Hit as ->. cbn [iu] in Ef, Eg.
      rewrite Hu in Ef, Eg. rewrite Ef.
      assert (Efg : find_group (dloc ++ [gi_uuid j]) R = Some (g', nc))
        by (unfold find_group; rewrite Eg; reflexivity).
      rewrite Efg. cbn [of_option bind]. destruct Hs as (lg0 & E0 & W0). rewrite E0. cbn [bind].
      rewrite (put_group_id _ R g' nc Efg). cbn [of_option bind].
      exists lg0. split; [reflexivity|exact W0].
  Qed.

  (* a source sub-tree walked under the flag: the destination path plays no role *)
  Definition twice_del (x : node) : Prop :=
    match x with
    | NE _ => True
    | NG j jc =>
      forall path,
        ~ In (gi_uuid ri) (uu x) -> dcov (IG j) ->
        (forall ps it, In (ps, it) (rows x) -> dcov it) ->
        exists lg, merge_group now del path x true R = Ok (R, lg) /\ is_warns lg
    end.

  Lemma groups_loop_del path p : forall l,
    Forall twice_del l -> ~ In (gi_uuid ri) (uus l) ->
    (forall ps it, In (ps, it) (crows p l) -> dcov it) ->
    exists lg, groups_loop now del path true l R = Ok (R, lg) /\ is_warns lg.
  Proof.
    induction l as [|x r IH]; intros Hall Hnr Hc.
    - rewrite groups_loop_nil. exists []. split; [reflexivity|apply is_warns_nil].
    - rewrite groups_loop_cons.
      apply Forall_cons_iff in Hall as [Hx Hall].
      assert (Hnr' : ~ In (gi_uuid ri) (uus r)).
      { intro Hi. apply Hnr. change (uus (x :: r)) with (uu x ++ uus r). apply in_or_app. right. exact Hi. }
      assert (Hnx : ~ In (gi_uuid ri) (uu x)).
      { intro Hi. apply Hnr. change (uus (x :: r)) with (uu x ++ uus r). apply in_or_app. left. exact Hi. }
      assert (Hr : forall ps it, In (ps, it) (crows p r) -> dcov it).
      { intros ps it Hi. apply (Hc ps it). apply crows_tail. exact Hi. }
      destruct x as [j jc|e]; [|exact (IH Hall Hnr' Hr)].
      unfold merge_subgroup_step. rewrite orb_true_r.
      destruct (Hx (path ++ [gi_uuid j]) Hnx) as (lg1 & E1 & W1).
      { apply (Hc p). apply (crows_head p (NG j jc) r). }
      { intros ps it Hi. apply (Hc ps it). apply (crows_sub p (NG j jc) r). exact Hi. }
      rewrite E1. cbn [bind]. destruct (IH Hall Hnr' Hr) as (lg2 & E2 & W2). rewrite E2. cbn [bind].
      exists (lg1 ++ lg2). split; [reflexivity|apply is_warns_app; assumption].
  Qed.

  Theorem twice_del_all : forall x, twice_del x.
  Proof.
    induction x as [e|j jc IH] using node_ind'; [exact I|].
    intros path Hnr Hj Hc. rewrite merge_group_unfold.
    assert (Hne : gi_uuid j <> gi_uuid ri).
    { intro E. apply Hnr. left. cbn [uuid_of]. exact E. }
    assert (Hnr' : ~ In (gi_uuid ri) (uus jc)).
    { intro Hi. apply Hnr. right. exact Hi. }
    destruct (head_dcov j Hne Hj) as (lg0 & E0 & W0). rewrite E0. cbn [bind].
    rewrite rows_NG in Hc.
    rewrite (merge_entries_del path jc).
    2:{ intros oe Hi. apply (Hc (gi_uuid j)). apply in_crows. exists (NE oe). split; [exact Hi|left; reflexivity]. }
    cbn [bind].
    destruct (groups_loop_del path (gi_uuid j) jc IH Hnr' Hc) as (lg2 & E2 & W2). rewrite E2. cbn [bind].
    exists (lg0 ++ [] ++ lg2). split; [reflexivity|].
    apply is_warns_app; [exact W0|]. apply is_warns_app; [apply is_warns_nil|exact W2].
  Qed.

  (* ---------- without the flag ---------- *)

  Lemma merge_entries_off path pc : forall l,
    at_path path rch pc ->
    (forall oe, In (NE oe) l -> fcov (false, (last path (gi_uuid ri), IE oe))) ->
    exists lg, merge_entries now del path false l R = Ok (R, lg) /\ is_warns lg.
  Proof.
    induction l as [|x r IH]; intros Hp H.
    - exists []. split; [reflexivity|apply is_warns_nil].
    - cbn [merge_entries].
      assert (Hr : forall oe, In (NE oe) r -> fcov (false, (last path (gi_uuid ri), IE oe)))
        by (intros oe Hi; apply H; right; exact Hi).
      destruct x as [j c|oe]; [exact (IH Hp Hr)|].
      assert (S1 : exists lg1, merge_entry_step now del path false oe R = Ok (R, lg1) /\ is_warns lg1).
      { pose proof (H oe (or_introl eq_refl)) as Hc. cbn [fcov] in Hc. destruct Hc as [Hc|[Hn Hd]].
        - exact (merge_entry_step_twice2 now del ri rch Nd Hroot path pc false oe Hp Hc).
        - exists []. split; [|apply is_warns_nil]. apply entry_step_absent; [exact Hn|].
          rewrite Hd. reflexivity. }
      destruct S1 as (lg1 & E1 & W1). rewrite E1. cbn [bind].
      destruct (IH Hp Hr) as (lg2 & E2 & W2). rewrite E2. cbn [bind].
      exists (lg1 ++ lg2). split; [reflexivity|apply is_warns_app; assumption].
  Qed.

  (* a source sub-tree walked without the flag, whose top group has its counterpart [NG i c] in the
     group at [loc] *)
  Definition twice_at3 (x : node) : Prop :=
    match x with
    | NE _ => True
    | NG j jc =>
      forall loc pc i c,
        at_path loc rch pc -> In (NG i c) pc -> gi_uuid i = gi_uuid j -> gsettled now i j ->
        ~ In (gi_uuid ri) (all_uuids x) ->
        (forall fr, In fr (srows_l del false (gi_uuid j) x) -> fcov fr) ->
        exists lg, merge_group now del (loc ++ [gi_uuid j]) x false R = Ok (R, lg) /\ is_warns lg
    end.

  (* rows of a sub-tree walked under the flag *)
  Lemma fcov_flagged x :
    (forall fr, In fr (srows_l del true (uuid_of x) x) -> fcov fr) ->
    forall ps it, In (ps, it) (rows x) -> dcov it.
  Proof.
    intros H ps it Hin. rewrite <- (srows_l_snd del x true) in Hin.
    apply in_map_iff in Hin as ([f r] & E & Hin). cbn [snd] in E. subst r.
    pose proof (srows_l_true del x _ _ _ Hin) as ->.
    exact (H _ Hin).
  Qed.

  Lemma groups_loop_off path pc : forall l,
    at_path path rch pc -> Forall twice_at3 l -> ~ In (gi_uuid ri) (uus l) ->
    (forall c fr, In c l ->
       In fr ((flag_of del false c, (last path (gi_uuid ri), item_of c))
              :: srows_l del (flag_of del false c) (uuid_of c) c) -> fcov fr) ->
    exists lg, groups_loop now del path false l R = Ok (R, lg) /\ is_warns lg.
  Proof.
    induction l as [|x r IH]; intros Hp Hall Hnr Hc.
    - rewrite groups_loop_nil. exists []. split; [reflexivity|apply is_warns_nil].
    - rewrite groups_loop_cons.
      apply Forall_cons_iff in Hall as [Hx Hall].
      assert (Hnr' : ~ In (gi_uuid ri) (uus r)).
      { intro Hi. apply Hnr. change (uus (x :: r)) with (uu x ++ uus r). apply in_or_app. right. exact Hi. }
      assert (Hnx : ~ In (gi_uuid ri) (uu x)).
      { intro Hi. apply Hnr. change (uus (x :: r)) with (uu x ++ uus r). apply in_or_app. left. exact Hi. }
      assert (Hr : forall c fr, In c r ->
                In fr ((flag_of del false c, (last path (gi_uuid ri), item_of c))
                       :: srows_l del (flag_of del false c) (uuid_of c) c) -> fcov fr).
      { intros c fr Hi. apply Hc. right. exact Hi. }
      destruct x as [j jc|e]; [|exact (IH Hp Hall Hnr' Hr)].
      pose proof (Hc (NG j jc) _ (or_introl eq_refl) (or_introl eq_refl)) as Hhead.
      assert (Hsub : forall fr, In fr (srows_l del (flag_of del false (NG j jc)) (gi_uuid j) (NG j jc)) -> fcov fr).
      { intros fr Hi. apply (Hc (NG j jc) fr (or_introl eq_refl)). right. exact Hi. }
      cbn [flag_of item_of] in Hhead, Hsub.
      assert (S1 : exists lg1, merge_subgroup_step now del path false j
                     (fun p d rt => merge_group now del p (NG j jc) d rt) R = Ok (R, lg1) /\ is_warns lg1).
      { unfold merge_subgroup_step.
        destruct (deleted_contains del (gi_uuid j)) eqn:Dj; cbn [orb] in Hhead, Hsub |- *.
        - (* tombstoned in the destination: walked under the flag *)
          cbn [fcov] in Hhead.
          apply (twice_del_all (NG j jc) (path ++ [gi_uuid j]) Hnx Hhead).
          exact (fcov_flagged (NG j jc) Hsub).
        - cbn [fcov] in Hhead. destruct Hhead as (g' & Hrow & Hu & Hs).
          destruct (child_at ri rch Nd Hroot path pc (IG g') Hp Hrow) as (n & Hn & Hit).
          destruct n as [ni nc|ne]; [|discriminate]. injection Hit as ->.
          cbn [children_of].
          pose proof (fnl_db_at path rch pc (NG g' nc) Nd Hp Hn) as Hf. cbn [uuid_of] in Hf.
          rewrite Hu in Hf. rewrite Hf. rewrite path_eqb_refl. cbn [negb].
          destruct (Hx path pc g' nc Hp Hn Hu Hs) as (lg & E & W).
          { intro Hi. apply Hnx. right. exact Hi. }
          { exact Hsub. }
          rewrite E. cbn [bind app]. exists lg. auto. }
      destruct S1 as (lg1 & E1 & W1). rewrite E1. cbn [bind].
      destruct (IH Hp Hall Hnr' Hr) as (lg2 & E2 & W2). rewrite E2. cbn [bind].
      exists (lg1 ++ lg2). split; [reflexivity|apply is_warns_app; assumption].
  Qed.

  (* the two loops of merge_group, for the children [jc] of a source group processed at [path] *)
  Lemma loops_off path pc j jc :
    at_path path rch pc -> Forall twice_at3 jc -> ~ In (gi_uuid ri) (uus jc) ->
    (forall fr, In fr (srows_l del false (last path (gi_uuid ri)) (NG j jc)) -> fcov fr) ->
    exists lg1 lg2,
      merge_entries now del path false jc R = Ok (R, lg1) /\ is_warns lg1
      /\ groups_loop now del path false jc R = Ok (R, lg2) /\ is_warns lg2.
  Proof.
    intros Hp Hall Hnr Hc.
    assert (Hpiece : forall c fr, In c jc ->
              In fr ((flag_of del false c, (last path (gi_uuid ri), item_of c))
                     :: srows_l del (flag_of del false c) (uuid_of c) c) -> fcov fr).
    { intros c fr Hi Hfr. apply Hc. cbn [srows_l]. apply in_flat_map. exists c. split; [exact Hi|exact Hfr]. }
    destruct (merge_entries_off path pc jc Hp) as (lg1 & E1 & W1).
    { intros oe Hi. apply (Hpiece (NE oe) _ Hi). left. reflexivity. }
    destruct (groups_loop_off path pc jc Hp Hall Hnr Hpiece) as (lg2 & E2 & W2).
    exists lg1, lg2. auto.
  Qed.

  Theorem twice_all3 : forall x, twice_at3 x.
  Proof.
    induction x as [e|j jc IH] using node_ind'; [exact I|].
    intros loc pc i c Hp Hi Hu Hg Hnr Hc. rewrite merge_group_unfold.
    assert (Hin : In (gi_uuid i) (uus rch)).
    { apply (at_path_uus loc rch pc Hp). apply (in_uus_self (NG i c)). exact Hi. }
    rewrite merge_group_head_not_root
      by (intros _ E; cbn [uuid_of] in E; apply Hroot; rewrite <- E, <- Hu; exact Hin).
    unfold merge_group_head_below. cbn [children_of].
    pose proof (fnl_db_at loc rch pc (NG i c) Nd Hp Hi) as Hf. cbn [uuid_of] in Hf. rewrite Hu in Hf. rewrite Hf.
    pose proof (find_group_at ri rch Nd loc pc i c Hp Hi) as Efg. rewrite Hu in Efg. rewrite Efg.
    cbn [of_option bind]. destruct Hg as (lg0 & E0 & W0). rewrite E0. cbn [bind].
    rewrite (put_group_id _ R i c Efg). cbn [of_option bind].
    assert (Hpc : at_path (loc ++ [gi_uuid j]) rch c).
    { rewrite <- Hu. exact (at_path_snoc loc rch pc (NG i c) Hp Hi eq_refl). }
    destruct (loops_off (loc ++ [gi_uuid j]) c j jc Hpc IH) as (lg1 & lg2 & E1 & W1 & E2 & W2).
    { exact Hnr. }
    { rewrite last_snoc. exact Hc. }
    rewrite E1. cbn [bind]. rewrite E2. cbn [bind].
    exists (lg0 ++ lg1 ++ lg2). split; [reflexivity|].
    apply is_warns_app; [exact W0|]. apply is_warns_app; assumption.
  Qed.

  (* the source root against the destination root *)
  Theorem merge_group_root_twice3 si sch :
    gi_uuid si = gi_uuid ri -> gsettled now ri si -> ~ In (gi_uuid ri) (uus sch) ->
    (forall fr, In fr (srows_l del false (gi_uuid ri) (NG si sch)) -> fcov fr) ->
    exists lg, merge_group now del [] (NG si sch) false R = Ok (R, lg) /\ is_warns lg.
  Proof.
    intros Hu (lg0 & E0 & W0) Hnr Hc. rewrite merge_group_unfold.
    rewrite merge_group_head_root by exact Hu. rewrite E0. cbn [bind].
    assert (Hp : at_path [] rch rch) by reflexivity.
    destruct (loops_off [] rch si sch Hp) as (lg1 & lg2 & E1 & W1 & E2 & W2).
    { apply Forall_forall. intros x _. apply twice_all3. }
    { exact Hnr. }
    { cbn [last]. exact Hc. }
    rewrite E1. cbn [bind]. rewrite E2. cbn [bind].
    exists (lg0 ++ lg1 ++ lg2). split; [reflexivity|].
    apply is_warns_app; [exact W0|]. apply is_warns_app; assumption.
  Qed.
End Twice3.

(* ====================================================================================== *)
(* Part 2: what the first merge leaves behind                                              *)
(* ====================================================================================== *)

(* the flags depend on the tombstone list only through the UUIDs of the tree walked *)
Lemma srows_l_ext del1 del2 : forall n f lbl,
  (forall u, In u (all_uuids n) -> deleted_contains del1 u = deleted_contains del2 u) ->
  srows_l del1 f lbl n = srows_l del2 f lbl n.
Proof.
  induction n as [e|i ch IH] using node_ind'; intros f lbl H; [reflexivity|].
  cbn [srows_l]. change (all_uuids (NG i ch)) with (uus ch) in H.
  induction IH as [|x r Hx _ IHr]; [reflexivity|].
  cbn [flat_map].
  assert (Ff : flag_of del1 f x = flag_of del2 f x).
  { destruct x as [j jc|e]; cbn [flag_of]; [|reflexivity]. rewrite H; [reflexivity|].
    apply (in_uus_self (NG j jc)). left. reflexivity. }
  rewrite Ff. f_equal.
  - f_equal. apply Hx. intros u Hu. apply H. change (uus (x :: r)) with (uu x ++ uus r).
    apply in_or_app. left. right. exact Hu.
  - apply IHr. intros u Hu. apply H. change (uus (x :: r)) with (uu x ++ uus r).
    apply in_or_app. right. exact Hu.
Qed.

(* the tombstones after a merge: those of the destination, then some of the source's *)
Lemma merge_deleted_grows now d s d1 lg :
  uuids_unique (db_children d) -> merge now d s = Ok (d1, lg) ->
  exists added, db_deleted d1 = db_deleted d ++ added /\ (forall o, In o added -> In o (db_deleted s)).
Proof.
  intros Nd H. unfold merge in H.
  destruct (merge_group _ _ _ _ _ _) as [[root1 lga]| | |] eqn:E1; cbn [bind] in H; try discriminate.
  destruct (merge_deletions _ _ _ _) as [[[root2 del2] lgb]| | |] eqn:E2; cbn [bind] in H; try discriminate.
  destruct root2 as [i c|e]; [|discriminate]. injection H as <- _. cbn [db_deleted].
  change (NoDup (all_uuids (db_root d))) in Nd.
  destruct (merge_group_step _ _ _ _ _ _ _ _ E1) as [_ H1]. destruct (H1 Nd) as [Nd1 _].
  assert (U1 : uuids_unique (children_of root1)).
  { change (NoDup (uus (children_of root1))). rewrite <- all_uuids_children. exact Nd1. }
  destruct (merge_deletions_recorded _ _ _ _ _ _ _ U1 E2) as (added & Ea & _ & _ & Hadd & _).
  exists added. split; [exact Ea|]. intros o Ho. exact (proj1 (Hadd o Ho)).
Qed.

(* when no source tombstone names a source node, the second walk sees the flags of the first *)
Lemma merge_tombs_agree now d s d1 lg :
  uuids_unique (db_children d) -> tombs_outside s -> merge now d s = Ok (d1, lg) ->
  forall u, In u (all_uuids (db_root s)) ->
            deleted_contains (db_deleted d1) u = deleted_contains (db_deleted d) u.
Proof.
  intros Nd Ds H u Hu. destruct (merge_deleted_grows now d s d1 lg Nd H) as (added & Ea & Hadd).
  rewrite Ea. unfold deleted_contains. rewrite existsb_app.
  destruct (existsb (fun o => N.eqb (d_uuid o) u) added) eqn:X; [exfalso|apply orb_false_r].
  apply existsb_exists in X as (o & Ho & Eo).
  pose proof (Ds u Hu) as C. unfold deleted_contains in C.
  assert (T : existsb (fun o => N.eqb (d_uuid o) u) (db_deleted s) = true).
  { apply existsb_exists. exists o. split; [exact (Hadd o Ho)|exact Eo]. }
  congruence.
Qed.

Theorem first_merge_covers3 now d s d' lg :
  uuids_ok d -> uuids_ok s -> gi_uuid (db_root_info d) = gi_uuid (db_root_info s) ->
  tombs_outside s -> (0 <= now)%Z ->
  entries_lm s -> same_group_parents d s ->
  merge now d s = Ok (d', lg) ->
  forall fr, In fr (srows_l (db_deleted d') false (gi_uuid (db_root_info d')) (db_root s)) ->
             fcov now (db_deleted d') (db_root_info d') (db_children d') fr.
Proof.
  intros Ud Us Hr Ds Hn Hlm Hsp H [f [ps it]] Hsrc.
  pose proof (uuids_ok_children d Ud) as Nd. pose proof (uuids_ok_children s Us) as Ns.
  pose proof (same_root_not_below d s Us Hr) as Hnb.
  pose proof (merge_tombs_agree now d s d' lg Nd Ds H) as Hag.
  rewrite (merge_keeps_root now d s d' lg H) in Hsrc.
  rewrite (srows_l_ext (db_deleted d') (db_deleted d) (db_root s) false _ Hag) in Hsrc.
  assert (Hin : In (ps, it) (rows (db_root s))).
  { rewrite <- (srows_l_snd (db_deleted d) (db_root s) false).
    rewrite Hr in Hsrc. change (gi_uuid (db_root_info s)) with (uuid_of (db_root s)) in Hsrc.
    apply (in_map snd) in Hsrc. exact Hsrc. }
  pose proof (row_uuid_in (db_root s) _ Hin) as Hus. unfold ru in Hus. cbn [snd] in Hus.
  pose proof (row_of_ustate (iu it) (db_root d)) as Hpre.
  destruct (merge_spec now d s d' lg Nd Us Hnb H f ps it Hsrc _ Hpre) as (post & Hrel & _ & Hust).
  assert (Hpost : ustate (iu it) (db_root d') post) by (apply Hust; apply Ds; exact Hus).
  clear Hust.
  assert (Habs : post = None -> ~ In (iu it) (uus (db_children d'))).
  { intros ->. exact Hpost. }
  change (rows (NG (db_root_info d') (db_children d'))) with (rows (db_root d')).
  cbn [fcov]. destruct it as [j|oe]; cbn [nrel] in Hrel.
  - (* a group *)
    unfold grel in Hrel. destruct (row_of (iu (IG j)) (db_root d)) as [[pd [gd|ed]]|] eqn:Epre.
    + destruct Hrel as (p' & g1 & g' & lg' & -> & Hm & Hcase).
      destruct Hpre as [Hrowd Hru]. unfold ru in Hru. cbn [snd iu] in Hru.
      destruct Hpost as [Hrow Hru']. unfold ru in Hru'. cbn [snd iu] in Hru'.
      assert (Hs : gsettled now g' j).
      { apply (group_merge_twice now g1 j g' lg'); [|right; exact Hn|exact Hm].
        destruct Hcase as [(_ & -> & _)|(_ & -> & _)]; exact Hru. }
      destruct f.
      * right. exists p', (IG g'). split; [exact Hrow|]. split; [exact Hru'|exact Hs].
      * assert (Epar : pd = ps) by (apply (Hsp pd ps gd j Hrowd Hin Hru)). subst pd.
        exists g'. split; [|split; [exact Hru'|exact Hs]].
        destruct Hcase as [(-> & _)|(-> & _)]; exact Hrow.
    + destruct Hrel.
    + destruct f.
      * left. apply Habs. exact Hrel.
      * subst post. destruct Hpost as [Hrow _].
        exists j. split; [exact Hrow|]. split; [reflexivity|]. apply gsettled_refl. right. exact Hn.
  - (* an entry *)
    assert (Hoe : t_lm (e_times oe) <> None).
    { apply Hlm. apply ents_rows. exists ps. exact Hin. }
    unfold erel in Hrel. destruct (row_of (iu (IE oe)) (db_root d)) as [[pd [gd|ed]]|] eqn:Epre.
    + destruct Hrel.
    + destruct Hrel as (p' & e1 & e' & -> & Hout & Hcase).
      destruct Hpost as [Hrow Hru']. unfold ru in Hru'. cbn [snd iu] in Hru'.
      assert (Hs : settled now e' oe) by (eapply lww_out_settled; eassumption).
      destruct f.
      * right. exists p', (IE e'). split; [exact Hrow|]. split; [exact Hru'|exact Hs].
      * left. exists p', e'. split; [exact Hrow|]. split; [exact Hru'|]. split; [exact Hs|].
        destruct Hcase as [(-> & _)|(-> & -> & [F|[-> |Hlc]] & _)].
        -- left. reflexivity.
        -- discriminate F.
        -- left. reflexivity.
        -- right. eapply lww_out_lc; eassumption.
    + cbn [iu] in Habs, Hus. destruct f.
      * left. apply Habs. rewrite orb_true_r in Hrel. exact Hrel.
      * rewrite orb_false_r in Hrel. destruct (deleted_contains (db_deleted d) (e_uuid oe)) eqn:Dd.
        -- right. split; [apply Habs; exact Hrel|]. rewrite (Hag _ Hus). exact Dd.
        -- subst post. destruct Hpost as [Hrow _]. left.
           exists ps, oe. split; [exact Hrow|]. split; [reflexivity|]. split; [apply settled_refl|left; reflexivity].
Qed.

(* ====================================================================================== *)
(* Part 3: the theorem                                                                     *)
(* ====================================================================================== *)

(* C13 with tombstones on BOTH sides: the destination's tombstone list is arbitrary *)
Theorem merge_twice_any_tombs now d s d1 lg1 :
  uuids_ok d -> uuids_ok s -> gi_uuid (db_root_info d) = gi_uuid (db_root_info s) ->
  tombs_outside s -> (0 <= now)%Z -> entries_lm s -> same_group_parents d s ->
  merge now d s = Ok (d1, lg1) ->
  exists lg2, merge now d1 s = Ok (d1, lg2) /\ is_warns lg2 /\ (forall t u, ~ In (Ev t u) lg2).
Proof.
  intros Ud Us Hr Ds Hn Hlm Hsp H.
  pose proof (merge_keeps_unique now d s d1 lg1 Ud Us Hr H) as Ud1.
  pose proof (merge_keeps_root now d s d1 lg1 H) as Hr1.
  assert (Hg : gsettled now (db_root_info d1) (db_root_info s)).
  { destruct (root_group_merged now d s d1 lg1 (uuids_ok_children d Ud) Us Hr H) as (lg0 & lgr & Em & _).
    apply (group_merge_twice now (db_root_info d) (db_root_info s) _ lg0 Hr); [right; exact Hn|exact Em]. }
  pose proof (first_merge_covers3 now d s d1 lg1 Ud Us Hr Ds Hn Hlm Hsp H) as Hc.
  assert (Hnb : ~ In (gi_uuid (db_root_info d1)) (uus (db_children s))).
  { rewrite Hr1. exact (same_root_not_below d s Us Hr). }
  destruct (merge_group_root_twice3 now (db_deleted d1) (db_root_info d1) (db_children d1)
              (uuids_ok_children d1 Ud1) (uuids_ok_root d1 Ud1) (db_root_info s) (db_children s))
    as (lg & E & W); [congruence|exact Hg|exact Hnb|exact Hc|].
  (* the deletion phase of the first merge, and again *)
  assert (Hdel : exists lgd, merge_deletions now (db_root d1) (db_deleted d1) (db_deleted s)
                             = Ok (db_root d1, db_deleted d1, lgd) /\ is_warns lgd).
  { pose proof (uuids_ok_children d Ud) as Nd. unfold merge in H.
    destruct (merge_group _ _ _ _ _ _) as [[root1 lga]| | |] eqn:E1; cbn [bind] in H; try discriminate.
    destruct (merge_deletions _ _ _ _) as [[[root2 del2] lgb]| | |] eqn:E2; cbn [bind] in H; try discriminate.
    destruct root2 as [i c|e]; [|discriminate]. injection H as <- _.
    destruct (merge_group_step _ _ _ _ _ _ _ _ E1) as [_ H1]. destruct (H1 Nd) as [Nd1 _].
    assert (U1 : uuids_unique (children_of root1)).
    { change (NoDup (uus (children_of root1))). rewrite <- all_uuids_children. exact Nd1. }
    exact (merge_deletions_twice _ _ _ _ _ _ _ U1 E2). }
  destruct Hdel as (lgd & Ed & Wd).
  assert (Hw : is_warns (lg ++ lgd)) by (apply is_warns_app; assumption).
  exists (lg ++ lgd). split; [|split; [exact Hw|intros t u; apply warns_no_event; exact Hw]].
  unfold merge. change (db_root s) with (NG (db_root_info s) (db_children s)).
  change (db_root d1) with (NG (db_root_info d1) (db_children d1)) in *. rewrite E. cbn [bind].
  rewrite Ed. cbn [bind]. destruct d1; reflexivity.
Qed.

(* the statement asked for: destination tombstones name no node that the destination holds.
   (The hypothesis is not needed: [merge_twice_any_tombs].) *)
Theorem merge_twice_tombs now d s d1 lg1 :
  uuids_ok d -> uuids_ok s -> gi_uuid (db_root_info d) = gi_uuid (db_root_info s) ->
  tombs_outside d -> tombs_outside s -> (0 <= now)%Z -> entries_lm s -> same_group_parents d s ->
  merge now d s = Ok (d1, lg1) ->
  exists lg2, merge now d1 s = Ok (d1, lg2) /\ is_warns lg2 /\ (forall t u, ~ In (Ev t u) lg2).
Proof. intros Ud Us Hr _. apply merge_twice_any_tombs; assumption. Qed.

(* MergeTwice.merge_twice is the case [db_deleted d = []] *)
Corollary merge_twice_from_tombs now d s d1 lg1 :
  uuids_ok d -> uuids_ok s -> gi_uuid (db_root_info d) = gi_uuid (db_root_info s) ->
  db_deleted d = [] -> tombs_outside s -> (0 <= now)%Z -> entries_lm s -> same_group_parents d s ->
  merge now d s = Ok (d1, lg1) ->
  exists lg2, merge now d1 s = Ok (d1, lg2) /\ is_warns lg2 /\ (forall t u, ~ In (Ev t u) lg2).
Proof. intros Ud Us Hr _. apply merge_twice_any_tombs; assumption. Qed.

Theorem merge_twice_tombsb now d s d1 lg1 :
  uuids_okb d = true -> uuids_okb s = true ->
  N.eqb (gi_uuid (db_root_info d)) (gi_uuid (db_root_info s)) = true ->
  tombs_outsideb s = true -> (0 <=? now)%Z = true ->
  entries_lmb s = true -> same_group_parentsb d s = true ->
  merge now d s = Ok (d1, lg1) ->
  exists lg2, merge now d1 s = Ok (d1, lg2) /\ is_warns lg2 /\ (forall t u, ~ In (Ev t u) lg2).
Proof.
  intros Ud Us Hr Ds Hn Hlm Hsp. apply merge_twice_any_tombs;
    [apply uuids_okb_spec|apply uuids_okb_spec|apply N.eqb_eq|apply tombs_outsideb_sound|apply Z.leb_le
     |apply entries_lmb_sound|apply same_group_parentsb_sound]; assumption.
Qed.

(* ====================================================================================== *)
(* Part 4: non-vacuity                                                                     *)
(* ====================================================================================== *)

(* Common ancestor: root/{G1/{e10}, G5/{e50, G6/{e60}}, e11, e15, e70}.
   Destination: edited e10 (time 5), created e13, deleted G5 with e50, G6, e60 and deleted e11
   (five tombstones, time 10; none names a node it still holds).
   Source: edited e10 (time 3, uncommitted), renamed G1 (time 6), created e12 in G1, moved e70 into
   G5 and edited it (time 8), deleted e15 (tombstone time 9); it still holds G5, e50, G6, e60, e11,
   and carries a tombstone for a node the destination never had.
   First merge: G5 is tombstoned in the destination, so G5, e50, G6, e60, e70 are walked under the
   flag: G5, e50, G6, e60 are SKIPPED, e70 is updated in place and not moved; e11 is walked without
   the flag and SKIPPED because the destination has tombstoned it. *)
Definition td_d : db := mkDb (mkGinfo 100 0 (tm 1 1))
  [gx 1 0 1 1 [NE (mkEntry 10 77 (tm 5 1) (Some [hx 10 77 5 1; hx 10 70 1 1]))];
   NE (mkEntry 13 60 (tm 4 4) (Some [hx 13 60 4 4]));
   NE (mkEntry 15 30 (tm 2 1) (Some [hx 15 30 2 1]));
   NE (mkEntry 70 40 (tm 1 1) (Some [hx 70 40 1 1]))]
  [mkDobj 5 10; mkDobj 50 10; mkDobj 6 10; mkDobj 60 10; mkDobj 11 10].
Definition td_s : db := mkDb (mkGinfo 100 0 (tm 1 1))
  [gx 1 9 6 1 [NE (mkEntry 10 71 (tm 3 1) (Some [hx 10 70 1 1]));
               NE (mkEntry 12 90 (tm 7 7) (Some [hx 12 90 7 7]))];
   gx 5 0 1 1 [NE (mkEntry 50 20 (tm 1 1) (Some [hx 50 20 1 1]));
               gx 6 0 1 1 [NE (mkEntry 60 21 (tm 1 1) (Some [hx 60 21 1 1]))];
               NE (mkEntry 70 41 (tm 8 8) (Some [hx 70 41 8 8; hx 70 40 1 1]))];
   NE (mkEntry 11 80 (tm 1 1) (Some [hx 11 80 1 1]))]
  [mkDobj 15 9; mkDobj 99 3].

Definition td_d1 : db := mkDb (mkGinfo 100 0 (tm 1 1))
  [gx 1 9 6 1 [NE (mkEntry 10 77 (tm 5 1) (Some [hx 10 77 5 1; hx 10 71 3 1; hx 10 70 1 1]));
               NE (mkEntry 12 90 (tm 7 7) (Some [hx 12 90 7 7]))];
   NE (mkEntry 13 60 (tm 4 4) (Some [hx 13 60 4 4]));
   NE (mkEntry 70 41 (tm 8 1) (Some [hx 70 41 8 8; hx 70 40 1 1]))]
  [mkDobj 5 10; mkDobj 50 10; mkDobj 6 10; mkDobj 60 10; mkDobj 11 10; mkDobj 15 9].

Example td_hypotheses :
  uuids_okb td_d = true /\ uuids_okb td_s = true
  /\ N.eqb (gi_uuid (db_root_info td_d)) (gi_uuid (db_root_info td_s)) = true
  /\ tombs_outsideb td_s = true /\ (0 <=? 20)%Z = true
  /\ entries_lmb td_s = true /\ same_group_parentsb td_d td_s = true.
Proof. vm_compute. repeat split. Qed.

(* the destination's tombstones are well-formed, and there are some *)
Example td_dest_tombs : tombs_outsideb td_d = true /\ length (db_deleted td_d) = 5%nat.
Proof. vm_compute. split; reflexivity. Qed.

(* the flags of the first walk: (flag, label, UUID) for every source row *)
Example td_flags :
  map (fun x => (fst x, fst (snd x), iu (snd (snd x)))) (srows (db_deleted td_d) (db_root td_s))
  = [(false, 100, 1); (false, 1, 10); (false, 1, 12);
     (true, 100, 5); (true, 5, 50); (true, 5, 6); (true, 6, 60); (true, 5, 70);
     (false, 100, 11)].
Proof. vm_compute. reflexivity. Qed.

Example td_first :
  merge 20 td_d td_s =
  Ok (td_d1, [Ev GroupUpdated 1; Ev EntryUpdated 10; Warn; Ev EntryCreated 12; Ev EntryUpdated 70;
              Ev EntryDeleted 15]).
Proof. vm_compute. reflexivity. Qed.

(* the source nodes G5, e50, G6, e60 (under the flag) and e11 (tombstoned) were skipped *)
Example td_skipped :
  forallb (fun u => existsb (N.eqb u) (all_uuids (db_root td_s))
                    && negb (existsb (N.eqb u) (all_uuids (db_root td_d1))))
          [5; 50; 6; 60; 11] = true.
Proof. vm_compute. reflexivity. Qed.

(* the second merge, by the theorem ... *)
Example td_second_by_theorem :
  exists lg2, merge 20 td_d1 td_s = Ok (td_d1, lg2) /\ is_warns lg2 /\ (forall t u, ~ In (Ev t u) lg2).
Proof.
  destruct td_hypotheses as (H1 & H2 & H3 & H4 & H5 & H6 & H7).
  exact (merge_twice_tombsb 20 td_d td_s td_d1 _ H1 H2 H3 H4 H5 H6 H7 td_first).
Qed.

(* ... through the statement with [tombs_outside d] ... *)
Example td_second_by_merge_twice_tombs :
  exists lg2, merge 20 td_d1 td_s = Ok (td_d1, lg2) /\ is_warns lg2 /\ (forall t u, ~ In (Ev t u) lg2).
Proof.
  destruct td_hypotheses as (H1 & H2 & H3 & H4 & H5 & H6 & H7). destruct td_dest_tombs as [H0 _].
  eapply (merge_twice_tombs 20 td_d td_s td_d1);
    [apply uuids_okb_spec; exact H1|apply uuids_okb_spec; exact H2|apply N.eqb_eq; exact H3
     |apply tombs_outsideb_sound; exact H0|apply tombs_outsideb_sound; exact H4|apply Z.leb_le; exact H5
     |apply entries_lmb_sound; exact H6|apply same_group_parentsb_sound; exact H7|exact td_first].
Qed.

(* ... and computed: the same database, no event *)
Example td_second : merge 20 td_d1 td_s = Ok (td_d1, []).
Proof. vm_compute. reflexivity. Qed.

(* A destination tombstone may also name a node that the destination still holds
   ([tombs_outside d] fails): G2 is tombstoned and present; the source renamed it (time 7) and
   moved e20 into it (time 30) and created e21 there.  G2 is walked under the flag: its fields are
   merged, e20 is not moved, e21 is not created.  The second merge is a no-op again. *)
Definition te_d : db := mkDb (mkGinfo 100 0 (tm 1 1))
  [gx 2 0 1 1 []; NE (mkEntry 20 5 (tm 2 1) (Some [hx 20 5 2 1]))] [mkDobj 2 50].
Definition te_s : db := mkDb (mkGinfo 100 0 (tm 1 1))
  [gx 2 3 7 1 [NE (mkEntry 20 5 (tm 2 30) (Some [hx 20 5 2 1]));
               NE (mkEntry 21 6 (tm 9 9) (Some [hx 21 6 9 9]))]] [].
Definition te_d1 : db := mkDb (mkGinfo 100 0 (tm 1 1))
  [gx 2 3 7 1 []; NE (mkEntry 20 5 (tm 2 1) (Some [hx 20 5 2 1]))] [mkDobj 2 50].

Example te_hypotheses :
  uuids_okb te_d = true /\ uuids_okb te_s = true
  /\ N.eqb (gi_uuid (db_root_info te_d)) (gi_uuid (db_root_info te_s)) = true
  /\ tombs_outsideb te_s = true /\ (0 <=? 60)%Z = true
  /\ entries_lmb te_s = true /\ same_group_parentsb te_d te_s = true.
Proof. vm_compute. repeat split. Qed.

Example te_dest_tombs_not_outside : tombs_outsideb te_d = false.
Proof. vm_compute. reflexivity. Qed.

Example te_first : merge 60 te_d te_s = Ok (te_d1, [Ev GroupUpdated 2]).
Proof. vm_compute. reflexivity. Qed.

Example te_second_by_theorem :
  exists lg2, merge 60 te_d1 te_s = Ok (te_d1, lg2) /\ is_warns lg2 /\ (forall t u, ~ In (Ev t u) lg2).
Proof.
  destruct te_hypotheses as (H1 & H2 & H3 & H4 & H5 & H6 & H7).
  exact (merge_twice_tombsb 60 te_d te_s te_d1 _ H1 H2 H3 H4 H5 H6 H7 te_first).
Qed.

Example te_second : merge 60 te_d1 te_s = Ok (te_d1, []).
Proof. vm_compute. reflexivity. Qed.

Print Assumptions twice_del_all.
Print Assumptions twice_all3.
Print Assumptions merge_group_root_twice3.
Print Assumptions first_merge_covers3.
Print Assumptions merge_twice_any_tombs.
Print Assumptions merge_twice_tombs.
Print Assumptions merge_twice_from_tombs.
Print Assumptions merge_twice_tombsb.
Print Assumptions td_second_by_theorem.
Print Assumptions td_second_by_merge_twice_tombs.
Print Assumptions te_second_by_theorem.

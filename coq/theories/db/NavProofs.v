(* Proofs about the traversal / lookup model (C18). *)
From Coq Require Import Permutation Arith.
From KP Require Import Bytes Utf8 Nav.

(* ---------- induction principle for the nested tree ---------- *)

Section node_ind.
  Variable P : node -> Prop.
  Hypothesis HE : forall u t, P (NEntry u t).
  Hypothesis HG : forall u name c, Forall P c -> P (NGroup u name c).
  Fixpoint node_ind' (n : node) : P n :=
    match n with
    | NEntry u t => HE u t
    | NGroup u name c =>
      HG u name c ((fix go (l : list node) : Forall P l :=
                      match l with
                      | [] => Forall_nil P
                      | x :: r => Forall_cons x (node_ind' x) (go r)
                      end) c)
    end.
End node_ind.

(* ---------- sizes and heights ---------- *)

Definition sizes (l : list node) : nat := fold_right (fun x a => size x + a) 0 l.

Lemma size_group u name c : size (NGroup u name c) = S (sizes c).
Proof.
  reflexivity.
Qed.

Lemma sizes_cons x l : sizes (x :: l) = size x + sizes l.
Proof. reflexivity. Qed.

Lemma sizes_app a b : sizes (a ++ b) = sizes a + sizes b.
Proof. induction a as [|x a IH]; [reflexivity|]. cbn [app]. rewrite !sizes_cons, IH. lia. Qed.

Lemma size_children n : size n = S (sizes (children_of n)).
Proof. destruct n as [u name c|u t]; [apply size_group|reflexivity]. Qed.

Fixpoint height (n : node) : nat :=
  match n with
  | NEntry _ _ => 1
  | NGroup _ _ c => S ((fix hs (l : list node) : nat :=
                          match l with [] => 0 | x :: r => Nat.max (height x) (hs r) end) c)
  end.

Definition heights (l : list node) : nat := fold_right (fun x a => Nat.max (height x) a) 0 l.

Lemma height_children n : height n = S (heights (children_of n)).
Proof.
  destruct n as [u name c|u t]; [|reflexivity].
  reflexivity.
Qed.

Lemma heights_cons x l : heights (x :: l) = Nat.max (height x) (heights l).
Proof. reflexivity. Qed.

Lemma heights_app a b : heights (a ++ b) = Nat.max (heights a) (heights b).
Proof. induction a as [|x a IH]; [reflexivity|]. cbn [app]. rewrite !heights_cons, IH. lia. Qed.

Lemma heights_flat_children l : heights (flat_map children_of l) <= pred (heights l).
Proof.
  induction l as [|x l IH]; [cbn; lia|].
  cbn [flat_map]. rewrite heights_app, heights_cons. rewrite (height_children x). lia.
Qed.

(* ---------- the breadth-first specification ---------- *)

(* level k of a forest; level 0 is the forest itself *)
Fixpoint nth_level (k : nat) (l : list node) : list node :=
  match k with
  | O => l
  | S k' => nth_level k' (flat_map children_of l)
  end.

(* the first h levels, one after the other *)
Fixpoint bfs_levels (h : nat) (l : list node) : list node :=
  match h with
  | O => []
  | S h' => l ++ bfs_levels h' (flat_map children_of l)
  end.

Definition bfs (g : node) : list node := bfs_levels (height g) [g].

Lemma bfs_levels_nil h : bfs_levels h [] = [].
Proof. induction h as [|h IH]; cbn [bfs_levels flat_map app]; [reflexivity|exact IH]. Qed.

Lemma bfs_levels_concat h l :
  bfs_levels h l = concat (map (fun k => nth_level k l) (seq 0 h)).
Proof.
  revert l. induction h as [|h IH]; intro l; [reflexivity|].
  cbn [bfs_levels seq map concat nth_level]. f_equal.
  rewrite IH. rewrite <- seq_shift, map_map. reflexivity.
Qed.

(* The queue invariant: the queue is [a ++ b] where [a] is the rest of the current level and [b] is
   the part of the next level produced so far. *)
Lemma iter_fuel_inv :
  forall n a b h,
    sizes (a ++ b) <= n ->
    heights (b ++ flat_map children_of a) <= h ->
    iter_fuel n (a ++ b) = a ++ bfs_levels h (b ++ flat_map children_of a).
Proof.
  induction n as [|n IH]; intros a b h Hn Hh.
  - (* no fuel: the queue must be empty *)
    assert (Hab : a ++ b = []).
    { destruct (a ++ b) as [|x r] eqn:E; [reflexivity|].
      cbn [sizes fold_right] in Hn. pose proof (size_children x). lia. }
    apply app_eq_nil in Hab. destruct Hab as [-> ->]. cbn. rewrite bfs_levels_nil. reflexivity.
  - destruct a as [|x a].
    + (* current level exhausted: [b] becomes the current level *)
      cbn [app flat_map] in *. rewrite app_nil_r in *.
      destruct b as [|x b]; [cbn; rewrite bfs_levels_nil; reflexivity|].
      destruct h as [|h]; [cbn [heights fold_right] in Hh; pose proof (height_children x); lia|].
      cbn [iter_fuel bfs_levels]. cbn [app]. f_equal.
      specialize (IH b (children_of x) h).
      rewrite IH.
      * cbn [flat_map]. reflexivity.
      * cbn [sizes fold_right] in Hn. fold (sizes b) in Hn. rewrite sizes_app.
        pose proof (size_children x). lia.
      * pose proof (heights_flat_children (x :: b)) as Hc. cbn [flat_map] in Hc. lia.
    + cbn [app iter_fuel]. f_equal.
      rewrite <- app_assoc.
      specialize (IH a (b ++ children_of x) h).
      rewrite IH.
      * cbn [flat_map]. rewrite <- app_assoc. reflexivity.
      * cbn [app sizes fold_right] in Hn. fold (sizes (a ++ b)) in Hn.
        rewrite !sizes_app in *. pose proof (size_children x). lia.
      * cbn [flat_map] in Hh. rewrite <- app_assoc. exact Hh.
Qed.

Theorem iter_is_bfs g : iter g = bfs g.
Proof.
  unfold iter, bfs.
  pose proof (iter_fuel_inv (size g) [] [g] (height g)) as H.
  cbn [app flat_map] in H. apply H.
  - cbn [sizes fold_right]. lia.
  - cbn [heights fold_right]. lia.
Qed.

Corollary iter_levels g :
  iter g = concat (map (fun k => nth_level k [g]) (seq 0 (height g))).
Proof. rewrite iter_is_bfs. apply bfs_levels_concat. Qed.

(* ---------- every node exactly once ---------- *)

(* all nodes of a subtree, pre-order: an independent enumeration *)
Fixpoint all_nodes (n : node) : list node :=
  n :: match n with
       | NEntry _ _ => []
       | NGroup _ _ c => (fix go (l : list node) : list node :=
                            match l with [] => [] | x :: r => all_nodes x ++ go r end) c
       end.

Lemma all_nodes_children n : all_nodes n = n :: flat_map all_nodes (children_of n).
Proof.
  destruct n as [u name c|u t]; [|reflexivity].
  reflexivity.
Qed.

Lemma flat_all_nodes_perm l :
  Permutation (flat_map all_nodes l) (l ++ flat_map all_nodes (flat_map children_of l)).
Proof.
  induction l as [|x l IH]; cbn [flat_map app]; [constructor|].
  rewrite all_nodes_children. cbn [app]. constructor.
  rewrite flat_map_app.
  rewrite IH.
  rewrite !app_assoc. apply Permutation_app_tail. apply Permutation_app_comm.
Qed.

Lemma bfs_levels_perm h l :
  heights l <= h -> Permutation (bfs_levels h l) (flat_map all_nodes l).
Proof.
  revert l. induction h as [|h IH]; intros l Hh.
  - destruct l as [|x l]; [constructor|].
    cbn [heights fold_right] in Hh. pose proof (height_children x). lia.
  - cbn [bfs_levels]. rewrite flat_all_nodes_perm. apply Permutation_app_head.
    apply IH. pose proof (heights_flat_children l). lia.
Qed.

Theorem iter_each_once g : Permutation (iter g) (all_nodes g).
Proof.
  rewrite iter_is_bfs. unfold bfs.
  rewrite bfs_levels_perm by (cbn [heights fold_right]; lia).
  cbn [flat_map]. rewrite app_nil_r. reflexivity.
Qed.

Lemma length_all_nodes n : length (all_nodes n) = size n.
Proof.
  induction n as [u t|u name c IH] using node_ind'; [reflexivity|].
  rewrite all_nodes_children, size_group. cbn [length children_of]. f_equal.
  induction IH as [|x r Hx _ IHr]; cbn [flat_map sizes fold_right]; [reflexivity|].
  rewrite app_length, Hx. fold (sizes r). rewrite IHr. reflexivity.
Qed.

Corollary iter_length g : length (iter g) = size g.
Proof. rewrite (Permutation_length (iter_each_once g)). apply length_all_nodes. Qed.

Corollary iter_nodup g :
  NoDup (map uuid_of (all_nodes g)) -> NoDup (map uuid_of (iter g)).
Proof.
  intro H. eapply Permutation_NoDup; [|exact H].
  apply Permutation_map. symmetry. apply iter_each_once.
Qed.

(* root first *)
Lemma iter_head g : hd_error (iter g) = Some g.
Proof.
  unfold iter. pose proof (size_children g) as Hs. rewrite Hs. reflexivity.
Qed.

(* ---------- lookup: the mutable variant designates the same node ---------- *)

Lemma find_group_mut_eq head l : find_group_mut head l = find_group head l.
Proof.
  induction l as [|x r IH]; [reflexivity|].
  cbn [find_group_mut find_group]. rewrite IH. destruct x; reflexivity.
Qed.

Lemma filter_idx_hd {A} (p : A -> bool) i l :
  hd_error (filter_idx p i l) = option_map (fun k => i + k) (find_idx p l).
Proof.
  revert i. induction l as [|x r IH]; intro i; [reflexivity|].
  cbn [filter_idx find_idx]. destruct (p x).
  - cbn. f_equal. lia.
  - rewrite IH. destruct (find_idx p r); cbn; [f_equal; lia|reflexivity].
Qed.

Theorem get_mut_agrees : forall path c, get_mut_idx path c = get_idx path c.
Proof.
  induction path as [|head tail IH]; intro c; [reflexivity|].
  cbn [get_mut_idx get_idx]. destruct tail as [|h2 t2].
  - rewrite filter_idx_hd. destruct (find_idx _ c); reflexivity.
  - rewrite find_group_mut_eq. destruct (find_group head c) as [[i c']|]; [|reflexivity].
    rewrite IH. reflexivity.
Qed.

Corollary get_mut_same_node path g : get_mut path g = get path g.
Proof. unfold get_mut, get. rewrite get_mut_agrees. reflexivity. Qed.

(* ---------- lookup: first match at every step, descending only through groups ---------- *)

(* Independent, relational description of the designated index path. *)
Inductive designates : list bytes -> list node -> list nat -> Prop :=
| D_nil c : designates [] c []
| D_last h c i n :
    nth_error c i = Some n -> matches n h = true ->
    (forall j m, j < i -> nth_error c j = Some m -> matches m h = false) ->
    designates [h] c [i]
| D_step h h2 t c i n p :
    nth_error c i = Some n -> is_group n = true -> matches n h = true ->
    (forall j m, j < i -> nth_error c j = Some m -> is_group m && matches m h = false) ->
    designates (h2 :: t) (children_of n) p ->
    designates (h :: h2 :: t) c (i :: p).

Lemma find_idx_spec {A} (p : A -> bool) l i :
  find_idx p l = Some i <->
  (exists x, nth_error l i = Some x /\ p x = true) /\
  (forall j y, j < i -> nth_error l j = Some y -> p y = false).
Proof.
  revert i. induction l as [|x r IH]; intro i; cbn [find_idx].
  - split; [discriminate|]. intros [[y [H _]] _]. destruct i; discriminate.
  - destruct (p x) eqn:Px.
    + split.
      * intro H. injection H as <-. split; [exists x; auto|]. intros j y Hj. lia.
      * intros [[y [Hy Py]] Hmin]. destruct i as [|i]; [reflexivity|].
        specialize (Hmin 0 x ltac:(lia) eq_refl). congruence.
    + split.
      * intro H. destruct i as [|i]; [destruct (find_idx p r); discriminate|].
        assert (F : find_idx p r = Some i) by (destruct (find_idx p r); cbn in H; congruence).
        apply IH in F as [[y [Hy Py]] Hmin]. split; [exists y; auto|].
        intros [|j] z Hj Hz; cbn in Hz; [congruence|]. apply (Hmin j z); [lia|exact Hz].
      * intros [[y [Hy Py]] Hmin]. destruct i as [|i]; [cbn in Hy; congruence|].
        assert (F : find_idx p r = Some i).
        { apply IH. split; [exists y; auto|]. intros j z Hj Hz. apply (Hmin (S j) z); [lia|exact Hz]. }
        rewrite F. reflexivity.
Qed.

Lemma find_group_as_find_idx head l :
  find_group head l =
  match find_idx (fun n => is_group n && matches n head) l with
  | Some i => match nth_error l i with Some n => Some (i, children_of n) | None => None end
  | None => None
  end.
Proof.
  induction l as [|x r IH]; [reflexivity|].
  cbn [find_group find_idx]. destruct x as [u name c|u t]; cbn [is_group andb].
  - destruct (matches (NGroup u name c) head); [reflexivity|].
    rewrite IH. destruct (find_idx _ r) as [i|]; cbn [option_map]; [|reflexivity].
    cbn [nth_error]. destruct (nth_error r i); reflexivity.
  - rewrite IH. destruct (find_idx _ r) as [i|]; cbn [option_map]; [|reflexivity].
    cbn [nth_error]. destruct (nth_error r i); reflexivity.
Qed.

Lemma get_idx_step h h2 t c :
  get_idx (h :: h2 :: t) c =
  match find_group h c with
  | Some (i, c') => option_map (cons i) (get_idx (h2 :: t) c')
  | None => None
  end.
Proof. reflexivity. Qed.

Theorem get_sound : forall path c p, get_idx path c = Some p -> designates path c p.
Proof.
  induction path as [|head tail IH]; intros c p H.
  - injection H as <-. constructor.
  - cbn [get_idx] in H. destruct tail as [|h2 t2].
    + destruct (find_idx _ c) as [i|] eqn:F; [|discriminate]. injection H as <-.
      apply find_idx_spec in F as [[n [Hn Mn]] Hmin]. econstructor; eauto.
    + rewrite find_group_as_find_idx in H.
      destruct (find_idx _ c) as [i|] eqn:F; [|discriminate].
      destruct (nth_error c i) as [n|] eqn:Hn; [|discriminate].
      destruct (get_idx (h2 :: t2) (children_of n)) as [q|] eqn:G; [|discriminate].
      injection H as <-.
      apply find_idx_spec in F as [[n' [Hn' Mn]] Hmin].
      assert (n' = n) by congruence. subst n'. apply andb_prop in Mn as [Gn Mn].
      eapply D_step; eauto.
Qed.

Lemma designates_functional : forall path c p q,
  designates path c p -> designates path c q -> p = q.
Proof.
  intros path c p q Hp. revert q. induction Hp as [c|h c i n Hn Mn Hmin|h h2 t c i n p Hn Gn Mn Hmin Hp IH];
    intros q Hq; inversion Hq; subst; try reflexivity.
  - match goal with
    | Hn2 : nth_error c ?k = Some ?m, Mm : matches ?m h = true, Hmin2 : forall _ _, _ < ?k -> _ |- _ =>
      destruct (Nat.lt_trichotomy i k) as [L|[E|L]];
        [ specialize (Hmin2 i n L Hn); congruence
        | subst; reflexivity
        | specialize (Hmin k m L Hn2); congruence ]
    end.
  - match goal with
    | Hn2 : nth_error c ?k = Some ?m, Gm : is_group ?m = true, Mm : matches ?m h = true,
      Hmin2 : forall _ _, _ < ?k -> _, Hq' : designates (h2 :: t) (children_of ?m) ?q' |- _ =>
      destruct (Nat.lt_trichotomy i k) as [L|[E|L]];
        [ specialize (Hmin2 i n L Hn); rewrite Gn, Mn in Hmin2; discriminate
        | subst; assert (m = n) by congruence; subst; f_equal; apply IH; exact Hq'
        | specialize (Hmin k m L Hn2); rewrite Gm, Mm in Hmin; discriminate ]
    end.
Qed.

Theorem get_complete : forall path c p, designates path c p -> get_idx path c = Some p.
Proof.
  intros path c p H. induction H as [c|h c i n Hn Mn Hmin|h h2 t c i n p Hn Gn Mn Hmin Hp IH].
  - reflexivity.
  - cbn [get_idx].
    assert (F : find_idx (fun n => matches n h) c = Some i).
    { apply find_idx_spec. split; [exists n; auto|exact Hmin]. }
    rewrite F. reflexivity.
  - rewrite get_idx_step, find_group_as_find_idx.
    assert (F : find_idx (fun n => is_group n && matches n h) c = Some i).
    { apply find_idx_spec. split; [exists n; rewrite Gn, Mn; auto|exact Hmin]. }
    rewrite F, Hn, IH. reflexivity.
Qed.

Theorem get_spec path c p : get_idx path c = Some p <-> designates path c p.
Proof. split; [apply get_sound|apply get_complete]. Qed.

Corollary get_none path c : get_idx path c = None <-> (forall p, ~ designates path c p).
Proof.
  split.
  - intros H p Hp. apply get_complete in Hp. congruence.
  - intro H. destruct (get_idx path c) as [p|] eqn:G; [|reflexivity].
    exfalso. apply (H p). apply get_sound. exact G.
Qed.

Lemma get_empty_path g : get [] g = Some g.
Proof. reflexivity. Qed.

(* the designated path really is in the tree *)
Lemma designates_node_at : forall path c p u name,
  designates path c p -> exists n, node_at (NGroup u name c) p = Some n.
Proof.
  intros path c p u name H. revert u name.
  induction H as [c|h c i n Hn Mn Hmin|h h2 t c i n p Hn Gn Mn Hmin Hp IH]; intros u name.
  - eexists; reflexivity.
  - exists n. cbn [node_at children_of]. rewrite Hn. reflexivity.
  - cbn [node_at children_of]. rewrite Hn.
    destruct n as [u' name' c'|]; [|discriminate]. apply IH.
Qed.

(* ---------- typed child listings partition the children, in order ---------- *)

Fixpoint unfilter {A} (flags : list bool) (ts fs : list A) : list A :=
  match flags with
  | [] => []
  | true :: r => match ts with x :: ts' => x :: unfilter r ts' fs | [] => [] end
  | false :: r => match fs with x :: fs' => x :: unfilter r ts fs' | [] => [] end
  end.

Lemma unfilter_filter {A} (p : A -> bool) l :
  unfilter (map p l) (filter p l) (filter (fun x => negb (p x)) l) = l.
Proof.
  induction l as [|x r IH]; [reflexivity|].
  cbn [map filter]. destruct (p x); cbn [negb unfilter]; rewrite IH; reflexivity.
Qed.

Theorem entries_groups_partition g :
  unfilter (map is_group (children_of g)) (groups g) (entries g) = children_of g
  /\ Forall (fun n => is_group n = true) (groups g)
  /\ Forall (fun n => is_group n = false) (entries g)
  /\ length (groups g) + length (entries g) = length (children_of g).
Proof.
  unfold groups, entries. split; [apply unfilter_filter|]. split; [|split].
  - apply Forall_forall. intros n Hn. apply filter_In in Hn. tauto.
  - apply Forall_forall. intros n Hn. apply filter_In in Hn. destruct Hn as [_ Hn].
    destruct (is_group n); [discriminate|reflexivity].
  - induction (children_of g) as [|x r IH]; [reflexivity|].
    cbn [filter]. destruct (is_group x); cbn [negb length]; lia.
Qed.

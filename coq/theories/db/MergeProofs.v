(* Component theorems about the merge model (C13-C16): group and entry last-writer-wins,
   history union, deletion rules, tombstone monotonicity. *)
From Coq Require Import Sorted Permutation.
From KP Require Import Bytes Outcome Tree TreeFacts History Merge.
Local Open Scope Z_scope.

Lemma NoDup_snoc {A} (l : list A) x : NoDup l -> ~ In x l -> NoDup (l ++ [x]).
Proof.
  induction l as [|y r IH]; intros Nd Hn; cbn [app].
  - constructor; [intros []|constructor].
  - apply NoDup_cons_iff in Nd as [Hy Nd]. constructor.
    + intro H. apply in_app_or in H as [H|[H|[]]]; [contradiction|]. apply Hn. left. symmetry. exact H.
    + apply IH; [exact Nd|]. intro H. apply Hn. right. exact H.
Qed.

Lemma Forall_perm {A} (P : A -> Prop) l l' : Permutation l l' -> Forall P l -> Forall P l'.
Proof.
  intros H F. apply Forall_forall. intros x Hx. apply (proj1 (Forall_forall P l) F).
  eapply Permutation_in; [symmetry; exact H|exact Hx].
Qed.

(* ---------- Group::merge_with ---------- *)

Lemma group_merge_later_source now d s ld ls :
  t_lm (gi_times d) = Some ld -> t_lm (gi_times s) = Some ls -> ld < ls ->
  group_merge_with now d s =
  Ok (mkGinfo (gi_uuid d) (gi_data s)
              (match t_lc (gi_times d) with Some t => set_lc (gi_times s) t | None => gi_times s end),
      [Ev GroupUpdated (gi_uuid d)]).
Proof.
  intros Hd Hs L. unfold group_merge_with, lm_or. rewrite Hd, Hs.
  destruct (Z.eqb_spec ld ls) as [E|_]; [lia|].
  destruct (Z.gtb_spec ld ls) as [G|_]; [lia|]. reflexivity.
Qed.

Lemma group_merge_later_dest now d s ld ls :
  t_lm (gi_times d) = Some ld -> t_lm (gi_times s) = Some ls -> ls < ld ->
  group_merge_with now d s = Ok (d, []).
Proof.
  intros Hd Hs L. unfold group_merge_with, lm_or. rewrite Hd, Hs.
  destruct (Z.eqb_spec ld ls) as [E|_]; [lia|].
  destruct (Z.gtb_spec ld ls) as [_|G]; [reflexivity|lia].
Qed.

Lemma group_merge_same_time now d s l :
  t_lm (gi_times d) = Some l -> t_lm (gi_times s) = Some l ->
  group_merge_with now d s = if group_diverged d s then Err EGroupTime else Ok (d, []).
Proof.
  intros Hd Hs. unfold group_merge_with, lm_or. rewrite Hd, Hs, Z.eqb_refl. reflexivity.
Qed.

(* Last writer wins, the location time of the destination is preserved, uuid never changes. *)
Theorem group_merge_lww now d s ld ls :
  t_lm (gi_times d) = Some ld -> t_lm (gi_times s) = Some ls -> ld <> ls ->
  exists d' lg, group_merge_with now d s = Ok (d', lg)
    /\ gi_uuid d' = gi_uuid d
    /\ gi_data d' = (if ld <? ls then gi_data s else gi_data d)
    /\ t_lm (gi_times d') = Some (Z.max ld ls)
    /\ (t_lc (gi_times d) <> None -> t_lc (gi_times d') = t_lc (gi_times d))
    /\ t_rest (gi_times d') = (if ld <? ls then t_rest (gi_times s) else t_rest (gi_times d))
    /\ lg = (if ld <? ls then [Ev GroupUpdated (gi_uuid d)] else []).
Proof.
  intros Hd Hs N. destruct (Z.ltb_spec ld ls) as [L|L].
  - rewrite (group_merge_later_source now d s ld ls Hd Hs L). eexists _, _. split; [reflexivity|].
    cbn [gi_uuid gi_data gi_times]. repeat split.
    + destruct (t_lc (gi_times d)); cbn [set_lc t_lm]; rewrite Hs; f_equal; lia.
    + intro Hc. destruct (t_lc (gi_times d)) as [t|]; [reflexivity|contradiction].
    + destruct (t_lc (gi_times d)); reflexivity.
  - assert (L' : ls < ld) by lia. rewrite (group_merge_later_dest now d s ld ls Hd Hs L').
    eexists _, _. split; [reflexivity|]. repeat split. rewrite Hd. f_equal. lia.
Qed.

(* A second merge of the same source changes nothing and reports nothing. *)
Theorem group_merge_idem now d s d' lg :
  gi_uuid d = gi_uuid s ->
  t_lm (gi_times d) <> None -> t_lm (gi_times s) <> None ->
  group_merge_with now d s = Ok (d', lg) ->
  group_merge_with now d' s = Ok (d', []).
Proof.
  intros Hu Hd Hs H.
  destruct (t_lm (gi_times d)) as [ld|] eqn:Ed; [|contradiction].
  destruct (t_lm (gi_times s)) as [ls|] eqn:Es; [|contradiction].
  destruct (Z.lt_trichotomy ld ls) as [L|[E|L]].
  - rewrite (group_merge_later_source now d s ld ls Ed Es L) in H. injection H as <- <-.
    rewrite (group_merge_same_time now _ s ls); [| |exact Es].
    + unfold group_diverged. cbn [gi_uuid gi_data]. rewrite Hu, !N.eqb_refl. reflexivity.
    + cbn [gi_times]. destruct (t_lc (gi_times d)); cbn [set_lc t_lm]; exact Es.
  - subst ls. rewrite (group_merge_same_time now d s ld Ed Es) in H.
    destruct (group_diverged d s) eqn:Dv; [discriminate|]. injection H as <- <-.
    rewrite (group_merge_same_time now d s ld Ed Es), Dv. reflexivity.
  - rewrite (group_merge_later_dest now d s ld ls Ed Es L) in H. injection H as <- <-.
    apply (group_merge_later_dest now d s ld ls Ed Es L).
Qed.

Theorem group_merge_self now d :
  t_lm (gi_times d) <> None -> group_merge_with now d d = Ok (d, []).
Proof.
  intro Hd. destruct (t_lm (gi_times d)) as [ld|] eqn:Ed; [|contradiction].
  rewrite (group_merge_same_time now d d ld Ed Ed). unfold group_diverged.
  rewrite !N.eqb_refl. reflexivity.
Qed.

(* Group::merge_with never changes the UUID of the destination group *)
Lemma group_merge_with_keeps_uuid now d s d' lg :
  group_merge_with now d s = Ok (d', lg) -> gi_uuid d' = gi_uuid d.
Proof.
  unfold group_merge_with.
  destruct (lm_or (gi_times s) 0%Z) as [src_lm w1]. destruct (lm_or (gi_times d) now) as [dst_lm w2].
  destruct (Z.eqb dst_lm src_lm).
  - destruct (group_diverged d s); [discriminate|]. intro H. injection H as <- _. reflexivity.
  - destruct (Z.gtb dst_lm src_lm); intro H; injection H as <- _; reflexivity.
Qed.

(* ---------- merge_group_head: the root group itself (repair F19) or a group below it ---------- *)

(* The two ways the head step can succeed: the group processed IS the destination's root, whose
   own fields are then merged in place (children untouched, UUID kept); or it is not, and the
   step is the search among the descendants of the root, [merge_group_head_below]. *)
Lemma merge_group_head_cases now si root root' lg :
  merge_group_head now si root = Ok (root', lg) ->
  (exists ri rc ri', root = NG ri rc /\ gi_uuid si = gi_uuid ri
                     /\ group_merge_with now ri si = Ok (ri', lg)
                     /\ root' = NG ri' rc /\ gi_uuid ri' = gi_uuid ri)
  \/ ((is_group root = true -> gi_uuid si <> uuid_of root)
      /\ merge_group_head_below now si root = Ok (root', lg)).
Proof.
  unfold merge_group_head. intro H. destruct root as [ri rc|e].
  - destruct (N.eqb_spec (gi_uuid si) (gi_uuid ri)) as [E|N].
    + left. destruct (group_merge_with now ri si) as [[ri' lg1]| | |] eqn:Em; cbn [bind] in H; try discriminate.
      injection H as <- <-. exists ri, rc, ri'.
      split; [reflexivity|]. split; [exact E|]. split; [exact Em|]. split; [reflexivity|].
      eapply group_merge_with_keeps_uuid. exact Em.
    + right. split; [intros _; exact N|exact H].
  - right. split; [discriminate|exact H].
Qed.

Lemma merge_group_head_root now ri rc si :
  gi_uuid si = gi_uuid ri ->
  merge_group_head now si (NG ri rc) =
  (match group_merge_with now ri si with
   | Ok (ri', lg) => Ok (NG ri' rc, lg)
   | Err e => Err e | Panic n => Panic n | OutOfFuel => OutOfFuel
   end).
Proof.
  intro E. unfold merge_group_head. rewrite E, N.eqb_refl.
  destruct (group_merge_with now ri si) as [[ri' lg]| | |]; reflexivity.
Qed.

Lemma merge_group_head_not_root now si root :
  (is_group root = true -> gi_uuid si <> uuid_of root) ->
  merge_group_head now si root = merge_group_head_below now si root.
Proof.
  intro N. unfold merge_group_head. destruct root as [ri rc|e]; [|reflexivity].
  destruct (N.eqb_spec (gi_uuid si) (gi_uuid ri)) as [E|_]; [|reflexivity].
  exfalso. exact (N eq_refl E).
Qed.

(* The head step keeps the root's UUID, and either keeps the root's children (root case) or is the
   old below-the-root behaviour. *)
Lemma merge_group_head_children now si root root' lg :
  merge_group_head now si root = Ok (root', lg) ->
  (children_of root' = children_of root /\ uuid_of root' = uuid_of root /\ is_group root' = is_group root)
  \/ merge_group_head_below now si root = Ok (root', lg).
Proof.
  intro H. apply merge_group_head_cases in H as [(ri & rc & ri' & -> & _ & _ & -> & Eu)|[_ H]].
  - left. cbn [children_of uuid_of is_group]. auto.
  - right. exact H.
Qed.

(* ---------- History::merge_with ---------- *)

Definition keys(m : list (Z * entry)) : list Z := map fst m.
Definition hist_keys (l : list entry) : list (option Z) := map (fun h => t_lm (e_times h)) l.
Definition all_lm (l : list entry) : Prop := Forall (fun h => t_lm (e_times h) <> None) l.
(* every pair in the table is an item filed under its own modification time *)
Definition table_ok (m : list (Z * entry)) : Prop :=
  Forall (fun p => t_lm (e_times (snd p)) = Some (fst p)) m.

Lemma lookup_time_none t m : lookup_time t m = None <-> ~ In t (keys m).
Proof.
  induction m as [|[k v] r IH]; cbn [lookup_time keys map fst In]; [tauto|].
  destruct (Z.eqb_spec k t) as [E|N].
  - split; [discriminate|]. intro H. exfalso. apply H. auto.
  - rewrite IH. unfold keys. tauto.
Qed.

Lemma lookup_time_some t m v : lookup_time t m = Some v -> In (t, v) m.
Proof.
  induction m as [|[k x] r IH]; cbn [lookup_time]; [discriminate|].
  destruct (Z.eqb_spec k t) as [E|N].
  - intro H. injection H as <-. subst. left. reflexivity.
  - intro H. right. auto.
Qed.

Lemma hist_self_spec l : forall acc m,
  hist_self acc l = Ok m ->
  NoDup (keys acc) -> table_ok acc ->
  m = acc ++ map (fun h => (match t_lm (e_times h) with Some t => t | None => 0 end, h)) l
  /\ NoDup (keys m) /\ table_ok m /\ all_lm l.
Proof.
  induction l as [|h r IH]; intros acc m H Nd Tok; cbn [hist_self] in H.
  - injection H as <-. rewrite app_nil_r. repeat split; auto. constructor.
  - destruct (t_lm (e_times h)) as [t|] eqn:Et; [|discriminate].
    destruct (lookup_time t acc) eqn:Lk; [discriminate|].
    apply IH in H.
    + destruct H as (-> & Nd' & Tok' & Al). rewrite <- app_assoc in Nd', Tok' |- *.
      cbn [map app] in Nd', Tok' |- *. rewrite Et.
      repeat split; auto. constructor; [congruence|exact Al].
    + unfold keys in *. rewrite map_app. cbn [map fst]. apply NoDup_snoc; [exact Nd|].
      apply lookup_time_none in Lk. exact Lk.
    + apply Forall_app. split; [exact Tok|]. constructor; [exact Et|constructor].
Qed.

Lemma hist_other_spec l : forall acc lg m lg',
  hist_other acc lg l = Ok (m, lg') ->
  NoDup (keys acc) -> table_ok acc ->
  NoDup (keys m) /\ table_ok m /\ all_lm l
  /\ (exists extra, m = acc ++ extra /\ Forall (fun p => In (snd p) l) extra)
  /\ (forall t, In t (keys m) <-> In t (keys acc) \/ In (Some t) (hist_keys l))
  /\ (exists w, lg' = lg ++ w /\ Forall (fun x => x = Warn) w).
Proof.
  induction l as [|h r IH]; intros acc lg m lg' H Nd Tok; cbn [hist_other] in H.
  - injection H as <- <-. split; [exact Nd|]. split; [exact Tok|]. split; [constructor|].
    split; [|split].
    + exists []. rewrite app_nil_r. split; [reflexivity|constructor].
    + intro t. split; [intro Ht; left; exact Ht|intros [Ht|[]]; exact Ht].
    + exists []. rewrite app_nil_r. split; [reflexivity|constructor].
  - destruct (t_lm (e_times h)) as [t|] eqn:Et; [|discriminate].
    destruct (lookup_time t acc) as [ex|] eqn:Lk.
    + apply IH in H; auto. destruct H as (Nd' & Tok' & Al & (extra & -> & Fx) & Hk & (w & -> & Fw)).
      split; [exact Nd'|]. split; [exact Tok'|]. split; [constructor; [congruence|exact Al]|].
      split; [|split].
      * exists extra. split; [reflexivity|]. eapply Forall_impl; [|exact Fx]. intros p Hp. right. exact Hp.
      * intro t0. split.
        -- intro Ht. apply Hk in Ht. destruct Ht as [Ht|Ht]; [left; exact Ht|right; right; exact Ht].
        -- intros [Ht|[Ht|Ht]].
           ++ apply Hk. left. exact Ht.
           ++ cbn in Ht. rewrite Et in Ht. injection Ht as <-. apply Hk. left.
              apply lookup_time_some in Lk. unfold keys. change t with (fst (t, ex)). apply in_map. exact Lk.
           ++ apply Hk. right. exact Ht.
      * eexists. rewrite <- app_assoc. split; [reflexivity|]. apply Forall_app. split; [|exact Fw].
        destruct (entry_diverged ex h); repeat constructor.
    + apply IH in H.
      * destruct H as (Nd' & Tok' & Al & (extra & -> & Fx) & Hk & Hw).
        split; [exact Nd'|]. split; [exact Tok'|]. split; [constructor; [congruence|exact Al]|].
        split; [|split; [|exact Hw]].
        -- exists ((t, h) :: extra). rewrite <- app_assoc. split; [reflexivity|]. constructor.
           ++ left. reflexivity.
           ++ eapply Forall_impl; [|exact Fx]. intros p Hp. right. exact Hp.
        -- intro t0. split.
           ++ intro Ht. apply Hk in Ht. destruct Ht as [Ht|Ht].
              ** unfold keys in Ht. rewrite map_app in Ht. apply in_app_or in Ht. destruct Ht as [Ht|[Ht|[]]].
                 --- left. exact Ht.
                 --- right. left. cbn in *. rewrite Et. congruence.
              ** right. right. exact Ht.
           ++ intros [Ht|[Ht|Ht]]; apply Hk.
              ** left. unfold keys. rewrite map_app. apply in_or_app. left. exact Ht.
              ** left. cbn in Ht. rewrite Et in Ht. injection Ht as <-. unfold keys. rewrite map_app.
                 apply in_or_app. right. left. reflexivity.
              ** right. exact Ht.
      * unfold keys in *. rewrite map_app. cbn [map fst]. apply NoDup_snoc; [exact Nd|].
        apply lookup_time_none in Lk. exact Lk.
      * apply Forall_app. split; [exact Tok|]. constructor; [exact Et|constructor].
Qed.

(* insertion sort facts *)
Lemma insert_desc_perm x l : Permutation (insert_desc x l) (x :: l).
Proof.
  induction l as [|y r IH]; cbn [insert_desc]; [reflexivity|].
  destruct (Z.leb (fst y) (fst x)); [reflexivity|].
  rewrite IH. apply perm_swap.
Qed.

Lemma sort_desc_perm l : Permutation (sort_desc l) l.
Proof.
  induction l as [|x r IH]; cbn [sort_desc fold_right]; [constructor|].
  fold (sort_desc r). rewrite insert_desc_perm. constructor. exact IH.
Qed.

Definition desc (l : list (Z * entry)) : Prop := StronglySorted (fun a b => fst a > fst b) l.

Lemma insert_desc_sorted x l :
  desc l -> ~ In (fst x) (keys l) -> desc (insert_desc x l).
Proof.
  induction l as [|y r IH]; intros Hs Hn; cbn [insert_desc].
  - constructor; constructor.
  - apply StronglySorted_inv in Hs as [Hr Hy].
    destruct (Z.leb_spec (fst y) (fst x)) as [L|L].
    + assert (Hne : fst y <> fst x). { intro E. apply Hn. left. exact E. }
      constructor; [constructor; assumption|].
      constructor; [lia|]. eapply Forall_impl; [|exact Hy]. intros a Ha. cbn beta in *. lia.
    + constructor.
      * apply IH; [exact Hr|]. intro H. apply Hn. right. exact H.
      * apply (Forall_perm _ (x :: r)); [symmetry; apply insert_desc_perm|].
        constructor; [lia|exact Hy].
Qed.

Lemma sort_desc_sorted l : NoDup (keys l) -> desc (sort_desc l).
Proof.
  induction l as [|x r IH]; intro Nd; cbn [sort_desc fold_right]; [constructor|].
  fold (sort_desc r). cbn [keys map] in Nd. apply NoDup_cons_iff in Nd as [Hn Nd].
  apply insert_desc_sorted; [apply IH; exact Nd|].
  intro H. apply Hn. unfold keys in *.
  eapply Permutation_in; [apply Permutation_map; apply sort_desc_perm|exact H].
Qed.

(* History::merge_with: the result is the union of both histories keyed by modification time,
   strictly newest first, every item an original item, own items win on equal times. *)
Theorem history_merge_union self other h lg :
  history_merge_with self other = Ok (h, lg) ->
  all_lm self /\ all_lm other
  /\ NoDup (hist_keys self)
  /\ StronglySorted (fun a b => match t_lm (e_times a), t_lm (e_times b) with
                                | Some x, Some y => x > y | _, _ => False end) h
  /\ (forall t, In (Some t) (hist_keys h) <-> In (Some t) (hist_keys self) \/ In (Some t) (hist_keys other))
  /\ (forall x, In x h -> In x self \/ In x other)
  /\ (forall x, In x self -> In x h)
  /\ Forall (fun x => x = Warn) lg.
Proof.
  unfold history_merge_with. intro H.
  destruct (hist_self [] self) as [m1| | |] eqn:H1; cbn [bind] in H; try discriminate.
  destruct (hist_other m1 [] other) as [[m2 lg2]| | |] eqn:H2; cbn [bind] in H; try discriminate.
  injection H as <- <-.
  apply hist_self_spec in H1; [|constructor|constructor].
  destruct H1 as (E1 & Nd1 & Tok1 & Al1). cbn [app] in E1.
  apply hist_other_spec in H2; auto.
  destruct H2 as (Nd2 & Tok2 & Al2 & (extra & E2 & Fx) & Hk & (w & Ew & Fw)).
  assert (Hself : forall x, In x self -> In (match t_lm (e_times x) with Some t => t | None => 0 end, x) m1).
  { intros x Hx. rewrite E1. apply in_map with (f := fun h => (match t_lm (e_times h) with Some t => t | None => 0 end, h)). exact Hx. }
  assert (Hkeys1 : forall t, In t (keys m1) <-> In (Some t) (hist_keys self)).
  { intro t. rewrite E1. unfold keys, hist_keys. rewrite map_map. cbn [fst].
    rewrite !in_map_iff. split.
    - intros [x [Ex Hx]]. exists x. split; [|exact Hx].
      pose proof (proj1 (Forall_forall _ _) Al1 x Hx) as Hl. cbn beta in Hl. destruct (t_lm (e_times x)); [congruence|contradiction].
    - intros [x [Ex Hx]]. exists x. split; [|exact Hx]. rewrite Ex. reflexivity. }
  assert (Hperm : Permutation (sort_desc m2) m2) by apply sort_desc_perm.
  repeat split; auto.
  - (* NoDup of own keys *)
    rewrite E1 in Nd1. unfold keys in Nd1. rewrite map_map in Nd1. cbn [fst] in Nd1.
    unfold hist_keys.
    assert (Hm : map (fun h0 => t_lm (e_times h0)) self =
                 map Some (map (fun x => match t_lm (e_times x) with Some t => t | None => 0 end) self)).
    { rewrite map_map. apply map_ext_in. intros x Hx.
      pose proof (proj1 (Forall_forall _ _) Al1 x Hx) as Hl. cbn beta in Hl. destruct (t_lm (e_times x)); [reflexivity|contradiction]. }
    rewrite Hm. apply FinFun.Injective_map_NoDup; [|exact Nd1]. intros a b Eab. congruence.
  - (* sorted *)
    pose proof (sort_desc_sorted m2 Nd2) as Hs.
    assert (Tok3 : table_ok (sort_desc m2)).
    { unfold table_ok. eapply Forall_perm; [symmetry; exact Hperm|exact Tok2]. }
    clear - Hs Tok3. induction Hs as [|a l Hl IH Ha]; cbn [map]; [constructor|].
    apply Forall_cons_iff in Tok3 as [Ta Tl]. constructor; [apply IH; exact Tl|].
    apply Forall_forall. intros x Hx. apply in_map_iff in Hx as [p [<- Hp]].
    pose proof (proj1 (Forall_forall _ _) Ha p Hp) as Hgt.
    pose proof (proj1 (Forall_forall _ _) Tl p Hp) as Tp. cbn beta in *. rewrite Ta, Tp. exact Hgt.
  - (* keys: -> *)
    intro Ht. unfold hist_keys in Ht. rewrite map_map in Ht. apply in_map_iff in Ht as [p [Ep Hp]].
    assert (Hp2 : In p m2) by (eapply Permutation_in; [exact Hperm|exact Hp]).
    pose proof (proj1 (Forall_forall _ _) Tok2 p Hp2) as Tp. cbn beta in Tp. rewrite Tp in Ep. injection Ep as <-.
    assert (Hin : In (fst p) (keys m2)) by (unfold keys; apply in_map; exact Hp2).
    apply Hk in Hin. destruct Hin as [Hin|Hin]; [left; apply Hkeys1; exact Hin|right; exact Hin].
  - (* keys: <- *)
    intro Ht.
    assert (Hin : In t (keys m2)).
    { apply Hk. destruct Ht as [Ht|Ht]; [left; apply Hkeys1; exact Ht|right; exact Ht]. }
    unfold keys in Hin. apply in_map_iff in Hin as [p [<- Hp]].
    assert (Hp2 : In p (sort_desc m2)) by (eapply Permutation_in; [symmetry; exact Hperm|exact Hp]).
    unfold hist_keys. rewrite map_map. apply in_map_iff. exists p. split; [|exact Hp2].
    exact (proj1 (Forall_forall _ _) Tok2 p Hp).
  - (* every item is an original *)
    intros x Hx. apply in_map_iff in Hx as [p [<- Hp]].
    assert (Hp2 : In p m2) by (eapply Permutation_in; [exact Hperm|exact Hp]).
    rewrite E2 in Hp2. apply in_app_or in Hp2 as [Hp2|Hp2].
    + left. rewrite E1 in Hp2. apply in_map_iff in Hp2 as [y [<- Hy]]. exact Hy.
    + right. exact (proj1 (Forall_forall _ _) Fx p Hp2).
  - (* own items all survive *)
    intros x Hx. apply in_map_iff.
    exists (match t_lm (e_times x) with Some t => t | None => 0 end, x). split; [reflexivity|].
    eapply Permutation_in; [symmetry; exact Hperm|].
    rewrite E2. apply in_or_app. left. apply Hself. exact Hx.
  - subst lg2. cbn [app]. exact Fw.
Qed.

(* no panic and no duplicate error when every item is stamped and own stamps are distinct *)
Theorem history_merge_total self other :
  all_lm self -> all_lm other -> NoDup (hist_keys self) ->
  exists h lg, history_merge_with self other = Ok (h, lg).
Proof.
  intros Al1 Al2 Nd. unfold history_merge_with.
  assert (H1 : forall l acc, all_lm l -> NoDup (keys acc ++ map (fun h => match t_lm (e_times h) with Some t => t | None => 0 end) l) ->
                        exists m, hist_self acc l = Ok m).
  { induction l as [|h r IH]; intros acc Al Hn; cbn [hist_self]; [eexists; reflexivity|].
    apply Forall_cons_iff in Al as [Hh Al]. destruct (t_lm (e_times h)) as [t|] eqn:Et; [|contradiction].
    cbn [map] in Hn. rewrite Et in Hn.
    destruct (lookup_time t acc) eqn:Lk.
    - exfalso. apply lookup_time_some in Lk. apply NoDup_remove_2 in Hn. apply Hn.
      apply in_or_app. left. unfold keys. change t with (fst (t, e)). apply in_map. exact Lk.
    - apply IH; [exact Al|]. unfold keys in *. rewrite map_app, <- app_assoc. cbn [map fst app]. exact Hn. }
  destruct (H1 self [] Al1) as [m1 E1].
  { cbn [keys map app]. clear - Al1 Nd. unfold hist_keys in Nd.
    induction self as [|x r IH]; cbn [map]; [constructor|].
    apply Forall_cons_iff in Al1 as [Hx Al]. cbn [map] in Nd. apply NoDup_cons_iff in Nd as [Hn Nd].
    constructor; [|apply IH; assumption].
    intro Hin. apply Hn. apply in_map_iff in Hin as [y [Ey Hy]]. apply in_map_iff. exists y. split; [|exact Hy].
    pose proof (proj1 (Forall_forall _ _) Al y Hy) as Hl. cbn beta in Hl.
    destruct (t_lm (e_times y)), (t_lm (e_times x)); try contradiction. congruence. }
  rewrite E1. cbn [bind].
  assert (H2 : forall l acc lg, all_lm l -> exists m lg', hist_other acc lg l = Ok (m, lg')).
  { induction l as [|h r IH]; intros acc lg Al; cbn [hist_other]; [eexists _, _; reflexivity|].
    apply Forall_cons_iff in Al as [Hh Al]. destruct (t_lm (e_times h)) as [t|]; [|contradiction].
    destruct (lookup_time t acc); apply IH; exact Al. }
  destruct (H2 other m1 [] Al2) as [m2 [lg2 E2]]. rewrite E2. cbn [bind]. eexists _, _. reflexivity.
Qed.

(* ---------- tombstones only grow ---------- *)

Lemma del_entry_step_deleted now st o st' :
  del_entry_step now st o = Ok st' ->
  ds_deleted st' = ds_deleted st \/ ds_deleted st' = ds_deleted st ++ [o].
Proof.
  unfold del_entry_step. intro H.
  destruct (deleted_contains _ _); [injection H as <-; auto|].
  destruct (fnl_db _ _) as [loc|]; [|injection H as <-; auto].
  destruct (find_group loc (ds_root st)) as [[pi pc]|]; cbn [of_option bind] in H; [|discriminate].
  destruct (find _ pc) as [[gi gc|e]|]; try (injection H as <-; auto; fail).
  unfold lm_or in H. destruct (t_lm (e_times e)) as [lm|].
  - destruct (Z.ltb lm (d_time o)).
    + destruct (remove_node _ pc) as [[nd kept]|]; cbn [of_option bind] in H; [|discriminate].
      destruct (put_group _ _ _ _); cbn [of_option bind] in H; [|discriminate]. injection H as <-. auto.
    + injection H as <-. auto.
  - destruct (Z.ltb now (d_time o)).
    + destruct (remove_node _ pc) as [[nd kept]|]; cbn [of_option bind] in H; [|discriminate].
      destruct (put_group _ _ _ _); cbn [of_option bind] in H; [|discriminate]. injection H as <-. auto.
    + injection H as <-. auto.
Qed.

Lemma del_entries_deleted now l : forall st st',
  del_entries now st l = Ok st' ->
  exists added, ds_deleted st' = ds_deleted st ++ added /\ incl added l.
Proof.
  induction l as [|o r IH]; intros st st' H; cbn [del_entries] in H.
  - injection H as <-. exists []. rewrite app_nil_r. split; [reflexivity|intros x []].
  - destruct (del_entry_step now st o) as [st1| | |] eqn:E1; cbn [bind] in H; try discriminate.
    apply IH in H as [added [E Hi]]. apply del_entry_step_deleted in E1 as [E1|E1]; rewrite E1 in E.
    + exists added. split; [exact E|]. intros x Hx. right. auto.
    + exists (o :: added). rewrite <- app_assoc in E. split; [exact E|].
      intros x [<-|Hx]; [left; reflexivity|right; auto].
Qed.

Lemma del_group_step_deleted now st o q st' q' :
  del_group_step now st o q = Ok (st', q') ->
  (ds_deleted st' = ds_deleted st \/ ds_deleted st' = ds_deleted st ++ [o])
  /\ incl q' (o :: q).
Proof.
  unfold del_group_step. intro H.
  assert (Hq : incl q (o :: q)) by (intros x Hx; right; exact Hx).
  destruct (deleted_contains _ _); [injection H as <- <-; auto|].
  destruct (fnl_db _ _) as [loc|]; [|injection H as <- <-; auto].
  destruct (find_group loc (ds_root st)) as [[pi pc]|]; cbn [of_option bind] in H; [|discriminate].
  destruct (find _ pc) as [[gi gc|e]|]; try (injection H as <- <-; auto; fail).
  destruct (existsb _ gc); [injection H as <- <-; auto|].
  destruct (existsb _ gc).
  { injection H as <- <-. split; [auto|]. intros x Hx. apply in_app_or in Hx as [Hx|[<-|[]]]; [right; exact Hx|left; reflexivity]. }
  destruct (existsb _ gc); [injection H as <- <-; auto|].
  unfold lm_or in H. destruct (t_lm (gi_times gi)) as [lm|].
  - destruct (Z.ltb lm (d_time o)).
    + destruct (remove_node _ pc) as [[nd kept]|]; cbn [of_option bind] in H; [|discriminate].
      destruct (put_group _ _ _ _); cbn [of_option bind] in H; [|discriminate]. injection H as <- <-. auto.
    + injection H as <- <-. auto.
  - destruct (Z.ltb now (d_time o)).
    + destruct (remove_node _ pc) as [[nd kept]|]; cbn [of_option bind] in H; [|discriminate].
      destruct (put_group _ _ _ _); cbn [of_option bind] in H; [|discriminate]. injection H as <- <-. auto.
    + injection H as <- <-. auto.
Qed.

Lemma del_groups_deleted now fuel : forall st q st',
  del_groups fuel now st q = Ok st' ->
  exists added, ds_deleted st' = ds_deleted st ++ added /\ incl added q.
Proof.
  induction fuel as [|f IH]; intros st q st' H.
  - destruct q; cbn [del_groups] in H; [|discriminate]. injection H as <-.
    exists []. rewrite app_nil_r. split; [reflexivity|intros x []].
  - destruct q as [|o q]; cbn [del_groups] in H.
    + injection H as <-. exists []. rewrite app_nil_r. split; [reflexivity|intros x []].
    + destruct (del_group_step now st o q) as [[st1 q1]| | |] eqn:E1; cbn [bind] in H; try discriminate.
      apply IH in H as [added [E Hi]]. apply del_group_step_deleted in E1 as [[E1|E1] Hq]; rewrite E1 in E.
      * exists added. split; [exact E|]. intros x Hx. apply Hq. apply Hi. exact Hx.
      * exists (o :: added). rewrite <- app_assoc in E. split; [exact E|].
        intros x [<-|Hx]; [left; reflexivity|apply Hq; apply Hi; exact Hx].
Qed.

Theorem merge_deletions_monotone now root deleted src_deleted root' deleted' lg :
  merge_deletions now root deleted src_deleted = Ok (root', deleted', lg) ->
  exists added, deleted' = deleted ++ added /\ incl added src_deleted.
Proof.
  unfold merge_deletions. intro H.
  destruct (del_entries now _ src_deleted) as [st1| | |] eqn:E1; cbn [bind] in H; try discriminate.
  destruct (del_groups _ now st1 _) as [st2| | |] eqn:E2; cbn [bind] in H; try discriminate.
  injection H as <- <- <-.
  apply del_entries_deleted in E1 as [a1 [Ea1 Hi1]]. cbn [ds_deleted] in Ea1.
  apply del_groups_deleted in E2 as [a2 [Ea2 Hi2]].
  exists (a1 ++ a2). rewrite Ea2, Ea1, app_assoc. split; [reflexivity|].
  intros x Hx. apply in_app_or in Hx as [Hx|Hx]; [auto|].
  apply Hi2 in Hx. apply filter_In in Hx. tauto.
Qed.

(* The destination's tombstone list after a merge is the list before, followed by tombstones
   taken from the source. *)
Theorem merge_tombstones_monotone now d s d' lg :
  merge now d s = Ok (d', lg) ->
  exists added, db_deleted d' = db_deleted d ++ added /\ incl added (db_deleted s).
Proof.
  unfold merge. intro H.
  destruct (merge_group _ _ _ _ _ _) as [[root1 lg1]| | |]; cbn [bind] in H; try discriminate.
  destruct (merge_deletions _ _ _ _) as [[[root2 del2] lg2]| | |] eqn:E; cbn [bind] in H; try discriminate.
  destruct root2 as [i c|e]; [|discriminate]. injection H as <- <-. cbn [db_deleted].
  eapply merge_deletions_monotone. exact E.
Qed.

(* ---------- the entry deletion rule, one step ---------- *)

(* An entry that is present, not yet tombstoned, is removed and tombstoned iff its last
   modification is strictly older than the deletion; otherwise nothing changes. *)
Theorem entry_deletion_rule now st o loc pi pc e lm :
  deleted_contains (ds_deleted st) (d_uuid o) = false ->
  fnl_db (d_uuid o) (children_of (ds_root st)) = Some loc ->
  find_group loc (ds_root st) = Some (pi, pc) ->
  find (fun c => N.eqb (uuid_of c) (d_uuid o)) pc = Some (NE e) ->
  t_lm (e_times e) = Some lm ->
  (lm < d_time o ->
     forall kept root1 nd, remove_node (d_uuid o) pc = Some (nd, kept) ->
       put_group loc pi kept (ds_root st) = Some root1 ->
       del_entry_step now st o =
       Ok (mkDstate root1 (ds_deleted st ++ [o]) (ds_log st ++ [Ev EntryDeleted (d_uuid o)])))
  /\ (d_time o <= lm -> del_entry_step now st o = Ok (mkDstate (ds_root st) (ds_deleted st) (ds_log st ++ []))).
Proof.
  intros Hc Hl Hg Hf Hlm. unfold del_entry_step. rewrite Hc, Hl, Hg. cbn [of_option bind]. rewrite Hf.
  unfold lm_or. rewrite Hlm. split.
  - intros L kept root1 nd Hr Hp. destruct (Z.ltb_spec lm (d_time o)) as [_|G]; [|lia].
    rewrite Hr. cbn [of_option bind]. rewrite Hp. reflexivity.
  - intro G. destruct (Z.ltb_spec lm (d_time o)) as [L|_]; [lia|reflexivity].
Qed.

(* Merging a database with itself changes nothing and reports nothing.

     Theorem merge_self : forall now d, wf_self d -> merge now d d = Ok (d, []).

   [wf_self d]: (1) the UUIDs of the root group and of all its descendants are pairwise distinct,
   (2) every group, THE ROOT INCLUDED, carries a LastModificationTime.  Nothing else is needed:
   - since the repair F19 ("merge the root group's own fields") the root group is handed to
     Group::merge_with like every other group: merge_group_head recognises the root by its UUID
     and merges its fields in place.  A root without a LastModificationTime is read as [now] on
     the destination side and as the epoch on the source side and two warnings are logged
     ([cx_root_lm_needed]); before the repair the root's stamp was never looked at and (2) only
     spoke about the groups below the root;
   - entries are never handed to Entry::merge: the loop sees `!existing.has_diverged_from(other)`
     first and continues; so neither the entries' time stamps nor their histories matter (and
     Entry::merge of an entry with itself would in fact be the error
     EntryModificationTimeNotUpdated, [entry_merge_self]);
   - merge_deletions is a no-op whatever the tombstones are: every source tombstone is already in
     the destination's list, so both loops skip all of them ([merge_deletions_self]).  A tombstone
     that names a group of the tree only switches the `is_in_deleted_group` flag on, which has no
     effect when every node is found where it already is.
   Each of the two hypotheses is needed, (2) for the root too: see the counter-examples at the end. *)
From Coq Require Import Sorted.
From KP Require Import Bytes Outcome Tree TreeFacts History Merge MergeProofs MergeLookup MergeUuids.
Local Open Scope N_scope.

(* ---------- the well-formedness condition ---------- *)

Definition group_has_lm (n : node) : Prop :=
  match n with NG i _ => t_lm (gi_times i) <> None | NE _ => True end.

(* (1) root and descendants have pairwise distinct UUIDs *)
Definition uuids_ok (d : db) : Prop := NoDup (gi_uuid (db_root_info d) :: uus (db_children d)).
(* (2) the root group and every group below it have a LastModificationTime
   (before the repair F19: only the groups below the root) *)
Definition groups_lm_ok (d : db) : Prop := Forall group_has_lm (db_root d :: nodes_of (db_children d)).

Definition wf_self (d : db) : Prop := uuids_ok d /\ groups_lm_ok d.

(* boolean versions *)
Fixpoint nodupb (l : list N) : bool :=
  match l with
  | [] => true
  | x :: r => negb (existsb (N.eqb x) r) && nodupb r
  end.

Definition group_has_lmb (n : node) : bool :=
  match n with
  | NG i _ => match t_lm (gi_times i) with Some _ => true | None => false end
  | NE _ => true
  end.

Definition uuids_okb (d : db) : bool := nodupb (gi_uuid (db_root_info d) :: uus (db_children d)).
Definition groups_lm_okb (d : db) : bool := forallb group_has_lmb (db_root d :: nodes_of (db_children d)).
Definition wf_selfb (d : db) : bool := uuids_okb d && groups_lm_okb d.

Lemma nodupb_spec l : nodupb l = true <-> NoDup l.
Proof.
  induction l as [|x r IH]; cbn [nodupb].
  - split; [constructor|reflexivity].
  - rewrite andb_true_iff, negb_true_iff, NoDup_cons_iff, IH.
    assert (E : existsb (N.eqb x) r = false <-> ~ In x r).
    { split.
      - intros H Hi. assert (T : existsb (N.eqb x) r = true).
        { apply existsb_exists. exists x. split; [exact Hi|apply N.eqb_refl]. }
        congruence.
      - intro H. destruct (existsb (N.eqb x) r) eqn:Ex; [|reflexivity].
        exfalso. apply H. apply existsb_exists in Ex as (y & Hy & Exy). apply N.eqb_eq in Exy.
        subst y. exact Hy. }
    rewrite E. reflexivity.
Qed.

Lemma group_has_lmb_spec n : group_has_lmb n = true <-> group_has_lm n.
Proof.
  destruct n as [i c|e]; cbn [group_has_lmb group_has_lm]; [|split; auto].
  destruct (t_lm (gi_times i)) as [v|].
  - split; [intros _; discriminate|reflexivity].
  - split; [discriminate|intro H; exfalso; apply H; reflexivity].
Qed.

Lemma uuids_okb_spec d : uuids_okb d = true <-> uuids_ok d.
Proof. apply nodupb_spec. Qed.

Lemma groups_lm_okb_spec d : groups_lm_okb d = true <-> groups_lm_ok d.
Proof.
  unfold groups_lm_okb, groups_lm_ok. rewrite forallb_forall, Forall_forall.
  split; intros H x Hx; apply group_has_lmb_spec; apply H; exact Hx.
Qed.

Theorem wf_selfb_spec d : wf_selfb d = true <-> wf_self d.
Proof. unfold wf_selfb, wf_self. rewrite andb_true_iff, uuids_okb_spec, groups_lm_okb_spec. reflexivity. Qed.

(* ---------- small reflexivity facts ---------- *)

Lemma optN_eqb_refl o : optN_eqb o o = true.
Proof. destruct o as [x|]; [apply N.eqb_refl|reflexivity]. Qed.

Lemma path_eqb_refl p : path_eqb p p = true.
Proof. induction p as [|x r IH]; [reflexivity|]. cbn [path_eqb list_eqb]. rewrite N.eqb_refl. exact IH. Qed.

Lemma entry_diverged_refl e : entry_diverged e e = false.
Proof. unfold entry_diverged. rewrite entry_eqb_refl. reflexivity. Qed.

(* ---------- entry level ---------- *)

(* Entry::merge of an entry with itself is not "nothing to do" but the error
   EntryModificationTimeNotUpdated: same time stamp, not diverged.  merge_group never gets there. *)
Theorem entry_merge_self now e :
  t_lm (e_times e) <> None -> entry_merge now e e = Err EEntryTime.
Proof.
  intro H. unfold entry_merge, lm_or. destruct (t_lm (e_times e)) as [v|]; [|contradiction].
  rewrite Z.eqb_refl, entry_diverged_refl. reflexivity.
Qed.

(* without a time stamp the destination side is read as [now] and the source side as the epoch *)
Theorem entry_merge_self_epoch e :
  t_lm (e_times e) = None -> entry_merge 0 e e = Err EEntryTime.
Proof.
  intro H. unfold entry_merge, lm_or. rewrite H. rewrite Z.eqb_refl, entry_diverged_refl. reflexivity.
Qed.

(* ---------- a node is found where it is ---------- *)

Lemma uus_cons_disjoint x r u :
  NoDup (uus (x :: r)) -> In u (uus r) -> uuid_of x <> u /\ ~ In u (all_uuids x).
Proof.
  rewrite uus_cons. intros Nd Hu. apply NoDup_cons_iff in Nd as [Hn Nd].
  apply NoDup_app_iff in Nd as (_ & _ & Hd). split.
  - intros <-. apply Hn. apply in_or_app. right. exact Hu.
  - intro H. exact (Hd u H Hu).
Qed.

Lemma fnl_db_children_none x u : ~ In u (all_uuids x) -> fnl_db u (children_of x) = None.
Proof.
  intro H. destruct (fnl_db u (children_of x)) as [l|] eqn:E; [|reflexivity].
  exfalso. apply H. rewrite all_uuids_children. exact (fnl_db_some_in u _ l E).
Qed.

Lemma fnl_db_here : forall ch n, NoDup (uus ch) -> In n ch -> fnl_db (uuid_of n) ch = Some [].
Proof.
  induction ch as [|x r IH]; intros n Nd Hi; [destruct Hi|]. rewrite fnl_db_cons.
  destruct (N.eqb_spec (uuid_of x) (uuid_of n)) as [E|Ne]; [reflexivity|].
  destruct Hi as [->|Hi]; [contradiction|].
  destruct (uus_cons_disjoint x r (uuid_of n) Nd (in_uus_self n r Hi)) as [_ Hn].
  rewrite (fnl_db_children_none x _ Hn). apply IH; [eapply uus_unique_tail; exact Nd|exact Hi].
Qed.

Lemma fnl_db_child : forall ch x u l,
  NoDup (uus ch) -> In x ch -> fnl_db u (children_of x) = Some l ->
  fnl_db u ch = Some (uuid_of x :: l).
Proof.
  induction ch as [|y r IH]; intros x u l Nd Hi H; [destruct Hi|]. rewrite fnl_db_cons.
  assert (Hu : In u (uus (children_of x))) by exact (fnl_db_some_in u _ l H).
  destruct Hi as [->|Hi].
  - destruct (N.eqb_spec (uuid_of x) u) as [E|Ne].
    + exfalso. rewrite uus_cons in Nd. apply NoDup_cons_iff in Nd as [Hn _]. apply Hn.
      apply in_or_app. left. rewrite all_uuids_children, E. exact Hu.
    + rewrite H. reflexivity.
  - assert (Hur : In u (uus r)) by exact (in_uus_child x r Hi u Hu).
    destruct (uus_cons_disjoint y r u Nd Hur) as [Ne Hn].
    destruct (N.eqb_spec (uuid_of y) u) as [E|_]; [contradiction|].
    rewrite (fnl_db_children_none y u Hn). eapply IH; [eapply uus_unique_tail; exact Nd|exact Hi|exact H].
Qed.

(* find_node_location of a node that sits in the group at [loc] is [loc] *)
Theorem fnl_db_at : forall loc ch pc n,
  NoDup (uus ch) -> at_path loc ch pc -> In n pc -> fnl_db (uuid_of n) ch = Some loc.
Proof.
  induction loc as [|j loc' IH]; intros ch pc n Nd Hp Hn; cbn [at_path] in Hp.
  - subst pc. apply fnl_db_here; assumption.
  - destruct Hp as (x & Hx & Gx & <- & Hr). apply fnl_db_child; [exact Nd|exact Hx|].
    apply (IH _ pc); [eapply uus_unique_child; eassumption|exact Hr|exact Hn].
Qed.

Lemma get_uuid_cons2 h k l n :
  get_uuid (h :: k :: l) n =
  match find (fun c => is_group c && N.eqb (uuid_of c) h) (children_of n) with
  | Some g => get_uuid (k :: l) g
  | None => None
  end.
Proof. reflexivity. Qed.

(* the path lookup with the node's own UUID appended finds the node *)
Theorem get_uuid_at : forall loc g pc n,
  NoDup (uus (children_of g)) -> at_path loc (children_of g) pc -> In n pc ->
  get_uuid (loc ++ [uuid_of n]) g = Some n.
Proof.
  induction loc as [|j loc' IH]; intros g pc n Nd Hp Hn; cbn [at_path] in Hp.
  - subst pc. cbn [app get_uuid]. apply find_by_uuid; assumption.
  - destruct Hp as (x & Hx & Gx & <- & Hr). cbn [app].
    assert (Hrec : get_uuid (loc' ++ [uuid_of n]) x = Some n).
    { apply (IH x pc n); [eapply uus_unique_child; eassumption|exact Hr|exact Hn]. }
    destruct (loc' ++ [uuid_of n]) as [|k l] eqn:E; [exfalso; exact (snoc_not_nil _ _ E)|].
    rewrite get_uuid_cons2, (find_group_by_uuid _ x Nd Hx Gx). exact Hrec.
Qed.

(* ---------- writing back what is already there ---------- *)

Lemma update_first_id p f : forall l x,
  find p l = Some x -> f x = Some x -> update_first p f l = Some l.
Proof.
  induction l as [|y r IH]; intros x H Hf; cbn [find update_first] in *; [discriminate|].
  destruct (p y).
  - injection H as ->. rewrite Hf. reflexivity.
  - rewrite (IH x H Hf). reflexivity.
Qed.

Lemma update_uuid_id : forall path f n g,
  get_uuid path n = Some g -> f g = Some g -> update_uuid path f n = Some n.
Proof.
  induction path as [|h tail IH]; intros f n g H Hf.
  - cbn [get_uuid update_uuid] in *. injection H as ->. exact Hf.
  - destruct n as [i ch|e].
    + cbn [update_uuid]. destruct tail as [|k l].
      * cbn [get_uuid children_of] in H. rewrite (update_first_id _ f ch g H Hf). reflexivity.
      * rewrite get_uuid_cons2 in H. cbn [children_of] in H.
        destruct (find _ ch) as [x|] eqn:Ex; [|discriminate].
        rewrite (update_first_id _ (update_uuid (k :: l) f) ch x Ex (IH f x g H Hf)). reflexivity.
    + exfalso. cbn [get_uuid children_of find] in H. destruct tail; discriminate.
Qed.

Lemma put_group_id path root i c :
  find_group path root = Some (i, c) -> put_group path i c root = Some root.
Proof.
  unfold find_group, put_group. destruct (get_uuid path root) as [[gi gc|e]|] eqn:E; try discriminate.
  intro H. injection H as -> ->. apply (update_uuid_id path _ root (NG i c) E). reflexivity.
Qed.

(* ---------- merge_deletions on (d, d): unconditionally nothing ---------- *)

Lemma deleted_contains_in l o : In o l -> deleted_contains l (d_uuid o) = true.
Proof. intro H. apply existsb_exists. exists o. split; [exact H|apply N.eqb_refl]. Qed.

Lemma del_entries_covered now st : forall l,
  (forall o, In o l -> In o (ds_deleted st)) -> del_entries now st l = Ok st.
Proof.
  induction l as [|o r IH]; intro H; [reflexivity|]. cbn [del_entries]. unfold del_entry_step.
  rewrite (deleted_contains_in _ o (H o (or_introl eq_refl))). cbn [bind].
  apply IH. intros o' Ho'. apply H. right. exact Ho'.
Qed.

Lemma filter_all_false {A} (f : A -> bool) : forall l, (forall x, In x l -> f x = false) -> filter f l = [].
Proof.
  induction l as [|x r IH]; intro H; [reflexivity|]. cbn [filter].
  rewrite (H x (or_introl eq_refl)). apply IH. intros y Hy. apply H. right. exact Hy.
Qed.

Theorem merge_deletions_self now root del :
  merge_deletions now root del del = Ok (root, del, []).
Proof.
  unfold merge_deletions. rewrite del_entries_covered by (intros o Ho; exact Ho). cbn [bind ds_deleted].
  rewrite filter_all_false; [reflexivity|].
  intros o Ho. rewrite (deleted_contains_in del o Ho). reflexivity.
Qed.

(* ---------- merge_group of a sub-tree against itself, where it is ---------- *)

Section self.
  Variable now : Z.
  Variable del : list dobj.
  Variable ri : ginfo.
  Variable rch : list node.
  Hypothesis Nd : NoDup (uus rch).
  Hypothesis Hlm : Forall group_has_lm (nodes_of rch).
  (* the root's UUID does not occur below the root: a group below the root is not taken for it *)
  Hypothesis Hroot : ~ In (gi_uuid ri) (uus rch).

  Local Notation root := (NG ri rch).

  Lemma at_path_has_lm loc pc i c : at_path loc rch pc -> In (NG i c) pc -> t_lm (gi_times i) <> None.
  Proof.
    intros Hp Hi.
    assert (H : In (NG i c) (nodes_of rch)).
    { eapply at_path_nodes; [exact Hp|]. apply in_nodes_of_self. exact Hi. }
    exact (proj1 (Forall_forall _ _) Hlm _ H).
  Qed.

  Lemma find_group_at loc pc i c :
    at_path loc rch pc -> In (NG i c) pc -> find_group (loc ++ [gi_uuid i]) root = Some (i, c).
  Proof.
    intros Hp Hi. unfold find_group.
    pose proof (get_uuid_at loc root pc (NG i c) Nd Hp Hi) as H. cbn [uuid_of] in H.
    rewrite H. reflexivity.
  Qed.

  Lemma find_entry_at loc pc e :
    at_path loc rch pc -> In (NE e) pc -> find_entry (loc ++ [e_uuid e]) root = Some e.
  Proof.
    intros Hp Hi. unfold find_entry.
    pose proof (get_uuid_at loc root pc (NE e) Nd Hp Hi) as H. cbn [uuid_of] in H.
    rewrite H. reflexivity.
  Qed.

  Lemma at_path_not_root loc pc si sch :
    at_path loc rch pc -> In (NG si sch) pc -> gi_uuid si <> gi_uuid ri.
  Proof.
    intros Hp Hi E. apply Hroot. rewrite <- E, uus_nodes.
    change (gi_uuid si) with (uuid_of (NG si sch)). apply in_map.
    eapply at_path_nodes; [exact Hp|]. apply in_nodes_of_self. exact Hi.
  Qed.

  (* the part before the loops, for a group below the root *)
  Lemma merge_group_head_self loc pc si sch :
    at_path loc rch pc -> In (NG si sch) pc -> merge_group_head now si root = Ok (root, []).
  Proof.
    intros Hp Hi.
    rewrite merge_group_head_not_root by (intros _; exact (at_path_not_root loc pc si sch Hp Hi)).
    unfold merge_group_head_below. cbn [children_of].
    pose proof (fnl_db_at loc rch pc (NG si sch) Nd Hp Hi) as Hf. cbn [uuid_of] in Hf. rewrite Hf.
    rewrite (find_group_at loc pc si sch Hp Hi). cbn [of_option bind].
    rewrite (group_merge_self now si (at_path_has_lm loc pc si sch Hp Hi)). cbn [bind].
    rewrite (put_group_id _ root si sch (find_group_at loc pc si sch Hp Hi)). reflexivity.
  Qed.

  (* one entry: found at the same place, not diverged, so the loop continues *)
  Lemma merge_entry_step_self path pc in_del oe :
    at_path path rch pc -> In (NE oe) pc ->
    merge_entry_step now del path in_del oe root = Ok (root, []).
  Proof.
    intros Hp Hi. unfold merge_entry_step. cbn [children_of].
    pose proof (fnl_db_at path rch pc (NE oe) Nd Hp Hi) as Hf. cbn [uuid_of] in Hf. rewrite Hf.
    rewrite (find_entry_at path pc oe Hp Hi). cbn [unwrap bind].
    rewrite optN_eqb_refl. cbn [negb andb bind].
    rewrite entry_diverged_refl. reflexivity.
  Qed.

  Lemma merge_entries_self path pc in_del : forall l,
    at_path path rch pc -> incl l pc ->
    merge_entries now del path in_del l root = Ok (root, []).
  Proof.
    induction l as [|x r IH]; intros Hp Hl; [reflexivity|]. cbn [merge_entries].
    assert (Hr : incl r pc) by (intros y Hy; apply Hl; right; exact Hy).
    destruct x as [j c|oe]; [exact (IH Hp Hr)|].
    rewrite (merge_entry_step_self path pc in_del oe Hp (Hl _ (or_introl eq_refl))). cbn [bind].
    rewrite (IH Hp Hr). reflexivity.
  Qed.

  (* one sub-group: found at the same place, so no relocation and no creation; the flag
     `is_in_deleted_group` may be switched on by a tombstone, the recursive call is the same *)
  Lemma merge_subgroup_step_self path pc in_del j jc rec :
    at_path path rch pc -> In (NG j jc) pc ->
    (forall d, rec (path ++ [gi_uuid j]) d root = Ok (root, [])) ->
    merge_subgroup_step now del path in_del j rec root = Ok (root, []).
  Proof.
    intros Hp Hi Hrec. unfold merge_subgroup_step.
    destruct (deleted_contains del (gi_uuid j) || in_del); [apply Hrec|]. cbn [children_of].
    pose proof (fnl_db_at path rch pc (NG j jc) Nd Hp Hi) as Hf. cbn [uuid_of] in Hf. rewrite Hf.
    rewrite path_eqb_refl. cbn [negb]. rewrite Hrec. reflexivity.
  Qed.

  Definition self_at (x : node) : Prop :=
    forall loc pc in_del, at_path loc rch pc -> In x pc -> is_group x = true ->
      merge_group now del (loc ++ [uuid_of x]) x in_del root = Ok (root, []).

  Lemma groups_loop_self path pc in_del : forall l,
    at_path path rch pc -> incl l pc -> Forall self_at l ->
    groups_loop now del path in_del l root = Ok (root, []).
  Proof.
    induction l as [|x r IH]; intros Hp Hl Hall; [reflexivity|]. rewrite groups_loop_cons.
    assert (Hr : incl r pc) by (intros y Hy; apply Hl; right; exact Hy).
    apply Forall_cons_iff in Hall as [Hx Hall].
    destruct x as [j jc|e]; [|exact (IH Hp Hr Hall)].
    assert (Hi : In (NG j jc) pc) by (apply Hl; left; reflexivity).
    rewrite (merge_subgroup_step_self path pc in_del j jc _ Hp Hi).
    - cbn [bind]. rewrite (IH Hp Hr Hall). reflexivity.
    - intro d. exact (Hx path pc d Hp Hi eq_refl).
  Qed.

  (* the core induction: a sub-tree that sits in the destination at [loc] *)
  Theorem merge_group_subtree_self : forall x, self_at x.
  Proof.
    induction x as [e|i c IH] using node_ind'; intros loc pc in_del Hp Hi Hg; [discriminate|].
    cbn [uuid_of]. rewrite merge_group_unfold.
    assert (Hc : at_path (loc ++ [gi_uuid i]) rch c).
    { exact (at_path_snoc loc rch pc (NG i c) Hp Hi eq_refl). }
    rewrite (merge_group_head_self loc pc i c Hp Hi). cbn [bind].
    rewrite (merge_entries_self _ c in_del c Hc (incl_refl c)). cbn [bind].
    rewrite (groups_loop_self _ c in_del c Hc (incl_refl c) IH). reflexivity.
  Qed.

  (* the root itself: since the repair F19 the head step is Group::merge_with of the root's own
     fields with themselves (before: the root was not found among its own descendants and the head
     did nothing); that is the identity exactly when the root is stamped, [group_merge_self] *)
  Hypothesis Hrlm : t_lm (gi_times ri) <> None.

  Lemma merge_group_head_root_self : merge_group_head now ri root = Ok (root, []).
  Proof. rewrite merge_group_head_root by reflexivity. rewrite (group_merge_self now ri Hrlm). reflexivity. Qed.

  Theorem merge_group_root_self : merge_group now del [] root false root = Ok (root, []).
  Proof.
    rewrite merge_group_unfold. rewrite merge_group_head_root_self. cbn [bind].
    assert (Hp : at_path [] rch rch) by reflexivity.
    rewrite (merge_entries_self [] rch false rch Hp (incl_refl rch)). cbn [bind].
    rewrite (groups_loop_self [] rch false rch Hp (incl_refl rch)); [reflexivity|].
    apply Forall_forall. intros x _. apply merge_group_subtree_self.
  Qed.
End self.

(* ---------- the theorem ---------- *)

Theorem merge_self : forall now d, wf_self d -> merge now d d = Ok (d, []).
Proof.
  intros now [ri rch dl] [Hu Hl]. unfold uuids_ok, groups_lm_ok, db_root in *.
  cbn [db_root_info db_children] in *. apply NoDup_cons_iff in Hu as [Hroot Nd].
  apply Forall_cons_iff in Hl as [Hrl Hl]. cbn [group_has_lm] in Hrl.
  unfold merge, db_root. cbn [db_root_info db_children db_deleted].
  rewrite (merge_group_root_self now dl ri rch Nd Hl Hroot Hrl). cbn [bind].
  rewrite merge_deletions_self. reflexivity.
Qed.

Corollary merge_selfb now d : wf_selfb d = true -> merge now d d = Ok (d, []).
Proof. intro H. apply merge_self. apply wf_selfb_spec. exact H. Qed.

(* ---------- History::merge_with of a history with itself ---------- *)
(* Not used by [merge_self] (entries are never merged when equal); recorded because it says what
   the history merge needs in order to be the identity: every item stamped, strictly newest first. *)

Definition lm_key (h : entry) : Z := match t_lm (e_times h) with Some t => t | None => 0%Z end.
Definition table_of (l : list entry) : list (Z * entry) := map (fun h => (lm_key h, h)) l.

Definition hist_sorted (l : list entry) : Prop :=
  all_lm l /\ StronglySorted (fun a b => (lm_key a > lm_key b)%Z) l.

Lemma hist_self_table : forall l acc,
  all_lm l -> NoDup (keys acc ++ map lm_key l) -> hist_self acc l = Ok (acc ++ table_of l).
Proof.
  induction l as [|h r IH]; intros acc Al Hn.
  - cbn [hist_self table_of map]. rewrite app_nil_r. reflexivity.
  - cbn [hist_self]. apply Forall_cons_iff in Al as [Hh Al].
    destruct (t_lm (e_times h)) as [t|] eqn:Et; [|contradiction].
    assert (Ek : lm_key h = t) by (unfold lm_key; rewrite Et; reflexivity).
    cbn [map] in Hn. rewrite Ek in Hn.
    assert (Lk : lookup_time t acc = None).
    { apply lookup_time_none. intro Hin. apply NoDup_remove_2 in Hn. apply Hn.
      apply in_or_app. left. exact Hin. }
    rewrite Lk, IH.
    + unfold table_of. cbn [map]. rewrite Ek, <- app_assoc. reflexivity.
    + exact Al.
    + unfold keys in *. rewrite map_app, <- app_assoc. cbn [map fst app]. exact Hn.
Qed.

Lemma lookup_table : forall l h,
  NoDup (map lm_key l) -> In h l -> lookup_time (lm_key h) (table_of l) = Some h.
Proof.
  induction l as [|x r IH]; intros h Nd Hi; [destruct Hi|].
  unfold table_of. cbn [map lookup_time]. fold (table_of r).
  cbn [map] in Nd. apply NoDup_cons_iff in Nd as [Hn Nd].
  destruct Hi as [->|Hi]; [rewrite Z.eqb_refl; reflexivity|].
  destruct (Z.eqb_spec (lm_key x) (lm_key h)) as [E|Ne].
  - exfalso. apply Hn. rewrite E. apply in_map. exact Hi.
  - apply IH; assumption.
Qed.

Lemma hist_other_same m : forall l lg,
  all_lm l -> (forall h, In h l -> lookup_time (lm_key h) m = Some h) ->
  hist_other m lg l = Ok (m, lg).
Proof.
  induction l as [|a r IH]; intros lg Al H; cbn [hist_other]; [reflexivity|].
  apply Forall_cons_iff in Al as [Ha Al].
  pose proof (H a (or_introl eq_refl)) as Lk. unfold lm_key in Lk.
  destruct (t_lm (e_times a)) as [t|]; [|contradiction].
  rewrite Lk, entry_diverged_refl, app_nil_r. apply IH; [exact Al|].
  intros h Hh. apply H. right. exact Hh.
Qed.

Lemma sort_desc_id m : desc m -> sort_desc m = m.
Proof.
  induction 1 as [|x r Hr IH Hx]; [reflexivity|]. cbn [sort_desc fold_right]. fold (sort_desc r).
  rewrite IH. destruct r as [|y r']; [reflexivity|]. cbn [insert_desc].
  apply Forall_inv in Hx. destruct (Z.leb_spec (fst y) (fst x)) as [L|L]; [reflexivity|lia].
Qed.

Lemma sorted_keys_nodup l :
  StronglySorted (fun a b => (lm_key a > lm_key b)%Z) l -> NoDup (map lm_key l).
Proof.
  induction 1 as [|x r Hr IH Hx]; cbn [map]; constructor; [|exact IH].
  intro Hin. apply in_map_iff in Hin as (y & Ey & Hy).
  pose proof (proj1 (Forall_forall _ _) Hx y Hy) as Hgt. cbn beta in Hgt. lia.
Qed.

Lemma sorted_table_desc l :
  StronglySorted (fun a b => (lm_key a > lm_key b)%Z) l -> desc (table_of l).
Proof.
  induction 1 as [|x r Hr IH Hx]; unfold table_of; cbn [map]; constructor; [exact IH|].
  apply Forall_forall. intros p Hp. apply in_map_iff in Hp as (y & <- & Hy). cbn [fst].
  exact (proj1 (Forall_forall _ _) Hx y Hy).
Qed.

Theorem history_merge_self h : hist_sorted h -> history_merge_with h h = Ok (h, []).
Proof.
  intros [Al Hs]. unfold history_merge_with.
  pose proof (sorted_keys_nodup h Hs) as Nd.
  rewrite (hist_self_table h [] Al) by (cbn [keys map app]; exact Nd). cbn [bind app].
  rewrite (hist_other_same (table_of h) h [] Al) by (intros x Hx; apply lookup_table; assumption).
  cbn [bind]. rewrite (sort_desc_id _ (sorted_table_desc h Hs)).
  unfold table_of. rewrite map_map. cbn [snd]. rewrite map_id. reflexivity.
Qed.

(* ---------- examples ---------- *)

Definition tm (lm lc : Z) : times := mkTimes (Some lm) (Some lc) 0.

(* non-vacuity: nested groups, entries with histories, tombstones for nodes not in the tree *)
Definition ex_e1 : entry :=
  mkEntry 1 12 (tm 3 0)
          (Some [mkEntry 1 12 (tm 3 0) None; mkEntry 1 11 (tm 2 0) None; mkEntry 1 10 (tm 1 0) None]).
Definition ex_e2 : entry := mkEntry 2 20 (tm 4 1) (Some [mkEntry 2 20 (tm 4 1) None]).
Definition ex_e3 : entry := mkEntry 3 30 (tm 2 2) (Some []).
Definition ex_e4 : entry := mkEntry 4 40 (tm 7 3) None.

Definition ex_db : db :=
  mkDb (mkGinfo 100 1 (tm 9 0))
       [NE ex_e1;
        NG (mkGinfo 10 5 (tm 5 0))
           [NE ex_e2;
            NG (mkGinfo 11 6 (tm 6 1)) [NE ex_e3; NG (mkGinfo 12 7 (tm 1 1)) []];
            NE ex_e4];
        NG (mkGinfo 13 8 (tm 2 0)) []]
       [mkDobj 50 3; mkDobj 51 8; mkDobj 52 1].

Example ex_db_wf : wf_self ex_db.
Proof. apply wf_selfb_spec. vm_compute. reflexivity. Qed.

Example ex_db_merge : merge 5 ex_db ex_db = Ok (ex_db, []).
Proof. vm_compute. reflexivity. Qed.

(* what is NOT needed: the entries have no LastModificationTime, a history is
   unsorted with a repeated and a missing time stamp, tombstones name a group and an entry of the
   tree with times later than theirs.  Still well-formed, still nothing happens.
   (Before the repair F19 the root here had no LastModificationTime either; now that is
   [cx_root_lm_needed] below.) *)
Definition ex_wild : db :=
  mkDb (mkGinfo 100 1 (tm 9 0))
       [NE (mkEntry 1 12 times_default
                    (Some [mkEntry 1 10 (tm 1 0) None; mkEntry 1 11 (tm 4 0) None;
                           mkEntry 1 13 (tm 4 0) None; mkEntry 1 14 times_default None]));
        NG (mkGinfo 10 5 (tm 5 0)) [NE (mkEntry 2 20 (tm 4 1) None); NG (mkGinfo 11 6 (tm 6 1)) []]]
       [mkDobj 11 100; mkDobj 2 100; mkDobj 10 100; mkDobj 1 100].

Example ex_wild_wf : wf_self ex_wild.
Proof. apply wf_selfb_spec. vm_compute. reflexivity. Qed.

Example ex_wild_merge : merge 5 ex_wild ex_wild = Ok (ex_wild, []).
Proof. vm_compute. reflexivity. Qed.

(* the same tombstones coming from ANOTHER database do delete: the destination without them *)
Definition ex_wild_live : db := mkDb (db_root_info ex_wild) (db_children ex_wild) [].

Example ex_wild_other :
  merge 5 ex_wild_live ex_wild =
  Ok (mkDb (mkGinfo 100 1 (tm 9 0)) [] [mkDobj 2 100; mkDobj 1 100; mkDobj 11 100; mkDobj 10 100],
      [Ev EntryDeleted 2; Warn; Ev EntryDeleted 1; Ev GroupDeleted 11; Ev GroupDeleted 10]).
Proof. vm_compute. reflexivity. Qed.

(* ---------- each hypothesis is needed ---------- *)

(* (2) dropped below the root: a group without LastModificationTime; UUIDs distinct.  Two warnings. *)
Definition cx_lm : db := mkDb (mkGinfo 100 0 (tm 1 0)) [NG (mkGinfo 1 0 times_default) []] [].

Example cx_lm_needed :
  uuids_okb cx_lm = true /\ groups_lm_okb cx_lm = false
  /\ merge 5 cx_lm cx_lm = Ok (cx_lm, [Warn; Warn])
  /\ merge 5 cx_lm cx_lm <> Ok (cx_lm, []).
Proof.
  split; [vm_compute; reflexivity|]. split; [vm_compute; reflexivity|].
  split; [vm_compute; reflexivity|]. intro H. vm_compute in H. discriminate H.
Qed.

(* (2) dropped for the root only (new with the repair F19): the root has no LastModificationTime,
   every group below it has one, UUIDs distinct.  Group::merge_with of the root with itself reads
   the missing stamp as [now] on one side and as the epoch on the other: two warnings, whatever
   [now] is; nothing else changes. *)
Definition cx_root_lm : db :=
  mkDb (mkGinfo 100 0 times_default) [NG (mkGinfo 1 0 (tm 2 0)) [NE (mkEntry 2 10 (tm 1 0) (Some []))]] [].

Example cx_root_lm_needed :
  uuids_okb cx_root_lm = true
  /\ forallb group_has_lmb (nodes_of (db_children cx_root_lm)) = true
  /\ groups_lm_okb cx_root_lm = false
  /\ merge 5 cx_root_lm cx_root_lm = Ok (cx_root_lm, [Warn; Warn])
  /\ merge 0 cx_root_lm cx_root_lm = Ok (cx_root_lm, [Warn; Warn])
  /\ merge 5 cx_root_lm cx_root_lm <> Ok (cx_root_lm, []).
Proof.
  split; [vm_compute; reflexivity|]. split; [vm_compute; reflexivity|].
  split; [vm_compute; reflexivity|]. split; [vm_compute; reflexivity|].
  split; [vm_compute; reflexivity|]. intro H. vm_compute in H. discriminate H.
Qed.

(* (1) dropped among the descendants: two entries with one UUID; every group stamped.
   The second is merged into the first: the tree changes and an update is reported. *)
Definition cx_dup : db :=
  mkDb (mkGinfo 100 0 (tm 1 0))
       [NE (mkEntry 1 10 (tm 1 0) (Some [])); NE (mkEntry 1 20 (tm 2 0) (Some []))] [].

Example cx_dup_needed :
  uuids_okb cx_dup = false /\ groups_lm_okb cx_dup = true
  /\ merge 5 cx_dup cx_dup =
     Ok (mkDb (mkGinfo 100 0 (tm 1 0))
              [NE (mkEntry 1 20 (tm 2 0) (Some [mkEntry 1 10 (tm 1 0) None]));
               NE (mkEntry 1 20 (tm 2 0) (Some []))] [],
         [Ev EntryUpdated 1; Warn])
  /\ merge 5 cx_dup cx_dup <> Ok (cx_dup, []).
Proof.
  split; [vm_compute; reflexivity|]. split; [vm_compute; reflexivity|].
  split; [vm_compute; reflexivity|]. intro H. vm_compute in H. discriminate H.
Qed.

(* (1) dropped for the root only: a sub-group carries the root's UUID (descendants distinct).
   Since the repair F19 merge_group takes that sub-group for the root: the ROOT is overwritten with
   the newer sub-group's data and an update of the root is reported.  (Before the repair it was
   the other way round: the root was looked up among its descendants, this sub-group was found
   and overwritten with the root's data.) *)
Definition cx_root2 : db := mkDb (mkGinfo 1 7 (tm 2 0)) [NG (mkGinfo 1 3 (tm 9 0)) []] [].

Example cx_root2_needed :
  nodupb (uus (db_children cx_root2)) = true /\ uuids_okb cx_root2 = false /\ groups_lm_okb cx_root2 = true
  /\ merge 5 cx_root2 cx_root2 =
     Ok (mkDb (mkGinfo 1 3 (tm 9 0)) [NG (mkGinfo 1 3 (tm 9 0)) []] [], [Ev GroupUpdated 1])
  /\ merge 5 cx_root2 cx_root2 <> Ok (cx_root2, []).
Proof.
  split; [vm_compute; reflexivity|]. split; [vm_compute; reflexivity|]. split; [vm_compute; reflexivity|].
  split; [vm_compute; reflexivity|]. intro H. vm_compute in H. discriminate H.
Qed.

(* ... and it is needed for groups only: an ENTRY carrying the root's UUID no longer disturbs the
   self-merge, because the root is not looked up among its descendants any more.  (Before the
   repair F19 this was the counter-example [cx_root_needed]: merge_group looked the root up, found
   the entry's location and failed with Err (EFindGroup [1]).) *)
Definition cx_root : db := mkDb (mkGinfo 1 0 (tm 1 0)) [NE (mkEntry 1 10 (tm 1 0) (Some []))] [].

Example cx_root_entry_harmless :
  nodupb (uus (db_children cx_root)) = true /\ uuids_okb cx_root = false /\ groups_lm_okb cx_root = true
  /\ merge 5 cx_root cx_root = Ok (cx_root, []).
Proof.
  split; [vm_compute; reflexivity|]. split; [vm_compute; reflexivity|]. split; [vm_compute; reflexivity|].
  vm_compute; reflexivity.
Qed.

(* entry level: Entry::merge of a stamped entry with itself is an error; of an unstamped one
   (now <> epoch) it goes into the history merge, where the unstamped entry, added to the source
   history as an uncommitted change, hits the unwrap.  merge_group never makes either call. *)
Example entry_merge_self_ex : entry_merge 5 ex_e1 ex_e1 = Err EEntryTime.
Proof. vm_compute. reflexivity. Qed.

Example entry_merge_self_unstamped :
  let e := mkEntry 1 12 times_default (Some []) in
  entry_merge 5 e e = Panic site_hist_other_unwrap.
Proof. vm_compute. reflexivity. Qed.

(* history level: what [hist_sorted] excludes *)
Example history_merge_self_ex :
  let h := [mkEntry 1 12 (tm 3 0) None; mkEntry 1 11 (tm 2 0) None; mkEntry 1 10 (tm 1 0) None] in
  history_merge_with h h = Ok (h, []).
Proof. vm_compute. reflexivity. Qed.

Example history_unsorted_reordered :
  let h := [mkEntry 1 10 (tm 1 0) None; mkEntry 1 11 (tm 2 0) None] in
  history_merge_with h h = Ok ([mkEntry 1 11 (tm 2 0) None; mkEntry 1 10 (tm 1 0) None], []).
Proof. vm_compute. reflexivity. Qed.

Example history_repeated_time_error :
  let h := [mkEntry 1 11 (tm 2 0) None; mkEntry 1 10 (tm 2 0) None] in
  history_merge_with h h = Err EDupHistory.
Proof. vm_compute. reflexivity. Qed.

Example history_unstamped_panics :
  let h := [mkEntry 1 11 times_default None] in
  history_merge_with h h = Panic site_hist_self_unwrap.
Proof. vm_compute. reflexivity. Qed.

(* The relocation guard of merge_group ("never move a group into its own sub-tree") cannot fire
   for a group that has no sub-group in the destination.

   The guard tests whether the group's UUID occurs in the destination path of its new parent.
   That path is readable in the tree on which the walk of the parent began
   ([merge_subgroup_step_spec], last clause), so every inner element of it has a child there
   ([path_member_child]).  New parent labels only ever are UUIDs of source groups whose children
   are being walked ([lab_all]); the group in question is walked later.  Hence, if the group's
   UUID were on the path, the destination would have held a sub-group of it from the start.
   (Since the repair F19 the walk lemmas also ask that no group below the source root carries the
   destination root's UUID: such a group would be merged into the root's own fields.) *)
From Coq Require Import Permutation.
From KP Require Import Bytes Outcome Tree TreeFacts History Merge MergeProofs MergeLookup
     MergeTermination MergeUuids MergeSelf MergeUnique MergeLwwEntry MergeLwwFrame MergeLww
     MergePlaceRows MergePlaceWalk.
Local Open Scope N_scope.

Section Guard.
  Variable now : Z.
  Variable deleted : list dobj.

  (* ---------- where the labels of group rows come from ---------- *)

  (* every group row of [b] has a label of [L] or the label of a group row of [a] *)
  Definition lab_ok (L : list N) (a b : node) : Prop :=
    forall p i, In (p, IG i) (rows b) -> In p L \/ exists i0, In (p, IG i0) (rows a).

  Lemma lab_ok_refl L a : lab_ok L a a.
  Proof. intros p i H. right. exists i. exact H. Qed.

  Lemma lab_ok_mono L L' a b : incl L L' -> lab_ok L a b -> lab_ok L' a b.
  Proof. intros Hi H p i Hin. destruct (H p i Hin) as [Hl|Hr]; [left; apply Hi; exact Hl|right; exact Hr]. Qed.

  Lemma lab_ok_trans L a b c : lab_ok L a b -> lab_ok L b c -> lab_ok L a c.
  Proof.
    intros H1 H2 p i Hin. destruct (H2 p i Hin) as [Hl|(i0 & Hb)]; [left; exact Hl|]. exact (H1 p i0 Hb).
  Qed.

  Lemma lab_from_spec L v a b (R : option row -> option row -> Prop) :
    only [v] a b -> NoDup (all_uuids b) ->
    (forall pre, ustate v a pre -> exists post, ustate v b post /\ R pre post) ->
    (forall pre p i, R pre (Some (p, IG i)) -> In p L \/ exists i0, pre = Some (p, IG i0)) ->
    lab_ok L a b.
  Proof.
    intros Ho Ndb Hs HR p i Hin.
    destruct (N.eq_dec (gi_uuid i) v) as [E|Ne].
    - subst v. destruct (ustate_total (gi_uuid i) a) as [pre Hpre].
      destruct (Hs pre Hpre) as (post & Hpost & Hr).
      assert (E : post = Some (p, IG i)).
      { apply (ustate_fun (gi_uuid i) b); [exact Ndb|exact Hpost|]. split; [exact Hin|reflexivity]. }
      subst post. destruct (HR _ _ _ Hr) as [Hl|(i0 & ->)]; [left; exact Hl|right].
      exists i0. destruct Hpre as [Hp _]. exact Hp.
    - right. exists i. apply (Ho (p, IG i)); [|exact Hin]. intros [E|[]]. apply Ne. symmetry. exact E.
  Qed.

  Lemma merge_group_head_lab si root root' lg :
    merge_group_head now si root = Ok (root', lg) -> NoDup (all_uuids root) -> lab_ok [] root root'.
  Proof.
    intros H Nd. destruct (merge_group_head_spec _ _ _ _ _ H Nd) as (O & _ & S & R).
    assert (Hc : (is_group root = true -> gi_uuid si <> uuid_of root) \/ rows root' = rows root).
    { destruct root as [ri rc|e]; [|left; discriminate].
      destruct (N.eq_dec (gi_uuid si) (gi_uuid ri)) as [E|Ne]; [right|left; intros _; exact Ne].
      exact (proj1 (R ri eq_refl E)). }
    destruct Hc as [Hc|Er].
    2:{ (* the root group itself (F19): no row changes *)
        intros p i Hin. right. exists i. rewrite <- Er. exact Hin. }
    apply (lab_from_spec [] (gi_uuid si) root root' (hrel now si) O); [|exact (S Hc)|].
    - exact (step_ok_nodup _ _ _ (merge_group_head_ok _ _ _ _ _ H) Nd).
    - intros pre p i Hr. right. destruct pre as [[p0 [g|e]]|]; cbn [hrel] in Hr; [|contradiction|discriminate].
      destruct Hr as (g' & lg' & _ & Hp). injection Hp as <- _. exists g. reflexivity.
  Qed.

  Lemma merge_entry_step_lab path in_del oe root root' lg :
    merge_entry_step now deleted path in_del oe root = Ok (root', lg) -> NoDup (all_uuids root) ->
    lab_ok [] root root'.
  Proof.
    intros H Nd. destruct (merge_entry_step_spec _ _ _ _ _ _ _ _ H Nd) as (O & _ & S).
    apply (lab_from_spec [] (e_uuid oe) root root'
             (fun pre post => erel now deleted in_del (last path (uuid_of root)) oe pre post lg) O);
      [|exact S|].
    - exact (step_ok_nodup _ _ _ (merge_entry_step_ok _ _ _ _ _ _ _ _ H) Nd).
    - intros pre p i Hr. exfalso. destruct pre as [[p0 [g|e]]|]; cbn [erel] in Hr; [contradiction| |].
      + destruct Hr as (p' & e1 & e' & Hp & _). discriminate Hp.
      + destruct (deleted_contains deleted (e_uuid oe) || in_del); discriminate Hr.
  Qed.

  Lemma merge_entries_lab path in_del : forall l root root' lg,
    merge_entries now deleted path in_del l root = Ok (root', lg) -> NoDup (all_uuids root) ->
    lab_ok [] root root'.
  Proof.
    induction l as [|x r IH]; intros root root' lg H Nd; cbn [merge_entries] in H.
    - injection H as <- _. apply lab_ok_refl.
    - destruct x as [j jc|oe]; [exact (IH _ _ _ H Nd)|].
      destruct (merge_entry_step now deleted path in_del oe root) as [[root1 lg1]| | |] eqn:E1;
        cbn [bind] in H; try discriminate.
      destruct (merge_entries now deleted path in_del r root1) as [[root2 lg2]| | |] eqn:E2;
        cbn [bind] in H; try discriminate.
      injection H as <- _.
      pose proof (step_ok_nodup _ _ _ (merge_entry_step_ok _ _ _ _ _ _ _ _ E1) Nd) as Nd1.
      exact (lab_ok_trans _ _ _ _ (merge_entry_step_lab _ _ _ _ _ _ E1 Nd) (IH _ _ _ E2 Nd1)).
  Qed.

  Definition lab_at (x : node) : Prop :=
    forall path in_del root root' lg,
      merge_group now deleted path x in_del root = Ok (root', lg) -> NoDup (all_uuids root) ->
      lab_ok (last path (uuid_of root) :: all_uuids x) root root'.

  Lemma groups_loop_lab path in_del : forall l,
    Forall lab_at l ->
    forall root root' lg,
    groups_loop now deleted path in_del l root = Ok (root', lg) -> NoDup (all_uuids root) ->
    lab_ok (last path (uuid_of root) :: uus l) root root'.
  Proof.
    induction 1 as [|x r Hx Hall IH]; intros root root' lg H Nd.
    - rewrite groups_loop_nil in H. injection H as <- _. apply lab_ok_refl.
    - rewrite groups_loop_cons in H. change (uus (x :: r)) with (uu x ++ uus r).
      destruct x as [j jc|e0].
      2:{ eapply lab_ok_mono; [|exact (IH _ _ _ H Nd)]. intros u [<-|Hu]; [left; reflexivity|].
          right. apply in_or_app. right. exact Hu. }
      destruct (merge_subgroup_step _ _ _ _ _ _ root) as [[root1 lg1]| | |] eqn:E1; cbn [bind] in H;
        try discriminate.
      destruct (groups_loop now deleted path in_del r root1) as [[root2 lg2]| | |] eqn:E2;
        cbn [bind] in H; try discriminate.
      injection H as <- _.
      pose proof (subgroup_step_nodup _ _ _ _ _ _ _ _ _ E1 Nd) as Nd1.
      destruct (merge_subgroup_step_spec _ _ _ _ _ _ _ _ _ E1 Nd)
        as (q & rootm & lgm & w & Hrec & _ & Ndm & Um & Om & _ & Spre & _).
      cbv beta in Hrec.
      assert (Lm : lab_ok [last path (uuid_of root)] root rootm).
      { apply (lab_from_spec _ (gi_uuid j) root rootm
                 (fun pre mid => prel now (deleted_contains deleted (gi_uuid j) || in_del) path
                                      (last path (uuid_of root)) j pre mid w) Om Ndm Spre).
        intros pre p i Hr. destruct pre as [[pd it]|]; cbn [prel] in Hr.
        - destruct Hr as [(gd & _ & Hm & _)|(Hm & _)].
          + injection Hm as <- _. left. left. reflexivity.
          + right. injection Hm as <- <-. exists i. reflexivity.
        - destruct (deleted_contains deleted (gi_uuid j) || in_del); [discriminate|].
          injection Hr as <- _. left. left. reflexivity. }
      pose proof (Hx _ _ _ _ _ Hrec Ndm) as Lr. rewrite last_snoc in Lr.
      assert (Ur : uuid_of root1 = uuid_of root).
      { rewrite <- Um. exact (proj1 (merge_group_step _ _ _ _ _ _ _ _ Hrec)). }
      pose proof (IH _ _ _ E2 Nd1) as L2. rewrite Ur in L2.
      apply (lab_ok_trans _ _ root1 _); [apply (lab_ok_trans _ _ rootm _)|].
      + eapply lab_ok_mono; [|exact Lm]. intros u [<-|[]]. left. reflexivity.
      + eapply lab_ok_mono; [|exact Lr]. intros u Hu. right. apply in_or_app. left. exact Hu.
      + eapply lab_ok_mono; [|exact L2]. intros u [<-|Hu]; [left; reflexivity|].
        right. apply in_or_app. right. exact Hu.
  Qed.

  Lemma lab_all : forall src, lab_at src.
  Proof.
    induction src as [e0|si sch IH] using node_ind'; intros path in_del root root' lg H Nd; [discriminate|].
    destruct (merge_group_parts _ _ _ _ _ _ _ _ _ (rframe_forall now deleted sch) H Nd)
      as (root0 & lg0 & root1 & lg1 & lg2 & E0 & E1 & E2 & _ & Nd0 & Nd1 & _ & U1 & _).
    pose proof (merge_group_head_lab _ _ _ _ E0 Nd) as L0.
    pose proof (merge_entries_lab _ _ _ _ _ _ E1 Nd0) as L1.
    pose proof (groups_loop_lab _ _ _ IH _ _ _ E2 Nd1) as L2. rewrite U1 in L2.
    change (all_uuids (NG si sch)) with (uus sch).
    apply (lab_ok_trans _ _ root1 _); [|exact L2].
    apply (lab_ok_mono []); [intros u []|]. exact (lab_ok_trans _ _ _ _ L0 L1).
  Qed.

  (* the group with UUID [u] has no sub-group *)
  Definition no_subgroup (u : N) (t : node) : Prop := forall i, ~ In (u, IG i) (rows t).

  Lemma no_subgroup_lab L a b u : lab_ok L a b -> ~ In u L -> no_subgroup u a -> no_subgroup u b.
  Proof.
    intros Hl Hu Ha i Hin. destruct (Hl u i Hin) as [Hx|(i0 & Hx)]; [exact (Hu Hx)|exact (Ha i0 Hx)].
  Qed.

  (* ---------- the flag only grows ---------- *)

  Lemma flag_of_true c : flag_of deleted true c = true.
  Proof. destruct c; cbn [flag_of]; [apply orb_true_r|reflexivity]. Qed.

  Lemma srows_l_true : forall n lbl f' r, In (f', r) (srows_l deleted true lbl n) -> f' = true.
  Proof.
    induction n as [e|i ch IH] using node_ind'; intros lbl f' r H; [destruct H|].
    cbn [srows_l] in H. apply in_flat_map in H as (c & Hc & H). rewrite flag_of_true in H.
    destruct H as [H|H]; [injection H as <- _; reflexivity|].
    exact (proj1 (Forall_forall _ _) IH c Hc _ _ _ H).
  Qed.

  (* ---------- the walk ---------- *)

  (* a direct sub-group, with the guard known not to fire *)
  Lemma groups_loop_direct_moves path in_del : forall l root root' lg j jc,
    groups_loop now deleted path in_del l root = Ok (root', lg) -> NoDup (all_uuids root) ->
    NoDup (uus l) -> In (NG j jc) l ->
    deleted_contains deleted (gi_uuid j) || in_del = false ->
    forall pd gd, In (pd, IG gd) (rows root) -> gi_uuid gd = gi_uuid j ->
    last path (uuid_of root) <> pd -> (lc_dst now (gi_times gd) < lc_src (gi_times j))%Z ->
    existsb (N.eqb (gi_uuid j)) path = false ->
    In (Ev GroupLocationUpdated (gi_uuid j)) lg.
  Proof.
    induction l as [|x r IH]; intros root root' lg j jc H Nd Ndl Hin Hfl pd gd Hd Hu Hne Hlc Hg; [destruct Hin|].
    rewrite groups_loop_cons in H. destruct (uus_cons_parts _ _ Ndl) as (Ndx & Ndr & Hdis).
    destruct x as [j0 jc0|e0].
    2:{ destruct Hin as [Hin|Hin]; [discriminate|]. exact (IH _ _ _ _ _ H Nd Ndr Hin Hfl pd gd Hd Hu Hne Hlc Hg). }
    destruct (merge_subgroup_step _ _ _ _ _ _ root) as [[root1 lg1]| | |] eqn:E1; cbn [bind] in H;
      try discriminate.
    destruct (groups_loop now deleted path in_del r root1) as [[root2 lg2]| | |] eqn:E2;
      cbn [bind] in H; try discriminate.
    injection H as <- <-.
    pose proof (subgroup_step_nodup _ _ _ _ _ _ _ _ _ E1 Nd) as Nd1.
    destruct (merge_subgroup_step_spec _ _ _ _ _ _ _ _ _ E1 Nd)
      as (q & rootm & lgm & w & Hrec & -> & Ndm & Um & Om & Lw & Spre & _).
    cbv beta in Hrec. destruct (rframe_all _ _ _ _ _ _ _ _ Hrec Ndm) as (Or & Lr).
    destruct Hin as [Hin|Hin].
    - injection Hin as -> ->.
      destruct (Spre (Some (pd, IG gd)) (conj Hd Hu)) as (mid & _ & Hprel).
      rewrite Hfl in Hprel. cbn [prel] in Hprel.
      destruct Hprel as [(_ & _ & _ & _ & _ & _ & Hev)|(_ & Hreason & _)].
      + apply in_or_app. left. apply in_or_app. left. exact Hev.
      + exfalso. destruct Hreason as [Hx|[Hx|[(gd' & Eg & Hx)|Hx]]]; [discriminate|contradiction| |congruence].
        injection Eg as <-. lia.
    - assert (Hjr : In (gi_uuid j) (uus r)) by (apply (in_uus_self (NG j jc)); exact Hin).
      assert (Hnx : ~ In (gi_uuid j) (uu (NG j0 jc0))) by (intro Hi; exact (Hdis _ Hi Hjr)).
      assert (Hj0 : incl [gi_uuid j0] (uu (NG j0 jc0))) by (intros u [<-|[]]; left; reflexivity).
      assert (O1 : only (uu (NG j0 jc0)) root root1).
      { apply (only_trans _ _ rootm _); [exact (only_mono _ _ _ _ Hj0 Om)|exact Or]. }
      assert (Hd1 : In (pd, IG gd) (rows root1)).
      { apply (O1 (pd, IG gd)); [unfold ru; cbn [snd iu]; rewrite Hu; exact Hnx|exact Hd]. }
      assert (Ur : uuid_of root1 = uuid_of root).
      { rewrite <- Um. exact (proj1 (merge_group_step _ _ _ _ _ _ _ _ Hrec)). }
      apply in_or_app. right. rewrite <- Ur in Hne.
      exact (IH _ _ _ _ _ E2 Nd1 Ndr Hin Hfl pd gd Hd1 Hu Hne Hlc Hg).
  Qed.

  Definition noguard_at (x : node) : Prop :=
    forall path in_del root root' lg lbl,
      merge_group now deleted path x in_del root = Ok (root', lg) -> NoDup (all_uuids root) ->
      NoDup (uu x) -> last path (uuid_of root) = lbl ->
      (path <> [] -> lbl = uuid_of x) -> ~ In lbl (all_uuids x) ->
      (in_del = false -> get_uuid path root <> None) ->
      (* F19: below the source root no group is taken for the destination's root *)
      (path <> [] -> uuid_of x <> uuid_of root) -> ~ In (uuid_of root) (all_uuids x) ->
      forall ps j, In (false, (ps, IG j)) (srows_l deleted in_del lbl x) ->
      forall pd gd, In (pd, IG gd) (rows root) -> gi_uuid gd = gi_uuid j -> ps <> pd ->
      (lc_dst now (gi_times gd) < lc_src (gi_times j))%Z ->
      no_subgroup (gi_uuid j) root ->
      In (Ev GroupLocationUpdated (gi_uuid j)) lg.

  (* a group strictly below a sub-group of the group being walked *)
  Lemma groups_loop_deep_moves path in_del : forall l,
    Forall noguard_at l ->
    forall root root' lg c ps j,
    groups_loop now deleted path in_del l root = Ok (root', lg) -> NoDup (all_uuids root) ->
    NoDup (uus l) -> In c l ->
    In (false, (ps, IG j)) (srows_l deleted (flag_of deleted in_del c) (uuid_of c) c) ->
    ~ In (last path (uuid_of root)) (uus l) -> ~ In (uuid_of root) (uus l) ->
    forall pd gd, In (pd, IG gd) (rows root) -> gi_uuid gd = gi_uuid j -> ps <> pd ->
    (lc_dst now (gi_times gd) < lc_src (gi_times j))%Z ->
    no_subgroup (gi_uuid j) root ->
    In (Ev GroupLocationUpdated (gi_uuid j)) lg.
  Proof.
    induction 1 as [|x r Hx Hall IH]; intros root root' lg c ps j H Nd Ndl Hc Hin Hlab Hrt pd gd Hd Hu Hne Hlc Hq;
      [destruct Hc|].
    rewrite groups_loop_cons in H. destruct (uus_cons_parts _ _ Ndl) as (Ndx & Ndr & Hdis).
    assert (Hlabr : ~ In (last path (uuid_of root)) (uus r)).
    { intro Hi. apply Hlab. change (uus (x :: r)) with (uu x ++ uus r). apply in_or_app. right. exact Hi. }
    assert (Hrtr : ~ In (uuid_of root) (uus r)).
    { intro Hi. apply Hrt. change (uus (x :: r)) with (uu x ++ uus r). apply in_or_app. right. exact Hi. }
    destruct x as [j0 jc0|e0].
    2:{ destruct Hc as [<-|Hc]; [destruct Hin|].
        exact (IH _ _ _ _ _ _ H Nd Ndr Hc Hin Hlabr Hrtr pd gd Hd Hu Hne Hlc Hq). }
    destruct (merge_subgroup_step _ _ _ _ _ _ root) as [[root1 lg1]| | |] eqn:E1; cbn [bind] in H;
      try discriminate.
    destruct (groups_loop now deleted path in_del r root1) as [[root2 lg2]| | |] eqn:E2;
      cbn [bind] in H; try discriminate.
    injection H as <- <-.
    pose proof (subgroup_step_nodup _ _ _ _ _ _ _ _ _ E1 Nd) as Nd1.
    destruct (merge_subgroup_step_spec _ _ _ _ _ _ _ _ _ E1 Nd)
      as (q & rootm & lgm & w & Hrec & -> & Ndm & Um & Om & Lw & Spre & Hvalid).
    cbv beta in Hrec. destruct (rframe_all _ _ _ _ _ _ _ _ Hrec Ndm) as (Or & Lr).
    assert (Hj0 : incl [gi_uuid j0] (uu (NG j0 jc0))) by (intros u [<-|[]]; left; reflexivity).
    assert (Lm : lab_ok [last path (uuid_of root)] root rootm).
    { apply (lab_from_spec _ (gi_uuid j0) root rootm
               (fun pre mid => prel now (deleted_contains deleted (gi_uuid j0) || in_del) path
                                    (last path (uuid_of root)) j0 pre mid w) Om Ndm Spre).
      intros pre p i Hr. destruct pre as [[pd0 it]|]; cbn [prel] in Hr.
      - destruct Hr as [(gd0 & _ & Hm & _)|(Hm & _)].
        + injection Hm as <- _. left. left. reflexivity.
        + right. injection Hm as <- <-. exists i. reflexivity.
      - destruct (deleted_contains deleted (gi_uuid j0) || in_del); [discriminate|].
        injection Hr as <- _. left. left. reflexivity. }
    pose proof (srows_l_uuid _ _ _ _ _ _ _ Hin) as Hju. cbn [iu] in Hju.
    destruct Hc as [<-|Hc].
    - (* below this sub-group *)
      cbn [flag_of uuid_of] in Hin.
      assert (Hfl : deleted_contains deleted (gi_uuid j0) || in_del = false).
      { destruct (deleted_contains deleted (gi_uuid j0) || in_del); [|reflexivity].
        pose proof (srows_l_true _ _ _ _ Hin) as X. discriminate X. }
      rewrite Hfl in Hin, Hrec. pose proof Ndx as Ndx'. unfold uu in Ndx'. cbn [uuid_of] in Ndx'.
      apply NoDup_cons_iff in Ndx' as [Hself _].
      assert (Hne0 : ~ In (gi_uuid j) [gi_uuid j0]).
      { intros [E|[]]. apply Hself. rewrite E. exact Hju. }
      assert (Hdm : In (pd, IG gd) (rows rootm)).
      { apply (Om (pd, IG gd)); [unfold ru; cbn [snd iu]; rewrite Hu; exact Hne0|exact Hd]. }
      assert (Hqm : no_subgroup (gi_uuid j) rootm).
      { apply (no_subgroup_lab _ _ _ _ Lm); [|exact Hq]. intros [E|[]]. apply Hlab.
        change (uus (NG j0 jc0 :: r)) with (uu (NG j0 jc0) ++ uus r). apply in_or_app. left. right.
        rewrite E. exact Hju. }
      assert (Hrt0 : uuid_of (NG j0 jc0) <> uuid_of rootm).
      { rewrite Um. intro E. apply Hrt. rewrite <- E. apply (in_uus_self (NG j0 jc0)). left. reflexivity. }
      assert (Hrtm : ~ In (uuid_of rootm) (all_uuids (NG j0 jc0))).
      { rewrite Um. intro Hi. apply Hrt. change (uus (NG j0 jc0 :: r)) with (uu (NG j0 jc0) ++ uus r).
        apply in_or_app. left. right. exact Hi. }
      apply in_or_app. left. apply in_or_app. right.
      apply (Hx _ _ _ _ _ (gi_uuid j0) Hrec Ndm Ndx (last_snoc _ _ _) (fun _ => eq_refl) Hself
               (fun _ => Hvalid Hfl) (fun _ => Hrt0) Hrtm ps j Hin pd gd Hdm Hu Hne Hlc Hqm).
    - (* below a later sub-group *)
      assert (Hur : In (gi_uuid j) (uus r)) by exact (uu_incl_uus c r Hc _ (uu_below c _ Hju)).
      assert (Hnx : ~ In (gi_uuid j) (uu (NG j0 jc0))) by (intro Hi; exact (Hdis _ Hi Hur)).
      assert (O1 : only (uu (NG j0 jc0)) root root1).
      { apply (only_trans _ _ rootm _); [exact (only_mono _ _ _ _ Hj0 Om)|exact Or]. }
      assert (Hd1 : In (pd, IG gd) (rows root1)).
      { apply (O1 (pd, IG gd)); [unfold ru; cbn [snd iu]; rewrite Hu; exact Hnx|exact Hd]. }
      assert (Ur : uuid_of root1 = uuid_of root).
      { rewrite <- Um. exact (proj1 (merge_group_step _ _ _ _ _ _ _ _ Hrec)). }
      pose proof (lab_all _ _ _ _ _ _ Hrec Ndm) as Lr'. rewrite last_snoc in Lr'.
      assert (Hq1 : no_subgroup (gi_uuid j) root1).
      { apply (no_subgroup_lab _ _ _ _ Lr'); [exact Hnx|].
        apply (no_subgroup_lab _ _ _ _ Lm); [|exact Hq]. intros [E|[]]. apply Hlabr. rewrite E. exact Hur. }
      apply in_or_app. right. rewrite <- Ur in Hlabr, Hrtr.
      exact (IH _ _ _ _ _ _ E2 Nd1 Ndr Hc Hin Hlabr Hrtr pd gd Hd1 Hu Hne Hlc Hq1).
  Qed.

  Theorem noguard_all : forall src, noguard_at src.
  Proof.
    induction src as [e0|si sch IH] using node_ind';
      intros path in_del root root' lg lbl H Nd Nds Hl Hw Hnl Hv Hrs Hrt ps j Hin pd gd Hd Hu Hne Hlc Hq; [discriminate|].
    assert (Hf : in_del = false).
    { destruct in_del; [|reflexivity]. pose proof (srows_l_true _ _ _ _ Hin) as X. discriminate X. }
    subst in_del. specialize (Hv eq_refl).
    destruct (merge_group_parts _ _ _ _ _ _ _ _ _ (rframe_forall now deleted sch) H Nd)
      as (root0 & lg0 & root1 & lg1 & lg2 & E0 & E1 & E2 & -> & Nd0 & Nd1 & U0 & U1
          & O0 & L0 & O1 & L1 & O2 & L2).
    pose proof Nds as Nds'. unfold uu in Nds'. cbn [uuid_of] in Nds'.
    apply NoDup_cons_iff in Nds' as [Hsi Ndc]. change (all_uuids (NG si sch)) with (uus sch) in Hsi, Ndc, Hnl.
    cbn [srows_l] in Hin. apply in_flat_map in Hin as (c & Hc & Hin).
    (* the row of [gd] is still there when the groups loop starts *)
    assert (Hrow1 : forall u, In u (uus sch) -> ~ In u (euus sch) -> gi_uuid gd = u -> In (pd, IG gd) (rows root1)).
    { intros u Hus Hne1 Eu.
      assert (Hn0 : ~ In u [gi_uuid si]) by (intros [E|[]]; apply Hsi; rewrite E; exact Hus).
      apply (O1 (pd, IG gd)); [unfold ru; cbn [snd iu]; rewrite Eu; exact Hne1|].
      apply (O0 (pd, IG gd)); [unfold ru; cbn [snd iu]; rewrite Eu; exact Hn0|exact Hd]. }
    assert (Hq1 : no_subgroup (gi_uuid j) root1).
    { apply (no_subgroup_lab [] root root1); [|intros []|exact Hq].
      exact (lab_ok_trans _ _ _ _ (merge_group_head_lab _ _ _ _ E0 Nd) (merge_entries_lab _ _ _ _ _ _ E1 Nd0)). }
    apply in_or_app. right. apply in_or_app. right.
    destruct Hin as [Hin|Hin].
    - (* a direct sub-group *)
      injection Hin as Hfl <- Hit. destruct c as [j' jc|oe]; [|discriminate]. cbn [item_of] in Hit.
      injection Hit as ->. cbn [flag_of] in Hfl.
      assert (Hjs : In (gi_uuid j) (uus sch)) by (apply (in_uus_self (NG j jc)); exact Hc).
      assert (Hg : existsb (N.eqb (gi_uuid j)) path = false).
      { destruct (existsb (N.eqb (gi_uuid j)) path) eqn:G; [exfalso|reflexivity].
        apply existsb_exists in G as (x & Hx & Ex). apply N.eqb_eq in Ex. subst x.
        assert (Hp : path <> []) by (intro E; rewrite E in Hx; destruct Hx).
        specialize (Hw Hp). cbn [uuid_of] in Hw.
        destruct (get_uuid path root) as [g|] eqn:Eg; [|contradiction].
        assert (Hjl : gi_uuid j <> last path (uuid_of root)) by (rewrite Hl; intro E; apply Hnl; rewrite <- E; exact Hjs).
        destruct (path_member_child _ _ _ _ (uuid_of root) Eg Hx Hjl) as (it & Hit & Hcase).
        destruct it as [i|e]; [exact (Hq i Hit)|].
        destruct Hcase as [(i & Ei)|Ei]; [discriminate|]. cbn [iu] in Ei. rewrite Hl, Hw in Ei.
        destruct (merge_group_self _ _ _ _ _ _ _ _ _ H Nd Nds (Hrs Hp)) as (_ & S).
        destruct (S (Some (gi_uuid j, IE e)) (conj Hit Ei)) as (post & _ & Hh). exact Hh. }
      assert (Hn1 : ~ In (gi_uuid j) (euus sch)).
      { apply (not_in_euus_group sch (NG j jc)); [exact Ndc|exact Hc|reflexivity|left; reflexivity]. }
      rewrite <- Hl, <- U1 in Hne.
      exact (groups_loop_direct_moves _ _ _ _ _ _ _ _ E2 Nd1 Ndc Hc Hfl pd gd
               (Hrow1 _ Hjs Hn1 Hu) Hu Hne Hlc Hg).
    - (* deeper *)
      pose proof (srows_l_uuid _ _ _ _ _ _ _ Hin) as Hju. cbn [iu] in Hju.
      assert (Gc : is_group c = true) by (destruct c; [reflexivity|destruct Hin]).
      assert (Hjs : In (gi_uuid j) (uus sch)) by exact (uu_incl_uus c sch Hc _ (uu_below c _ Hju)).
      assert (Hn1 : ~ In (gi_uuid j) (euus sch)).
      { apply (not_in_euus_group sch c); [exact Ndc|exact Hc|exact Gc|apply uu_below; exact Hju]. }
      assert (Hlab : ~ In (last path (uuid_of root1)) (uus sch)) by (rewrite U1, Hl; exact Hnl).
      assert (Hrt1 : ~ In (uuid_of root1) (uus sch)) by (rewrite U1; exact Hrt).
      exact (groups_loop_deep_moves _ _ _ IH _ _ _ c ps j E2 Nd1 Ndc Hc Hin Hlab Hrt1 pd gd
               (Hrow1 _ Hjs Hn1 Hu) Hu Hne Hlc Hq1).
  Qed.
End Guard.

(* The merge never invents nodes and never re-creates what the destination has tombstoned:
   every UUID in the merged tree was in the destination tree, or is a UUID of the source tree
   that the destination's deleted-object list does not contain. *)
From KP Require Import Bytes Outcome Tree TreeFacts History Merge MergeProofs.
Local Open Scope N_scope.

(* UUIDs of all descendants of a node (not the node itself) *)
Fixpoint tree_uuids (n : node) : list N :=
  match n with
  | NE _ => []
  | NG _ ch => flat_map (fun x => uuid_of x :: tree_uuids x) ch
  end.

Definition node_uuids (x : node) : list N := uuid_of x :: tree_uuids x.
Definition forest_uuids (l : list node) : list N := flat_map node_uuids l.

Lemma tree_uuids_NG i ch : tree_uuids (NG i ch) = forest_uuids ch.
Proof. reflexivity. Qed.

Lemma tree_uuids_NE e : tree_uuids (NE e) = [].
Proof. reflexivity. Qed.

Lemma tree_uuids_children n : tree_uuids n = forest_uuids (children_of n).
Proof. destruct n; reflexivity. Qed.

Lemma forest_uuids_cons x r : forest_uuids (x :: r) = node_uuids x ++ forest_uuids r.
Proof. reflexivity. Qed.

Lemma forest_uuids_app a b : forest_uuids (a ++ b) = forest_uuids a ++ forest_uuids b.
Proof. apply flat_map_app. Qed.

Lemma in_forest x l : In x l -> incl (node_uuids x) (forest_uuids l).
Proof. intros H u Hu. apply in_flat_map. exists x. split; assumption. Qed.

Lemma in_forest_self x l : In x l -> In (uuid_of x) (forest_uuids l).
Proof. intro H. apply (in_forest x l H). left. reflexivity. Qed.

Lemma forest_uuids_filter p l : incl (forest_uuids (filter p l)) (forest_uuids l).
Proof.
  intros u Hu. apply in_flat_map in Hu as [x [Hx Hu]]. apply filter_In in Hx as [Hx _].
  apply (in_forest x l Hx). exact Hu.
Qed.

(* ---------- small facts about incl ---------- *)

Lemma incl_chain (A B C X1 X2 X : list N) :
  incl A (B ++ X1) -> incl B (C ++ X2) -> incl X1 (C ++ X) -> incl X2 (C ++ X) -> incl A (C ++ X).
Proof.
  intros H1 H2 H3 H4 u Hu. apply H1 in Hu. apply in_app_or in Hu as [Hu|Hu].
  - apply H2 in Hu. apply in_app_or in Hu as [Hu|Hu].
    + apply in_or_app. left. exact Hu.
    + apply H4. exact Hu.
  - apply H3. exact Hu.
Qed.

Lemma incl_app_self_l (A X : list N) : incl A (A ++ X).
Proof. apply incl_appl. apply incl_refl. Qed.

Lemma incl_to_app_l (A B X : list N) : incl A B -> incl A (B ++ X).
Proof. intro H. apply incl_appl. exact H. Qed.

Lemma incl_from_nil_r (A B : list N) : incl A (B ++ []) -> incl A B.
Proof. rewrite app_nil_r. auto. Qed.

(* ---------- lookups ---------- *)

Lemma find_In {A} (p : A -> bool) l x : find p l = Some x -> In x l.
Proof. intro H. apply find_some in H. tauto. Qed.

(* the node found under a path is part of the tree *)
Lemma get_uuid_incl path : forall root n,
  get_uuid path root = Some n ->
  incl (tree_uuids n) (tree_uuids root) /\ (path <> [] -> incl (node_uuids n) (tree_uuids root)).
Proof.
  induction path as [|h tail IH]; intros root n H.
  - cbn [get_uuid] in H. injection H as <-. split; [apply incl_refl|intro E; contradiction E; reflexivity].
  - assert (Hn : incl (node_uuids n) (tree_uuids root)).
    { cbn [get_uuid] in H. destruct tail as [|h2 tail2].
      - apply find_In in H. rewrite tree_uuids_children. apply in_forest. exact H.
      - destruct (find _ (children_of root)) as [g|] eqn:Eg; [|discriminate].
        apply find_In in Eg. apply IH in H as [_ H]. rewrite tree_uuids_children.
        intros u Hu. apply (in_forest g _ Eg). right. apply H; [discriminate|exact Hu]. }
    split; [|intros _; exact Hn]. intros u Hu. apply Hn. right. exact Hu.
Qed.

Lemma find_group_incl path root i c :
  find_group path root = Some (i, c) -> incl (forest_uuids c) (tree_uuids root).
Proof.
  unfold find_group. intro H. destruct (get_uuid path root) as [[i' c'|e]|] eqn:E; try discriminate.
  injection H as -> ->. apply get_uuid_incl in E as [E _]. exact E.
Qed.

Lemma find_entry_in path root e :
  find_entry path root = Some e -> path <> [] -> In (e_uuid e) (tree_uuids root).
Proof.
  unfold find_entry. intros H Hp. destruct (get_uuid path root) as [[i' c'|e']|] eqn:E; try discriminate.
  injection H as ->. apply get_uuid_incl in E as [_ E]. apply (E Hp). left. reflexivity.
Qed.

(* ---------- update_first / update_uuid ---------- *)

Lemma update_first_incl p f X : forall l l',
  update_first p f l = Some l' ->
  (forall x x', find p l = Some x -> f x = Some x' -> incl (node_uuids x') (node_uuids x ++ X)) ->
  incl (forest_uuids l') (forest_uuids l ++ X).
Proof.
  induction l as [|y r IH]; intros l' H Hf; cbn [update_first] in H; [discriminate|].
  cbn [find] in Hf. destruct (p y).
  - destruct (f y) as [y'|] eqn:Ey; cbn [option_map] in H; [|discriminate]. injection H as <-.
    rewrite !forest_uuids_cons. intros u Hu. apply in_app_or in Hu as [Hu|Hu].
    + apply (Hf y y' eq_refl Ey) in Hu. apply in_app_or in Hu as [Hu|Hu].
      * apply in_or_app. left. apply in_or_app. left. exact Hu.
      * apply in_or_app. right. exact Hu.
    + apply in_or_app. left. apply in_or_app. right. exact Hu.
  - destruct (update_first p f r) as [r'|] eqn:Er; cbn [option_map] in H; [|discriminate]. injection H as <-.
    rewrite !forest_uuids_cons. intros u Hu. apply in_app_or in Hu as [Hu|Hu].
    + apply in_or_app. left. apply in_or_app. left. exact Hu.
    + apply (IH r' eq_refl Hf) in Hu. apply in_app_or in Hu as [Hu|Hu].
      * apply in_or_app. left. apply in_or_app. right. exact Hu.
      * apply in_or_app. right. exact Hu.
Qed.

(* the general form: only the node that get_uuid designates is touched *)
Lemma update_uuid_incl_gen f X : forall path root root',
  update_uuid path f root = Some root' ->
  (forall n n', get_uuid path root = Some n -> f n = Some n' -> incl (node_uuids n') (node_uuids n ++ X)) ->
  incl (node_uuids root') (node_uuids root ++ X)
  /\ (path <> [] -> incl (tree_uuids root') (tree_uuids root ++ X)).
Proof.
  induction path as [|h tail IH]; intros root root' H Hf.
  - cbn [update_uuid] in H. split; [|intro E; contradiction E; reflexivity].
    apply Hf; [reflexivity|exact H].
  - cbn [update_uuid] in H. destruct root as [i ch|e]; [|discriminate].
    assert (Ht : exists ch', root' = NG i ch' /\ incl (forest_uuids ch') (forest_uuids ch ++ X)).
    { destruct tail as [|h2 tail2].
      - destruct (update_first _ f ch) as [ch'|] eqn:Eu; cbn [option_map] in H; [|discriminate].
        injection H as <-. exists ch'. split; [reflexivity|].
        eapply update_first_incl; [exact Eu|]. intros x x' Hx Hfx. apply Hf; [|exact Hfx].
        cbn [get_uuid children_of]. exact Hx.
      - destruct (update_first _ _ ch) as [ch'|] eqn:Eu; cbn [option_map] in H; [|discriminate].
        injection H as <-. exists ch'. split; [reflexivity|].
        eapply update_first_incl; [exact Eu|]. intros g g' Hg Hfg.
        apply IH in Hfg; [apply Hfg|]. intros n n' Hn Hfn. apply Hf; [|exact Hfn].
        cbn [get_uuid children_of]. rewrite Hg. exact Hn. }
    destruct Ht as [ch' [-> Hi]]. rewrite !tree_uuids_NG. split; [|intros _; exact Hi].
    unfold node_uuids. cbn [uuid_of app]. rewrite !tree_uuids_NG.
    intros u [Hu|Hu]; [left; exact Hu|right; apply Hi; exact Hu].
Qed.

(* (1a) as stated: f keeps the UUID of the node it rewrites and adds at most X below it *)
Lemma update_uuid_uuids path f root root' X :
  update_uuid path f root = Some root' ->
  (forall n n', f n = Some n' -> uuid_of n' = uuid_of n /\ incl (tree_uuids n') (tree_uuids n ++ X)) ->
  incl (tree_uuids root') (tree_uuids root ++ X).
Proof.
  intros H Hf. destruct path as [|h tail].
  - cbn [update_uuid] in H. apply Hf in H. tauto.
  - eapply update_uuid_incl_gen in H as [_ H]; [apply H; discriminate|].
    intros n n' _ Hfn. apply Hf in Hfn as [Eu Hi]. unfold node_uuids. rewrite Eu. cbn [app].
    intros u [Hu|Hu]; [left; exact Hu|right; apply Hi; exact Hu].
Qed.

(* (1b) writing a group back: same UUID as the group found there, children from the tree or X *)
Lemma put_group_uuids path i c root root' i0 c0 X :
  put_group path i c root = Some root' ->
  find_group path root = Some (i0, c0) ->
  gi_uuid i = gi_uuid i0 ->
  incl (forest_uuids c) (tree_uuids root ++ X) ->
  incl (tree_uuids root') (tree_uuids root ++ X).
Proof.
  unfold put_group, find_group. intros H Hg Eu Hc. destruct path as [|h tail].
  - cbn [update_uuid] in H. destruct root as [i1 c1|e]; [|discriminate]. injection H as <-.
    change (tree_uuids (NG i c)) with (forest_uuids c). exact Hc.
  - destruct (get_uuid (h :: tail) root) as [[i1 c1|e]|] eqn:Eg; try discriminate. injection Hg as -> ->.
    pose proof (update_uuid_incl_gen _ (tree_uuids root ++ X) _ _ _ H) as Hgen.
    destruct Hgen as [_ Hgen].
    + intros n n' Hn Hfn. rewrite Eg in Hn. injection Hn as <-. injection Hfn as <-.
      unfold node_uuids. cbn [uuid_of app]. rewrite Eu.
      change (tree_uuids (NG i c)) with (forest_uuids c).
      intros u [Hu|Hu]; [left; exact Hu|right; apply in_or_app; right; apply Hc; exact Hu].
    + intros u Hu. apply Hgen in Hu; [|discriminate].
      apply in_app_or in Hu as [Hu|Hu]; [apply in_or_app; left; exact Hu|exact Hu].
Qed.

(* (1c) writing an entry back: its UUID is one of the tree or one of X *)
Lemma put_entry_uuids path e root root' X :
  put_entry path e root = Some root' ->
  In (e_uuid e) (tree_uuids root ++ X) ->
  incl (tree_uuids root') (tree_uuids root ++ X).
Proof.
  unfold put_entry. intros H He. destruct path as [|h tail].
  - cbn [update_uuid] in H. destruct root as [i1 c1|e1]; [discriminate|]. injection H as <-.
    rewrite tree_uuids_NE. intros u [].
  - pose proof (update_uuid_incl_gen _ (tree_uuids root ++ X) _ _ _ H) as Hgen.
    destruct Hgen as [_ Hgen].
    + intros n n' _ Hfn. destruct n as [i1 c1|e1]; [discriminate|]. injection Hfn as <-.
      unfold node_uuids. cbn [uuid_of]. rewrite !tree_uuids_NE.
      intros u [<-|[]]. right. exact He.
    + intros u Hu. apply Hgen in Hu; [|discriminate].
      apply in_app_or in Hu as [Hu|Hu]; [apply in_or_app; left; exact Hu|exact Hu].
Qed.

Lemma put_entry_uuids_same path e root root' e0 X :
  put_entry path e root = Some root' ->
  find_entry path root = Some e0 ->
  e_uuid e = e_uuid e0 \/ In (e_uuid e) X ->
  incl (tree_uuids root') (tree_uuids root ++ X).
Proof.
  intros H Hf He. destruct path as [|h tail].
  - unfold put_entry in H. cbn [update_uuid] in H. destruct root as [i1 c1|e1]; [discriminate|].
    injection H as <-. rewrite tree_uuids_NE. intros u [].
  - eapply put_entry_uuids; [exact H|]. apply in_or_app. destruct He as [He|He]; [left|right; exact He].
    rewrite He. eapply find_entry_in; [exact Hf|discriminate].
Qed.

(* ---------- find_node_location ---------- *)

Lemma fnl_in_uuids u : forall n loc, fnl_in u n = Some loc -> In u (tree_uuids n).
Proof.
  induction n as [e|i ch IH] using node_ind'; intros loc H; [discriminate|].
  cbn [fnl_in] in H. rewrite tree_uuids_NG.
  revert loc H. induction IH as [|x r Hx _ IHr]; intros loc H; [discriminate|].
  rewrite forest_uuids_cons. apply in_or_app.
  destruct x as [j jc|e].
  - destruct (N.eqb_spec (gi_uuid j) u) as [E|_].
    + left. left. exact E.
    + destruct (fnl_in u (NG j jc)) as [l2|] eqn:E2.
      * left. right. eapply Hx. reflexivity.
      * right. eapply IHr. exact H.
  - destruct (N.eqb_spec (e_uuid e) u) as [E|_].
    + left. left. exact E.
    + right. eapply IHr. exact H.
Qed.

Lemma fnl_db_forest u : forall ch loc, fnl_db u ch = Some loc -> In u (forest_uuids ch).
Proof.
  induction ch as [|x r IH]; intros loc H; cbn [fnl_db] in H; [discriminate|].
  rewrite forest_uuids_cons. apply in_or_app.
  destruct x as [j jc|e].
  - destruct (N.eqb_spec (gi_uuid j) u) as [E|_].
    + left. left. exact E.
    + destruct (fnl_in u (NG j jc)) as [l2|] eqn:E2.
      * left. right. eapply fnl_in_uuids. exact E2.
      * right. eapply IH. exact H.
  - destruct (N.eqb_spec (e_uuid e) u) as [E|_].
    + left. left. exact E.
    + right. eapply IH. exact H.
Qed.

(* (1e) *)
Lemma fnl_db_uuids u root loc : fnl_db u (children_of root) = Some loc -> In u (tree_uuids root).
Proof. rewrite tree_uuids_children. apply fnl_db_forest. Qed.

(* ---------- remove_node, relocate_node ---------- *)

Lemma remove_node_spec u ch nd kept :
  remove_node u ch = Some (nd, kept) ->
  In nd ch /\ kept = filter (fun c => negb (N.eqb (uuid_of c) u)) ch.
Proof.
  unfold remove_node. destruct (rev (filter _ ch)) as [|x l] eqn:E; [discriminate|].
  intro H. injection H as <- <-. split; [|reflexivity].
  assert (Hx : In x (rev (filter (fun c => N.eqb (uuid_of c) u) ch))) by (rewrite E; left; reflexivity).
  apply in_rev in Hx. apply filter_In in Hx. tauto.
Qed.

Lemma remove_node_kept u ch nd kept :
  remove_node u ch = Some (nd, kept) -> incl (forest_uuids kept) (forest_uuids ch).
Proof. intro H. apply remove_node_spec in H as [_ ->]. apply forest_uuids_filter. Qed.

Lemma node_set_lc_uuids n t : node_uuids (node_set_lc n t) = node_uuids n.
Proof. destruct n; reflexivity. Qed.

(* (1d) moving a node creates nothing *)
Lemma relocate_node_uuids u from to ts root root' :
  relocate_node u from to ts root = Ok root' -> incl (tree_uuids root') (tree_uuids root).
Proof.
  unfold relocate_node. intro H.
  destruct (find_group from root) as [[si sc]|] eqn:E1; cbn [of_option bind] in H; [|discriminate].
  destruct (remove_node u sc) as [[nd kept]|] eqn:E2; cbn [of_option bind] in H; [|discriminate].
  destruct (put_group from si kept root) as [root1|] eqn:E3; cbn [of_option bind] in H; [|discriminate].
  destruct (find_group to root1) as [[di dc]|] eqn:E4; cbn [of_option bind] in H; [|discriminate].
  destruct (put_group to di _ root1) as [root2|] eqn:E5; cbn [of_option] in H; [|discriminate].
  injection H as <-.
  pose proof (find_group_incl _ _ _ _ E1) as Hsc.
  assert (H1 : incl (tree_uuids root1) (tree_uuids root)).
  { apply incl_from_nil_r. eapply put_group_uuids; [exact E3|exact E1|reflexivity|].
    apply incl_to_app_l. intros x Hx. apply Hsc. eapply remove_node_kept; [exact E2|exact Hx]. }
  assert (H2 : incl (tree_uuids root2) (tree_uuids root1 ++ tree_uuids root)).
  { eapply put_group_uuids; [exact E5|exact E4|reflexivity|].
    rewrite forest_uuids_app. intros x Hx. apply in_or_app. apply in_app_or in Hx as [Hx|Hx].
    - left. eapply find_group_incl; [exact E4|exact Hx].
    - right. cbn [forest_uuids flat_map] in Hx. rewrite app_nil_r, node_set_lc_uuids in Hx.
      apply Hsc. apply remove_node_spec in E2 as [Hnd _]. eapply in_forest; [exact Hnd|exact Hx]. }
  intros x Hx. apply H2 in Hx. apply in_app_or in Hx as [Hx|Hx]; [apply H1; exact Hx|exact Hx].
Qed.

(* ---------- the steps of merge_group ---------- *)

(* "not tombstoned in the destination" *)
Definition live (deleted : list dobj) (u : N) : bool := negb (deleted_contains deleted u).

Lemma chain_filter f (A B C Y1 Y2 Y : list N) :
  incl A (B ++ filter f Y1) -> incl B (C ++ filter f Y2) -> incl Y1 Y -> incl Y2 Y ->
  incl A (C ++ filter f Y).
Proof.
  intros H1 H2 H3 H4. eapply incl_chain; [exact H1|exact H2| |].
  - intros u Hu. apply filter_In in Hu as [Hu Hf]. apply in_or_app. right. apply filter_In. auto.
  - intros u Hu. apply filter_In in Hu as [Hu Hf]. apply in_or_app. right. apply filter_In. auto.
Qed.

Lemma group_merge_with_uuid now d s d' lg :
  group_merge_with now d s = Ok (d', lg) -> gi_uuid d' = gi_uuid d.
Proof.
  unfold group_merge_with.
  destruct (lm_or (gi_times s) 0%Z) as [src_lm w1]. destruct (lm_or (gi_times d) now) as [dst_lm w2].
  destruct (Z.eqb dst_lm src_lm).
  - destruct (group_diverged d s); [discriminate|]. intro H. injection H as <- _. reflexivity.
  - destruct (Z.gtb dst_lm src_lm); intro H; injection H as <- _; reflexivity.
Qed.

Lemma merge_group_head_uuids now si root root' lg :
  merge_group_head now si root = Ok (root', lg) -> incl (tree_uuids root') (tree_uuids root).
Proof.
  intro H. apply merge_group_head_cases in H as [(ri & rc & ri' & -> & _ & _ & -> & _)|[_ H]].
  { (* the root itself: the children are not touched *) rewrite !tree_uuids_NG. apply incl_refl. }
  unfold merge_group_head_below in H. destruct (fnl_db _ _) as [loc|]; [|injection H as <- _; apply incl_refl].
  destruct (find_group _ root) as [[di dc]|] eqn:E1; cbn [of_option bind] in H; [|discriminate].
  destruct (group_merge_with now di si) as [[di' lg1]| | |] eqn:E2; cbn [bind] in H; try discriminate.
  destruct (put_group _ di' dc root) as [root1|] eqn:E3; cbn [of_option bind] in H; [|discriminate].
  injection H as <- _. apply incl_from_nil_r.
  eapply put_group_uuids; [exact E3|exact E1|eapply group_merge_with_uuid; exact E2|].
  apply incl_to_app_l. eapply find_group_incl. exact E1.
Qed.

Lemma merge_history_uuid self other m lg :
  merge_history self other = Ok (m, lg) -> e_uuid m = e_uuid self.
Proof.
  unfold merge_history. intro H.
  destruct (e_hist other), (e_hist self), (has_uncommitted_changes other); cbv beta iota in H;
    (destruct (history_merge_with _ _) as [[h l2]| | |]; cbn [bind] in H; try discriminate;
     injection H as <- _; reflexivity).
Qed.

Lemma entry_merge_uuid now self other m lg :
  entry_merge now self other = Ok (Some m, lg) -> e_uuid m = e_uuid self \/ e_uuid m = e_uuid other.
Proof.
  unfold entry_merge. intro H.
  destruct (lm_or (e_times other) 0%Z) as [src_lm w1]. destruct (lm_or (e_times self) now) as [dst_lm w2].
  destruct (Z.eqb dst_lm src_lm).
  - destruct (negb (entry_diverged self other)); discriminate.
  - destruct (Z.gtb dst_lm src_lm).
    + destruct (merge_history self other) as [[m0 l0]| | |] eqn:E; cbn [bind] in H; try discriminate.
      injection H as <- _. left. apply merge_history_uuid in E. rewrite <- E.
      destruct (t_lc (e_times self)); reflexivity.
    + destruct (merge_history other self) as [[m0 l0]| | |] eqn:E; cbn [bind] in H; try discriminate.
      injection H as <- _. right. apply merge_history_uuid in E. rewrite <- E.
      destruct (t_lc (e_times self)); reflexivity.
Qed.

Lemma snoc_not_nil {A} (l : list A) x : l ++ [x] <> [].
Proof. intro E. apply app_eq_nil in E as [_ E]. discriminate. Qed.

Lemma merge_entry_step_uuids now deleted path in_del oe root root' lg :
  merge_entry_step now deleted path in_del oe root = Ok (root', lg) ->
  incl (tree_uuids root') (tree_uuids root ++ filter (live deleted) [e_uuid oe]).
Proof.
  unfold merge_entry_step. intro H. destruct (fnl_db _ _) as [dloc|] eqn:Ef.
  - apply incl_to_app_l. pose proof (fnl_db_uuids _ _ _ Ef) as Hin.
    destruct (find_entry _ root) as [existing|] eqn:Ee; cbn [unwrap bind] in H; [|discriminate].
    pose proof (find_entry_in _ _ _ Ee (snoc_not_nil _ _)) as Hex.
    match type of H with bind ?x _ = _ =>
      destruct x as [[[[root1 existing1] loc1] lg1]| | |] eqn:Einner end; cbn [bind] in H; try discriminate.
    assert (Hr1 : incl (tree_uuids root1) (tree_uuids root) /\ e_uuid existing1 = e_uuid existing).
    { destruct (negb _ && negb in_del).
      - destruct (lc_or (e_times oe) 0%Z) as [src_lc w1]. destruct (lc_or (e_times existing) now) as [dst_lc w2].
        destruct (Z.gtb src_lc dst_lc).
        + destruct (relocate_node _ _ _ _ _) as [r1| | |] eqn:Er; cbn [bind] in Einner; try discriminate.
          injection Einner as <- <- _ _. split; [eapply relocate_node_uuids; exact Er|reflexivity].
        + injection Einner as <- <- _ _. split; [apply incl_refl|reflexivity].
      - injection Einner as <- <- _ _. split; [apply incl_refl|reflexivity]. }
    destruct Hr1 as [Hr1 Hu1].
    destruct (negb (entry_diverged existing1 oe)); [injection H as <- _; exact Hr1|].
    destruct (entry_merge now existing1 oe) as [[merged elog]| | |] eqn:Em; cbn [bind] in H; try discriminate.
    destruct merged as [m|]; [|injection H as <- _; exact Hr1].
    destruct (entry_eqb existing1 m); [injection H as <- _; exact Hr1|].
    destruct (put_entry loc1 m root1) as [root2|] eqn:Ep; cbn [of_option bind] in H; [|discriminate].
    injection H as <- _.
    assert (Hm : In (e_uuid m) (tree_uuids root)).
    { apply entry_merge_uuid in Em as [Em|Em]; rewrite Em; [rewrite Hu1; exact Hex|exact Hin]. }
    intros u Hu. eapply put_entry_uuids in Hu; [|exact Ep|apply in_or_app; right; exact Hm].
    apply in_app_or in Hu as [Hu|Hu]; [apply Hr1; exact Hu|exact Hu].
  - destruct (deleted_contains deleted (e_uuid oe)) eqn:Ed; [injection H as <- _; apply incl_app_self_l|].
    destruct in_del; [injection H as <- _; apply incl_app_self_l|].
    destruct (find_group path root) as [[pi pc]|] eqn:E1; cbn [of_option bind] in H; [|discriminate].
    destruct (put_group path pi _ root) as [root1|] eqn:E2; cbn [of_option bind] in H; [|discriminate].
    injection H as <- _. eapply put_group_uuids; [exact E2|exact E1|reflexivity|].
    cbn [filter]. unfold live. rewrite Ed. cbn [negb].
    rewrite forest_uuids_app. intros u Hu. apply in_or_app. apply in_app_or in Hu as [Hu|Hu].
    + left. eapply find_group_incl; [exact E1|exact Hu].
    + right. exact Hu.
Qed.

Lemma merge_entries_uuids now deleted path in_del : forall l root root' lg,
  merge_entries now deleted path in_del l root = Ok (root', lg) ->
  incl (tree_uuids root') (tree_uuids root ++ filter (live deleted) (forest_uuids l)).
Proof.
  induction l as [|x r IH]; intros root root' lg H; cbn [merge_entries] in H.
  - injection H as <- _. apply incl_app_self_l.
  - rewrite forest_uuids_cons. destruct x as [j jc|oe].
    + apply IH in H. intros u Hu. apply H in Hu. apply in_or_app. apply in_app_or in Hu as [Hu|Hu]; [left; exact Hu|right].
      apply filter_In in Hu as [Hu Hf]. apply filter_In. split; [apply in_or_app; right; exact Hu|exact Hf].
    + destruct (merge_entry_step now deleted path in_del oe root) as [[root1 lg1]| | |] eqn:E1; cbn [bind] in H; try discriminate.
      destruct (merge_entries now deleted path in_del r root1) as [[root2 lg2]| | |] eqn:E2; cbn [bind] in H; try discriminate.
      injection H as <- _. apply IH in E2. apply merge_entry_step_uuids in E1.
      eapply chain_filter; [exact E2|exact E1|apply incl_appr; apply incl_refl|apply incl_appl; apply incl_refl].
Qed.

Lemma merge_subgroup_step_uuids now deleted path in_del j rec root root' lg S :
  (forall p d rt rt' l, rec p d rt = Ok (rt', l) -> incl (tree_uuids rt') (tree_uuids rt ++ S)) ->
  merge_subgroup_step now deleted path in_del j rec root = Ok (root', lg) ->
  incl (tree_uuids root') (tree_uuids root ++ filter (live deleted) [gi_uuid j] ++ S).
Proof.
  intros Hrec H.
  assert (Hw : forall rt rt', incl (tree_uuids rt') (tree_uuids rt ++ S) ->
                 incl (tree_uuids rt') (tree_uuids rt ++ filter (live deleted) [gi_uuid j] ++ S)).
  { intros rt rt' Hi u Hu. apply Hi in Hu. apply in_or_app. apply in_app_or in Hu as [Hu|Hu]; [left; exact Hu|].
    right. apply in_or_app. right. exact Hu. }
  unfold merge_subgroup_step in H. cbv zeta in H.
  destruct (deleted_contains deleted (gi_uuid j) || in_del) eqn:Ec.
  - apply Hw. eapply Hrec. exact H.
  - apply orb_false_elim in Ec as [Ed Ei].
    destruct (fnl_db _ _) as [dloc|] eqn:Ef.
    + assert (Hstay : forall w, (do (root1, lg) <- rec (dloc ++ [gi_uuid j]) in_del root; Ok (root1, w ++ lg))%outcome = Ok (root', lg) ->
                incl (tree_uuids root') (tree_uuids root ++ filter (live deleted) [gi_uuid j] ++ S)).
      { intros w Hs. destruct (rec (dloc ++ [gi_uuid j]) in_del root) as [[r1 l1]| | |] eqn:Er; cbn [bind] in Hs; try discriminate.
        injection Hs as <- _. apply Hw. eapply Hrec. exact Er. }
      destruct (negb (path_eqb path dloc)); [|eapply Hstay; exact H].
      destruct (find_group _ root) as [[ei ec]|]; cbn [unwrap bind] in H; [|discriminate].
      destruct (lc_or (gi_times ei) now) as [e_lc w1]. destruct (lc_or (gi_times j) 0%Z) as [o_lc w2].
      destruct (Z.ltb e_lc o_lc && _); [|eapply Hstay; exact H].
      destruct (relocate_node _ _ _ _ root) as [root1| | |] eqn:E1; cbn [bind] in H; try discriminate.
      destruct (rec _ in_del root1) as [[root2 l2]| | |] eqn:E2; cbn [bind] in H; try discriminate.
      injection H as <- _. apply relocate_node_uuids in E1. apply Hrec in E2. apply Hw.
      intros u Hu. apply E2 in Hu. apply in_or_app. apply in_app_or in Hu as [Hu|Hu]; [left; apply E1; exact Hu|right; exact Hu].
    + destruct (find_group path root) as [[pi pc]|] eqn:E1; cbn [of_option bind] in H; [|discriminate].
      destruct (put_group path pi _ root) as [root1|] eqn:E2; cbn [of_option bind] in H; [|discriminate].
      destruct (rec _ in_del root1) as [[root2 l2]| | |] eqn:E3; cbn [bind] in H; try discriminate.
      injection H as <- _. apply Hrec in E3.
      cbn [filter]. unfold live. rewrite Ed. cbn [negb].
      assert (H1 : incl (tree_uuids root1) (tree_uuids root ++ [gi_uuid j])).
      { eapply put_group_uuids; [exact E2|exact E1|reflexivity|].
        rewrite forest_uuids_app. intros u Hu. apply in_or_app. apply in_app_or in Hu as [Hu|Hu].
        - left. eapply find_group_incl; [exact E1|exact Hu].
        - right. exact Hu. }
      intros u Hu. apply E3 in Hu. apply in_or_app. apply in_app_or in Hu as [Hu|Hu].
      * apply H1 in Hu. apply in_app_or in Hu as [Hu|Hu]; [left; exact Hu|right; apply in_or_app; left; exact Hu].
      * right. apply in_or_app. right. exact Hu.
Qed.

(* the nested loop of merge_group, named *)
Definition groups_loop (now : Z) (deleted : list dobj) (path : list N) (in_del : bool)
  : list node -> node -> res (node * log) :=
  fix groups_loop (l : list node) (root : node) : res (node * log) :=
  match l with
  | [] => Ok (root, [])
  | x :: r =>
    match x with
    | NE _ => groups_loop r root
    | NG j _ =>
      do (root', lg) <- merge_subgroup_step now deleted path in_del j
                           (fun p d rt => merge_group now deleted p x d rt) root;
      do (root'', lg') <- groups_loop r root';
      Ok (root'', lg ++ lg')
    end
  end%outcome.

Lemma groups_loop_nil now deleted path in_del root :
  groups_loop now deleted path in_del [] root = Ok (root, []).
Proof. reflexivity. Qed.

Lemma groups_loop_cons now deleted path in_del x r root :
  groups_loop now deleted path in_del (x :: r) root =
  match x with
  | NE _ => groups_loop now deleted path in_del r root
  | NG j _ =>
    do (root', lg) <- merge_subgroup_step now deleted path in_del j
                         (fun p d rt => merge_group now deleted p x d rt) root;
    do (root'', lg') <- groups_loop now deleted path in_del r root';
    Ok (root'', lg ++ lg')
  end%outcome.
Proof. reflexivity. Qed.

Lemma merge_group_unfold now deleted path si sch in_del root :
  merge_group now deleted path (NG si sch) in_del root =
  (do (root0, lg0) <- merge_group_head now si root;
   do (root1, lg1) <- merge_entries now deleted path in_del sch root0;
   do (root2, lg2) <- groups_loop now deleted path in_del sch root1;
   Ok (root2, lg0 ++ lg1 ++ lg2))%outcome.
Proof. reflexivity. Qed.

Definition merge_group_uuids_at (now : Z) (deleted : list dobj) (x : node) : Prop :=
  forall path in_del root root' lg,
    merge_group now deleted path x in_del root = Ok (root', lg) ->
    incl (tree_uuids root') (tree_uuids root ++ filter (live deleted) (tree_uuids x)).

Lemma groups_loop_uuids now deleted path in_del : forall l,
  Forall (merge_group_uuids_at now deleted) l ->
  forall root root' lg,
  groups_loop now deleted path in_del l root = Ok (root', lg) ->
  incl (tree_uuids root') (tree_uuids root ++ filter (live deleted) (forest_uuids l)).
Proof.
  induction 1 as [|x r Hx _ IH]; intros root root' lg H.
  - rewrite groups_loop_nil in H. injection H as <- _. apply incl_app_self_l.
  - rewrite groups_loop_cons in H. rewrite forest_uuids_cons. destruct x as [j jc|e].
    + destruct (merge_subgroup_step _ _ _ _ _ _ root) as [[root1 lg1]| | |] eqn:E1; cbn [bind] in H; try discriminate.
      destruct (groups_loop now deleted path in_del r root1) as [[root2 lg2]| | |] eqn:E2; cbn [bind] in H; try discriminate.
      injection H as <- _. apply IH in E2.
      eapply merge_subgroup_step_uuids in E1; [|intros p d rt rt' l Hl; eapply Hx; exact Hl].
      rewrite <- filter_app in E1. change ([gi_uuid j] ++ tree_uuids (NG j jc)) with (node_uuids (NG j jc)) in E1.
      eapply chain_filter; [exact E2|exact E1|apply incl_appr; apply incl_refl|apply incl_appl; apply incl_refl].
    + apply IH in H. intros u Hu. apply H in Hu. apply in_or_app. apply in_app_or in Hu as [Hu|Hu]; [left; exact Hu|right].
      apply filter_In in Hu as [Hu Hf]. apply filter_In. split; [apply in_or_app; right; exact Hu|exact Hf].
Qed.

Lemma merge_group_uuids_all now deleted : forall src, merge_group_uuids_at now deleted src.
Proof.
  induction src as [e|si sch IH] using node_ind'; intros path in_del root root' lg H.
  - discriminate.
  - rewrite merge_group_unfold in H.
    destruct (merge_group_head now si root) as [[root0 lg0]| | |] eqn:E0; cbn [bind] in H; try discriminate.
    destruct (merge_entries now deleted path in_del sch root0) as [[root1 lg1]| | |] eqn:E1; cbn [bind] in H; try discriminate.
    destruct (groups_loop now deleted path in_del sch root1) as [[root2 lg2]| | |] eqn:E2; cbn [bind] in H; try discriminate.
    injection H as <- _. rewrite tree_uuids_NG.
    apply merge_group_head_uuids in E0. apply merge_entries_uuids in E1.
    apply (groups_loop_uuids now deleted path in_del sch IH) in E2.
    assert (H01 : incl (tree_uuids root1) (tree_uuids root ++ filter (live deleted) (forest_uuids sch))).
    { intros u Hu. apply E1 in Hu. apply in_or_app. apply in_app_or in Hu as [Hu|Hu]; [left; apply E0; exact Hu|right; exact Hu]. }
    eapply chain_filter; [exact E2|exact H01|apply incl_refl|apply incl_refl].
Qed.

(* (2) every node of the result was in the destination, or comes from the source and is not
   tombstoned in the destination *)
Theorem merge_group_uuids : forall src now deleted path in_del root root' lg,
  merge_group now deleted path src in_del root = Ok (root', lg) ->
  incl (tree_uuids root')
       (tree_uuids root ++ filter (fun u => negb (deleted_contains deleted u)) (tree_uuids src)).
Proof. intros src now deleted path in_del root root' lg H. exact (merge_group_uuids_all now deleted src _ _ _ _ _ H). Qed.

(* ---------- merge_deletions ---------- *)

Lemma put_group_kept loc root pi pc u nd kept root1 :
  find_group loc root = Some (pi, pc) -> remove_node u pc = Some (nd, kept) ->
  put_group loc pi kept root = Some root1 -> incl (tree_uuids root1) (tree_uuids root).
Proof.
  intros E1 E2 E3. apply incl_from_nil_r. eapply put_group_uuids; [exact E3|exact E1|reflexivity|].
  apply incl_to_app_l. intros x Hx. eapply find_group_incl; [exact E1|]. eapply remove_node_kept; [exact E2|exact Hx].
Qed.

Lemma del_entry_step_uuids now st o st' :
  del_entry_step now st o = Ok st' -> incl (tree_uuids (ds_root st')) (tree_uuids (ds_root st)).
Proof.
  unfold del_entry_step. intro H.
  destruct (deleted_contains _ _); [injection H as <-; apply incl_refl|].
  destruct (fnl_db _ _) as [loc|]; [|injection H as <-; apply incl_refl].
  destruct (find_group loc (ds_root st)) as [[pi pc]|] eqn:Eg; cbn [of_option bind] in H; [|discriminate].
  destruct (find _ pc) as [[gi gc|e]|]; try (injection H as <-; apply incl_refl).
  destruct (lm_or (e_times e) now) as [lm w]. destruct (Z.ltb lm (d_time o)).
  - destruct (remove_node _ pc) as [[nd kept]|] eqn:Er; cbn [of_option bind] in H; [|discriminate].
    destruct (put_group _ _ _ _) as [root1|] eqn:Ep; cbn [of_option bind] in H; [|discriminate].
    injection H as <-. cbn [ds_root]. eapply put_group_kept; eassumption.
  - injection H as <-. apply incl_refl.
Qed.

Lemma del_entries_uuids now l : forall st st',
  del_entries now st l = Ok st' -> incl (tree_uuids (ds_root st')) (tree_uuids (ds_root st)).
Proof.
  induction l as [|o r IH]; intros st st' H; cbn [del_entries] in H.
  - injection H as <-. apply incl_refl.
  - destruct (del_entry_step now st o) as [st1| | |] eqn:E1; cbn [bind] in H; try discriminate.
    apply IH in H. apply del_entry_step_uuids in E1. eapply incl_tran; eassumption.
Qed.

Lemma del_group_step_uuids now st o q st' q' :
  del_group_step now st o q = Ok (st', q') -> incl (tree_uuids (ds_root st')) (tree_uuids (ds_root st)).
Proof.
  unfold del_group_step. intro H.
  destruct (deleted_contains _ _); [injection H as <- _; apply incl_refl|].
  destruct (fnl_db _ _) as [loc|]; [|injection H as <- _; apply incl_refl].
  destruct (find_group loc (ds_root st)) as [[pi pc]|] eqn:Eg; cbn [of_option bind] in H; [|discriminate].
  destruct (find _ pc) as [[gi gc|e]|]; try (injection H as <- _; apply incl_refl).
  destruct (existsb _ gc); [injection H as <- _; apply incl_refl|].
  destruct (existsb _ gc); [injection H as <- _; apply incl_refl|].
  destruct (existsb _ gc); [injection H as <- _; apply incl_refl|].
  destruct (lm_or (gi_times gi) now) as [lm w]. destruct (Z.ltb lm (d_time o)).
  - destruct (remove_node _ pc) as [[nd kept]|] eqn:Er; cbn [of_option bind] in H; [|discriminate].
    destruct (put_group _ _ _ _) as [root1|] eqn:Ep; cbn [of_option bind] in H; [|discriminate].
    injection H as <- _. cbn [ds_root]. eapply put_group_kept; eassumption.
  - injection H as <- _. apply incl_refl.
Qed.

Lemma del_groups_uuids now fuel : forall st q st',
  del_groups fuel now st q = Ok st' -> incl (tree_uuids (ds_root st')) (tree_uuids (ds_root st)).
Proof.
  induction fuel as [|f IH]; intros st q st' H.
  - destruct q; cbn [del_groups] in H; [|discriminate]. injection H as <-. apply incl_refl.
  - destruct q as [|o q]; cbn [del_groups] in H.
    + injection H as <-. apply incl_refl.
    + destruct (del_group_step now st o q) as [[st1 q1]| | |] eqn:E1; cbn [bind] in H; try discriminate.
      apply IH in H. apply del_group_step_uuids in E1. eapply incl_tran; eassumption.
Qed.

(* (3) applying the source's tombstones only removes nodes *)
Theorem merge_deletions_uuids now root deleted src_deleted root' deleted' lg :
  merge_deletions now root deleted src_deleted = Ok (root', deleted', lg) ->
  incl (tree_uuids root') (tree_uuids root).
Proof.
  unfold merge_deletions. intro H.
  destruct (del_entries now _ src_deleted) as [st1| | |] eqn:E1; cbn [bind] in H; try discriminate.
  destruct (del_groups _ now st1 _) as [st2| | |] eqn:E2; cbn [bind] in H; try discriminate.
  injection H as <- _ _. apply del_entries_uuids in E1. apply del_groups_uuids in E2.
  cbn [ds_root] in E1. eapply incl_tran; eassumption.
Qed.

(* ---------- Database::merge ---------- *)

Theorem merge_uuids now d s d' lg :
  merge now d s = Ok (d', lg) ->
  incl (tree_uuids (db_root d'))
       (tree_uuids (db_root d)
        ++ filter (fun u => negb (deleted_contains (db_deleted d) u)) (tree_uuids (db_root s))).
Proof.
  unfold merge. intro H.
  destruct (merge_group _ _ _ _ _ _) as [[root1 lg1]| | |] eqn:E1; cbn [bind] in H; try discriminate.
  destruct (merge_deletions _ _ _ _) as [[[root2 del2] lg2]| | |] eqn:E2; cbn [bind] in H; try discriminate.
  destruct root2 as [i c|e]; [|discriminate]. injection H as <- _.
  change (db_root (mkDb i c del2)) with (NG i c).
  apply merge_group_uuids in E1. apply merge_deletions_uuids in E2.
  intros u Hu. apply E1. apply E2. exact Hu.
Qed.

(* (4) a UUID that the destination has tombstoned and does not hold is not brought back *)
Corollary no_resurrection : forall now d s d' lg u,
  merge now d s = Ok (d', lg) ->
  deleted_contains (db_deleted d) u = true ->
  ~ In u (tree_uuids (db_root d)) -> ~ In u (tree_uuids (db_root d')).
Proof.
  intros now d s d' lg u H Hd Hn Hin. apply (merge_uuids _ _ _ _ _ H) in Hin.
  apply in_app_or in Hin as [Hin|Hin]; [exact (Hn Hin)|].
  apply filter_In in Hin as [_ Hf]. rewrite Hd in Hf. discriminate.
Qed.

Corollary merge_no_new_uuids now d s d' lg :
  merge now d s = Ok (d', lg) ->
  incl (tree_uuids (db_root d')) (tree_uuids (db_root d) ++ tree_uuids (db_root s)).
Proof.
  intros H u Hu. apply (merge_uuids _ _ _ _ _ H) in Hu. apply in_or_app.
  apply in_app_or in Hu as [Hu|Hu]; [left; exact Hu|right]. apply filter_In in Hu. tauto.
Qed.

(* ---------- (5) the event log is sound for creations ---------- *)

Definition created_uuid (ev : levent) : list N :=
  match ev with
  | Ev EntryCreated u => [u]
  | Ev GroupCreated u => [u]
  | _ => []
  end.
Definition created_uuids (lg : log) : list N := flat_map created_uuid lg.

Lemma created_uuids_app a b : created_uuids (a ++ b) = created_uuids a ++ created_uuids b.
Proof. apply flat_map_app. Qed.

Lemma in_created_entry u lg : In (Ev EntryCreated u) lg -> In u (created_uuids lg).
Proof. intro H. apply in_flat_map. exists (Ev EntryCreated u). split; [exact H|left; reflexivity]. Qed.

Lemma in_created_group u lg : In (Ev GroupCreated u) lg -> In u (created_uuids lg).
Proof. intro H. apply in_flat_map. exists (Ev GroupCreated u). split; [exact H|left; reflexivity]. Qed.

Lemma warns_created lg : Forall (fun x => x = Warn) lg -> created_uuids lg = [].
Proof. induction 1 as [|x r Hx _ IH]; [reflexivity|]. subst x. exact IH. Qed.

Lemma lm_or_created t dflt v w : lm_or t dflt = (v, w) -> created_uuids w = [].
Proof. unfold lm_or. destruct (t_lm t); intro H; injection H as _ <-; reflexivity. Qed.

Lemma lc_or_created t dflt v w : lc_or t dflt = (v, w) -> created_uuids w = [].
Proof. unfold lc_or. destruct (t_lc t); intro H; injection H as _ <-; reflexivity. Qed.

Lemma group_merge_with_created now d s d' lg :
  group_merge_with now d s = Ok (d', lg) -> created_uuids lg = [].
Proof.
  unfold group_merge_with.
  destruct (lm_or (gi_times s) 0%Z) as [src_lm w1] eqn:E1. destruct (lm_or (gi_times d) now) as [dst_lm w2] eqn:E2.
  apply lm_or_created in E1. apply lm_or_created in E2.
  destruct (Z.eqb dst_lm src_lm).
  - destruct (group_diverged d s); [discriminate|]. intro H. injection H as _ <-.
    rewrite created_uuids_app, E1, E2. reflexivity.
  - destruct (Z.gtb dst_lm src_lm); intro H; injection H as _ <-;
      rewrite ?created_uuids_app, E1, E2; reflexivity.
Qed.

Lemma merge_group_head_created now si root root' lg :
  merge_group_head now si root = Ok (root', lg) -> created_uuids lg = [].
Proof.
  intro H. apply merge_group_head_cases in H as [(ri & rc & ri' & -> & _ & Em & -> & _)|[_ H]].
  { (* the root itself *) eapply group_merge_with_created. exact Em. }
  unfold merge_group_head_below in H. destruct (fnl_db _ _) as [loc|]; [|injection H as _ <-; reflexivity].
  destruct (find_group _ root) as [[di dc]|] eqn:E1; cbn [of_option bind] in H; [|discriminate].
  destruct (group_merge_with now di si) as [[di' lg1]| | |] eqn:E2; cbn [bind] in H; try discriminate.
  destruct (put_group _ di' dc root) as [root1|] eqn:E3; cbn [of_option bind] in H; [|discriminate].
  injection H as _ <-. eapply group_merge_with_created. exact E2.
Qed.

Lemma created_uuids_cons ev l : created_uuids (ev :: l) = created_uuid ev ++ created_uuids l.
Proof. reflexivity. Qed.

Lemma created_uuids_warn_cons l : created_uuids (Warn :: l) = created_uuids l.
Proof. reflexivity. Qed.

Lemma merge_history_created self other m lg :
  merge_history self other = Ok (m, lg) -> created_uuids lg = [].
Proof.
  unfold merge_history. intro H.
  destruct (e_hist other), (e_hist self), (has_uncommitted_changes other); cbv beta match in H;
    (destruct (history_merge_with _ _) as [[h l2]| | |] eqn:E; cbn [bind] in H; try discriminate;
     apply history_merge_union in E;
     assert (Hl2 : created_uuids l2 = []) by (apply warns_created; tauto);
     injection H as _ <-;
     repeat (rewrite created_uuids_warn_cons || rewrite created_uuids_app);
     rewrite Hl2; reflexivity).
Qed.

Lemma entry_merge_created now self other m lg :
  entry_merge now self other = Ok (m, lg) -> created_uuids lg = [].
Proof.
  unfold entry_merge. intro H.
  destruct (lm_or (e_times other) 0%Z) as [src_lm w1] eqn:E1. destruct (lm_or (e_times self) now) as [dst_lm w2] eqn:E2.
  apply lm_or_created in E1. apply lm_or_created in E2.
  destruct (Z.eqb dst_lm src_lm).
  - destruct (negb (entry_diverged self other)); [discriminate|]. injection H as _ <-.
    rewrite created_uuids_app, E1, E2. reflexivity.
  - destruct (Z.gtb dst_lm src_lm).
    + destruct (merge_history self other) as [[m0 l0]| | |] eqn:E; cbn [bind] in H; try discriminate.
      injection H as _ <-. eapply merge_history_created. exact E.
    + destruct (merge_history other self) as [[m0 l0]| | |] eqn:E; cbn [bind] in H; try discriminate.
      injection H as _ <-. eapply merge_history_created. exact E.
Qed.

Lemma merge_entry_step_created now deleted path in_del oe root root' lg :
  merge_entry_step now deleted path in_del oe root = Ok (root', lg) ->
  incl (created_uuids lg) (filter (live deleted) [e_uuid oe]).
Proof.
  unfold merge_entry_step. intro H. destruct (fnl_db _ _) as [dloc|] eqn:Ef.
  - assert (Hnil : created_uuids lg = []); [|rewrite Hnil; intros u []].
    destruct (find_entry _ root) as [existing|] eqn:Ee; cbn [unwrap bind] in H; [|discriminate].
    match type of H with bind ?x _ = _ =>
      destruct x as [[[[root1 existing1] loc1] lg1]| | |] eqn:Einner end; cbn [bind] in H; try discriminate.
    assert (Hl1 : created_uuids lg1 = []).
    { destruct (negb _ && negb in_del).
      - destruct (lc_or (e_times oe) 0%Z) as [src_lc w1] eqn:E1. destruct (lc_or (e_times existing) now) as [dst_lc w2] eqn:E2.
        apply lc_or_created in E1. apply lc_or_created in E2.
        destruct (Z.gtb src_lc dst_lc).
        + destruct (relocate_node _ _ _ _ _) as [r1| | |] eqn:Er; cbn [bind] in Einner; try discriminate.
          injection Einner as _ _ _ <-. rewrite !created_uuids_app, E1, E2. reflexivity.
        + injection Einner as _ _ _ <-. rewrite !created_uuids_app, E1, E2. reflexivity.
      - injection Einner as _ _ _ <-. reflexivity. }
    destruct (negb (entry_diverged existing1 oe)); [injection H as _ <-; exact Hl1|].
    destruct (entry_merge now existing1 oe) as [[merged elog]| | |] eqn:Em; cbn [bind] in H; try discriminate.
    destruct merged as [m|]; [|injection H as _ <-; exact Hl1].
    destruct (entry_eqb existing1 m); [injection H as _ <-; exact Hl1|].
    destruct (put_entry loc1 m root1) as [root2|] eqn:Ep; cbn [of_option bind] in H; [|discriminate].
    injection H as _ <-. apply entry_merge_created in Em.
    rewrite created_uuids_app, created_uuids_cons, Hl1, Em. reflexivity.
  - destruct (deleted_contains deleted (e_uuid oe)) eqn:Ed; [injection H as _ <-; intros u []|].
    destruct in_del; [injection H as _ <-; intros u []|].
    destruct (find_group path root) as [[pi pc]|] eqn:E1; cbn [of_option bind] in H; [|discriminate].
    destruct (put_group path pi _ root) as [root1|] eqn:E2; cbn [of_option bind] in H; [|discriminate].
    injection H as _ <-. cbn [filter]. unfold live. rewrite Ed. cbn [negb]. apply incl_refl.
Qed.

Lemma filter_incl_mono f (A B : list N) : incl A B -> incl (filter f A) (filter f B).
Proof. intros H u Hu. apply filter_In in Hu as [Hu Hf]. apply filter_In. auto. Qed.

Lemma merge_entries_created now deleted path in_del : forall l root root' lg,
  merge_entries now deleted path in_del l root = Ok (root', lg) ->
  incl (created_uuids lg) (filter (live deleted) (forest_uuids l)).
Proof.
  induction l as [|x r IH]; intros root root' lg H; cbn [merge_entries] in H.
  - injection H as _ <-. intros u [].
  - rewrite forest_uuids_cons. destruct x as [j jc|oe].
    + apply IH in H. eapply incl_tran; [exact H|]. apply filter_incl_mono. apply incl_appr. apply incl_refl.
    + destruct (merge_entry_step now deleted path in_del oe root) as [[root1 lg1]| | |] eqn:E1; cbn [bind] in H; try discriminate.
      destruct (merge_entries now deleted path in_del r root1) as [[root2 lg2]| | |] eqn:E2; cbn [bind] in H; try discriminate.
      injection H as _ <-. apply IH in E2. apply merge_entry_step_created in E1.
      rewrite created_uuids_app, filter_app. apply incl_app; [apply incl_appl; exact E1|apply incl_appr; exact E2].
Qed.

Lemma merge_subgroup_step_created now deleted path in_del j rec root root' lg S :
  (forall p d rt rt' l, rec p d rt = Ok (rt', l) -> incl (created_uuids l) S) ->
  merge_subgroup_step now deleted path in_del j rec root = Ok (root', lg) ->
  incl (created_uuids lg) (filter (live deleted) [gi_uuid j] ++ S).
Proof.
  intros Hrec H. unfold merge_subgroup_step in H. cbv zeta in H.
  destruct (deleted_contains deleted (gi_uuid j) || in_del) eqn:Ec.
  - apply incl_appr. eapply Hrec. exact H.
  - apply orb_false_elim in Ec as [Ed Ei].
    destruct (fnl_db _ _) as [dloc|] eqn:Ef.
    + assert (Hstay : forall w, created_uuids w = [] ->
                (do (root1, lg) <- rec (dloc ++ [gi_uuid j]) in_del root; Ok (root1, w ++ lg))%outcome = Ok (root', lg) ->
                incl (created_uuids lg) (filter (live deleted) [gi_uuid j] ++ S)).
      { intros w Hw Hs. destruct (rec (dloc ++ [gi_uuid j]) in_del root) as [[r1 l1]| | |] eqn:Er; cbn [bind] in Hs; try discriminate.
        injection Hs as _ <-. rewrite created_uuids_app, Hw. apply incl_appr. eapply Hrec. exact Er. }
      destruct (negb (path_eqb path dloc)); [|exact (Hstay [] eq_refl H)].
      destruct (find_group _ root) as [[ei ec]|]; cbn [unwrap bind] in H; [|discriminate].
      destruct (lc_or (gi_times ei) now) as [e_lc w1] eqn:L1. destruct (lc_or (gi_times j) 0%Z) as [o_lc w2] eqn:L2.
      apply lc_or_created in L1. apply lc_or_created in L2.
      destruct (Z.ltb e_lc o_lc && _); [|eapply Hstay; [|exact H]; rewrite created_uuids_app, L1, L2; reflexivity].
      destruct (relocate_node _ _ _ _ root) as [root1| | |] eqn:E1; cbn [bind] in H; try discriminate.
      destruct (rec _ in_del root1) as [[root2 l2]| | |] eqn:E2; cbn [bind] in H; try discriminate.
      injection H as _ <-. apply Hrec in E2. rewrite !created_uuids_app, L1, L2.
      apply incl_appr. exact E2.
    + destruct (find_group path root) as [[pi pc]|] eqn:E1; cbn [of_option bind] in H; [|discriminate].
      destruct (put_group path pi _ root) as [root1|] eqn:E2; cbn [of_option bind] in H; [|discriminate].
      destruct (rec _ in_del root1) as [[root2 l2]| | |] eqn:E3; cbn [bind] in H; try discriminate.
      injection H as _ <-. apply Hrec in E3.
      cbn [filter]. unfold live. rewrite Ed. cbn [negb]. rewrite created_uuids_cons.
      apply incl_app; [apply incl_appl; apply incl_refl|apply incl_appr; exact E3].
Qed.

Definition merge_group_created_at (now : Z) (deleted : list dobj) (x : node) : Prop :=
  forall path in_del root root' lg,
    merge_group now deleted path x in_del root = Ok (root', lg) ->
    incl (created_uuids lg) (filter (live deleted) (tree_uuids x)).

Lemma groups_loop_created now deleted path in_del : forall l,
  Forall (merge_group_created_at now deleted) l ->
  forall root root' lg,
  groups_loop now deleted path in_del l root = Ok (root', lg) ->
  incl (created_uuids lg) (filter (live deleted) (forest_uuids l)).
Proof.
  induction 1 as [|x r Hx _ IH]; intros root root' lg H.
  - rewrite groups_loop_nil in H. injection H as _ <-. intros u [].
  - rewrite groups_loop_cons in H. rewrite forest_uuids_cons. destruct x as [j jc|e].
    + destruct (merge_subgroup_step _ _ _ _ _ _ root) as [[root1 lg1]| | |] eqn:E1; cbn [bind] in H; try discriminate.
      destruct (groups_loop now deleted path in_del r root1) as [[root2 lg2]| | |] eqn:E2; cbn [bind] in H; try discriminate.
      injection H as _ <-. apply IH in E2.
      eapply merge_subgroup_step_created in E1; [|intros p d rt rt' l Hl; eapply Hx; exact Hl].
      rewrite <- filter_app in E1. change ([gi_uuid j] ++ tree_uuids (NG j jc)) with (node_uuids (NG j jc)) in E1.
      rewrite created_uuids_app, filter_app. apply incl_app; [apply incl_appl; exact E1|apply incl_appr; exact E2].
    + apply IH in H. eapply incl_tran; [exact H|]. apply filter_incl_mono. apply incl_appr. apply incl_refl.
Qed.

Lemma merge_group_created_all now deleted : forall src, merge_group_created_at now deleted src.
Proof.
  induction src as [e|si sch IH] using node_ind'; intros path in_del root root' lg H.
  - discriminate.
  - rewrite merge_group_unfold in H.
    destruct (merge_group_head now si root) as [[root0 lg0]| | |] eqn:E0; cbn [bind] in H; try discriminate.
    destruct (merge_entries now deleted path in_del sch root0) as [[root1 lg1]| | |] eqn:E1; cbn [bind] in H; try discriminate.
    destruct (groups_loop now deleted path in_del sch root1) as [[root2 lg2]| | |] eqn:E2; cbn [bind] in H; try discriminate.
    injection H as _ <-. rewrite tree_uuids_NG.
    apply merge_group_head_created in E0. apply merge_entries_created in E1.
    apply (groups_loop_created now deleted path in_del sch IH) in E2.
    rewrite !created_uuids_app, E0. cbn [app]. apply incl_app; assumption.
Qed.

(* every creation event of merge_group names a source node that the destination has not tombstoned *)
Theorem merge_group_created : forall src now deleted path in_del root root' lg,
  merge_group now deleted path src in_del root = Ok (root', lg) ->
  incl (created_uuids lg) (filter (fun u => negb (deleted_contains deleted u)) (tree_uuids src)).
Proof. intros src now deleted path in_del root root' lg H. exact (merge_group_created_all now deleted src _ _ _ _ _ H). Qed.

(* merge_deletions logs no creation *)
Lemma del_entry_step_created now st o st' :
  del_entry_step now st o = Ok st' -> created_uuids (ds_log st') = created_uuids (ds_log st).
Proof.
  unfold del_entry_step. intro H.
  destruct (deleted_contains _ _); [injection H as <-; reflexivity|].
  destruct (fnl_db _ _) as [loc|]; [|injection H as <-; reflexivity].
  destruct (find_group loc (ds_root st)) as [[pi pc]|] eqn:Eg; cbn [of_option bind] in H; [|discriminate].
  destruct (find _ pc) as [[gi gc|e]|]; try (injection H as <-; reflexivity).
  destruct (lm_or (e_times e) now) as [lm w] eqn:L. apply lm_or_created in L. destruct (Z.ltb lm (d_time o)).
  - destruct (remove_node _ pc) as [[nd kept]|] eqn:Er; cbn [of_option bind] in H; [|discriminate].
    destruct (put_group _ _ _ _) as [root1|] eqn:Ep; cbn [of_option bind] in H; [|discriminate].
    injection H as <-. cbn [ds_log]. rewrite !created_uuids_app, L. cbn [created_uuids flat_map created_uuid app]. apply app_nil_r.
  - injection H as <-. cbn [ds_log]. rewrite !created_uuids_app, L. apply app_nil_r.
Qed.

Lemma del_entries_created now l : forall st st',
  del_entries now st l = Ok st' -> created_uuids (ds_log st') = created_uuids (ds_log st).
Proof.
  induction l as [|o r IH]; intros st st' H; cbn [del_entries] in H.
  - injection H as <-. reflexivity.
  - destruct (del_entry_step now st o) as [st1| | |] eqn:E1; cbn [bind] in H; try discriminate.
    apply IH in H. apply del_entry_step_created in E1. congruence.
Qed.

Lemma del_group_step_created now st o q st' q' :
  del_group_step now st o q = Ok (st', q') -> created_uuids (ds_log st') = created_uuids (ds_log st).
Proof.
  unfold del_group_step. intro H.
  destruct (deleted_contains _ _); [injection H as <- _; reflexivity|].
  destruct (fnl_db _ _) as [loc|]; [|injection H as <- _; reflexivity].
  destruct (find_group loc (ds_root st)) as [[pi pc]|] eqn:Eg; cbn [of_option bind] in H; [|discriminate].
  destruct (find _ pc) as [[gi gc|e]|]; try (injection H as <- _; reflexivity).
  destruct (existsb _ gc); [injection H as <- _; reflexivity|].
  destruct (existsb _ gc); [injection H as <- _; reflexivity|].
  destruct (existsb _ gc); [injection H as <- _; reflexivity|].
  destruct (lm_or (gi_times gi) now) as [lm w] eqn:L. apply lm_or_created in L. destruct (Z.ltb lm (d_time o)).
  - destruct (remove_node _ pc) as [[nd kept]|] eqn:Er; cbn [of_option bind] in H; [|discriminate].
    destruct (put_group _ _ _ _) as [root1|] eqn:Ep; cbn [of_option bind] in H; [|discriminate].
    injection H as <- _. cbn [ds_log]. rewrite !created_uuids_app, L. cbn [created_uuids flat_map created_uuid app]. apply app_nil_r.
  - injection H as <- _. cbn [ds_log]. rewrite !created_uuids_app, L. apply app_nil_r.
Qed.

Lemma del_groups_created now fuel : forall st q st',
  del_groups fuel now st q = Ok st' -> created_uuids (ds_log st') = created_uuids (ds_log st).
Proof.
  induction fuel as [|f IH]; intros st q st' H.
  - destruct q; cbn [del_groups] in H; [|discriminate]. injection H as <-. reflexivity.
  - destruct q as [|o q]; cbn [del_groups] in H.
    + injection H as <-. reflexivity.
    + destruct (del_group_step now st o q) as [[st1 q1]| | |] eqn:E1; cbn [bind] in H; try discriminate.
      apply IH in H. apply del_group_step_created in E1. congruence.
Qed.

Lemma merge_deletions_created now root deleted src_deleted root' deleted' lg :
  merge_deletions now root deleted src_deleted = Ok (root', deleted', lg) -> created_uuids lg = [].
Proof.
  unfold merge_deletions. intro H.
  destruct (del_entries now _ src_deleted) as [st1| | |] eqn:E1; cbn [bind] in H; try discriminate.
  destruct (del_groups _ now st1 _) as [st2| | |] eqn:E2; cbn [bind] in H; try discriminate.
  injection H as _ _ <-. apply del_entries_created in E1. apply del_groups_created in E2.
  rewrite E2, E1. reflexivity.
Qed.

Theorem merge_created now d s d' lg :
  merge now d s = Ok (d', lg) ->
  incl (created_uuids lg)
       (filter (fun u => negb (deleted_contains (db_deleted d) u)) (tree_uuids (db_root s))).
Proof.
  unfold merge. intro H.
  destruct (merge_group _ _ _ _ _ _) as [[root1 lg1]| | |] eqn:E1; cbn [bind] in H; try discriminate.
  destruct (merge_deletions _ _ _ _) as [[[root2 del2] lg2]| | |] eqn:E2; cbn [bind] in H; try discriminate.
  destruct root2 as [i c|e]; [|discriminate]. injection H as _ <-.
  apply merge_group_created in E1. apply merge_deletions_created in E2.
  rewrite created_uuids_app, E2, app_nil_r. exact E1.
Qed.

(* (5) every EntryCreated / GroupCreated event of a merge names a node of the source that the
   destination had not tombstoned *)
Theorem merge_creation_events_sound now d s d' lg u :
  merge now d s = Ok (d', lg) ->
  In (Ev EntryCreated u) lg \/ In (Ev GroupCreated u) lg ->
  In u (tree_uuids (db_root s)) /\ deleted_contains (db_deleted d) u = false.
Proof.
  intros H Hev.
  assert (Hin : In u (created_uuids lg)).
  { destruct Hev as [Hev|Hev]; [apply in_created_entry|apply in_created_group]; exact Hev. }
  apply (merge_created _ _ _ _ _ H) in Hin. apply filter_In in Hin as [Hin Hf].
  split; [exact Hin|]. apply negb_true_iff in Hf. exact Hf.
Qed.

Print Assumptions merge_group_uuids.
Print Assumptions merge_deletions_uuids.
Print Assumptions merge_no_new_uuids.
Print Assumptions merge_creation_events_sound.
Print Assumptions no_resurrection.

(* The entries of a tree, and what each write of merge_group / merge_deletions does to them.

   [ents root]: all entries below [root], depth first.  Every write into the destination goes
   through [update_uuid]; [update_uuid_ents] says that it replaces the entries of the designated
   node inside an unchanged context.  From that:
   - writing a group's own fields back changes no entry;
   - [put_entry] replaces exactly one entry, the one with the UUID at the end of the path;
   - [relocate_node] (UUIDs distinct) moves one node and, if that node is an entry, sets its
     LocationChanged; every other entry is untouched;
   - a deletion removes exactly one entry (or an empty group). *)
From Coq Require Import Permutation.
From KP Require Import Bytes Outcome Tree TreeFacts History Merge MergeProofs MergeLookup
     MergeTermination MergeUuids MergeSelf MergeUnique.
Local Open Scope N_scope.

(* ---------- the entries of a tree ---------- *)

(* the node itself if it is an entry, else the entries below it *)
Fixpoint fents (n : node) : list entry :=
  match n with
  | NE e => [e]
  | NG _ ch => flat_map fents ch
  end.
Definition entsl (l : list node) : list entry := flat_map fents l.
(* the entries strictly below a node: none below an entry *)
Definition ents (n : node) : list entry := entsl (children_of n).

Lemma fents_NG i ch : fents (NG i ch) = entsl ch.
Proof. reflexivity. Qed.

Lemma ents_NG i ch : ents (NG i ch) = entsl ch.
Proof. reflexivity. Qed.

Lemma entsl_cons x r : entsl (x :: r) = fents x ++ entsl r.
Proof. reflexivity. Qed.

Lemma entsl_app a b : entsl (a ++ b) = entsl a ++ entsl b.
Proof. apply flat_map_app. Qed.

Lemma entsl_single x : entsl [x] = fents x.
Proof. unfold entsl. cbn [flat_map]. apply app_nil_r. Qed.

Lemma fents_group x : is_group x = true -> fents x = ents x.
Proof. destruct x; [reflexivity|discriminate]. Qed.

Lemma fents_nodes : forall n e, In e (fents n) <-> In (NE e) (nn n).
Proof.
  induction n as [e0|i ch IH] using node_ind'; intro e.
  - cbn [fents nn all_nodes In]. split; [intros [->|[]]; auto|intros [H|[]]; injection H; auto].
  - unfold nn. cbn [fents all_nodes In]. rewrite !in_flat_map. split.
    + intros (x & Hx & H). right. exists x. split; [exact Hx|].
      apply (proj1 (Forall_forall _ _) IH x Hx). exact H.
    + intros [H|(x & Hx & H)]; [discriminate|]. exists x. split; [exact Hx|].
      apply (proj1 (Forall_forall _ _) IH x Hx). exact H.
Qed.

Lemma entsl_nodes l e : In e (entsl l) <-> In (NE e) (nodes_of l).
Proof.
  unfold entsl, nodes_of. rewrite !in_flat_map.
  split; intros (x & Hx & H); exists x; (split; [exact Hx|]); apply fents_nodes; exact H.
Qed.

Lemma ents_nodes n e : In e (ents n) <-> In (NE e) (all_nodes n).
Proof. unfold ents. rewrite all_nodes_children. apply entsl_nodes. Qed.

Lemma NoDup_map_inj {A B} (f : A -> B) : forall l a b,
  NoDup (map f l) -> In a l -> In b l -> f a = f b -> a = b.
Proof.
  induction l as [|x r IH]; intros a b Nd Ha Hb E; [destruct Ha|].
  cbn [map] in Nd. apply NoDup_cons_iff in Nd as [Hn Nd].
  destruct Ha as [->|Ha], Hb as [->|Hb].
  - reflexivity.
  - exfalso. apply Hn. rewrite E. apply in_map. exact Hb.
  - exfalso. apply Hn. rewrite <- E. apply in_map. exact Ha.
  - apply IH; assumption.
Qed.

(* with distinct UUIDs a UUID designates one node, hence one entry *)
Lemma node_unique n a b :
  NoDup (all_uuids n) -> In a (all_nodes n) -> In b (all_nodes n) -> uuid_of a = uuid_of b -> a = b.
Proof. rewrite all_uuids_nodes. apply NoDup_map_inj. Qed.

Lemma ents_unique n a b :
  NoDup (all_uuids n) -> In a (ents n) -> In b (ents n) -> e_uuid a = e_uuid b -> a = b.
Proof.
  intros Nd Ha Hb E. apply ents_nodes in Ha. apply ents_nodes in Hb.
  assert (H : NE a = NE b) by (apply (node_unique n); assumption). injection H. auto.
Qed.

Lemma ents_uuid_in n e : In e (ents n) -> In (e_uuid e) (all_uuids n).
Proof.
  intro H. apply ents_nodes in H. rewrite all_uuids_nodes.
  change (e_uuid e) with (uuid_of (NE e)). apply in_map. exact H.
Qed.

Lemma all_nodes_trans : forall n g, In g (all_nodes n) -> incl (all_nodes g) (all_nodes n).
Proof.
  induction n as [e|i ch IH] using node_ind'; intros g Hg; [destruct Hg|].
  cbn [all_nodes] in *. apply in_flat_map in Hg as (x & Hx & Hg). intros y Hy.
  apply in_flat_map. exists x. split; [exact Hx|]. right. destruct Hg as [<-|Hg]; [exact Hy|].
  exact (proj1 (Forall_forall _ _) IH x Hx g Hg y Hy).
Qed.

Lemma get_uuid_nodes : forall p root g, get_uuid p root = Some g -> p <> [] -> In g (all_nodes root).
Proof.
  induction p as [|h tail IH]; intros root g H Hp; [contradiction|].
  rewrite all_nodes_children. destruct tail as [|k l].
  - cbn [get_uuid] in H. apply find_In in H. apply in_nodes_of_self. exact H.
  - rewrite get_uuid_cons2 in H. destruct (find _ (children_of root)) as [x|] eqn:Ex; [|discriminate].
    apply find_In in Ex. apply IH in H; [|discriminate].
    apply (in_nodes_of_child x _ Ex). rewrite <- all_nodes_children. exact H.
Qed.

Lemma find_group_children_nodes p root i c : find_group p root = Some (i, c) -> incl c (all_nodes root).
Proof.
  unfold find_group. destruct (get_uuid p root) as [[gi gc|e]|] eqn:E; try discriminate.
  intro H. injection H as -> ->. intros x Hx. destruct p as [|h t].
  - cbn [get_uuid] in E. injection E as ->. cbn [all_nodes]. apply (in_nodes_of_self x c Hx).
  - apply get_uuid_nodes in E; [|discriminate]. apply (all_nodes_trans root _ E).
    cbn [all_nodes]. apply (in_nodes_of_self x c Hx).
Qed.

Lemma find_entry_ents p h root e : find_entry (p ++ [h]) root = Some e -> In e (ents root) /\ e_uuid e = h.
Proof.
  intro H. split; [|exact (find_entry_last _ _ _ _ H)]. unfold find_entry in H.
  destruct (get_uuid _ root) as [[i c|e0]|] eqn:E; try discriminate. injection H as ->.
  apply ents_nodes. apply (get_uuid_nodes _ _ _ E). apply snoc_not_nil.
Qed.

(* ---------- permutations ---------- *)

Lemma perm_mid {A} (a x b : list A) : Permutation (a ++ x ++ b) (x ++ a ++ b).
Proof. rewrite !app_assoc. apply Permutation_app_tail. apply Permutation_app_comm. Qed.

Lemma perm_ctx {A} (a b y x rest : list A) :
  Permutation y (x ++ rest) -> Permutation (a ++ y ++ b) (x ++ a ++ rest ++ b).
Proof.
  intro P. transitivity (a ++ (x ++ rest) ++ b).
  - apply Permutation_app_head. apply Permutation_app_tail. exact P.
  - rewrite <- app_assoc. apply perm_mid.
Qed.

Lemma entsl_partition u l :
  Permutation (entsl (filter (fun c => negb (N.eqb (uuid_of c) u)) l)
               ++ entsl (filter (fun c => N.eqb (uuid_of c) u) l)) (entsl l).
Proof.
  induction l as [|x r IH]; [constructor|]. cbn [filter]. destruct (N.eqb (uuid_of x) u); cbn [negb].
  - rewrite !entsl_cons. etransitivity; [apply perm_mid|]. apply Permutation_app_head. exact IH.
  - rewrite !entsl_cons, <- app_assoc. apply Permutation_app_head. exact IH.
Qed.

(* ---------- writing through a path: the designated node in an unchanged context ---------- *)

Lemma update_uuid_group : forall path f n n',
  path <> [] -> update_uuid path f n = Some n' -> is_group n = true /\ is_group n' = true.
Proof.
  intros [|h tail] f n n' Hp H; [contradiction|]. destruct n as [i ch|e]; [|discriminate].
  cbn [update_uuid] in H. destruct tail; destruct (update_first _ _ ch); try discriminate;
    injection H as <-; auto.
Qed.

Lemma update_uuid_ents : forall path f n n',
  path <> [] -> update_uuid path f n = Some n' ->
  exists g g' rest, get_uuid path n = Some g /\ f g = Some g'
    /\ Permutation (ents n) (fents g ++ rest) /\ Permutation (ents n') (fents g' ++ rest).
Proof.
  induction path as [|h tail IH]; intros f n n' Hp H; [contradiction|].
  destruct n as [i ch|e]; [|discriminate]. cbn [update_uuid] in H. destruct tail as [|k l].
  - destruct (update_first _ f ch) as [ch'|] eqn:E; [|discriminate]. injection H as <-.
    apply update_first_spec in E as (a & x & b & x' & -> & Hf & Hx & ->).
    exists x, x', (entsl a ++ entsl b). cbn [get_uuid children_of]. split; [exact Hf|]. split; [exact Hx|].
    rewrite !ents_NG, !entsl_app, !entsl_cons. split; apply perm_mid.
  - destruct (update_first _ _ ch) as [ch'|] eqn:E; [|discriminate]. injection H as <-.
    apply update_first_spec in E as (a & x & b & x' & -> & Hf & Hx & ->).
    assert (Hkl : k :: l <> []) by discriminate.
    destruct (update_uuid_group _ _ _ _ Hkl Hx) as [Gx Gx'].
    apply IH in Hx as (g & g' & rest0 & Hg & Hfg & P1 & P2); [|exact Hkl].
    exists g, g', (entsl a ++ rest0 ++ entsl b). split; [|split; [exact Hfg|]].
    + rewrite get_uuid_cons2. cbn [children_of]. rewrite Hf. exact Hg.
    + rewrite !ents_NG, !entsl_app, !entsl_cons, (fents_group x Gx), (fents_group x' Gx').
      split; apply perm_ctx; assumption.
Qed.

Lemma put_group_ents path root i0 c0 i c root' :
  find_group path root = Some (i0, c0) -> put_group path i c root = Some root' ->
  exists rest, Permutation (ents root) (entsl c0 ++ rest) /\ Permutation (ents root') (entsl c ++ rest).
Proof.
  unfold find_group, put_group. intros Hf Hp. destruct path as [|h t].
  - cbn [get_uuid update_uuid] in *. destruct root as [ri rc|e]; [|discriminate].
    injection Hf as _ ->. injection Hp as <-. exists []. rewrite !app_nil_r, !ents_NG.
    split; apply Permutation_refl.
  - apply update_uuid_ents in Hp as (g & g' & rest & Hg & Hfg & P1 & P2); [|discriminate].
    rewrite Hg in Hf. destruct g as [gi gc|e]; [|discriminate]. injection Hf as _ ->. injection Hfg as <-.
    exists rest. rewrite !fents_NG in *. split; assumption.
Qed.

(* writing only the group's own fields back: the same entries *)
Lemma put_group_same_children path root i0 c0 i root' :
  find_group path root = Some (i0, c0) -> put_group path i c0 root = Some root' ->
  Permutation (ents root') (ents root).
Proof.
  intros Hf Hp. destruct (put_group_ents _ _ _ _ _ _ _ Hf Hp) as (rest & P1 & P2).
  rewrite P1, P2. apply Permutation_refl.
Qed.

Lemma put_entry_ents p h e root root' :
  put_entry (p ++ [h]) e root = Some root' ->
  exists old rest, find_entry (p ++ [h]) root = Some old /\ e_uuid old = h
    /\ Permutation (ents root) (old :: rest) /\ Permutation (ents root') (e :: rest).
Proof.
  unfold put_entry, find_entry. intro H.
  apply update_uuid_ents in H as (g & g' & rest & Hg & Hfg & P1 & P2); [|apply snoc_not_nil].
  rewrite Hg. pose proof (get_uuid_last _ _ _ _ Hg) as Hu.
  destruct g as [gi gc|old]; [discriminate|]. injection Hfg as <-. exists old, rest. auto.
Qed.

(* ---------- removing a node, moving a node ---------- *)

Lemma put_group_removed_ents loc root pi pc u nd kept root1 :
  find_group loc root = Some (pi, pc) -> remove_node u pc = Some (nd, kept) ->
  put_group loc pi kept root = Some root1 -> NoDup (all_uuids root) ->
  filter (fun c => N.eqb (uuid_of c) u) pc = [nd]
  /\ Permutation (ents root) (fents nd ++ ents root1).
Proof.
  intros E1 E2 E3 Nd. destruct (put_group_removed _ _ _ _ _ _ _ _ E1 E2 E3) as [_ Hp].
  destruct (Hp Nd) as [HF _]. split; [exact HF|].
  apply remove_node_filter in E2 as [_ ->].
  destruct (put_group_ents _ _ _ _ _ _ _ E1 E3) as (rest & P1 & P2).
  pose proof (entsl_partition u pc) as Hpart. rewrite HF, entsl_single in Hpart.
  rewrite P1, P2, <- Hpart, <- app_assoc. apply perm_mid.
Qed.

Lemma fents_set_lc_group nd ts : is_group nd = true -> fents (node_set_lc nd ts) = fents nd.
Proof. destruct nd; [reflexivity|discriminate]. Qed.

Theorem relocate_node_ents u from to ts root root' :
  relocate_node u from to ts root = Ok root' -> NoDup (all_uuids root) ->
  exists nd rest, uuid_of nd = u /\ In nd (all_nodes root)
    /\ Permutation (ents root) (fents nd ++ rest)
    /\ Permutation (ents root') (fents (node_set_lc nd ts) ++ rest).
Proof.
  unfold relocate_node. intros H Nd.
  destruct (find_group from root) as [[si sc]|] eqn:E1; cbn [of_option bind] in H; [|discriminate].
  destruct (remove_node u sc) as [[nd kept]|] eqn:E2; cbn [of_option bind] in H; [|discriminate].
  destruct (put_group from si kept root) as [root1|] eqn:E3; cbn [of_option bind] in H; [|discriminate].
  destruct (find_group to root1) as [[di dc]|] eqn:E4; cbn [of_option bind] in H; [|discriminate].
  destruct (put_group to di _ root1) as [root2|] eqn:E5; cbn [of_option] in H; [|discriminate].
  injection H as <-.
  destruct (put_group_removed_ents _ _ _ _ _ _ _ _ E1 E2 E3 Nd) as [HF P].
  assert (Hin : In nd (filter (fun c => N.eqb (uuid_of c) u) sc)) by (rewrite HF; left; reflexivity).
  apply filter_In in Hin as [Hin Hu]. apply N.eqb_eq in Hu.
  exists nd, (ents root1). split; [exact Hu|]. split; [exact (find_group_children_nodes _ _ _ _ E1 nd Hin)|].
  split; [exact P|].
  destruct (put_group_ents _ _ _ _ _ _ _ E4 E5) as (rest & P1 & P2).
  rewrite P2, P1, entsl_app, entsl_single, <- app_assoc. apply perm_mid.
Qed.

Lemma fents_set_lc_other nd ts e :
  In e (fents nd) -> e_uuid e <> uuid_of nd -> In e (fents (node_set_lc nd ts)).
Proof.
  destruct nd as [i c|x]; [auto|]. cbn [fents node_set_lc uuid_of In]. intros [<-|[]] H. contradiction H. reflexivity.
Qed.

(* every entry with another UUID is where it was (same content) *)
Corollary relocate_node_frame u from to ts root root' :
  relocate_node u from to ts root = Ok root' -> NoDup (all_uuids root) ->
  forall e, In e (ents root) -> e_uuid e <> u -> In e (ents root').
Proof.
  intros H Nd e He Hu. destruct (relocate_node_ents _ _ _ _ _ _ H Nd) as (nd & rest & <- & _ & P1 & P2).
  apply (Permutation_in _ (Permutation_sym P2)). apply (Permutation_in _ P1) in He.
  apply in_or_app. apply in_app_or in He as [He|He]; [left|right; exact He].
  apply fents_set_lc_other; assumption.
Qed.

Lemma relocate_node_nodup u from to ts root root' :
  relocate_node u from to ts root = Ok root' -> NoDup (all_uuids root) -> NoDup (all_uuids root').
Proof.
  intros H Nd. apply relocate_node_perm in H as [_ Hp].
  exact (Permutation_NoDup (Permutation_sym (Hp Nd)) Nd).
Qed.

(* ---------- merge_group_head ---------- *)

Lemma merge_group_head_ents now si root root' lg :
  merge_group_head now si root = Ok (root', lg) -> Permutation (ents root') (ents root).
Proof.
  intro H. apply merge_group_head_cases in H as [(ri & rc & ri' & -> & _ & _ & -> & _)|[_ H]].
  { (* the root itself: the children are not touched *) rewrite !ents_NG. apply Permutation_refl. }
  unfold merge_group_head_below in H. destruct (fnl_db _ _) as [loc|]; [|injection H as <- _; apply Permutation_refl].
  destruct (find_group _ root) as [[di dc]|] eqn:E1; cbn [of_option bind] in H; [|discriminate].
  destruct (group_merge_with now di si) as [[di' lg1]| | |] eqn:E2; cbn [bind] in H; try discriminate.
  destruct (put_group _ di' dc root) as [root1|] eqn:E3; cbn [of_option bind] in H; [|discriminate].
  injection H as <- _. eapply put_group_same_children; eassumption.
Qed.

(* ---------- merge_entry_step, taken apart once ---------- *)

(* the outcome of comparing the destination's entry [e1] with the source's [oe] *)
Definition lww_out (now : Z) (e1 oe e' : entry) : Prop :=
  (entry_diverged e1 oe = false /\ e' = e1)
  \/ (entry_diverged e1 oe = true
      /\ ((exists elog, entry_merge now e1 oe = Ok (None, elog)) /\ e' = e1
          \/ exists elog, entry_merge now e1 oe = Ok (Some e', elog))).

Lemma lww_out_uuid now e1 oe e' : lww_out now e1 oe e' -> e_uuid e' = e_uuid e1 \/ e_uuid e' = e_uuid oe.
Proof.
  intros [[_ ->]|[_ [[_ ->]|[elog H]]]]; auto. exact (entry_merge_uuid _ _ _ _ _ H).
Qed.

Lemma merge_entry_step_found now deleted path in_del oe root dloc root' lg :
  fnl_db (e_uuid oe) (children_of root) = Some dloc ->
  merge_entry_step now deleted path in_del oe root = Ok (root', lg) ->
  exists existing root1 existing1 p m,
    find_entry (dloc ++ [e_uuid oe]) root = Some existing
    /\ ((root1 = root /\ existing1 = existing /\ p = dloc)
        \/ (in_del = false
            /\ relocate_node (e_uuid oe) dloc path (fst (lc_or (e_times oe) 0%Z)) root = Ok root1
            /\ existing1 = e_set_times existing (set_lc (e_times existing) (fst (lc_or (e_times oe) 0%Z)))
            /\ p = path))
    /\ lww_out now existing1 oe m
    /\ ((root' = root1 /\ m = existing1) \/ put_entry (p ++ [e_uuid oe]) m root1 = Some root').
Proof.
  intros Ef H. unfold merge_entry_step in H. rewrite Ef in H.
  destruct (find_entry _ root) as [existing|] eqn:Ee; cbn [unwrap bind] in H; [|discriminate].
  match type of H with bind ?x _ = _ =>
    destruct x as [[[[root1 existing1] loc1] lg1]| | |] eqn:Einner end; cbn [bind] in H; try discriminate.
  exists existing, root1, existing1.
  assert (Hr1 : exists p, loc1 = p ++ [e_uuid oe]
            /\ ((root1 = root /\ existing1 = existing /\ p = dloc)
                \/ (in_del = false
                    /\ relocate_node (e_uuid oe) dloc path (fst (lc_or (e_times oe) 0%Z)) root = Ok root1
                    /\ existing1 = e_set_times existing (set_lc (e_times existing) (fst (lc_or (e_times oe) 0%Z)))
                    /\ p = path))).
  { destruct (negb _ && negb in_del) eqn:Ec.
    - apply andb_true_iff in Ec as [_ Ec]. apply negb_true_iff in Ec.
      destruct (lc_or (e_times oe) 0%Z) as [src_lc w1]. destruct (lc_or (e_times existing) now) as [dst_lc w2].
      cbn [fst]. destruct (Z.gtb src_lc dst_lc).
      + destruct (relocate_node _ _ _ _ _) as [r1| | |] eqn:Er; cbn [bind] in Einner; try discriminate.
        injection Einner as <- <- <- _. exists path. split; [reflexivity|]. right. auto.
      + injection Einner as <- <- <- _. exists dloc. split; [reflexivity|]. left. auto.
    - injection Einner as <- <- <- _. exists dloc. split; [reflexivity|]. left. auto. }
  destruct Hr1 as (p & -> & Hr1). exists p.
  destruct (entry_diverged existing1 oe) eqn:Dv; cbn [negb] in H.
  - destruct (entry_merge now existing1 oe) as [[merged elog]| | |] eqn:Em; cbn [bind] in H; try discriminate.
    destruct merged as [m|].
    + exists m. split; [reflexivity|]. split; [exact Hr1|].
      split; [right; split; [exact Dv|]; right; exists elog; exact Em|].
      destruct (entry_eqb existing1 m) eqn:Eq.
      * injection H as <- _. left. split; [reflexivity|]. symmetry. apply entry_eqb_eq. exact Eq.
      * destruct (put_entry _ m root1) as [root2|] eqn:Ep; cbn [of_option bind] in H; [|discriminate].
        injection H as <- _. right. reflexivity.
    + injection H as <- _. exists existing1. split; [reflexivity|]. split; [exact Hr1|].
      split; [right; split; [exact Dv|]; left; split; [exists elog; exact Em|reflexivity]|].
      left. auto.
  - injection H as <- _. exists existing1. split; [reflexivity|]. split; [exact Hr1|].
    split; [left; auto|left; auto].
Qed.

(* entries with another UUID are untouched *)
Theorem merge_entry_step_frame now deleted path in_del oe root root' lg :
  merge_entry_step now deleted path in_del oe root = Ok (root', lg) -> NoDup (all_uuids root) ->
  forall e, In e (ents root) -> e_uuid e <> e_uuid oe -> In e (ents root').
Proof.
  intros H Nd e He Hu. destruct (fnl_db (e_uuid oe) (children_of root)) as [dloc|] eqn:Ef.
  - destruct (merge_entry_step_found _ _ _ _ _ _ _ _ _ Ef H)
      as (existing & root1 & existing1 & p & m & _ & Hr1 & _ & Hr2).
    assert (He1 : In e (ents root1)).
    { destruct Hr1 as [(-> & _)|(_ & Er & _)]; [exact He|].
      exact (relocate_node_frame _ _ _ _ _ _ Er Nd e He Hu). }
    destruct Hr2 as [[-> _]|Ep]; [exact He1|].
    apply put_entry_ents in Ep as (old & rest & _ & Ho & P1 & P2).
    apply (Permutation_in _ (Permutation_sym P2)). right.
    apply (Permutation_in _ P1) in He1. destruct He1 as [<-|He1]; [contradiction|exact He1].
  - unfold merge_entry_step in H. rewrite Ef in H.
    destruct (deleted_contains deleted (e_uuid oe)); [injection H as <- _; exact He|].
    destruct in_del; [injection H as <- _; exact He|].
    destruct (find_group path root) as [[pi pc]|] eqn:E1; cbn [of_option bind] in H; [|discriminate].
    destruct (put_group path pi _ root) as [root1|] eqn:E2; cbn [of_option bind] in H; [|discriminate].
    injection H as <- _. destruct (put_group_ents _ _ _ _ _ _ _ E1 E2) as (rest & P1 & P2).
    apply (Permutation_in _ (Permutation_sym P2)). apply (Permutation_in _ P1) in He.
    rewrite entsl_app. apply in_or_app. apply in_app_or in He as [He|He]; [left|right; exact He].
    apply in_or_app. left. exact He.
Qed.

Definition lc_variant (oe e_d e1 : entry) : Prop :=
  e1 = e_d \/ e1 = e_set_times e_d (set_lc (e_times e_d) (fst (lc_or (e_times oe) 0%Z))).

(* the entry with the UUID being processed: compared with the source's, after the move if any *)
Theorem merge_entry_step_active now deleted path in_del oe root root' lg e_d :
  merge_entry_step now deleted path in_del oe root = Ok (root', lg) -> NoDup (all_uuids root) ->
  In e_d (ents root) -> e_uuid e_d = e_uuid oe ->
  exists e1 e', lc_variant oe e_d e1 /\ lww_out now e1 oe e' /\ In e' (ents root').
Proof.
  intros H Nd Hd Hu.
  destruct (fnl_db (e_uuid oe) (children_of root)) as [dloc|] eqn:Ef.
  2:{ exfalso. apply (fnl_db_none_notin _ _ Ef). change (In (e_uuid oe) (uus (children_of root))).
      rewrite <- all_uuids_children, <- Hu. apply ents_uuid_in. exact Hd. }
  destruct (merge_entry_step_found _ _ _ _ _ _ _ _ _ Ef H)
    as (existing & root1 & existing1 & p & m & Ee & Hr1 & Hout & Hr2).
  apply find_entry_ents in Ee as [Ee1 Ee2].
  assert (Hex : existing = e_d) by (apply (ents_unique root); [exact Nd|exact Ee1|exact Hd|congruence]).
  subst existing. exists existing1, m.
  assert (Hr1' : lc_variant oe e_d existing1 /\ In existing1 (ents root1)).
  { destruct Hr1 as [(-> & -> & _)|(_ & Er & -> & _)]; [split; [left; reflexivity|exact Hd]|].
    split; [right; reflexivity|].
    destruct (relocate_node_ents _ _ _ _ _ _ Er Nd) as (nd & rest & Hnu & Hnd & P1 & P2).
    assert (Hn : nd = NE e_d).
    { apply (node_unique root); [exact Nd|exact Hnd|apply ents_nodes; exact Hd|]. cbn [uuid_of]. congruence. }
    subst nd. apply (Permutation_in _ (Permutation_sym P2)). left. reflexivity. }
  destruct Hr1' as [Hv He1]. split; [exact Hv|]. split; [exact Hout|].
  destruct Hr2 as [[-> ->]|Ep]; [exact He1|].
  apply put_entry_ents in Ep as (old & rest & _ & _ & _ & P2).
  apply (Permutation_in _ (Permutation_sym P2)). left. reflexivity.
Qed.

Lemma step_ok_nodup root root' lg : step_ok root root' lg -> NoDup (all_uuids root) -> NoDup (all_uuids root').
Proof. intros [_ H] Nd. exact (proj1 (H Nd)). Qed.

(* ---------- the loop over the entries of one source group ---------- *)

Lemma merge_entries_frame now deleted path in_del : forall l root root' lg,
  merge_entries now deleted path in_del l root = Ok (root', lg) -> NoDup (all_uuids root) ->
  forall e, In e (ents root) -> ~ In (e_uuid e) (map uuid_of l) -> In e (ents root').
Proof.
  induction l as [|x r IH]; intros root root' lg H Nd e He Hu; cbn [merge_entries] in H.
  - injection H as <- _. exact He.
  - assert (Hr : ~ In (e_uuid e) (map uuid_of r)) by (intro Hi; apply Hu; right; exact Hi).
    destruct x as [j jc|oe]; [exact (IH _ _ _ H Nd e He Hr)|].
    destruct (merge_entry_step now deleted path in_del oe root) as [[root1 lg1]| | |] eqn:E1;
      cbn [bind] in H; try discriminate.
    destruct (merge_entries now deleted path in_del r root1) as [[root2 lg2]| | |] eqn:E2;
      cbn [bind] in H; try discriminate.
    injection H as <- _.
    apply (IH _ _ _ E2 (step_ok_nodup _ _ _ (merge_entry_step_ok _ _ _ _ _ _ _ _ E1) Nd)); [|exact Hr].
    apply (merge_entry_step_frame _ _ _ _ _ _ _ _ E1 Nd e He). intro E. apply Hu. left. cbn [uuid_of]. auto.
Qed.

(* ---------- merge_subgroup_step: an optional move or creation, then one recursive call ---------- *)

Lemma merge_subgroup_step_pre now deleted path in_del j rec root root' lg :
  merge_subgroup_step now deleted path in_del j rec root = Ok (root', lg) -> NoDup (all_uuids root) ->
  exists p d root1 lg1, rec p d root1 = Ok (root', lg1) /\ NoDup (all_uuids root1)
    /\ (forall e, In e (ents root) -> e_uuid e <> gi_uuid j -> In e (ents root1)).
Proof.
  intros H Nd. unfold merge_subgroup_step in H. cbv zeta in H.
  destruct (deleted_contains deleted (gi_uuid j) || in_del); [exists (path ++ [gi_uuid j]), true, root, lg; auto|].
  destruct (fnl_db _ _) as [dloc|] eqn:Ef.
  - assert (Hstay : forall w,
              (do (root1, lg) <- rec (dloc ++ [gi_uuid j]) in_del root; Ok (root1, w ++ lg))%outcome
              = Ok (root', lg) ->
              exists p d root1 lg1, rec p d root1 = Ok (root', lg1) /\ NoDup (all_uuids root1)
                /\ (forall e, In e (ents root) -> e_uuid e <> gi_uuid j -> In e (ents root1))).
    { intros w Hs.
      destruct (rec (dloc ++ [gi_uuid j]) in_del root) as [[r1 l1]| | |] eqn:Er; cbn [bind] in Hs;
        try discriminate.
      injection Hs as <- _. exists (dloc ++ [gi_uuid j]), in_del, root, l1. auto. }
    destruct (negb (path_eqb path dloc)); [|exact (Hstay [] H)].
    destruct (find_group _ root) as [[ei ec]|]; cbn [unwrap bind] in H; [|discriminate].
    destruct (lc_or (gi_times ei) now) as [e_lc w1]. destruct (lc_or (gi_times j) 0%Z) as [o_lc w2].
    destruct (Z.ltb e_lc o_lc && _); [|exact (Hstay _ H)].
    destruct (relocate_node _ _ _ _ root) as [root1| | |] eqn:E1; cbn [bind] in H; try discriminate.
    destruct (rec _ in_del root1) as [[root2 l2]| | |] eqn:E2; cbn [bind] in H; try discriminate.
    injection H as <- _. exists (path ++ [gi_uuid j]), in_del, root1, l2. split; [exact E2|].
    split; [exact (relocate_node_nodup _ _ _ _ _ _ E1 Nd)|].
    intros e He Hu. exact (relocate_node_frame _ _ _ _ _ _ E1 Nd e He Hu).
  - destruct (find_group path root) as [[pi pc]|] eqn:E1; cbn [of_option bind] in H; [|discriminate].
    destruct (put_group path pi _ root) as [root1|] eqn:E2; cbn [of_option bind] in H; [|discriminate].
    destruct (rec _ in_del root1) as [[root2 l2]| | |] eqn:E3; cbn [bind] in H; try discriminate.
    injection H as <- _. exists (path ++ [gi_uuid j]), in_del, root1, l2. split; [exact E3|]. split.
    + apply (step_ok_nodup root root1 [Ev GroupCreated (gi_uuid j)]); [|exact Nd].
      apply (put_group_new _ _ _ _ (NG j []) _ _ E1 E2); [reflexivity|exact Ef|reflexivity].
    + intros e He _. destruct (put_group_ents _ _ _ _ _ _ _ E1 E2) as (rest & P1 & P2).
      apply (Permutation_in _ (Permutation_sym P2)). apply (Permutation_in _ P1) in He.
      rewrite entsl_app. apply in_or_app. apply in_app_or in He as [He|He]; [left|right; exact He].
      apply in_or_app. left. exact He.
Qed.

(* ---------- merge_group: entries whose UUID the source sub-tree does not mention ---------- *)

Definition frame_at (now : Z) (deleted : list dobj) (x : node) : Prop :=
  forall path in_del root root' lg,
    merge_group now deleted path x in_del root = Ok (root', lg) -> NoDup (all_uuids root) ->
    forall e, In e (ents root) -> ~ In (e_uuid e) (all_uuids x) -> In e (ents root').

Lemma in_uus_direct x l : In x l -> In (uuid_of x) (uus l).
Proof. apply in_uus_self. Qed.

Lemma map_uuid_incl_uus l : incl (map uuid_of l) (uus l).
Proof. intros u Hu. apply in_map_iff in Hu as (x & <- & Hx). apply in_uus_self. exact Hx. Qed.

Lemma uu_incl_uus c l : In c l -> incl (uu c) (uus l).
Proof. intros H u Hu. apply in_flat_map. exists c. split; assumption. Qed.

Lemma groups_loop_frame now deleted path in_del : forall l,
  Forall (frame_at now deleted) l ->
  forall root root' lg,
  groups_loop now deleted path in_del l root = Ok (root', lg) -> NoDup (all_uuids root) ->
  forall e, In e (ents root) ->
    (forall c, In c l -> is_group c = true -> ~ In (e_uuid e) (uu c)) -> In e (ents root').
Proof.
  induction 1 as [|x r Hx Hall IH]; intros root root' lg H Nd e He Hu.
  - rewrite groups_loop_nil in H. injection H as <- _. exact He.
  - rewrite groups_loop_cons in H.
    assert (Hr : forall c, In c r -> is_group c = true -> ~ In (e_uuid e) (uu c)).
    { intros c Hc. apply Hu. right. exact Hc. }
    destruct x as [j jc|e0]; [|exact (IH _ _ _ H Nd e He Hr)].
    destruct (merge_subgroup_step _ _ _ _ _ _ root) as [[root1 lg1]| | |] eqn:E1; cbn [bind] in H;
      try discriminate.
    destruct (groups_loop now deleted path in_del r root1) as [[root2 lg2]| | |] eqn:E2;
      cbn [bind] in H; try discriminate.
    injection H as <- _.
    assert (Nd1 : NoDup (all_uuids root1)).
    { eapply step_ok_nodup; [|exact Nd]. eapply merge_subgroup_step_ok; [|exact E1].
      intros p d rt rt' l Hl. exact (merge_group_ok_all now deleted _ _ _ _ _ _ Hl). }
    apply (IH _ _ _ E2 Nd1); [|exact Hr].
    destruct (merge_subgroup_step_pre _ _ _ _ _ _ _ _ _ E1 Nd) as (p & d & rt & l1 & Hrec & Ndr & Hfr).
    pose proof (Hu (NG j jc) (or_introl eq_refl) eq_refl) as Hj. unfold uu in Hj. cbn [uuid_of In] in Hj.
    apply (Hx _ _ _ _ _ Hrec Ndr).
    + apply Hfr; [exact He|]. intro E. apply Hj. left. auto.
    + intro Hi. apply Hj. right. exact Hi.
Qed.

Lemma frame_all now deleted : forall src, frame_at now deleted src.
Proof.
  induction src as [e0|si sch IH] using node_ind'; intros path in_del root root' lg H Nd e He Hu.
  - discriminate.
  - rewrite merge_group_unfold in H.
    destruct (merge_group_head now si root) as [[root0 lg0]| | |] eqn:E0; cbn [bind] in H; try discriminate.
    destruct (merge_entries now deleted path in_del sch root0) as [[root1 lg1]| | |] eqn:E1;
      cbn [bind] in H; try discriminate.
    destruct (groups_loop now deleted path in_del sch root1) as [[root2 lg2]| | |] eqn:E2;
      cbn [bind] in H; try discriminate.
    injection H as <- _. change (all_uuids (NG si sch)) with (uus sch) in Hu.
    pose proof (step_ok_nodup _ _ _ (merge_group_head_ok _ _ _ _ _ E0) Nd) as Nd0.
    pose proof (step_ok_nodup _ _ _ (merge_entries_ok _ _ _ _ _ _ _ _ E1) Nd0) as Nd1.
    apply (groups_loop_frame _ _ _ _ _ IH _ _ _ E2 Nd1);
      [|intros c Hc _ Hi; apply Hu; exact (uu_incl_uus c sch Hc _ Hi)].
    apply (merge_entries_frame _ _ _ _ _ _ _ _ E1 Nd0).
    + apply (Permutation_in _ (Permutation_sym (merge_group_head_ents _ _ _ _ _ E0))). exact He.
    + intro Hi. apply Hu. apply map_uuid_incl_uus. exact Hi.
Qed.

(* merge_group leaves alone every destination entry whose UUID does not occur below the source
   (sub-)tree being merged *)
Theorem merge_group_frame src now deleted path in_del root root' lg :
  merge_group now deleted path src in_del root = Ok (root', lg) -> NoDup (all_uuids root) ->
  forall e, In e (ents root) -> ~ In (e_uuid e) (all_uuids src) -> In e (ents root').
Proof. exact (frame_all now deleted src path in_del root root' lg). Qed.

(* ---------- merge_deletions ---------- *)

(* an entry of the tree is still there, or a source tombstone names it and its deletion is logged *)
Definition dframe (l : list dobj) (st st' : dstate) : Prop :=
  (exists w, ds_log st' = ds_log st ++ w)
  /\ forall e, In e (ents (ds_root st)) ->
       In e (ents (ds_root st'))
       \/ ((exists o, In o l /\ d_uuid o = e_uuid e) /\ In (Ev EntryDeleted (e_uuid e)) (ds_log st')).

Lemma dframe_refl l st : dframe l st st.
Proof. split; [exists []; symmetry; apply app_nil_r|auto]. Qed.

Lemma dframe_same l st st' w : ds_root st' = ds_root st -> ds_log st' = ds_log st ++ w -> dframe l st st'.
Proof. intros Hr Hl. split; [exists w; exact Hl|]. rewrite Hr. auto. Qed.

Lemma dframe_trans l a b c : dframe l a b -> dframe l b c -> dframe l a c.
Proof.
  intros [[w1 L1] H1] [[w2 L2] H2]. split; [exists (w1 ++ w2); rewrite L2, L1, app_assoc; reflexivity|].
  intros e He. destruct (H1 e He) as [Hb|[Ho Hl]]; [exact (H2 e Hb)|].
  right. split; [exact Ho|]. rewrite L2. apply in_or_app. left. exact Hl.
Qed.

Lemma dframe_mono l l' a b : incl l l' -> dframe l a b -> dframe l' a b.
Proof.
  intros Hi [Hw H]. split; [exact Hw|]. intros e He. destruct (H e He) as [Hb|[(o & Ho & Eo) Hl]]; [auto|].
  right. split; [exists o; auto|exact Hl].
Qed.

Lemma del_entry_step_frame now st o st' :
  del_entry_step now st o = Ok st' -> NoDup (all_uuids (ds_root st)) -> dframe [o] st st'.
Proof.
  unfold del_entry_step. intros H Nd.
  destruct (deleted_contains _ _); [injection H as <-; apply dframe_refl|].
  destruct (fnl_db _ _) as [loc|]; [|injection H as <-; apply dframe_refl].
  destruct (find_group loc (ds_root st)) as [[pi pc]|] eqn:Eg; cbn [of_option bind] in H; [|discriminate].
  destruct (find _ pc) as [[gi gc|e0]|] eqn:Efi; try (injection H as <-; apply dframe_refl).
  destruct (lm_or (e_times e0) now) as [lm w]. destruct (Z.ltb lm (d_time o)).
  - destruct (remove_node _ pc) as [[nd kept]|] eqn:Er; cbn [of_option bind] in H; [|discriminate].
    destruct (put_group _ _ _ _) as [root1|] eqn:Ep; cbn [of_option bind] in H; [|discriminate].
    injection H as <-. cbn [ds_root ds_log]. split; [eexists; reflexivity|]. cbn [ds_root ds_log].
    destruct (put_group_removed_ents _ _ _ _ _ _ _ _ Eg Er Ep Nd) as [HF P].
    apply find_some in Efi as [Hin Heq].
    assert (Hnd : nd = NE e0).
    { assert (Hi : In (NE e0) (filter (fun c => N.eqb (uuid_of c) (d_uuid o)) pc)) by (apply filter_In; auto).
      rewrite HF in Hi. destruct Hi as [Hi|[]]. exact Hi. }
    subst nd. apply N.eqb_eq in Heq. cbn [uuid_of] in Heq.
    intros e He. apply (Permutation_in _ P) in He. destruct He as [<-|He]; [right|left; exact He].
    split; [exists o; split; [left; reflexivity|auto]|].
    rewrite Heq. apply in_or_app. right. apply in_or_app. right. left. reflexivity.
  - injection H as <-. apply (dframe_same _ _ _ w); reflexivity.
Qed.

Lemma dstep_nodup st st' : dstep st st' -> NoDup (all_uuids (ds_root st)) -> NoDup (all_uuids (ds_root st')).
Proof. intros (w & _ & _ & H) Nd. exact (proj1 (H Nd)). Qed.

Lemma del_entries_frame now : forall l st st',
  del_entries now st l = Ok st' -> NoDup (all_uuids (ds_root st)) -> dframe l st st'.
Proof.
  induction l as [|o r IH]; intros st st' H Nd; cbn [del_entries] in H.
  - injection H as <-. apply dframe_refl.
  - destruct (del_entry_step now st o) as [st1| | |] eqn:E1; cbn [bind] in H; try discriminate.
    pose proof (dstep_nodup _ _ (del_entry_step_d _ _ _ _ E1) Nd) as Nd1.
    eapply dframe_trans.
    + eapply dframe_mono; [|exact (del_entry_step_frame _ _ _ _ E1 Nd)]. intros x [<-|[]]. left. reflexivity.
    + eapply dframe_mono; [|exact (IH _ _ H Nd1)]. intros x Hx. right. exact Hx.
Qed.

(* a group is only deleted when it is empty: no entry goes with it *)
Lemma del_group_step_frame now st o q st' q' :
  del_group_step now st o q = Ok (st', q') -> NoDup (all_uuids (ds_root st)) -> dframe [] st st'.
Proof.
  unfold del_group_step. intros H Nd.
  destruct (deleted_contains _ _); [injection H as <- _; apply dframe_refl|].
  destruct (fnl_db _ _) as [loc|]; [|injection H as <- _; apply dframe_refl].
  destruct (find_group loc (ds_root st)) as [[pi pc]|] eqn:Eg; cbn [of_option bind] in H; [|discriminate].
  destruct (find _ pc) as [[gi gc|e0]|] eqn:Efi; try (injection H as <- _; apply dframe_refl).
  destruct (existsb (fun c => negb (is_group c)) gc) eqn:X1; [injection H as <- _; apply dframe_refl|].
  destruct (existsb (fun c => is_group c && in_queue (uuid_of c) q) gc) eqn:X2;
    [injection H as <- _; apply dframe_refl|].
  destruct (existsb is_group gc) eqn:X3; [injection H as <- _; apply dframe_refl|].
  pose proof (no_children gc X1 X3) as Hgc. subst gc.
  destruct (lm_or (gi_times gi) now) as [lm w]. destruct (Z.ltb lm (d_time o)).
  - destruct (remove_node _ pc) as [[nd kept]|] eqn:Er; cbn [of_option bind] in H; [|discriminate].
    destruct (put_group _ _ _ _) as [root1|] eqn:Ep; cbn [of_option bind] in H; [|discriminate].
    injection H as <- _. split; [eexists; reflexivity|]. cbn [ds_root ds_log].
    destruct (put_group_removed_ents _ _ _ _ _ _ _ _ Eg Er Ep Nd) as [HF P].
    apply find_some in Efi as [Hin Heq].
    assert (Hnd : nd = NG gi []).
    { assert (Hi : In (NG gi []) (filter (fun c => N.eqb (uuid_of c) (d_uuid o)) pc)) by (apply filter_In; auto).
      rewrite HF in Hi. destruct Hi as [Hi|[]]. exact Hi. }
    subst nd. intros e He. left. apply (Permutation_in _ P) in He. exact He.
  - injection H as <- _. apply (dframe_same _ _ _ w); reflexivity.
Qed.

Lemma del_groups_frame now : forall fuel st q st',
  del_groups fuel now st q = Ok st' -> NoDup (all_uuids (ds_root st)) -> dframe [] st st'.
Proof.
  induction fuel as [|f IH]; intros st q st' H Nd.
  - destruct q; cbn [del_groups] in H; [|discriminate]. injection H as <-. apply dframe_refl.
  - destruct q as [|o q]; cbn [del_groups] in H.
    + injection H as <-. apply dframe_refl.
    + destruct (del_group_step now st o q) as [[st1 q1]| | |] eqn:E1; cbn [bind] in H; try discriminate.
      pose proof (dstep_nodup _ _ (del_group_step_d _ _ _ _ _ _ E1) Nd) as Nd1.
      eapply dframe_trans; [exact (del_group_step_frame _ _ _ _ _ _ E1 Nd)|exact (IH _ _ _ H Nd1)].
Qed.

(* applying the source's tombstones: an entry of the tree stays, unchanged, unless a source
   tombstone carries its UUID and the log reports its deletion *)
Theorem merge_deletions_frame now root deleted src_deleted root' deleted' lg :
  merge_deletions now root deleted src_deleted = Ok (root', deleted', lg) -> NoDup (all_uuids root) ->
  forall e, In e (ents root) ->
    In e (ents root')
    \/ ((exists o, In o src_deleted /\ d_uuid o = e_uuid e) /\ In (Ev EntryDeleted (e_uuid e)) lg).
Proof.
  unfold merge_deletions. intros H Nd.
  destruct (del_entries now _ src_deleted) as [st1| | |] eqn:E1; cbn [bind] in H; try discriminate.
  destruct (del_groups _ now st1 _) as [st2| | |] eqn:E2; cbn [bind] in H; try discriminate.
  injection H as <- _ <-.
  pose proof (dstep_nodup _ _ (del_entries_d _ _ _ _ E1) Nd) as Nd1. cbn [ds_root] in Nd1.
  pose proof (del_entries_frame _ _ _ _ E1 Nd) as F1.
  pose proof (del_groups_frame _ _ _ _ _ E2 Nd1) as F2.
  assert (F2' : dframe src_deleted st1 st2) by (eapply dframe_mono; [|exact F2]; intros x []).
  destruct (dframe_trans _ _ _ _ F1 F2') as [_ F]. exact F.
Qed.

(* Basic facts about the object model: induction principles, boolean equalities are equalities. *)
From KP Require Import Bytes Tree.

Definition olist {A} (o : option (list A)) : list A := match o with Some l => l | None => [] end.

Section entry_ind.
  Variable P : entry -> Prop.
  Hypothesis H : forall u d t h, Forall P (olist h) -> P (mkEntry u d t h).
  Fixpoint entry_ind' (e : entry) : P e :=
    match e with
    | mkEntry u d t h =>
      H u d t h
        (match h as h0 return Forall P (olist h0) with
         | None => Forall_nil P
         | Some l0 =>
           (fix go (l : list entry) : Forall P l :=
              match l with
              | [] => Forall_nil P
              | x :: r => Forall_cons x (entry_ind' x) (go r)
              end) l0
         end)
    end.
End entry_ind.

Section node_ind.
  Variable P : node -> Prop.
  Hypothesis HE : forall e, P (NE e).
  Hypothesis HG : forall i c, Forall P c -> P (NG i c).
  Fixpoint node_ind' (n : node) : P n :=
    match n with
    | NE e => HE e
    | NG i c =>
      HG i c ((fix go (l : list node) : Forall P l :=
                 match l with
                 | [] => Forall_nil P
                 | x :: r => Forall_cons x (node_ind' x) (go r)
                 end) c)
    end.
End node_ind.

Lemma optz_eqb_eq a b : optz_eqb a b = true <-> a = b.
Proof.
  destruct a as [x|], b as [y|]; cbn; split; intro H; try discriminate; try reflexivity.
  - apply Z.eqb_eq in H. congruence.
  - injection H as ->. apply Z.eqb_refl.
Qed.

Lemma times_eqb_eq a b : times_eqb a b = true <-> a = b.
Proof.
  destruct a as [a1 a2 a3], b as [b1 b2 b3]. unfold times_eqb. cbn [t_lm t_lc t_rest].
  rewrite !andb_true_iff, !optz_eqb_eq, N.eqb_eq. split.
  - intros [[-> ->] ->]. reflexivity.
  - intro H. injection H as -> -> ->. auto.
Qed.

Lemma times_eqb_refl a : times_eqb a a = true.
Proof. apply times_eqb_eq. reflexivity. Qed.

Definition entries_eqb := list_eqb entry_eqb.

Lemma entry_eqb_unfold u1 d1 t1 h1 u2 d2 t2 h2 :
  entry_eqb (mkEntry u1 d1 t1 h1) (mkEntry u2 d2 t2 h2) =
  N.eqb u1 u2 && N.eqb d1 d2 && times_eqb t1 t2 && option_eqb entries_eqb h1 h2.
Proof.
  cbn [entry_eqb]. f_equal. destruct h1 as [l1|], h2 as [l2|]; try reflexivity.
  cbn [option_eqb]. revert l2. induction l1 as [|x r IH]; intros [|y s]; try reflexivity.
  cbn [entries_eqb list_eqb]. rewrite IH. reflexivity.
Qed.

Lemma entry_eqb_eq : forall a b, entry_eqb a b = true <-> a = b.
Proof.
  induction a as [u1 d1 t1 h1 IH] using entry_ind'. intros [u2 d2 t2 h2].
  rewrite entry_eqb_unfold, !andb_true_iff, !N.eqb_eq, times_eqb_eq.
  assert (Hh : option_eqb entries_eqb h1 h2 = true <-> h1 = h2).
  { destruct h1 as [l1|], h2 as [l2|]; cbn [option_eqb olist] in *; try (split; [discriminate|discriminate]);
      [|split; reflexivity].
    revert l2. induction IH as [|x r Hx _ IHr]; intros [|y s]; cbn [entries_eqb list_eqb];
      try (split; [discriminate|discriminate]); [split; reflexivity|].
    rewrite andb_true_iff, Hx. fold (entries_eqb r s). rewrite IHr. split.
    - intros [-> E]. injection E as ->. reflexivity.
    - intro E. injection E as -> ->. auto. }
  rewrite Hh. split.
  - intros [[[-> ->] ->] ->]. reflexivity.
  - intro E. injection E as -> -> -> ->. auto.
Qed.

Lemma entry_eqb_refl a : entry_eqb a a = true.
Proof. apply entry_eqb_eq. reflexivity. Qed.

Lemma entry_eqb_neq a b : entry_eqb a b = false <-> a <> b.
Proof.
  split.
  - intros H E. apply entry_eqb_eq in E. congruence.
  - intro H. destruct (entry_eqb a b) eqn:E; [|reflexivity]. apply entry_eqb_eq in E. contradiction.
Qed.

Lemma ginfo_eqb_eq a b : ginfo_eqb a b = true <-> a = b.
Proof.
  destruct a as [a1 a2 a3], b as [b1 b2 b3]. unfold ginfo_eqb. cbn [gi_uuid gi_data gi_times].
  rewrite !andb_true_iff, !N.eqb_eq, times_eqb_eq. split.
  - intros [[-> ->] ->]. reflexivity.
  - intro H. injection H as -> -> ->. auto.
Qed.

Definition nodes_eqb := list_eqb node_eqb.

Lemma node_eqb_unfold_g i c j d :
  node_eqb (NG i c) (NG j d) = ginfo_eqb i j && nodes_eqb c d.
Proof.
  cbn [node_eqb]. f_equal. revert d. induction c as [|x r IH]; intros [|y s]; try reflexivity.
  cbn [nodes_eqb list_eqb]. rewrite IH. reflexivity.
Qed.

Lemma node_eqb_eq : forall a b, node_eqb a b = true <-> a = b.
Proof.
  induction a as [e|i c IH] using node_ind'; intros [j d|e2].
  - cbn. split; discriminate.
  - cbn [node_eqb]. rewrite entry_eqb_eq. split; [intros ->; reflexivity|intro E; injection E; auto].
  - rewrite node_eqb_unfold_g, andb_true_iff, ginfo_eqb_eq.
    assert (Hc : nodes_eqb c d = true <-> c = d).
    { revert d. induction IH as [|x r Hx _ IHr]; intros [|y s]; cbn [nodes_eqb list_eqb];
        try (split; [discriminate|discriminate]); [split; reflexivity|].
      rewrite andb_true_iff, Hx. fold (nodes_eqb r s). rewrite IHr. split.
      - intros [-> ->]. reflexivity.
      - intro E. injection E as -> ->. auto. }
    rewrite Hc. split; [intros [-> ->]; reflexivity|intro E; injection E as -> ->; auto].
  - cbn. split; discriminate.
Qed.

(* Model of Database::merge (C13-C16), statement by statement.
   Mirrors src/db/mod.rs (merge, merge_group, merge_deletions, find_node_location, relocate_node),
   src/db/group.rs (get_by_uuid / find_group / find_entry and their _mut variants, remove_node,
   find_node_location, merge_with, has_diverged_from) and src/db/entry.rs (merge, merge_history,
   has_diverged_from, History::merge_with).  Executable, total; no proofs in this file.

   Times::now() is the parameter [now]; it is only ever compared, never stored.
   Times::epoch() is 0.  Warnings are kept as [Warn] items in the log (the harness compares
   their number); events keep their order. *)
From KP Require Import Bytes Outcome Tree History.
Local Open Scope N_scope.
Local Open Scope outcome_scope.

Inductive merr :=
| EGeneric
| EFindGroup (loc : list N)
| EFindEntry (loc : list N)
| EEntryTime        (* EntryModificationTimeNotUpdated *)
| EGroupTime        (* GroupModificationTimeNotUpdated *)
| EDupHistory.      (* DuplicateHistoryEntries *)

Inductive evtype :=
| EntryCreated | EntryDeleted | EntryLocationUpdated | EntryUpdated
| GroupCreated | GroupDeleted | GroupLocationUpdated | GroupUpdated.

Inductive levent := Ev (t : evtype) (u : N) | Warn.
Definition log := list levent.
Definition res A := outcome merr A.

(* Panic sites *)
Definition site_find_entry_unwrap : N := 1.   (* merge_group: find_entry(..).unwrap() *)
Definition site_find_group_unwrap : N := 2.   (* merge_group: find_group(..).unwrap() *)
Definition site_hist_self_unwrap : N := 3.    (* History::merge_with: own item without LastModificationTime *)
Definition site_hist_other_unwrap : N := 4.   (* History::merge_with: other item without it *)

(* ---------- lookup by UUID path (get_internal / get_mut_internal with SearchField::UUID) ---------- *)

Fixpoint get_uuid (path : list N) (n : node) : option node :=
  match path with
  | [] => Some n
  | h :: tail =>
    match tail with
    | [] => find (fun c => N.eqb (uuid_of c) h) (children_of n)
    | _ :: _ =>
      match find (fun c => is_group c && N.eqb (uuid_of c) h) (children_of n) with
      | Some g => get_uuid tail g
      | None => None
      end
    end
  end.

Definition find_group (path : list N) (root : node) : option (ginfo * list node) :=
  match get_uuid path root with
  | Some (NG i c) => Some (i, c)
  | _ => None
  end.

Definition find_entry (path : list N) (root : node) : option entry :=
  match get_uuid path root with
  | Some (NE e) => Some e
  | _ => None
  end.

(* replace the first element satisfying p by (f x); None if there is none or f fails *)
Fixpoint update_first (p : node -> bool) (f : node -> option node) (l : list node) : option (list node) :=
  match l with
  | [] => None
  | x :: r =>
    if p x then option_map (fun x' => x' :: r) (f x)
    else option_map (cons x) (update_first p f r)
  end.

(* the node designated by [path] (as get_mut_internal finds it) replaced by f of it *)
Fixpoint update_uuid (path : list N) (f : node -> option node) (n : node) {struct path} : option node :=
  match path with
  | [] => f n
  | h :: tail =>
    match n with
    | NE _ => None
    | NG i ch =>
      match tail with
      | [] => option_map (NG i) (update_first (fun c => N.eqb (uuid_of c) h) f ch)
      | _ :: _ =>
        option_map (NG i)
          (update_first (fun c => is_group c && N.eqb (uuid_of c) h) (update_uuid tail f) ch)
      end
    end
  end.

(* write back through a `find_group_mut` reference *)
Definition put_group (path : list N) (i : ginfo) (c : list node) (root : node) : option node :=
  update_uuid path (fun n => match n with NG _ _ => Some (NG i c) | NE _ => None end) root.
(* write back through a `find_entry_mut` reference *)
Definition put_entry (path : list N) (e : entry) (root : node) : option node :=
  update_uuid path (fun n => match n with NE _ => Some (NE e) | NG _ _ => None end) root.

(* ---------- find_node_location ---------- *)

(* Group::find_node_location *)
Fixpoint fnl_in (id : N) (n : node) : option (list N) :=
  match n with
  | NE _ => None
  | NG i ch =>
    (fix go (l : list node) : option (list N) :=
       match l with
       | [] => None
       | x :: r =>
         match x with
         | NE e => if N.eqb (e_uuid e) id then Some [gi_uuid i] else go r
         | NG j _ =>
           if N.eqb (gi_uuid j) id then Some [gi_uuid i]
           else match fnl_in id x with
                | Some loc => Some (gi_uuid i :: loc)
                | None => go r
                end
         end
       end) ch
  end.

(* Database::find_node_location: over the root's children, without the root's own uuid *)
Fixpoint fnl_db (id : N) (children : list node) : option (list N) :=
  match children with
  | [] => None
  | x :: r =>
    match x with
    | NE e => if N.eqb (e_uuid e) id then Some [] else fnl_db id r
    | NG j _ =>
      if N.eqb (gi_uuid j) id then Some []
      else match fnl_in id x with
           | Some loc => Some loc
           | None => fnl_db id r
           end
    end
  end.

(* ---------- Group::remove_node ---------- *)
(* every child with that uuid is dropped; the last one is returned *)
Definition remove_node (u : N) (ch : list node) : option (node * list node) :=
  match rev (filter (fun c => N.eqb (uuid_of c) u) ch) with
  | [] => None
  | x :: _ => Some (x, filter (fun c => negb (N.eqb (uuid_of c) u)) ch)
  end.

Definition node_set_lc (n : node) (t : Z) : node :=
  match n with
  | NG i c => NG (mkGinfo (gi_uuid i) (gi_data i) (set_lc (gi_times i) t)) c
  | NE e => NE (e_set_times e (set_lc (e_times e) t))
  end.

(* ---------- Database::relocate_node ---------- *)
Definition relocate_node (u : N) (from to : list N) (ts : Z) (root : node) : res node :=
  do (si, sc) <- of_option (EFindGroup from) (find_group from root);
  do (nd, kept) <- of_option EGeneric (remove_node u sc);
  do root1 <- of_option (EFindGroup from) (put_group from si kept root);
  do (di, dc) <- of_option (EFindGroup to) (find_group to root1);
  of_option (EFindGroup to) (put_group to di (dc ++ [node_set_lc nd ts]) root1).

(* ---------- Group::has_diverged_from / Group::merge_with ---------- *)
Definition group_diverged (a b : ginfo) : bool :=
  negb (N.eqb (gi_uuid a) (gi_uuid b) && N.eqb (gi_data a) (gi_data b)).

Definition lm_or (t : times) (dflt : Z) : Z * log :=
  match t_lm t with Some v => (v, []) | None => (dflt, [Warn]) end.
Definition lc_or (t : times) (dflt : Z) : Z * log :=
  match t_lc t with Some v => (v, []) | None => (dflt, [Warn]) end.

Definition group_merge_with (now : Z) (d s : ginfo) : res (ginfo * log) :=
  let '(src_lm, w1) := lm_or (gi_times s) 0%Z in
  let '(dst_lm, w2) := lm_or (gi_times d) now in
  let lg := w1 ++ w2 in
  if Z.eqb dst_lm src_lm then
    (if group_diverged d s then Err EGroupTime else Ok (d, lg))
  else if Z.gtb dst_lm src_lm then Ok (d, lg)
  else
    let t' := match t_lc (gi_times d) with
              | Some t => set_lc (gi_times s) t
              | None => gi_times s
              end in
    Ok (mkGinfo (gi_uuid d) (gi_data s) t', lg ++ [Ev GroupUpdated (gi_uuid d)]).

(* ---------- Entry::has_diverged_from, History::merge_with, merge_history, merge ---------- *)
Definition entry_diverged (a b : entry) : bool :=
  negb (entry_eqb (e_set_times a times_default) (e_set_times b times_default)).

Fixpoint lookup_time (t : Z) (m : list (Z * entry)) : option entry :=
  match m with
  | [] => None
  | (k, v) :: r => if Z.eqb k t then Some v else lookup_time t r
  end.

Fixpoint hist_self (acc : list (Z * entry)) (l : list entry) : res (list (Z * entry)) :=
  match l with
  | [] => Ok acc
  | h :: r =>
    match t_lm (e_times h) with
    | None => Panic site_hist_self_unwrap
    | Some t =>
      match lookup_time t acc with
      | Some _ => Err EDupHistory
      | None => hist_self (acc ++ [(t, h)]) r
      end
    end
  end.

Fixpoint hist_other (acc : list (Z * entry)) (lg : log) (l : list entry) : res (list (Z * entry) * log) :=
  match l with
  | [] => Ok (acc, lg)
  | h :: r =>
    match t_lm (e_times h) with
    | None => Panic site_hist_other_unwrap
    | Some t =>
      match lookup_time t acc with
      | Some ex => hist_other acc (lg ++ (if entry_diverged ex h then [Warn] else [])) r
      | None => hist_other (acc ++ [(t, h)]) lg r
      end
    end
  end.

(* keys are pairwise distinct, so "sort descending" is this insertion sort *)
Fixpoint insert_desc (x : Z * entry) (l : list (Z * entry)) : list (Z * entry) :=
  match l with
  | [] => [x]
  | y :: r => if Z.leb (fst y) (fst x) then x :: y :: r else y :: insert_desc x r
  end.
Definition sort_desc (l : list (Z * entry)) : list (Z * entry) := fold_right insert_desc [] l.

Definition history_merge_with (self other : list entry) : res (list entry * log) :=
  do m1 <- hist_self [] self;
  do (m2, lg) <- hist_other m1 [] other;
  Ok (map snd (sort_desc m2), lg).

Definition merge_history (self other : entry) : res (entry * log) :=
  let '(src_hist, w1) := match e_hist other with Some h => (h, []) | None => ([], [Warn]) end in
  let '(dst_hist, w2) := match e_hist self with Some h => (h, []) | None => ([], [Warn]) end in
  let '(src_hist', w3) := if has_uncommitted_changes other
                          then (add_entry src_hist other, [Warn]) else (src_hist, []) in
  do (h, lg) <- history_merge_with dst_hist src_hist';
  Ok (e_set_hist self (Some h), w1 ++ w2 ++ w3 ++ lg).

Definition entry_merge (now : Z) (self other : entry) : res (option entry * log) :=
  let '(src_lm, w1) := lm_or (e_times other) 0%Z in
  let '(dst_lm, w2) := lm_or (e_times self) now in
  if Z.eqb dst_lm src_lm then
    (if negb (entry_diverged self other) then Err EEntryTime else Ok (None, w1 ++ w2))
  else
    do (m, lg) <- (if Z.gtb dst_lm src_lm then merge_history self other else merge_history other self);
    let m' := match t_lc (e_times self) with
              | Some lc => e_set_times m (set_lc (e_times m) lc)
              | None => m
              end in
    Ok (Some m', lg).     (* the two last-modification warnings are dropped here, as in the code *)

(* ---------- Database::merge_group ---------- *)

Definition last_opt (l : list N) : option N := last (map Some l) None.
Definition optN_eqb := option_eqb N.eqb.
Definition path_eqb := list_eqb N.eqb.

(* the part before the loops: update the group itself if the destination has it *)
Definition merge_group_head_below (now : Z) (si : ginfo) (root : node) : res (node * log) :=
  match fnl_db (gi_uuid si) (children_of root) with
  | Some loc =>
    let p := loc ++ [gi_uuid si] in
    do (di, dc) <- of_option (EFindGroup p) (find_group p root);
    do (di', lg) <- group_merge_with now di si;
    do root1 <- of_option (EFindGroup p) (put_group p di' dc root);
    Ok (root1, lg)
  | None => Ok (root, [])
  end.

Definition merge_group_head (now : Z) (si : ginfo) (root : node) : res (node * log) :=
  (* the root group is not below any group: since the repair F19 its own fields are merged directly *)
  match root with
  | NG ri rc =>
    if N.eqb (gi_uuid si) (gi_uuid ri) then
      do (ri', lg) <- group_merge_with now ri si;
      Ok (NG ri' rc, lg)
    else merge_group_head_below now si root
  | NE _ => merge_group_head_below now si root
  end.

(* one iteration of `for other_entry in &current_group.entries()` *)
Definition merge_entry_step (now : Z) (deleted : list dobj) (path : list N) (in_del : bool)
           (oe : entry) (root : node) : res (node * log) :=
  match fnl_db (e_uuid oe) (children_of root) with
  | Some dloc =>
    let existing_loc := dloc ++ [e_uuid oe] in
    do existing <- unwrap site_find_entry_unwrap (find_entry existing_loc root);
    do (root1, existing1, loc1, lg1) <-
       (if negb (optN_eqb (last_opt path) (last_opt dloc)) && negb in_del then
          let '(src_lc, w1) := lc_or (e_times oe) 0%Z in
          let '(dst_lc, w2) := lc_or (e_times existing) now in
          if Z.gtb src_lc dst_lc then
            do r1 <- relocate_node (e_uuid oe) dloc path src_lc root;
            Ok (r1, e_set_times existing (set_lc (e_times existing) src_lc), path ++ [e_uuid oe],
                w1 ++ w2 ++ [Ev EntryLocationUpdated (e_uuid oe)])
          else Ok (root, existing, existing_loc, w1 ++ w2)
        else Ok (root, existing, existing_loc, []));
    if negb (entry_diverged existing1 oe) then Ok (root1, lg1)
    else
      do (merged, elog) <- entry_merge now existing1 oe;
      match merged with
      | None => Ok (root1, lg1)
      | Some m =>
        if entry_eqb existing1 m then Ok (root1, lg1)
        else
          do root2 <- of_option (EFindEntry loc1) (put_entry loc1 m root1);
          Ok (root2, lg1 ++ [Ev EntryUpdated (e_uuid m)] ++ elog)
      end
  | None =>
    if deleted_contains deleted (e_uuid oe) then Ok (root, [])
    else if in_del then Ok (root, [])
    else
      do (pi, pc) <- of_option (EFindGroup path) (find_group path root);
      do root1 <- of_option (EFindGroup path) (put_group path pi (pc ++ [NE oe]) root);
      Ok (root1, [Ev EntryCreated (e_uuid oe)])
  end.

Fixpoint merge_entries (now : Z) (deleted : list dobj) (path : list N) (in_del : bool)
         (l : list node) (root : node) : res (node * log) :=
  match l with
  | [] => Ok (root, [])
  | x :: r =>
    match x with
    | NG _ _ => merge_entries now deleted path in_del r root
    | NE oe =>
      do (root1, lg1) <- merge_entry_step now deleted path in_del oe root;
      do (root2, lg2) <- merge_entries now deleted path in_del r root1;
      Ok (root2, lg1 ++ lg2)
    end
  end.

(* one iteration of `for other_group in &current_group.groups()`; [rec p d rt] is the recursive
   call merge_group(p, other_group, d) on destination rt *)
Definition merge_subgroup_step (now : Z) (deleted : list dobj) (path : list N) (in_del : bool)
           (j : ginfo) (rec : list N -> bool -> node -> res (node * log)) (root : node)
  : res (node * log) :=
  let new_loc := path ++ [gi_uuid j] in
  if deleted_contains deleted (gi_uuid j) || in_del then rec new_loc true root
  else
    match fnl_db (gi_uuid j) (children_of root) with
    | Some dloc =>
      let stay (w : log) :=
          do (root1, lg) <- rec (dloc ++ [gi_uuid j]) in_del root;
          Ok (root1, w ++ lg) in
      if negb (path_eqb path dloc) then
        do (ei, _) <- unwrap site_find_group_unwrap (find_group (dloc ++ [gi_uuid j]) root);
        let '(e_lc, w1) := lc_or (gi_times ei) now in
        let '(o_lc, w2) := lc_or (gi_times j) 0%Z in
        if Z.ltb e_lc o_lc && negb (existsb (N.eqb (gi_uuid j)) path) then   (* never into its own subtree *)
          do root1 <- relocate_node (gi_uuid j) dloc path o_lc root;
          do (root2, lg) <- rec new_loc in_del root1;
          Ok (root2, w1 ++ w2 ++ [Ev GroupLocationUpdated (gi_uuid j)] ++ lg)
        else stay (w1 ++ w2)
      else stay []
    | None =>
      do (pi, pc) <- of_option (EFindGroup path) (find_group path root);
      do root1 <- of_option (EFindGroup path) (put_group path pi (pc ++ [NG j []]) root);
      do (root2, lg) <- rec new_loc in_del root1;
      Ok (root2, [Ev GroupCreated (gi_uuid j)] ++ lg)
    end.

Fixpoint merge_group (now : Z) (deleted : list dobj) (path : list N) (src : node) (in_del : bool)
         (root : node) {struct src} : res (node * log) :=
  match src with
  | NE _ => Err EGeneric     (* never called on an entry *)
  | NG si sch =>
    do (root0, lg0) <- merge_group_head now si root;
    do (root1, lg1) <- merge_entries now deleted path in_del sch root0;
    do (root2, lg2) <-
       (fix groups_loop (l : list node) (root : node) : res (node * log) :=
          match l with
          | [] => Ok (root, [])
          | x :: r =>
            match x with
            | NE _ => groups_loop r root
            | NG j _ =>
              do (root', lg) <- merge_subgroup_step now deleted path in_del j
                                   (fun p d rt => merge_group now deleted p x d rt) root;
              do (root'', lg') <- groups_loop r root';
              Ok (root'', lg ++ lg')
            end
          end) sch root1;
    Ok (root2, lg0 ++ lg1 ++ lg2)
  end.

(* ---------- Database::merge_deletions ---------- *)

Record dstate := mkDstate { ds_root : node; ds_deleted : list dobj; ds_log : log }.

(* first loop: entries *)
Definition del_entry_step (now : Z) (st : dstate) (o : dobj) : res dstate :=
  if deleted_contains (ds_deleted st) (d_uuid o) then Ok st
  else
    match fnl_db (d_uuid o) (children_of (ds_root st)) with
    | None => Ok st
    | Some loc =>
      do (pi, pc) <- of_option (EFindGroup loc) (find_group loc (ds_root st));
      match find (fun c => N.eqb (uuid_of c) (d_uuid o)) pc with
      | Some (NE e) =>
        let '(lm, w) := lm_or (e_times e) now in
        if Z.ltb lm (d_time o) then
          do (_, kept) <- of_option EGeneric (remove_node (d_uuid o) pc);
          do root1 <- of_option (EFindGroup loc) (put_group loc pi kept (ds_root st));
          Ok (mkDstate root1 (ds_deleted st ++ [o]) (ds_log st ++ w ++ [Ev EntryDeleted (d_uuid o)]))
        else Ok (mkDstate (ds_root st) (ds_deleted st) (ds_log st ++ w))
      | _ => Ok st           (* a group (handled later) or nothing *)
      end
    end.

Fixpoint del_entries (now : Z) (st : dstate) (l : list dobj) : res dstate :=
  match l with
  | [] => Ok st
  | o :: r => do st1 <- del_entry_step now st o; del_entries now st1 r
  end.

Definition in_queue (u : N) (q : list dobj) : bool := existsb (fun o => N.eqb (d_uuid o) u) q.

(* one pop of the group work queue; returns the new state and queue *)
Definition del_group_step (now : Z) (st : dstate) (o : dobj) (q : list dobj) : res (dstate * list dobj) :=
  if deleted_contains (ds_deleted st) (d_uuid o) then Ok (st, q)
  else
    match fnl_db (d_uuid o) (children_of (ds_root st)) with
    | None => Ok (st, q)
    | Some loc =>
      do (pi, pc) <- of_option (EFindGroup loc) (find_group loc (ds_root st));
      match find (fun c => N.eqb (uuid_of c) (d_uuid o)) pc with
      | Some (NG gi gc) =>
        if existsb (fun c => negb (is_group c)) gc then Ok (st, q)              (* still has entries *)
        else if existsb (fun c => is_group c && in_queue (uuid_of c) q) gc then
          Ok (st, q ++ [o])                                                     (* decide later *)
        else if existsb is_group gc then Ok (st, q)                             (* keeps a sub-group *)
        else
          let '(lm, w) := lm_or (gi_times gi) now in
          if Z.ltb lm (d_time o) then
            do (_, kept) <- of_option EGeneric (remove_node (d_uuid o) pc);
            do root1 <- of_option (EFindGroup loc) (put_group loc pi kept (ds_root st));
            Ok (mkDstate root1 (ds_deleted st ++ [o]) (ds_log st ++ w ++ [Ev GroupDeleted (d_uuid o)]), q)
          else Ok (mkDstate (ds_root st) (ds_deleted st) (ds_log st ++ w), q)
      | _ => Ok (st, q)
      end
    end.

Fixpoint del_groups (fuel : nat) (now : Z) (st : dstate) (q : list dobj) : res dstate :=
  match q with
  | [] => Ok st
  | o :: q' =>
    match fuel with
    | O => OutOfFuel
    | S f => do (st1, q1) <- del_group_step now st o q'; del_groups f now st1 q1
    end
  end.

Definition del_fuel (q : list dobj) : nat := S (length q * S (length q)).

Definition merge_deletions (now : Z) (root : node) (deleted : list dobj) (src_deleted : list dobj)
  : res (node * list dobj * log) :=
  do st1 <- del_entries now (mkDstate root deleted []) src_deleted;
  let q := filter (fun o => negb (deleted_contains (ds_deleted st1) (d_uuid o))) src_deleted in
  do st2 <- del_groups (del_fuel q) now st1 q;
  Ok (ds_root st2, ds_deleted st2, ds_log st2).

(* ---------- Database::merge ---------- *)
Definition merge (now : Z) (d s : db) : res (db * log) :=
  do (root1, lg1) <- merge_group now (db_deleted d) [] (db_root s) false (db_root d);
  do (root2, del2, lg2) <- merge_deletions now root1 (db_deleted d) (db_deleted s);
  match root2 with
  | NG i c => Ok (mkDb i c del2, lg1 ++ lg2)
  | NE _ => Err EGeneric
  end.

(* Entry::merge, completely (component level of "merge keeps the newest version of every node and
   every historical version").

   [history_merge_in]   exactly which items History::merge_with keeps: all own items, and of the
                        other list the first item of every modification time that no own item has;
   [merge_history_eq]   Entry::merge_history as one equation;
   [entry_merge_eq]     Entry::merge as one equation when both entries are stamped with different
                        times: the newer entry with the destination's LocationChanged and the merged
                        history, the two "no stamp" warnings dropped;
   [entry_merge_lww]    the same as properties of the result;
   [entry_merge_same_time], [entry_merge_unstamped_*]: the other paths. *)
From Coq Require Import Sorted Permutation.
From KP Require Import Bytes Outcome Tree TreeFacts History Merge MergeProofs MergeUuids MergeSelf.
Local Open Scope Z_scope.

(* ---------- History::merge_with: which items survive ---------- *)

(* [x] is the first item of [l] with its modification time [t], and no key of [seen] is [t] *)
Definition first_fresh (seen : list Z) (l : list entry) (t : Z) (x : entry) : Prop :=
  exists l1 l2, l = l1 ++ x :: l2 /\ t_lm (e_times x) = Some t
                /\ ~ In t seen /\ ~ In (Some t) (hist_keys l1).

Lemma keys_app a b : keys (a ++ b) = keys a ++ keys b.
Proof. apply map_app. Qed.

Lemma lookup_time_in t m v : lookup_time t m = Some v -> In t (keys m).
Proof. intro H. apply lookup_time_some in H. change t with (fst (t, v)). apply in_map. exact H. Qed.

Lemma hist_other_in : forall l acc lg m lg',
  hist_other acc lg l = Ok (m, lg') ->
  forall t x, In (t, x) m <-> In (t, x) acc \/ first_fresh (keys acc) l t x.
Proof.
  induction l as [|h r IH]; intros acc lg m lg' H t x; cbn [hist_other] in H.
  - injection H as <- _. split; [auto|]. intros [Hi|(l1 & l2 & E & _)]; [exact Hi|].
    destruct l1; discriminate.
  - destruct (t_lm (e_times h)) as [t0|] eqn:Et; [|discriminate].
    destruct (lookup_time t0 acc) as [ex|] eqn:Lk.
    + rewrite (IH _ _ _ _ H t x). apply lookup_time_in in Lk. split.
      * intros [Hi|(l1 & l2 & -> & Hx & Hn & Hk)]; [left; exact Hi|right].
        exists (h :: l1), l2. split; [reflexivity|]. split; [exact Hx|]. split; [exact Hn|].
        cbn [hist_keys map]. intros [E|Hi]; [|exact (Hk Hi)].
        rewrite Et in E. injection E as ->. exact (Hn Lk).
      * intros [Hi|(l1 & l2 & E & Hx & Hn & Hk)]; [left; exact Hi|right].
        destruct l1 as [|a l1]; cbn [app] in E; injection E as <- ->.
        -- exfalso. rewrite Et in Hx. injection Hx as ->. exact (Hn Lk).
        -- exists l1, l2. split; [reflexivity|]. split; [exact Hx|]. split; [exact Hn|].
           intro Hi. apply Hk. right. exact Hi.
    + rewrite (IH _ _ _ _ H t x). apply lookup_time_none in Lk. rewrite keys_app. cbn [keys map fst].
      split.
      * intros [Hi|(l1 & l2 & -> & Hx & Hn & Hk)].
        -- apply in_app_or in Hi as [Hi|[Hi|[]]]; [left; exact Hi|right].
           injection Hi as <- <-. exists [], r. split; [reflexivity|]. split; [exact Et|].
           split; [exact Lk|intros []].
        -- right. exists (h :: l1), l2. split; [reflexivity|]. split; [exact Hx|].
           split; [intro Hi; apply Hn; apply in_or_app; left; exact Hi|].
           cbn [hist_keys map]. intros [E|Hi]; [|exact (Hk Hi)].
           rewrite Et in E. injection E as ->. apply Hn. apply in_or_app. right. left. reflexivity.
      * intros [Hi|(l1 & l2 & E & Hx & Hn & Hk)]; [left; apply in_or_app; left; exact Hi|].
        destruct l1 as [|a l1]; cbn [app] in E; injection E as <- ->.
        -- left. apply in_or_app. right. left. rewrite Et in Hx. injection Hx as ->. reflexivity.
        -- right. exists l1, l2. split; [reflexivity|]. split; [exact Hx|]. split.
           ++ intro Hi. apply in_app_or in Hi as [Hi|[Hi|[]]]; [exact (Hn Hi)|].
              apply Hk. left. cbn. rewrite Et, Hi. reflexivity.
           ++ intro Hi. apply Hk. right. exact Hi.
Qed.

(* the other list's item [x] survives: first of its time there, and no own item has that time *)
Definition kept_from (self other : list entry) (x : entry) : Prop :=
  exists l1 l2 t, other = l1 ++ x :: l2 /\ t_lm (e_times x) = Some t
                  /\ ~ In (Some t) (hist_keys self) /\ ~ In (Some t) (hist_keys l1).

Theorem history_merge_in self other h lg :
  history_merge_with self other = Ok (h, lg) ->
  forall x, In x h <-> In x self \/ kept_from self other x.
Proof.
  unfold history_merge_with. intro H.
  destruct (hist_self [] self) as [m1| | |] eqn:H1; cbn [bind] in H; try discriminate.
  destruct (hist_other m1 [] other) as [[m2 lg2]| | |] eqn:H2; cbn [bind] in H; try discriminate.
  injection H as <- <-.
  apply hist_self_spec in H1; [|constructor|constructor].
  destruct H1 as (E1 & Nd1 & Tok1 & Al1). cbn [app] in E1.
  pose proof (hist_other_in _ _ _ _ _ H2) as Hin.
  apply hist_other_spec in H2; auto. destruct H2 as (_ & Tok2 & _).
  assert (Hk1 : forall t, In t (keys m1) <-> In (Some t) (hist_keys self)).
  { intro t. rewrite E1. unfold keys, hist_keys. rewrite map_map. cbn [fst]. rewrite !in_map_iff. split.
    - intros [y [Ey Hy]]. exists y. split; [|exact Hy].
      pose proof (proj1 (Forall_forall _ _) Al1 y Hy) as Hl. cbn beta in Hl.
      destruct (t_lm (e_times y)); [congruence|contradiction].
    - intros [y [Ey Hy]]. exists y. split; [|exact Hy]. rewrite Ey. reflexivity. }
  assert (Hm1 : forall t x, In (t, x) m1 <-> In x self /\ t_lm (e_times x) = Some t).
  { intros t x. rewrite E1, in_map_iff. split.
    - intros [y [Ey Hy]]. injection Ey as Et ->. split; [exact Hy|].
      pose proof (proj1 (Forall_forall _ _) Al1 x Hy) as Hl. cbn beta in Hl.
      destruct (t_lm (e_times x)); [congruence|contradiction].
    - intros [Hx Et]. exists x. rewrite Et. auto. }
  intro x. split.
  - intro Hx. apply in_map_iff in Hx as [[t y] [Ey Hp]]. cbn [snd] in Ey. subst y.
    assert (Hp2 : In (t, x) m2) by (eapply Permutation_in; [apply sort_desc_perm|exact Hp]).
    apply Hin in Hp2 as [Hp2|(l1 & l2 & E & Hx & Hn & Hk)].
    + left. apply Hm1 in Hp2. tauto.
    + right. exists l1, l2, t. split; [exact E|]. split; [exact Hx|]. split; [|exact Hk].
      intro Hi. apply Hn. apply Hk1. exact Hi.
  - intro Hx.
    assert (Hp : exists t, In (t, x) m2).
    { destruct Hx as [Hx|(l1 & l2 & t & E & Ht & Hn & Hk)].
      - pose proof (proj1 (Forall_forall _ _) Al1 x Hx) as Hl. cbn beta in Hl.
        destruct (t_lm (e_times x)) as [t|] eqn:Et; [|contradiction]. exists t. apply Hin. left.
        apply Hm1. auto.
      - exists t. apply Hin. right. exists l1, l2. split; [exact E|]. split; [exact Ht|].
        split; [|exact Hk]. intro Hi. apply Hn. apply Hk1. exact Hi. }
    destruct Hp as [t Hp]. apply in_map_iff. exists (t, x). split; [reflexivity|].
    eapply Permutation_in; [symmetry; apply sort_desc_perm|exact Hp].
Qed.

(* an item of the other list that does not survive was beaten by an item with the same time *)
Corollary history_merge_other_time self other h lg x :
  history_merge_with self other = Ok (h, lg) -> In x other ->
  exists y, In y h /\ t_lm (e_times y) = t_lm (e_times x) /\ t_lm (e_times x) <> None.
Proof.
  intros H Hx. pose proof (history_merge_union _ _ _ _ H) as (_ & Al2 & _ & _ & Hk & _).
  pose proof (proj1 (Forall_forall _ _) Al2 x Hx) as Hl. cbn beta in Hl.
  destruct (t_lm (e_times x)) as [t|] eqn:Et; [|contradiction].
  assert (Hi : In (Some t) (hist_keys h)).
  { apply Hk. right. unfold hist_keys. apply in_map_iff. exists x. auto. }
  unfold hist_keys in Hi. apply in_map_iff in Hi as (y & Ey & Hy). exists y.
  split; [exact Hy|]. split; [exact Ey|discriminate].
Qed.

(* ---------- Entry::merge_history ---------- *)

(* what the losing side contributes: its history, preceded by its current version (without the
   nested history) when that version is not yet the newest history item *)
Definition loser_items (l : entry) : list entry :=
  if has_uncommitted_changes l then strip l :: hist_list l else hist_list l.

Definition hist_warn (e : entry) : log := match e_hist e with Some _ => [] | None => [Warn] end.

Lemma hist_warn_warns e : Forall (fun x => x = Warn) (hist_warn e).
Proof. unfold hist_warn. destruct (e_hist e); repeat constructor. Qed.

Theorem merge_history_eq w l :
  merge_history w l =
  (do (h, lg) <- history_merge_with (hist_list w) (loser_items l);
   Ok (e_set_hist w (Some h),
       hist_warn l ++ hist_warn w ++ (if has_uncommitted_changes l then [Warn] else []) ++ lg))%outcome.
Proof.
  unfold merge_history, loser_items, hist_list, hist_warn, add_entry.
  destruct (e_hist l), (e_hist w), (has_uncommitted_changes l); reflexivity.
Qed.

(* ---------- Entry::merge ---------- *)

(* the destination's LocationChanged wins when it has one *)
Definition keep_lc (d : entry) (m : entry) : entry :=
  match t_lc (e_times d) with
  | Some lc => e_set_times m (set_lc (e_times m) lc)
  | None => m
  end.

Definition merged_entry (d w : entry) (h : list entry) : entry := keep_lc d (e_set_hist w (Some h)).

Lemma merged_entry_fields d w h :
  e_uuid (merged_entry d w h) = e_uuid w /\ e_data (merged_entry d w h) = e_data w
  /\ e_hist (merged_entry d w h) = Some h
  /\ t_lm (e_times (merged_entry d w h)) = t_lm (e_times w)
  /\ t_rest (e_times (merged_entry d w h)) = t_rest (e_times w)
  /\ t_lc (e_times (merged_entry d w h)) =
     match t_lc (e_times d) with Some c => Some c | None => t_lc (e_times w) end.
Proof.
  unfold merged_entry, keep_lc. destruct w as [u dt t hh]. destruct (t_lc (e_times d)); cbn; auto 10.
Qed.

(* both stamped, different times: one equation *)
Theorem entry_merge_eq now d s ld ls :
  t_lm (e_times d) = Some ld -> t_lm (e_times s) = Some ls -> ld <> ls ->
  let w := if ld <? ls then s else d in
  let l := if ld <? ls then d else s in
  entry_merge now d s =
  (do (h, lg) <- history_merge_with (hist_list w) (loser_items l);
   Ok (Some (merged_entry d w h),
       hist_warn l ++ hist_warn w ++ (if has_uncommitted_changes l then [Warn] else []) ++ lg))%outcome.
Proof.
  intros Hd Hs Ne. cbv zeta. unfold entry_merge, lm_or. rewrite Hd, Hs.
  destruct (Z.eqb_spec ld ls) as [E|_]; [contradiction|].
  destruct (Z.ltb_spec ld ls) as [L|L].
  - destruct (Z.gtb_spec ld ls) as [G|_]; [lia|]. rewrite merge_history_eq.
    destruct (history_merge_with _ _) as [[h lg]| | |]; reflexivity.
  - destruct (Z.gtb_spec ld ls) as [_|G]; [|lia]. rewrite merge_history_eq.
    destruct (history_merge_with _ _) as [[h lg]| | |]; reflexivity.
Qed.

(* same stamp: nothing is merged.  Differing entries are silently left alone (destination kept,
   source version dropped, no warning); identical ones are the error the comment in the code
   reserves for "updated without updating the time stamp" *)
Theorem entry_merge_same_time now d s t :
  t_lm (e_times d) = Some t -> t_lm (e_times s) = Some t ->
  entry_merge now d s = if entry_diverged d s then Ok (None, []) else Err EEntryTime.
Proof.
  intros Hd Hs. unfold entry_merge, lm_or. rewrite Hd, Hs, Z.eqb_refl.
  destruct (entry_diverged d s); reflexivity.
Qed.

(* a missing stamp is read as the epoch on the source side and as [now] on the destination side;
   each costs a warning that is reported only when nothing is merged *)
Theorem entry_merge_unstamped_source now d s ld :
  t_lm (e_times d) = Some ld -> t_lm (e_times s) = None ->
  entry_merge now d s =
  if ld =? 0 then (if entry_diverged d s then Ok (None, [Warn]) else Err EEntryTime)
  else
    (do (m, lg) <- (if ld >? 0 then merge_history d s else merge_history s d);
     Ok (Some (keep_lc d m), lg))%outcome.
Proof.
  intros Hd Hs. unfold entry_merge, lm_or, keep_lc. rewrite Hd, Hs.
  destruct (ld =? 0); [destruct (entry_diverged d s); reflexivity|reflexivity].
Qed.

Theorem entry_merge_unstamped_dest now d s ls :
  t_lm (e_times d) = None -> t_lm (e_times s) = Some ls ->
  entry_merge now d s =
  if now =? ls then (if entry_diverged d s then Ok (None, [Warn]) else Err EEntryTime)
  else
    (do (m, lg) <- (if now >? ls then merge_history d s else merge_history s d);
     Ok (Some (keep_lc d m), lg))%outcome.
Proof.
  intros Hd Hs. unfold entry_merge, lm_or, keep_lc. rewrite Hd, Hs.
  destruct (now =? ls); [destruct (entry_diverged d s); reflexivity|reflexivity].
Qed.

(* the history merge inside fails exactly as History::merge_with does *)
Theorem merge_history_panics w l :
  (exists x, In x (hist_list w) /\ t_lm (e_times x) = None) ->
  merge_history w l = Panic site_hist_self_unwrap \/ merge_history w l = Err EDupHistory.
Proof.
  intros (x & Hx & Hn). rewrite merge_history_eq. unfold history_merge_with.
  assert (H : forall li acc, In x li -> hist_self acc li = Panic site_hist_self_unwrap
                                       \/ hist_self acc li = Err EDupHistory).
  { induction li as [|y r IH]; intros acc Hi; [destruct Hi|]. cbn [hist_self].
    destruct Hi as [->|Hi]; [rewrite Hn; auto|].
    destruct (t_lm (e_times y)); [|auto]. destruct (lookup_time _ acc); [auto|]. apply IH. exact Hi. }
  destruct (H (hist_list w) [] Hx) as [-> | ->]; cbn [bind]; auto.
Qed.

(* the older side: an item without a stamp - in particular its unstamped current version when it
   has uncommitted changes - hits the second unwrap (the newer side's history being in order) *)
Lemma hist_other_panics : forall l acc lg x,
  In x l -> t_lm (e_times x) = None -> hist_other acc lg l = Panic site_hist_other_unwrap.
Proof.
  induction l as [|y r IH]; intros acc lg x Hi Hn; [destruct Hi|]. cbn [hist_other].
  destruct (t_lm (e_times y)) as [t|] eqn:Et; [|reflexivity].
  destruct Hi as [->|Hi]; [congruence|].
  destruct (lookup_time t acc); eapply IH; eassumption.
Qed.

Theorem merge_history_panics_other w l :
  all_lm (hist_list w) -> NoDup (hist_keys (hist_list w)) ->
  (exists x, In x (loser_items l) /\ t_lm (e_times x) = None) ->
  merge_history w l = Panic site_hist_other_unwrap.
Proof.
  intros Al Nd (x & Hx & Hn). rewrite merge_history_eq. unfold history_merge_with.
  destruct (history_merge_total (hist_list w) [] Al (Forall_nil _) Nd) as (h0 & lg0 & H0).
  unfold history_merge_with in H0.
  destruct (hist_self [] (hist_list w)) as [m1| | |]; cbn [bind] in H0; try discriminate.
  cbn [bind]. rewrite (hist_other_panics _ m1 [] x Hx Hn). reflexivity.
Qed.

(* Last writer wins: the result when Entry::merge succeeds on two stamped entries with different
   times.  [w] is the newer entry, [l] the older. *)
Theorem entry_merge_lww now d s ld ls r lg :
  t_lm (e_times d) = Some ld -> t_lm (e_times s) = Some ls -> ld <> ls ->
  entry_merge now d s = Ok (r, lg) ->
  let w := if ld <? ls then s else d in
  let l := if ld <? ls then d else s in
  exists m h, r = Some m /\ m = merged_entry d w h
    /\ e_uuid m = e_uuid w /\ e_data m = e_data w
    /\ t_lm (e_times m) = Some (Z.max ld ls)
    /\ t_rest (e_times m) = t_rest (e_times w)
    /\ t_lc (e_times m) = match t_lc (e_times d) with Some c => Some c | None => t_lc (e_times w) end
    /\ e_hist m = Some h
    /\ all_lm (hist_list w) /\ all_lm (loser_items l)
    (* the history: strictly newest first, exactly these items *)
    /\ StronglySorted (fun a b => match t_lm (e_times a), t_lm (e_times b) with
                                  | Some x, Some y => x > y | _, _ => False end) h
    /\ (forall x, In x h <-> In x (hist_list w) \/ kept_from (hist_list w) (loser_items l) x)
    (* its modification times: the union *)
    /\ (forall t, In (Some t) (hist_keys h) <->
                  In (Some t) (hist_keys (hist_list w)) \/ In (Some t) (hist_keys (loser_items l)))
    /\ Forall (fun x => x = Warn) lg.
Proof.
  intros Hd Hs Ne H. cbv zeta. rewrite (entry_merge_eq now d s ld ls Hd Hs Ne) in H. cbv zeta in H.
  destruct (history_merge_with _ _) as [[h lg0]| | |] eqn:Eh; cbn [bind] in H; try discriminate.
  injection H as <- <-. eexists _, h. split; [reflexivity|]. split; [reflexivity|].
  pose proof (merged_entry_fields d (if ld <? ls then s else d) h) as (F1 & F2 & F3 & F4 & F5 & F6).
  split; [exact F1|]. split; [exact F2|]. split.
  { rewrite F4. destruct (Z.ltb_spec ld ls); [rewrite Hs|rewrite Hd]; f_equal; lia. }
  split; [exact F5|]. split; [exact F6|]. split; [exact F3|].
  pose proof (history_merge_union _ _ _ _ Eh) as (Al1 & Al2 & _ & Hsort & Hk & _ & _ & Hw).
  split; [exact Al1|]. split; [exact Al2|]. split; [exact Hsort|]. split; [exact (history_merge_in _ _ _ _ Eh)|]. split; [exact Hk|].
  apply Forall_app. split; [apply hist_warn_warns|].
  apply Forall_app. split; [apply hist_warn_warns|].
  apply Forall_app. split; [destruct (has_uncommitted_changes _); repeat constructor|exact Hw].
Qed.

(* it does succeed when every history item is stamped and the newer side's stamps are distinct *)
Theorem entry_merge_total now d s ld ls :
  t_lm (e_times d) = Some ld -> t_lm (e_times s) = Some ls -> ld <> ls ->
  let w := if ld <? ls then s else d in
  let l := if ld <? ls then d else s in
  all_lm (hist_list w) -> all_lm (hist_list l) -> NoDup (hist_keys (hist_list w)) ->
  exists m lg, entry_merge now d s = Ok (Some m, lg).
Proof.
  intros Hd Hs Ne w l Aw Al Nd. rewrite (entry_merge_eq now d s ld ls Hd Hs Ne). fold w l.
  assert (Al' : all_lm (loser_items l)).
  { unfold loser_items. destruct (has_uncommitted_changes l); [|exact Al].
    constructor; [|exact Al]. unfold strip. subst w l.
    destruct (ld <? ls); [destruct d|destruct s]; cbn in *; congruence. }
  destruct (history_merge_total _ _ Aw Al' Nd) as (h & lg & ->). cbn [bind]. eexists _, _. reflexivity.
Qed.

(* consequences for the losing side's current version *)
Lemma loser_items_current l :
  has_uncommitted_changes l = true -> loser_items l = strip l :: hist_list l.
Proof. unfold loser_items. intros ->. reflexivity. Qed.

Lemma loser_items_committed l :
  has_uncommitted_changes l = false ->
  loser_items l = hist_list l
  /\ exists last tl, hist_list l = last :: tl /\ e_uuid last = e_uuid l /\ e_data last = e_data l.
Proof.
  unfold loser_items. intro H. rewrite H. split; [reflexivity|].
  unfold has_uncommitted_changes, hist_list in *. destruct (e_hist l) as [[|last tl]|]; try discriminate.
  exists last, tl. split; [reflexivity|]. apply negb_false_iff in H. apply entry_eqb_eq in H.
  unfold sanitize in H. injection H as -> ->. auto.
Qed.

Lemma incl_hist_loser l : incl (hist_list l) (loser_items l).
Proof.
  unfold loser_items. destruct (has_uncommitted_changes l); [|apply incl_refl]. intros x Hx. right. exact Hx.
Qed.

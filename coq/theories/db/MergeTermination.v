(* Termination of the group-deletion work queue of merge_deletions, and totality of
   merge_deletions on a tree with pairwise distinct UUIDs.

   One pop of the queue either drops the popped item or puts it back at the end with the state
   unchanged; it is put back only if the rest of the queue has an item of strictly smaller
   rank (rank = height of the node carrying the UUID).  So the first item of minimal rank is
   never put back, every put-back moves it one place forward, and the measure
   (position of that item) + (queue length)^2 decreases at every pop. *)
From KP Require Import Bytes Outcome Tree TreeFacts History Merge MergeLookup.

(* ---------- position of the first item that is below everything after it ---------- *)

Fixpoint mu (l : list nat) : nat :=
  match l with
  | [] => O
  | a :: r => if forallb (Nat.leb a) r then O else S (mu r)
  end.

Lemma mu_le_length l : mu l <= length l.
Proof.
  induction l as [|a r IH]; cbn [mu length]; [apply Nat.le_refl|].
  destruct (forallb _ r); lia.
Qed.

Lemma forallb_false {A} (p : A -> bool) l :
  forallb p l = false -> exists y, In y l /\ p y = false.
Proof.
  induction l as [|x r IH]; cbn [forallb]; [discriminate|].
  destruct (p x) eqn:E; cbn [andb].
  - intro H. destruct (IH H) as (y & Hy & Py). exists y. split; [right; exact Hy|exact Py].
  - intros _. exists x. split; [left; reflexivity|exact E].
Qed.

Lemma mu_snoc : forall r a, (exists x, In x r /\ x < a) -> mu (r ++ [a]) = mu r.
Proof.
  induction r as [|b r IH]; intros a (x & Hx & Lt); [destruct Hx|].
  cbn [app mu]. rewrite forallb_app. cbn [forallb]. destruct (forallb (Nat.leb b) r) eqn:F; cbn [andb].
  - assert (Hb : Nat.leb b a = true).
    { apply Nat.leb_le. destruct Hx as [->|Hx]; [lia|].
      pose proof (proj1 (forallb_forall _ _) F x Hx) as L. apply Nat.leb_le in L. lia. }
    rewrite Hb. reflexivity.
  - f_equal. apply IH. destruct Hx as [->|Hx]; [|exists x; auto].
    apply forallb_false in F as (y & Hy & Py). apply Nat.leb_gt in Py. exists y. split; [exact Hy|lia].
Qed.

Lemma mu_requeue a r : (exists x, In x r /\ x < a) -> mu (a :: r) = S (mu (r ++ [a])).
Proof.
  intros H. rewrite (mu_snoc r a H). cbn [mu]. destruct H as (x & Hx & Lt).
  destruct (forallb (Nat.leb a) r) eqn:F; [|reflexivity].
  pose proof (proj1 (forallb_forall _ _) F x Hx) as L. apply Nat.leb_le in L. lia.
Qed.

(* ---------- a work queue whose items are dropped or put back ---------- *)

Section Fifo.
  Variables (St A E : Type).
  Variable step : St -> A -> list A -> outcome E (St * list A).
  Variable Inv : St -> Prop.
  Variable rank : St -> A -> nat.

  (* under the invariant, a pop succeeds; it drops the item (the state may change, the invariant
     stays) or puts it back, and then the state is the same and something in the rest of the
     queue has a strictly smaller rank *)
  Hypothesis step_cases : forall st o q, Inv st ->
    (exists st', step st o q = Ok (st', q) /\ Inv st')
    \/ (step st o q = Ok (st, q ++ [o]) /\ exists x, In x q /\ rank st x < rank st o).

  Fixpoint run (fuel : nat) (st : St) (q : list A) : outcome E St :=
    match q with
    | [] => Ok st
    | o :: q' =>
      match fuel with
      | O => OutOfFuel
      | S f => bind (step st o q') (fun '(st1, q1) => run f st1 q1)
      end
    end.

  Definition measure (st : St) (q : list A) : nat := mu (map (rank st) q) + length q * length q.

  Lemma measure_bound st q : measure st q <= length q * S (length q).
  Proof.
    unfold measure. pose proof (mu_le_length (map (rank st) q)) as H. rewrite map_length in H.
    rewrite Nat.mul_succ_r. lia.
  Qed.

  Theorem run_ok : forall fuel st q,
    Inv st -> measure st q <= fuel -> exists st', run fuel st q = Ok st' /\ Inv st'.
  Proof.
    induction fuel as [|f IH]; intros st q I Hf.
    - destruct q as [|o q]; [exists st; split; [reflexivity|exact I]|].
      exfalso. unfold measure in Hf. cbn [length] in Hf. rewrite Nat.mul_succ_l in Hf. lia.
    - destruct q as [|o q]; [exists st; split; [reflexivity|exact I]|].
      cbn [run]. destruct (step_cases st o q I) as [(st' & Es & I')|(Es & Hx)]; rewrite Es; cbn [bind].
      + apply IH; [exact I'|]. pose proof (measure_bound st' q) as Hb.
        unfold measure in Hf. cbn [length] in Hf.
        rewrite Nat.mul_succ_l, Nat.mul_succ_r in Hf. rewrite Nat.mul_succ_r in Hb. lia.
      + apply IH; [exact I|]. unfold measure in *. cbn [map] in Hf.
        rewrite (mu_requeue (rank st o) (map (rank st) q)) in Hf.
        * rewrite map_app, app_length. cbn [map length]. cbn [length] in Hf.
          rewrite Nat.add_1_r. lia.
        * destruct Hx as (x & Hx & Lt). exists (rank st x). split; [apply in_map; exact Hx|exact Lt].
  Qed.
End Fifo.

(* ---------- one pop of the group queue ---------- *)

Definition dinv (g : bool) (st : dstate) : Prop :=
  uuids_unique (children_of (ds_root st)) /\ is_group (ds_root st) = g.

Definition drank (st : dstate) (o : dobj) : nat := node_rank (d_uuid o) (children_of (ds_root st)).

Lemma put_group_filter_inv g path root pi pc q root' :
  find_group path root = Some (pi, pc) ->
  put_group path pi (filter q pc) root = Some root' ->
  uuids_unique (children_of root) /\ is_group root = g ->
  uuids_unique (children_of root') /\ is_group root' = g.
Proof.
  intros Hf Hp [Nd Hg]. split; [eapply put_group_filter_unique; eassumption|].
  apply put_group_is_group in Hp as [-> <-]. exact Hg.
Qed.

Lemma del_group_step_cases now g st o q :
  dinv g st ->
  (exists st', del_group_step now st o q = Ok (st', q) /\ dinv g st')
  \/ (del_group_step now st o q = Ok (st, q ++ [o])
      /\ exists x, In x q /\ drank st x < drank st o).
Proof.
  intros I. assert (Keep : exists st', Ok (st, q) = Ok (E:=merr) (st', q) /\ dinv g st')
    by (exists st; split; [reflexivity|exact I]).
  unfold del_group_step. destruct (deleted_contains _ _); [left; exact Keep|].
  destruct (fnl_db _ _) as [loc|] eqn:El; [|left; exact Keep].
  destruct I as [Nd Hg].
  destruct (fnl_db_lookup _ _ _ Nd El) as (pi & pc & n & Hp & Hf & Hn & Hu & Hfi).
  rewrite Hf. cbn [of_option bind]. rewrite Hfi.
  destruct n as [gi gc|e]; [|left; exact Keep].
  destruct (existsb _ gc); [left; exact Keep|].
  destruct (existsb (fun c => is_group c && in_queue (uuid_of c) q) gc) eqn:Eq.
  { right. split; [reflexivity|].
    apply existsb_exists in Eq as (c & Hc & Hq). apply andb_true_iff in Hq as [_ Hq].
    unfold in_queue in Hq. apply existsb_exists in Hq as (x & Hx & Ex). apply N.eqb_eq in Ex.
    exists x. split; [exact Hx|]. unfold drank. rewrite Ex. cbn [uuid_of] in Hu. rewrite <- Hu.
    eapply node_rank_child; eassumption. }
  destruct (existsb is_group gc); [left; exact Keep|].
  destruct (lm_or (gi_times gi) now) as [lm w].
  destruct (Z.ltb lm (d_time o)).
  - destruct (remove_node_some _ _ _ Hfi) as [nd Hr]. rewrite Hr. cbn [of_option bind].
    destruct (put_group_some loc (ds_root st) pi pc pi
                (filter (fun c => negb (N.eqb (uuid_of c) (d_uuid o))) pc) Hf) as [root1 Hp1].
    rewrite Hp1. cbn [of_option bind]. left. eexists. split; [reflexivity|].
    unfold dinv. cbn [ds_root]. eapply put_group_filter_inv; [exact Hf|exact Hp1|]. split; assumption.
  - left. eexists. split; [reflexivity|]. split; assumption.
Qed.

Lemma del_groups_run now : forall fuel st q,
  del_groups fuel now st q = run dstate dobj merr (del_group_step now) fuel st q.
Proof.
  induction fuel as [|f IH]; intros st q; destruct q as [|o q]; cbn [del_groups run]; try reflexivity.
  destruct (del_group_step now st o q) as [[st1 q1]| | |]; cbn [bind]; auto.
Qed.

(* ---------- (B), (C): the group queue ---------- *)

Theorem del_groups_ok now g st q fuel :
  uuids_unique (children_of (ds_root st)) -> is_group (ds_root st) = g ->
  length q * S (length q) <= fuel ->
  exists st', del_groups fuel now st q = Ok st'
    /\ uuids_unique (children_of (ds_root st')) /\ is_group (ds_root st') = g.
Proof.
  intros Nd Hg Hf. rewrite del_groups_run.
  apply (run_ok dstate dobj merr (del_group_step now) (dinv g) drank (del_group_step_cases now g)).
  - split; assumption.
  - eapply Nat.le_trans; [apply measure_bound|exact Hf].
Qed.

Theorem del_groups_terminates now st q fuel :
  uuids_unique (children_of (ds_root st)) ->
  S (length q * S (length q)) <= fuel ->
  del_groups fuel now st q <> OutOfFuel.
Proof.
  intros Nd Hf.
  destruct (del_groups_ok now _ st q fuel Nd eq_refl) as (st' & E & _); [lia|].
  rewrite E. discriminate.
Qed.

Theorem del_groups_unique now st q fuel st' :
  uuids_unique (children_of (ds_root st)) ->
  del_groups fuel now st q = Ok st' ->
  uuids_unique (children_of (ds_root st')).
Proof.
  revert st q. induction fuel as [|f IH]; intros st q Nd H; destruct q as [|o q]; cbn [del_groups] in H;
    try discriminate; try (injection H as <-; exact Nd).
  destruct (del_group_step_cases now _ st o q (conj Nd eq_refl)) as [(st1 & Es & [I1 _])|(Es & _)];
    rewrite Es in H; cbn [bind] in H; eapply IH; eassumption.
Qed.

(* ---------- the entry loop ---------- *)

Lemma del_entry_step_ok now g st o :
  dinv g st -> exists st', del_entry_step now st o = Ok st' /\ dinv g st'.
Proof.
  intros I. assert (Keep : exists st', Ok st = Ok (E:=merr) st' /\ dinv g st')
    by (exists st; split; [reflexivity|exact I]).
  unfold del_entry_step. destruct (deleted_contains _ _); [exact Keep|].
  destruct (fnl_db _ _) as [loc|] eqn:El; [|exact Keep].
  destruct I as [Nd Hg].
  destruct (fnl_db_lookup _ _ _ Nd El) as (pi & pc & n & Hp & Hf & Hn & Hu & Hfi).
  rewrite Hf. cbn [of_option bind]. rewrite Hfi.
  destruct n as [gi gc|e]; [exact Keep|].
  destruct (lm_or (e_times e) now) as [lm w].
  destruct (Z.ltb lm (d_time o)).
  - destruct (remove_node_some _ _ _ Hfi) as [nd Hr]. rewrite Hr. cbn [of_option bind].
    destruct (put_group_some loc (ds_root st) pi pc pi
                (filter (fun c => negb (N.eqb (uuid_of c) (d_uuid o))) pc) Hf) as [root1 Hp1].
    rewrite Hp1. cbn [of_option bind]. eexists. split; [reflexivity|].
    unfold dinv. cbn [ds_root]. eapply put_group_filter_inv; [exact Hf|exact Hp1|]. split; assumption.
  - eexists. split; [reflexivity|]. split; assumption.
Qed.

Lemma del_entries_ok now g l : forall st,
  dinv g st -> exists st', del_entries now st l = Ok st' /\ dinv g st'.
Proof.
  induction l as [|o r IH]; intros st I; cbn [del_entries].
  - exists st. split; [reflexivity|exact I].
  - destruct (del_entry_step_ok now g st o I) as (st1 & -> & I1). cbn [bind]. apply IH. exact I1.
Qed.

Theorem del_entries_unique now l st st' :
  uuids_unique (children_of (ds_root st)) ->
  del_entries now st l = Ok st' ->
  uuids_unique (children_of (ds_root st')).
Proof.
  intros Nd H. destruct (del_entries_ok now _ l st (conj Nd eq_refl)) as (st1 & E & [I1 _]).
  rewrite E in H. injection H as <-. exact I1.
Qed.

(* ---------- merge_deletions ---------- *)

(* On a tree with pairwise distinct UUIDs merge_deletions always succeeds (no error, no panic, the
   fuel suffices), the UUIDs stay distinct and a group root stays a group. *)
Theorem merge_deletions_ok now root deleted src_deleted :
  uuids_unique (children_of root) ->
  exists root' deleted' lg,
    merge_deletions now root deleted src_deleted = Ok (root', deleted', lg)
    /\ uuids_unique (children_of root') /\ is_group root' = is_group root.
Proof.
  intro Nd. unfold merge_deletions.
  destruct (del_entries_ok now (is_group root) src_deleted (mkDstate root deleted []))
    as (st1 & -> & [Nd1 Hg1]); [split; [exact Nd|reflexivity]|].
  cbn [bind].
  destruct (del_groups_ok now (is_group root) st1
              (filter (fun o => negb (deleted_contains (ds_deleted st1) (d_uuid o))) src_deleted)
              (del_fuel (filter (fun o => negb (deleted_contains (ds_deleted st1) (d_uuid o))) src_deleted))
              Nd1 Hg1) as (st2 & -> & Nd2 & Hg2).
  - unfold del_fuel. lia.
  - cbn [bind]. eexists _, _, _. split; [reflexivity|]. split; assumption.
Qed.

Corollary merge_deletions_terminates now root deleted src_deleted :
  uuids_unique (children_of root) ->
  merge_deletions now root deleted src_deleted <> OutOfFuel.
Proof.
  intro Nd. destruct (merge_deletions_ok now root deleted src_deleted Nd) as (r & d & lg & -> & _).
  discriminate.
Qed.

Corollary merge_deletions_no_err now root deleted src_deleted e :
  uuids_unique (children_of root) ->
  merge_deletions now root deleted src_deleted <> Err e.
Proof.
  intro Nd. destruct (merge_deletions_ok now root deleted src_deleted Nd) as (r & d & lg & -> & _).
  discriminate.
Qed.

Print Assumptions fnl_db_find_group.
Print Assumptions fnl_db_none_notin.
Print Assumptions fnl_db_some_in.
Print Assumptions del_groups_terminates.
Print Assumptions del_groups_ok.
Print Assumptions merge_deletions_ok.
Print Assumptions merge_deletions_terminates.
Print Assumptions merge_deletions_no_err.

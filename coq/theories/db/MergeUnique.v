(* Soundness of the tree after a merge.

   (1) merge_keeps_unique: the merged tree has pairwise distinct UUIDs (root included) when the
       destination had, and the destination root's UUID is not the UUID of a node below the
       source root (true for two replicas of one database: same root UUID, source UUIDs distinct).
       Nothing is asked of the source's own UUIDs, of time stamps or of histories.
       [merge_children_unique]: below the root, distinctness is kept with no hypothesis on the
       source at all.
   (2) merge_keeps_root: the root keeps its UUID (no hypothesis); it is a group by construction.
   (3) merge_accounting / merge_conserves: as multisets,
          UUIDs(result) + UUIDs(removed by a logged deletion) = UUIDs(destination) + UUIDs(created),
       so a node of the destination is still there unless an EntryDeleted / GroupDeleted event
       names it (a group is only ever deleted when it is empty, so "under a deleted group" does
       not arise: its members have their own events).
   (4) merge_never_out_of_fuel.

   Method: every write into the destination tree goes through [update_uuid]; one lemma
   ([update_uuid_perm]) says how the multiset of UUIDs of the whole tree changes when the
   designated node is replaced by one with the same UUID.  Updates leave the multiset alone,
   relocation removes and re-adds the same UUIDs, creation adds one UUID that
   find_node_location has just not found. *)
From Coq Require Import Permutation.
From KP Require Import Bytes Outcome Tree TreeFacts History Merge MergeProofs MergeLookup
     MergeTermination MergeUuids MergeSelf.
Local Open Scope N_scope.

(* ---------- the two listings of UUIDs (MergeLookup, MergeUuids) are the same ---------- *)

Lemma tree_all n : tree_uuids n = all_uuids n.
Proof. reflexivity. Qed.

Lemma forest_uus l : forest_uuids l = uus l.
Proof. reflexivity. Qed.

Lemma uus_single x : uus [x] = uuid_of x :: all_uuids x.
Proof. unfold uus. cbn [flat_map]. rewrite app_nil_r. reflexivity. Qed.

Lemma node_set_lc_uuid n t : uuid_of (node_set_lc n t) = uuid_of n.
Proof. destruct n; reflexivity. Qed.

Lemma node_set_lc_all n t : all_uuids (node_set_lc n t) = all_uuids n.
Proof. destruct n; reflexivity. Qed.

(* ---------- permutations of UUID lists ---------- *)

Lemma perm_replace a x x' b X Y :
  uuid_of x' = uuid_of x -> Permutation (all_uuids x' ++ Y) (all_uuids x ++ X) ->
  Permutation (uus (a ++ x' :: b) ++ Y) (uus (a ++ x :: b) ++ X).
Proof.
  intros Hu Hp. rewrite !uus_app, !uus_cons, Hu, <- !app_assoc. apply Permutation_app_head.
  cbn [app]. apply perm_skip. rewrite <- !app_assoc.
  transitivity (all_uuids x' ++ Y ++ uus b).
  { apply Permutation_app_head. apply Permutation_app_comm. }
  transitivity (all_uuids x ++ X ++ uus b).
  { rewrite !app_assoc. apply Permutation_app_tail. exact Hp. }
  apply Permutation_app_head. apply Permutation_app_comm.
Qed.

Lemma uus_partition u l :
  Permutation (uus (filter (fun c => negb (N.eqb (uuid_of c) u)) l)
               ++ uus (filter (fun c => N.eqb (uuid_of c) u) l)) (uus l).
Proof.
  induction l as [|x r IH]; [constructor|]. cbn [filter]. destruct (N.eqb (uuid_of x) u); cbn [negb].
  - rewrite !uus_cons. etransitivity; [apply Permutation_app_comm|]. cbn [app]. apply perm_skip.
    rewrite <- app_assoc. apply Permutation_app_head. etransitivity; [apply Permutation_app_comm|]. exact IH.
  - rewrite !uus_cons. cbn [app]. apply perm_skip. rewrite <- app_assoc. apply Permutation_app_head. exact IH.
Qed.

(* with distinct UUIDs at most one child carries a given UUID *)
Lemma filter_uuid_single u l nd :
  NoDup (uus (filter (fun c => N.eqb (uuid_of c) u) l)) ->
  In nd (filter (fun c => N.eqb (uuid_of c) u) l) ->
  filter (fun c => N.eqb (uuid_of c) u) l = [nd].
Proof.
  assert (Hall : forall x, In x (filter (fun c => N.eqb (uuid_of c) u) l) -> uuid_of x = u).
  { intros x Hx. apply filter_In in Hx as [_ Hx]. apply N.eqb_eq. exact Hx. }
  destruct (filter _ l) as [|x [|y r]]; intros Nd Hi.
  - destruct Hi.
  - destruct Hi as [->|[]]. reflexivity.
  - exfalso. rewrite uus_cons in Nd. apply NoDup_cons_iff in Nd as [Hn _]. apply Hn.
    apply in_or_app. right. rewrite (Hall x (or_introl eq_refl)).
    rewrite <- (Hall y (or_intror (or_introl eq_refl))). apply in_uus_self. left. reflexivity.
Qed.

(* ---------- writing through a path: the multiset of UUIDs ---------- *)

Lemma update_uuid_perm : forall path f n n',
  update_uuid path f n = Some n' ->
  exists g g', get_uuid path n = Some g /\ f g = Some g'
    /\ (uuid_of g' = uuid_of g ->
        uuid_of n' = uuid_of n
        /\ forall X Y, Permutation (all_uuids g' ++ Y) (all_uuids g ++ X) ->
                       Permutation (all_uuids n' ++ Y) (all_uuids n ++ X)).
Proof.
  induction path as [|h tail IH]; intros f n n' H.
  - cbn [update_uuid get_uuid] in *. exists n, n'. auto.
  - destruct n as [i ch|e]; [|discriminate]. cbn [update_uuid] in H. destruct tail as [|k l].
    + destruct (update_first _ f ch) as [ch'|] eqn:E; [|discriminate]. injection H as <-.
      apply update_first_spec in E as (a & x & b & x' & -> & Hf & Hx & ->).
      exists x, x'. cbn [get_uuid children_of]. split; [exact Hf|]. split; [exact Hx|].
      intros Hu. split; [reflexivity|]. intros X Y Hp. rewrite !all_uuids_children. cbn [children_of].
      apply perm_replace; assumption.
    + destruct (update_first _ _ ch) as [ch'|] eqn:E; [|discriminate]. injection H as <-.
      apply update_first_spec in E as (a & x & b & x' & -> & Hf & Hx & ->).
      apply IH in Hx as (g & g' & Hg & Hfg & Himp).
      exists g, g'. split; [|split; [exact Hfg|]].
      * rewrite get_uuid_cons2. cbn [children_of]. rewrite Hf. exact Hg.
      * intros Hu. destruct (Himp Hu) as [Hu' Hs']. split; [reflexivity|].
        intros X Y Hp. rewrite !all_uuids_children. cbn [children_of].
        apply perm_replace; [exact Hu'|]. apply Hs'. exact Hp.
Qed.

Lemma put_group_perm path root i0 c0 i c root' :
  find_group path root = Some (i0, c0) -> put_group path i c root = Some root' ->
  gi_uuid i = gi_uuid i0 ->
  uuid_of root' = uuid_of root
  /\ forall X Y, Permutation (uus c ++ Y) (uus c0 ++ X) ->
                 Permutation (all_uuids root' ++ Y) (all_uuids root ++ X).
Proof.
  unfold find_group, put_group. intros Hf Hp Hu.
  apply update_uuid_perm in Hp as (g & g' & Hg & Hfg & Himp). rewrite Hg in Hf.
  destruct g as [gi gc|e]; [|discriminate]. injection Hf as -> ->. injection Hfg as <-.
  apply Himp. exact Hu.
Qed.

(* the node found under a path ending in h carries the UUID h *)
Lemma get_uuid_last : forall p h n g, get_uuid (p ++ [h]) n = Some g -> uuid_of g = h.
Proof.
  induction p as [|j p IH]; intros h n g H.
  - cbn [app get_uuid] in H. apply find_some in H as [_ H]. apply N.eqb_eq. exact H.
  - cbn [app] in H. destruct (p ++ [h]) as [|k l] eqn:E; [exfalso; exact (snoc_not_nil _ _ E)|].
    rewrite get_uuid_cons2 in H. destruct (find _ (children_of n)) as [x|]; [|discriminate].
    rewrite <- E in H. eapply IH. exact H.
Qed.

Lemma put_entry_perm p h e root root' :
  put_entry (p ++ [h]) e root = Some root' -> e_uuid e = h ->
  uuid_of root' = uuid_of root /\ Permutation (all_uuids root') (all_uuids root).
Proof.
  unfold put_entry. intros H He.
  apply update_uuid_perm in H as (g & g' & Hg & Hfg & Himp).
  apply get_uuid_last in Hg. destruct g as [gi gc|e0]; [discriminate|]. injection Hfg as <-.
  destruct Himp as [Hu Hp]; [cbn [uuid_of] in *; congruence|]. split; [exact Hu|].
  specialize (Hp [] []). rewrite !app_nil_r in Hp. apply Hp. apply Permutation_refl.
Qed.

(* ---------- Group::remove_node, Database::relocate_node ---------- *)

Lemma remove_node_filter u ch nd kept :
  remove_node u ch = Some (nd, kept) ->
  In nd (filter (fun c => N.eqb (uuid_of c) u) ch)
  /\ kept = filter (fun c => negb (N.eqb (uuid_of c) u)) ch.
Proof.
  unfold remove_node. destruct (rev (filter _ ch)) as [|x l] eqn:E; [discriminate|].
  intro H. injection H as <- <-. split; [|reflexivity].
  apply in_rev. rewrite E. left. reflexivity.
Qed.

(* removing the children with UUID u from the group at [loc] *)
Lemma put_group_removed loc root pi pc u nd kept root1 :
  find_group loc root = Some (pi, pc) -> remove_node u pc = Some (nd, kept) ->
  put_group loc pi kept root = Some root1 ->
  uuid_of root1 = uuid_of root
  /\ (NoDup (all_uuids root) ->
      filter (fun c => N.eqb (uuid_of c) u) pc = [nd]
      /\ Permutation (all_uuids root1 ++ uuid_of nd :: all_uuids nd) (all_uuids root)).
Proof.
  intros E1 E2 E3. apply remove_node_filter in E2 as [Hnd ->].
  destruct (put_group_perm _ _ _ _ _ _ _ E1 E3 eq_refl) as [Hu Hp]. split; [exact Hu|]. intro Nd.
  assert (Hp' : Permutation (all_uuids root1 ++ uus (filter (fun c => N.eqb (uuid_of c) u) pc))
                            (all_uuids root)).
  { rewrite <- (app_nil_r (all_uuids root)). apply Hp. rewrite app_nil_r. apply uus_partition. }
  clear Hp. assert (NdF : NoDup (uus (filter (fun c => N.eqb (uuid_of c) u) pc))).
  { apply Permutation_sym in Hp'. apply (Permutation_NoDup Hp') in Nd. apply NoDup_app_iff in Nd. tauto. }
  rewrite (filter_uuid_single u pc nd NdF Hnd), uus_single in Hp'.
  split; [apply filter_uuid_single; assumption|exact Hp'].
Qed.

Lemma relocate_node_perm u from to ts root root' :
  relocate_node u from to ts root = Ok root' ->
  uuid_of root' = uuid_of root
  /\ (NoDup (all_uuids root) -> Permutation (all_uuids root') (all_uuids root)).
Proof.
  unfold relocate_node. intro H.
  destruct (find_group from root) as [[si sc]|] eqn:E1; cbn [of_option bind] in H; [|discriminate].
  destruct (remove_node u sc) as [[nd kept]|] eqn:E2; cbn [of_option bind] in H; [|discriminate].
  destruct (put_group from si kept root) as [root1|] eqn:E3; cbn [of_option bind] in H; [|discriminate].
  destruct (find_group to root1) as [[di dc]|] eqn:E4; cbn [of_option bind] in H; [|discriminate].
  destruct (put_group to di _ root1) as [root2|] eqn:E5; cbn [of_option] in H; [|discriminate].
  injection H as <-.
  destruct (put_group_removed _ _ _ _ _ _ _ _ E1 E2 E3) as [Hu1 Hp1].
  destruct (put_group_perm _ _ _ _ _ _ _ E4 E5 eq_refl) as [Hu2 Hp2].
  split; [congruence|]. intro Nd. destruct (Hp1 Nd) as (_ & Hp1').
  specialize (Hp2 (uuid_of nd :: all_uuids nd) []). rewrite !app_nil_r in Hp2.
  etransitivity; [apply Hp2|exact Hp1'].
  rewrite uus_app, uus_single, node_set_lc_uuid, node_set_lc_all. apply Permutation_refl.
Qed.

(* ---------- what one step of merge_group does to the destination root ---------- *)

(* the root keeps its UUID; if the UUIDs below it were distinct they still are, and they are
   exactly the old ones plus those of the creation events *)
Definition step_ok (root root' : node) (lg : log) : Prop :=
  uuid_of root' = uuid_of root
  /\ (NoDup (all_uuids root) ->
      NoDup (all_uuids root')
      /\ Permutation (all_uuids root') (all_uuids root ++ created_uuids lg)).

Lemma step_ok_refl root lg : created_uuids lg = [] -> step_ok root root lg.
Proof.
  intro H. split; [reflexivity|]. intro Nd. rewrite H, app_nil_r.
  split; [exact Nd|apply Permutation_refl].
Qed.

Lemma step_ok_keep root root' lg :
  uuid_of root' = uuid_of root ->
  (NoDup (all_uuids root) -> Permutation (all_uuids root') (all_uuids root)) ->
  created_uuids lg = [] -> step_ok root root' lg.
Proof.
  intros Hu Hp Hc. split; [exact Hu|]. intro Nd. rewrite Hc, app_nil_r. specialize (Hp Nd).
  split; [|exact Hp]. apply (Permutation_NoDup (Permutation_sym Hp) Nd).
Qed.

Lemma step_ok_trans r0 r1 r2 l1 l2 :
  step_ok r0 r1 l1 -> step_ok r1 r2 l2 -> step_ok r0 r2 (l1 ++ l2).
Proof.
  intros [U1 H1] [U2 H2]. split; [congruence|]. intro Nd.
  destruct (H1 Nd) as [N1 P1]. destruct (H2 N1) as [N2 P2]. split; [exact N2|].
  rewrite created_uuids_app, app_assoc. etransitivity; [exact P2|].
  apply Permutation_app_tail. exact P1.
Qed.

Lemma step_ok_log root root' l l' :
  created_uuids l' = created_uuids l -> step_ok root root' l -> step_ok root root' l'.
Proof. unfold step_ok. intros ->. auto. Qed.

(* appending a fresh leaf to the group at [path] *)
Lemma put_group_new path root pi pc x root1 lg :
  find_group path root = Some (pi, pc) -> put_group path pi (pc ++ [x]) root = Some root1 ->
  all_uuids x = [] -> fnl_db (uuid_of x) (children_of root) = None ->
  created_uuids lg = [uuid_of x] -> step_ok root root1 lg.
Proof.
  intros E1 E2 Hx Hn Hc. destruct (put_group_perm _ _ _ _ _ _ _ E1 E2 eq_refl) as [Hu Hp].
  split; [exact Hu|]. intro Nd. rewrite Hc.
  specialize (Hp [uuid_of x] []). rewrite !app_nil_r in Hp.
  assert (P : Permutation (all_uuids root1) (all_uuids root ++ [uuid_of x])).
  { apply Hp. rewrite uus_app, uus_single, Hx. apply Permutation_refl. }
  split; [|exact P]. apply (Permutation_NoDup (Permutation_sym P)). apply NoDup_snoc; [exact Nd|].
  rewrite all_uuids_children. apply fnl_db_none_notin. exact Hn.
Qed.

Lemma merge_group_head_ok now si root root' lg :
  merge_group_head now si root = Ok (root', lg) -> step_ok root root' lg.
Proof.
  intro H. pose proof (merge_group_head_created _ _ _ _ _ H) as Hc.
  apply merge_group_head_cases in H as [(ri & rc & ri' & -> & _ & _ & -> & Eu)|[_ H]].
  { (* the root itself: same UUID, same children *)
    apply step_ok_keep; [exact Eu| |exact Hc]. intros _. apply Permutation_refl. }
  unfold merge_group_head_below in H.
  destruct (fnl_db _ _) as [loc|]; [|injection H as <- _; apply step_ok_refl; exact Hc].
  destruct (find_group _ root) as [[di dc]|] eqn:E1; cbn [of_option bind] in H; [|discriminate].
  destruct (group_merge_with now di si) as [[di' lg1]| | |] eqn:E2; cbn [bind] in H; try discriminate.
  destruct (put_group _ di' dc root) as [root1|] eqn:E3; cbn [of_option bind] in H; [|discriminate].
  injection H as <- _. apply group_merge_with_uuid in E2.
  destruct (put_group_perm _ _ _ _ _ _ _ E1 E3 E2) as [Hu Hp].
  apply step_ok_keep; [exact Hu| |exact Hc]. intros _. specialize (Hp [] []).
  rewrite !app_nil_r in Hp. apply Hp. apply Permutation_refl.
Qed.

Lemma find_entry_last p h root e : find_entry (p ++ [h]) root = Some e -> e_uuid e = h.
Proof.
  unfold find_entry. destruct (get_uuid _ root) as [[i c|e0]|] eqn:E; try discriminate.
  intro H. injection H as <-. apply get_uuid_last in E. exact E.
Qed.

Lemma merge_entry_step_ok now deleted path in_del oe root root' lg :
  merge_entry_step now deleted path in_del oe root = Ok (root', lg) -> step_ok root root' lg.
Proof.
  unfold merge_entry_step. intro H. destruct (fnl_db _ _) as [dloc|] eqn:Ef.
  - destruct (find_entry _ root) as [existing|] eqn:Ee; cbn [unwrap bind] in H; [|discriminate].
    apply find_entry_last in Ee.
    match type of H with bind ?x _ = _ =>
      destruct x as [[[[root1 existing1] loc1] lg1]| | |] eqn:Einner end; cbn [bind] in H; try discriminate.
    assert (Hr1 : step_ok root root1 lg1 /\ e_uuid existing1 = e_uuid oe
                  /\ exists p, loc1 = p ++ [e_uuid oe]).
    { destruct (negb _ && negb in_del).
      - destruct (lc_or (e_times oe) 0%Z) as [src_lc w1] eqn:L1.
        destruct (lc_or (e_times existing) now) as [dst_lc w2] eqn:L2.
        apply lc_or_created in L1. apply lc_or_created in L2.
        destruct (Z.gtb src_lc dst_lc).
        + destruct (relocate_node _ _ _ _ _) as [r1| | |] eqn:Er; cbn [bind] in Einner; try discriminate.
          injection Einner as <- <- <- <-. apply relocate_node_perm in Er as [Hu Hp].
          split; [|split; [exact Ee|exists path; reflexivity]].
          apply step_ok_keep; [exact Hu|exact Hp|]. rewrite !created_uuids_app, L1, L2. reflexivity.
        + injection Einner as <- <- <- <-. split; [|split; [exact Ee|exists dloc; reflexivity]].
          apply step_ok_refl. rewrite created_uuids_app, L1, L2. reflexivity.
      - injection Einner as <- <- <- <-. split; [|split; [exact Ee|exists dloc; reflexivity]].
        apply step_ok_refl. reflexivity. }
    destruct Hr1 as (Hr1 & Hu1 & p & ->).
    destruct (negb (entry_diverged existing1 oe)); [injection H as <- <-; exact Hr1|].
    destruct (entry_merge now existing1 oe) as [[merged elog]| | |] eqn:Em; cbn [bind] in H; try discriminate.
    destruct merged as [m|]; [|injection H as <- <-; exact Hr1].
    destruct (entry_eqb existing1 m); [injection H as <- <-; exact Hr1|].
    destruct (put_entry _ m root1) as [root2|] eqn:Ep; cbn [of_option bind] in H; [|discriminate].
    injection H as <- <-.
    assert (Hm : e_uuid m = e_uuid oe).
    { destruct (entry_merge_uuid _ _ _ _ _ Em) as [E|E]; congruence. }
    apply entry_merge_created in Em.
    apply put_entry_perm in Ep as [Hu2 Hp2]; [|exact Hm].
    apply (step_ok_trans _ root1); [exact Hr1|].
    apply step_ok_keep; [exact Hu2|intros _; exact Hp2|]. cbn [app]. rewrite created_uuids_cons, Em. reflexivity.
  - destruct (deleted_contains deleted (e_uuid oe)) eqn:Ed;
      [injection H as <- <-; apply step_ok_refl; reflexivity|].
    destruct in_del; [injection H as <- <-; apply step_ok_refl; reflexivity|].
    destruct (find_group path root) as [[pi pc]|] eqn:E1; cbn [of_option bind] in H; [|discriminate].
    destruct (put_group path pi _ root) as [root1|] eqn:E2; cbn [of_option bind] in H; [|discriminate].
    injection H as <- <-.
    apply (put_group_new _ _ _ _ (NE oe) _ _ E1 E2); [reflexivity|exact Ef|reflexivity].
Qed.

Lemma merge_entries_ok now deleted path in_del : forall l root root' lg,
  merge_entries now deleted path in_del l root = Ok (root', lg) -> step_ok root root' lg.
Proof.
  induction l as [|x r IH]; intros root root' lg H; cbn [merge_entries] in H.
  - injection H as <- <-. apply step_ok_refl. reflexivity.
  - destruct x as [j jc|oe]; [eapply IH; exact H|].
    destruct (merge_entry_step now deleted path in_del oe root) as [[root1 lg1]| | |] eqn:E1;
      cbn [bind] in H; try discriminate.
    destruct (merge_entries now deleted path in_del r root1) as [[root2 lg2]| | |] eqn:E2;
      cbn [bind] in H; try discriminate.
    injection H as <- <-. apply IH in E2. apply merge_entry_step_ok in E1.
    eapply step_ok_trans; eassumption.
Qed.

Lemma merge_subgroup_step_ok now deleted path in_del j rec root root' lg :
  (forall p d rt rt' l, rec p d rt = Ok (rt', l) -> step_ok rt rt' l) ->
  merge_subgroup_step now deleted path in_del j rec root = Ok (root', lg) -> step_ok root root' lg.
Proof.
  intros Hrec H. unfold merge_subgroup_step in H. cbv zeta in H.
  destruct (deleted_contains deleted (gi_uuid j) || in_del) eqn:Ec; [eapply Hrec; exact H|].
  destruct (fnl_db _ _) as [dloc|] eqn:Ef.
  - assert (Hstay : forall w, created_uuids w = [] ->
              (do (root1, lg) <- rec (dloc ++ [gi_uuid j]) in_del root; Ok (root1, w ++ lg))%outcome
              = Ok (root', lg) -> step_ok root root' lg).
    { intros w Hw Hs.
      destruct (rec (dloc ++ [gi_uuid j]) in_del root) as [[r1 l1]| | |] eqn:Er; cbn [bind] in Hs;
        try discriminate.
      injection Hs as <- <-. eapply step_ok_log; [|eapply Hrec; exact Er].
      rewrite created_uuids_app, Hw. reflexivity. }
    destruct (negb (path_eqb path dloc)); [|exact (Hstay [] eq_refl H)].
    destruct (find_group _ root) as [[ei ec]|]; cbn [unwrap bind] in H; [|discriminate].
    destruct (lc_or (gi_times ei) now) as [e_lc w1] eqn:L1.
    destruct (lc_or (gi_times j) 0%Z) as [o_lc w2] eqn:L2.
    apply lc_or_created in L1. apply lc_or_created in L2.
    destruct (Z.ltb e_lc o_lc && _);
      [|eapply Hstay; [|exact H]; rewrite created_uuids_app, L1, L2; reflexivity].
    destruct (relocate_node _ _ _ _ root) as [root1| | |] eqn:E1; cbn [bind] in H; try discriminate.
    destruct (rec _ in_del root1) as [[root2 l2]| | |] eqn:E2; cbn [bind] in H; try discriminate.
    injection H as <- <-. apply Hrec in E2. apply relocate_node_perm in E1 as [Hu Hp].
    eapply step_ok_log;
      [|eapply (step_ok_trans root root1 root2 []);
        [apply step_ok_keep; [exact Hu|exact Hp|reflexivity]|exact E2]].
    rewrite !created_uuids_app, L1, L2. reflexivity.
  - destruct (find_group path root) as [[pi pc]|] eqn:E1; cbn [of_option bind] in H; [|discriminate].
    destruct (put_group path pi _ root) as [root1|] eqn:E2; cbn [of_option bind] in H; [|discriminate].
    destruct (rec _ in_del root1) as [[root2 l2]| | |] eqn:E3; cbn [bind] in H; try discriminate.
    injection H as <- <-. apply Hrec in E3.
    apply (step_ok_trans root root1 root2 [Ev GroupCreated (gi_uuid j)] l2); [|exact E3].
    apply (put_group_new _ _ _ _ (NG j []) _ _ E1 E2); [reflexivity|exact Ef|reflexivity].
Qed.

Definition merge_group_ok_at (now : Z) (deleted : list dobj) (x : node) : Prop :=
  forall path in_del root root' lg,
    merge_group now deleted path x in_del root = Ok (root', lg) -> step_ok root root' lg.

Lemma groups_loop_ok now deleted path in_del : forall l,
  Forall (merge_group_ok_at now deleted) l ->
  forall root root' lg,
  groups_loop now deleted path in_del l root = Ok (root', lg) -> step_ok root root' lg.
Proof.
  induction 1 as [|x r Hx _ IH]; intros root root' lg H.
  - rewrite groups_loop_nil in H. injection H as <- <-. apply step_ok_refl. reflexivity.
  - rewrite groups_loop_cons in H. destruct x as [j jc|e]; [|eapply IH; exact H].
    destruct (merge_subgroup_step _ _ _ _ _ _ root) as [[root1 lg1]| | |] eqn:E1; cbn [bind] in H;
      try discriminate.
    destruct (groups_loop now deleted path in_del r root1) as [[root2 lg2]| | |] eqn:E2;
      cbn [bind] in H; try discriminate.
    injection H as <- <-. apply IH in E2.
    eapply merge_subgroup_step_ok in E1; [|intros p d rt rt' l Hl; eapply Hx; exact Hl].
    eapply step_ok_trans; eassumption.
Qed.

Lemma merge_group_ok_all now deleted : forall src, merge_group_ok_at now deleted src.
Proof.
  induction src as [e|si sch IH] using node_ind'; intros path in_del root root' lg H.
  - discriminate.
  - rewrite merge_group_unfold in H.
    destruct (merge_group_head now si root) as [[root0 lg0]| | |] eqn:E0; cbn [bind] in H; try discriminate.
    destruct (merge_entries now deleted path in_del sch root0) as [[root1 lg1]| | |] eqn:E1;
      cbn [bind] in H; try discriminate.
    destruct (groups_loop now deleted path in_del sch root1) as [[root2 lg2]| | |] eqn:E2;
      cbn [bind] in H; try discriminate.
    injection H as <- <-.
    apply merge_group_head_ok in E0. apply merge_entries_ok in E1.
    apply (groups_loop_ok now deleted path in_del sch IH) in E2.
    eapply step_ok_trans; [exact E0|]. eapply step_ok_trans; eassumption.
Qed.

(* merge_group, for a source tree of any shape, any destination, any path and flag *)
Theorem merge_group_step : forall src now deleted path in_del root root' lg,
  merge_group now deleted path src in_del root = Ok (root', lg) ->
  uuid_of root' = uuid_of root
  /\ (NoDup (all_uuids root) ->
      NoDup (all_uuids root')
      /\ Permutation (all_uuids root') (all_uuids root ++ created_uuids lg)).
Proof. intros src now deleted path in_del root root' lg H. exact (merge_group_ok_all now deleted src _ _ _ _ _ H). Qed.

(* ---------- merge_deletions ---------- *)

(* every UUID of [gone] is named by a deletion event of [w] *)
Definition gone_logged (gone : list N) (w : log) : Prop :=
  forall u, In u gone -> In (Ev EntryDeleted u) w \/ In (Ev GroupDeleted u) w.

Definition dstep (st st' : dstate) : Prop :=
  exists w, ds_log st' = ds_log st ++ w
    /\ uuid_of (ds_root st') = uuid_of (ds_root st)
    /\ (NoDup (all_uuids (ds_root st)) ->
        NoDup (all_uuids (ds_root st'))
        /\ exists gone, Permutation (all_uuids (ds_root st') ++ gone) (all_uuids (ds_root st))
                        /\ gone_logged gone w).

Lemma dstep_same st st' w :
  ds_root st' = ds_root st -> ds_log st' = ds_log st ++ w -> dstep st st'.
Proof.
  intros Hr Hl. exists w. rewrite Hr. split; [exact Hl|]. split; [reflexivity|]. intro Nd.
  split; [exact Nd|]. exists []. split; [rewrite app_nil_r; apply Permutation_refl|intros u []].
Qed.

Lemma dstep_refl st : dstep st st.
Proof. apply (dstep_same st st []); [reflexivity|symmetry; apply app_nil_r]. Qed.

Lemma dstep_trans a b c : dstep a b -> dstep b c -> dstep a c.
Proof.
  intros (w1 & L1 & U1 & H1) (w2 & L2 & U2 & H2). exists (w1 ++ w2).
  split; [rewrite L2, L1, app_assoc; reflexivity|]. split; [congruence|]. intro Nd.
  destruct (H1 Nd) as (N1 & g1 & P1 & G1). destruct (H2 N1) as (N2 & g2 & P2 & G2).
  split; [exact N2|]. exists (g2 ++ g1). split.
  - rewrite app_assoc. etransitivity; [apply Permutation_app_tail; exact P2|exact P1].
  - intros u Hu. apply in_app_or in Hu as [Hu|Hu].
    + destruct (G2 u Hu) as [X|X]; [left|right]; apply in_or_app; right; exact X.
    + destruct (G1 u Hu) as [X|X]; [left|right]; apply in_or_app; left; exact X.
Qed.

(* removal of the one child with UUID u, a leaf, from the group at [loc] *)
Lemma dstep_removed st loc pi pc u nd kept root1 del' w ev x :
  find_group loc (ds_root st) = Some (pi, pc) -> remove_node u pc = Some (nd, kept) ->
  put_group loc pi kept (ds_root st) = Some root1 ->
  find (fun c => N.eqb (uuid_of c) u) pc = Some x -> all_uuids x = [] ->
  ev = Ev EntryDeleted u \/ ev = Ev GroupDeleted u ->
  dstep st (mkDstate root1 del' (ds_log st ++ w ++ [ev])).
Proof.
  intros E1 E2 E3 Ef Hx Hev. exists (w ++ [ev]). cbn [ds_root ds_log].
  destruct (put_group_removed _ _ _ _ _ _ _ _ E1 E2 E3) as [Hu Hp].
  split; [reflexivity|]. split; [exact Hu|]. intro Nd. destruct (Hp Nd) as [HF P].
  apply find_some in Ef as [Hin Heq].
  assert (Hxn : nd = x).
  { assert (Hi : In x (filter (fun c => N.eqb (uuid_of c) u) pc)) by (apply filter_In; auto).
    rewrite HF in Hi. destruct Hi as [Hi|[]]. exact Hi. }
  subst nd. rewrite Hx in P. apply N.eqb_eq in Heq. rewrite Heq in P.
  split.
  - apply Permutation_sym in P. apply (Permutation_NoDup P) in Nd. apply NoDup_app_iff in Nd. tauto.
  - exists [u]. split; [exact P|]. intros v [<-|[]].
    destruct Hev as [->| ->]; [left|right]; apply in_or_app; right; left; reflexivity.
Qed.

Lemma del_entry_step_d now st o st' : del_entry_step now st o = Ok st' -> dstep st st'.
Proof.
  unfold del_entry_step. intro H.
  destruct (deleted_contains _ _); [injection H as <-; apply dstep_refl|].
  destruct (fnl_db _ _) as [loc|]; [|injection H as <-; apply dstep_refl].
  destruct (find_group loc (ds_root st)) as [[pi pc]|] eqn:Eg; cbn [of_option bind] in H; [|discriminate].
  destruct (find _ pc) as [[gi gc|e]|] eqn:Efi; try (injection H as <-; apply dstep_refl).
  destruct (lm_or (e_times e) now) as [lm w]. destruct (Z.ltb lm (d_time o)).
  - destruct (remove_node _ pc) as [[nd kept]|] eqn:Er; cbn [of_option bind] in H; [|discriminate].
    destruct (put_group _ _ _ _) as [root1|] eqn:Ep; cbn [of_option bind] in H; [|discriminate].
    injection H as <-.
    eapply dstep_removed; [exact Eg|exact Er|exact Ep|exact Efi|reflexivity|left; reflexivity].
  - injection H as <-. apply (dstep_same _ _ w); reflexivity.
Qed.

Lemma del_entries_d now l : forall st st', del_entries now st l = Ok st' -> dstep st st'.
Proof.
  induction l as [|o r IH]; intros st st' H; cbn [del_entries] in H.
  - injection H as <-. apply dstep_refl.
  - destruct (del_entry_step now st o) as [st1| | |] eqn:E1; cbn [bind] in H; try discriminate.
    apply IH in H. apply del_entry_step_d in E1. eapply dstep_trans; eassumption.
Qed.

(* a group is only deleted when it has no child at all *)
Lemma no_children gc :
  existsb (fun c => negb (is_group c)) gc = false -> existsb is_group gc = false -> gc = [].
Proof.
  destruct gc as [|c r]; [reflexivity|]. cbn [existsb].
  destruct (is_group c); cbn [negb orb]; intros H1 H2; discriminate.
Qed.

Lemma del_group_step_d now st o q st' q' : del_group_step now st o q = Ok (st', q') -> dstep st st'.
Proof.
  unfold del_group_step. intro H.
  destruct (deleted_contains _ _); [injection H as <- _; apply dstep_refl|].
  destruct (fnl_db _ _) as [loc|]; [|injection H as <- _; apply dstep_refl].
  destruct (find_group loc (ds_root st)) as [[pi pc]|] eqn:Eg; cbn [of_option bind] in H; [|discriminate].
  destruct (find _ pc) as [[gi gc|e]|] eqn:Efi; try (injection H as <- _; apply dstep_refl).
  destruct (existsb (fun c => negb (is_group c)) gc) eqn:X1; [injection H as <- _; apply dstep_refl|].
  destruct (existsb (fun c => is_group c && in_queue (uuid_of c) q) gc) eqn:X2;
    [injection H as <- _; apply dstep_refl|].
  destruct (existsb is_group gc) eqn:X3; [injection H as <- _; apply dstep_refl|].
  pose proof (no_children gc X1 X3) as Hgc. subst gc.
  destruct (lm_or (gi_times gi) now) as [lm w]. destruct (Z.ltb lm (d_time o)).
  - destruct (remove_node _ pc) as [[nd kept]|] eqn:Er; cbn [of_option bind] in H; [|discriminate].
    destruct (put_group _ _ _ _) as [root1|] eqn:Ep; cbn [of_option bind] in H; [|discriminate].
    injection H as <- _.
    eapply dstep_removed; [exact Eg|exact Er|exact Ep|exact Efi|reflexivity|right; reflexivity].
  - injection H as <- _. apply (dstep_same _ _ w); reflexivity.
Qed.

Lemma del_groups_d now fuel : forall st q st', del_groups fuel now st q = Ok st' -> dstep st st'.
Proof.
  induction fuel as [|f IH]; intros st q st' H.
  - destruct q; cbn [del_groups] in H; [|discriminate]. injection H as <-. apply dstep_refl.
  - destruct q as [|o q]; cbn [del_groups] in H.
    + injection H as <-. apply dstep_refl.
    + destruct (del_group_step now st o q) as [[st1 q1]| | |] eqn:E1; cbn [bind] in H; try discriminate.
      apply IH in H. apply del_group_step_d in E1. eapply dstep_trans; eassumption.
Qed.

(* applying the source's tombstones: the root keeps its UUID; on a tree with distinct UUIDs the
   UUIDs stay distinct and every UUID that disappears is named by a deletion event *)
Theorem merge_deletions_step now root deleted src_deleted root' deleted' lg :
  merge_deletions now root deleted src_deleted = Ok (root', deleted', lg) ->
  uuid_of root' = uuid_of root
  /\ (NoDup (all_uuids root) ->
      NoDup (all_uuids root')
      /\ exists gone, Permutation (all_uuids root' ++ gone) (all_uuids root) /\ gone_logged gone lg).
Proof.
  unfold merge_deletions. intro H.
  destruct (del_entries now _ src_deleted) as [st1| | |] eqn:E1; cbn [bind] in H; try discriminate.
  destruct (del_groups _ now st1 _) as [st2| | |] eqn:E2; cbn [bind] in H; try discriminate.
  injection H as <- _ <-. apply del_entries_d in E1. apply del_groups_d in E2.
  destruct (dstep_trans _ _ _ E1 E2) as (w & L & U & Hn). cbn [ds_root ds_log app] in *.
  rewrite L. split; [exact U|exact Hn].
Qed.

(* ---------- Database::merge ---------- *)

(* (2) the root stays the root: same UUID, whatever the two databases are; and the result's root
   is a group by construction ([db_root] is an [NG]) *)
Theorem merge_keeps_root now d s d' lg :
  merge now d s = Ok (d', lg) -> gi_uuid (db_root_info d') = gi_uuid (db_root_info d).
Proof.
  unfold merge. intro H.
  destruct (merge_group _ _ _ _ _ _) as [[root1 lg1]| | |] eqn:E1; cbn [bind] in H; try discriminate.
  destruct (merge_deletions _ _ _ _) as [[[root2 del2] lg2]| | |] eqn:E2; cbn [bind] in H; try discriminate.
  destruct root2 as [i c|e]; [|discriminate]. injection H as <- _. cbn [db_root_info].
  apply merge_group_step in E1 as [U1 _]. apply merge_deletions_step in E2 as [U2 _].
  cbn [uuid_of db_root] in U1, U2. congruence.
Qed.

Theorem merge_root_is_group d : is_group (db_root d) = true.
Proof. reflexivity. Qed.

(* (3) the account of a merge: as multisets,
       UUIDs of the result + UUIDs named by deletion events = UUIDs of the destination + created *)
Theorem merge_accounting now d s d' lg :
  uuids_unique (db_children d) -> merge now d s = Ok (d', lg) ->
  uuids_unique (db_children d')
  /\ exists gone,
       Permutation (uus (db_children d') ++ gone) (uus (db_children d) ++ created_uuids lg)
       /\ gone_logged gone lg.
Proof.
  unfold merge. intros Nd H.
  destruct (merge_group _ _ _ _ _ _) as [[root1 lg1]| | |] eqn:E1; cbn [bind] in H; try discriminate.
  destruct (merge_deletions _ _ _ _) as [[[root2 del2] lg2]| | |] eqn:E2; cbn [bind] in H; try discriminate.
  destruct root2 as [i c|e]; [|discriminate]. injection H as <- <-. cbn [db_children].
  apply merge_group_step in E1 as [_ H1].
  pose proof (merge_deletions_created _ _ _ _ _ _ _ E2) as C2.
  apply merge_deletions_step in E2 as [_ H2].
  destruct (H1 Nd) as [N1 P1]. destruct (H2 N1) as (N2 & gone & P2 & G).
  split; [exact N2|]. exists gone. split.
  - rewrite created_uuids_app, C2, app_nil_r. etransitivity; [exact P2|exact P1].
  - intros u Hu. destruct (G u Hu); [left|right]; apply in_or_app; right; assumption.
Qed.

(* below the root, distinctness is kept whatever the source is *)
Corollary merge_children_unique now d s d' lg :
  uuids_unique (db_children d) -> merge now d s = Ok (d', lg) -> uuids_unique (db_children d').
Proof. intros Nd H. exact (proj1 (merge_accounting now d s d' lg Nd H)). Qed.

(* nothing of the destination is lost except what a deletion event names *)
Theorem merge_conserves now d s d' lg :
  uuids_unique (db_children d) -> merge now d s = Ok (d', lg) ->
  forall u, In u (tree_uuids (db_root d)) ->
    In u (tree_uuids (db_root d')) \/ In (Ev EntryDeleted u) lg \/ In (Ev GroupDeleted u) lg.
Proof.
  intros Nd H u Hu. destruct (merge_accounting now d s d' lg Nd H) as (_ & gone & P & G).
  change (In u (uus (db_children d))) in Hu. change (tree_uuids (db_root d')) with (uus (db_children d')).
  assert (Hin : In u (uus (db_children d') ++ gone)).
  { apply (Permutation_in u (Permutation_sym P)). apply in_or_app. left. exact Hu. }
  apply in_app_or in Hin as [Hin|Hin]; [left; exact Hin|right; exact (G u Hin)].
Qed.

(* and everything in the result was in the destination or is named by a creation event *)
Theorem merge_result_origin now d s d' lg :
  uuids_unique (db_children d) -> merge now d s = Ok (d', lg) ->
  forall u, In u (tree_uuids (db_root d')) ->
    In u (tree_uuids (db_root d)) \/ In (Ev EntryCreated u) lg \/ In (Ev GroupCreated u) lg.
Proof.
  intros Nd H u Hu. destruct (merge_accounting now d s d' lg Nd H) as (_ & gone & P & G).
  change (In u (uus (db_children d'))) in Hu. change (tree_uuids (db_root d)) with (uus (db_children d)).
  assert (Hin : In u (uus (db_children d) ++ created_uuids lg)).
  { apply (Permutation_in u P). apply in_or_app. left. exact Hu. }
  apply in_app_or in Hin as [Hin|Hin]; [left; exact Hin|right].
  apply in_flat_map in Hin as (ev & Hev & Hc).
  destruct ev as [[] v|]; cbn [created_uuid In] in Hc; try contradiction;
    destruct Hc as [<-|[]]; auto.
Qed.

(* (1) *)
Theorem merge_keeps_unique_gen now d s d' lg :
  uuids_ok d -> ~ In (gi_uuid (db_root_info d)) (uus (db_children s)) ->
  merge now d s = Ok (d', lg) -> uuids_ok d'.
Proof.
  unfold uuids_ok. intros Hd Hs H. apply NoDup_cons_iff in Hd as [Hr Nd].
  apply NoDup_cons_iff. split; [|exact (merge_children_unique now d s d' lg Nd H)].
  rewrite (merge_keeps_root now d s d' lg H). intro Hin.
  apply (merge_no_new_uuids now d s d' lg H) in Hin. apply in_app_or in Hin as [Hin|Hin].
  - exact (Hr Hin).
  - exact (Hs Hin).
Qed.

Theorem merge_keeps_unique : forall now d s d' lg,
  uuids_ok d -> uuids_ok s -> gi_uuid (db_root_info d) = gi_uuid (db_root_info s) ->
  merge now d s = Ok (d', lg) -> uuids_ok d'.
Proof.
  intros now d s d' lg Hd Hs Hr H. apply (merge_keeps_unique_gen now d s d' lg Hd); [|exact H].
  rewrite Hr. unfold uuids_ok in Hs. apply NoDup_cons_iff in Hs. tauto.
Qed.

(* ---------- (4) merge never runs out of fuel ---------- *)
(* merge_group is structural on the source tree and uses no fuel; only the deletion queue does. *)

Local Notation nof x := (x <> OutOfFuel).

Lemma nof_bind {A B} (x : res A) (f : A -> res B) : nof x -> (forall a, nof (f a)) -> nof (bind x f).
Proof. destruct x; cbn [bind]; auto; intros; discriminate. Qed.

Lemma nof_of_option {A} (e : merr) (o : option A) : nof (of_option e o).
Proof. destruct o; discriminate. Qed.

Lemma nof_unwrap {A} (site : N) (o : option A) : nof (unwrap (E:=merr) site o).
Proof. destruct o; discriminate. Qed.

Lemma hist_self_nof : forall l acc, nof (hist_self acc l).
Proof.
  induction l as [|h r IH]; intro acc; cbn [hist_self]; [discriminate|].
  destruct (t_lm (e_times h)); [|discriminate]. destruct (lookup_time _ acc); [discriminate|apply IH].
Qed.

Lemma hist_other_nof : forall l acc lg, nof (hist_other acc lg l).
Proof.
  induction l as [|h r IH]; intros acc lg; cbn [hist_other]; [discriminate|].
  destruct (t_lm (e_times h)); [|discriminate]. destruct (lookup_time _ acc); apply IH.
Qed.

Lemma history_merge_with_nof self other : nof (history_merge_with self other).
Proof.
  unfold history_merge_with. apply nof_bind; [apply hist_self_nof|intro m1].
  apply nof_bind; [apply hist_other_nof|intros [m2 lg]; discriminate].
Qed.

Lemma merge_history_nof self other : nof (merge_history self other).
Proof.
  unfold merge_history.
  destruct (e_hist other), (e_hist self), (has_uncommitted_changes other); cbv beta iota;
    (apply nof_bind; [apply history_merge_with_nof|intros [h lg]; discriminate]).
Qed.

Lemma entry_merge_nof now self other : nof (entry_merge now self other).
Proof.
  unfold entry_merge.
  destruct (lm_or (e_times other) 0%Z) as [src_lm w1]. destruct (lm_or (e_times self) now) as [dst_lm w2].
  destruct (Z.eqb dst_lm src_lm).
  - destruct (negb (entry_diverged self other)); discriminate.
  - apply nof_bind; [destruct (Z.gtb dst_lm src_lm); apply merge_history_nof|intros [m lg]; discriminate].
Qed.

Lemma group_merge_with_nof now d s : nof (group_merge_with now d s).
Proof.
  unfold group_merge_with.
  destruct (lm_or (gi_times s) 0%Z) as [src_lm w1]. destruct (lm_or (gi_times d) now) as [dst_lm w2].
  destruct (Z.eqb dst_lm src_lm).
  - destruct (group_diverged d s); discriminate.
  - destruct (Z.gtb dst_lm src_lm); discriminate.
Qed.

Lemma relocate_node_nof u from to ts root : nof (relocate_node u from to ts root).
Proof.
  unfold relocate_node.
  apply nof_bind; [apply nof_of_option|intros [si sc]].
  apply nof_bind; [apply nof_of_option|intros [nd kept]].
  apply nof_bind; [apply nof_of_option|intros root1].
  apply nof_bind; [apply nof_of_option|intros [di dc]]. apply nof_of_option.
Qed.

Lemma merge_group_head_below_nof now si root : nof (merge_group_head_below now si root).
Proof.
  unfold merge_group_head_below. destruct (fnl_db _ _) as [loc|]; [|discriminate].
  apply nof_bind; [apply nof_of_option|intros [di dc]].
  apply nof_bind; [apply group_merge_with_nof|intros [di' lg]].
  apply nof_bind; [apply nof_of_option|intros root1; discriminate].
Qed.

Lemma merge_group_head_nof now si root : nof (merge_group_head now si root).
Proof.
  unfold merge_group_head. destruct root as [ri rc|e]; [|apply merge_group_head_below_nof].
  destruct (N.eqb (gi_uuid si) (gi_uuid ri)); [|apply merge_group_head_below_nof].
  apply nof_bind; [apply group_merge_with_nof|intros [ri' lg]; discriminate].
Qed.

Lemma merge_entry_step_nof now deleted path in_del oe root :
  nof (merge_entry_step now deleted path in_del oe root).
Proof.
  unfold merge_entry_step. destruct (fnl_db _ _) as [dloc|].
  - apply nof_bind; [apply nof_unwrap|intro existing]. apply nof_bind.
    + destruct (negb _ && negb in_del); [|discriminate].
      destruct (lc_or (e_times oe) 0%Z) as [src_lc w1].
      destruct (lc_or (e_times existing) now) as [dst_lc w2].
      destruct (Z.gtb src_lc dst_lc); [|discriminate].
      apply nof_bind; [apply relocate_node_nof|intro r1; discriminate].
    + intros [[[root1 existing1] loc1] lg1].
      destruct (negb (entry_diverged existing1 oe)); [discriminate|].
      apply nof_bind; [apply entry_merge_nof|intros [merged elog]].
      destruct merged as [m|]; [|discriminate]. destruct (entry_eqb existing1 m); [discriminate|].
      apply nof_bind; [apply nof_of_option|intro root2; discriminate].
  - destruct (deleted_contains deleted (e_uuid oe)); [discriminate|]. destruct in_del; [discriminate|].
    apply nof_bind; [apply nof_of_option|intros [pi pc]].
    apply nof_bind; [apply nof_of_option|intro root1; discriminate].
Qed.

Lemma merge_entries_nof now deleted path in_del : forall l root,
  nof (merge_entries now deleted path in_del l root).
Proof.
  induction l as [|x r IH]; intro root; cbn [merge_entries]; [discriminate|].
  destruct x as [j jc|oe]; [apply IH|].
  apply nof_bind; [apply merge_entry_step_nof|intros [root1 lg1]].
  apply nof_bind; [apply IH|intros [root2 lg2]; discriminate].
Qed.

Lemma merge_subgroup_step_nof now deleted path in_del j rec root :
  (forall p d rt, nof (rec p d rt)) -> nof (merge_subgroup_step now deleted path in_del j rec root).
Proof.
  intro Hrec. unfold merge_subgroup_step. cbv zeta.
  destruct (deleted_contains deleted (gi_uuid j) || in_del); [apply Hrec|].
  destruct (fnl_db _ _) as [dloc|].
  - assert (Hstay : forall w,
              nof (do (root1, lg) <- rec (dloc ++ [gi_uuid j]) in_del root; Ok (root1, w ++ lg))%outcome).
    { intro w. apply nof_bind; [apply Hrec|intros [a b]; discriminate]. }
    destruct (negb (path_eqb path dloc)); [|apply Hstay].
    apply nof_bind; [apply nof_unwrap|intros [ei ec]].
    destruct (lc_or (gi_times ei) now) as [e_lc w1]. destruct (lc_or (gi_times j) 0%Z) as [o_lc w2].
    destruct (Z.ltb e_lc o_lc && _); [|apply Hstay].
    apply nof_bind; [apply relocate_node_nof|intro root1].
    apply nof_bind; [apply Hrec|intros [root2 lg]; discriminate].
  - apply nof_bind; [apply nof_of_option|intros [pi pc]].
    apply nof_bind; [apply nof_of_option|intro root1].
    apply nof_bind; [apply Hrec|intros [root2 lg]; discriminate].
Qed.

Lemma groups_loop_nof now deleted path in_del : forall l,
  Forall (fun x => forall p d rt, nof (merge_group now deleted p x d rt)) l ->
  forall root, nof (groups_loop now deleted path in_del l root).
Proof.
  induction 1 as [|x r Hx _ IH]; intro root; [discriminate|].
  rewrite groups_loop_cons. destruct x as [j jc|e]; [|apply IH].
  apply nof_bind; [apply merge_subgroup_step_nof; exact Hx|intros [root1 lg1]].
  apply nof_bind; [apply IH|intros [root2 lg2]; discriminate].
Qed.

Theorem merge_group_nof now deleted : forall src path in_del root,
  nof (merge_group now deleted path src in_del root).
Proof.
  induction src as [e|si sch IH] using node_ind'; intros path in_del root; [discriminate|].
  rewrite merge_group_unfold.
  apply nof_bind; [apply merge_group_head_nof|intros [root0 lg0]].
  apply nof_bind; [apply merge_entries_nof|intros [root1 lg1]].
  apply nof_bind; [apply groups_loop_nof; exact IH|intros [root2 lg2]; discriminate].
Qed.

(* the fuel given to the deletion queue always suffices when the destination's UUIDs (below the
   root) are distinct: the tree that merge_group hands to merge_deletions still has distinct UUIDs *)
Theorem merge_never_out_of_fuel_gen now d s :
  uuids_unique (db_children d) -> merge now d s <> OutOfFuel.
Proof.
  intro Nd. unfold merge.
  destruct (merge_group _ _ _ _ _ _) as [[root1 lg1]| | |] eqn:E1; cbn [bind]; try discriminate.
  - apply merge_group_step in E1 as [_ H1]. destruct (H1 Nd) as [N1 _].
    rewrite all_uuids_children in N1.
    destruct (merge_deletions_ok now root1 (db_deleted d) (db_deleted s) N1) as (r & dl & lg & -> & _).
    cbn [bind]. destruct r; discriminate.
  - exfalso. exact (merge_group_nof _ _ _ _ _ _ E1).
Qed.

Theorem merge_never_out_of_fuel now d s : uuids_ok d -> merge now d s <> OutOfFuel.
Proof.
  unfold uuids_ok. intro H. apply NoDup_cons_iff in H as [_ H]. apply merge_never_out_of_fuel_gen. exact H.
Qed.

(* ---------- examples ---------- *)

Definition en (u d : N) (lm lc : Z) : entry := mkEntry u d (tm lm lc) (Some []).

Definition rp_d : db :=
  mkDb (mkGinfo 100 0 (tm 10 10))
       [NG (mkGinfo 10 0 (tm 10 10)) [NE (en 7 70 10 10); NE (en 4 40 20 20)];
        NG (mkGinfo 11 0 (tm 10 10))
           [NE (mkEntry 2 21 (tm 20 10) (Some [en 2 20 10 10])); NE (en 1 10 10 20)];
        NE (en 8 80 10 10);
        NG (mkGinfo 13 0 (tm 10 10)) []]
       [mkDobj 3 20].

Definition rp_s : db :=
  mkDb (mkGinfo 100 0 (tm 10 10))
       [NG (mkGinfo 10 0 (tm 10 10))
           [NE (en 1 10 10 10); NG (mkGinfo 11 0 (tm 10 30)) [NE (en 5 50 30 30)]];
        NE (en 3 30 10 10);
        NE (mkEntry 8 81 (tm 30 10) (Some [en 8 80 10 10]));
        NG (mkGinfo 12 0 (tm 30 30)) [NE (en 6 60 30 30); NE (en 7 70 10 30)]]
       [mkDobj 2 30; mkDobj 13 30].

Definition rp_result : db :=
  mkDb (mkGinfo 100 0 (tm 10 10))
       [NG (mkGinfo 10 0 (tm 10 10))
           [NE (en 4 40 20 20);
            NG (mkGinfo 11 0 (tm 10 30)) [NE (en 1 10 10 20); NE (en 5 50 30 30)]];
        NE (mkEntry 8 81 (tm 30 10) (Some [en 8 80 10 10]));
        NG (mkGinfo 12 0 (tm 30 30)) [NE (en 6 60 30 30); NE (en 7 70 10 30)]]
       [mkDobj 3 20; mkDobj 2 30; mkDobj 13 30].

(* non-vacuity: two replicas of one database.  The destination has moved entry 1 from group 10 to
   group 11, added entry 4, changed entry 2 and deleted entry 3; the source has moved group 11
   under group 10, added entry 5 there, added group 12 with entry 6, moved entry 7 into it, changed
   entry 8 and deleted entry 2 and the (empty) group 13. *)
Example rp_merge :
  uuids_okb rp_d = true /\ uuids_okb rp_s = true
  /\ merge 50 rp_d rp_s =
     Ok (rp_result,
         [Ev EntryUpdated 8; Warn; Warn; Ev GroupLocationUpdated 11; Ev EntryCreated 5;
          Ev GroupCreated 12; Ev EntryCreated 6; Ev EntryLocationUpdated 7;
          Ev EntryDeleted 2; Ev GroupDeleted 13])
  /\ uuids_okb rp_result = true.
Proof. repeat split; vm_compute; reflexivity. Qed.

(* the same through the theorem: its hypotheses hold of the two replicas *)
Example rp_unique : uuids_ok rp_result.
Proof.
  destruct rp_merge as (Hd & Hs & Hm & _).
  apply (merge_keeps_unique 50 rp_d rp_s rp_result _ (proj1 (uuids_okb_spec _) Hd)
           (proj1 (uuids_okb_spec _) Hs) eq_refl Hm).
Qed.

(* ---------- each hypothesis of merge_keeps_unique is needed ---------- *)

(* [uuids_ok d] dropped: the duplicates of the destination are still there *)
Definition cx1_d : db := mkDb (mkGinfo 100 0 (tm 1 1)) [NE (en 1 10 1 1); NE (en 1 10 1 1)] [].
Definition cx1_s : db := mkDb (mkGinfo 100 0 (tm 1 1)) [] [].

Example cx1_dest_needed :
  uuids_okb cx1_d = false /\ uuids_okb cx1_s = true
  /\ gi_uuid (db_root_info cx1_d) = gi_uuid (db_root_info cx1_s)
  /\ merge 5 cx1_d cx1_s = Ok (cx1_d, []) /\ ~ uuids_ok cx1_d.
Proof.
  repeat split; try (vm_compute; reflexivity).
  intro H. apply uuids_okb_spec in H. vm_compute in H. discriminate H.
Qed.

(* [uuids_ok s] dropped (same root UUID): a source entry carrying the root's UUID.
   find_node_location does not look at the root itself, so the entry is "new" and is created. *)
Definition cx2_d : db := mkDb (mkGinfo 100 0 (tm 1 1)) [] [].
Definition cx2_s : db := mkDb (mkGinfo 100 0 (tm 1 1)) [NE (en 100 10 1 1)] [].
Definition cx2_r : db := mkDb (mkGinfo 100 0 (tm 1 1)) [NE (en 100 10 1 1)] [].

Example cx2_source_needed :
  uuids_okb cx2_d = true /\ uuids_okb cx2_s = false
  /\ gi_uuid (db_root_info cx2_d) = gi_uuid (db_root_info cx2_s)
  /\ merge 5 cx2_d cx2_s = Ok (cx2_r, [Ev EntryCreated 100]) /\ ~ uuids_ok cx2_r.
Proof.
  repeat split; try (vm_compute; reflexivity).
  intro H. apply uuids_okb_spec in H. vm_compute in H. discriminate H.
Qed.

(* equal root UUIDs dropped (both databases well-formed): a source group carrying the
   destination root's UUID is created below that root *)
Definition cx3_s : db := mkDb (mkGinfo 200 0 (tm 1 1)) [NG (mkGinfo 100 0 (tm 1 1)) [NE (en 1 10 1 1)]] [].
Definition cx3_r : db := mkDb (mkGinfo 100 0 (tm 1 1)) [NG (mkGinfo 100 0 (tm 1 1)) [NE (en 1 10 1 1)]] [].

Example cx3_root_needed :
  uuids_okb cx2_d = true /\ uuids_okb cx3_s = true
  /\ gi_uuid (db_root_info cx2_d) <> gi_uuid (db_root_info cx3_s)
  /\ merge 5 cx2_d cx3_s = Ok (cx3_r, [Ev GroupCreated 100; Ev EntryCreated 1]) /\ ~ uuids_ok cx3_r.
Proof.
  repeat split; try (vm_compute; reflexivity).
  - intro H. vm_compute in H. discriminate H.
  - intro H. apply uuids_okb_spec in H. vm_compute in H. discriminate H.
Qed.

(* what is NOT needed: the source may repeat UUIDs among its own nodes (not the root's) *)
Definition cx4_s : db :=
  mkDb (mkGinfo 100 0 (tm 1 1))
       [NE (en 1 10 1 1); NG (mkGinfo 10 0 (tm 1 1)) [NE (en 1 11 2 2); NE (en 1 12 3 3)]] [].

Example cx4_source_duplicates_harmless :
  uuids_okb cx4_s = false
  /\ exists d' lg, merge 5 cx2_d cx4_s = Ok (d', lg) /\ uuids_okb d' = true.
Proof. split; [vm_compute; reflexivity|]. eexists _, _. split; vm_compute; reflexivity. Qed.

(* the hypothesis of merge_never_out_of_fuel is needed: with a repeated group UUID on one branch
   the deletion queue goes round for ever (each of the two tombstones waits for the other) *)
Definition cx5_d : db :=
  mkDb (mkGinfo 100 0 (tm 1 1))
       [NG (mkGinfo 1 0 (tm 1 1)) [NG (mkGinfo 2 0 (tm 1 1)) [NG (mkGinfo 1 0 (tm 1 1)) []]]] [].
Definition cx5_s : db := mkDb (mkGinfo 100 0 (tm 1 1)) [] [mkDobj 1 9; mkDobj 2 9].

Example cx5_fuel_needed :
  uuids_okb cx5_d = false /\ uuids_okb cx5_s = true /\ merge 5 cx5_d cx5_s = OutOfFuel.
Proof. repeat split; vm_compute; reflexivity. Qed.

(* the hypothesis of merge_conserves is needed: remove_node drops EVERY child with the UUID and
   relocate_node re-inserts only the last one, so with a repeated group UUID a relocation loses
   the other copy and what is below it (entry 7), without any event *)
Definition cx6_d : db :=
  mkDb (mkGinfo 100 0 (tm 1 1))
       [NG (mkGinfo 5 0 (tm 1 1)) [NE (en 7 70 1 1)]; NG (mkGinfo 5 0 (tm 1 1)) [NE (en 8 80 1 1)];
        NG (mkGinfo 10 0 (tm 1 1)) []] [].
Definition cx6_s : db :=
  mkDb (mkGinfo 100 0 (tm 1 1)) [NG (mkGinfo 10 0 (tm 1 1)) [NG (mkGinfo 5 0 (tm 1 3)) []]] [].
Definition cx6_r : db :=
  mkDb (mkGinfo 100 0 (tm 1 1))
       [NG (mkGinfo 10 0 (tm 1 1)) [NG (mkGinfo 5 0 (tm 1 3)) [NE (en 8 80 1 1)]]] [].

Example cx6_conservation_needs_unique :
  uuids_okb cx6_d = false /\ uuids_okb cx6_s = true
  /\ merge 5 cx6_d cx6_s = Ok (cx6_r, [Ev GroupLocationUpdated 5])
  /\ In 7 (tree_uuids (db_root cx6_d)) /\ ~ In 7 (tree_uuids (db_root cx6_r)).
Proof.
  repeat split; try (vm_compute; reflexivity).
  - vm_compute. tauto.
  - vm_compute. intuition discriminate.
Qed.

Print Assumptions merge_keeps_unique.
Print Assumptions merge_keeps_unique_gen.
Print Assumptions merge_children_unique.
Print Assumptions merge_keeps_root.
Print Assumptions merge_accounting.
Print Assumptions merge_conserves.
Print Assumptions merge_result_origin.
Print Assumptions merge_never_out_of_fuel.
Print Assumptions merge_group_step.
Print Assumptions merge_deletions_step.

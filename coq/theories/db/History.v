(* Entry history (C17).  Mirrors src/db/entry.rs: Entry::update_history,
   Entry::has_uncommitted_changes, History::add_entry. *)
From KP Require Import Bytes Tree.

(* `sanitized_entry`: times := Times::default(), history taken *)
Definition sanitize (e : entry) : entry := mkEntry (e_uuid e) (e_data e) times_default None.

Definition has_uncommitted_changes (e : entry) : bool :=
  match e_hist e with
  | Some h =>
    match h with
    | [] => true                                          (* history.entries.len() == 0 *)
    | last :: _ => negb (entry_eqb (sanitize e) (sanitize last))
    end
  | None => true
  end.

(* History::add_entry: nested history removed, insertion at index 0 *)
Definition strip (e : entry) : entry := e_set_hist e None.
Definition add_entry (h : list entry) (x : entry) : list entry := strip x :: h.

(* Entry::update_history with Times::now() = now.  Returns the new entry and the flag. *)
Definition update_history (now : Z) (e : entry) : entry * bool :=
  let e1 := match e_hist e with None => e_set_hist e (Some []) | Some _ => e end in
  if negb (has_uncommitted_changes e1) then (e1, false)
  else
    let e2 := e_set_times e1 (set_lm (e_times e1) now) in
    let snapshot := e_set_hist e2 None in                 (* clone, history.take().unwrap() *)
    match e_hist e2 with
    | Some h => (e_set_hist e2 (Some (add_entry h snapshot)), true)
    | None => (e2, true)                                  (* unreachable: e1 always has Some *)
    end.

(* The operations of the property's quantifier. *)
Inductive hop :=
| OpSetData (d : N)              (* any edit of fields / tags / colours / auto-type / custom data *)
| OpSetRest (r : N)              (* any edit of expires / usage count / other time stamps *)
| OpSetLc (t : Z)                (* move: LocationChanged *)
| OpCommit (now : Z)
| OpAddExternal (x : entry).     (* entry.history (created if absent) .add_entry(x) *)

Definition apply_hop (e : entry) (o : hop) : entry :=
  match o with
  | OpSetData d => e_set_data e d
  | OpSetRest r => e_set_times e (mkTimes (t_lm (e_times e)) (t_lc (e_times e)) r)
  | OpSetLc t => e_set_times e (set_lc (e_times e) t)
  | OpCommit now => fst (update_history now e)
  | OpAddExternal x =>
    e_set_hist e (Some (add_entry (match e_hist e with Some h => h | None => [] end) x))
  end.

Definition run_hops (e : entry) (ops : list hop) : entry := fold_left apply_hop ops e.

Definition hist_list (e : entry) : list entry := match e_hist e with Some h => h | None => [] end.
